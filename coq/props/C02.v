(* C02 - every shipped wire message survives encode/decode unchanged.  Property theorems only. *)
From Coq Require Import ZArith List Bool.
From IPV8V Require Import lib.PyErr lib.Bytes lib.BE model.M02_wire gen.G02_registry spec.S02_documented
  proofs.P02_prims proofs.P02_roundtrip proofs.P02_shipped.
Import ListNotations.

(* Any well-formed format, any legal value, any start offset, any surrounding bytes: decoding the
   encoding returns the value and the exact end position.  (A greedy format - raw - must be last.) *)
Theorem pack_unpack_fmt : forall key_ok f v bs (pre suf : bytes),
  wf_fmt f = true -> val_ok key_ok f v = true -> pack key_ok f v = Ok bs ->
  (greedy f = false \/ suf = []) ->
  unpack key_ok f (pre ++ bs ++ suf) (length pre) = Ok (v, (length pre + length bs)%nat).
Proof. exact pack_unpack_fmt_l. Qed.
Print Assumptions pack_unpack_fmt.

(* The same for whole messages (format lists), nested to any depth, listed to any length. *)
Theorem msg_roundtrip : forall key_ok m vs bs (pre suf : bytes),
  wf_msg m = true -> msg_ok key_ok m vs = true -> pack_msg key_ok m vs = Ok bs ->
  (msg_greedy m = false \/ suf = []) ->
  unpack_msg key_ok m (pre ++ bs ++ suf) (length pre) = Ok (vs, (length pre + length bs)%nat).
Proof. exact msg_roundtrip_l. Qed.
Print Assumptions msg_roundtrip.

(* Re-encoding what was decoded from an encoding gives the same bytes, and the decode consumed exactly them. *)
Theorem reencode_identical : forall key_ok m vs bs (pre suf : bytes) vs' o,
  wf_msg m = true -> msg_ok key_ok m vs = true -> pack_msg key_ok m vs = Ok bs ->
  (msg_greedy m = false \/ suf = []) ->
  unpack_msg key_ok m (pre ++ bs ++ suf) (length pre) = Ok (vs', o) ->
  pack_msg key_ok m vs' = Ok bs /\ o = (length pre + length bs)%nat.
Proof. exact reencode_identical_l. Qed.
Print Assumptions reencode_identical.

(* The registry the code builds is the documented wire table. *)
Theorem registry_is_documented :
  registry_default = documented /\ registry_overlay = documented_overlay.
Proof. exact registry_documented_l. Qed.
Print Assumptions registry_is_documented.

(* Every definition shipped in the ipv8 package is well-formed ... *)
Theorem shipped_wf : forall name fs, In (name, fs) msgdefs -> wf_msg (msg_of_list fs) = true.
Proof. exact shipped_wf_l. Qed.
Print Assumptions shipped_wf.

(* ... hence round-trips. *)
Theorem shipped_roundtrip : forall key_ok name fs vs bs (pre suf : bytes),
  In (name, fs) msgdefs ->
  msg_ok key_ok (msg_of_list fs) vs = true -> pack_msg key_ok (msg_of_list fs) vs = Ok bs ->
  (msg_greedy (msg_of_list fs) = false \/ suf = []) ->
  unpack_msg key_ok (msg_of_list fs) (pre ++ bs ++ suf) (length pre) = Ok (vs, (length pre + length bs)%nat).
Proof. exact shipped_roundtrip_l. Qed.
Print Assumptions shipped_roundtrip.

(* Open finding: the documentation prescribes big-endian length prefixes and values throughout; as built the
   array formats are in machine (little-endian) order.  Witness: one boolean. *)
Theorem array_formats_big_endian_refuted :
  exists v bs, pack (fun _ => true) (FArray PBool 2) v = Ok bs /\ bs <> be_encode 2 1 ++ [1%Z] /\
  pack (fun _ => true) (FArray (PS 8) 2) (VList [VInt 1]) <> Ok (be_encode 2 1 ++ be_encode 8 1).
Proof. exists (VList [VBool true]), [1; 0; 1]%Z. vm_compute. repeat split; congruence. Qed.
Print Assumptions array_formats_big_endian_refuted.

(* non-vacuity: a nested, listed message with a domain address actually round-trips at offset 3 *)
Example c02_nonvacuous :
  let k := fun _ : bytes => true in
  let inner := [FAddr false; FVarLen 2 1 false; FBits] in
  let m := msg_of_list [FStruct [PU 4]; FListOf 1 (FNested (msg_of_list inner)); FRaw] in
  let vs := [VInt 77; VList [VMsg [VAddr (ADom [104; 105] 80); VBytes [1; 2; 3];
                                   VTuple [VInt 1; VInt 0; VInt 1; VInt 0; VInt 0; VInt 0; VInt 0; VInt 1]]];
             VBytes [9; 9]] in
  msg_ok k m vs = true /\ wf_msg m = true /\
  match pack_msg k m vs with
  | Ok bs => unpack_msg k m ([0; 0; 0] ++ bs) 3 = Ok (vs, (3 + length bs)%nat) /\ length bs = 22%nat
  | Raise _ => False
  end.
Proof. vm_compute. repeat split; reflexivity. Qed.
