(* C05 - circuits are isolated from each other and from third parties.  Property theorems only.
   Data plane: model/M04_onion.v; routing tables under control traffic: model/M05_isolation.v (after the
   `fix:` commits that make on_create refuse an id in use and on_created refuse an already extended id).  AEAD, key agreement and payload parsing abstract. *)
From Coq Require Import ZArith List Bool Lia.
From IPV8V Require Import lib.PyErr lib.Bytes lib.BE model.M02_wire model.M03_recv model.M04_onion model.M04_harness
  model.M05_isolation model.M05_harness spec.S04_onion_spec spec.S05_isolation_spec
  proofs.P04_endpoint proofs.P04_props proofs.P05_tables proofs.P05_control proofs.P05_inv proofs.P05_binding.
Import ListNotations.
Open Scope Z_scope.

(* unknown_or_keyless_is_noop, general form: NO datagram whatsoever - any byte string, from any address,
   whether it names an unknown id, a known id without that circuit's keys, or is a perfectly valid cell -
   adds, removes, re-keys or re-routes an entry of the three routing tables through the data plane.  Only the
   relay_early counters and an exit socket's enabled flag move. *)
Theorem data_plane_preserves_tables :
  forall (key nonce : Type) (enc : key -> dir -> nonce -> bytes -> bytes) (dec : key -> dir -> bytes -> option bytes)
         (nd : node key) (src : addr) (pkt : bytes) (rnd : Z -> bytes) (ns : nat -> nonce)
         (nd' : node key) (acts : list action),
  on_packet enc dec nd src pkt rnd ns = Ok (nd', acts) -> same_tables nd nd'.
Proof. exact on_packet_same. Qed.
Print Assumptions data_plane_preserves_tables.

(* the same including the nested dispatch of datagrams re-injected from a data message (on_packet_rec) *)
Theorem data_plane_preserves_tables_nested :
  forall (key nonce : Type) (enc : key -> dir -> nonce -> bytes -> bytes) (dec : key -> dir -> bytes -> option bytes)
         (nd : node key) (src : addr) (pkt : bytes) (rnd : Z -> bytes) (ns : nat -> nonce)
         (nd' : node key) (acts : list action),
  on_packet_rec enc dec nd src pkt rnd ns = Ok (nd', acts) -> same_tables nd nd'.
Proof. exact on_packet_rec_same. Qed.
Print Assumptions data_plane_preserves_tables_nested.

(* whatever bytes the cell dispatcher is handed, from whatever source address - in particular a datagram re-injected
   from a data message, whose source is the OUTSIDE sender - the consumer is reached only through the data handler,
   for one of our own circuits whose first hop has exactly that source address (ip and port) *)
Theorem dispatcher_consumer_needs_first_hop_address :
  forall (key nonce : Type) (enc : key -> dir -> nonce -> bytes -> bytes)
         (nd : node key) (src : addr) (data : bytes) (cid : Z) (rnd : Z -> bytes) (ns : nat -> nonce)
         (nd' : node key) (acts : list action) (a : action),
  on_packet_from_circuit enc nd src data cid rnd ns = Ok (nd', acts) -> In a acts -> is_consumer a = true ->
  exists cid' ci h0, assoc cid' (n_circuits nd) = Some ci /\ circuit_hop ci = Ok h0 /\ addr_eqb src (h_addr h0) = true.
Proof. exact dispatcher_consumer_l. Qed.
Print Assumptions dispatcher_consumer_needs_first_hop_address.

(* unknown id: nothing at all happens (state identical, no output) *)
Theorem unknown_id_is_noop :
  forall (key nonce : Type) (enc : key -> dir -> nonce -> bytes -> bytes) (dec : key -> dir -> bytes -> option bytes)
         (nd : node key) (src : addr) (cid : Z) (body : bytes) (early : bool) (rnd : Z -> bytes) (ns : nat -> nonce),
  length (n_prefix nd) = 22%nat -> cid_ok cid ->
  assoc cid (n_relays nd) = None -> assoc cid (n_exits nd) = None -> assoc cid (n_circuits nd) = None ->
  on_packet enc dec nd src (cell_to_bin (n_prefix nd) (mkCell cid body false early)) rnd ns = Ok (nd, []).
Proof. exact unknown_circuit_dropped. Qed.
Print Assumptions unknown_id_is_noop.

(* known id without the keys of that circuit, at a node that has to open a layer: nothing at all happens
   (the originator's case is C04.tamper_dropped_at_originator / foreign_key_dropped_at_originator) *)
Theorem keyless_is_noop_at_relay :
  forall (key nonce : Type) (enc : key -> dir -> nonce -> bytes -> bytes) (dec : key -> dir -> bytes -> option bytes)
         (nd : node key) (src : addr) (cid : Z) (r : relay_route key) (k : key) (body : bytes) (early : bool)
         (rnd : Z -> bytes) (ns : nat -> nonce),
  aead_authentic enc dec -> length (n_prefix nd) = 22%nat -> cid_ok cid ->
  assoc cid (n_relays nd) = Some r -> rr_rdv r = false -> rr_dir r = FORWARD -> h_keys (rr_hop r) = Some k ->
  (forall n m, body <> enc k FORWARD n m) ->
  on_packet enc dec nd src (cell_to_bin (n_prefix nd) (mkCell cid body false early)) rnd ns = Ok (nd, []).
Proof. exact tamper_relay_dropped_l. Qed.
Print Assumptions keyless_is_noop_at_relay.

Theorem keyless_is_noop_at_exit :
  forall (key nonce : Type) (enc : key -> dir -> nonce -> bytes -> bytes) (dec : key -> dir -> bytes -> option bytes)
         (nd : node key) (src : addr) (cid : Z) (es : exit_sock key) (k : key) (body : bytes) (early : bool)
         (rnd : Z -> bytes) (ns : nat -> nonce),
  aead_authentic enc dec -> length (n_prefix nd) = 22%nat -> cid_ok cid ->
  assoc cid (n_relays nd) = None -> assoc cid (n_exits nd) = Some es -> h_keys (es_hop es) = Some k ->
  (forall n m, body <> enc k FORWARD n m) ->
  on_packet enc dec nd src (cell_to_bin (n_prefix nd) (mkCell cid body false early)) rnd ns = Ok (nd, []).
Proof. exact tamper_exit_dropped_l. Qed.
Print Assumptions keyless_is_noop_at_exit.

(* routing_by_header: tables are consulted with the id of the cell header (process_cell / relay_cell /
   incoming_crypto take cl_cid of from_bin); the handlers receive the unwrapped cell, into which that same id
   has been re-injected ... *)
Theorem handlers_get_header_cid :
  forall (key nonce : Type) (enc : key -> dir -> nonce -> bytes -> bytes) (nd : node key) (src : addr)
         (cid m0 : Z) (rest : list Z) (early : bool) (rnd : Z -> bytes) (ns : nat -> nonce),
  length (n_prefix nd) = 22%nat -> cid_ok cid ->
  community_on_cell_packet enc nd src (cell_to_bin (n_prefix nd) (mkCell cid (m0 :: rest) false early)) rnd ns
  = try_catch (on_packet_from_circuit enc nd src (n_prefix nd ++ [m0] ++ be_encode 4 cid ++ rest) cid rnd ns)
              (fun _ => Ok (nd, [])).
Proof. exact community_cell. Qed.
Print Assumptions handlers_get_header_cid.

(* ... so the circuit id every cell handler decodes (first field of every cell payload) is the header's,
   whatever the encrypted body contains *)
Theorem decoded_cid_is_header_cid :
  forall (m : msgfmt) (pre rest : bytes) (cid : Z) (vs : list val) (o : nat),
  length pre = 23%nat -> cid_ok cid ->
  unpack_msg no_keys (MCons (FStruct [PU 4]) m) (pre ++ be_encode 4 cid ++ rest) 23 = Ok (vs, o) ->
  exists tl, vs = VInt cid :: tl.
Proof. exact handler_cid_is_header_cid. Qed.
Print Assumptions decoded_cid_is_header_cid.

(* exit_binding: bytes leave through exit socket cid only because of a non-plaintext cell whose header names
   cid, which is not a relay id there, and whose body is an encryption under THAT socket's session key in the
   forward direction; and only from the previous hop's address unless that hop enabled the socket before. *)
Theorem exit_binding :
  forall (key nonce : Type) (enc : key -> dir -> nonce -> bytes -> bytes) (dec : key -> dir -> bytes -> option bytes)
         (nd : node key) (src : addr) (pkt : bytes) (rnd : Z -> bytes) (ns : nat -> nonce)
         (nd' : node key) (acts : list action) (cid : Z) (data : bytes) (dest : addr),
  aead_authentic enc dec -> length (n_prefix nd) = 22%nat -> bytes_ok pkt ->
  on_packet enc dec nd src pkt rnd ns = Ok (nd', acts) -> In (ExitSendto cid data dest) acts ->
  exists (c : cell) (es : exit_sock key) (k : key) (n : nonce) (m : bytes),
    from_bin pkt = Ok c /\ cl_cid c = cid /\ cl_plain c = false /\
    assoc cid (n_relays nd) = None /\ assoc cid (n_exits nd) = Some es /\ h_keys (es_hop es) = Some k /\
    cl_msg c = enc k FORWARD n m /\
    (es_enabled es = true \/ ip_eqb src (h_addr (es_hop es)) = true).
Proof. exact exit_binding_l. Qed.
Print Assumptions exit_binding.

(* origin_binding: the originator's consumer (on_raw_data / re-injection / other overlays) is only reached by
   a non-plaintext cell whose header id is one of our own circuits, that opened under the keys this node holds
   for that id, and that came from that circuit's first hop - and it is labelled with that id. *)
Theorem origin_binding :
  forall (key nonce : Type) (enc : key -> dir -> nonce -> bytes -> bytes) (dec : key -> dir -> bytes -> option bytes)
         (nd : node key) (src : addr) (pkt : bytes) (rnd : Z -> bytes) (ns : nat -> nonce)
         (nd' : node key) (acts : list action) (a : action),
  length (n_prefix nd) = 22%nat -> bytes_ok pkt ->
  on_packet enc dec nd src pkt rnd ns = Ok (nd', acts) -> In a acts -> is_consumer a = true ->
  exists (c c1 : cell) (ci : circuit key) (h0 : hop key) (origin : addr) (payload : bytes),
    from_bin pkt = Ok c /\ cl_plain c = false /\ assoc (cl_cid c) (n_relays nd) = None /\
    incoming_crypto dec nd c = Ok (Some c1) /\
    assoc (cl_cid c) (n_circuits nd) = Some ci /\ circuit_hop ci = Ok h0 /\ addr_eqb src (h_addr h0) = true /\
    (a = RawData (cl_cid c) origin payload \/ a = Reinject origin payload (cl_cid c) \/ a = NotifyOther origin payload).
Proof. exact origin_binding_l. Qed.
Print Assumptions origin_binding.

(* replies from outside enter only that circuit, with that id: what tunnel_data sends for socket es is one
   cell under es's own id, one BACKWARD layer of es's key, to es's previous hop (C04.backward_intact), and
   tables_ok.ok_exit_id below keeps es_cid equal to the id the socket is filed under. *)

(* create_in_use_refused: a create whose id is live in ANY table of the receiving node (or still has its
   CreatedRequestCache) changes nothing and is not answered. *)
Theorem create_in_use_refused :
  forall (key : Type) (c : cnode key) (src : addr) (cid ident : Z) (npk : option Z) (k : option key)
         (cands : list (Z * peer)),
  in_use (cn_tab c) cid = true \/ has cid (cn_created c) = true ->
  on_create c src cid ident npk k cands = (c, []).
Proof. exact create_in_use_refused_l. Qed.
Print Assumptions create_in_use_refused.

(* and an accepted create only adds one exit socket under an id unused so far *)
Theorem create_only_adds :
  forall (key : Type) (c : cnode key) (src : addr) (cid ident : Z) (npk : option Z) (k : option key)
         (cands : list (Z * peer)) (c' : cnode key) (acts : list cact),
  on_create c src cid ident npk k cands = (c', acts) -> c' <> c ->
  in_use (cn_tab c) cid = false /\ has cid (cn_created c) = false /\
  n_circuits (cn_tab c') = n_circuits (cn_tab c) /\ n_relays (cn_tab c') = n_relays (cn_tab c) /\
  exists pk k0, npk = Some pk /\ k = Some k0 /\
    n_exits (cn_tab c') = upd cid (mkES cid (mkHop pk src (Some k0)) false) (n_exits (cn_tab c)).
Proof. exact create_only_adds_l. Qed.
Print Assumptions create_only_adds.

(* destroy_only_adjacent: a destroy whose signature does not verify does nothing; one that verifies for key pk
   touches no relay / exit entry and no cache itself, and schedules removals only for entries whose stored
   neighbour on that circuit has key pk. *)
Theorem destroy_unsigned_is_noop :
  forall (key nonce : Type) (enc : key -> dir -> nonce -> bytes -> bytes) (dec : key -> dir -> bytes -> option bytes)
         (c : cnode key) (pk : Z) (pa : addr) (cid reason : Z),
  cstep enc dec c (ODestroy false pk pa cid reason) = Ok (c, []).
Proof. exact destroy_bad_signature_l. Qed.
Print Assumptions destroy_unsigned_is_noop.

Theorem destroy_only_adjacent :
  forall (key : Type) (c : cnode key) (pk cid reason : Z) (c' : cnode key) (acts : list cact),
  on_destroy c pk cid reason = Ok (c', acts) -> destroy_post c pk c'.
Proof. exact destroy_only_adjacent_l. Qed.
Print Assumptions destroy_only_adjacent.

(* entries disappear only at a timer tick, and then only those scheduled for removal *)
Theorem timer_pops_only_scheduled :
  forall (key nonce : Type) (enc : key -> dir -> nonce -> bytes -> bytes) (dec : key -> dir -> bytes -> option bytes)
         (c c' : cnode key) (acts : list cact),
  cstep enc dec c OTimer = Ok (c', acts) ->
  (forall x v, assoc x (n_relays (cn_tab c')) = Some v -> assoc x (n_relays (cn_tab c)) = Some v) /\
  (forall x v, assoc x (n_exits (cn_tab c')) = Some v -> assoc x (n_exits (cn_tab c)) = Some v) /\
  (forall x v, assoc x (n_relays (cn_tab c)) = Some v -> assoc x (n_relays (cn_tab c')) = Some v \/ In (PRelay x) (cn_pending c)) /\
  (forall x v, assoc x (n_exits (cn_tab c)) = Some v -> assoc x (n_exits (cn_tab c')) = Some v \/ In (PExit x) (cn_pending c)).
Proof. exact timer_pops_only_pending_l. Qed.
Print Assumptions timer_pops_only_scheduled.

(* tables_inv, creation of a relay: created turns the exit socket into a mutually inverse pair of relay
   routes keyed with the exit socket's session keys, towards the peer that created it and the peer extended
   to; the exit socket is scheduled for removal (hand-over window) *)
Theorem created_makes_inverse_pair :
  forall (key : Type) (c : cnode key) (src : addr) (cid ident : Z) (rq : create_cache) (es : exit_sock key),
  assoc ident (cn_create c) = Some rq -> assoc (cr_from rq) (n_exits (cn_tab c)) = Some es ->
  has (cr_from rq) (n_relays (cn_tab c)) = false -> cr_to rq <> cr_from rq ->
  let c' := fst (on_created c src cid ident) in
  exists fw bw,
    assoc (cr_from rq) (n_relays (cn_tab c')) = Some fw /\ assoc (cr_to rq) (n_relays (cn_tab c')) = Some bw /\
    rr_cid fw = cr_to rq /\ rr_cid bw = cr_from rq /\ rr_dir fw = FORWARD /\ rr_dir bw = BACKWARD /\
    h_keys (rr_hop fw) = h_keys (es_hop es) /\ h_keys (rr_hop bw) = h_keys (es_hop es) /\
    h_pk (rr_hop bw) = pr_pk (cr_peer rq) /\ h_pk (rr_hop fw) = pr_pk (cr_to_peer rq) /\
    n_exits (cn_tab c') = n_exits (cn_tab c) /\ n_circuits (cn_tab c') = n_circuits (cn_tab c) /\
    In (PExit (cr_from rq)) (cn_pending c').
Proof. exact created_makes_inverse_pair_l. Qed.
Print Assumptions created_makes_inverse_pair.

(* a created - genuine, stale, duplicated or forged - never changes an existing relay entry: the routes of an
   established circuit cannot be redirected by a late answer to an abandoned extend (after the `fix:` commit
   "a stale created rewrites the forward route of an already extended circuit") *)
Theorem created_never_overwrites_relay :
  forall (key : Type) (c : cnode key) (src : addr) (cid ident : Z),
  tables_ok c ->
  forall x r, assoc x (n_relays (cn_tab c)) = Some r ->
              assoc x (n_relays (cn_tab (fst (on_created c src cid ident)))) = Some r.
Proof. exact created_never_overwrites_relay_l. Qed.
Print Assumptions created_never_overwrites_relay.

(* tables_inv: over every history of cells (any bytes), creates, createds, extends, destroys (signed or not,
   from anybody), local removals, timer ticks, cache expiries and the node's own circuit business, the tables
   stay well formed: own circuit ids are not relay / exit ids; an id is relay and exit at once only in the
   hand-over window, with the same keys; exit sockets answer under their own id; extends in progress point at
   unused, pairwise distinct ids.  (Random ids are assumed not to collide: run_fresh.) *)
Theorem tables_inv_step :
  forall (key nonce : Type) (enc : key -> dir -> nonce -> bytes -> bytes) (dec : key -> dir -> bytes -> option bytes)
         (c : cnode key) (o : cop key nonce) (c' : cnode key) (acts : list cact),
  tables_ok c -> op_fresh c o -> cstep enc dec c o = Ok (c', acts) -> tables_ok c'.
Proof. exact cstep_ok. Qed.
Print Assumptions tables_inv_step.

Theorem tables_inv :
  forall (key nonce : Type) (enc : key -> dir -> nonce -> bytes -> bytes) (dec : key -> dir -> bytes -> option bytes)
         (ops : list (cop key nonce)) (c c' : cnode key) (acts : list cact),
  tables_ok c -> run_fresh enc dec c ops -> crun enc dec c ops = Ok (c', acts) -> tables_ok c'.
Proof. exact crun_ok. Qed.
Print Assumptions tables_inv.

(* every entry's keys are the ones agreed when it was created: whatever the operation, a relay entry that
   survives it keeps its session keys, an exit socket keeps its id, previous hop and keys *)
Theorem entries_never_rekeyed :
  forall (key nonce : Type) (enc : key -> dir -> nonce -> bytes -> bytes) (dec : key -> dir -> bytes -> option bytes)
         (c : cnode key) (o : cop key nonce) (c' : cnode key) (acts : list cact),
  tables_ok c -> op_fresh c o -> cstep enc dec c o = Ok (c', acts) -> keys_kept (cn_tab c) (cn_tab c').
Proof. exact cstep_keys_kept. Qed.
Print Assumptions entries_never_rekeyed.

(* ---------------------------------------------------------------------------------------------------
   Non-vacuity: a relay that is exit for one circuit, relay for another and has an extend in progress. *)
Definition zpfx : bytes := [0; 2] ++ repeat 7 20%nat.
Definition zA := A4 [10; 0; 0; 1] 1000.
Definition zB := A4 [10; 0; 0; 2] 1000.
Definition zC := A4 [10; 0; 0; 3] 1000.
Definition ztab : node Z :=
  mkNode zpfx 8 [1] [1; 2; 3; 4; 5; 6; 7; 19; 20] [] false []
         [(100, mkRR 200 (mkHop 2 zB (Some 11)) FORWARD false 1); (200, mkRR 100 (mkHop 1 zA (Some 11)) BACKWARD false 1)]
         [(300, mkES 300 (mkHop 3 zC (Some 12)) false)].
Definition zc : cnode Z :=
  mkCN ztab [(300, mkCreated (mkPeer 3 zC) [(2, mkPeer 2 zB)])]
       [(7, mkCreate 55 400 300 (mkPeer 3 zC) (mkPeer 2 zB))] [] 100.

Example c05_state_is_well_formed : tables_ok zc.
Proof.
  constructor; cbn.
  - intros x H. discriminate H.
  - intros x r es Hr He. destruct (x =? 300) eqn:E3; [|discriminate He].
    destruct (x =? 100) eqn:E1; [lia|]. destruct (x =? 200) eqn:E2; [lia|]. discriminate Hr.
  - intros x es He. destruct (x =? 300) eqn:E3; [|discriminate He]. injection He as <-. cbn. lia.
  - intros n rq H. destruct (n =? 7); [|discriminate H]. injection H as <-. reflexivity.
  - intros n1 n2 r1 r2 H1 H2 Hn. destruct (n1 =? 7) eqn:E1; [|discriminate H1]. destruct (n2 =? 7) eqn:E2; [|discriminate H2]. lia.
Qed.

(* a create under the live relay id 100, the live exit id 300: refused; under a fresh id: accepted.
   a destroy for relay id 100 signed by the far neighbour (key 2) instead of the near one (key 1): ignored;
   by key 1: both routes scheduled, destroy forwarded; created for the pending extend: inverse pair 300 <-> 400 *)
Example c05_behaviour :
  run_ccase (zc, OCreate zB 100 9 (Some 9) (Some 77) []) = Ok (zc, [])
  /\ run_ccase (zc, OCreate zB 300 9 (Some 9) (Some 77) []) = Ok (zc, [])
  /\ (exists c', run_ccase (zc, OCreate zB 500 9 (Some 9) (Some 77) []) = Ok (c', [CCell zB 500 3 true])
                 /\ has 500 (n_exits (cn_tab c')) = true)
  /\ run_ccase (zc, ODestroy true 2 zB 100 1) = Ok (zc, [])
  /\ run_ccase (zc, ODestroy false 1 zA 100 1) = Ok (zc, [])
  /\ (exists c', run_ccase (zc, ODestroy true 1 zA 100 1) = Ok (c', [CDestroy zB 200 1])
                 /\ cn_pending c' = [PRelay 100; PRelay 200] /\ cn_tab c' = cn_tab zc)
  /\ (exists c', run_ccase (zc, OCreated zB 400 7) = Ok (c', [CCell zC 300 5 false])
                 /\ option_map (@rr_cid Z) (assoc 300 (n_relays (cn_tab c'))) = Some 400
                 /\ option_map (@rr_cid Z) (assoc 400 (n_relays (cn_tab c'))) = Some 300
                 /\ cn_pending c' = [PExit 300]).
Proof.
  vm_compute. repeat split; try reflexivity; eexists; repeat split; reflexivity.
Qed.
