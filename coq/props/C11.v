(* C11 - an unloaded overlay is silent and holds no resources.  Property theorems only.

   Three machines (model/M11_listeners.v, M11_tasks.v, M11_lifecycle.v): the endpoint listener table
   with the TunnelEndpoint / StatisticsEndpoint wrappers, the task manager on asyncio's ready queue,
   and their composition per overlay instance.  gen/G11_api.v and gen/G11_unload.v are regenerated
   from the source on every run: the methods the wrappers define, and the steps of every shipped
   overlay class's unload(). *)
From Coq Require Import ZArith List Bool String.
From IPV8V Require Import lib.PyErr lib.Bytes model.M11_listeners model.M11_tasks model.M11_lifecycle model.M11_service
  gen.G11_api gen.G11_unload proofs.P11_listeners proofs.P11_tasks proofs.P11_lifecycle proofs.P11_service proofs.P11_shipped.
Import ListNotations.
Open Scope Z_scope.

(* ---------------------------------------------------------------- (i) listener table *)

(* For every table history (e is arbitrary) and every wrapper that forwards the listener API: after
   remove_listener(l) through the endpoint object the overlay holds, no datagram - from the socket
   or from the tunnel - calls l, in any later history that does not register l again. *)
Theorem removed_listener_silent : forall e l ops o,
  forwards_all (wapi (wrap e)) = true ->
  Forall (fun x => mentions l x = false) ops ->
  ~ In l (called (run (fst (step e (RemL l))) ops) o).
Proof. exact removed_listener_silent_l. Qed.
Print Assumptions removed_listener_silent.

(* The wrappers shipped in the source do forward it (generated table; fails to compile otherwise). *)
Theorem shipped_wrappers_forward : forwards_all tunnel_api = true /\ forwards_all stats_api = true.
Proof. exact shipped_wrappers_forward_l. Qed.
Print Assumptions shipped_wrappers_forward.

(* Hence: behind a plain endpoint, a TunnelEndpoint or a StatisticsEndpoint as they are in the
   source, a removed listener is never called again. *)
Theorem removed_listener_silent_shipped : forall e l ops o,
  shipped_wrapper (wrap e) ->
  Forall (fun x => mentions l x = false) ops ->
  ~ In l (called (run (fst (step e (RemL l))) ops) o).
Proof. exact removed_listener_silent_shipped_l. Qed.
Print Assumptions removed_listener_silent_shipped.

(* ... and the wrapped endpoint keeps no reference to it (global list and every prefix entry). *)
Theorem removed_listener_unreferenced : forall e l ops,
  forwards_all (wapi (wrap e)) = true ->
  Forall (fun x => mentions l x = false) ops ->
  absent l (inner (run (fst (step e (RemL l))) ops)).
Proof. exact removed_listener_unreferenced_l. Qed.
Print Assumptions removed_listener_unreferenced.

(* Not vacuous: a listener registered for a prefix on an open endpoint IS called for a datagram
   with that prefix. *)
Theorem registered_listener_called : forall e l (p body : bytes) t',
  forwards_all (wapi (wrap e)) = true -> opened (inner e) = true ->
  List.length p = PREFIXLEN -> t_addp (inner e) l p = Ok t' ->
  In l (called (fst (step e (AddP l p))) (Socket (p ++ body))).
Proof. exact registered_listener_called_l. Qed.
Print Assumptions registered_listener_called.

(* ---------------------------------------------------------------- (ii) task manager *)

(* In every reachable state of a manager that is not shut down: register_task under a name whose
   task is still active (not done, nobody cancelled it) raises and changes nothing. *)
Theorem task_name_exclusive : forall s tid t k,
  reachable s -> shut s = false -> get s tid = Some t -> live t = true ->
  register s (t_name t) k = (s, RRaise).
Proof. exact task_name_exclusive_l. Qed.
Print Assumptions task_name_exclusive.

(* Two active tasks never carry the same name. *)
Theorem active_names_unique : forall s i j ti tj,
  reachable s -> get s i = Some ti -> get s j = Some tj -> live ti = true -> live tj = true ->
  t_name ti = t_name tj -> i = j.
Proof. exact active_names_unique_l. Qed.
Print Assumptions active_names_unique.

(* In every history: whenever the callback of replace_task registers the new task, the task it
   replaced is done (finished or cancelled and past its last step). *)
Theorem replace_order : forall ops old b r,
  In (ORepl (Some old) b r) (snd (trun init_tm ops)) -> b = true.
Proof. exact replace_order_l. Qed.
Print Assumptions replace_order.

(* replace_task itself starts nothing and creates no task: the new one only comes from the callback. *)
Theorem replace_is_deferred : forall s n,
  snd (tstep s (Replace n)) = [] /\ List.length (tasks (fst (tstep s (Replace n)))) = List.length (tasks s).
Proof. exact replace_is_deferred_l. Qed.
Print Assumptions replace_is_deferred.

(* shutdown_task_manager asks every task that could still act to stop. *)
Theorem shutdown_cancels_all : forall s,
  inv s -> shut s = false ->
  let s' := fst (tstep s Shutdown) in shut s' = true /\ no_live s' = true.
Proof. exact shutdown_cancels_all_l. Qed.
Print Assumptions shutdown_cancels_all.

(* After shutdown_task_manager, whatever is attempted and whatever the loop still runs: every
   register_* (direct, anonymous, from a replace callback) is answered with a completed future,
   no task is created, no task body starts, no task is live. *)
Theorem shutdown_refuses : forall s ops,
  reachable s ->
  let s1 := fst (tstep s Shutdown) in
  shut s1 = true /\ no_live s1 = true
  /\ Forall quiet_out (snd (trun s1 ops))
  /\ List.length (tasks (fst (trun s1 ops))) = List.length (tasks s1)
  /\ shut (fst (trun s1 ops)) = true
  /\ no_live (fst (trun s1 ops)) = true.
Proof. exact shutdown_refuses_l. Qed.
Print Assumptions shutdown_refuses.

(* ---------------------------------------------------------------- (iii) overlay lifecycle *)

(* The unload() of every shipped overlay class (steps regenerated from the source, flattened
   through the MRO) is complete: it takes the overlay and its crypto endpoint off the endpoint,
   shuts down its task manager and its request cache, and closes its exit sockets after all that. *)
Theorem shipped_unloads_complete : forallb row_complete unload_table = true.
Proof. exact shipped_unloads_complete_l. Qed.
Print Assumptions shipped_unloads_complete.

Theorem shipped_classes_listed :
  map (fun r => fst (fst r)) unload_table =
  ["DiscoveryCommunity"; "DHTCommunity"; "DHTDiscoveryCommunity"; "TunnelCommunity"; "HiddenTunnelCommunity";
   "PexCommunity"; "AttestationCommunity"; "IdentityCommunity"]%string.
Proof. exact shipped_classes_listed_l. Qed.
Print Assumptions shipped_classes_listed.

(* From any loaded state (any tables, tasks, sockets), a complete unload() - its steps interleaved
   with arbitrary datagrams, loop iterations, task activity and socket traffic - ends unloaded. *)
Theorem unload_establishes : forall c n l,
  loaded c n -> Forall (fun i => item_routed i = true) l ->
  complete_unload c (steps_of l) = true -> unloaded (fst (irun c n l)).
Proof. exact unload_establishes_l. Qed.
Print Assumptions unload_establishes.

(* Once unload() has completed - at whatever moment it was requested - for every later datagram,
   loop iteration, task or cache deadline, socket datagram, API call, and every resumption of a public
   coroutine the application is still awaiting whose sending steps are tasks of the overlay's manager
   (item_routed): no handler entry, no send, no task start, no task body, no transport send; only
   refusals; every socket stays closed. *)
Theorem unloaded_is_silent : forall c n l later,
  loaded c n -> Forall (fun i => item_routed i = true) (l ++ later) ->
  complete_unload c (steps_of l) = true ->
  let n1 := fst (irun c n l) in
  Forall silent_out (snd (irun c n1 later))
  /\ Forall (fun s => s_open s = false) (n_socks (fst (irun c n1 later)))
  /\ unloaded (fst (irun c n1 later)).
Proof. exact unloaded_is_silent_l. Qed.
Print Assumptions unloaded_is_silent.

(* The same for the shipped classes, with the generated step lists. *)
Theorem shipped_unloaded_is_silent : forall nm c steps n l later,
  In (nm, c, steps) unload_table -> loaded c n -> Forall (fun i => item_routed i = true) (l ++ later) ->
  steps_of l = steps ->
  let n1 := fst (irun c n l) in
  Forall silent_out (snd (irun c n1 later))
  /\ Forall (fun s => s_open s = false) (n_socks (fst (irun c n1 later)))
  /\ unloaded (fst (irun c n1 later)).
Proof. exact shipped_unloaded_is_silent_l. Qed.
Print Assumptions shipped_unloaded_is_silent.

(* After unload neither the overlay nor the crypto endpoint it installed is called or referenced. *)
Theorem crypto_listener_removed : forall c n l later o,
  loaded c n -> Forall (fun i => item_routed i = true) (l ++ later) ->
  complete_unload c (steps_of l) = true ->
  let n2 := fst (irun c (fst (irun c n l)) later) in
  ~ In (n_me n2) (called (n_ep n2) o)
  /\ (forall cr, n_crypto n2 = Some cr -> ~ In cr (called (n_ep n2) o) /\ absent cr (inner (n_ep n2))).
Proof. exact crypto_listener_removed_l. Qed.
Print Assumptions crypto_listener_removed.

(* Which public coroutines meet that hypothesis (table regenerated from the source: a public coroutine is
   routed when every path from it to endpoint.send / send_cell / sendto after its first suspension passes
   through a @task method).  Every public coroutine of every shipped overlay class is routed, except exactly
   three of HiddenTunnelCommunity (they wait for circuit.ready, which unload() resolves to None). *)
Theorem shipped_api_unrouted :
  unrouted_api = [("HiddenTunnelCommunity", "create_introduction_point"); ("HiddenTunnelCommunity", "create_rendezvous_point");
                  ("HiddenTunnelCommunity", "do_peer_discovery")]%string.
Proof. exact shipped_api_unrouted_l. Qed.
Print Assumptions shipped_api_unrouted.

Theorem shipped_api_routed : forall c m r,
  In (c, m, r) public_coroutines -> c <> "HiddenTunnelCommunity"%string -> r = true.
Proof. exact shipped_api_routed_l. Qed.
Print Assumptions shipped_api_routed.

(* The lifecycle model lets an overlay act only through its listeners, its live tasks, its open transports and
   (routed) API steps.  That presupposes that the overlay's code starts no task outside its task manager's reach:
   every ensure_future / create_task in the overlays' modules (table regenerated from the source) is registered
   with the task manager, or plainly awaited / returned by the function that made it. *)
Theorem shipped_futures_owned : forallb (fun r => snd r) future_sites = true.
Proof. exact shipped_futures_owned_l. Qed.
Print Assumptions shipped_futures_owned.

(* ---------------------------------------------------------------- (iv) the IPv8 service object *)

(* From any state of the service: after unload_overlay(x) (steps regenerated from the source), in
   every later history that does not add a strategy for x again, the ticker never calls take_step on a
   strategy of x, no strategy of x is in the list, and x is not listed as an overlay. *)
Theorem unloaded_overlay_not_stepped : forall s x ops,
  Forall (fun o => adds x o = false) ops ->
  let s1 := fst (sop_apply service_unload_steps s (SUnloadOverlay x)) in
  Forall (fun e => snd e <> x) (snd (srun service_unload_steps s1 ops))
  /\ (forall e, In e (v_strategies (fst (srun service_unload_steps s1 ops))) -> snd e <> x)
  /\ ~ In x (v_overlays s1).
Proof. exact shipped_unloaded_overlay_not_stepped_l. Qed.
Print Assumptions unloaded_overlay_not_stepped.

(* The same for any unload_overlay body that rebuilds both lists and calls unload(). *)
Theorem unloaded_overlay_not_stepped_any : forall steps s x ops,
  complete_service_unload steps = true ->
  Forall (fun o => adds x o = false) ops ->
  let s1 := fst (sop_apply steps s (SUnloadOverlay x)) in
  Forall (fun e => snd e <> x) (snd (srun steps s1 ops))
  /\ (forall e, In e (v_strategies (fst (srun steps s1 ops))) -> snd e <> x).
Proof. exact unloaded_overlay_not_stepped_l. Qed.
Print Assumptions unloaded_overlay_not_stepped_any.

(* Unloading one overlay leaves the strategies of the others scheduled. *)
Theorem unload_keeps_other_strategies : forall steps s x e,
  snd e <> x -> In e (v_strategies s) -> In e (v_strategies (fst (sop_apply steps s (SUnloadOverlay x)))).
Proof. exact unload_keeps_others_l. Qed.
Print Assumptions unload_keeps_other_strategies.

(* ---------------------------------------------------------------- non-vacuity *)

(* service: strategies of overlay 1 are stepped before and never after unload_overlay(1), those of
   overlay 2 keep running; removing entries from the list while iterating over it (instead of
   rebuilding it) would leave every second strategy of the unloaded overlay scheduled *)
Example c11_nonvacuous_service :
  snd (srun service_unload_steps init_svc
            [SAdd 1 10; SAdd 1 11; SAdd 1 12; SAdd 2 20; STick [10; 11; 12; 20]; SUnloadOverlay 1;
             STick [10; 11; 12; 20]; SStop; STick [20]])
  = [(10, 1); (11, 1); (12, 1); (20, 2); (20, 2)]
  /\ remove_while_iterating (fun e : Z * Z => snd e =? 1) [(10, 1); (11, 1); (12, 1); (20, 2)] = [(11, 1); (20, 2)].
Proof. vm_compute. split; reflexivity. Qed.


(* listeners: called while registered, silent after removal; behind a wrapper that does not forward
   remove_listener (TunnelEndpoint as it was) the listener would still be called *)
Example c11_nonvacuous_listeners :
  let d := pT ++ [7] in
  let e := run (init_ep (WTunnel (mkApi true true true true))) [AddL 1; RemL 1; AddP 1 pT; SetAnonL 1 true] in
  called e (Socket d) = [1] /\ called e (Tunnel d true) = [1] /\ called e (Tunnel d false) = []
  /\ called (run e [RemL 1]) (Socket d) = [] /\ called (run e [RemL 1]) (Tunnel d true) = []
  /\ let old := run (init_ep (WTunnel (mkApi true true false false))) [AddL 1; RemL 1; AddP 1 pT; RemL 1] in
     called old (Socket d) = [1; 1].
Proof. vm_compute. repeat split; reflexivity. Qed.

(* tasks: a name is refused while active; replace registers only after the old task is done;
   after shutdown registrations are refused and nothing starts *)
Example c11_nonvacuous_tasks :
  snd (trun init_tm [Register (Named 1) KCoro; Register (Named 1) KCoro; Tick; Replace (Named 1);
                     Register (Named 2) KFut; Tick; Tick; Shutdown; Register (Named 3) KCoro; Replace (Named 2); Tick; Tick])
  = [OReg (RNew 0%nat); OReg RRaise; OStarted 0%nat; OReg (RNew 1%nat); ORepl (Some 0%nat) true (RNew 2%nat);
     OReg RRefused; ORepl None true RRefused].
Proof. vm_compute. reflexivity. Qed.

Example c11_nonvacuous_live :
  let s := fst (trun init_tm [Register (Named 1) KCoro; Tick]) in
  reachable s /\ shut s = false /\ exists t, get s 0%nat = Some t /\ live t = true.
Proof.
  split; [exists [Register (Named 1) KCoro; Tick]; reflexivity|].
  split; [reflexivity|]. eexists. split; reflexivity.
Qed.

(* lifecycle: a loaded tunnel overlay reacts; after the repaired unload() it is silent and its socket
   is closed; after the unload() as it was, the crypto endpoint still hands it datagrams, the exit
   socket still relays, and the socket's own manager still runs *)
Example c11_nonvacuous_loaded : loaded tunnel_cls tunnel_node.
Proof. exact tunnel_node_loaded_l. Qed.

Example c11_nonvacuous_lifecycle :
  let d := pT ++ [1; 2; 3] in
  snd (nstep tunnel_cls tunnel_node (EDatagram d None [ASend])) = [NHandler 2; NSend]
  /\ snd (nstep tunnel_cls tunnel_node (EOutside 0 [ASend])) = [NOutside 0; NSend]
  /\ complete_unload tunnel_cls fixed_tunnel_steps = true
  /\ (let n1 := fst (irun tunnel_cls tunnel_node (map IStep fixed_tunnel_steps)) in
      snd (irun tunnel_cls n1 [IEvent (EDatagram d None [ASend; ANewSock; AEnable 1]); IEvent (EOutside 0 [ASend]);
                               IEvent (ETm WOwn Tick); IEvent (EFire WOwn 1 [ASend]); IEvent (EFire (WSock 0) 0 [ASend]);
                               IEvent (ETm WOwn (Register (Named 8) KCoro)); IEvent (EApiStep true [ASend])])
      = [NTask WOwn (OReg RRefused); NTask WOwn (OReg RRefused)]
      /\ snd (nstep tunnel_cls n1 (EApiStep false [ASend])) = [NApi; NSend]
      /\ snd (nstep tunnel_cls tunnel_node (EApiStep true [ASend])) = [NTask WOwn (OReg (RNew 3%nat)); NSend]
      /\ map s_open (n_socks n1) = [false])
  /\ complete_unload tunnel_cls old_tunnel_steps = false
  /\ (let n0 := fst (irun tunnel_cls tunnel_node (map IStep old_tunnel_steps)) in
      snd (irun tunnel_cls n0 [IEvent (EDatagram d None [ASend]); IEvent (EOutside 0 [ASend]);
                               IEvent (EFire (WSock 0) 0 [ASend])])
      = [NHandler 2; NSend; NOutside 0; NSend; NFire (WSock 0) 0; NSend]
      /\ map s_open (n_socks n0) = [true]).
Proof. vm_compute. repeat split; reflexivity. Qed.
