(* C14 (extension) - the routing-table functions REGENERATED FROM THE SOURCE on every run
   (gen/G14_routing.v, by tools/tr/tr_routing.py, over the vocabulary model/M14_routing_gen.v) compute exactly
   what the hand model model/M14_routing.v computes; hence every theorem of props/C14.v holds of the generated
   code.  Property theorems only.  W = identifier width (the source's value is G_WIDTH), cap = Bucket.max_size;
   now / last_response / last_query / randint are arbitrary oracles. *)
From Coq Require Import ZArith List Bool Arith.
From IPV8V Require Import lib.PyErr model.M14_routing model.M14_routing_gen gen.G14_routing spec.S14_kademlia
  proofs.P14_bits proofs.P14_bucket proofs.P14_table proofs.P14_main proofs.P14_routing_gen.
Import ListNotations.
Open Scope Z_scope.

(* On every reachable table the generated RoutingTable.add (for every fuel: same recursion, same OutOfFuel),
   remove_bad_nodes, get_bucket, get and closest_nodes are equal - result, new table, raised exception - to the
   hand model's rt_add_fuel, rt_remove_bad, find_bucket, rt_get and closest. *)
Theorem gen_refines_hand_model : forall W cap now last_response last_query me rt,
  (0 < W)%nat -> (0 < cap)%nat -> length me = W -> reachable W cap me rt ->
  (forall fuel n, length (nid n) = W ->
     G_RoutingTable_add W cap now last_response last_query fuel rt n = rt_add_fuel cap fuel rt n) /\
  G_RoutingTable_remove_bad_nodes now last_response last_query rt = Ok (rt_remove_bad rt) /\
  (forall i, length i = W -> G_RoutingTable_get_bucket W rt i = find_bucket (tr rt) i) /\
  (forall i, length i = W -> G_RoutingTable_get W rt i = rt_get rt i) /\
  (forall target k excl, length target = W ->
     G_RoutingTable_closest_nodes W now last_response last_query rt target (Z.of_nat k) excl
     = closest rt target k (option_map nid excl)).
Proof. exact gen_refines_table_l. Qed.
Print Assumptions gen_refines_hand_model.

(* The generated Bucket.owns / get / add / split on any valid bucket (unique ids, W-bit ids, prefix p). *)
Theorem gen_bucket_refines_hand_model : forall W cap now last_response last_query p b,
  (0 < W)%nat -> bucket_ok W cap p b ->
  (forall i, length i = W -> G_Bucket_owns W b i = Ok (owns b i)) /\
  (forall i, G_Bucket_get b i = Ok (find_node i (bnodes b))) /\
  (forall n, length (nid n) = W -> G_Bucket_add W cap now last_response last_query b n = Ok (badd cap b n)) /\
  ((length p < W)%nat -> G_Bucket_split W cap now last_response last_query b = Ok (bsplit cap b)).
Proof. exact gen_refines_bucket_l. Qed.
Print Assumptions gen_bucket_refines_hand_model.

(* Node.status as translated: never raises; BAD exactly when failed >= 2, whatever the clock and the contact times *)
Theorem gen_status_bad_iff_failed : forall now last_response last_query n,
  exists s, G_Node_status now last_response last_query n = Ok s /\ (s =? G_NODE_STATUS_BAD) = is_bad n.
Proof. exact gen_status_l. Qed.
Print Assumptions gen_status_bad_iff_failed.

(* distance / id_to_binary_string as translated *)
Theorem gen_distance_is_xor : forall a b, G_distance a b = Ok (dist a b).
Proof. exact G_distance_eq. Qed.
Print Assumptions gen_distance_is_xor.

Theorem gen_binary_string_is_identity : forall W i, (0 < W)%nat -> length i = W -> G_id_to_binary_string W i = Ok i.
Proof. exact gen_binary_l. Qed.
Print Assumptions gen_binary_string_is_identity.

(* Bucket.generate_id as translated: for every draw that randint may return the id lies in the bucket *)
Theorem gen_refresh_id_in_bucket : forall W randint b,
  (0 < W)%nat -> (length (bprefix b) <= W)%nat ->
  0 <= randint 0 (2 ^ Z.of_nat (W - length (bprefix b)) - 1) < 2 ^ Z.of_nat (W - length (bprefix b)) ->
  exists i, G_Bucket_generate_id W randint b = Ok i /\ owns b i = true /\ length i = W.
Proof. exact gen_generate_id_l. Qed.
Print Assumptions gen_refresh_id_in_bucket.

(* ---- the property theorems, over histories executed by the generated functions *)
Theorem gen_tree_valid : forall W cap now last_response last_query me ops,
  (0 < W)%nat -> (0 < cap)%nat -> length me = W -> Forall (op_ok W) ops ->
  exists rt, grun W cap now last_response last_query (rt_init me) ops = Ok rt /\ own rt = me /\ valid_table W cap rt.
Proof. exact gen_tree_valid_l. Qed.
Print Assumptions gen_tree_valid.

Theorem gen_run_equals_model_run : forall W cap now last_response last_query me ops rt,
  (0 < W)%nat -> (0 < cap)%nat -> length me = W -> reachable W cap me rt -> Forall (op_ok W) ops ->
  grun W cap now last_response last_query rt ops = run W cap rt ops.
Proof. exact gen_run_l. Qed.
Print Assumptions gen_run_equals_model_run.

Theorem gen_closest_exact : forall W cap now last_response last_query me rt target k excl,
  (0 < W)%nat -> (0 < cap)%nat -> length me = W -> reachable W cap me rt -> length target = W ->
  exists res, G_RoutingTable_closest_nodes W now last_response last_query rt target (Z.of_nat k) excl = Ok res /\
              k_closest rt target (option_map nid excl) k res.
Proof. exact gen_closest_exact_l. Qed.
Print Assumptions gen_closest_exact.

(* ---- non-vacuity: the generated functions evaluated on the concrete history of props/C14.v *)
Example c14x_nonvacuous_run :
  grun 4 2 1000 (fun _ => 0) (fun _ => 0) (rt_init (ex_id 6)) ex_ops = run 4 2 (rt_init (ex_id 6)) ex_ops
  /\ exists rt, run 4 2 (rt_init (ex_id 6)) ex_ops = Ok rt.
Proof. split; [vm_compute; reflexivity | eexists; vm_compute; reflexivity]. Qed.

Example c14x_nonvacuous_closest :
  match grun 4 2 1000 (fun _ => 0) (fun _ => 0) (rt_init (ex_id 6)) ex_ops with
  | Ok rt => match G_RoutingTable_closest_nodes 4 1000 (fun _ => 0) (fun _ => 0) rt (ex_id 13) 8 None with
             | Ok l => map ntag l | Raise _ => [] end
  | Raise _ => []
  end = [14; 5; 4; 7; 6].
Proof. vm_compute. reflexivity. Qed.

Example c14x_nonvacuous_refresh :
  G_Bucket_generate_id 8 (fun lo hi => hi) (mkBucket [true; false; true] []) = Ok (Z_to_bits 8 191)
  /\ G_WIDTH = 160%nat.
Proof. vm_compute. split; reflexivity. Qed.
