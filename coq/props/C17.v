(* C17 - identity attestations and token disclosure require the owner's consent.  Property theorems only.
   Model: model/M17_consent.v (IdentityCommunity + IdentityManager / PseudonymManager + the tables of
   IdentityDatabase, over the C16 token tree), following the repaired code: should_sign compares the stored
   authority key with the node's key, table Attestations is keyed (public_key, authority_key,
   metadata_pointer) (`wide = true`; `wide = false` is the pinned key).
   SHA3-256 (`hash`), signature verification (`sigverify`), the node's signing operation (`mysign`),
   json.loads (`parse`), the SHA-1 padding (`norm`), the node's key (`me`) and the widths are universally
   quantified.  Only no_double_sign assumes something about them (two named hypotheses).
   A history is a list of (time, event); `fst (run .. (init me) pre)` is the node's state after the
   history `pre`, `step .. s now ev` is what the node does on one more event. *)
From Coq Require Import ZArith List Bool.
From IPV8V Require Import lib.PyErr lib.Bytes model.M16_tokentree model.M17_consent spec.S17_consent
  proofs.P16_props proofs.P17_base proofs.P17_step proofs.P17_props proofs.P17_nds proofs.P17_chain.
Import ListNotations.
Open Scope Z_scope.

(* sign_requires_consent.  After ANY history `pre` (any number of registrations for any subjects and
   hashes, any messages from anybody), if the node sends an attestation `a` to `p` on event `ev` at time
   `now`, then: ev is a disclosure or missing-response authenticated by p itself; every token and every
   attestation that message carried verified; a is the node's signature over the hash of a metadata
   entry m stored for p and signed by p; m points to a token of p's tree which (for p other than the node)
   is validly signed by p and connected to p's genesis through validly signed stored tokens; the user's
   LAST registration of that token's attribute hash in `pre` exists and names exactly subject p, is at most
   300 s old, names exactly m's name, and - if it fixed extra metadata - m's extra fields are exactly those;
   and before this event the database held no attestation by the node over m. *)
Theorem sign_requires_consent : forall hash sigverify mysign parse norm me rhl rsl wide pre now ev p a,
  In (OAttest p a)
     (outs_of (step hash sigverify mysign parse norm me rhl rsl wide
                    (fst (run hash sigverify mysign parse norm me rhl rsl wide (init me) pre)) now ev)) ->
  sender_of ev = Some p /\ is_disclosure ev = true /\
  Forall (fun t => tverify sigverify p t = true) (tokens_of ev) /\
  Forall (fun aa => att_verify sigverify (fst aa) (snd aa) = true) (atts_of ev) /\
  exists m tok e,
    let s' := st_of (step hash sigverify mysign parse norm me rhl rsl wide
                          (fst (run hash sigverify mysign parse norm me rhl rsl wide (init me) pre)) now ev) in
    a = mkAtt (md_hash hash m) (mysign (md_hash hash m)) /\
    In (p, m) (dmd s') /\ md_verify sigverify p m = true /\
    In tok (elements (get_tree p (pseus s'))) /\ thash hash tok = m_tptr m /\
    (p <> me -> rooted hash sigverify p (elements (get_tree p (pseus s'))) tok) /\
    registration norm pre (t_chash tok) = Some e /\
    consent parse e p now m /\
    already me (datt (fst (run hash sigverify mysign parse norm me rhl rsl wide (init me) pre)))
            (md_hash hash m) = false.
Proof. exact sign_requires_consent_l. Qed.
Print Assumptions sign_requires_consent.

(* the consent table of the node is exactly the history of the user's registrations *)
Theorem consent_table_is_history : forall hash sigverify mysign parse norm me rhl rsl wide pre h,
  alookup h (known (fst (run hash sigverify mysign parse norm me rhl rsl wide (init me) pre)))
  = registration norm pre h.
Proof. exact consent_table_is_history_l. Qed.
Print Assumptions consent_table_is_history.

(* no_double_sign.  Over a whole history, no metadata hash is attested twice - replays, re-registrations
   and disclosures that already carry other authorities' attestations included.  Assumes that the node's
   signatures verify under its key and that a signature string verifies under one key only. *)
Theorem no_double_sign : forall hash sigverify mysign parse norm me rhl rsl,
  (forall m, sigverify me m (mysign m) = true) ->
  (forall k1 k2 m1 m2 sg, sigverify k1 m1 sg = true -> sigverify k2 m2 sg = true -> k1 = k2) ->
  forall evs,
    NoDup (trace_ptrs (snd (run hash sigverify mysign parse norm me rhl rsl true (init me) evs))).
Proof. exact no_double_sign_l. Qed.
Print Assumptions no_double_sign.

(* the two hypotheses are satisfiable (toy scheme: the signature of m under k is [len k] ++ k ++ m) *)
Theorem no_double_sign_hypotheses_satisfiable : forall k,
  (forall m, toy_verify3 k m (toy_sig k m) = true) /\
  (forall k1 k2 m1 m2 sg, toy_verify3 k1 m1 sg = true -> toy_verify3 k2 m2 sg = true -> k1 = k2).
Proof. exact (fun k => conj (toy_mysign_ok k) toy_sig_binds). Qed.
Print Assumptions no_double_sign_hypotheses_satisfiable.

(* with the pinned key of table Attestations (one attestation per subject and metadata, whoever made it)
   the statement is false: when another authority attested first, the node's own attestation is not
   stored and a replay of the disclosure is attested again *)
Definition tid (x : bytes) : bytes := x.
Definition tme : bytes := [9].
Definition kA : bytes := [7].
Definition kB : bytes := [8].
Definition kD : bytes := [6].
Definition mk_tok (k prev ch : bytes) : token := mkToken prev ch (toy_sig k (prev ++ ch)) None.
Definition mk_md (k : bytes) (t : token) (json : bytes) : metadata :=
  mkMd (thash tid t) json (toy_sig k (thash tid t ++ json)).
Definition tokA := mk_tok kA (genesis tid kA) [50].
Definition mdA := mk_md kA tokA [1; 110; 100; 99].
Definition attD := mkAtt (md_hash tid mdA) (toy_sig kD (md_hash tid mdA)).
Definition h_third_party : list (Z * event) :=
  [(0, EKnown [50] [110] kA None);
   (5, EDisclose kA [mdA] [tokA] [(kD, attD)] None);
   (6, EDisclose kA [mdA] [tokA] [(kD, attD)] None)].

Theorem pinned_schema_double_sign_refuted :
  exists hash sigverify mysign parse norm me rhl rsl evs,
    (forall m, sigverify me m (mysign m) = true) /\
    (forall k1 k2 m1 m2 sg, sigverify k1 m1 sg = true -> sigverify k2 m2 sg = true -> k1 = k2) /\
    ~ NoDup (trace_ptrs (snd (run hash sigverify mysign parse norm me rhl rsl false (init me) evs))).
Proof.
  exists tid, toy_verify3, (toy_sig tme), toy_parse, tid, tme, 1%nat, 1%nat, h_third_party.
  split; [apply toy_mysign_ok|]. split; [apply toy_sig_binds|].
  vm_compute. intros N. inversion N as [|x l H1 H2]. apply H1. left. reflexivity.
Qed.
Print Assumptions pinned_schema_double_sign_refuted.

(* store_only_valid_attestation.  In every reachable state every row of Attestations is validly signed by
   the authority it names ... *)
Theorem attestations_table_valid : forall hash sigverify mysign parse norm me rhl rsl wide evs,
  Forall (fun r => sigverify (r_auth r) (r_mptr r) (r_sig r) = true)
         (datt (fst (run hash sigverify mysign parse norm me rhl rsl wide (init me) evs))).
Proof. exact attestations_valid_l. Qed.
Print Assumptions attestations_table_valid.

(* ... and a row appears only as follows: on an Attest message from p, the row (me, p, pointer, signature)
   of exactly the attestation p sent, valid under p's key (an attestation signed by a third party, or
   altered, is not stored); on a disclosure from p, a verified attestation carried by it, for subject p, or
   the node's own attestation that it sends in the same step; on no other event. *)
Theorem store_only_valid_attestation : forall hash sigverify mysign parse norm me rhl rsl wide pre now ev r,
  In r (datt (st_of (step hash sigverify mysign parse norm me rhl rsl wide
                          (fst (run hash sigverify mysign parse norm me rhl rsl wide (init me) pre)) now ev))) ->
  In r (datt (fst (run hash sigverify mysign parse norm me rhl rsl wide (init me) pre))) \/
  (sigverify (r_auth r) (r_mptr r) (r_sig r) = true /\
   match ev with
   | EAttest p (Some a) => r = mkRow me p (a_mptr a) (a_sig a)
   | EDisclose p _ _ atts _ =>
       r_pk r = p /\
       (In (r_auth r, mkAtt (r_mptr r) (r_sig r)) atts \/
        (r_auth r = me /\
         In (OAttest p (mkAtt (r_mptr r) (r_sig r)))
            (outs_of (step hash sigverify mysign parse norm me rhl rsl wide
                           (fst (run hash sigverify mysign parse norm me rhl rsl wide (init me) pre)) now ev))))
   | EMissingResp p _ _ =>
       r_pk r = p /\ r_auth r = me /\
       In (OAttest p (mkAtt (r_mptr r) (r_sig r)))
          (outs_of (step hash sigverify mysign parse norm me rhl rsl wide
                         (fst (run hash sigverify mysign parse norm me rhl rsl wide (init me) pre)) now ev))
   | _ => False
   end).
Proof. exact stored_rows_l. Qed.
Print Assumptions store_only_valid_attestation.

(* tokens_only_up_to_permission.  Tokens leave in a missing-response only as the answer to a request of that
   very peer, and each token sent is the chain token at a position i with  known <= i < opened pre p,
   where `opened pre p` is the length the chain had right after the user's last
   request_attestation_advertisement addressed to p (0 if there was none). *)
Theorem tokens_only_up_to_permission : forall hash sigverify mysign parse norm me rhl rsl wide pre now ev p toks,
  In (OMissingResp p toks)
     (outs_of (step hash sigverify mysign parse norm me rhl rsl wide
                    (fst (run hash sigverify mysign parse norm me rhl rsl wide (init me) pre)) now ev)) ->
  exists kn, ev = EReqMissing p kn /\
  forall tok, In tok toks ->
    exists i, nth_error (chain (fst (run hash sigverify mysign parse norm me rhl rsl wide (init me) pre))) i = Some tok /\
              kn <= Z.of_nat i /\
              (i < opened hash sigverify mysign parse norm me rhl rsl wide pre p)%nat.
Proof. exact tokens_only_up_to_permission_l. Qed.
Print Assumptions tokens_only_up_to_permission.

Theorem unpermitted_peers_get_nothing : forall hash sigverify mysign parse norm me rhl rsl wide pre now ev p toks,
  opened hash sigverify mysign parse norm me rhl rsl wide pre p = 0%nat ->
  In (OMissingResp p toks)
     (outs_of (step hash sigverify mysign parse norm me rhl rsl wide
                    (fst (run hash sigverify mysign parse norm me rhl rsl wide (init me) pre)) now ev)) ->
  toks = [].
Proof. exact unpermitted_peers_get_nothing_l. Qed.
Print Assumptions unpermitted_peers_get_nothing.

(* the other way tokens leave the node: the disclosure sent along with an advertisement.  It is sent only
   on the user's request_attestation_advertisement(p, ..), to p, every token of it is a token of the chain,
   and at that moment the user has opened the whole chain to p (so each token's position is below
   `opened`).  Assumes the node's signatures verify and that no message is authenticated by the node's own
   key (C01: nobody else can sign with it). *)
Theorem disclosure_within_permission : forall hash sigverify mysign parse norm me rhl rsl wide,
  (forall m, sigverify me m (mysign m) = true) ->
  forall pre now ev p m toks kept,
  Forall (fun te => sender_of (snd te) <> Some me) pre ->
  In (ODisclose p m toks kept)
     (outs_of (step hash sigverify mysign parse norm me rhl rsl wide
                    (fst (run hash sigverify mysign parse norm me rhl rsl wide (init me) pre)) now ev)) ->
  let s' := st_of (step hash sigverify mysign parse norm me rhl rsl wide
                        (fst (run hash sigverify mysign parse norm me rhl rsl wide (init me) pre)) now ev) in
  (exists h json jlen, ev = EAdvertise (Some p) h json jlen) /\
  incl toks (chain s') /\
  perm_of s' p = length (chain s') /\
  opened hash sigverify mysign parse norm me rhl rsl wide (pre ++ [(now, ev)]) p = length (chain s').
Proof. exact disclosure_within_permission_l. Qed.
Print Assumptions disclosure_within_permission.

(* every advertisement of the user extends the chain by exactly one token over the (padded) attribute hash,
   so "position in the chain" counts the user's advertisements *)
Theorem advertisement_extends_chain : forall hash sigverify mysign parse norm me rhl rsl wide,
  (forall m, sigverify me m (mysign m) = true) ->
  forall s now p h json jlen,
  exists tok,
    chain (st_of (step hash sigverify mysign parse norm me rhl rsl wide s now (EAdvertise p h json jlen)))
    = chain s ++ [tok] /\ t_chash tok = norm h.
Proof. exact advertisement_extends_chain_l. Qed.
Print Assumptions advertisement_extends_chain.

(* a disclosure or missing-response from a peer for whom the user registered nothing changes nothing and is
   not answered *)
Theorem unsolicited_disclosure_dropped : forall hash sigverify mysign parse norm me rhl rsl wide pre now p mds toks atts fail,
  (forall t h name md, ~ In (t, EKnown h name p md) pre) ->
  let s := fst (run hash sigverify mysign parse norm me rhl rsl wide (init me) pre) in
  step hash sigverify mysign parse norm me rhl rsl wide s now (EDisclose p mds toks atts fail) = (s, [], None) /\
  forall b, step hash sigverify mysign parse norm me rhl rsl wide s now (EMissingResp p toks b) = (s, [], None).
Proof. exact unsolicited_dropped_l. Qed.
Print Assumptions unsolicited_disclosure_dropped.

(* ------------------------------------------------------------------------------------------------
   Non-vacuity on the toy instance (identity hash, toy signatures, toy JSON documents).
   Two concurrent registrations: attribute [50] named [110] for subject A, attribute [51] named [111] for B. *)
Definition trun w := run tid toy_verify3 (toy_sig tme) toy_parse tid tme 1 1 w.
Definition tokB := mk_tok kB (genesis tid kB) [50].      (* B's own token over the hash registered for A *)
Definition mdB := mk_md kB tokB [1; 110; 100; 99].
Definition tokB2 := mk_tok kB (genesis tid kB) [51].
Definition mdB2 := mk_md kB tokB2 [1; 111; 100; 99].
Definition h_matrix : list (Z * event) :=
  [(0, EKnown [50] [110] kA None); (1, EKnown [51] [111] kB None);
   (10, EDisclose kB [mdB] [tokB] [] None);          (* B presents the hash registered for A: refused *)
   (11, EDisclose kA [mdA] [tokA] [] None);          (* A: attested *)
   (12, EDisclose kA [mdA] [tokA] [] None);          (* replay: refused *)
   (13, EDisclose kB [mdB2] [tokB2] [] None);        (* B's own registration: attested *)
   (400, EKnown [50] [110] kA None);                 (* re-registration after expiry *)
   (401, EDisclose kA [mdA] [tokA] [] None)].        (* still refused: attested already *)

Example c17_several_registrations :
  map (fun ox => attest_ptrs (fst ox)) (snd (trun true (init tme) h_matrix))
  = [[]; []; []; [md_hash tid mdA]; []; [md_hash tid mdB2]; []; []].
Proof. vm_compute. reflexivity. Qed.

(* expiry: 300 s after the registration is accepted, 301 s is not; a wrong name and unexpected extra
   metadata are refused *)
Example c17_reject_matrix :
  let outs evs := trace_ptrs (snd (trun true (init tme) evs)) in
  outs [(0, EKnown [50] [110] kA None); (300, EDisclose kA [mdA] [tokA] [] None)] = [md_hash tid mdA] /\
  outs [(0, EKnown [50] [110] kA None); (301, EDisclose kA [mdA] [tokA] [] None)] = [] /\
  outs [(0, EKnown [50] [111] kA None); (1, EDisclose kA [mdA] [tokA] [] None)] = [] /\
  outs [(0, EKnown [50] [110] kA (Some [])); (1, EDisclose kA [mk_md kA tokA [1; 110; 100; 99; 5; 6]] [tokA] [] None)] = [] /\
  outs [(0, EKnown [50] [110] kA (Some [([5], [6])]));
        (1, EDisclose kA [mk_md kA tokA [1; 110; 100; 99; 5; 6]] [tokA] [] None)]
    = [md_hash tid (mk_md kA tokA [1; 110; 100; 99; 5; 6])] /\
  outs [(0, EKnown [50] [110] kB None); (1, EDisclose kA [mdA] [tokA] [] None)] = [].
Proof. vm_compute. repeat split; reflexivity. Qed.

(* with the repaired key both attestations are stored and the replay is refused; an attestation that names
   the wrong authority is not stored and blocks signing *)
Example c17_third_party :
  trace_ptrs (snd (trun true (init tme) h_third_party)) = [md_hash tid mdA] /\
  map r_auth (datt (fst (trun true (init tme) h_third_party))) = [kD; tme] /\
  trace_ptrs (snd (trun true (init tme)
     [(0, EKnown [50] [110] kA None); (5, EDisclose kA [mdA] [tokA] [(kB, attD)] None)])) = [].
Proof. vm_compute. repeat split; reflexivity. Qed.

(* incoming attestations: stored when signed by the sender, dropped when signed by a third party *)
Example c17_store :
  let ptr := [1; 2; 3] in
  datt (fst (trun true (init tme) [(0, EAttest kA (Some (mkAtt ptr (toy_sig kA ptr))))]))
    = [mkRow tme kA ptr (toy_sig kA ptr)] /\
  datt (fst (trun true (init tme) [(0, EAttest kA (Some (mkAtt ptr (toy_sig kD ptr))))])) = [].
Proof. vm_compute. split; reflexivity. Qed.

(* permissions: three own tokens, the second advertisement is addressed to A, so A may see two tokens;
   B, never addressed, gets nothing; a request beyond the opened index gets nothing *)
Definition h_perm : list (Z * event) :=
  [(0, EAdvertise None [60] [1; 1; 1; 1] 4); (1, EAdvertise (Some kA) [61] [1; 2; 1; 1] 4);
   (2, EAdvertise None [62] [1; 3; 1; 1] 4);
   (3, EReqMissing kA 0); (4, EReqMissing kA 1); (5, EReqMissing kB 0); (6, EReqMissing kA 2)].
Example c17_permissions :
  opened tid toy_verify3 (toy_sig tme) toy_parse tid tme 1 1 true h_perm kA = 2%nat /\
  length (chain (fst (trun true (init tme) h_perm))) = 3%nat /\
  map (fun ox => match fst ox with [OMissingResp _ toks] => Some (length toks) | _ => None end)
      (snd (trun true (init tme) h_perm))
  = [None; None; None; Some 2%nat; Some 1%nat; Some 0%nat; Some 0%nat].
Proof. vm_compute. repeat split; reflexivity. Qed.
