(* C19x - opening a file written by an older release is kill-safe: the upgrade inside check_database, statement by
   statement.  Property theorems only.
   Model: model/M19_sqltx.v - the SQL statements check_database issues (gen/G19x_upgrade.v: recorded call by call
   from the real method for a file of every older version, each call split into its statements) run on a
   connection that follows the transaction rules of SQLite and of Python's sqlite3 module:
     S1 autocommit statement = its own atomic transaction;  S2 BEGIN / COMMIT;  S3 statements inside a
     transaction are not published;  S4 a failing statement has no effect, an executescript stops there;
     P1 Cursor.execute: implicit BEGIN before INSERT/UPDATE/DELETE/REPLACE only;  P2 Cursor.executescript: commits
     an open transaction first, then passes the statements as they are;  P3 Connection.commit;
     K a kill keeps exactly the published content.
   Kill instants: after every completed SQL statement (implicit BEGIN/COMMIT included).
   Old files (spec/S19x_legacy.v): identity version 1 (Attestations keyed on (public_key, metadata_pointer)), wallet
   version 1 (no id_format column); their rows are arbitrary (`env`), of the right width and pairwise distinct on
   the old key (`wf_env`).  `identity_history env ks` / `wallet_history env ks`: the file is opened again and again,
   the i-th open killed at its ks[i]-th instant (beyond its end: it ran to its end). *)
From Coq Require Import ZArith List Bool.
From IPV8V Require Import lib.PyErr lib.Bytes model.M19_sqltx gen.G19x_upgrade spec.S19x_legacy
  proofs.P19x_sound proofs.P19x_gen.
Import ListNotations.
Open Scope Z_scope.

(* Whatever the kill instants, what is published is - table by table - the intact version-1 file, or the complete
   version-2 file (every old row; Attestations under the new key), the latter possibly without its version row for
   the instant between the DELETE and INSERT of the schema script; nothing is pending; and the next open succeeds
   and ends in the complete version-2 file with its version row, published.  (Hence restartable: `ks` is any list.) *)
Theorem identity_upgrade_all_or_nothing : forall env ks,
  wf_env identity_sources env ->
  let c := identity_history env ks in
  c_intx c = false /\ c_view c = c_dur c /\
  (exists t, In t [identity_v1; identity_v2 (version_is 2); identity_v2 []] /\
             forall id, find_tab (c_dur c) id = find_tab (conc env t) id) /\
  exists tr cf, xopen apply_c version_c identity_ucfg c = (tr, cf, ODone) /\ c_intx cf = false /\
                forall id, find_tab (c_dur cf) id = find_tab (conc env (identity_v2 (version_is 2))) id.
Proof. exact identity_all_or_nothing_l. Qed.
Print Assumptions identity_upgrade_all_or_nothing.

(* The same, read off table by table: Tokens and Metadata are always there, untouched; there is never a renamed
   Attestations_v1; Attestations always exists and always holds exactly the old attestations; a file that says
   version 2 has them under the new key (never "version 2 with an empty Attestations"), one that says version 1
   under the old key. *)
Theorem identity_upgrade_never_half_done : forall env ks,
  wf_env identity_sources env ->
  let d := c_dur (identity_history env ks) in
  find_tab d TID_Tokens = Some (mkXT TID_Tokens [0; 1; 3]%nat 5 (env TID_Tokens)) /\
  find_tab d TID_Metadata = Some (mkXT TID_Metadata [0; 1]%nat 4 (env TID_Metadata)) /\
  find_tab d TID_Attestations_v1 = None /\
  (exists pk, find_tab d TID_Attestations = Some (mkXT TID_Attestations pk 4 (env TID_Attestations))) /\
  (version_c d = Some 2 ->
   find_tab d TID_Attestations = Some (mkXT TID_Attestations [0; 1; 2]%nat 4 (env TID_Attestations))) /\
  (version_c d = Some 1 ->
   find_tab d TID_Attestations = Some (mkXT TID_Attestations [0; 2]%nat 4 (env TID_Attestations))) /\
  (version_c d = Some 0 \/ version_c d = Some 1 \/ version_c d = Some 2).
Proof. exact identity_tables_l. Qed.
Print Assumptions identity_upgrade_never_half_done.

(* The attestation wallet: intact version-1 file (three columns), or every old row with id_format = 'id_metadata'
   (never a NULL id_format, never four columns under version 1). *)
Theorem wallet_upgrade_all_or_nothing : forall env ks,
  wf_env wallet_sources env ->
  let c := wallet_history env ks in
  c_intx c = false /\ c_view c = c_dur c /\
  (exists t, In t [wallet_v1; wallet_v2 (version_is 2); wallet_v2 []] /\
             forall id, find_tab (c_dur c) id = find_tab (conc env t) id) /\
  exists tr cf, xopen apply_c version_c wallet_ucfg c = (tr, cf, ODone) /\ c_intx cf = false /\
                forall id, find_tab (c_dur cf) id = find_tab (conc env (wallet_v2 (version_is 2))) id.
Proof. exact wallet_all_or_nothing_l. Qed.
Print Assumptions wallet_upgrade_all_or_nothing.

Theorem wallet_upgrade_never_half_done : forall env ks,
  wf_env wallet_sources env ->
  let d := c_dur (wallet_history env ks) in
  (version_c d = Some 1 -> find_tab d TID_wallet = Some (mkXT TID_wallet [O] 3 (env TID_wallet))) /\
  (version_c d <> Some 1 ->
   find_tab d TID_wallet = Some (mkXT TID_wallet [O] 4 (map (fun r => r ++ [LIT_id_metadata]) (env TID_wallet)))) /\
  (version_c d = Some 0 \/ version_c d = Some 1 \/ version_c d = Some 2).
Proof. exact wallet_tables_l. Qed.
Print Assumptions wallet_upgrade_never_half_done.

(* First open of a brand-new file (creation), for both databases: whatever instants the first open and any
   number of later opens are killed at, the next open succeeds and ends - table by table - in the complete latest
   schema with its version row, published.  Creation is restartable; in particular no kill can leave a file that
   claims the current version and lacks a table for good. *)
Theorem identity_creation_restartable : forall ks,
  let c := identity_creation ks in
  c_intx c = false /\ c_view c = c_dur c /\
  exists tr cf, xopen apply_c version_c identity_ucfg c = (tr, cf, ODone) /\ c_intx cf = false /\
                forall id, find_tab (c_dur cf) id = find_tab (conc no_rows identity_new) id.
Proof. exact identity_creation_l. Qed.
Print Assumptions identity_creation_restartable.

Theorem wallet_creation_restartable : forall ks,
  let c := wallet_creation ks in
  c_intx c = false /\ c_view c = c_dur c /\
  exists tr cf, xopen apply_c version_c wallet_ucfg c = (tr, cf, ODone) /\ c_intx cf = false /\
                forall id, find_tab (c_dur cf) id = find_tab (conc no_rows wallet_new) id.
Proof. exact wallet_creation_l. Qed.
Print Assumptions wallet_creation_restartable.

(* The generic theorem behind them: for any check_database program, any description of the old file and any set R of
   symbolic contents that contains the start and is closed under "open, killed anywhere" (computed: closed_check,
   class_check), every kill history of every concrete file publishes the concretisation of a member of R. *)
Theorem symbolic_exploration_sound :
  forall srcs cfg start targets final R,
  closed_check srcs cfg start R = true -> class_check srcs cfg targets final R = true ->
  forall env, wf_env srcs env -> forall ks,
  let c := xhistory apply_c version_c cfg (fresh_conn (conc env start)) (kills ks) in
  c_intx c = false /\ c_view c = c_dur c /\
  (exists t, In t targets /\ forall id, find_tab (c_dur c) id = find_tab (conc env t) id) /\
  exists tr cf, xopen apply_c version_c cfg c = (tr, cf, ODone) /\ c_intx cf = false /\
                forall id, find_tab (c_dur cf) id = find_tab (conc env final) id.
Proof. exact upgrade_kill_safe. Qed.
Print Assumptions symbolic_exploration_sound.

(* a symbolic statement step inside the modelled fragment is the concrete step, on every concretisation *)
Theorem symbolic_step_sound : forall srcs env d q r d',
  wf_env srcs env -> apply_s srcs d q = (r, d') -> r <> XUnknown -> apply_c (conc env d) q = (r, conc env d').
Proof. intros srcs env d q r d' WF. exact (apply_sound srcs env WF d q r d'). Qed.
Print Assumptions symbolic_step_sound.

(* ------------------------------------------------------------------------------------------------
   What is false, kept visible: the identity upgrade written as separate calls
       execute("BEGIN"); execute("ALTER TABLE .. RENAME .."); executescript(<schema>); execute("INSERT .. SELECT ..");
       execute("DROP TABLE ..");  commit()
   (seed C19d).  It reads as one transaction, but executescript commits the open transaction (P2) and runs the
   schema - version row included - in autocommit mode (S1).  On a file with one attestation [7;8;9;6]:
   killed at instant 4 the renamed table is published without its successor and every later open raises;
   killed at instant 12 the file says version 2 with an empty Attestations table, and stays that way. *)
Definition ex_schema : list sql :=
  [QStmt (XCreate 1 [0; 1; 3]%nat 5); QStmt (XCreate 2 [0; 1]%nat 4); QStmt (XCreate 3 [0; 1; 2]%nat 4);
   QStmt (XCreate 0 [O] 2); QStmt (XDeleteEq 0 0 0); QStmt (XInsert false 0 [0; 2])].
Definition split_ucfg : ucfg :=
  mkU 2 [PScript ex_schema; PCommit]
        [(1, [PExecute QBegin; PExecute (QStmt (XRename 3 5)); PScript ex_schema;
              PExecute (QStmt (XInsertSelect true 3 5)); PExecute (QStmt (XDrop 5)); PCommit])]
        [PScript ex_schema; PCommit] [(true, 1); (true, 2); (true, 3)].
Definition ex_env (s : Z) : list xrow := if s =? 3 then [[7; 8; 9; 6]] else [].

Theorem split_upgrade_refuted :
  wf_env identity_sources ex_env /\
  (let c := xhistory apply_c version_c split_ucfg (fresh_conn (conc ex_env identity_v1)) (kills [4%nat]) in
   find_tab (c_dur c) 3 = None /\ find_tab (c_dur c) 5 = Some (mkXT 5 [0; 2]%nat 4 [[7; 8; 9; 6]]) /\
   snd (xopen apply_c version_c split_ucfg c) = ORaised) /\
  (let c := xhistory apply_c version_c split_ucfg (fresh_conn (conc ex_env identity_v1)) (kills [12%nat; 100%nat]) in
   version_c (c_dur c) = Some 2 /\ find_tab (c_dur c) 3 = Some (mkXT 3 [0; 1; 2]%nat 4 []) /\
   find_tab (c_dur c) 5 = Some (mkXT 5 [0; 2]%nat 4 [[7; 8; 9; 6]])) /\
  closed_check identity_sources split_ucfg identity_v1 (reach identity_sources split_ucfg identity_v1) = false.
Proof.
  split; [|vm_compute; repeat split; reflexivity].
  repeat constructor; cbn; auto; intros [].
Qed.
Print Assumptions split_upgrade_refuted.

(* A creation that is NOT restartable (seed C19f): the version row is written before the data table is created
   (separate autocommit statements, S1) and a current file is not checked again.  Killed at instant 3 of the first
   open, the file says version 2, has no data table, and every later open leaves it that way. *)
Definition early_version_ucfg : ucfg :=
  mkU 2 [PScript [QStmt (XCreate 0 [O] 2); QStmt (XDeleteEq 0 0 0); QStmt (XInsert false 0 [0; 2]);
                  QStmt (XCreate 4 [O] 4)]; PCommit]
        [] [] [(false, 4)].

Theorem early_version_creation_refuted :
  let c := xhistory apply_c version_c early_version_ucfg (fresh_conn []) (kills [3%nat; 100%nat; 100%nat]) in
  version_c (c_dur c) = Some 2 /\ find_tab (c_dur c) 4 = None /\
  snd (xopen apply_c version_c early_version_ucfg c) = ODone /\
  class_check [] early_version_ucfg (reach [] early_version_ucfg []) wallet_new (reach [] early_version_ucfg []) = false.
Proof. vm_compute. repeat split; reflexivity. Qed.
Print Assumptions early_version_creation_refuted.

(* ------------------------------------------------------------------------------------------------
   Non-vacuity and the rules at work. *)
(* P1, P2, P3 *)
Example c19x_python_rules :
  expand false (PExecute (QStmt (XInsert true 1 [1]))) = [QBegin; QStmt (XInsert true 1 [1])] /\
  expand false (PExecute (QStmt (XRename 3 5))) = [QStmt (XRename 3 5)] /\
  expand true (PScript [QBegin]) = [QCommit; QBegin] /\
  expand true PCommit = [QCommit] /\ expand false PCommit = [].
Proof. repeat split; reflexivity. Qed.

(* the shipped upgrade on a concrete file with two attestations (distinct on the old key): kill instants 0..10 of
   the first open publish the old file (BEGIN .. DROP are pending), the COMMIT at 11 the new one; at 16 the schema
   script has deleted the version row, at 17 it is back; an upgrade killed twice still completes *)
Definition ex_env2 (s : Z) : list xrow :=
  if s =? 1 then [[1; 2; 3; 4; 5]] else if s =? 2 then [[1; 6; 7; 8]]
  else if s =? 3 then [[1; 20; 30; 40]; [1; 21; 31; 41]] else [].

Example c19x_hypotheses_met : wf_env identity_sources ex_env2.
Proof.
  unfold wf_env, identity_sources. repeat (constructor; [split|]); cbn;
    repeat constructor; cbn; try (intros H; repeat (destruct H as [H|H]; try discriminate); exact H).
Qed.

Example c19x_shipped_upgrade_concrete :
  map (fun k => version_c (c_dur (identity_history ex_env2 [k])))
      [0; 5; 10; 11; 15; 16; 17; 100]%nat
  = [Some 1; Some 1; Some 1; Some 2; Some 2; Some 0; Some 2; Some 2] /\
  find_tab (c_dur (identity_history ex_env2 [10%nat; 3%nat; 100%nat])) 3
  = Some (mkXT 3 [0; 1; 2]%nat 4 [[1; 20; 30; 40]; [1; 21; 31; 41]]).
Proof. vm_compute. split; reflexivity. Qed.
