(* C13 - introduced peers behind cone NATs become mutually reachable.  Property theorems only. *)
From Coq Require Import ZArith List Bool.
From IPV8V Require Import lib.PyErr gen.G13_lan model.M13_nat model.M13_scenario
  proofs.P13_proto proofs.P13_nat proofs.P13_scenario.
Import ListNotations.
Open Scope Z_scope.

(* ---------------------------------------------------------------------------------- the introducer *)

(* Whatever the state of a node: if its answer to an introduction request introduces somebody, then the
   same step emits exactly two datagrams - first a puncture-request to the introduced (verified) peer's
   address naming the requester's LAN address (as stated in the request) and the requester's address as
   this node sees it, with the request's identifier; then the response, to the requester's address. *)
Theorem introducer_punctures : forall n src new key dest slan swan sup ident n' outs dst m,
  handle n src (IntroReq new key dest slan swan sup ident) = (n', outs) ->
  In (dst, m) outs -> introduces m = true ->
  exists c st ilan iwan,
    In c (n_peers n') /\
    m = IntroResp st (n_key n) src (n_lan n) (n_wan n) ilan iwan true (p_new c) ident /\
    dst = src /\
    outs = [(p_v4 c, PunctReq st slan src ident); (src, m)].
Proof. exact introducer_punctures_l. Qed.
Print Assumptions introducer_punctures.

(* The peer that is asked to puncture is never the requester itself (no other known peer being registered
   under the requester's source address). *)
Theorem introduction_excludes_requester : forall n src new key dest slan swan sup ident n' outs,
  key <> n_key n ->
  (forall q, In q (n_peers n) -> has_addr src q = true -> p_key q = key) ->
  handle n src (IntroReq new key dest slan swan sup ident) = (n', outs) ->
  forall dst st lanw wanw pid, In (dst, PunctReq st lanw wanw pid) outs ->
  exists c, In c (n_peers n') /\ p_v4 c = dst /\ p_key c <> key.
Proof. exact introduction_excludes_requester_l. Qed.
Print Assumptions introduction_excludes_requester.

(* Own-address learning, requester side: the requester becomes a verified peer recorded under its source
   address together with the LAN address it stated. *)
Theorem request_verifies_sender : forall n src new key dest slan swan sup ident n' outs,
  key <> n_key n ->
  handle n src (IntroReq new key dest slan swan sup ident) = (n', outs) ->
  exists p, find_peer key (n_peers n') = Some p /\ p_v4 p = src /\ p_lan p = Some slan.
Proof. exact request_verifies_sender_l. Qed.
Print Assumptions request_verifies_sender.

(* ---------------------------------------------------------------------------------- the requester *)

(* Handling an introduction response: nothing is sent; my_estimated_wan becomes the destination field
   unless that is a LAN-subnet address; the responder becomes a verified peer recorded under its source
   address and stated LAN address; the addresses picked by intro_selection - evaluated with the freshly
   learned WAN address - are registered for walking. *)
Theorem response_effect : forall n src new key dest slan swan ilan iwan sup inew ident n' outs,
  handle n src (IntroResp new key dest slan swan ilan iwan sup inew ident) = (n', outs) ->
  outs = [] /\
  n_wan n' = learned_wan n dest /\ n_lan n' = n_lan n /\
  (forall a, In a (intro_selection (n_lan n) (learned_wan n dest) ilan iwan) -> registered a n') /\
  (key <> n_key n -> exists p, find_peer key (n_peers n') = Some p /\ p_v4 p = src /\ p_lan p = Some slan).
Proof. exact response_effect_l. Qed.
Print Assumptions response_effect.

(* LAN vs WAN selection: an introduced peer whose WAN address has my WAN ip (same NAT box / same machine)
   is contacted on its LAN address and nowhere else ... *)
Theorem same_site_selects_lan : forall my_lan my_wan ilan iwan,
  ilan <> zero_addr -> fst iwan = fst my_wan -> intro_selection my_lan my_wan ilan iwan = [ilan].
Proof. exact selection_same_site. Qed.
Print Assumptions same_site_selects_lan.

(* ... and one with another WAN ip on its WAN address (after its LAN address, if one was given). *)
Theorem other_site_selects_wan : forall my_lan my_wan ilan iwan,
  iwan <> zero_addr -> fst iwan <> fst my_wan ->
  intro_selection my_lan my_wan ilan iwan = (if addr_eqb ilan zero_addr then [] else [ilan]) ++ [iwan].
Proof. exact selection_other_site. Qed.
Print Assumptions other_site_selects_wan.

(* a registered address is among the next contact attempts unless it already belongs to a verified peer *)
Theorem registered_is_walked : forall n a,
  registered a n -> existsb (has_addr a) (n_peers n) = false -> In a (walkable n).
Proof. exact registered_walkable_l. Qed.
Print Assumptions registered_is_walked.

(* ---------------------------------------------------------------------------------- the introduced peer *)

(* Puncture target selection: the puncture goes to the walker's WAN address, or - when that has my own WAN
   ip - to the walker's LAN address; it is sent in the same step and carries the identifier. *)
Theorem puncture_goes_to_walker : forall n src new lanw wanw ident,
  handle n src (PunctReq new lanw wanw ident) =
  (set_gt n (n_gt n + 1),
   [(if fst wanw =? fst (n_wan n) then lanw else wanw, Punct new (n_key n) (n_lan n) wanw ident)]).
Proof. exact puncture_goes_to_walker_l. Qed.
Print Assumptions puncture_goes_to_walker.

(* the translated LAN subnet table is RFC 1918 *)
Theorem lan_subnets_rfc1918 : forall ip, in_lan_subnets ip = true <-> rfc1918 ip.
Proof. exact lan_subnets_rfc1918_l. Qed.
Print Assumptions lan_subnets_rfc1918.

(* ---------------------------------------------------------------------------------- the NAT network *)

(* every send keeps the network well formed *)
Theorem route_keeps_wf : forall n hid dst n' oc, net_wf n -> route n hid dst = (n', oc) -> net_wf n'.
Proof. exact route_wf. Qed.
Print Assumptions route_keeps_wf.

(* The puncture lemma, for every well-formed network and each of the three cone disciplines: once a host
   behind a NAT has sent a datagram to a public address dst, it has an external address, and datagrams from
   exactly dst to that address are delivered to the host - at once and after any further traffic. *)
Theorem punctured_pair_passes : forall n hid h s dst n1 oc,
  net_wf n -> find_host n hid = Some h -> find_site n (h_site h) = Some s -> is_open (s_type s) = false ->
  find (by_lan (s_id s) dst) (hosts n) = None -> in_lan_subnets (fst dst) = false -> fst dst <> s_pub s ->
  route n hid dst = (n1, oc) ->
  exists ext,
    external n1 hid = Some (s_pub s, ext) /\
    forall later, internet (routes n1 later) dst (s_pub s, ext) = Deliver hid dst.
Proof. exact punctured_pair_passes_l. Qed.
Print Assumptions punctured_pair_passes.

(* endpoint-independent mapping: the external address of a host never changes once allocated *)
Theorem external_address_stable : forall n hid x h d n' oc,
  net_wf n -> external n hid = Some x -> route n h d = (n', oc) -> external n' hid = Some x.
Proof. exact external_stable_l. Qed.
Print Assumptions external_address_stable.

(* the simulated restricted NATs really filter: what was not solicited is dropped *)
Theorem unsolicited_is_filtered : forall n s h src ext,
  net_wf n -> In s (sites n) -> In h (hosts n) -> h_site h = s_id s -> In (h_lan h, ext) (s_maps s) ->
  fst src <> s_pub s ->
  (s_type s = AddrRestricted /\ (forall e, In e (s_filt s) -> fst e = ext -> fst (snd e) <> fst src)
   \/ s_type s = PortRestricted /\ (forall e, In e (s_filt s) -> fst e = ext -> snd e <> src)) ->
  internet n src (s_pub s, ext) = Drop Filtered.
Proof. exact unsolicited_is_filtered_l. Qed.
Print Assumptions unsolicited_is_filtered.

(* hosts of one NAT site reach each other directly, LAN address to LAN address *)
Theorem lan_delivery : forall n hid h s h2,
  net_wf n -> find_host n hid = Some h -> find_site n (h_site h) = Some s -> is_open (s_type s) = false ->
  In h2 (hosts n) -> h_site h2 = h_site h ->
  route n hid (h_lan h2) = (n, Deliver (h_id h2) (h_lan h)).
Proof. exact lan_delivery_l. Qed.
Print Assumptions lan_delivery.

(* ---------------------------------------------------------------------------------- the scenario *)

(* For every NAT type of the requester's site and of the introduced peer's site (4 x 4), placement (own
   sites / the same site - two public hosts count as own sites, two nodes on one public machine as the same
   site), way the introducer B got to know the introduced peer (it walked to B / the tracker introduced it
   and B walked to it), old- and new-style first request of the introduced peer, old- and new-style request
   of the requester, k = 1..5 candidates at B (the other k-1 of rotating types, alternating placement and
   acquisition), every position of the introduced peer among them; and for k in {1, 3} also every
   combination of: the introduced peer has numerically the requester's LAN address behind its own NAT
   (alias), the requester talked to the tracker before (warm), the introduced peer lost its NAT mapping
   and renewed it from a new external address before the requester turned up (rebound)   [in_sweep] -
   on the network that enforces mapping and filtering:  B's response introduces candidate `pos`, and B's
   puncture-request names the requester's LAN/WAN pair and reaches it; it punctures towards the requester;
   one of the requester's next contact attempts - sent to an address B handed out - reaches it; its answer
   reaches the requester; both end up in each other's get_peers(); and peers of one site talk LAN address to
   LAN address (all_true spells these clauses, see M13_scenario.verdict). *)
Theorem cone_reachability : forall tA tC same resp newC alias rebound styleA warm k pos,
  in_sweep alias warm rebound k -> (pos < k)%nat ->
  let g := cfg_for tA (mkCand tC same resp newC alias rebound) styleA warm k pos in
  let o := run_scn g in
  introduced_peer o = Some (cand_id pos) /\
  verdict_of g o = all_true /\
  In (cand_id pos) (peers_of o ID_A) /\ In ID_A (peers_of o (cand_id pos)).
Proof. exact cone_reachability_l. Qed.
Print Assumptions cone_reachability.

(* If requester and introduced peer share a site, the requester makes exactly one contact attempt at the
   addresses B handed out: to the peer's LAN address, delivered with the requester's LAN address as source. *)
Theorem same_nat_uses_lan : forall tA tC resp newC alias rebound styleA warm k pos,
  in_sweep alias warm rebound k -> (pos < k)%nat ->
  let g := cfg_for tA (mkCand tC true resp newC alias rebound) styleA warm k pos in
  contacts (run_scn g) = [(host_lan g (cand_id pos), Deliver (cand_id pos) (host_lan g ID_A))].
Proof. exact same_nat_uses_lan_l. Qed.
Print Assumptions same_nat_uses_lan.

(* every scenario network is well formed and stays so under any scripted history, so the general NAT
   theorems above apply to every state these runs pass through *)
Theorem scenario_nets_wf : forall tA tC same resp newC alias rebound styleA warm k pos ops,
  in_sweep alias warm rebound k -> (pos < k)%nat ->
  let g := cfg_for tA (mkCand tC same resp newC alias rebound) styleA warm k pos in
  net_wf (w_net (run_ops (mk_world g) ops)).
Proof. exact scenario_nets_wf_l. Qed.
Print Assumptions scenario_nets_wf.

(* ---------------------------------------------------------------------------------- non-vacuity *)
Definition g_pr : cfg := cfg_for PortRestricted (mkCand PortRestricted false false false false false) false false 1 0.

(* both behind port-restricted NATs: the puncture itself is filtered at the requester's NAT, the request
   then passes the introduced peer's NAT *)
Example c13_filtering_at_work :
  existsb (fun e => match e with Ev 3 _ (Punct _ _ _ _ _) (Drop Filtered) => true | _ => false end)
          (o_events (run_scn g_pr)) = true
  /\ verdict_of g_pr (run_scn g_pr) = all_true.
Proof. vm_compute. split; reflexivity. Qed.

(* without the introduction (no puncture) the same request is dropped by the introduced peer's NAT *)
Example c13_unpunctured_is_dropped :
  existsb (fun e => match e with Ev 2 _ (IntroReq _ _ _ _ _ _ _) (Drop Filtered) => true | _ => false end)
          (o_events (run_case (g_pr, [OpWalk 3 ADDR_B (Some false); OpPump; OpWalk 2 ADDR_B (Some false);
                                      OpWalk 2 (ip4 5 0 0 10, 21000) (Some false); OpPump]))) = true.
Proof. vm_compute. reflexivity. Qed.

(* same NAT, introduced peer known to B only from its response: it is reached on its LAN address *)
Example c13_same_site_by_response :
  let g := cfg_for FullCone (mkCand FullCone true true false false false) false false 1 0 in
  contacts (run_scn g) = [((ip4 192 168 1 13, 8003), Deliver 3 (ip4 192 168 1 12, 8002))].
Proof. vm_compute. reflexivity. Qed.

(* the variations at work: the introduced peer (AddrRestricted NAT) has the requester's own LAN address, lost
   its mapping (so B first knew it under 5.0.0.10:21000, then 21001) and the requester knows the tracker *)
Example c13_variations :
  let g := cfg_for PortRestricted (mkCand AddrRestricted false false true true true) true true 1 0 in
  host_lan g 3 = host_lan g ID_A
  /\ contacts (run_scn g) = [((ip4 5 0 0 10, 21001), Deliver 3 (ip4 5 0 0 1, 20100));
                              ((ip4 192 168 1 12, 8002), Deliver 2 (ip4 192 168 1 12, 8002))]
  /\ verdict_of g (run_scn g) = all_true.
Proof. vm_compute. repeat split; reflexivity. Qed.

(* the hypotheses of the NAT theorems are met by a scenario network *)
Example c13_net_wf : net_wfb (mk_net g_pr) = true.
Proof. vm_compute. reflexivity. Qed.
