(* C15 extension - the property over the definitions GENERATED from the Python AST (gen/G15_handlers.v, rebuilt by
   tools/tr/tr_dht_handlers.py on every run) and over the node assembled from them with the per-peer rate limit
   (model/M15_store_gen.v).  Property theorems only. *)
From Coq Require Import ZArith List Bool.
From IPV8V Require Import lib.PyErr lib.Bytes lib.BE gen.G15_consts model.M15_dht_store model.M15_py gen.G15_handlers
  model.M15_store_gen proofs.P15_storage proofs.P15_codec proofs.P15_token proofs.P15_gen proofs.P15_gen2 proofs.P15_gen3.
Import ListNotations.
Open Scope Z_scope.

(* ------------------------------------------------------------------ the translated code is the hand model -------- *)

(* Storage.put / get / clean as compiled from the source compute exactly what the hand model's put / get / clean do
   (ordering rule, version comparison, replacement; slice arithmetic; removal of every expired value) and never raise *)
Theorem gen_put_is_put : forall hash now s key data id ma ver,
  g_put hash now s key data id ma ver = Ok (put hash s now key data id ma ver).
Proof. exact g_put_ok. Qed.
Print Assumptions gen_put_is_put.

Theorem gen_get_is_get : forall s key start limit,
  0 <= start -> (forall n, limit = Some n -> 0 <= n) ->
  g_get s key start limit = Ok (get s key (Z.to_nat start) limit).
Proof. exact g_get_ok. Qed.
Print Assumptions gen_get_is_get.

Theorem gen_clean_is_clean : forall now s, NoDup (map fst s) -> g_clean now s = Ok (clean now s).
Proof. exact g_clean_ok. Qed.
Print Assumptions gen_clean_is_clean.

(* unserialize_value (type byte, field decoders taken from the payload classes' format lists, signature check over
   everything before the signature), add_value, post_process_values (signed / unsigned split, per-signer maximum) *)
Theorem gen_unserialize_is_unserialize : forall verify siglen value,
  g_unserialize_value verify siglen value = unserialize verify siglen value.
Proof. exact g_unserialize_ok. Qed.
Print Assumptions gen_unserialize_is_unserialize.

Theorem gen_add_value_is_add_value : forall hash verify siglen now s key value ma,
  g_add_value hash verify siglen now s key value ma = add_value hash verify siglen s now key value ma.
Proof. exact g_add_value_ok. Qed.
Print Assumptions gen_add_value_is_add_value.

Theorem gen_post_process_is_post_process : forall verify siglen values,
  g_post_process_values verify siglen values = post_process verify siglen values.
Proof. exact g_post_process_ok. Qed.
Print Assumptions gen_post_process_is_post_process.

(* the decisions of on_store_request after the admission gate: size limit, count limit, token check in source
   order, then the lifetime from the number of closer nodes, the add loop and the response *)
Theorem gen_store_decisions : forall hash enc st rq token values nc,
  gx_on_store_request hash (ident hash enc rq) (secrets st) token values nc =
  Ok (if store_gate hash enc st rq token values then [EAddValues (store_max_age nc); ESendStoreResponse] else []).
Proof. exact gx_on_store_request_ok. Qed.
Print Assumptions gen_store_decisions.

(* token generation / validation *)
Theorem gen_tokens : forall hash enc st rq token,
  g_check_token hash (ident hash enc rq) (secrets st) token = check_token hash enc st rq token
  /\ (secrets st <> [] ->
      g_generate_token hash (ident hash enc rq) (secrets st) = Ok (generate_token hash enc st rq)).
Proof. intros. split; [apply g_check_token_ok | apply g_generate_token_ok]. Qed.
Print Assumptions gen_tokens.

(* gen_refines_hand_model: one step of the generated node is one step of the hand model on the same operation,
   unless the sender is blocked by the rate limit - then it is no step at all; the query history is stamped *)
Theorem gen_refines_hand_model : forall hash enc verify siglen g o,
  ginv g -> gop_wf o ->
  gstep hash enc verify siglen g o =
  match admission o with
  | Some (nid, now, known, kept) =>
      if is_blocked g nid now known then (g, silent o)
      else let '(st', r) := step hash enc verify siglen (g_base g) (base_op o) in
           (mkG st' (admitted_queries g nid now known kept), GO r)
  | None => let '(st', r) := step hash enc verify siglen (g_base g) (base_op o) in (mkG st' (g_queries g), GO r)
  end.
Proof. exact gstep_refines_l. Qed.
Print Assumptions gen_refines_hand_model.

(* whole runs: the state of the generated node after any well-formed operations is the hand model's state after
   those of them the rate limit let through; rotations are never dropped; the invariant (a secret exists, dict keys
   unique) is kept *)
Theorem gen_run_simulated_by_hand_model : forall hash enc verify siglen ops g,
  ginv g -> Forall gop_wf ops ->
  exists bops, g_base (fst (grun hash enc verify siglen g ops)) = fst (run hash enc verify siglen (g_base g) bops)
               /\ (forall o, In o bops -> In o (map base_op ops))
               /\ rotations bops = rotations (map base_op ops)
               /\ ginv (fst (grun hash enc verify siglen g ops)).
Proof. exact grun_simulated_l. Qed.
Print Assumptions gen_run_simulated_by_hand_model.

(* ------------------------------------------------------------------ the rate limit ---------------- *)

(* Node.blocked as translated: the query deque holds at least NODE_LIMIT_QUERIES entries and the oldest of them is
   less than NODE_LIMIT_INTERVAL seconds old *)
Theorem blocked_rule : forall now lq,
  g_node_blocked now lq = Ok ((g_last_queries_maxlen <=? py_len lq)
                              && match lq with [] => false | t :: _ => now - t <? NODE_LIMIT_INTERVAL end).
Proof. intros. apply g_node_blocked_ok. exact maxlen_pos. Qed.
Print Assumptions blocked_rule.

(* a blocked node's store (or find) request changes nothing: no value stored, no token issued, no response, the
   query history itself is not extended *)
Theorem blocked_request_changes_nothing : forall hash enc verify siglen g o nid now known kept,
  admission o = Some (nid, now, known, kept) -> is_blocked g nid now known = true ->
  gstep hash enc verify siglen g o = (g, silent o).
Proof. exact blocked_changes_nothing_l. Qed.
Print Assumptions blocked_request_changes_nothing.

(* ------------------------------------------------------------------ C15 over the generated node ---------------- *)

Theorem gen_store_requires_token : forall hash enc verify siglen g rq nid now known kept token target values nc,
  (Forall (fun v => blen v <= MAX_ENTRY_SIZE) values /\ Z.of_nat (length values) <= MAX_VALUES_IN_STORE
   /\ exists s, In s (secrets (g_base g)) /\ token = hash (ident hash enc rq ++ s))
  \/ (g_base (fst (gstep hash enc verify siglen g (GStore rq nid now known kept token target values nc))) = g_base g
      /\ snd (gstep hash enc verify siglen g (GStore rq nid now known kept token target values nc)) = GO (RStore false None)).
Proof. exact gen_store_requires_token_l. Qed.
Print Assumptions gen_store_requires_token.

Theorem gen_token_window : forall hash enc verify siglen,
  (forall a b, hash a = hash b -> a = b) ->
  (forall a b, enc (hash a) = enc (hash b) -> hash a = hash b) ->
  forall g rq' nid' now' known' kept' target' off' force' g1 tok vals' ops rq vals,
  ginv g -> 0 <= off' -> Forall gop_wf ops ->
  NoDup (secrets (g_base g) ++ rotations (map base_op ops)) ->
  (forall s s', In s (secrets (g_base g) ++ rotations (map base_op ops)) ->
                In s' (secrets (g_base g) ++ rotations (map base_op ops)) -> length s = length s') ->
  ~ In 32 (r_addr rq) -> ~ In 32 (r_addr rq') ->
  gstep hash enc verify siglen g (GFind rq' nid' now' known' kept' target' off' force') = (g1, GO (RFind tok vals')) ->
  store_gate hash enc (g_base (fst (grun hash enc verify siglen g1 ops))) rq tok vals = true ->
  r_addr rq' = r_addr rq /\ r_pk rq' = r_pk rq
  /\ Z.of_nat (length (rotations (map base_op ops))) < Z.max 1 TOKEN_SECRETS_MAXLEN.
Proof. exact gen_token_window_l. Qed.
Print Assumptions gen_token_window.

Theorem gen_reachable_store_ok : forall hash enc verify siglen s0 ops k v,
  Forall gop_wf ops -> no_gput ops ->
  In v (sget (store (g_base (fst (grun hash enc verify siglen (ginit s0) ops)))) k) ->
  authentic hash verify siglen v /\ 0 <= v_maxage v <= MAX_ENTRY_AGE.
Proof. exact gen_reachable_store_ok_l. Qed.
Print Assumptions gen_reachable_store_ok.

Theorem gen_signed_only_if_verifies : forall verify siglen value d pk ver,
  g_unserialize_value verify siglen value = Ok (Some (d, Some pk, ver)) ->
  exists n, siglen pk = Ok n
    /\ verify pk (slice value None (Some (- Z.of_nat n))) (slice value (Some (- Z.of_nat n)) None) = true
    /\ slice value None (Some (- Z.of_nat n)) ++ slice value (Some (- Z.of_nat n)) None = value.
Proof. exact gen_signed_only_if_verifies_l. Qed.
Print Assumptions gen_signed_only_if_verifies.

Theorem gen_lookup_signed_highest_version : forall verify siglen vals res data pk,
  g_post_process_values verify siglen vals = Ok res -> In (data, Some pk) res ->
  exists value ver, In value vals /\ g_unserialize_value verify siglen value = Ok (Some (data, Some pk, ver))
    /\ forall value' d' ver', In value' vals ->
         g_unserialize_value verify siglen value' = Ok (Some (d', Some pk, ver')) -> ver' <= ver.
Proof. exact gen_lookup_highest_l. Qed.
Print Assumptions gen_lookup_signed_highest_version.

Theorem gen_lookup_shape : forall verify siglen vals res,
  g_post_process_values verify siglen vals = Ok res ->
  exists sg us, res = sg ++ us /\ NoDup (map snd sg) /\ (forall e, In e sg -> snd e <> None)
                /\ (forall e, In e us -> snd e = None).
Proof. exact gen_lookup_shape_l. Qed.
Print Assumptions gen_lookup_shape.

Theorem gen_put_version_monotone : forall hash now s key data id ma ver,
  exists s', g_put hash now s key data id ma ver = Ok s'
    /\ forall k v, In v (sget s k) ->
         exists v', In v' (sget s' k) /\ v_id v' = v_id v /\ v_version v <= v_version v'.
Proof. exact gen_put_monotone_l. Qed.
Print Assumptions gen_put_version_monotone.

Theorem gen_expired_gone : forall now s,
  NoDup (map fst s) ->
  exists s', g_clean now s = Ok s'
    /\ forall k v, In v (sget s' k) <-> In v (sget s k) /\ now - v_last v <= v_maxage v.
Proof. exact gen_expired_gone_l. Qed.
Print Assumptions gen_expired_gone.

(* ------------------------------------------------------------------ non-vacuity ---------------- *)
(* the generated node on toy primitives: ten finds within the interval fill the deque; the eleventh request (a store
   with a valid token) is dropped without a trace; one second later the same request is served *)
Example c15x_rate_limit_nonvacuous :
  let rq := mkRq [49; 58; 50] [9; 9] in
  let grun := grun toy_hash toy_enc toy_verify toy_siglen in
  let tok := token_for toy_hash toy_enc rq [1] in
  let v5 := serialize_signed toy_sign [9; 9] [9; 9] [7] 5 in
  let find t known := GFind rq [5] t known true [4] 0 false in
  let finds := find 0 false :: map (fun t => find t true) [0; 1; 1; 2; 2; 3; 3; 4; 4] in
  let versions g := map v_version (sget (store (g_base g)) [4]) in
  snd (grun (ginit [1]) (finds ++ [GStore rq [5] 4 true true tok [4] [v5] 0])) =
    repeat (GO (RFind tok [])) 10 ++ [GO (RStore false None)]
  /\ versions (fst (grun (ginit [1]) (finds ++ [GStore rq [5] 4 true true tok [4] [v5] 0]))) = []
  /\ snd (grun (ginit [1]) (finds ++ [GStore rq [5] 5 true true tok [4] [v5] 0])) =
    repeat (GO (RFind tok [])) 10 ++ [GO (RStore true None)]
  /\ versions (fst (grun (ginit [1]) (finds ++ [GStore rq [5] 5 true true tok [4] [v5] 0]))) = [5].
Proof. vm_compute. repeat split; reflexivity. Qed.
