(* C12y - the peer graph as RUN FROM THE SOURCE.  The bodies of Network.__init__, _forget_introduction,
   _forget_service_caches, add_verified_peer, discover_address, discover_services, register_service_provider,
   get_peers_for_service, get_services_for_peer, get_walkable_addresses, get_verified_by_address,
   get_verified_by_public_key_bin, get_introductions_from, remove_by_address, remove_peer, snapshot,
   load_snapshot, is_new_style (ipv8/peerdiscovery/network.py) and of DirtyDict.__init__ / __setitem__ / update
   / clear, Peer.INTERFACE_ORDER, Peer._update_preferred_address, Peer.address, Peer.add_address and the
   address statements of Peer.__init__ (ipv8/peer.py) are regenerated on every run by tools/tr/tr_network.py
   (gen/G12_network.v) over the control combinators of model/M12_network_rt.v; model/M12_network_gen.v runs
   the model's operations through them.  The theorems state that this computes exactly the hand model
   model/M12_network.v, so every theorem of props/C12.v and props/C12x.v is a theorem about the translated
   source.  Property theorems only. *)
From Coq Require Import ZArith List Bool.
From IPV8V Require Import lib.PyErr lib.Bytes model.M02_wire model.M12_network spec.S12_graph
  proofs.P12_base proofs.P12_inv proofs.P12_queries proofs.P12_snapshot proofs.P12_codec
  model.M12_network_rt gen.G12_network model.M12_network_gen proofs.P12_network_gen.
Import ListNotations.
Open Scope Z_scope.

(* Every history of operations, any cache caps, any blacklists, any iteration order of the verified set (the
   hints): running the translated functions gives the same final graph (heap of Peer objects, membership,
   indexes, all three caches) and the same result of every operation as the hand model - no exception, no
   while loop out of fuel. *)
Theorem gen_refines_hand_model : forall ipc intc svcc bla blm ops,
  grun (init_net ipc intc svcc bla blm) ops = hrun (init_net ipc intc svcc bla blm) ops.
Proof. exact gen_refines_hand_model_l. Qed.
Print Assumptions gen_refines_hand_model.

(* One operation, from any graph that satisfies the representation invariant (every reachable one does). *)
Theorem gen_refines_step : forall s o, Inv s -> gstep s o = hstep s o.
Proof. exact gen_refines_step_l. Qed.
Print Assumptions gen_refines_step.

(* The graph reached through the translated functions IS the hand model's graph ... *)
Theorem gen_state_is_model_state : forall ipc intc svcc bla blm ops,
  fst (grun (init_net ipc intc svcc bla blm) ops) = run (init_net ipc intc svcc bla blm) ops.
Proof. exact gen_state_is_model_state_l. Qed.
Print Assumptions gen_state_is_model_state.

(* ... and Network.__init__ as translated builds the hand model's initial graph with the default caps. *)
Theorem gen_init_is_model_init : g_init = init_net 500 500 500 [] [].
Proof. exact g_init_ok. Qed.
Print Assumptions gen_init_is_model_init.

(* Transferred: representation invariant and agreement of every lookup with the membership (props/C12.v
   representation_invariant, queries_agree), on the graph built by the translated functions. *)
Theorem gen_representation_invariant : forall ipc intc svcc bla blm ops,
  Inv (fst (grun (init_net ipc intc svcc bla blm) ops)) /\
  answers_agree (fst (grun (init_net ipc intc svcc bla blm) ops)).
Proof. exact gen_representation_invariant_l. Qed.
Print Assumptions gen_representation_invariant.

(* What the TRANSLATED lookups return on such a graph is what the graph implies, and asking leaves it alone. *)
Theorem gen_lookups_agree : forall ipc intc svcc bla blm ops,
  let n := fst (grun (init_net ipc intc svcc bla blm) ops) in
  let g := abs n in
  (forall fuel k, g_get_verified_by_public_key_bin fuel k n = (n, Ok (spec_by_key g k))) /\
  (forall fuel hint a, exists n' r, g_get_verified_by_address fuel hint a n = (n', Ok r) /\ abs n' = g /\
        match r with Some i => In i (spec_owners g a) | None => spec_owners g a = [] end) /\
  (forall fuel sid, exists n' l, g_get_peers_for_service fuel sid n = (n', Ok l) /\ abs n' = g /\
        forall i, In i l <-> In i (spec_peers_for_service g sid)) /\
  (forall fuel so old, exists n' l, g_get_walkable_addresses fuel so old n = (n', Ok l) /\ abs n' = g /\
        forall a, In a l <-> In a (spec_walkable g so old)).
Proof. exact gen_lookups_agree_l. Qed.
Print Assumptions gen_lookups_agree.

(* Transferred: asking_changes_nothing. *)
Theorem gen_asking_changes_nothing : forall ipc intc svcc bla blm ops qs,
  all_queries qs ->
  let n := fst (grun (init_net ipc intc svcc bla blm) ops) in
  abs (fst (grun n qs)) = abs n.
Proof. exact gen_asking_changes_nothing_l. Qed.
Print Assumptions gen_asking_changes_nothing.

(* Transferred from props/C12x.v: the translated snapshot() never raises on a reachable graph, and the
   translated load_snapshot of it into the translated Network() recovers exactly the verified peers'
   preferred addresses, in order, and makes exactly them walkable. *)
Theorem gen_snapshot_roundtrip : forall ipc intc svcc bla blm ops fuel,
  Forall op_ok ops ->
  let n := fst (grun (init_net ipc intc svcc bla blm) ops) in
  exists bs, g_snapshot fuel n = (n, Ok bs) /\
    let m := fst (g_load_snapshot (S (length bs)) bs g_init) in
    snd (g_load_snapshot (S (length bs)) bs g_init) = Ok tt /\
    map fst (all_addrs m) = uniq (spec_snapshot_addrs (abs n)) /\
    (forall x, In x (snd (get_walkable_addresses m None false)) <-> In x (spec_snapshot_addrs (abs n))).
Proof. exact gen_snapshot_roundtrip_l. Qed.
Print Assumptions gen_snapshot_roundtrip.

(* peer.py: one Peer object driven through the translated Peer.__init__ / add_address / address and the
   translated DirtyDict.update (what add_verified_peer does to a known peer), in any order: its address dict
   is the hand model's addrmap and every read of Peer.address returns am_preferred of it - the primitive
   `paddress` the translated Network functions use. *)
Theorem gen_peer_address_is_preferred : forall ao ops,
  snd (gpeer_run (gpeer_new ao) ops) = snd (hpeer_run (hpeer_new ao) ops) /\
  dd_map (p_addresses (fst (gpeer_run (gpeer_new ao) ops))) = fst (hpeer_run (hpeer_new ao) ops).
Proof. exact gen_peer_address_is_preferred_l. Qed.
Print Assumptions gen_peer_address_is_preferred.

(* ---- non-vacuity: a history through every translated function, run from the generated definitions *)
Definition y_a0 := A4 [1; 1; 1; 1] 1.
Definition y_a1 := A4 [2; 2; 2; 2] 2.
Definition y_ad := ADom [104] 80.
Definition y_ops : list op :=
  [AddVerified 1 (mkAm (Some y_a0) None None); DiscoverServices 1 am_empty [7]; GetByAddress y_a0 None; GetPeersForService 7;
   DiscoverAddress 1 am_empty y_a1 (Some 7) false; GetIntroductionsFrom 1;
   DiscoverAddress 2 (mkAm None None (Some y_ad)) y_a0 None true; GetWalkable (Some 7) false; GetServicesForPeer 1; Snapshot;
   RemoveByAddress y_a0; GetByKey 1; RemovePeer 2 am_empty; LoadSnapshot [1; 2; 2; 2; 2; 0; 2; 2; 0; 1; 104; 0; 80; 9];
   GetWalkable None false; AddVerified 1 (mkAm (Some y_a1) None None); Snapshot].

Example c12y_nonvacuous_run :
  snd (grun (init_net 2 2 2 [] []) y_ops)
  = [Ok GUnit; Ok GUnit; Ok (GOPeer (Some 0%nat)); Ok (GPeers [0%nat]); Ok GUnit; Ok (GAddrs [y_a1]); Ok GUnit;
     Ok (GAddrs [y_a1]); Ok (GSvcs [7]); Ok (GBytes [1; 1; 1; 1; 1; 0; 1; 2; 0; 1; 104; 0; 80]); Ok GUnit; Ok (GOPeer None);
     Ok GUnit; Ok GUnit; Ok (GAddrs [y_a1; y_ad]); Ok GUnit; Ok (GBytes [1; 2; 2; 2; 2; 0; 2])].
Proof. vm_compute. reflexivity. Qed.

Example c12y_nonvacuous_peer :
  snd (gpeer_run (gpeer_new (Some y_ad)) [PRead; PUpdate (mkAm None None (Some (ADom [105] 81))); PRead; PAdd y_a0; PRead;
                                           PUpdate (mkAm (Some y_a1) None None); PRead])
  = [Ok (Some y_ad); Ok None; Ok (Some (ADom [105] 81)); Ok None; Ok (Some y_a0); Ok None; Ok (Some y_a1)].
Proof. vm_compute. reflexivity. Qed.
