(* C06 - an exit node never emits traffic its exit policy forbids.  Property theorems only. *)
From Coq Require Import ZArith List Bool.
From IPV8V Require Import lib.PyErr lib.Bytes gen.G06_datachecker spec.S06_policy model.M06_emit
  proofs.P06_classifier proofs.P06_emit.
Import ListNotations.
Open Scope Z_scope.

(* The gate translated from exit_socket.py computes exactly the declarative policy, for every
   byte string, every flag list and every overlay prefix - and never raises. *)
Theorem classifier_meets_spec : forall flags prefix d,
  bytes_ok d -> is_allowed flags prefix d = Ok (permitted flags prefix d).
Proof. exact is_allowed_correct. Qed.
Print Assumptions classifier_meets_spec.

(* Over every history of the exit socket, everything handed to the outside transport and
   everything sent back into the tunnel is permitted by the policy, and no transport send goes
   to the null address. *)
Theorem emit_only_permitted : forall flags prefix prev_ip ops,
  Forall op_ok ops ->
  Forall (out_ok flags prefix) (snd (run flags prefix prev_ip init_sock ops)).
Proof. exact emit_only_permitted_l. Qed.
Print Assumptions emit_only_permitted.

Theorem socket_opened_by_prev_hop_only : forall flags prefix prev_ip s o,
  enabled s = false -> enabled (fst (step flags prefix prev_ip s o)) = true ->
  exists d data, o = ExitData true prev_ip d data /\ d <> DNull.
Proof. exact enabled_only_by_prev_hop_l. Qed.
Print Assumptions socket_opened_by_prev_hop_only.

Theorem disabled_is_silent : forall flags prefix prev_ip s o,
  sock_ok s -> enabled s = false -> enabled (fst (step flags prefix prev_ip s o)) = false ->
  snd (step flags prefix prev_ip s o) = [].
Proof. exact disabled_is_silent_l. Qed.
Print Assumptions disabled_is_silent.

Theorem exit_queue_bounded : forall flags prefix prev_ip ops,
  Forall op_ok ops ->
  Z.of_nat (length (queue (fst (run flags prefix prev_ip init_sock ops)))) <= EXIT_QUEUE_MAXLEN.
Proof. exact queue_bounded_l. Qed.
Print Assumptions exit_queue_bounded.

Theorem forbidden_exit_is_noop : forall flags prefix prev_ip s known src d data,
  enabled s = true -> allowed flags prefix data = false ->
  step flags prefix prev_ip s (ExitData known src d data) = (s, []).
Proof. exact forbidden_exit_noop_l. Qed.
Print Assumptions forbidden_exit_is_noop.

(* non-vacuity: a concrete history in which packets are queued, drained, emitted and refused *)
Example c06_nonvacuous :
  let flags := [1; 2] in let prefix := repeat 7 22 in
  let utp := 1 :: 0 :: repeat 0 18 in
  let ipv8 := 0 :: 2 :: repeat 9 21 in
  snd (run flags prefix 5 init_sock
           [ExitData true 6 (DV4 1 1) utp; ExitData true 5 (DV4 1 1) utp; ExitData true 5 (DV4 1 1) ipv8;
            TransportsCreated; ExitData true 9 (DV6 2 2) utp; Outside false false (DV4 3 3) utp;
            Outside false false (DV4 3 3) ipv8])
  = [Sendto utp (DV4 1 1); Sendto utp (DV6 2 2); SendData (DV4 3 3) utp].
Proof. vm_compute. reflexivity. Qed.
