(* C13 (translated handlers) - the handlers regenerated from ipv8/community.py compute what the hand model
   M13_nat computes.  Property theorems only.

   gen/G13_introduction.v is the one-to-one image (tools/tr/tr_introduction.py) of the bodies of
     Community.create_introduction_request / create_introduction_response / create_puncture /
       create_puncture_request, on_{old,new}_introduction_request, on_introduction_request,
       on_{old,new}_introduction_response, on_introduction_response, on_{,new_}puncture,
       on_{old,new}_puncture_request, on_puncture_request, walk_to, send_introduction_request,
       my_preferred_address, guess_address, get_peers, get_walkable_addresses, the two callback hooks,
     EndpointListener.my_estimated_lan (getter), address_is_lan, _get_lan_address, _guess_lan_address,
     the constructor signatures and message numbers of the eight payload classes, the add_message_handler table
     and its lazy_wrapper decorators, _UNUSED_FLAGS_REQ / _RESP.
   model/M13_intro_gen.v interprets these terms (handle_g & co.: decode -> decorator -> handler -> effects);
   its fixed vocabulary (Network / Peer methods, endpoint, _ez_pack by field name, claim_global_time, the
   random choice of get_peer_for_introduction = the n_sel oracle, address_in_lan_subnets = G13_lan,
   max_peers = 30, IPv4-only plain endpoint) is listed there.  With these theorems every statement of
   props/C13.v and props/C13x.v about `handle`, `make_request`, `walkable` - introducer_punctures,
   same_site_selects_lan, puncture_goes_to_walker, response_effect, cone_reachability,
   nat_introducer_reachability ... - is a statement about the translated code. *)
From Coq Require Import ZArith List Bool String.
From IPV8V Require Import lib.PyErr gen.G13_lan model.M13_nat model.M13_scenario model.M13_py gen.G13_introduction
  model.M13_intro_gen proofs.P13_introduction_gen.
Import ListNotations.
Open Scope Z_scope.

(* Receiving: for every node state with at most max_peers peers, every source address and every datagram
   of the four kinds (either style, 16-bit identifier), running the translated receive path - payload object,
   lazy_wrapper, the registered handler and everything it calls - yields exactly the successor state and the
   datagrams of M13_nat.handle, and never raises. *)
Theorem gen_refines_hand_model : forall n src m,
  node_ok n -> msg_ok m -> handle_g n src m = Ok (handle n src m).
Proof. exact gen_refines_hand_model_l. Qed.
Print Assumptions gen_refines_hand_model.

(* Sending: the translated create_introduction_request / walk_to / send_introduction_request produce the
   request of M13_nat.make_request (which addresses go where, old vs new style, identifier), addressed to the
   walked address resp. the peer's address, with the style Network.is_new_style / the peer's flag dictates. *)
Theorem gen_create_request_refines : forall n dst new,
  create_introduction_request_g n dst new = Ok (make_request n dst new).
Proof. exact refines_create_request. Qed.
Print Assumptions gen_create_request_refines.

Theorem gen_walk_to_refines : forall n dst,
  walk_to_g n dst = Ok (let '(n', m) := make_request n dst (is_new_style n dst) in (n', [(dst, m)])).
Proof. exact refines_walk_to. Qed.
Print Assumptions gen_walk_to_refines.

Theorem gen_send_introduction_request_refines : forall n p,
  send_introduction_request_g n p
  = Ok (let '(n', m) := make_request n (p_v4 p) (p_new p) in (n', [(p_v4 p, m)])).
Proof. exact refines_send_introduction_request. Qed.
Print Assumptions gen_send_introduction_request_refines.

Theorem gen_walkable_refines : forall n, walkable_g n = Ok (walkable n).
Proof. exact refines_walkable. Qed.
Print Assumptions gen_walkable_refines.

Theorem gen_get_peers_refines : forall n, peers_g n = Ok (map p_key (n_peers n)).
Proof. exact refines_get_peers. Qed.
Print Assumptions gen_get_peers_refines.

(* Worlds: one delivery, one walk, one request to a known peer, one round of walks over the translated handlers
   is the same world step as over the hand model (a delivery: for a 16-bit identifier at a node within max_peers) *)
Theorem gen_deliver_one_refines : forall w,
  match w_queue w with
  | [] => True
  | (hid, _, m) :: _ => msg_ok m /\ (forall n, find_node w hid = Some n -> node_ok n)
  end ->
  deliver_one_g w = deliver_one w.
Proof. exact deliver_one_refines. Qed.
Print Assumptions gen_deliver_one_refines.

Theorem gen_walk_refines : forall w h dst style, step_op_g w (OpWalk h dst style) = step_op w (OpWalk h dst style).
Proof. exact walk_refines. Qed.
Print Assumptions gen_walk_refines.

Theorem gen_ask_refines : forall w h key, step_op_g w (OpAsk h key) = step_op w (OpAsk h key).
Proof. exact ask_refines. Qed.
Print Assumptions gen_ask_refines.

Theorem gen_walkall_refines : forall w h, step_op_g w (OpWalkAll h) = step_op w (OpWalkAll h).
Proof. exact walkall_refines. Qed.
Print Assumptions gen_walkall_refines.

(* ---------------------------------------------------------------------------------- non-vacuity *)
Definition run_scn_g (g : cfg) : obs := observe (run_ops_g (mk_world g) (scenario_ops g)).

(* whole scenarios run over the translated handlers: everybody behind a port-restricted NAT (base space),
   and the introducer behind its own address-restricted NAT with a by-response candidate (enlarged space) *)
Example c13y_scenarios_over_translated_handlers :
  let g1 := cfg_for PortRestricted (mkCand PortRestricted false false false false false) false false 1 0 in
  let g2 := cfg_forx (BOwn AddrRestricted) FullCone (mkCand PortRestricted false true true false false) true 3 1 in
  obs_eqb (run_scn_g g1) (run_scn g1) = true /\ holds g1 (run_scn_g g1) = true
  /\ obs_eqb (run_scn_g g2) (run_scn g2) = true /\ holds g2 (run_scn_g g2) = true.
Proof. vm_compute. repeat split; reflexivity. Qed.

(* a translated handler at work on a concrete state: the introducer introduces peer 7 (known under 5.0.0.9:2000
   with LAN 192.168.1.9:8000) to the requester 3 and asks it to puncture *)
Example c13y_handler :
  let n := mkNode 1 (16777218, 8001) (16777218, 8001) 5 0
                  [mkPeer 7 (83886089, 2000) (Some (3232235785, 8000)) false] [] in
  handle_g n (83886081, 20100) (IntroReq false 3 (16777218, 8001) (3232235788, 8002) (3232235788, 8002) false 9)
  = Ok (handle n (83886081, 20100) (IntroReq false 3 (16777218, 8001) (3232235788, 8002) (3232235788, 8002) false 9))
  /\ exists n', handle n (83886081, 20100) (IntroReq false 3 (16777218, 8001) (3232235788, 8002) (3232235788, 8002) false 9)
     = (n', [((83886089, 2000), PunctReq false (3232235788, 8002) (83886081, 20100) 9);
             ((83886081, 20100), IntroResp false 1 (83886081, 20100) (16777218, 8001) (16777218, 8001)
                                           (3232235785, 8000) (83886089, 2000) true false 9)]).
Proof. split; [vm_compute; reflexivity | eexists; vm_compute; reflexivity]. Qed.
