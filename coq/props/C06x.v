(* C06 (extension) - the emission path of the exit node, over the DECISIONS regenerated from the source on every run
   (gen/G06_exit.v, by tools/tr/tr_exit.py) as interpreted by model/M06_emit_gen.v.  Property theorems only.
   Addresses are text here: `hop_ip` is the text of the previous hop's IP address, an XExitData carries the text of
   the source IP the packet came from. *)
From Coq Require Import ZArith List Bool.
From IPV8V Require Import lib.PyErr lib.Bytes gen.G06_datachecker gen.G06_exit spec.S06_policy model.M06_emit
  model.M06_emit_gen proofs.P06_classifier proofs.P06_emit proofs.P06_emit_gen.
Import ListNotations.
Open Scope Z_scope.

(* Over every history of the exit socket: everything handed to an outside transport and everything sent back into
   the tunnel is permitted by the declarative policy (spec/S06_policy.v), and no transport send goes to 0.0.0.0:0.
   Queued packets, DNS-deferred packets and returning datagrams included. *)
Theorem gen_emit_only_permitted : forall flags prefix hop_ip ops,
  Forall opx_ok ops ->
  Forall (fun o => out_ok flags prefix (fst o)) (snd (runx flags prefix hop_ip init_sockx ops)).
Proof. exact emit_only_permitted_xl. Qed.
Print Assumptions gen_emit_only_permitted.

(* The same over the op alphabet of M06_emit (numeric address identifiers, any rendering `txt` to text). *)
Theorem gen_emit_only_permitted_ops : forall flags prefix txt prev_ip ops,
  Forall op_ok ops ->
  Forall (out_ok flags prefix) (map fst (snd (run_gen flags prefix txt prev_ip init_sockx ops))).
Proof. exact emit_only_permitted_ops_l. Qed.
Print Assumptions gen_emit_only_permitted_ops.

(* The socket becomes enabled only by exit data for a known circuit whose source-IP text EQUALS the hop's IP text
   (and whose destination is not the null address). *)
Theorem gen_socket_opened_by_prev_hop_only : forall flags prefix hop_ip s o,
  sockx_ok s -> x_enabled s = false -> x_enabled (fst (stepx flags prefix hop_ip s o)) = true ->
  exists d data, o = XExitData true hop_ip d data /\ d <> DNull.
Proof. exact enabled_only_by_prev_hop_xl. Qed.
Print Assumptions gen_socket_opened_by_prev_hop_only.

(* ... as an invariant over all histories: an enabled socket has seen such a packet, *)
Theorem gen_enabled_only_after_prev_hop_data : forall flags prefix hop_ip ops,
  Forall opx_ok ops -> x_enabled (fst (runx flags prefix hop_ip init_sockx ops)) = true ->
  exists d data, In (XExitData true hop_ip d data) ops /\ d <> DNull.
Proof. exact enabled_history_xl. Qed.
Print Assumptions gen_enabled_only_after_prev_hop_data.

Theorem gen_enabled_only_after_prev_hop_data_ops : forall flags prefix txt prev_ip ops,
  Forall op_ok ops -> x_enabled (fst (run_gen flags prefix txt prev_ip init_sockx ops)) = true ->
  exists src d data, In (ExitData true src d data) ops /\ txt src = txt prev_ip /\ d <> DNull.
Proof. exact enabled_ops_l. Qed.
Print Assumptions gen_enabled_only_after_prev_hop_data_ops.

(* ... and until then nothing at all is emitted, in either direction. *)
Theorem gen_silent_until_prev_hop_data : forall flags prefix hop_ip ops,
  Forall opx_ok ops -> existsb (opens hop_ip) ops = false ->
  snd (runx flags prefix hop_ip init_sockx ops) = []
  /\ x_enabled (fst (runx flags prefix hop_ip init_sockx ops)) = false.
Proof. exact silent_until_opened_xl. Qed.
Print Assumptions gen_silent_until_prev_hop_data.

Theorem gen_disabled_is_silent : forall flags prefix hop_ip s o,
  sockx_ok s -> x_enabled s = false -> x_enabled (fst (stepx flags prefix hop_ip s o)) = false ->
  snd (stepx flags prefix hop_ip s o) = [].
Proof. exact disabled_is_silent_xl. Qed.
Print Assumptions gen_disabled_is_silent.

(* The waiting queue never holds more than 10 packets (the documented bound, stated as a number). *)
Theorem gen_exit_queue_bounded : forall flags prefix hop_ip ops,
  Forall opx_ok ops -> Z.of_nat (length (x_queue (fst (runx flags prefix hop_ip init_sockx ops)))) <= 10.
Proof. exact queue_bounded_xl. Qed.
Print Assumptions gen_exit_queue_bounded.

(* When the transports come into existence the queue is emptied oldest first and every queued packet passes the
   policy again on its way out. *)
Theorem gen_drain_is_fifo_and_rechecked : forall flags prefix hop_ip s,
  sockx_ok s -> x_task s = TaskRegistered ->
  snd (stepx flags prefix hop_ip s XTransportsCreated) = drain_out flags prefix (x_queue s)
  /\ x_queue (fst (stepx flags prefix hop_ip s XTransportsCreated)) = []
  /\ x_t4 (fst (stepx flags prefix hop_ip s XTransportsCreated)) = Some CB4
  /\ x_t6 (fst (stepx flags prefix hop_ip s XTransportsCreated)) = Some CB6.
Proof. exact drain_fifo_xl. Qed.
Print Assumptions gen_drain_is_fifo_and_rechecked.

(* Every transport send leaves through the transport of the destination's own family. *)
Theorem gen_transport_matches_family : forall flags prefix hop_ip ops,
  Forall opx_ok ops -> Forall tag_ok (snd (runx flags prefix hop_ip init_sockx ops)).
Proof. exact transport_matches_family_xl. Qed.
Print Assumptions gen_transport_matches_family.

Theorem gen_forbidden_exit_is_noop : forall flags prefix hop_ip s known src_ip d data,
  x_enabled s = true -> allowed flags prefix data = false ->
  stepx flags prefix hop_ip s (XExitData known src_ip d data) = (s, []).
Proof. exact forbidden_exit_noop_xl. Qed.
Print Assumptions gen_forbidden_exit_is_noop.

Theorem gen_forbidden_outside_is_dropped : forall flags prefix hop_ip s v6 src_ip src data,
  sockx_ok s -> allowed flags prefix data = false ->
  snd (stepx flags prefix hop_ip s (XOutside v6 src_ip src data)) = [].
Proof. exact forbidden_outside_xl. Qed.
Print Assumptions gen_forbidden_outside_is_dropped.

(* A datagram arriving on the IPv6 transport from an IPv4-mapped source ("::ffff:...") changes nothing. *)
Theorem gen_mapped_ipv6_source_ignored : forall flags prefix hop_ip s src_ip src data,
  sockx_ok s -> firstn 7 src_ip = mapped_prefix ->
  stepx flags prefix hop_ip s (XOutside true src_ip src data) = (s, []).
Proof. exact mapped_ignored_xl. Qed.
Print Assumptions gen_mapped_ipv6_source_ignored.

(* The generated decisions never reach a situation the interpreter has no meaning for (a transport used before it
   exists, a task registered twice, a drain loop that puts packets back). *)
Theorem gen_never_stuck : forall flags prefix hop_ip ops,
  Forall opx_ok ops -> x_stuck (fst (runx flags prefix hop_ip init_sockx ops)) = false.
Proof. exact never_stuck_xl. Qed.
Print Assumptions gen_never_stuck.

(* The hand-written model M06_emit (the one props/C06.v is about and c06.py replays histories against) is an
   abstraction of the generated decisions: on every history it observes exactly what their interpretation observes,
   whenever the text rendering keeps the hop's address apart from other identifiers and an Outside op's `mapped`
   flag tells whether the text seen by the IPv6 callback starts with "::ffff:". *)
Theorem gen_refines_hand_model : forall flags prefix txt prev ops,
  Forall op_ok ops -> Forall (op_txt_ok txt prev) ops ->
  fst (fst (observex (run_gen flags prefix txt prev init_sockx ops)))
  = observe (M06_emit.run flags prefix prev init_sock ops).
Proof. exact gen_refines_hand_l. Qed.
Print Assumptions gen_refines_hand_model.

Example c06x_refinement_nonvacuous :
  let txt := fun n : Z => if n =? -1 then mapped_prefix ++ [49] else [n] in
  Forall (op_txt_ok txt 5)
    [ExitData true 6 (DV4 1 1) [1]; ExitData true 5 (DV4 1 1) [1]; TransportsCreated; Resolved 0 true (DV4 2 2);
     Outside true true (DV6 7 7) [1]; Outside true false (DV6 7 7) [1]; Outside false false (DV4 8 8) [1]].
Proof. repeat constructor; cbn; intros; congruence. Qed.

(* non-vacuity: the invariant holds initially; a concrete history in which a look-alike source ("110.0.0.5" for hop
   "10.0.0.5") does not open the socket, packets are queued, drained in order through both transports, refused,
   resolved and tunnelled back, and a mapped source is ignored *)
Example c06x_init_ok : sockx_ok init_sockx.
Proof. exact init_okx. Qed.

Example c06x_nonvacuous :
  let flags := [1; 2] in let prefix := repeat 7 22 in
  let hop := [49; 48; 46; 48; 46; 48; 46; 53] in          (* "10.0.0.5" *)
  let look := 49 :: hop in                                 (* "110.0.0.5" *)
  let utp := 1 :: 0 :: repeat 0 18 in
  let utp' := 17 :: 1 :: repeat 0 18 in
  let ipv8 := 0 :: 2 :: repeat 9 21 in
  observex (runx flags prefix hop init_sockx
           [XExitData true look (DV4 1 1) utp; XTransportsCreated;
            XExitData true hop (DV4 1 1) utp; XExitData true hop (DV6 2 2) utp'; XExitData true hop (DV4 1 1) ipv8;
            XExitData true hop (DDomain 3 3) utp;
            XTransportsCreated; XExitData true look (DV6 2 2) utp; XResolved 0 true (DV4 8 8);
            XOutside false [] (DV4 3 3) utp; XOutside false [] (DV4 3 3) ipv8;
            XOutside true (mapped_prefix ++ [49]) (DV6 4 4) utp; XOutside true [50; 58; 58; 49] (DV6 5 5) utp'])
  = ([Sendto utp (DV4 1 1); Sendto utp' (DV6 2 2); Sendto utp (DV6 2 2); Sendto utp (DV4 8 8);
      SendData (DV4 3 3) utp; SendData (DV6 5 5) utp'],
     (true, true, 0, 0, 80, 63), [4; 6; 6; 4; 0; 0], false).
Proof. vm_compute. reflexivity. Qed.
