(* C16x - the token tree's methods TRANSLATED from the Python source (gen/G16_tokentree.v, regenerated on every
   run by tools/tr/tr_tokentree.py) compute what the hand model M16_tokentree computes; hence the theorems of
   props/C16.v hold of the translated code.  Property theorems only.
   hash (SHA3-256), sigverify (signature check), sl (signature length) and pk (the tree's key) are universally
   quantified; the hash width 32 comes from the struct format in Token.unserialize. *)
From Coq Require Import ZArith List Bool Permutation.
From IPV8V Require Import lib.PyErr lib.Bytes model.M16_tokentree model.M16_tokentree_gen gen.G16_tokentree
  spec.S16_closure proofs.P16_gather proofs.P16_props proofs.P16_tokentree_gen.
Import ListNotations.
Open Scope Z_scope.

(* gen_refines_hand_model: operation by operation.
   - Token layer: get_hash / verify / __eq__ / receive_content / unserialize are the model's thash / tverify /
     tok_eqb / receive_content / token_unserialize (at the offset);
   - gather_token entered with the fuel the translation passes (two units per waiting token) is gather_top,
     on EVERY tree and token, including the raised KeyError cases; sequences of arrivals likewise;
   - get_missing, the full dump, the dump up to a token, verify and get_root_path (for maxdepth >= 0 with
     maxdepth+1 units of fuel; for any fuel whenever they return) are the model's;
   - unserialize_public returns the model's (tree, answer), or raises what the model raises. *)
Theorem gen_refines_hand_model :
  forall (hash : bytes -> bytes) (sigverify : bytes -> bytes -> bytes -> bool) (sl : nat) (pk : bytes),
  (forall t, gt_get_hash hash sigverify sl pk t = thash hash t) /\
  (forall t, gt_verify hash sigverify sl pk t pk = tverify sigverify pk t) /\
  (forall a b, gt___eq__ hash sigverify sl pk a b = tok_eqb a b) /\
  (forall t c, gt_receive_content hash sigverify sl pk t c = receive_content hash t c) /\
  (forall s i, 0 <= i -> gt_unserialize hash sigverify sl pk s pk i
                         = token_unserialize 32 sl (skipn (Z.to_nat i) s)) /\
  (forall tr t, g_gather_token hash sigverify sl pk (call_fuel 2 tr) tr t = gather_top hash sigverify pk tr t) /\
  (forall arr tr, g_gather_all hash sigverify sl pk tr arr = gather_all hash sigverify pk tr arr) /\
  (forall tr, g_get_missing hash sigverify sl pk tr = Ok (get_missing tr)) /\
  (forall tr t md,
     (0 <= md -> g_verify hash sigverify sl pk (S (Z.to_nat md)) tr t md = Ok (tree_verify hash sigverify pk tr t md)) /\
     (forall fuel b, g_verify hash sigverify sl pk fuel tr t md = Ok b -> b = tree_verify hash sigverify pk tr t md)) /\
  (forall tr t md,
     (0 <= md -> g_get_root_path hash sigverify sl pk (S (Z.to_nat md)) tr t md
                 = Ok (get_root_path hash sigverify pk tr t md)) /\
     (forall fuel r, g_get_root_path hash sigverify sl pk fuel tr t md = Ok r
                     -> r = get_root_path hash sigverify pk tr t md)) /\
  (forall fuel tr, g_serialize_public hash sigverify sl pk fuel tr None = Ok (serialize_public tr)) /\
  (forall tr t b, serialize_up_to hash tr t = Ok b ->
                  g_serialize_public hash sigverify sl pk (S (length (elements tr))) tr (Some t) = Ok b) /\
  (forall tr s, urel (g_unserialize_public hash sigverify sl pk tr s)
                     (unserialize_public hash sigverify 32 sl pk tr s)).
Proof. exact gen_refines_hand_model_l. Qed.
Print Assumptions gen_refines_hand_model.

(* the translated gather_token never fails and only ever stores the owner's signed, connected chain *)
Theorem gen_elements_sound : forall hash sigverify sl pk c arr, exists tr,
  g_gather_all hash sigverify sl pk (empty_tree c) arr = Ok tr /\
  Forall (fun e => tverify sigverify pk e = true /\ exists p, In p arr /\ same_fields p e) (elements tr) /\
  chain_ok hash pk (elements tr) /\ NoDup (keys hash (elements tr)).
Proof. exact gen_elements_sound_l. Qed.
Print Assumptions gen_elements_sound.

(* ... exactly the closure of what was offered, in any order (offers in wire form, waiting area not exceeded) *)
Theorem gen_elements_complete_any_order : forall hash sigverify sl pk c arr,
  Forall (prev_wire 32) arr -> (distinct_offers arr <= c)%nat ->
  exists tr, g_gather_all hash sigverify sl pk (empty_tree c) arr = Ok tr /\
             forall h, In h (keys hash (elements tr)) <-> closure_keys hash sigverify pk arr h.
Proof. exact gen_elements_complete_l. Qed.
Print Assumptions gen_elements_complete_any_order.

Theorem gen_order_independent : forall hash sigverify sl pk c arr1 arr2,
  (forall t, In t arr1 <-> In t arr2) -> Forall (prev_wire 32) arr1 -> (distinct_offers arr1 <= c)%nat ->
  exists tr1 tr2,
    g_gather_all hash sigverify sl pk (empty_tree c) arr1 = Ok tr1 /\
    g_gather_all hash sigverify sl pk (empty_tree c) arr2 = Ok tr2 /\
    forall h, In h (keys hash (elements tr1)) <-> In h (keys hash (elements tr2)).
Proof. exact gen_order_independent_l. Qed.
Print Assumptions gen_order_independent.

(* the translated verify only answers True for a validly signed token with a stored, validly signed path to
   the genesis pointer - whatever the fuel and maxdepth *)
Theorem gen_verify_only_rooted : forall hash sigverify sl pk fuel tr t md,
  g_verify hash sigverify sl pk fuel tr t md = Ok true -> rooted hash sigverify pk (elements tr) t.
Proof. exact gen_verify_sound_l. Qed.
Print Assumptions gen_verify_only_rooted.

(* the translated dump of a reachable tree reloads, through the translated unserialize_public, to the same
   elements in the same order, with answer True *)
Theorem gen_public_roundtrip : forall hash sigverify sl pk c arr tr c2 fuel,
  Forall (wire_form 32 sl) arr -> g_gather_all hash sigverify sl pk (empty_tree c) arr = Ok tr ->
  exists dump, g_serialize_public hash sigverify sl pk fuel tr None = Ok dump /\
    g_unserialize_public hash sigverify sl pk (empty_tree c2) dump
    = Ok (mkTree (map strip (elements tr)) [] c2, true).
Proof. exact gen_public_roundtrip_l. Qed.
Print Assumptions gen_public_roundtrip.

(* non-vacuity: the translated code runs on the toy instance (identity hash, signature = key ++ message):
   a fork before its parent, a forged token, verify, and an unserialize of a ragged buffer *)
Example c16x_runs :
  let k := [7] in
  let p := toy_token k (genesis toy_hash k) [1] in
  let a := toy_token k (thash toy_hash p) [2] in
  let b := toy_token k (thash toy_hash p) [3] in
  let x := mkToken (thash toy_hash p) [4] [8;8] None in
  g_gather_all toy_hash toy_verify 3 k (empty_tree 5) [a; x; b; p] = Ok (mkTree [p; a; b] [] 5) /\
  g_verify toy_hash toy_verify 3 k 1001 (mkTree [p; a; b] [] 5) b 1000 = Ok true /\
  g_verify toy_hash toy_verify 3 k 1001 (mkTree [p; a; b] [] 5) x 1000 = Ok false /\
  g_get_root_path toy_hash toy_verify 3 k 1001 (mkTree [p; a; b] [] 5) b 1000 = Ok [b; p] /\
  g_get_missing toy_hash toy_verify 3 k (mkTree [p] [a; b] 5) = Ok [thash toy_hash p] /\
  g_unserialize_public toy_hash toy_verify 3 k (empty_tree 5) (repeat 0 70) = Raise StructError.
Proof. vm_compute. repeat split; reflexivity. Qed.
