(* C07 - anonymized overlays never send from the node's own address.  Property theorems only.
   s0 is an arbitrary state of the node (any settings, any circuits, any queue); ops an arbitrary
   interleaving of sends, anonymity switches, overlay launches, attach/detach of the tunnel
   community and circuit life-cycle events. *)
From Coq Require Import ZArith List Bool.
From IPV8V Require Import lib.PyErr lib.Bytes gen.G07_consts model.M07_tunnel_ep spec.S07_anon_spec
  proofs.P07_tunnel_ep.
Import ListNotations.
Open Scope Z_scope.

(* Whatever the history, the wrapped (raw) endpoint's send is only ever called with the packet of
   the send operation being processed, and only if that packet's prefix is not switched on at that
   moment.  Hence a packet sent while its prefix is switched on is not handed to the raw socket,
   neither then nor at any later step (queued packets never surface as Raw). *)
Theorem anon_never_raw : forall s0 ops,
  Forall (fun e => forall a p, In (Raw a p) (ev_outs e) ->
                   anon_on (ev_pre e) p = false /\ exists nh, ev_op e = Send a p nh) (trace s0 ops).
Proof. exact anon_never_raw_l. Qed.
Print Assumptions anon_never_raw.

(* An overlay that asked for anonymity when it was launched (Community.__init__ with
   settings.anonymize) never has a packet with its prefix handed to the raw socket, in any later
   history that does not explicitly switch that prefix off again. *)
Theorem asked_never_raw : forall s pfx ops,
  Forall (keeps_on pfx) ops ->
  Forall (fun e => forall a p, In (Raw a p) (ev_outs e) -> pfx_of p <> pfx)
         (trace (fst (step s (Launch pfx true))) ops).
Proof. exact launched_never_raw_l. Qed.
Print Assumptions asked_never_raw.

(* The same in terms of packets: the switch is keyed by the first 22 bytes, which is the overlay's
   prefix (0x00, version, 20-byte community id); so no datagram that starts with the prefix of an
   overlay that asked for anonymity is ever handed to the raw socket. *)
Theorem asked_overlay_packets_never_raw : forall s pfx ops,
  length pfx = 22%nat -> Forall (keeps_on pfx) ops ->
  Forall (fun e => forall a body, ~ In (Raw a (pfx ++ body)) (ev_outs e))
         (trace (fst (step s (Launch pfx true))) ops).
Proof. exact asked_packets_never_raw_l. Qed.
Print Assumptions asked_overlay_packets_never_raw.

(* Every send of a packet whose prefix is switched on has exactly one of the three permitted fates:
   carried now (followed by the whole waiting queue, in order) over a usable circuit; appended to
   the queue with no raw and no tunnel send; or dropped because no tunnel community is attached. *)
Theorem anon_send_fate : forall s0 ops,
  Forall (fun e => forall a p nh, ev_op e = Send a p nh -> anon_on (ev_pre e) p = true ->
                   fate (ev_pre e) a p (ev_outs e) (ev_post e)) (trace s0 ops).
Proof. exact anon_fate_l. Qed.
Print Assumptions anon_send_fate.

(* Every tunnel send names a circuit of the attached community that is not closing, is a DATA
   circuit, was built for the configured number of hops and has them all, ends in a hop flagged
   EXIT_IPV8, is entered at its first hop, and carries origin 0.0.0.0:0. *)
Theorem tunnel_send_wellformed : forall s0 ops,
  Forall (fun e => Forall (tunnel_ok (ev_pre e)) (ev_outs e)) (trace s0 ops).
Proof. exact tunnel_wellformed_l. Qed.
Print Assumptions tunnel_send_wellformed.

(* The waiting queue never exceeds its bound, at any point of any history. *)
Theorem queue_bounded : forall ops,
  Z.of_nat (length (queue (final init ops))) <= SEND_QUEUE_MAXLEN
  /\ Forall (fun e => Z.of_nat (length (queue (ev_pre e))) <= SEND_QUEUE_MAXLEN) (trace init ops).
Proof. exact queue_bounded_both_l. Qed.
Print Assumptions queue_bounded.

(* A waiting packet leaves the queue only as tunnel data (origin 0.0.0.0:0) or by overflow. *)
Theorem queue_exit_only_tunnel_or_overflow : forall s o e, In e (queue s) ->
  In e (queue (fst (step s o)))
  \/ (exists t cid, In (Tunnel t cid (fst e) NULL_ADDR (snd e)) (snd (step s o)))
  \/ In (Evicted (fst e) (snd e)) (snd (step s o)).
Proof. exact step_queue_exit. Qed.
Print Assumptions queue_exit_only_tunnel_or_overflow.

(* Queued packets keep the classification they got when they were submitted.
   (1) everything in the queue was put there by a send whose prefix was switched on at that moment;
   (2) the step that flushes the queue hands nothing to the raw socket, whatever the switches of the
       waiting packets' prefixes say by then (no re-classification at flush time);
   (3) bytes equal to a waiting packet reach the raw socket only through a new, separate plain
       submission of the same bytes, which leaves the state - and the waiting packet - untouched. *)
Theorem queue_entries_were_anonymized : forall s o e, In e (queue (fst (step s o))) ->
  In e (queue s) \/ (exists nh, o = Send (fst e) (snd e) nh /\ anon_on s (snd e) = true).
Proof. exact step_queue_origin. Qed.
Print Assumptions queue_entries_were_anonymized.

Theorem flush_never_raw : forall s a p nh,
  anon_on s p = true -> forall b q, ~ In (Raw b q) (snd (step s (Send a p nh))).
Proof. exact flush_never_raw_l. Qed.
Print Assumptions flush_never_raw.

Theorem queued_never_raw : forall s o e,
  In e (queue s) -> In (Raw (fst e) (snd e)) (snd (step s o)) ->
  (exists nh, o = Send (fst e) (snd e) nh) /\ anon_on s (snd e) = false /\ fst (step s o) = s.
Proof. exact queued_never_raw_l. Qed.
Print Assumptions queued_never_raw.

(* Overflow evicts only the oldest entry and only when the queue is full. *)
Theorem eviction_only_when_full : forall s o b q, In (Evicted b q) (snd (step s o)) ->
  SEND_QUEUE_MAXLEN <= Z.of_nat (length (queue s)) /\ exists tl, queue s = (b, q) :: tl.
Proof. exact step_evicted_full. Qed.
Print Assumptions eviction_only_when_full.

(* An overlay that did not ask for anonymity is unaffected: exactly one raw send, state unchanged,
   in every state (attached or not, circuits or not, queue empty or full). *)
Theorem plain_unaffected : forall s a p nh,
  anon_on s p = false -> step s (Send a p nh) = (s, [Raw a p]).
Proof. exact send_plain. Qed.
Print Assumptions plain_unaffected.

(* Nothing but a send operation makes the node emit anything or touch the queue. *)
Theorem only_send_emits : forall s o, is_send o = false ->
  snd (step s o) = [] /\ queue (fst (step s o)) = queue s.
Proof. exact step_nonsend_silent. Qed.
Print Assumptions only_send_emits.

(* notify_listeners(packet, from_tunnel) delivers to a listener iff its anonymize flag equals
   from_tunnel. *)
Theorem delivery_filter : forall ls from_tunnel id,
  In id (notify ls from_tunnel) <-> exists an, In (id, an) ls /\ anonymize_of (id, an) = from_tunnel.
Proof. exact delivery_filter_l. Qed.
Print Assumptions delivery_filter.

(* Circuit identifiers stay unique, so "the circuit cid" of a tunnel send is unambiguous. *)
Theorem circuit_ids_unique : forall ops, NoDup (map c_id (circuits (final init ops))).
Proof. exact ids_unique_l. Qed.
Print Assumptions circuit_ids_unique.

(* The constants translated from the source are the documented ones (queue bound 100, 22-byte
   prefix, EXIT_IPV8 = 4, one hop by default); a changed literal fails here. *)
Theorem documented_constants :
  SEND_QUEUE_MAXLEN = 100 /\ PREFIX_LEN = 22 /\ PEER_FLAG_EXIT_IPV8 = 4 /\ ATTACH_DEFAULT_HOPS = 1.
Proof. exact documented_constants_l. Qed.
Print Assumptions documented_constants.

(* ---- non-vacuity ---- *)
(* pA, pP: two 22-byte overlay prefixes; exitH: a hop flagged EXIT_IPV8; relayH: a relay (P07) *)

(* queued while the circuit is extending, flushed in order once it is ready, plain traffic raw *)
Example c07_nonvacuous_flush :
  map ev_outs (trace init [Launch pA true; Attach 1; Send 7 (pA ++ [1]) (Some exitH);
                           Send 8 (pA ++ [2]) None; Send 9 (pP ++ [3]) None;
                           AddHop 0 exitH; Send 7 (pA ++ [4]) None])
  = [[]; []; [CreateCircuit 1 [4]; Queued 7 (pA ++ [1])];
     [CreateCircuit 1 [4]; Queued 8 (pA ++ [2])]; [Raw 9 (pP ++ [3])]; [];
     [Tunnel 50 0 7 0 (pA ++ [4]); Tunnel 50 0 7 0 (pA ++ [1]); Tunnel 50 0 8 0 (pA ++ [2])]].
Proof. vm_compute. reflexivity. Qed.

(* closing circuit with a non-empty queue, detach, wrong exit flags, wrong length: never raw *)
Example c07_nonvacuous_hold :
  map ev_outs (trace init [SetAnon pA true; Attach 2; NewCirc 2 0 relayH; AddHop 0 relayH;
                           AddHop 0 (mkHop 51 [2]); Send 7 pA None; AddHop 1 relayH; AddHop 1 exitH;
                           Close 1; Send 7 pA None; Detach; Send 7 pA None])
  = [[]; []; []; []; []; [CreateCircuit 2 [4]; Queued 7 pA]; []; []; []; [CreateCircuit 2 [4]; Queued 7 pA];
     []; [Dropped 7 pA]].
Proof. vm_compute. reflexivity. Qed.

(* the hypotheses of asked_never_raw / asked_overlay_packets_never_raw are met: pA is a 22-byte
   prefix and the history toggles another prefix only *)
Example c07_nonvacuous_keeps :
  length pA = 22%nat /\ Forall (keeps_on pA) [Toggle pP; SetAnon pA true; Detach; Send 7 pA None].
Proof. split; [reflexivity|repeat constructor; cbn; discriminate]. Qed.

(* overflow: the 101st waiting packet evicts the first *)
Example c07_nonvacuous_overflow :
  let ops := [SetAnon pA true; Attach 1] ++ map (fun i => Send (Z.of_nat i) pA None) (seq 0 101) in
  last (map ev_outs (trace init ops)) [] = [CreateCircuit 1 [4]; Evicted 0 pA; Queued 100 pA]
  /\ length (queue (final init ops)) = 100%nat.
Proof. vm_compute. split; reflexivity. Qed.

(* anonymity of A switched off while its packet waits; B's send flushes it - as tunnel data, not raw *)
Example c07_nonvacuous_requeue :
  let pB := 0 :: 2 :: repeat 66 20 in
  map ev_outs (trace init [SetAnon pA true; SetAnon pB true; Attach 1; Send 7 (pA ++ [1]) (Some exitH);
                           Toggle pA; AddHop 0 exitH; Send 9 (pB ++ [2]) None; Send 7 (pA ++ [3]) None])
  = [[]; []; []; [CreateCircuit 1 [4]; Queued 7 (pA ++ [1])]; []; [];
     [Tunnel 50 0 9 0 (pB ++ [2]); Tunnel 50 0 7 0 (pA ++ [1])]; [Raw 7 (pA ++ [3])]].
Proof. vm_compute. reflexivity. Qed.

Example c07_nonvacuous_delivery :
  notify [(1, Some true); (2, Some false); (3, None)] true = [1]
  /\ notify [(1, Some true); (2, Some false); (3, None)] false = [2; 3].
Proof. vm_compute. split; reflexivity. Qed.
