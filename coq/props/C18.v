(* C18 - attribute proofs accept the true value and reject others.  Property theorems only. *)
From Coq Require Import ZArith List Bool QArith Permutation Znumtheory.
From IPV8V Require Import lib.PyErr lib.Bytes model.M18_base gen.G18_fp2 model.M18_fexpr model.M18_hom
  model.M18_bitpairs model.M18_range model.M18_ser spec.S18_field spec.S18_bgn
  proofs.P18_fp2 proofs.P18_hom proofs.P18_bitpairs proofs.P18_range proofs.P18_ser proofs.P18_props.
Import ListNotations.
Open Scope Z_scope.

(* ================================================================== 1. field arithmetic (value.py, translated) *)

(* For all operands and every modulus p <> 0 the translated __add__ returns a value whose numerator and
   denominator are, coefficient by coefficient modulo p, those of the textbook sum of fractions
   num1*den2 + num2*den1 / den1*den2 in Z_p[x]/(x^2+x+1).  Likewise - * // and inverse. *)
Theorem fp2_add_correct : forall p x y, p <> 0 -> fmod x = p -> fmod y = p ->
  exists r, fp2_add x y = Ok r /\ represents p r (fr_add (denote x) (denote y)).
Proof. exact fp2_add_correct_l. Qed.
Print Assumptions fp2_add_correct.

Theorem fp2_sub_correct : forall p x y, p <> 0 -> fmod x = p -> fmod y = p ->
  exists r, fp2_sub x y = Ok r /\ represents p r (fr_sub (denote x) (denote y)).
Proof. exact fp2_sub_correct_l. Qed.
Print Assumptions fp2_sub_correct.

Theorem fp2_mul_correct : forall p x y, p <> 0 -> fmod x = p -> fmod y = p ->
  exists r, fp2_mul x y = Ok r /\ represents p r (fr_mul (denote x) (denote y)).
Proof. exact fp2_mul_correct_l. Qed.
Print Assumptions fp2_mul_correct.

Theorem fp2_div_correct : forall p x y, p <> 0 -> fmod x = p -> fmod y = p ->
  exists r, fp2_floordiv x y = Ok r /\ represents p r (fr_div (denote x) (denote y)).
Proof. exact fp2_div_correct_l. Qed.
Print Assumptions fp2_div_correct.

Theorem fp2_inverse_correct : forall p x, p <> 0 -> fmod x = p ->
  exists r, fp2_inverse x = Ok r /\ represents p r (fr_inv (denote x)).
Proof. exact fp2_inverse_correct_l. Qed.
Print Assumptions fp2_inverse_correct.

(* the operators raise exactly where Python does: operands of different moduli, modulus 0 *)
Theorem fp2_ops_raise_exactly : forall x y,
  (fmod x <> fmod y ->
     fp2_add x y = Raise AssertionError /\ fp2_sub x y = Raise AssertionError /\
     fp2_mul x y = Raise AssertionError /\ fp2_floordiv x y = Raise AssertionError) /\
  (fmod x = 0 -> fmod y = 0 ->
     fp2_add x y = Raise ZeroDivisionError /\ fp2_sub x y = Raise ZeroDivisionError /\
     fp2_mul x y = Raise ZeroDivisionError /\ fp2_floordiv x y = Raise ZeroDivisionError).
Proof. exact fp2_ops_raise. Qed.
Print Assumptions fp2_ops_raise_exactly.

(* _modinv: the fuelled Euclid loop never runs out of fuel and returns the inverse *)
Theorem modinv_correct : forall e m, 1 < m -> 0 <= e -> Z.gcd e m = 1 ->
  exists x, modinv e m = Ok x /\ 0 < x < m /\ (x * e) mod m = 1.
Proof. exact modinv_correct_l. Qed.
Print Assumptions modinv_correct.

(* normalize scales numerator and denominator by one unit: the fraction is unchanged, aC becomes 1 *)
Theorem normalize_equiv : forall p v, prime p -> fmod v = p ->
  exists r k, fp2_normalize v = Ok r /\ represents p r (rscale k (num v), rscale k (den v)) /\
              fr_eq p (denote r) (denote v) /\ (faC v mod p <> 0 -> faC r = 1).
Proof. exact normalize_equiv_l. Qed.
Print Assumptions normalize_equiv.

(* the code's == (// then normalize, compare coefficients) decides equality of fractions *)
Theorem fp2_eq_decides_fraction_equality : forall p x y, prime p -> fmod x = p -> fmod y = p ->
  fp2_eq x y = Ok (fr_eqb p (denote x) (denote y)).
Proof. exact fp2_eq_correct_l. Qed.
Print Assumptions fp2_eq_decides_fraction_equality.

(* any expression built from + - * // inverse and integer constants evaluates without raising to a
   representative of its textbook value, and any comparison of two such expressions is decided as the
   textbook fractions say - for all operands and all prime moduli *)
Theorem fp2_expressions_represent : forall p env e, p <> 0 -> Forall (fun v => fmod v = p) env ->
  fvars_ok (length env) e = true ->
  exists r, feval p env e = Ok r /\ represents p r (fsem (map denote env) e).
Proof. exact feval_represents_l. Qed.
Print Assumptions fp2_expressions_represent.

Theorem fp2_comparisons_sound : forall p env e1 e2, prime p -> Forall (fun v => fmod v = p) env ->
  fvars_ok (length env) e1 = true -> fvars_ok (length env) e2 = true ->
  feq p env e1 e2 = Ok (fr_eqb p (fsem (map denote env) e1) (fsem (map denote env) e2)).
Proof. exact feq_sound_l. Qed.
Print Assumptions fp2_comparisons_sound.

(* the laws of the quadratic extension field, up to the code's equality (law_list: + and * commutative
   and associative, distributivity, neutral elements, additive and multiplicative inverse, - and //) *)
Theorem fp2_laws : forall p x y z, prime p -> fmod x = p -> fmod y = p -> fmod z = p ->
  Forall (fun l => feq p [x; y; z] (fst l) (snd l) = Ok true) law_list.
Proof. exact fp2_laws_l. Qed.
Print Assumptions fp2_laws.

(* intpow: square-and-multiply never runs out of fuel; for k >= 0 numerator and denominator are exactly
   the k-th powers, for every k (negative included) the result is x^k as a fraction *)
Theorem intpow_nonneg_exact : forall p x k, p <> 0 -> fmod x = p -> 0 <= k ->
  exists r, fp2_intpow x k = Ok r /\ represents p r (fr_pow_nat (denote x) (Z.to_nat k)).
Proof. exact fp2_intpow_nonneg_l. Qed.
Print Assumptions intpow_nonneg_exact.

Theorem intpow_is_power : forall p x k, prime p -> fmod x = p ->
  exists r, fp2_intpow x k = Ok r /\ fmod r = p /\ fr_eq p (denote r) (fr_pow (denote x) k).
Proof. exact fp2_intpow_is_power_l. Qed.
Print Assumptions intpow_is_power.

(* ================================================================== 2. the homomorphic encryption (boneh.py) *)

Theorem decode_encode : forall G gmul gone ginv geqb g h t1 t2 P,
  bgn_keypair G gmul gone ginv geqb g h t1 t2 P ->
  forall ms m r, Forall (fun x => 0 <= x < t2) ms -> In m ms ->
  decode G gmul gone ginv geqb g t1 ms (encode G gmul gone ginv g h m r) = Some m.
Proof. exact decode_encode_w. Qed.
Print Assumptions decode_encode.

(* the product of two encodings decodes to the sum of the messages *)
Theorem decode_product : forall G gmul gone ginv geqb g h t1 t2 P,
  bgn_keypair G gmul gone ginv geqb g h t1 t2 P ->
  forall ms a r b s, Forall (fun x => 0 <= x < t2) ms -> In (a + b) ms ->
  decode G gmul gone ginv geqb g t1 ms
         (gmul (encode G gmul gone ginv g h a r) (encode G gmul gone ginv g h b s)) = Some (a + b).
Proof. exact decode_product_w. Qed.
Print Assumptions decode_product.

(* on any encoding decode returns the first candidate congruent to the message modulo t2 *)
Theorem decode_spec : forall G gmul gone ginv geqb g h t1 t2 P,
  bgn_keypair G gmul gone ginv geqb g h t1 t2 P ->
  forall ms m r, decode G gmul gone ginv geqb g t1 ms (encode G gmul gone ginv g h m r) =
                 find (fun m' => (m - m') mod t2 =? 0) ms.
Proof. exact decode_spec_w. Qed.
Print Assumptions decode_spec.

(* a challenge response is the message class modulo t2; anything outside {0,1,2} is answered 3 *)
Theorem challenge_response_classes : forall G gmul gone ginv geqb g h t1 t2 P,
  bgn_keypair G gmul gone ginv geqb g h t1 t2 P ->
  forall m r, challenge_response G gmul gone ginv geqb g t1 (encode G gmul gone ginv g h m r) =
    if m mod t2 =? 0 then 0 else if m mod t2 =? 1 then 1 else if m mod t2 =? 2 then 2 else 3.
Proof. exact challenge_response_w. Qed.
Print Assumptions challenge_response_classes.

(* ================================================================== 3. bit-pair attestation (bonehexact) *)

(* one honest round on one bit pair answers the number of set bits, whatever the masks and exponents *)
Theorem bitpair_response_is_class : forall G gmul gone ginv geqb g h t1 t2 P,
  bgn_keypair G gmul gone ginv geqb g h t1 t2 P ->
  forall bit_a bit_b r, is_bit bit_a -> is_bit bit_b ->
  pair_response G gmul gone ginv geqb g h t1 P bit_a bit_b r = bit_a + bit_b.
Proof. exact pair_response_w. Qed.
Print Assumptions bitpair_response_is_class.

(* for every value, every bit space, every randomness and every order of the challenges the verifier's
   aggregate after all answers is exactly binary_relativity(value) *)
Theorem profile_exact : forall G gmul gone ginv geqb g h t1 t2 P,
  bgn_keypair G gmul gone ginv geqb g h t1 t2 P ->
  forall v bitspace A rand order, bits v bitspace = Ok A ->
  Permutation order (seq 0 (npairs bitspace)) ->
  honest_run G gmul gone ginv geqb g h t1 P A rand order = binary_relativity v bitspace.
Proof. exact profile_exact_w. Qed.
Print Assumptions profile_exact.

(* every subset of the challenges in every order: the aggregate counts the answers, and never exceeds
   the true profile in any class *)
Theorem profile_partial : forall G gmul gone ginv geqb g h t1 t2 P,
  bgn_keypair G gmul gone ginv geqb g h t1 t2 P ->
  forall v bitspace A rand order rest e, bits v bitspace = Ok A ->
  Permutation (order ++ rest) (seq 0 (npairs bitspace)) ->
  binary_relativity v bitspace = Ok e ->
  exists o, honest_run G gmul gone ginv geqb g h t1 P A rand order = Ok o /\
    (forall k, 0 <= rget o k <= rget e k) /\ rm_total o = Z.of_nat (length order) /\ r3 o = 0 /\ r3 e = 0 /\
    rm_total e = Z.of_nat (npairs bitspace).
Proof. exact profile_partial_w. Qed.
Print Assumptions profile_partial.

(* the property: after the n answers the attested value scores 1 - 2^-n, every value whose profile
   differs scores 0 *)
Theorem honest_round_scores : forall G gmul gone ginv geqb g h t1 t2 P,
  bgn_keypair G gmul gone ginv geqb g h t1 t2 P ->
  forall v bs A rand order, bits v bs = Ok A ->
  Permutation order (seq 0 (npairs bs)) ->
  exists e, honest_run G gmul gone ginv geqb g h t1 P A rand order = Ok e /\
    binary_relativity v bs = Ok e /\
    (certainty e e == 1 - Qpower (1 # 2) (Z.of_nat (npairs bs)))%Q /\
    forall v' e', binary_relativity v' bs = Ok e' -> e' <> e -> (certainty e' e == 0)%Q.
Proof. exact honest_round_scores_w. Qed.
Print Assumptions honest_round_scores.

Theorem true_value_score : forall e, (certainty e e == 1 - Qpower (1 # 2) (rm_total e))%Q.
Proof. exact true_value_score_l. Qed.
Print Assumptions true_value_score.

Theorem other_profile_zero : forall e o, r3 e = 0 -> r3 o = 0 -> rm_total e = rm_total o -> e <> o ->
  (certainty e o == 0)%Q.
Proof. exact other_profile_zero_l. Qed.
Print Assumptions other_profile_zero.

(* partial rounds, characterised: a candidate is ruled out as soon as one observed count exceeds its
   expected count; while none does (always the case for the true value) the score is positive *)
Theorem exceeded_class_scores_zero : forall e o,
  (exists k, 0 <= k <= 3 /\ rget e k < rget o k) -> relativity_match e o = 0%Q.
Proof. exact match_exceeded. Qed.
Print Assumptions exceeded_class_scores_zero.

Theorem partial_round_positive : forall e o, (forall k, 0 <= rget o k <= rget e k) -> 0 < rm_total o ->
  (0 < certainty e o)%Q.
Proof. exact partial_round_positive_l. Qed.
Print Assumptions partial_round_positive.

(* ================================================================== 4. range proof (pengbaorange) *)

Theorem el_check_complete : forall G gmul gone ginv Hsh, abelian_group G gmul gone ginv ->
  forall x r1 r2 g1 h1 g2 h2 rnd,
  el_check G gmul gone ginv Hsh (el_create G gmul gone ginv Hsh x r1 r2 g1 h1 g2 h2 rnd) g1 h1 g2 h2
           (commit G gmul gone ginv g1 h1 x r1) (commit G gmul gone ginv g2 h2 x r2) = true.
Proof. exact el_complete_w. Qed.
Print Assumptions el_check_complete.

Theorem sqr_check_complete : forall G gmul gone ginv Hsh, abelian_group G gmul gone ginv ->
  forall x r1 gg hh rnd,
  sqr_check G gmul gone ginv Hsh (sqr_create G gmul gone ginv Hsh x r1 gg hh rnd) gg hh
            (commit G gmul gone ginv gg hh (x * x) r1) = true.
Proof. exact sqr_complete_w. Qed.
Print Assumptions sqr_check_complete.

(* whenever create_attest_pair returns (which it does only for values inside the range, see below),
   the honest answer to any challenge s, t > 0 passes every test of PengBaoPublicData.check - provided
   the drawn m1 left m2 = mst - m1 - m4^2 non-negative (the code does not enforce this; see report) *)
Theorem range_complete : forall G gmul gone ginv geqb g h Hsh,
  abelian_group G gmul gone ginv -> (forall a, geqb a a = true) ->
  forall v a b rd pub priv s t,
  create_attest_pair G gmul gone ginv g h Hsh v a b rd = Ok (pub, priv) ->
  0 <= p_m2 priv -> 0 < s -> 0 < t ->
  range_check G gmul gone ginv geqb g h Hsh pub a b s t (generate_response priv s t) = true.
Proof. exact range_complete_w. Qed.
Print Assumptions range_complete.

(* the range is inclusive at both ends: for a <= v <= b the builder never refuses the value (it raises
   ValueError exactly when the value is outside, next theorem); range_complete then applies to what it returns *)
Theorem range_inside_not_refused : forall G gmul gone ginv g h Hsh v a b rd, a <= v <= b ->
  create_attest_pair G gmul gone ginv g h Hsh v a b rd <> Raise ValueError.
Proof. exact range_inside_not_refused_l. Qed.
Print Assumptions range_inside_not_refused.

(* partial: for a value outside [a, b] the honest construction never returns a proof (math.sqrt raises,
   or - exactly at a-1 and b+1 - the loop drawing m4 cannot end).  Missing: soundness against a prover
   who does not follow create_attest_pair (a cryptographic reduction, not attempted). *)
Theorem range_outside_unbuildable_partial : forall G gmul gone ginv g h Hsh v a b rd,
  a <= b -> v < a \/ b < v ->
  create_attest_pair G gmul gone ginv g h Hsh v a b rd = Raise ValueError \/
  create_attest_pair G gmul gone ginv g h Hsh v a b rd = Raise OutOfFuel.
Proof. exact range_outside_unbuildable_l. Qed.
Print Assumptions range_outside_unbuildable_partial.

(* REFUTED (open finding, see report): soundness against a prover who knows the order n of g - which the
   key owner does, n = t1*t2 is part of the secret key.  The intended statement "if range_check accepts a
   proof whose commitment c opens to v then a <= v <= b" is false of the faithful model: for every v,
   inside the range or not, there are public data committing to v and an answer (reduced modulo n, hence
   positive) that passes every test. *)
Theorem range_soundness_against_key_owner_refuted : forall G gmul gone ginv geqb g h Hsh,
  abelian_group G gmul gone ginv -> (forall a, geqb a a = true) ->
  forall n v a b s t r, 0 < n -> gpow G gmul gone ginv g n = gone ->
  exists pub resp, k_c G (pub_com G pub) = commit G gmul gone ginv g h v r /\
                   range_check G gmul gone ginv geqb g h Hsh pub a b s t resp = true.
Proof. exact range_soundness_refuted_w. Qed.
Print Assumptions range_soundness_against_key_owner_refuted.

(* ================================================================== 5. serialisation *)

Theorem iunpack_ipack : forall n s rest, ipack n = Ok s -> iunpack (s ++ rest) = Ok (n, rest).
Proof. exact iunpack_ipack_l. Qed.
Print Assumptions iunpack_ipack.

Theorem ipack_total : forall n, 0 <= n -> Z.of_nat (nbytes (Z.of_nat (nbytes n))) <= 255 -> exists s, ipack n = Ok s.
Proof. exact ipack_ok_l. Qed.
Print Assumptions ipack_total.

Theorem unpack_pair_pack_pair : forall a b s rest, pack_pair a b = Ok s -> unpack_pair (s ++ rest) = Ok (a, b, rest).
Proof. exact unpack_pair_pack_pair_l. Qed.
Print Assumptions unpack_pair_pack_pair.

(* keys (5 / 7 numbers), bit pairs (6 numbers), and the stream of bit pairs in an attestation *)
Theorem nums_roundtrip : forall ns s rest, pack_nums ns = Ok s -> unpack_nums (length ns) (s ++ rest) = Ok (ns, rest).
Proof. exact unpack_pack_nums_l. Qed.
Print Assumptions nums_roundtrip.

Theorem keys_roundtrip : forall ns s, pack_nums ns = Ok s -> key_unserialize (length ns) s = Ok (Some ns).
Proof. exact key_roundtrip_l. Qed.
Print Assumptions keys_roundtrip.

Theorem siunpack_sipack : forall ns s rest, sipack ns = Ok s -> siunpack (s ++ rest) (length ns) = Ok (ns, rest).
Proof. exact siunpack_sipack_l. Qed.
Print Assumptions siunpack_sipack.

(* ================================================================== non-vacuity *)

(* the operands on which the pinned __add__ was wrong (right operand with bC <> 0), now correct *)
Example c18_add_general_denominator :
  fp2_add (MkFP2 11 1 2 0 1 0 0) (MkFP2 11 3 0 0 2 5 0) = Ok (MkFP2 11 6 10 0 2 5 0).
Proof. vm_compute. reflexivity. Qed.

Example c18_prime_modulus : prime 11.
Proof. exact prime_11. Qed.

Example c18_law_instance :
  feq 11 [MkFP2 11 1 2 0 1 0 0; MkFP2 11 3 0 0 2 5 0; MkFP2 11 4 7 0 3 1 0]
      (FMul V0 (FAdd V1 V2)) (FAdd (FMul V0 V1) (FMul V0 V2)) = Ok true.
Proof. vm_compute. reflexivity. Qed.

Example c18_intpow_negative :
  bind (fp2_intpow (MkFP2 11 3 4 0 1 0 0) (-5)) (fun a =>
  bind (fp2_intpow (MkFP2 11 3 4 0 1 0 0) 5) (fun b =>
  bind (fp2_mul a b) (fun c => fp2_eq c (MkFP2 11 1 0 0 1 0 0)))) = Ok true.
Proof. vm_compute. reflexivity. Qed.

(* the hypotheses on the group are satisfiable (Z_6, t1 = 2, t2 = 3), and the round runs *)
Example c18_keypair_exists : bgn_keypair z6 z6_mul A0 z6_inv z6_eqb A1 A3 2 3 5.
Proof. exact z6_is_keypair. Qed.

Example c18_round_runs :
  let rand := fun j => MkPR (Z.of_nat j + 3) 4 1 2 3 (Z.of_nat j) in
  honest_run z6 z6_mul A0 z6_inv z6_eqb A1 A3 2 5 [1; 0; 1; 1; 0; 0; 0; 1] rand [2%nat; 0%nat; 3%nat; 1%nat]
    = Ok (MkRM 1 2 1 0)
  /\ binary_relativity 177 8 = Ok (MkRM 1 2 1 0)
  /\ Qeq_bool (certainty (MkRM 1 2 1 0) (MkRM 1 2 1 0)) (15 # 16) = true
  /\ Qeq_bool (certainty (MkRM 2 1 1 0) (MkRM 1 2 1 0)) 0 = true.
Proof. vm_compute. repeat split. Qed.

(* a range proof for 30 in [18, 200] over the executable instance is accepted; checked against
   [31, 200] it is rejected; for 17 and 201 nothing is built *)
Example c18_range_runs :
  let c18_rd := MkRR 1234 77 9 100003 5000 123456789 4242 777 (5, 6, 7) (8, 9, 10, 11) (12, 13, 14, 15) in
  prove_and_check ev ev_mul ev_one ev_inv ev_eqb ev_g ev_h (ev_hash []) 30 18 200 18 200 40000 50000 c18_rd = Ok true
  /\ prove_and_check ev ev_mul ev_one ev_inv ev_eqb ev_g ev_h (ev_hash []) 18 18 200 18 200 40000 50000 c18_rd = Ok true
  /\ prove_and_check ev ev_mul ev_one ev_inv ev_eqb ev_g ev_h (ev_hash []) 200 18 200 18 200 40000 50000 c18_rd = Ok true
  /\ prove_and_check ev ev_mul ev_one ev_inv ev_eqb ev_g ev_h (ev_hash []) 30 18 200 31 200 40000 50000 c18_rd = Ok false
  /\ prove_and_check ev ev_mul ev_one ev_inv ev_eqb ev_g ev_h (ev_hash []) 17 18 200 18 200 40000 50000 c18_rd = Raise OutOfFuel
  /\ prove_and_check ev ev_mul ev_one ev_inv ev_eqb ev_g ev_h (ev_hash []) 201 18 200 18 200 40000 50000 c18_rd = Raise OutOfFuel
  /\ prove_and_check ev ev_mul ev_one ev_inv ev_eqb ev_g ev_h (ev_hash []) 5 18 200 18 200 40000 50000 c18_rd = Raise ValueError.
Proof. vm_compute. repeat split. Qed.

(* the refutation is not vacuous: in Z_6 (g of order 6) a proof "for" 17 is accepted against [18, 200] *)
Example c18_forged_range_proof_accepted :
  let rd := MkRR 2 0 0 1 0 0 0 0 (0, 0, 0) (0, 0, 0, 0) (0, 0, 0, 0) in
  let pp := build_pair z6 z6_mul A0 z6_inv A1 A3 (fun _ _ => 7) 17 18 200 rd 0 1 0 0 in
  let '(x, y, u, w) := generate_response (snd pp) 40000 50000 in
  ((x <? 0) || (y <? 0)) = true /\
  range_check z6 z6_mul A0 z6_inv z6_eqb A1 A3 (fun _ _ => 7) (fst pp) 18 200 40000 50000 (x, y, u, w) = false /\
  range_check z6 z6_mul A0 z6_inv z6_eqb A1 A3 (fun _ _ => 7) (fst pp) 18 200 40000 50000 (x mod 6 + 6, y mod 6 + 6, u, w) = true.
Proof. vm_compute. repeat split. Qed.

Example c18_group_exists : abelian_group ev ev_mul ev_one ev_inv.
Proof. exact ev_is_group. Qed.

Example c18_ipack :
  ipack 300 = Ok [1; 2; 1; 44] /\ iunpack [1; 2; 1; 44; 9; 9] = Ok (300, [9; 9])
  /\ sipack [5; -300; 0] = Ok [2; 1; 1; 0; 1; 2; 1; 44; 1; 1; 5]
  /\ siunpack [2; 1; 1; 0; 1; 2; 1; 44; 1; 1; 5; 7] 3 = Ok ([5; -300; 0], [7]).
Proof. vm_compute. repeat split. Qed.
