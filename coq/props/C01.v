(* C01 - signed handlers run only for authentic, untampered datagrams.  Property theorems only. *)
From Coq Require Import ZArith List Bool.
From IPV8V Require Import lib.PyErr lib.Bytes lib.BE model.M02_wire model.M01_auth gen.G01_handlers
  spec.S01_expected proofs.P01_auth proofs.P01_table.
Import ListNotations.
Open Scope Z_scope.

(* Whatever bytes arrive: if the decorator invokes the handler with key pk, then pk is the key field of
   that same datagram, the datagram splits exactly into a signed part and a signature of the length this key
   prescribes, the signature verifies under pk over the WHOLE signed part (prefix, message id, key and all
   payloads), and the payloads handed over were decoded from inside that signed part. *)
Theorem auth_only_if_valid : forall key_ok verify siglen m data pk args,
  wrapper_signed key_ok verify siglen m data = Ok (Invoke pk args) ->
  exists n o,
    unpack key_ok auth_fmt data 23 = Ok (VBytes pk, o)
    /\ siglen pk = Ok n
    /\ verify pk (slice data None (Some (- Z.of_nat n))) (slice data (Some (- Z.of_nat n)) None) = true
    /\ slice data None (Some (- Z.of_nat n)) ++ slice data (Some (- Z.of_nat n)) None = data
    /\ unpack_all key_ok m (slice data (Some (2 + blen pk)) (Some (- Z.of_nat n))) 23 = Ok args.
Proof. exact auth_only_if_valid_l. Qed.
Print Assumptions auth_only_if_valid.

(* The same for handlers that authenticate by hand through _ez_unpack_auth. *)
Theorem ez_unpack_auth_only_if_valid : forall key_ok verify siglen m data pk args,
  ez_unpack_auth key_ok verify siglen m data = Ok (Invoke pk args) ->
  exists n o,
    unpack key_ok auth_fmt data 23 = Ok (VBytes pk, o)
    /\ siglen pk = Ok n
    /\ verify pk (slice data None (Some (- Z.of_nat n))) (slice data (Some (- Z.of_nat n)) None) = true
    /\ slice data None (Some (- Z.of_nat n)) ++ slice data (Some (- Z.of_nat n)) None = data.
Proof. exact ez_unpack_auth_only_if_valid_l. Qed.
Print Assumptions ez_unpack_auth_only_if_valid.

(* The peer handed to the handler carries exactly that key. *)
Theorem auth_peer_is_key : forall index pk,
  (forall k p, In (k, p) index -> p = k) -> peer_for index pk = pk.
Proof. exact peer_is_key_l. Qed.
Print Assumptions auth_peer_is_key.

(* Sender and receiver agree: what ezr_pack produces is accepted, with exactly its payloads (non-vacuity of
   the acceptance path, for every message definition and every correct signature scheme). *)
Theorem auth_sound_send : forall key_ok verify siglen sign sk pk prefix msg_id m vs data n,
  length prefix = 22%nat ->
  wf_msg m = true -> msg_ok key_ok m vs = true ->
  (Z.of_nat (length pk) <? 65536) = true -> bytes_okb pk = true ->
  siglen pk = Ok n -> (0 < n)%nat ->
  (forall msg, length (sign sk msg) = n /\ verify pk msg (sign sk msg) = true) ->
  ez_pack key_ok sign sk pk prefix msg_id m vs = Ok data ->
  wrapper_signed key_ok verify siglen m data = Ok (Invoke pk vs).
Proof. exact auth_sound_send_l. Qed.
Print Assumptions auth_sound_send.

(* Over the handler tables regenerated from the shipped overlays: a decorated handler takes a Peer iff its
   decorator verifies signatures, *)
Theorem handlers_consistent : forall e, In e handlers -> is_raw e = false -> e_peer e = e_signed e.
Proof. exact handlers_consistent_l. Qed.
Print Assumptions handlers_consistent.

(* and the only handlers behind a non-verifying decorator are the deliberately unauthenticated ids. *)
Theorem handlers_as_expected : forall e, In e handlers -> is_raw e = false -> e_signed e = false ->
  In (e_id e) (lookup (e_overlay e) expected_unsigned).
Proof. exact handlers_expected_l. Qed.
Print Assumptions handlers_as_expected.

(* non-vacuity with a toy signature scheme: signature = [sum of the message bytes mod 256; 7] *)
Example c01_nonvacuous :
  let verify := fun (pk msg sg : bytes) => bytes_eqb sg [fold_left Z.add msg 0 mod 256; 7] in
  let sign := fun (sk msg : bytes) => [fold_left Z.add msg 0 mod 256; 7] in
  let siglen := fun _ : bytes => Ok 2%nat in
  let m := msg_of_list [FStruct [PU 8]; FVarLen 2 1 false] in
  match ez_pack (fun _ => true) sign [1] [9; 9; 9] (repeat 5 22) 42 m [VInt 77; VBytes [1; 2]] with
  | Ok data => wrapper_signed (fun _ => true) verify siglen m data = Ok (Invoke [9; 9; 9] [VInt 77; VBytes [1; 2]])
               /\ wrapper_signed (fun _ => true) verify siglen m (firstn 30 data ++ [1] ++ skipn 31 data) = Raise DecodingError
  | Raise _ => False
  end.
Proof. vm_compute. split; reflexivity. Qed.
