(* C09x - stand-alone entry (`./check C09x`) of the path-level extension of C09: re-exports the theorems of
   props/C09_path.v (statements, hypotheses, non-vacuity examples and the list of what is missing are there). *)
From Coq Require Import ZArith List Bool.
From IPV8V Require Import gen.G09_rules model.M09_reclaim model.M09_network spec.S09_reclaim
  proofs.P09_inv proofs.P09_network_frame proofs.P09_network_node proofs.P09_network_step
  proofs.P09_network_inv proofs.P09_network_main proofs.P09_network_binv proofs.P09_network_bmain props.C09_path.
Import ListNotations.
Open Scope Z_scope.

Theorem B_path_formula : forall st D hops,
  B_path st D hops = 2 * Z.of_nat hops * D + B_entry st.
Proof. exact C09_path.B_path_formula. Qed.
Print Assumptions B_path_formula.

Theorem path_bounded_reclaim_partial : forall st, settings_ok st -> forall D p tq j dead names t0 tr1 tr2 T,
  0 <= D -> nodup_b names = true ->
  nrun_timely st (init_net names t0) tr1 = true ->
  let wq := nrun st (init_net names t0) tr1 in
  quiet_shape_b st D p tq j dead wq = true ->
  nrun_ok st D (p_ids p) dead wq tr2 = true ->
  let wT := nrun st wq tr2 in
  all_on_time st wT T = true ->
  tq + B_path st D (p_len p) < T ->
  net_holds wT (p_ids p) = false.
Proof. exact C09_path.path_bounded_reclaim_partial. Qed.
Print Assumptions path_bounded_reclaim_partial.

Theorem path_bounded_reclaim_from_partial : forall st, settings_ok st -> forall D p tq j dead wq tr T,
  0 <= D ->
  (forall n s, aget n (nodes wq) = Some s -> inv st s) ->
  quiet_shape_b st D p tq j dead wq = true ->
  nrun_ok st D (p_ids p) dead wq tr = true ->
  tq + B_path st D (p_len p) < T ->
  forall n s x, aget n (nodes (nrun st wq tr)) = Some s -> on_time st s T = true ->
    In x (p_ids p) -> holds_id s x = false.
Proof. exact C09_path.path_bounded_reclaim_from_partial. Qed.
Print Assumptions path_bounded_reclaim_from_partial.

Theorem quiet_invariant_preserved : forall st D p tq j dead,
  settings_ok st -> 0 <= D -> path_ok_b p = true -> (j <= p_len p)%nat -> forall w tl,
  wgood st D p tq j dead w -> winv st w -> step_ok st D (p_ids p) dead w tl = true ->
  wgood st D p tq j dead (nstep st w tl).
Proof. exact C09_path.quiet_invariant_preserved. Qed.
Print Assumptions quiet_invariant_preserved.

Theorem quiet_shape_gives_invariant : forall st D p tq j dead,
  0 <= D -> path_ok_b p = true -> (j <= p_len p)%nat -> forall w,
  quiet_shape_b st D p tq j dead w = true -> wgood st D p tq j dead w.
Proof. exact C09_path.quiet_shape_gives_invariant. Qed.
Print Assumptions quiet_shape_gives_invariant.

Theorem event_frame : forall st I s e,
  closedI I s -> ev_ok I s e ->
  frame st I (ev_touch s e) s (fst (step_at st s e)) /\ ev_outs I s e (snd (step_at st s e)).
Proof. exact C09_path.event_frame. Qed.
Print Assumptions event_frame.

(* ---- circuits under construction (see props/C09_path.v) *)
Theorem B_build_formula : forall st D goal hops,
  B_build st D goal hops
  = s_next_hop_timeout st * (s_circuit_timeout st / s_next_hop_timeout st + goal - 1) + s_remove_delay st
    + (2 * Z.of_nat hops * D + (s_max_inactive st + s_sweep st + s_remove_delay st)).
Proof. exact C09_path.B_build_formula. Qed.
Print Assumptions B_build_formula.

Theorem path_bounded_reclaim_building_partial : forall st, settings_ok st ->
  forall D F O x0 h tq names t0 tr1 tr2 T,
  0 <= D -> nodup_b names = true ->
  nrun_timely st (init_net names t0) tr1 = true ->
  let wq := nrun st (init_net names t0) tr1 in
  build_shape_b st F O x0 h tq wq = true ->
  brun_ok st D F O x0 tq wq tr2 = true ->
  let wT := nrun st wq tr2 in
  all_on_time st wT T = true ->
  tq + B_path st D h < T ->
  net_holds wT (map fst F) = false.
Proof. exact C09_path.path_bounded_reclaim_building_partial. Qed.
Print Assumptions path_bounded_reclaim_building_partial.

Theorem path_bounded_reclaim_building_from_partial : forall st, settings_ok st ->
  forall D F O x0 h tq wq tr T,
  0 <= D ->
  (forall n s, aget n (nodes wq) = Some s -> inv st s) ->
  build_shape_b st F O x0 h tq wq = true ->
  brun_ok st D F O x0 tq wq tr = true ->
  tq + B_path st D h < T ->
  forall n s x, aget n (nodes (nrun st wq tr)) = Some s -> on_time st s T = true ->
    In x (map fst F) -> holds_id s x = false.
Proof. exact C09_path.path_bounded_reclaim_building_from_partial. Qed.
Print Assumptions path_bounded_reclaim_building_from_partial.

Theorem building_bound_from_creation : forall st D goal h tc T,
  tc + B_build st D goal h < T <-> (tc + build_bound st goal + s_remove_delay st) + B_path st D h < T.
Proof. exact C09_path.building_bound_from_creation. Qed.
Print Assumptions building_bound_from_creation.

Theorem building_stops_in_time : forall st, settings_ok st -> forall s t x c,
  inv st s -> on_time st s t = true -> aget x (circuits s) = Some c -> c_closing c = false ->
  c_hops c < c_goal c -> t <= creation (c_ro c) + build_bound st (c_goal c) + s_remove_delay st.
Proof. exact C09_path.building_stops_in_time. Qed.
Print Assumptions building_stops_in_time.

Theorem building_invariant_preserved : forall st D F O x0 h tq,
  settings_ok st -> 0 <= D -> fam_ok_b F O x0 h = true -> forall w tl,
  wgoodF st D F O x0 h tq w -> winv st w -> bstep_ok st D F O x0 tq w tl = true ->
  wgoodF st D F O x0 h tq (nstep st w tl).
Proof. exact C09_path.building_invariant_preserved. Qed.
Print Assumptions building_invariant_preserved.
