(* C09x - stand-alone entry (`./check C09x`) of the path-level extension of C09: re-exports the theorems of
   props/C09_path.v (statements, hypotheses, non-vacuity examples and the list of what is missing are there). *)
From Coq Require Import ZArith List Bool.
From IPV8V Require Import gen.G09_rules model.M09_reclaim model.M09_network spec.S09_reclaim
  proofs.P09_inv proofs.P09_network_frame proofs.P09_network_node proofs.P09_network_step
  proofs.P09_network_inv proofs.P09_network_main props.C09_path.
Import ListNotations.
Open Scope Z_scope.

Theorem B_path_formula : forall st D hops,
  B_path st D hops = 2 * Z.of_nat hops * D + B_entry st.
Proof. exact C09_path.B_path_formula. Qed.
Print Assumptions B_path_formula.

Theorem path_bounded_reclaim_partial : forall st, settings_ok st -> forall D p tq j dead names t0 tr1 tr2 T,
  0 <= D -> nodup_b names = true ->
  nrun_timely st (init_net names t0) tr1 = true ->
  let wq := nrun st (init_net names t0) tr1 in
  quiet_shape_b st D p tq j dead wq = true ->
  nrun_ok st D (p_ids p) dead wq tr2 = true ->
  let wT := nrun st wq tr2 in
  all_on_time st wT T = true ->
  tq + B_path st D (p_len p) < T ->
  net_holds wT (p_ids p) = false.
Proof. exact C09_path.path_bounded_reclaim_partial. Qed.
Print Assumptions path_bounded_reclaim_partial.

Theorem path_bounded_reclaim_from_partial : forall st, settings_ok st -> forall D p tq j dead wq tr T,
  0 <= D ->
  (forall n s, aget n (nodes wq) = Some s -> inv st s) ->
  quiet_shape_b st D p tq j dead wq = true ->
  nrun_ok st D (p_ids p) dead wq tr = true ->
  tq + B_path st D (p_len p) < T ->
  forall n s x, aget n (nodes (nrun st wq tr)) = Some s -> on_time st s T = true ->
    In x (p_ids p) -> holds_id s x = false.
Proof. exact C09_path.path_bounded_reclaim_from_partial. Qed.
Print Assumptions path_bounded_reclaim_from_partial.

Theorem quiet_invariant_preserved : forall st D p tq j dead,
  settings_ok st -> 0 <= D -> path_ok_b p = true -> (j <= p_len p)%nat -> forall w tl,
  wgood st D p tq j dead w -> winv st w -> step_ok st D (p_ids p) dead w tl = true ->
  wgood st D p tq j dead (nstep st w tl).
Proof. exact C09_path.quiet_invariant_preserved. Qed.
Print Assumptions quiet_invariant_preserved.

Theorem quiet_shape_gives_invariant : forall st D p tq j dead,
  0 <= D -> path_ok_b p = true -> (j <= p_len p)%nat -> forall w,
  quiet_shape_b st D p tq j dead w = true -> wgood st D p tq j dead w.
Proof. exact C09_path.quiet_shape_gives_invariant. Qed.
Print Assumptions quiet_shape_gives_invariant.

Theorem event_frame : forall st I s e,
  closedI I s -> ev_ok I s e ->
  frame st I (ev_touch s e) s (fst (step_at st s e)) /\ ev_outs I s e (snd (step_at st s e)).
Proof. exact C09_path.event_frame. Qed.
Print Assumptions event_frame.
