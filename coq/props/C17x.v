(* C17x - the identity-consent functions TRANSLATED from the Python source (gen/G17_consent.v, regenerated on every
   run by tools/tr/tr_consent.py; vocabulary in model/M17_consent_gen.v, assembly into events in
   model/M17_run_gen.v) compute what the hand model M17_consent computes; hence the theorems of props/C17.v hold
   of the translated code.  Property theorems only.
   hash, sigverify, mysign, parse, me and the widths are universally quantified.  The SHA-1 padding is the
   translated pad_hash (g_norm); table Attestations has the key found in get_schema (the proof needs the
   repaired key public_key, authority_key, metadata_pointer). *)
From Coq Require Import ZArith List Bool.
From IPV8V Require Import lib.PyErr lib.Bytes model.M16_tokentree model.M17_consent model.M17_consent_gen
  gen.G17_consent model.M17_run_gen spec.S17_consent
  proofs.P16_props proofs.P17_base proofs.P17_step proofs.P17_props proofs.P17_nds proofs.P17_consent_gen.
Import ListNotations.
Open Scope Z_scope.

(* gen_refines_hand_model: on every state whose consent table has unique keys (every reachable state), for
   every event - registration, advertisement, disclosure, missing-response, attest, missing-request, from
   anybody, decodable or truncated - the translated handler leaves the same state, sends the same datagrams and
   raises the same exception as the hand model's step; the invariant is kept. *)
Theorem gen_refines_hand_model : forall hash sigverify mysign parse me rhl rsl s now ev,
  NoDup (map fst (known s)) ->
  g_step hash sigverify mysign parse me rhl rsl s now ev
  = step hash sigverify mysign parse g_norm me rhl rsl true s now ev
  /\ NoDup (map fst (known (st_of (step hash sigverify mysign parse g_norm me rhl rsl true s now ev)))).
Proof. exact (fun h sv ms pa me rhl rsl s now ev W =>
                conj (gen_step_refines_l h sv ms pa me rhl rsl s now ev W) (wf_step h sv ms pa me rhl rsl s now ev W)). Qed.
Print Assumptions gen_refines_hand_model.

(* the translated constructor builds the hand model's initial state, and whole histories agree *)
Theorem gen_init_is_init : forall hash sigverify mysign parse me rhl rsl,
  g_initial hash sigverify mysign parse me rhl rsl = (init me, [], None).
Proof. exact gen_init_l. Qed.
Print Assumptions gen_init_is_init.

Theorem gen_histories_refine : forall hash sigverify mysign parse me rhl rsl evs,
  g_run hash sigverify mysign parse me rhl rsl (init me) evs
  = run hash sigverify mysign parse g_norm me rhl rsl true (init me) evs.
Proof. exact gen_histories_refine_l. Qed.
Print Assumptions gen_histories_refine.

(* the handlers registered by __init__ are the ones the assembly dispatches to; the packet limit is 1296 *)
Theorem gen_handler_table : g_handler_table = expected_handlers /\ g_safe_udp_packet_length = 1296.
Proof. exact gen_handlers_l. Qed.
Print Assumptions gen_handler_table.

(* function by function: the translated should_sign is the model's (every test, in order) ... *)
Theorem gen_should_sign : forall hash sigverify mysign parse me rhl rsl now json_out jlen pk m s o,
  g_should_sign hash sigverify mysign parse me rhl rsl now json_out jlen pk m s o
  = (s, o, should_sign hash parse me s now pk (get_tree pk (pseus s)) m).
Proof. exact g_should_sign_eq. Qed.
Print Assumptions gen_should_sign.

(* ... the translated substantiate is the model's (tokens, then metadata, then attestations; state kept on
   a decoding error) ... *)
Theorem gen_substantiate : forall hash sigverify mysign parse me rhl rsl now json_out jlen pk mds toks atts fail s o,
  g_substantiate hash sigverify mysign parse me rhl rsl now json_out jlen pk
      (mds, fail_is fail 1) (toks, fail_is fail 0) tt (atts, fail_is fail 2) s o
  = (fst (substantiate hash sigverify true s pk mds toks atts fail), o,
     match snd (substantiate hash sigverify true s pk mds toks atts fail) with
     | Ok c => Ok (c, pk) | Raise e => Raise e end).
Proof. exact g_substantiate_eq. Qed.
Print Assumptions gen_substantiate.

(* ... and the translated database functions are the model's tables: INSERT OR IGNORE under the primary keys
   of get_schema, get_authority by signature *)
Theorem gen_database : forall hash sigverify mysign parse me rhl rsl now json_out jlen,
  (forall subj auth a s o,
     g_insert_attestation hash sigverify mysign parse me rhl rsl now json_out jlen subj auth a s o
     = (set_datt s (insert_att true (mkRow subj auth (a_mptr a) (a_sig a)) (datt s)), o, Ok tt)) /\
  (forall pk m s o,
     g_insert_metadata hash sigverify mysign parse me rhl rsl now json_out jlen pk m s o
     = (set_dmd s (insert_md pk m (dmd s)), o, Ok tt)) /\
  (forall pk s o,
     g_get_metadata_for hash sigverify mysign parse me rhl rsl now json_out jlen pk s o
     = (s, o, Ok (credentials_of pk (dmd s)))) /\
  (forall a s o,
     g_get_authority hash sigverify mysign parse me rhl rsl now json_out jlen a s o
     = (s, o, sql_first (map r_auth (filter (fun r => bytes_eqb (r_sig r) (a_sig a)) (datt s))))).
Proof. exact (fun h sv ms pa me rhl rsl now j jl =>
   conj (g_insert_attestation_eq h sv ms pa me rhl rsl now j jl)
  (conj (g_insert_metadata_eq h sv ms pa me rhl rsl now j jl)
  (conj (g_get_metadata_for_eq h sv ms pa me rhl rsl now j jl)
        (g_get_authority_eq h sv ms pa me rhl rsl now j jl)))). Qed.
Print Assumptions gen_database.

(* hence the property theorems hold of the translated code *)
Theorem gen_sign_requires_consent : forall hash sigverify mysign parse me rhl rsl pre now ev p a,
  In (OAttest p a)
     (outs_of (g_step hash sigverify mysign parse me rhl rsl
                      (fst (g_run hash sigverify mysign parse me rhl rsl (init me) pre)) now ev)) ->
  sender_of ev = Some p /\ is_disclosure ev = true /\
  Forall (fun t => tverify sigverify p t = true) (tokens_of ev) /\
  Forall (fun aa => att_verify sigverify (fst aa) (snd aa) = true) (atts_of ev) /\
  exists m tok e,
    let s' := st_of (g_step hash sigverify mysign parse me rhl rsl
                            (fst (g_run hash sigverify mysign parse me rhl rsl (init me) pre)) now ev) in
    a = mkAtt (md_hash hash m) (mysign (md_hash hash m)) /\
    In (p, m) (dmd s') /\ md_verify sigverify p m = true /\
    In tok (elements (get_tree p (pseus s'))) /\ thash hash tok = m_tptr m /\
    (p <> me -> rooted hash sigverify p (elements (get_tree p (pseus s'))) tok) /\
    registration g_norm pre (t_chash tok) = Some e /\
    consent parse e p now m /\
    already me (datt (fst (g_run hash sigverify mysign parse me rhl rsl (init me) pre))) (md_hash hash m) = false.
Proof. exact gen_sign_requires_consent_l. Qed.
Print Assumptions gen_sign_requires_consent.

Theorem gen_no_double_sign : forall hash sigverify mysign parse me rhl rsl,
  (forall m, sigverify me m (mysign m) = true) ->
  (forall k1 k2 m1 m2 sg, sigverify k1 m1 sg = true -> sigverify k2 m2 sg = true -> k1 = k2) ->
  forall evs, NoDup (trace_ptrs (snd (g_run hash sigverify mysign parse me rhl rsl (init me) evs))).
Proof. exact gen_no_double_sign_l. Qed.
Print Assumptions gen_no_double_sign.

Theorem gen_attestations_table_valid : forall hash sigverify mysign parse me rhl rsl evs,
  Forall (fun r => sigverify (r_auth r) (r_mptr r) (r_sig r) = true)
         (datt (fst (g_run hash sigverify mysign parse me rhl rsl (init me) evs))).
Proof. exact gen_attestations_valid_l. Qed.
Print Assumptions gen_attestations_table_valid.

Theorem gen_tokens_only_up_to_permission : forall hash sigverify mysign parse me rhl rsl pre now ev p toks,
  In (OMissingResp p toks)
     (outs_of (g_step hash sigverify mysign parse me rhl rsl
                      (fst (g_run hash sigverify mysign parse me rhl rsl (init me) pre)) now ev)) ->
  exists kn, ev = EReqMissing p kn /\
  forall tok, In tok toks ->
    exists i, nth_error (chain (fst (g_run hash sigverify mysign parse me rhl rsl (init me) pre))) i = Some tok /\
              kn <= Z.of_nat i /\
              (i < opened hash sigverify mysign parse g_norm me rhl rsl true pre p)%nat.
Proof. exact gen_tokens_only_up_to_permission_l. Qed.
Print Assumptions gen_tokens_only_up_to_permission.

(* ------------------------------------------------------------------------------------------------
   Non-vacuity: the translated code runs (toy instance of props/C17.v) *)
Definition tid (x : bytes) : bytes := x.
Definition tme : bytes := [9].
Definition kA : bytes := [7].
Definition kB : bytes := [8].
Definition kD : bytes := [6].
Definition mk_tok (k prev ch : bytes) : token := mkToken prev ch (toy_sig k (prev ++ ch)) None.
Definition mk_md (k : bytes) (t : token) (json : bytes) : metadata :=
  mkMd (thash tid t) json (toy_sig k (thash tid t ++ json)).
Definition tokA := mk_tok kA (genesis tid kA) [50].
Definition mdA := mk_md kA tokA [1; 110; 100; 99].
Definition tokB := mk_tok kB (genesis tid kB) [50].
Definition mdB := mk_md kB tokB [1; 110; 100; 99].
Definition attD := mkAtt (md_hash tid mdA) (toy_sig kD (md_hash tid mdA)).
Definition grun := g_run tid toy_verify3 (toy_sig tme) toy_parse tme 1 1.

Example c17x_translated_code_runs :
  map (fun ox => attest_ptrs (fst ox))
      (snd (grun (init tme)
         [(0, EKnown [50] [110] kA None); (1, EKnown [51] [111] kB None);
          (10, EDisclose kB [mdB] [tokB] [] None);                  (* hash registered for A: refused *)
          (11, EDisclose kA [mdA] [tokA] [(kD, attD)] None);        (* attested, next to D's attestation *)
          (12, EDisclose kA [mdA] [tokA] [(kD, attD)] None);        (* replay: refused *)
          (301, EDisclose kA [mdA] [tokA] [] (Some 0%nat))]))       (* truncated token area: struct.error *)
  = [[]; []; []; [md_hash tid mdA]; []; []]
  /\ map snd (snd (grun (init tme) [(0, EKnown [50] [110] kA None); (301, EDisclose kA [mdA] [tokA] [] (Some 0%nat))]))
     = [None; Some StructError].
Proof. vm_compute. split; reflexivity. Qed.

Example c17x_permissions_run :
  map (fun ox => match fst ox with [OMissingResp _ toks] => Some (length toks) | _ => None end)
      (snd (grun (init tme)
         [(0, EAdvertise None [60] [1; 1; 1; 1] 4); (1, EAdvertise (Some kA) [61] [1; 2; 1; 1] 4);
          (2, EAdvertise None [62] [1; 3; 1; 1] 4); (3, EReqMissing kA 0); (4, EReqMissing kB 0)]))
  = [None; None; None; Some 2%nat; Some 0%nat].
Proof. vm_compute. reflexivity. Qed.
