(* C20 - compiled and dataclass payloads behave like their plain definition.  Property theorems only. *)
From Coq Require Import ZArith List Bool.
From IPV8V Require Import lib.PyErr model.M20_vp proofs.P20_vp proofs.P20_mixed.
Import ListNotations.

(* For every well-formed definition (any formats incl. bits / nested / lists, any hooks) and every
   instance: the generated to_pack_list returns exactly the interpreted pack list (hence, by C02,
   the same bytes). *)
Theorem compiled_pack_equals_interpreted : forall V hook_pack d fs,
  wf_defn d = true ->
  eval_to_pack V hook_pack (gen_pack d) fs = interp_to_pack V hook_pack d fs.
Proof. exact pack_equal_l. Qed.
Print Assumptions compiled_pack_equals_interpreted.

(* ... the generated from_unpack_list builds the same instance from every decoded argument list
   (the None guard of the compiled form is the only difference; decoders never produce None) *)
Theorem compiled_unpack_equals_interpreted : forall V is_none hook_unpack L lit_val d defaults args,
  wf_defn d = true -> length args = length (d_names d) ->
  (forall n a, In (n, a) (combine (d_names d) args) -> mem n (d_fixunpack d) = true -> is_none a = false) ->
  eval_from_unpack V is_none hook_unpack L lit_val (gen_init (d_names d) defaults) (gen_unpack d) args
  = interp_from_unpack V hook_unpack d args.
Proof. exact from_unpack_equal_l. Qed.
Print Assumptions compiled_unpack_equals_interpreted.

(* ... and the generated __init__ assigns the same fields from the same positional arguments, *)
Theorem compiled_init_equals_interpreted_positional : forall V L lit_val d defaults args,
  wf_defn d = true -> length args = length (d_names d) ->
  eval_init V L lit_val (gen_init (d_names d) defaults) args [] = Ok (combine (d_names d) args)
  /\ interp_init V d args [] = Ok (combine (d_names d) args).
Proof. exact init_equal_positional_l. Qed.
Print Assumptions compiled_init_equals_interpreted_positional.

(* ... and from keyword arguments in any order. *)
Theorem compiled_init_equals_interpreted_keywords : forall V L lit_val d kwargs fs,
  wf_defn d = true ->
  interp_init V d [] kwargs = Ok fs -> eval_init V L lit_val (gen_init (d_names d) []) [] kwargs = Ok fs.
Proof. exact init_equal_keywords_l. Qed.
Print Assumptions compiled_init_equals_interpreted_keywords.

(* ... and from any mixture of positional and keyword arguments: the generated signature accepts exactly the calls the
   interpreted constructor accepts and binds them to the same fields (calls rejected by one are rejected by the other;
   only the exception class differs: KeyError vs TypeError). *)
Theorem compiled_init_equals_interpreted_mixed : forall V L lit_val d args kwargs fs,
  wf_defn d = true ->
  (interp_init V d args kwargs = Ok fs <-> eval_init V L lit_val (gen_init (d_names d) []) args kwargs = Ok fs).
Proof. exact init_equal_mixed_iff_l. Qed.
Print Assumptions compiled_init_equals_interpreted_mixed.

(* Omitted trailing arguments take the definition's default value - provided evaluating the default as
   rendered into the generated signature gives back the default (checked on the implementation for every
   literal kind by the correspondence; this is what str() instead of repr() broke). *)
Theorem defaults_render_faithfully : forall V L lit_val d defaults (dv : nat -> V) args,
  length args <= length (d_names d) ->
  (forall n, In n (skipn (length args) (d_names d)) ->
     exists l, assoc_nat n defaults = Some l /\ lit_val l = Ok (dv n)) ->
  eval_init V L lit_val (gen_init (d_names d) defaults) args [] =
  Ok (combine (firstn (length args) (d_names d)) args
      ++ map (fun n => (n, dv n)) (skipn (length args) (d_names d))).
Proof. exact defaults_l. Qed.
Print Assumptions defaults_render_faithfully.

Theorem type_map_total_on_supported : forall t f, type_map t = Ok f -> match t with TOther => False | _ => True end.
Proof. exact type_map_supported_l. Qed.
Print Assumptions type_map_total_on_supported.

(* non-vacuity: a definition with bits in the middle, hooks and a nested payload *)
Example c20_nonvacuous :
  let d := mkDefn [KStr 0 false; KStr 1 true; KPayload 3; KPayloadList 3] [10;11;12;13;14;15;16;17;18;19;20] [11; 19] [10] in
  wf_defn d = true /\
  gen_pack d = [(PStr 0, [(10, false)]);
                (PStr 1, [(11, true); (12, false); (13, false); (14, false); (15, false); (16, false); (17, false); (18, false)]);
                (PPayload, [(19, true)]); (PPayloadList, [(20, false)])] /\
  eval_to_pack nat (fun n v => v + 100) (gen_pack d) (combine (d_names d) (seq 0 11)) =
  Ok [(PStr 0, [0]); (PStr 1, [101; 2; 3; 4; 5; 6; 7; 8]); (PPayload, [109]); (PPayloadList, [10])].
Proof. vm_compute. repeat split. Qed.

(* non-vacuity of the mixed theorem: two positional and two keyword arguments (given out of order) *)
Example c20_mixed_nonvacuous :
  let d := mkDefn [KStr 0 false; KStr 0 false; KStr 0 false; KStr 0 false] [10;11;12;13] [] [] in
  interp_init nat d [1; 2] [(13, 4); (12, 3)] = Ok [(10, 1); (11, 2); (12, 3); (13, 4)] /\
  eval_init nat unit (fun _ => Ok 0) (gen_init (d_names d) []) [1; 2] [(13, 4); (12, 3)] = Ok [(10, 1); (11, 2); (12, 3); (13, 4)] /\
  interp_init nat d [1; 2] [(11, 9); (12, 3); (13, 4)] = Raise KeyError /\
  eval_init nat unit (fun _ => Ok 0) (gen_init (d_names d) []) [1; 2] [(11, 9); (12, 3); (13, 4)] = Raise TypeError.
Proof. vm_compute. repeat split. Qed.
