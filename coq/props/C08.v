(* C08 - circuit hops are only keyed with the peer the originator chose.  Property theorems only.
   C : crypto bundles the external primitives (X25519 [dh]/[pub], the crypto_auth MAC [mac]/[tag_eqb], HKDF
   [kdf], the session-key encryption of the candidate list [cenc_of]/[cdec]); what is assumed of them is a
   hypothesis of the theorem that needs it, and [Toy] (model/M08_toy.v) satisfies all of them. *)
From Coq Require Import ZArith List Bool.
From IPV8V Require Import lib.PyErr model.M08_handshake model.M08_toy spec.S08_knowledge proofs.P08_base proofs.P08_origin
  proofs.P08_relay proofs.P08_honest proofs.P08_inv proofs.P08_toy.
Import ListNotations.
Open Scope Z_scope.

(* ---- honest exchanges ------------------------------------------------------------------------------ *)

(* After an honest create exchange (the originator waits for B; B handles the create; the originator handles
   B's created): exactly one hop is appended, it names B, and its keys are the keys B holds for that circuit. *)
Theorem honest_create_agree : forall C,
  (forall a b, dh C a (pub C b) = dh C b (pub C a)) -> (forall a, tag_eqb C a a = true) ->
  forall O cid B O' B', wf_node C B -> create_exchange C O cid B O' B' ->
  exists hs h, hops_of O cid = Some hs /\ hops_of O' cid = Some (hs ++ [h]) /\ agree C h (B', cid).
Proof. exact create_agree_l. Qed.
Print Assumptions honest_create_agree.

(* After an honest extend exchange through the last node R of a path of any length (extend -> create ->
   created -> extended): one hop is appended behind the existing ones, it names B, both ends hold the same
   keys, and R still holds its own keys for the circuit. *)
Theorem honest_extend_agree : forall C,
  (forall a b, dh C a (pub C b) = dh C b (pub C a)) -> (forall a, tag_eqb C a a = true) ->
  forall O cid R rc B O' R' B' tc, wf_node C B -> extend_exchange C O cid R rc B O' R' B' tc ->
  exists hs h, hops_of O cid = Some hs /\ hops_of O' cid = Some (hs ++ [h]) /\ agree C h (B', tc)
    /\ node_keys R' rc = node_keys R rc /\ n_pkbin R' = n_pkbin R.
Proof. exact extend_agree_l. Qed.
Print Assumptions honest_extend_agree.

(* By induction, for every number of hops: a circuit built by honest exchanges lists exactly the selected
   nodes, in order, and every hop's keys equal the keys the corresponding node holds. *)
Theorem honest_agree : forall C,
  (forall a b, dh C a (pub C b) = dh C b (pub C a)) -> (forall a, tag_eqb C a a = true) ->
  forall cid O path, built C cid O path ->
  exists hs, hops_of O cid = Some hs /\ Forall2 (agree C) hs path.
Proof. exact honest_agree_l. Qed.
Print Assumptions honest_agree.

(* Selecting a peer records it: the create / extend that leaves the originator names the selected peer (for
   a create: is addressed to it) and carries pub x; afterwards the circuit's unverified hop is that peer with
   secret x - and accept_implies shows that an accepted hop is exactly the unverified hop's peer. *)
Theorem create_records_selection : forall C (n : @node C) cid cands tries o a0,
  In a0 (acts (send_initial_create n cid cands tries o)) ->
  exists first x, a0 = Send (p_addr first) (MCreate cid (o_pid o) (n_pkbin n) (pub C x)) /\ x = sk_of C (o_x o)
    /\ hd_error cands = Some first
    /\ exists c', aget cid (n_circ (st (send_initial_create n cid cands tries o))) = Some c'
       /\ c_unv c' = Some (mkHop first None (Some x)).
Proof. exact (@sic_sends). Qed.
Print Assumptions create_records_selection.

Theorem extend_records_selection : forall C (n : @node C) cid cands tries o a0,
  In a0 (acts (send_extend n cid cands tries o)) ->
  exists t x addr fa, a0 = Send fa (MExtend cid (o_pid o) t (pub C x) addr) /\ x = sk_of C (o_x o)
    /\ exists c', aget cid (n_circ (st (send_extend n cid cands tries o))) = Some c'
       /\ c_unv c' = Some (mkHop (mkPeer t 0) None (Some x)).
Proof. exact (@sext_sends). Qed.
Print Assumptions extend_records_selection.

(* The peer an extend selects is ONE peer: the key it names and the address it carries (when it carries one)
   are key and address of the same peer - the circuit's required exit, or the exit that random.choice picked
   when the hop offered no usable candidate. *)
Theorem send_extend_names_one_peer : forall C (n : @node C) cid cands tries o fa k i t X addr,
  In (Send fa (MExtend k i t X addr)) (acts (send_extend n cid cands tries o)) ->
  addr = 0 \/
  exists p, t = p_key p /\ addr = p_addr p
    /\ (o_fallback o = Some p \/ exists c, aget cid (n_circ n) = Some c /\ c_reqexit c = Some p).
Proof. exact (@sext_one_peer). Qed.
Print Assumptions send_extend_names_one_peer.

(* ---- what it takes to be accepted ------------------------------------------------------------------ *)

(* Whatever message a node handles, in whatever state: if the hop list of circuit cid differs afterwards, the
   message was a created/extended for cid (and, for a created, no relay request carries its identifier), a
   retry cache for cid was outstanding and its packet identifier equals the message's, the circuit had an
   unverified hop u with ephemeral secret x, the MAC verifies under dh x Y, and exactly one hop was appended:
   u's peer, keyed with kdf (dh x Y) (dh x (static public key of u's peer)). *)
Theorem accept_implies : forall C n src m o cid hs hs',
  hops_of n cid = Some hs -> hops_of (st (handle n src m o)) cid = Some hs' -> hs' <> hs ->
  exists i Y au ce r h,
    answer_of C m = Some (cid, i, Y, au, ce) /\ not_relay_case C n m
    /\ aget cid (n_retry n) = Some r /\ r_pid r = i
    /\ accepts C n cid Y au h /\ hs' = hs ++ [h].
Proof. exact accept_implies_l. Qed.
Print Assumptions accept_implies.

(* In every state reachable by any history of events (messages of any kind and content, timeouts, retries,
   removals) every hop of every circuit is keyed with kdf (dh x Y) (dh x (static key of the peer it names)),
   x being the ephemeral secret stored in that hop. *)
Theorem hops_keyed_with_named_peer : forall C evs n, keyed C n -> keyed C (run n evs).
Proof. exact run_keyed_l. Qed.
Print Assumptions hops_keyed_with_named_peer.

Theorem fresh_node_keyed : forall C (n : @node C), n_circ n = [] -> keyed C n.
Proof. exact keyed_init. Qed.
Print Assumptions fresh_node_keyed.

(* Hence (ideal X25519 / HKDF: a dh output is computable only with one of the two secrets, kdf output only from
   both inputs): whoever can compute the keys of a hop holds the originator's ephemeral secret of that hop or
   the private key of the peer the hop names. *)
Theorem accepted_key_secret : forall C (agent : Type) (holds : agent -> SK C -> Prop)
    (can_sec : agent -> SEC C -> Prop) (can_key : agent -> KEYS C -> Prop),
  (forall A a P s, dh C a P = Some s -> can_sec A s -> holds A a \/ exists b, P = pub C b /\ holds A b) ->
  (forall A s1 s2, can_key A (kdf C s1 s2) -> can_sec A s1 /\ can_sec A s2) ->
  (forall a b, pub C a = pub C b -> a = b) ->
  forall n k hs h ks b A,
  keyed C n -> hops_of n k = Some hs -> In h hs -> h_keys h = Some ks ->
  cpk C (p_key (h_peer h)) = pub C b -> can_key A ks ->
  (exists x, h_dh h = Some x /\ holds A x) \/ holds A b.
Proof. exact hop_key_secret_l. Qed.
Print Assumptions accepted_key_secret.

(* ---- answers that do not fit ----------------------------------------------------------------------- *)

(* Wrong identifier, or no retry cache for that circuit id (another circuit, an answer after the timeout):
   nothing at all happens. *)
Theorem unmatched_answer_noop : forall C n src m o cid i Y au ce,
  answer_of C m = Some (cid, i, Y, au, ce) -> not_relay_case C n m ->
  (forall r, aget cid (n_retry n) = Some r -> r_pid r <> i) ->
  handle n src m o = (n, [], None).
Proof. exact unmatched_noop_l. Qed.
Print Assumptions unmatched_answer_noop.

(* Matching identifier, altered key or auth so that the MAC does not verify: CryptoException, state unchanged. *)
Theorem bad_auth_noop : forall C n src m o cid i Y au ce r c u x s1 s2,
  answer_of C m = Some (cid, i, Y, au, ce) -> not_relay_case C n m ->
  aget cid (n_retry n) = Some r -> r_pid r = i ->
  aget cid (n_circ n) = Some c -> c_unv c = Some u -> h_dh u = Some x ->
  dh C x Y = Some s1 -> dh C x (cpk C (p_key (h_peer u))) = Some s2 ->
  tag_eqb C au (mac C s1 Y) = false ->
  handle n src m o = (n, [], Some CryptoError).
Proof. exact bad_auth_noop_l. Qed.
Print Assumptions bad_auth_noop.

(* Matching identifier, malformed key material (X25519 raises ValueError: wrong length, rejected point): the
   answer is ignored like any other unauthentic answer - nothing changes, the retry cache stays (fix 48d1509;
   before it anybody who guessed the 16-bit identifier could tear down a circuit that is being built). *)
Theorem malformed_key_noop : forall C n src m o cid i Y au ce r c u x,
  answer_of C m = Some (cid, i, Y, au, ce) -> not_relay_case C n m ->
  aget cid (n_retry n) = Some r -> r_pid r = i ->
  aget cid (n_circ n) = Some c -> c_unv c = Some u -> h_dh u = Some x ->
  dh C x Y = None ->
  handle n src m o = (n, [], None).
Proof. exact bad_point_noop_l. Qed.
Print Assumptions malformed_key_noop.

(* Every created / extended is either ACCEPTED - it matches the outstanding retry cache and verifies against the
   unverified hop - or it changes nothing at all: the circuit entry, its unverified hop, the retry cache and every
   other table stay as they were and nothing is sent (wrong identifier, no cache, failed authentication, malformed
   key material, no unverified hop). *)
Theorem unaccepted_answer_changes_nothing : forall C (n : @node C) src m o cid i Y au ce,
  answer_of C m = Some (cid, i, Y, au, ce) -> not_relay_case C n m ->
  (exists e, handle n src m o = (n, [], e))
  \/ (exists r h, aget cid (n_retry n) = Some r /\ r_pid r = i /\ accepts C n cid Y au h).
Proof. exact unaccepted_answer_changes_nothing_l. Qed.
Print Assumptions unaccepted_answer_changes_nothing.

(* No unverified hop (the answer has been consumed already): nothing happens. *)
Theorem no_unverified_noop : forall C n src m o cid i Y au ce c,
  answer_of C m = Some (cid, i, Y, au, ce) -> not_relay_case C n m ->
  aget cid (n_circ n) = Some c -> c_unv c = None ->
  handle n src m o = (n, [], None).
Proof. exact no_unverified_noop_l. Qed.
Print Assumptions no_unverified_noop.

(* An answer for circuit cid leaves every other circuit of the node exactly as it was. *)
Theorem answer_touches_only_its_circuit : forall C n src m o cid i Y au ce,
  answer_of C m = Some (cid, i, Y, au, ce) ->
  forall k, k <> cid -> aget k (n_circ (st (handle n src m o))) = aget k (n_circ n).
Proof. exact answer_other_circuits_l. Qed.
Print Assumptions answer_touches_only_its_circuit.

(* An answer whose MAC was made for another ephemeral secret (an earlier attempt before the retry, another
   circuit, an earlier hop) is never accepted, whatever identifier it carries (ideal MAC: equal tags have equal
   keys; X25519 with different secrets on the same point gives different results). *)
Theorem stale_answer_rejected : forall C,
  (forall a b, tag_eqb C a b = true -> a = b) ->
  (forall s p s' p', mac C s p = mac C s' p' -> s = s' /\ p = p') ->
  (forall a a' P s, dh C a P = Some s -> dh C a' P = Some s -> a = a') ->
  forall n src m o cid i Y au ce c u x x_old s_old,
  answer_of C m = Some (cid, i, Y, au, ce) ->
  aget cid (n_circ n) = Some c -> c_unv c = Some u -> h_dh u = Some x ->
  dh C x_old Y = Some s_old -> au = mac C s_old Y -> x_old <> x ->
  same_hops n (st (handle n src m o)).
Proof. exact stale_rejected_l. Qed.
Print Assumptions stale_answer_rejected.

(* A duplicate of an accepted answer changes no hop list (the next ephemeral secret being fresh). *)
Theorem duplicate_answer_rejected : forall C,
  (forall a b, tag_eqb C a b = true -> a = b) ->
  (forall s p s' p', mac C s p = mac C s' p' -> s = s' /\ p = p') ->
  (forall a a' P s, dh C a P = Some s -> dh C a' P = Some s -> a = a') ->
  forall n src src' m o o' cid hs hs',
  hops_of n cid = Some hs -> hops_of (st (handle n src m o)) cid = Some hs' -> hs' <> hs ->
  (forall c u x, aget cid (n_circ n) = Some c -> c_unv c = Some u -> h_dh u = Some x -> sk_of C (o_x o) <> x) ->
  same_hops (st (handle n src m o)) (st (handle (st (handle n src m o)) src' m o')).
Proof. exact duplicate_rejected_l. Qed.
Print Assumptions duplicate_answer_rejected.

(* No history of events - answers of any kind, duplicated, reordered, late, timeouts, retries, removal
   tasks - modifies an established hop: until the circuit object is purged, its earlier hop list is a prefix
   of the later one, so position i still holds the same peer and the same keys. *)
Theorem established_hops_never_change : forall C evs (n : @node C) k hs,
  (forall e, In e evs -> ~ purges C e k) -> hops_of n k = Some hs ->
  exists hs', hops_of (run n evs) k = Some hs' /\ prefix hs hs'.
Proof. exact run_grows_l. Qed.
Print Assumptions established_hops_never_change.

Theorem established_hop_fixed : forall C evs (n : @node C) k hs i h,
  (forall e, In e evs -> ~ purges C e k) -> hops_of n k = Some hs -> nth_error hs i = Some h ->
  exists hs', hops_of (run n evs) k = Some hs' /\ nth_error hs' i = Some h.
Proof. exact run_hop_fixed_l. Qed.
Print Assumptions established_hop_fixed.

(* ---- a peer gets the position it was selected for ------------------------------------------------------ *)

(* In every reachable state a retry cache belongs to a circuit that is not closing, and a retry cache whose
   retry function is send_initial_create belongs to a circuit without hops (the accepted hop's cache is
   consumed at once - the behaviour after fix 233b9c9; before it, an unreadable candidate list left it
   behind). *)
Theorem retry_cache_consistent : forall C evs (n : @node C), retry_inv C n -> retry_inv C (run n evs).
Proof. exact run_inv_l. Qed.
Print Assumptions retry_cache_consistent.

Theorem retry_cache_consistent_init : forall C (n : @node C), n_retry n = [] -> retry_inv C n.
Proof. exact inv_init. Qed.
Print Assumptions retry_cache_consistent_init.

(* Hence the create that a timed-out retry cache sends is always the handshake of the FIRST hop: the circuit
   has no hops then, so a peer selected as first hop can never be appended behind an established hop. *)
Theorem retried_create_is_first_hop : forall C (n : @node C) cid o a k i pkb X,
  retry_inv C n -> In (Send a (MCreate k i pkb X)) (acts (step n (EvTimeout cid o))) ->
  k = cid /\ hops_of n cid = Some [].
Proof. exact retried_create_first_hop_l. Qed.
Print Assumptions retried_create_is_first_hop.

(* ---- the relay ---------------------------------------------------------------------------------------- *)

(* An extended leaves a node only as the translation of a created whose identifier names a pending
   CreateRequestCache entry; the entry (written by on_extend) fixes the circuit id, the identifier and the
   addressee of the extended; key, auth and candidate list are copied; the entry is consumed. *)
Theorem relay_pairing : forall C (n : @node C) e a f j Y au ce,
  In (Send a (MExtended f j Y au ce)) (acts (step n e)) ->
  exists src cid i o q,
    e = EvMsg src (MCreated cid i Y au ce) o
    /\ aget i (n_creq n) = Some q /\ f = q_from q /\ j = q_ident q /\ a = p_addr (q_peer q)
    /\ aget i (n_creq (st (step n e))) = None.
Proof. exact extended_only_for_pending_l. Qed.
Print Assumptions relay_pairing.

(* Entries appear only through on_extend and describe that extend (identifier, circuit it came from). *)
Theorem relay_entry_from_extend : forall C (n : @node C) e num q,
  aget num (n_creq (st (step n e))) = Some q -> aget num (n_creq n) <> Some q ->
  exists src rc pid npk X addr o,
    e = EvMsg src (MExtend rc pid npk X addr) o /\ num = o_num o
    /\ q_ident q = pid /\ q_from q = rc /\ q_to q = o_cid o.
Proof. exact creq_only_from_extend_l. Qed.
Print Assumptions relay_entry_from_extend.

(* The create a relay sends for an extend carries the originator's key unmodified, under the fresh circuit
   id and the number of the entry it records; it goes to a peer with the requested public key. *)
Theorem relay_forwards_key : forall C (n : @node C) src rc pid npk X addr o a,
  In a (acts (handle n src (MExtend rc pid npk X addr) o)) ->
  exists pv cd,
    a = Send (p_addr cd) (MCreate (o_cid o) (o_num o) (n_pkbin n) X)
    /\ handle n src (MExtend rc pid npk X addr) o
       = (set_creq n (aset (o_num o) (mkCreq pid (o_cid o) rc pv cd) (n_creq n)), [a], None)
    /\ (o_known o = None -> p_key cd = npk).
Proof. exact on_extend_out_l. Qed.
Print Assumptions relay_forwards_key.

(* ---- the hypotheses are satisfiable; limits of the MAC -------------------------------------------------- *)

Theorem assumptions_satisfiable :
  (forall a b, dh Toy a (pub Toy b) = dh Toy b (pub Toy a))
  /\ (forall a, tag_eqb Toy a a = true)
  /\ (forall a b, tag_eqb Toy a b = true -> a = b)
  /\ (forall s p s' p', mac Toy s p = mac Toy s' p' -> s = s' /\ p = p')
  /\ (forall a a' P s, dh Toy a P = Some s -> dh Toy a' P = Some s -> a = a')
  /\ (forall a b, pub Toy a = pub Toy b -> a = b)
  /\ (forall (A : list Z) a P s, dh Toy a P = Some s -> tcan_sec A s -> In a A \/ exists b, P = pub Toy b /\ In b A)
  /\ (forall (A : list Z) s1 s2, tcan_key A (kdf Toy s1 s2) -> tcan_sec A s1 /\ tcan_sec A s2).
Proof.
  exact (conj toy_dh_comm (conj toy_tag_eqb_refl (conj toy_tag_eqb_true (conj toy_mac_inj (conj toy_dh_inj
        (conj toy_pub_inj (conj toy_dh_hidden toy_kdf_hidden))))))).
Qed.
Print Assumptions assumptions_satisfiable.

(* The MAC is keyed with the ephemeral-ephemeral secret alone (crypto_auth(shared_secret[:32], ..)), so it does
   not prove that the answerer holds the selected peer's private key: an answer with a substituted ephemeral
   key and a MAC recomputed by someone who merely saw the create IS accepted.  The keys the originator then
   holds are still not computable by that party (nor by anybody without secret 1 or 100). *)
Theorem substituted_ephemeral_accepted_keys_stay_secret :
  hops_of (st (handle tO1 11 subst_eph (orc 102 501 [] 0 0))) 7
  = Some [mkHop (C := Toy) (mkPeer 1 11) (Some (TKdf (TDH 66 100) (TDH 1 100))) (Some 100)]
  /\ ~ tcan_key [66; 2; 3] (TKdf (TDH 66 100) (TDH 1 100)).
Proof. exact toy_subst_eph_accepted. Qed.
Print Assumptions substituted_ephemeral_accepted_keys_stay_secret.

(* ---- non-vacuity ----------------------------------------------------------------------------------------- *)

(* a two-hop circuit built by honest exchanges exists in the toy instance (so [built] is inhabited beyond the
   base case), and its final state is READY with both selected peers in order and matching keys *)
Example built_two_hops : built Toy 7 tO3 [(tA3, 7); (tB1, 8)].
Proof. exact toy_built_two. Qed.

Example final_state_two_hops :
  hops_of tO3 7 = Some [mkHop (C := Toy) (mkPeer 1 11) (Some (TKdf (TDH 100 101) (TDH 1 100))) (Some 100);
                        mkHop (C := Toy) (mkPeer 2 0) (Some (TKdf (TDH 102 103) (TDH 2 102))) (Some 102)]
  /\ node_keys tA3 7 = Some (TKdf (TDH 100 101) (TDH 1 100))
  /\ node_keys tB1 8 = Some (TKdf (TDH 102 103) (TDH 2 102))
  /\ n_retry tO3 = [].
Proof. vm_compute. auto. Qed.

(* the adversarial answers of the statement, each hitting the premise of its theorem *)
Example bad_answers_concrete :
  handle tO1 11 bad_ident (orc 0 0 [] 0 0) = (tO1, [], None)
  /\ handle tO1 11 bad_circuit (orc 0 0 [] 0 0) = (tO1, [], None)
  /\ handle tO1 11 bad_auth (orc 0 0 [] 0 0) = (tO1, [], Some CryptoError)
  /\ handle tO1 11 bad_key (orc 0 0 [] 0 0) = (tO1, [], Some CryptoError)
  /\ handle tO1 11 bad_point (orc 0 0 [] 0 0) = (tO1, [], None)
  /\ same_hops tO3 (st (handle tO3 11 extended2 (orc 105 503 [] 0 0)))
  /\ same_hops tO3 (st (handle tO3 11 created1 (orc 105 503 [] 0 0))).
Proof. exact toy_bad_answers. Qed.

(* a created arriving while an EXTEND is pending, carrying the pending identifier and hop 1's original key
   material (made for hop 1's ephemeral secret 100, not for the pending secret 102): whatever the message
   type, it is checked against the unverified hop and rejected; hop 1 is untouched (premise of
   stale_answer_rejected with x_old = 100, x = 102) *)
Example relabelled_earlier_answer_rejected :
  handle tO2 99 relabelled_created (orc 0 0 [] 0 0) = (tO2, [], Some CryptoError)
  /\ handle tO2 11 relabelled_extended (orc 0 0 [] 0 0) = (tO2, [], Some CryptoError)
  /\ hops_of tO2 7 = Some [mkHop (C := Toy) (mkPeer 1 11) (Some (TKdf (TDH 100 101) (TDH 1 100))) (Some 100)].
Proof. vm_compute. auto. Qed.

(* the fallback branch of send_extend (the hop offered no candidate; the originator picks exit 2 at address 12
   itself): key and address of that one peer travel together *)
Example fallback_extend_names_one_peer :
  acts (send_extend tO2 7 [] 3 (mkOracle 105 502 (Some (mkPeer 2 12)) [] 0 0 None))
  = [Send 11 (@MExtend Toy 7 502 2 (TPub 105) 12)].
Proof. vm_compute. reflexivity. Qed.
