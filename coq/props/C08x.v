(* C08x - the handshake functions REGENERATED FROM THE PYTHON SOURCE (gen/G08_handshake.v, written by
   tools/tr/tr_handshake.py on every run) compute exactly what the hand model M08_handshake computes; hence the
   theorems of props/C08.v are theorems about the translated code.  Property theorems only.
   C : crypto are the symbolic primitives; R : rt is what leaves the translated set (fresh randomness, the candidate
   table, random.choice); tc th are settings.circuit_timeout / next_hop_timeout. *)
From Coq Require Import ZArith List Bool.
From IPV8V Require Import lib.PyErr model.M08_handshake model.M08_toy model.M08_rt gen.G08_handshake
  model.M08_handshake_gen proofs.P08_base proofs.P08_origin proofs.P08_handshake_gen.
Import ListNotations.
Open Scope Z_scope.

(* For every event whose code is translated - create_circuit (from the first-hop test on), the four handshake
   handlers with everything they call (send_initial_create, send_extend, _ours_on_created_extended, join_circuit,
   should_join_circuit, the TunnelCrypto functions, the cache constructors), the timeout of a retry cache - running
   the generated program on a node state gives the state, the cells and the exception of the hand model's [step].
   [covered] lists the run-time facts that the hand model takes as oracle values: the event carries R's oracle;
   o_fallback is random.choice over the non-excluded exit-and-relay candidates; o_offer is the list join_circuit
   computes; Peer objects hold parsed keys; _generate_circuit_id returns an id that is not in use. *)
Theorem gen_refines_hand_model : forall C R tc th (n : @node C) e,
  covered C R tc th n e -> run_m (g_step C R tc th e) n = step n e.
Proof. exact gen_refines_hand_model_l. Qed.
Print Assumptions gen_refines_hand_model.

(* function by function (any starting state and any cells already sent) *)
Theorem gen_send_extend_refines : forall C R cid cands tries (n : @node C) a,
  fallback_spec C R n cid -> peers_valid C R n cid ->
  g_send_extend C R cid cands tries (n, a) = lift_out C (send_extend n cid cands tries (rt_o R)) a.
Proof. exact g_sext_refines. Qed.
Print Assumptions gen_send_extend_refines.

Theorem gen_send_initial_create_refines : forall C R cid cands tries (n : @node C) a,
  g_send_initial_create C R cid cands tries (n, a) = lift_out C (send_initial_create n cid cands tries (rt_o R)) a.
Proof. exact g_sic_refines. Qed.
Print Assumptions gen_send_initial_create_refines.

Theorem gen_ours_refines : forall C R cid (p : @answer C) (n : @node C) a,
  fallback_spec_after C R n cid -> peers_valid C R n cid ->
  g_ours_on_created_extended C R cid p (n, a) = lift_out C (ours n cid (a_key p) (a_auth p) (a_ce p) (rt_o R)) a.
Proof. exact g_ours_refines. Qed.
Print Assumptions gen_ours_refines.

(* the loop that looks for the doubled key in the candidate list is the model's split_cands *)
Theorem gen_split_loop : forall l, py_for_range (zlen l - 1) (split_body l) (l, []) = Ok (split_cands l).
Proof. exact split_loop. Qed.
Print Assumptions gen_split_loop.

(* ---- transferred theorems ------------------------------------------------------------------------------------ *)
Theorem gen_accept_implies : forall C R tc th (n : @node C) src m cid hs hs',
  covered C R tc th n (EvMsg src m (rt_o R)) ->
  hops_of n cid = Some hs -> hops_of (st (run_m (g_step C R tc th (EvMsg src m (rt_o R))) n)) cid = Some hs' -> hs' <> hs ->
  exists i Y au ce r h,
    answer_of C m = Some (cid, i, Y, au, ce) /\ not_relay_case C n m
    /\ aget cid (n_retry n) = Some r /\ r_pid r = i
    /\ accepts C n cid Y au h /\ hs' = hs ++ [h].
Proof. exact gen_accept_implies_l. Qed.
Print Assumptions gen_accept_implies.

Theorem gen_established_hops_never_change : forall C R tc th evs (n : @node C) k hs,
  all_covered C R tc th n evs -> hops_of n k = Some hs ->
  exists hs', hops_of (g_run C R tc th n evs) k = Some hs' /\ prefix hs hs'.
Proof. exact gen_hops_never_change_l. Qed.
Print Assumptions gen_established_hops_never_change.

Theorem gen_hops_keyed_with_named_peer : forall C R tc th evs (n : @node C),
  all_covered C R tc th n evs -> keyed C n -> keyed C (g_run C R tc th n evs).
Proof. exact gen_keyed_l. Qed.
Print Assumptions gen_hops_keyed_with_named_peer.

Theorem gen_send_extend_names_one_peer : forall C R cid cands tries (n : @node C) r n' ac fa k i t X addr,
  fallback_spec C R n cid -> peers_valid C R n cid ->
  g_send_extend C R cid cands tries (n, []) = (r, (n', ac)) ->
  In (Send fa (MExtend k i t X addr)) ac ->
  addr = 0 \/ exists p, t = p_key p /\ addr = p_addr p
    /\ (o_fallback (rt_o R) = Some p \/ exists c, aget cid (n_circ n) = Some c /\ c_reqexit c = Some p).
Proof. exact gen_extend_one_peer_l. Qed.
Print Assumptions gen_send_extend_names_one_peer.

(* ---- non-vacuity: the generated programs run on the toy instance -------------------------------------------------- *)
Definition R0 (o : oracle) : rt := rt_of (mkGenv [mkPeer 2 12] [] [] None 60 10) o.

(* the honest two-hop build of props/C08.v, replayed with the generated functions: same states, same cells
   (compared with the decidable equality of model results) *)
Example gen_runs_the_honest_build :
  out_eqb (run_m (g_step Toy (R0 (with_cid (orc 100 500 [] 0 0) 7)) 60 10 (EvNewCircuit 7 2 None [mkPeer 1 11] 6 (orc 100 500 [] 0 0))) tO0)
          (step tO0 (EvNewCircuit 7 2 None [mkPeer 1 11] 6 (orc 100 500 [] 0 0)))
  && out_eqb (run_m (g_step Toy (R0 (orc 102 501 [] 0 0)) 60 10 (EvMsg 11 created1 (orc 102 501 [] 0 0))) tO1)
             (handle tO1 11 created1 (orc 102 501 [] 0 0))
  && out_eqb (run_m (g_step Toy (R0 (orc 0 0 [] 8 600)) 60 10 (EvMsg 10 (@MExtend Toy 7 501 2 (TPub 102) 0) (orc 0 0 [] 8 600))) tA1)
             (handle tA1 10 (@MExtend Toy 7 501 2 (TPub 102) 0) (orc 0 0 [] 8 600))
  && out_eqb (run_m (g_step Toy (R0 (orc 103 0 [mkPeer 2 12; mkPeer 2 12] 0 0)) 60 10
                       (EvMsg 11 (@MCreate Toy 8 600 1 (TPub 102)) (orc 103 0 [mkPeer 2 12; mkPeer 2 12] 0 0))) (blank 2))
             (handle (blank 2) 11 (@MCreate Toy 8 600 1 (TPub 102)) (orc 103 0 [mkPeer 2 12; mkPeer 2 12] 0 0))
  && out_eqb (run_m (g_step Toy (R0 (orc 0 0 [] 0 0)) 60 10 (EvMsg 12 created2 (orc 0 0 [] 0 0))) tA2)
             (handle tA2 12 created2 (orc 0 0 [] 0 0))
  && out_eqb (run_m (g_step Toy (R0 (orc 104 502 [] 0 0)) 60 10 (EvMsg 11 extended2 (orc 104 502 [] 0 0))) tO2)
             (handle tO2 11 extended2 (orc 104 502 [] 0 0))
  = true.
Proof. vm_compute. reflexivity. Qed.

(* the adversarial shapes of the seeded changes are rejected by the generated code as by the model *)
Example gen_rejects_relabelled_and_bad_answers :
  out_eqb (run_m (g_step Toy (R0 (orc 0 0 [] 0 0)) 60 10 (EvMsg 99 relabelled_created (orc 0 0 [] 0 0))) tO2) (tO2, [], Some CryptoError)
  && out_eqb (run_m (g_step Toy (R0 (orc 0 0 [] 0 0)) 60 10 (EvMsg 11 bad_ident (orc 0 0 [] 0 0))) tO1) (tO1, [], None)
  && out_eqb (run_m (g_step Toy (R0 (orc 0 0 [] 0 0)) 60 10 (EvMsg 11 bad_auth (orc 0 0 [] 0 0))) tO1) (tO1, [], Some CryptoError)
  = true.
Proof. vm_compute. reflexivity. Qed.
