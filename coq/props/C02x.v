(* C02x - stand-alone entry of the C02 extension (old-style payload glue): re-exports the theorems of
   props/C02_oldstyle.v so that `./check C02x` builds and audits them on their own. *)
From Coq Require Import String Ascii.
From Coq Require Import ZArith List Bool.
From IPV8V Require Import lib.PyErr lib.Bytes lib.BE model.M02_wire model.M02_oldstyle gen.G02_registry
  gen.G02_oldstyle spec.S02_oldstyle.
From IPV8V Require props.C02_oldstyle.
Import ListNotations.
Open Scope Z_scope.

Theorem oldstyle_all_specified : forall c, In c oldstyle_table ->
  (exists spec, spec_of (oc_name c) oldstyle_specs = Some spec) /\
  In (oc_name c, class_fmts c) msgdefs /\
  mapM (find_fmt REG) (oc_formats c) = Ok (class_fmts c).
Proof. exact C02_oldstyle.oldstyle_all_specified. Qed.
Print Assumptions oldstyle_all_specified.

Theorem oldstyle_glue_roundtrip : forall c spec x,
  In c oldstyle_table -> spec_of (oc_name c) oldstyle_specs = Some spec ->
  legal (oc_short c) spec x = true ->
  exists pl vs,
    oc_to_pack c x = Ok pl /\ map fst pl = oc_formats c /\ entry_vals (class_fmts c) pl = Ok vs /\
    (forall key_ok, msg_ok key_ok (msg_of_list (class_fmts c)) (wire_image (class_fmts c) vs) = true) /\
    oc_from_unpack c (unpack_args (class_fmts c) (wire_image (class_fmts c) vs)) = Ok (canon_obj spec x).
Proof. exact C02_oldstyle.oldstyle_glue_roundtrip. Qed.
Print Assumptions oldstyle_glue_roundtrip.

Theorem oldstyle_class_roundtrip : forall key_ok c spec x bs (pre suf : bytes),
  In c oldstyle_table -> spec_of (oc_name c) oldstyle_specs = Some spec ->
  legal (oc_short c) spec x = true ->
  encode_obj REG key_ok (oc_to_pack c) x = Ok bs ->
  (msg_greedy (msg_of_list (class_fmts c)) = false \/ suf = []) ->
  decode_obj REG key_ok (oc_formats c) (oc_from_unpack c) (pre ++ bs ++ suf) (length pre)
    = Ok (canon_obj spec x, (length pre + length bs)%nat).
Proof. exact C02_oldstyle.oldstyle_class_roundtrip. Qed.
Print Assumptions oldstyle_class_roundtrip.

Theorem oldstyle_encode_defined : forall key_ok c spec x,
  In c oldstyle_table -> spec_of (oc_name c) oldstyle_specs = Some spec ->
  legal (oc_short c) spec x = true -> exists bs, encode_obj REG key_ok (oc_to_pack c) x = Ok bs.
Proof. exact C02_oldstyle.oldstyle_encode_defined. Qed.
Print Assumptions oldstyle_encode_defined.

Theorem oldstyle_canon_equal : forall short spec x, legal short spec x = true ->
  obj_pyeq (canon_obj spec x) x = Ok true /\ legal short spec (canon_obj spec x) = true /\
  canon_obj spec (canon_obj spec x) = canon_obj spec x.
Proof. exact C02_oldstyle.oldstyle_canon_equal. Qed.
Print Assumptions oldstyle_canon_equal.

Theorem IntroductionRequestPayload_roundtrip : class_roundtrips IntroductionRequestPayload_class.
Proof. exact C02_oldstyle.IntroductionRequestPayload_roundtrip. Qed.
Print Assumptions IntroductionRequestPayload_roundtrip.
Theorem IntroductionResponsePayload_roundtrip : class_roundtrips IntroductionResponsePayload_class.
Proof. exact C02_oldstyle.IntroductionResponsePayload_roundtrip. Qed.
Print Assumptions IntroductionResponsePayload_roundtrip.
Theorem PunctureRequestPayload_roundtrip : class_roundtrips PunctureRequestPayload_class.
Proof. exact C02_oldstyle.PunctureRequestPayload_roundtrip. Qed.
Print Assumptions PunctureRequestPayload_roundtrip.
Theorem PuncturePayload_roundtrip : class_roundtrips PuncturePayload_class.
Proof. exact C02_oldstyle.PuncturePayload_roundtrip. Qed.
Print Assumptions PuncturePayload_roundtrip.
Theorem BinMemberAuthenticationPayload_roundtrip : class_roundtrips BinMemberAuthenticationPayload_class.
Proof. exact C02_oldstyle.BinMemberAuthenticationPayload_roundtrip. Qed.
Print Assumptions BinMemberAuthenticationPayload_roundtrip.
Theorem GlobalTimeDistributionPayload_roundtrip : class_roundtrips GlobalTimeDistributionPayload_class.
Proof. exact C02_oldstyle.GlobalTimeDistributionPayload_roundtrip. Qed.
Print Assumptions GlobalTimeDistributionPayload_roundtrip.
Theorem SimilarityRequestPayload_roundtrip : class_roundtrips SimilarityRequestPayload_class.
Proof. exact C02_oldstyle.SimilarityRequestPayload_roundtrip. Qed.
Print Assumptions SimilarityRequestPayload_roundtrip.
Theorem SimilarityResponsePayload_roundtrip : class_roundtrips SimilarityResponsePayload_class.
Proof. exact C02_oldstyle.SimilarityResponsePayload_roundtrip. Qed.
Print Assumptions SimilarityResponsePayload_roundtrip.
Theorem PingPayload_roundtrip : class_roundtrips PingPayload_class.
Proof. exact C02_oldstyle.PingPayload_roundtrip. Qed.
Print Assumptions PingPayload_roundtrip.
Theorem PongPayload_roundtrip : class_roundtrips PongPayload_class.
Proof. exact C02_oldstyle.PongPayload_roundtrip. Qed.
Print Assumptions PongPayload_roundtrip.
Theorem DiscoveryIntroductionRequestPayload_roundtrip : class_roundtrips DiscoveryIntroductionRequestPayload_class.
Proof. exact C02_oldstyle.DiscoveryIntroductionRequestPayload_roundtrip. Qed.
Print Assumptions DiscoveryIntroductionRequestPayload_roundtrip.
Theorem RequestAttestationPayload_roundtrip : class_roundtrips RequestAttestationPayload_class.
Proof. exact C02_oldstyle.RequestAttestationPayload_roundtrip. Qed.
Print Assumptions RequestAttestationPayload_roundtrip.
Theorem VerifyAttestationRequestPayload_roundtrip : class_roundtrips VerifyAttestationRequestPayload_class.
Proof. exact C02_oldstyle.VerifyAttestationRequestPayload_roundtrip. Qed.
Print Assumptions VerifyAttestationRequestPayload_roundtrip.
Theorem AttestationChunkPayload_roundtrip : class_roundtrips AttestationChunkPayload_class.
Proof. exact C02_oldstyle.AttestationChunkPayload_roundtrip. Qed.
Print Assumptions AttestationChunkPayload_roundtrip.
Theorem ChallengePayload_roundtrip : class_roundtrips ChallengePayload_class.
Proof. exact C02_oldstyle.ChallengePayload_roundtrip. Qed.
Print Assumptions ChallengePayload_roundtrip.
Theorem ChallengeResponsePayload_roundtrip : class_roundtrips ChallengeResponsePayload_class.
Proof. exact C02_oldstyle.ChallengeResponsePayload_roundtrip. Qed.
Print Assumptions ChallengeResponsePayload_roundtrip.
