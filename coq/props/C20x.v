(* C20 extension - the VariablePayload machinery as TRANSLATED from lazy_payload.py / payload_dataclass.py
   (tools/tr/tr_vp.py -> gen/G20_vp.v).  Property theorems only; vocabulary in model/M20_vp_gen.v. *)
From Coq Require Import ZArith List Bool String.
From IPV8V Require Import lib.PyErr model.M20_vp model.M20_vp_gen gen.G20_vp proofs.P20_vp_gen.
Import ListNotations.

(* (1) The interpreted methods, translated from the AST, compute exactly what the hand model M20_vp says - for every
   well-formed definition (any formats incl. bits / nested / lists, any hooks), all constructor arguments, all decoded
   argument lists and all instances, exceptions included.  SUPER_FWD = false: the definition's next __init__ after
   VariablePayload in the MRO is object.__init__ (the forwarding branch is outside the translated set). *)
Theorem gen_refines_hand_model : forall V (P : rtp V) K,
  wf_defn (defn_of V K) = true ->
  (forall args kwargs,
     VariablePayload___init__ V P false K (object_new V) args kwargs =
     do fs <- interp_init V (defn_of V K) args kwargs; Ok (cls_set_match_args V K (c_names V K), fs)) /\
  (forall NEW args,
     VariablePayload_from_unpack_list V P NEW K args =
     do a' <- interp_fix_unpack V (c_hook_unpack V K) (defn_of V K) (c_names V K) args; NEW K a' []) /\
  (forall o,
     VariablePayload_to_pack_list V P K o =
     do r <- interp_to_pack V (c_hook_pack V K) (defn_of V K) o; Ok (lift_pl V r)) /\
  (forall f, VariablePayload__to_packlist_fmt V P f = Ok (GP (packname f))) /\
  (forall o n, VariablePayload__fix_pack V P K o n = fix_pack V (c_hook_pack V K) (defn_of V K) o n).
Proof.
  intros V P K Hwf. split; [|split; [|split; [|split]]].
  - intros. exact (init_refines V P K args kwargs Hwf).
  - intros. exact (from_unpack_list_refines V P NEW K args).
  - intros. exact (to_pack_list_refines V P K o Hwf).
  - exact (to_packlist_fmt_spec V P).
  - exact (fix_pack_spec V P K).
Qed.
Print Assumptions gen_refines_hand_model.

(* The three source generators, translated (templates parsed into code-object structure), are the generator model. *)
Theorem gen_generators_refine_model : forall V (P : rtp V) K (defaults : list (nat * V)),
  wf_defn (defn_of V K) = true ->
  g_compile_init V P (c_names V K) defaults =
    Ok (CInit "__init__" (gen_init (c_names V K) (key_self V defaults)) (map (fun n => (n, n)) (c_names V K))) /\
  g_compile_from_unpack_list V P K (c_names V K) = Ok (CUnpack "from_unpack_list" (c_names V K) (gen_unpack (defn_of V K))) /\
  g_compile_to_pack_list V P K (c_fmts V K) (c_names V K) = Ok (CPack "to_pack_list" (lift_gp (gen_pack (defn_of V K)))).
Proof.
  intros V P K defaults Hwf. pose proof Hwf as H. unfold wf_defn in H. apply andb_true_iff in H as [_ Hnd].
  split; [|split].
  - exact (compile_init_refines V P (c_names V K) defaults Hnd).
  - exact (compile_from_unpack_list_refines V P K Hnd).
  - exact (compile_to_pack_list_refines V P K Hwf).
Qed.
Print Assumptions gen_generators_refine_model.

(* (2) vp_compile, translated as a straight-line program (signature -> defaults -> three exec -> four setattr), leaves
   exactly `compiled_class K` : __init__ := the generated constructor with the definition's own defaults evaluated in the
   globals handed to exec, __match_args__ := names, from_unpack_list := the generated function bound to this class,
   to_pack_list := the generated function.  Its only input is the class. *)
Theorem vp_compile_is_compiled_class : forall V (P : rtp V) K,
  wf_cls V P K = true -> g_vp_compile V P K = Ok (compiled_class V P K).
Proof. exact vp_compile_refines. Qed.
Print Assumptions vp_compile_is_compiled_class.

(* ... whose three methods are exactly the evaluators of the generated functions of M20_vp *)
Theorem compiled_methods_are_generated_evaluators : forall V (P : rtp V) K,
  (forall args kwargs,
     call_init V P (compiled_class V P K) args kwargs =
     eval_init V V (fun v => Ok v) (gen_init (c_names V K) (own_defaults V P K)) args kwargs) /\
  (forall o, call_to_pack V (compiled_class V P K) o = eval_to_pack V (c_hook_pack V K) (gen_pack (defn_of V K)) o) /\
  (forall args,
     call_from_unpack V P (compiled_class V P K) args =
     eval_from_unpack V (is_none V P) (c_hook_unpack V K) V (fun v => Ok v)
       (gen_init (c_names V K) (own_defaults V P K)) (gen_unpack (defn_of V K)) args).
Proof.
  intros V P K. split; [|split].
  - exact (compiled_init_is_eval V P K).
  - exact (compiled_to_pack_is_eval V P K).
  - exact (compiled_from_unpack_is_eval V P K).
Qed.
Print Assumptions compiled_methods_are_generated_evaluators.

(* ... with `defaults` = the definition's own defaults, each attached to its own name: name n has default v in the
   compiled constructor iff parameter n of the definition's constructor has default v (seed C20c zipped them reversed) *)
Theorem compiled_defaults_are_own : forall V (P : rtp V) K sig n v,
  sig_items V P (c_init V K) = Ok sig -> nodup_nat (map fst sig) = true ->
  (assoc_nat n (own_defaults V P K) = Some v <-> (assoc_nat n sig = Some v /\ is_empty V P v = false)).
Proof. exact own_defaults_are_own. Qed.
Print Assumptions compiled_defaults_are_own.

(* ... and the result depends on nothing but the definition: two classes with the same names, formats, hooks, identity
   and own defaults get the same four attributes, whatever they held before (seed C20d: a module-level cache keyed by
   shape - any module-level state aborts the translator) *)
Theorem compiled_depends_on_definition_only : forall V (P : rtp V) K1 K2,
  c_names V K1 = c_names V K2 -> c_fmts V K1 = c_fmts V K2 -> c_fixpack V K1 = c_fixpack V K2 ->
  c_fixunpack V K1 = c_fixunpack V K2 -> c_id V K1 = c_id V K2 -> own_defaults V P K1 = own_defaults V P K2 ->
  c_init V (compiled_class V P K1) = c_init V (compiled_class V P K2) /\
  c_from_unpack V (compiled_class V P K1) = c_from_unpack V (compiled_class V P K2) /\
  c_to_pack V (compiled_class V P K1) = c_to_pack V (compiled_class V P K2) /\
  c_match_args V (compiled_class V P K1) = c_match_args V (compiled_class V P K2).
Proof. exact compiled_depends_on_definition_only. Qed.
Print Assumptions compiled_depends_on_definition_only.

(* compiling a compiled class again (DataClassPayload.__new__ does so on every allocation) changes nothing *)
Theorem recompilation_stable : forall V (P : rtp V) K,
  rtp_ok V P -> wf_cls V P K = true -> mem (self_name V P) (c_names V K) = false ->
  g_vp_compile V P (compiled_class V P K) = Ok (compiled_class V P K).
Proof. exact recompilation_stable_l. Qed.
Print Assumptions recompilation_stable.

(* (3) type_map, translated, is M20_vp.type_map - results and raised exceptions - whenever the fuel exceeds the nesting *)
Theorem type_map_refines_model : forall V (P : rtp V) fuel t,
  (ty_depth t < fuel)%nat -> g_type_map V P fuel t = M20_vp.type_map t.
Proof. exact type_map_refines. Qed.
Print Assumptions type_map_refines_model.

Theorem type_from_format_roundtrip : forall V (P : rtp V) fuel f t,
  g_type_from_format V P f = Ok t -> g_type_map V P (S fuel) t = Ok (TFname f).
Proof. exact type_map_of_type_from_format. Qed.
Print Assumptions type_from_format_roundtrip.

(* dataclass_equals_plain: for a supported annotation list the converted class has names = field names in order,
   format_list = type_map of the annotations, msg_id set for the WID variant, hooks untouched, and IS vp_compile of that
   definition (compiled_class) with the constructor @dataclass wrote put back (converted_class; repo fix 6a7d3ef - before
   it the compiled constructor stayed and a default_factory field was left holding dataclasses' factory marker); the
   module attribute is rebound to the class *)
Theorem dataclass_equals_plain : forall V (P : rtp V) FUEL W K mid tfs,
  Forall2 (supported V FUEL K) (c_dc_fields V K) tfs ->
  wf_cls V P (dc_definition V K mid tfs) = true ->
  let D := dc_definition V K mid tfs in
  g_convert_to_payload V P FUEL W K mid =
    Ok (world_set V W (c_module V K) (c_name V K) (converted_class V P K mid tfs), converted_class V P K mid tfs)
  /\ c_names V D = map fst (c_dc_fields V K)
  /\ c_fmts V D = map fk_of_tfmt tfs
  /\ c_msg_id V D = match mid with Some z => Some z | None => c_msg_id V K end
  /\ c_fixpack V D = c_fixpack V K /\ c_fixunpack V D = c_fixunpack V K /\ c_init V D = c_init V K.
Proof. exact dataclass_equals_plain_l. Qed.
Print Assumptions dataclass_equals_plain.

(* ... its defaults are the dataclass field defaults (the constructor @dataclass wrote: dc_wf) *)
Theorem dataclass_defaults_are_field_defaults : forall V (P : rtp V) K mid tfs,
  rtp_ok V P -> dc_wf V P K ->
  own_defaults V P (dc_definition V K mid tfs) = filter (fun kv => negb (is_empty V P (snd kv))) (c_dc_fields V K).
Proof. exact dataclass_defaults_l. Qed.
Print Assumptions dataclass_defaults_are_field_defaults.

(* ... so it behaves like the compiled form of the plain definition (field names, formats, field defaults): the constructor
   binds exactly as the generated one (M20_vp.eval_init over gen_init) with an omitted parameter getting run_default of
   its field's default - the default itself, or a FRESH result of the default_factory; pack and unpack are the generated
   functions' evaluators.  With props/C20.v (defaults_render_faithfully, compiled_*_equals_interpreted) this is the plain
   interpreted definition's behaviour. *)
Theorem converted_dataclass_behaves_like_its_definition : forall V (P : rtp V) K mid tfs,
  rtp_ok V P -> dc_wf V P K -> nodup_b (map fst (c_dc_fields V K)) = true ->
  let D := dc_definition V K mid tfs in
  (forall args kwargs,
     call_init V P (converted_class V P K mid tfs) args kwargs =
     eval_init V V (run_default V P) (gen_init (c_names V D) (own_defaults V P D)) args kwargs) /\
  (forall o, call_to_pack V (converted_class V P K mid tfs) o = eval_to_pack V (c_hook_pack V K) (gen_pack (defn_of V D)) o) /\
  (forall args,
     call_from_unpack V P (converted_class V P K mid tfs) args =
     eval_from_unpack V (is_none V P) (c_hook_unpack V K) V (run_default V P)
       (gen_init (c_names V D) (own_defaults V P D)) (gen_unpack (defn_of V D)) args).
Proof.
  intros V P K mid tfs Hr Hw Hnd D. split; [|split].
  - intros. exact (converted_init_l V P K mid tfs args kwargs Hr Hw Hnd).
  - intros. exact (converted_to_pack_l V P K mid tfs o).
  - intros. exact (converted_from_unpack_l V P K mid tfs args Hr Hw Hnd).
Qed.
Print Assumptions converted_dataclass_behaves_like_its_definition.

(* every allocation converts again (DataClassPayload.__new__): the second and later conversions change nothing *)
Theorem reallocation_stable : forall V (P : rtp V) FUEL W K mid tfs,
  Forall2 (supported V FUEL K) (c_dc_fields V K) tfs ->
  wf_cls V P (dc_definition V K mid tfs) = true ->
  (mid = None \/ mid = c_msg_id V (dc_definition V K mid tfs)) ->
  let C := converted_class V P K mid tfs in
  g_convert_to_payload V P FUEL W C mid = Ok (world_set V W (c_module V K) (c_name V K) C, C).
Proof. exact reallocation_stable_l. Qed.
Print Assumptions reallocation_stable.

(* an unsupported annotation: convert_to_payload raises exactly what type_map raises for the first such field *)
Theorem convert_unsupported_raises : forall V (P : rtp V) FUEL W K mid pre fld post tfs t e,
  c_dc_fields V K = pre ++ fld :: post -> Forall2 (supported V FUEL K) pre tfs ->
  assoc_nat (fst fld) (c_hints V K) = Some t -> (ty_depth t < FUEL)%nat -> M20_vp.type_map t = Raise e ->
  g_convert_to_payload V P FUEL W K mid = Raise e.
Proof. exact convert_unsupported_l. Qed.
Print Assumptions convert_unsupported_raises.

(* DataClassPayload.__new__ / DataClassPayloadWID.__new__: a fresh object, the class converted (again) on the way *)
Theorem dataclass_new_converts : forall V (P : rtp V) FUEL W K,
  DataClassPayload___new__ V P FUEL W K = (do r <- g_convert_to_payload V P FUEL W K None; Ok (fst r, snd r, object_new V)) /\
  DataClassPayloadWID___new__ V P FUEL W K =
  match c_msg_id V K with
  | Some z => do r <- g_convert_to_payload V P FUEL W K (Some z); Ok (fst r, snd r, object_new V)
  | None => Raise TypeError
  end.
Proof. intros. split; [exact (dataclass_new_l V P FUEL W K)|exact (dataclass_wid_new_l V P FUEL W K)]. Qed.
Print Assumptions dataclass_new_converts.

(* The chain (1) + (2) + props/C20.v: the compiled class - hence the converted dataclass - behaves like the TRANSLATED
   interpreted methods of the plain definition: same pack list, same instance from every decoded argument list (None
   guard as in C20), same fields from positional arguments. *)
Theorem compiled_behaves_like_translated_plain : forall V (P : rtp V) K,
  wf_defn (defn_of V K) = true ->
  (forall o, (do r <- call_to_pack V (compiled_class V P K) o; Ok (lift_pl V r)) = VariablePayload_to_pack_list V P K o) /\
  (forall args, List.length args = List.length (c_names V K) ->
     (forall n a, In (n, a) (combine (c_names V K) args) -> mem n (c_fixunpack V K) = true -> is_none V P a = false) ->
     (do fs <- call_from_unpack V P (compiled_class V P K) args; Ok (cls_set_match_args V K (c_names V K), fs)) =
     VariablePayload_from_unpack_list V P (fun K' a k => VariablePayload___init__ V P false K' (object_new V) a k) K args) /\
  (forall args, List.length args = List.length (c_names V K) ->
     (do fs <- call_init V P (compiled_class V P K) args []; Ok (cls_set_match_args V K (c_names V K), fs)) =
     VariablePayload___init__ V P false K (object_new V) args []).
Proof.
  intros V P K Hwf. split; [|split].
  - intros. exact (compiled_pack_like_interpreted_gen V P K o Hwf).
  - intros. exact (compiled_unpack_like_interpreted_gen V P K args Hwf H H0).
  - intros. exact (compiled_init_like_interpreted_gen V P K args Hwf H).
Qed.
Print Assumptions compiled_behaves_like_translated_plain.

(* ---- non-vacuity: a dataclass with three fields (int, List[Nested], type_from_format("I") defaulting to 7), WID 5 *)
Local Open Scope nat_scope.
Inductive xval := XNone | XEmpty | XFactory | XI (z : Z).
Definition xP : rtp xval :=
  mkRtp xval (fun v => match v with XNone => true | _ => false end) (fun v => match v with XEmpty => true | _ => false end)
        XEmpty 100 101 102 (fun v => match v with XFactory => Ok (XI 40%Z) | _ => Ok v end).
Definition xK : cls xval :=
  mkCls xval 1 2 3 [] [] [] [11] (fun _ v => v) (fun n v => match v with XI z => XI (z + 1)%Z | _ => v end) None
        (FUser xval [(100, XEmpty); (10, XEmpty); (11, XEmpty); (12, XI 7%Z); (13, XFactory)]) (MInherited) (FInherited) None
        [(10, XEmpty); (11, XEmpty); (12, XI 7%Z); (13, XFactory)] [(10, TInt); (11, TSeq (TClass 9)); (12, TVar 4); (13, TSeq TInt)].

Example c20x_nonvacuous :
  let tfs := [TFq; TFpayloadlist 9; TFname 4; TFarray TFq] in
  let D := dc_definition xval xK (Some 5%Z) tfs in
  Forall2 (supported xval 3 xK) (c_dc_fields xval xK) tfs /\ wf_cls xval xP D = true /\ dc_wf xval xP xK /\ rtp_ok xval xP /\
  own_defaults xval xP D = [(12, XI 7%Z); (13, XFactory)] /\
  (exists W' C, g_convert_to_payload xval xP 3 [] xK (Some 5%Z) = Ok (W', C) /\
     c_msg_id xval C = Some 5%Z /\ c_names xval C = [10; 11; 12; 13] /\
     c_fmts xval C = [KStr 0 false; KPayloadList 9; KStr 13 false; KStr 6 false] /\
     c_match_args xval C = Some [10; 11; 12; 13] /\
     call_init xval xP C [XI 1%Z; XI 2%Z] [] = Ok [(10, XI 1%Z); (11, XI 2%Z); (12, XI 7%Z); (13, XI 40%Z)] /\
     call_from_unpack xval xP C [XI 1%Z; XI 2%Z; XI 3%Z; XI 4%Z] = Ok [(10, XI 1%Z); (11, XI 3%Z); (12, XI 3%Z); (13, XI 4%Z)] /\
     call_to_pack xval C [(10, XI 1%Z); (11, XI 2%Z); (12, XI 7%Z); (13, XI 0%Z)] =
       Ok [(PStr 0, [XI 1%Z]); (PPayloadList, [XI 2%Z]); (PStr 13, [XI 7%Z]); (PStr 6, [XI 0%Z])] /\
     g_convert_to_payload xval xP 3 W' C (Some 5%Z) = Ok (W' ++ W', C)) /\
  g_convert_to_payload xval xP 3 [] (cls_set_names xval xK []) None <> Raise OutOfFuel /\
  VariablePayload___init__ xval xP false (dc_definition xval xK None tfs) (object_new xval) [XI 1%Z] [(12, XI 3%Z); (11, XI 2%Z)]
    = Raise KeyError /\
  VariablePayload___init__ xval xP false (dc_definition xval xK None tfs) (object_new xval) [XI 1%Z] [(13, XI 4%Z); (12, XI 3%Z); (11, XI 2%Z)]
    = Ok (cls_set_match_args xval (dc_definition xval xK None tfs) [10; 11; 12; 13], [(10, XI 1%Z); (11, XI 2%Z); (12, XI 3%Z); (13, XI 4%Z)]).
Proof.
  cbv zeta. split; [|split; [|split; [|split; [|split; [|split; [|split; [|split]]]]]]].
  - repeat constructor; eexists; (split; [reflexivity|split; [reflexivity|cbn; auto with arith]]).
  - vm_compute. reflexivity.
  - reflexivity.
  - reflexivity.
  - vm_compute. reflexivity.
  - eexists. eexists. split; [vm_compute; reflexivity|]. vm_compute. repeat split.
  - vm_compute. discriminate.
  - vm_compute. reflexivity.
  - vm_compute. reflexivity.
Qed.
