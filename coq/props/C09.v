(* C09 - tunnel state is always reclaimed, whatever gets lost.  Property theorems only.

   Model: model/M09_reclaim.v (one tunnel node with time; events carry the time, the oracle outcomes of
   cryptography / randomness / candidate choice, and are otherwise unconstrained: every pattern of lost,
   duplicated, reordered or delayed messages is some event list).  The decision rules and constants are
   regenerated from the source on every run (gen/G09_rules.v).
   `timely` is the assumption on the event loop: interval tasks, sleeps and cache time-outs fire on time and
   tasks created by ensure_future run before the clock moves (checked on every observed history). *)
From Coq Require Import ZArith List Bool.
From IPV8V Require Import gen.G09_rules model.M09_reclaim model.M09_harness spec.S09_reclaim
  proofs.P09_sweep proofs.P09_main proofs.P09_props proofs.P09_more proofs.P09_frames proofs.P09_count.
Import ListNotations.
Open Scope Z_scope.

(* sweep_sound, rule level: the if/elif chains translated from do_remove decide exactly the documented
   verdicts (inactive / too old / over the traffic limit, in that order, destroy only for the last). *)
Theorem sweep_rules_meet_spec : forall st tnow,
  (forall c, circ_rule st tnow c = circuit_verdict st tnow c)
  /\ (forall r, relay_rule st tnow r = relay_verdict st tnow r)
  /\ (forall e, exit_rule st tnow e = exit_verdict st tnow e).
Proof. exact rules_meet_spec_l. Qed.
Print Assumptions sweep_rules_meet_spec.

(* sweep_sound, state level: one sweep queues exactly the removals the specification lists - table by
   table, in table order - and touches nothing else. *)
Theorem sweep_sound : forall st s,
  starts (sweep st s) = starts s ++ sweep_spec st s
  /\ circuits (sweep st s) = circuits s /\ relays (sweep st s) = relays s /\ exits (sweep st s) = exits s
  /\ sleeping (sweep st s) = sleeping s /\ last_sweep (sweep st s) = now s.
Proof. exact sweep_sound_l. Qed.
Print Assumptions sweep_sound.

(* the interval task that carries the sweep: do_circuits first tries to meet the node's own demand for
   circuits (build_tunnels); for every number of rounds and every answer of create_circuit the call of
   do_remove at its end is reached - a demand that cannot be met never starves the sweep.  (The control
   skeleton of do_circuits is translated from the source: gen/G09_rules.v, dc_inner_body / dc_outer_body.) *)
Theorem sweep_task_always_sweeps : forall ds, do_circuits_sweeps ds = true.
Proof. exact do_circuits_sweeps_l. Qed.
Print Assumptions sweep_task_always_sweeps.

(* ... i.e. an entry is scheduled for removal by the sweep iff one of the conditions holds for it. *)
Theorem sweep_schedules_iff : forall st s cid dd rn,
  (In (DRemove KCirc cid dd rn) (sweep_spec st s) <->
     exists c b, In (cid, c) (circuits s) /\ circuit_verdict st (now s) c = Some b /\ dd = (if b then 1 else 0) /\ rn = false)
  /\ (In (DRemove KRelay cid dd rn) (sweep_spec st s) <->
     exists r b, In (cid, r) (relays s) /\ relay_verdict st (now s) r = Some b /\ dd = (if b then 1 else 0) /\ rn = false)
  /\ (In (DRemove KExit cid dd rn) (sweep_spec st s) <->
     exists e b, In (cid, e) (exits s) /\ exit_verdict st (now s) e = Some b /\ dd = (if b then 1 else 0) /\ rn = false).
Proof. exact sweep_schedules_iff_l. Qed.
Print Assumptions sweep_schedules_iff.

(* bounded_reclaim, joined nodes: after ANY history of events (any loss / duplication / reordering, any
   interleaving of handshakes, destroys, data, timers, API calls) that the event loop served on time, a relay
   route that is still in the table at time t was active within the last
   B_entry = max_time_inactive + sweep interval + remove_tunnel_delay. *)
Theorem relay_bounded_reclaim : forall st, settings_ok st -> forall t0 tr t cid r,
  timely st (init_node t0) tr = true ->
  let s := fst (run st (init_node t0) tr) in
  on_time st s t = true -> aget cid (relays s) = Some r -> t <= la (r_ro r) + B_entry st.
Proof. exact relay_reclaim_l. Qed.
Print Assumptions relay_bounded_reclaim.

(* the same for exit sockets *)
Theorem exit_bounded_reclaim : forall st, settings_ok st -> forall t0 tr t cid e,
  timely st (init_node t0) tr = true ->
  let s := fst (run st (init_node t0) tr) in
  on_time st s t = true -> aget cid (exits s) = Some e -> t <= la (e_ro e) + B_entry st.
Proof. exact exit_reclaim_l. Qed.
Print Assumptions exit_bounded_reclaim.

(* bounded_reclaim, originator: a circuit still in the table at time t is within
   max(last activity + max_time_inactive + sweep, creation + next_hop_timeout * (tries + goal_hops - 1))
   + remove_tunnel_delay - whatever state it is in (half-built with retries pending, ready, closing). *)
Theorem circuit_bounded_reclaim : forall st, settings_ok st -> forall t0 tr t cid c,
  timely st (init_node t0) tr = true ->
  let s := fst (run st (init_node t0) tr) in
  on_time st s t = true -> aget cid (circuits s) = Some c -> t <= circuit_deadline st c.
Proof. exact circuit_reclaim_l. Qed.
Print Assumptions circuit_bounded_reclaim.

(* read as reclamation: if the entries of an id (if any are left) were last active at or before t_quiet,
   then once t_quiet + B_entry has passed the node holds nothing for that id. *)
Theorem node_reclaimed : forall st, settings_ok st -> forall t0 tr t t_quiet cid,
  timely st (init_node t0) tr = true ->
  let s := fst (run st (init_node t0) tr) in
  on_time st s t = true ->
  (forall r, aget cid (relays s) = Some r -> la (r_ro r) <= t_quiet) ->
  (forall e, aget cid (exits s) = Some e -> la (e_ro e) <= t_quiet) ->
  (forall c, aget cid (circuits s) = Some c -> circuit_deadline st c <= t_quiet + B_entry st) ->
  t_quiet + B_entry st < t ->
  holds_id s cid = false.
Proof. exact node_reclaimed_l. Qed.
Print Assumptions node_reclaimed.

(* destroy_shortcut: an authenticated destroy from the adjacent peer queues the removal of the entry (both
   directions of a relay, with the destroy forwarded along the first) at that moment ... *)
Theorem destroy_schedules_relay : forall s src cid reason nxt prev,
  aget cid (relays s) = Some nxt -> aget (r_next nxt) (relays s) = Some prev -> src = r_peer prev ->
  recv_destroy s src cid reason
  = defer (DRemove KRelay (r_next nxt) 0 false) (defer (DRemove KRelay cid reason false) s).
Proof. exact destroy_relay_l. Qed.
Print Assumptions destroy_schedules_relay.

Theorem destroy_schedules_exit : forall s src cid reason e,
  relay_adjacent s src cid = false -> aget cid (exits s) = Some e -> src = e_peer e ->
  recv_destroy s src cid reason = defer (DRemove KExit cid 0 false) s.
Proof. exact destroy_exit_l. Qed.
Print Assumptions destroy_schedules_exit.

Theorem destroy_schedules_circuit : forall s src cid reason c,
  relay_adjacent s src cid = false -> exit_adjacent s src cid = false ->
  aget cid (circuits s) = Some c -> src = c_first c ->
  recv_destroy s src cid reason = defer (DRemove KCirc cid 0 false) s.
Proof. exact destroy_circuit_l. Qed.
Print Assumptions destroy_schedules_circuit.

(* ... a destroy from anybody else changes nothing ... *)
Theorem destroy_from_stranger_is_noop : forall s src cid reason,
  relay_adjacent s src cid = false -> exit_adjacent s src cid = false -> circuit_adjacent s src cid = false ->
  recv_destroy s src cid reason = s.
Proof. exact destroy_foreign_l. Qed.
Print Assumptions destroy_from_stranger_is_noop.

(* ... the queued task forwards the destroy to the next hop and sleeps for remove_tunnel_delay only
   (earlier than the inactivity bound), and when it wakes the entry is gone. *)
Theorem destroy_propagates_and_sleeps : forall st s cid destroy rn r,
  aget cid (relays s) = Some r -> 0 < s_remove_delay st ->
  start_remove st s KRelay cid destroy rn
  = (set_sleeping (sleeping s ++ [(now s + s_remove_delay st, KRelay, cid)]) s,
     if destroy =? 0 then [] else [ODestroy (r_peer r) (r_next r) destroy]).
Proof. exact start_remove_relay_l. Qed.
Print Assumptions destroy_propagates_and_sleeps.

Theorem removal_task_deletes : forall s k cid,
  let s' := fst (finish_remove s k cid) in
  match k with
  | KCirc => aget cid (circuits s') = None
  | KRelay => aget cid (relays s') = None
  | KExit => aget cid (exits s') = None
  end.
Proof. exact finish_remove_absent_l. Qed.
Print Assumptions removal_task_deletes.

(* the exit's outside sockets: finish_remove closes the transports of an enabled, opened socket ... *)
Theorem exit_socket_closed_on_removal : forall s cid e,
  aget cid (exits s) = Some e -> e_enabled e = true -> e_open e = true ->
  snd (finish_remove s KExit cid) = [OClose cid].
Proof. exact finish_remove_closes_l. Qed.
Print Assumptions exit_socket_closed_on_removal.

(* ... and nothing else makes an open socket disappear: over every history, an exit socket with open
   transports is either still in the table with open transports or the history closed them. *)
Theorem sockets_closed_when_dropped : forall st tr s,
  sockets_kept s (fst (run st s tr)) (snd (run st s tr)).
Proof. exact sockets_kept_run_l. Qed.
Print Assumptions sockets_closed_when_dropped.

(* activity_only_by_traffic: no entry appears and no activity stamp advances except while a cell is being
   processed (ERecvCell and the tasks it defers, ERun) or an own circuit is created - not by timers, destroys,
   the node's own pings / data, or datagrams from outside.  Hence "no traffic for this id after t_quiet" bounds
   every activity stamp of the id by t_quiet, which is what node_reclaimed asks for. *)
Theorem activity_only_by_traffic : forall st s e,
  is_traffic e = false -> no_activity s (fst (step_at st s e)).
Proof. exact quiet_events_no_activity_l. Qed.
Print Assumptions activity_only_by_traffic.

(* in particular datagrams from the outside world are not activity: whatever an outside peer keeps sending to
   the exit's ports, no entry of the node - the exit socket included - has its activity stamp advanced; only the
   byte counter of that exit socket moves.  (So an abandoned circuit's exit socket is reclaimed on schedule.) *)
Theorem outside_datagrams_never_refresh : forall st s cid len allowed ls,
  no_activity s (fst (step_at st s (EOutside cid len allowed ls))).
Proof. exact outside_no_activity_l. Qed.
Print Assumptions outside_datagrams_never_refresh.

Theorem outside_datagram_keeps_exit_stamp : forall st s cid len allowed ls e',
  aget cid (exits (fst (step_at st s (EOutside cid len allowed ls)))) = Some e' ->
  exists e, aget cid (exits s) = Some e /\ la (e_ro e') = la (e_ro e) /\ down (e_ro e') = down (e_ro e) + len.
Proof. exact outside_exit_stamp_l. Qed.
Print Assumptions outside_datagram_keeps_exit_stamp.

(* once a node has dropped its entries for an id, encrypted cells that name the id die there: nothing is
   forwarded, answered or changed (this is what ends the traffic downstream of a reclaimed hop) *)
Theorem unknown_id_is_dropped : forall st s src cid early len cr ls,
  aget cid (relays s) = None -> aget cid (circuits s) = None -> aget cid (exits s) = None ->
  recv_cell st s src cid false early len cr ls = (s, []).
Proof. exact unknown_id_dropped_l. Qed.
Print Assumptions unknown_id_is_dropped.

(* join_limit: the body of on_create changes the exit-socket table only if the node holds fewer than
   max_joined_circuits relay + exit entries and the id is not in use; at the limit it does nothing. *)
Theorem join_limit : forall st s src cid ident eo tg tc nb p ls,
  let s' := fst (run_deferred st s (DCreate src cid ident) eo tg tc nb p ls) in
  exits s' <> exits s ->
  zlen (relays s) + zlen (exits s) < s_max_joined st
  /\ ahas cid (circuits s) = false /\ ahas cid (relays s) = false /\ ahas cid (exits s) = false
  /\ ahas cid (createds s) = false
  /\ aget cid (exits s') = Some (mkExit (ro_new (now s)) src false false []).
Proof. exact join_limit_l. Qed.
Print Assumptions join_limit.

Theorem join_refused_at_limit : forall st s src cid ident eo tg tc nb p ls,
  s_max_joined st <= zlen (relays s) + zlen (exits s) ->
  run_deferred st s (DCreate src cid ident) eo tg tc nb p ls = (s, []).
Proof. exact join_refused_at_limit_l. Qed.
Print Assumptions join_refused_at_limit.

(* relay_early_budget, relay: a cell is forwarded only through the budget test - a flagged cell only while
   the route's counter is below max_relay_early - and every forwarded cell increments the counter
   (which starts at RELAY_EARLY_INIT = 1 for the extend that created the route). *)
Theorem relay_early_budget_relay : forall st s src cid plain early len cr ls nxt,
  aget cid (relays s) = Some nxt ->
  let '(s', o) := recv_cell st s src cid plain early len cr ls in
  o = [] \/
  (o = [OCell (r_peer nxt) (r_next nxt) early 0] /\ plain = false
   /\ (early = true -> r_early nxt < s_max_early st)
   /\ exists nxt', aget cid (relays s') = Some nxt' /\ r_early nxt' = r_early nxt + 1).
Proof. exact relay_forward_l. Qed.
Print Assumptions relay_early_budget_relay.

(* ... and over every event the counter of a live route never goes down (a route either continues one of
   the previous state with a counter at least as large, or was created at this very moment) ... *)
Theorem relay_early_counter_monotone : forall st s e, routes_cont s (fst (step_at st s e)).
Proof. exact routes_step_l. Qed.
Print Assumptions relay_early_counter_monotone.

(* ... so that during the whole life of a route (any history) the number of relay_early cells forwarded on
   it, added to its initial counter, never exceeds max_relay_early: at most max_relay_early - 1 for a route
   created with RELAY_EARLY_INIT = 1. *)
Theorem relay_early_budget : forall st cid c0 tr s r0,
  aget cid (relays s) = Some r0 -> creation (r_ro r0) = c0 -> route_lives st cid c0 s tr ->
  r_early r0 + fw_count st cid s tr <= Z.max (r_early r0) (s_max_early st).
Proof. exact relay_early_count_l. Qed.
Print Assumptions relay_early_budget.

(* relay_early_budget, originator: a non-extend cell is flagged only while the circuit's counter is below
   max_relay_early, and every flagged cell increments it. *)
Theorem relay_early_budget_origin : forall st s dst cid mid ls c,
  aget cid (circuits s) = Some c ->
  let '(s', o, _) := send_cell st s dst cid mid ls in
  let early := origin_marks_early mid (c_early c) (s_max_early st) in
  o = [OCell dst cid early mid]
  /\ (early = true -> mid <> MSG_EXTEND -> c_early c < s_max_early st)
  /\ exists c', aget cid (circuits s') = Some c' /\ c_early c' = (if early then c_early c + 1 else c_early c).
Proof. exact origin_send_l. Qed.
Print Assumptions relay_early_budget_origin.

(* ------------------------------------------------------------------ non-vacuity *)
(* the shipped settings meet the hypotheses, and the bounds they give (seconds) *)
Example c09_defaults_ok :
  B_entry (default_settings 1) = 30 /\ build_bound (default_settings 1) 3 = 80
  /\ tries0 (default_settings 1) = 6
  /\ (0 <=? s_max_inactive (default_settings 1)) && (0 <? s_next_hop_timeout (default_settings 1))
     && (s_next_hop_timeout (default_settings 1) <=? s_circuit_timeout (default_settings 1)) = true.
Proof. vm_compute. repeat split; reflexivity. Qed.

(* a route with max_relay_early = 3 receives five flagged cells: two are forwarded (counter 1 -> 3) *)
Example c09_relay_early_enforced :
  let st := mkSettings 100 3600 20 1000000 60 60 10 5 3 5 10 true true in
  let r := mkRelay (mkRo 0 0 0 0) 2 8 true RELAY_EARLY_INIT in
  let b := mkRelay (mkRo 0 0 0 0) 1 7 false RELAY_EARLY_INIT in
  let s := mkNode 0 0 [] [(1, r); (2, b)] [] [] [] [] [] [] in
  let tr := map (fun t => (t, ERecvCell 7 1 false true 100 (COk (MOther 0)) [100])) [1; 2; 3; 4; 5] in
  fw_count st 1 s tr = 2 /\ route_lives st 1 0 s tr.
Proof. vm_compute. repeat split; try reflexivity; eexists; split; reflexivity. Qed.

(* a properly timed history on a relay-to-be: create, extend, created, data relayed, the originator goes
   silent; sweeps every 5 s; the relay routes are condemned at the first sweep after 20 s of silence and
   are gone 5 s later - here at t = 30 - and the history is `timely` *)
Example c09_relay_reclaimed :
  let st := default_settings 1 in
  let tr := [(0, ESweep);
             (1, ERecvCell 7 1 true true 100 (COk (MCreate 11)) []);
             (1, ERun 0 false 0 0 0 np [200]);
             (2, ERecvCell 7 1 false true 100 (COk (MExtend 12)) []);
             (2, ERun 0 true 8 2 13 np [100]);
             (3, ERecvCell 8 2 true false 200 (COk (MCreated 13 VOk np)) [210]);
             (3, ERun 0 false 0 0 0 np []);
             (4, ERecvCell 7 1 false true 120 (COk (MOther 0)) [110]);
             (5, ESweep); (8, EWake 0); (10, ESweep); (15, ESweep); (20, ESweep); (25, ESweep);
             (25, ERun 0 false 0 0 0 np []); (25, ERun 0 false 0 0 0 np []);
             (30, EWake 0); (30, EWake 0); (30, ESweep)] in
  timely st (init_node 0) tr = true
  /\ relays (fst (run st (init_node 0) (firstn 16 tr))) <> []
  /\ relays (fst (run st (init_node 0) tr)) = [] /\ exits (fst (run st (init_node 0) tr)) = [].
Proof. vm_compute. repeat split; try reflexivity. discriminate. Qed.
