(* C13 (extension) - the introducer need not be a public host.  Property theorems only. *)
From Coq Require Import ZArith List Bool.
From IPV8V Require Import lib.PyErr gen.G13_lan model.M13_nat model.M13_scenario
  proofs.P13_proto proofs.P13_nat proofs.P13x_nat proofs.P13_sweeplib proofs.P13x_defs proofs.P13x_scenario.
Import ListNotations.
Open Scope Z_scope.

(* ---------------------------------------------------------------------------------- NAT state, all networks *)

(* A filter entry is only ever added by outbound traffic of a host of that very site; it names that host's
   external port and the packet's destination.  Inbound packets, LAN traffic and other sites' traffic never
   open anything. *)
Theorem filter_only_by_outbound : forall n hid dst n' oc t' e,
  net_wf n -> route n hid dst = (n', oc) -> In t' (sites n') -> In e (s_filt t') ->
  (exists t, In t (sites n) /\ s_id t = s_id t' /\ In e (s_filt t))
  \/ (exists h, find_host n hid = Some h /\ h_site h = s_id t' /\ is_open (s_type t') = false /\
                snd e = dst /\ external n' hid = Some (s_pub t', fst e)).
Proof. exact filter_only_by_outbound_l. Qed.
Print Assumptions filter_only_by_outbound.

(* A mapping is only ever created by an outbound packet of the host it belongs to (and then is that host's
   external address; external_address_stable in C13.v: it never changes afterwards). *)
Theorem mapping_only_by_own_outbound : forall n hid dst n' oc t' a p,
  net_wf n -> route n hid dst = (n', oc) -> In t' (sites n') -> In (a, p) (s_maps t') ->
  (exists t, In t (sites n) /\ s_id t = s_id t' /\ In (a, p) (s_maps t))
  \/ (exists h, find_host n hid = Some h /\ h_site h = s_id t' /\ a = h_lan h /\
                external n' hid = Some (s_pub t', p)).
Proof. exact mapping_only_by_own_outbound_l. Qed.
Print Assumptions mapping_only_by_own_outbound.

(* a send never touches the tables of another site *)
Theorem other_sites_untouched : forall n hid h dst n' oc t',
  net_wf n -> find_host n hid = Some h -> route n hid dst = (n', oc) -> In t' (sites n') ->
  s_id t' <> h_site h -> In t' (sites n).
Proof. exact other_sites_untouched_l. Qed.
Print Assumptions other_sites_untouched.

(* whatever is delivered over the internet went to a public host or passed the filter of the NAT box it was
   addressed to, unaltered in its source (converse of punctured_pair_passes; any network) *)
Theorem delivered_was_solicited : forall n src dst hid src',
  internet n src dst = Deliver hid src' ->
  src' = src /\
  ((exists h, In h (hosts n) /\ h_id h = hid /\ h_lan h = dst /\ is_open (site_type n (h_site h)) = true)
   \/ (exists s lan, In s (sites n) /\ is_open (s_type s) = false /\ s_pub s = fst dst /\
                     map_rev (snd dst) (s_maps s) = Some lan /\
                     filter_ok (s_type s) (s_filt s) (snd dst) src = true)).
Proof. exact delivered_was_solicited_l. Qed.
Print Assumptions delivered_was_solicited.

(* ---------------------------------------------------------------------------------- the enlarged scenario space *)

(* The introducer B is no longer a public host everybody walks to.  It sits
     - at a site of its own of any of the four types (BOwn t), or
     - at the requester's site (BWithA), or
     - at the introduced peer's site (BWithC pos)           [placed]
   and is known to the others only through a public rendezvous tracker R: B registers at R; whoever asks R
   is introduced to B, R asks B to puncture, and the asker walks to the addresses R handed out.  So the
   mapping of B at its NAT and the filter entries for requester and candidates exist because of B's own
   earlier outbound traffic (filter_only_by_outbound) - they are produced by the scripted history, not assumed.
   Candidates reach B that way (B learns them from their request) or are introduced to B by the tracker T
   (B learns them from their response).  The requester asks R, walks to what R handed out - B's answer is the
   response under test - and then to what B handed out.  Swept: 4 x 4 NAT types of requester and introduced
   peer, same/own site, acquisition, both styles of the candidate's and of the requester's request (the
   latter is the style R passes on for B), k in {1, 3} candidates and every position, 6 placements of B:
   6144 configurations (k = 2, 4, 5 are run on the implementation and compared with the model by the check's
   thorough tier, not swept in the kernel: coqchk re-evaluates every sweep without the VM).

   blind_simple: B shares a NAT box (not merely a public machine) with exactly one of requester and
   introduced peer.  Outside that case everything C13.cone_reachability states holds again. *)
Theorem nat_introducer_reachability : forall bp tA tC same resp newC styleA k pos,
  placed bp pos -> (k = 1 \/ k = 3)%nat -> (pos < k)%nat ->
  blind_simple bp tA tC same = false ->
  let g := cfg_forx bp tA (mkCand tC same resp newC false false) styleA k pos in
  let o := run_scn g in
  introduced_peer o = Some (cand_id pos) /\
  verdict_of g o = all_true /\
  In (cand_id pos) (peers_of o ID_A) /\ In ID_A (peers_of o (cand_id pos)) /\
  (same = true -> contacts o = [(host_lan g (cand_id pos), Deliver (cand_id pos) (host_lan g ID_A))]).
Proof. exact nat_introducer_reachability_l. Qed.
Print Assumptions nat_introducer_reachability.

(* The boundary, exactly: when B shares a NAT box with exactly one of the two parties it has seen that party
   only under its LAN address (it arrived over the LAN) and the protocol gives B no other source for its
   external address (source_wan_address of a request is not used).  B's response still introduces the
   candidate and the puncture-request still leaves in the same step and arrives - but
     * B at the introduced peer's box: B hands out the peer's LAN address as its WAN address; a requester
       elsewhere never reaches it;
     * B at the requester's box: the puncture-request names the requester's LAN address as WAN walker; an
       introduced peer elsewhere punctures a private address, and behind a restricted NAT stays unreachable.
   `holds` is false for every such configuration of the swept space (kept visible; open finding). *)
Theorem blind_introducer_refuted : forall bp tA tC same resp newC styleA k pos,
  placed bp pos -> (k = 1 \/ k = 3)%nat -> (pos < k)%nat ->
  blind_simple bp tA tC same = true ->
  let g := cfg_forx bp tA (mkCand tC same resp newC false false) styleA k pos in
  let o := run_scn g in
  introduced_peer o = Some (cand_id pos) /\
  holds g o = false /\
  v_puncture_req (verdict_of g o) = true /\
  (v_puncture (verdict_of g o) = false \/ v_request (verdict_of g o) = false \/ v_mutual (verdict_of g o) = false).
Proof. exact blind_introducer_refuted_l. Qed.
Print Assumptions blind_introducer_refuted.

(* blind_simple is the closed form, on the swept configurations, of the site comparison b_blind that the
   harness evaluates on the layout *)
Theorem b_blind_closed_form : forall bp tA tC same resp newC styleA k pos,
  placed bp pos -> (k = 1 \/ k = 3)%nat -> (pos < k)%nat ->
  b_blind (cfg_forx bp tA (mkCand tC same resp newC false false) styleA k pos) (cand_id pos)
  = blind_simple bp tA tC same.
Proof. exact b_blind_closed_form_l. Qed.
Print Assumptions b_blind_closed_form.

(* the enlarged scenario networks are well formed and stay so: the general NAT theorems apply throughout *)
Theorem scenario_nets_wfx : forall bp tA tC same resp newC styleA k pos ops,
  placed bp pos -> (k = 1 \/ k = 3)%nat -> (pos < k)%nat ->
  net_wf (w_net (run_ops (mk_world (cfg_forx bp tA (mkCand tC same resp newC false false) styleA k pos)) ops)).
Proof. exact scenario_nets_wfx_l. Qed.
Print Assumptions scenario_nets_wfx.

(* ---------------------------------------------------------------------------------- non-vacuity *)
(* everybody behind a port-restricted NAT of its own, introducer included *)
Definition gx_pr : cfg := cfg_forx (BOwn PortRestricted) PortRestricted (mkCand PortRestricted false false false false false) false 1 0.

Example c13x_all_port_restricted :
  verdict_of gx_pr (run_scn gx_pr) = all_true
  /\ external (w_net (run_scenario gx_pr)) ID_B = Some (ip4 5 0 0 2, 20200)
  /\ existsb (fun e => match e with Ev 1 _ (Punct _ _ _ _ _) (Drop Filtered) => true | _ => false end)
             (o_events (run_scn gx_pr)) = true.
Proof. vm_compute. repeat split; reflexivity. Qed.

(* all three behind one NAT box: everything goes LAN address to LAN address *)
Example c13x_one_lan :
  let g := cfg_forx BWithA AddrRestricted (mkCand Open true false false false false) false 1 0 in
  blind_simple BWithA AddrRestricted Open true = false
  /\ contacts (run_scn g) = [((ip4 192 168 1 13, 8003), Deliver 3 (ip4 192 168 1 12, 8002))].
Proof. vm_compute. split; reflexivity. Qed.

(* the blind case: B behind the introduced peer's NAT hands out 192.168.1.13:8003 as WAN address *)
Example c13x_blind_witness :
  let g := cfg_forx (BWithC 0) Open (mkCand FullCone false false false false false) false 1 0 in
  blind_simple (BWithC 0) Open FullCone false = true
  /\ contacts (run_scn g) = [((ip4 192 168 1 13, 8003), Drop NoRoute)]
  /\ holds g (run_scn g) = false.
Proof. vm_compute. repeat split; reflexivity. Qed.
