(* C10 (extension) - the request cache as RUN FROM THE SOURCE.  The bodies of RequestCache.add / has / get / pop /
   passthrough / _on_timeout / clear / shutdown, NumberCache.__init__ (+ prefix / number properties) and
   RandomNumberCache.find_unclaimed_identifier are regenerated on every run by tools/tr/tr_reqcache.py as programs
   (gen/G10_reqcache.v) of the language of model/M10_lang.v; model/M10_reqcache_gen.v runs the model's operations
   through its interpreter.  The theorems below state that this computes exactly the hand model
   model/M10_reqcache.v, so every theorem of props/C10.v is a theorem about the translated source.
   Property theorems only. *)
From Coq Require Import ZArith List Bool Arith.
From IPV8V Require Import lib.PyErr model.M10_reqcache spec.S10_reqcache proofs.P10_reqcache
  model.M10_lang gen.G10_reqcache model.M10_reqcache_gen proofs.P10_reqcache_gen.
Import ListNotations.
Open Scope Z_scope.

(* For every population whose callbacks are expressible (cfg_ok) and every list of operations expressible through
   the Python signatures (op_ok: passthrough() cannot be handed an empty filter list; the random search draws
   between 1 and 1000 numbers): running the translated functions yields the same final state and the same
   observations as the hand model - including pops / adds / clear issued from inside on_timeout. *)
Theorem gen_refines_hand_model : forall cfg ops,
  cfg_ok cfg = true -> forallb op_ok ops = true ->
  grun cfg (init cfg) ops = run cfg (init cfg) ops.
Proof. exact gen_refines_hand_model_l. Qed.
Print Assumptions gen_refines_hand_model.

(* One step, from any reachable state. *)
Theorem gen_refines_step : forall cfg ops o,
  cfg_ok cfg = true -> op_ok o = true ->
  let s := fst (run cfg (init cfg) ops) in gstep cfg s o = step cfg s o.
Proof. exact gen_refines_step_l. Qed.
Print Assumptions gen_refines_step.

(* The synchronous calls (add, pop, retrieve_cache, has, get, constructor, find_unclaimed_identifier, clear,
   passthrough enter / exit) agree in EVERY state, reachable or not. *)
Theorem gen_refines_sync_ops : forall cfg s b, bop_ok b = true -> gstep_b cfg s b = step_b cfg s b.
Proof. exact gen_refines_sync_ops_l. Qed.
Print Assumptions gen_refines_sync_ops.

(* RequestCache._on_timeout as translated (release the identifier, release the task, call on_timeout, complete the
   futures - in the order of the source) is the model's `fire`. *)
Theorem gen_on_timeout_refines : forall cfg ops c,
  cfg_ok cfg = true ->
  let s := fst (run cfg (init cfg) ops) in gfire cfg s c = fire cfg s c.
Proof. exact gen_fire_refines_l. Qed.
Print Assumptions gen_on_timeout_refines.

(* The delegation branch of pop / has / get: a cache class as prefix behaves as its `name`. *)
Theorem gen_pop_by_class : forall cfg s tag p n,
  let a := gcall cfg no_cb 2 g_pop s [VClass tag p; VInt n] [] in
  let b := gcall cfg no_cb 2 g_pop s [VStr p; VInt n] [] in
  x_st (fst a) = x_st (fst b) /\ snd a = snd b.
Proof. exact gen_pop_by_class_l. Qed.
Print Assumptions gen_pop_by_class.

Theorem gen_has_get_by_class : forall cfg s tag p n,
  snd (gcall cfg no_cb 2 g_has s [VClass tag p; VInt n] []) = snd (gcall cfg no_cb 2 g_has s [VStr p; VInt n] []) /\
  snd (gcall cfg no_cb 2 g_get s [VClass tag p; VInt n] []) = snd (gcall cfg no_cb 2 g_get s [VStr p; VInt n] []).
Proof. exact gen_has_get_by_class_l. Qed.
Print Assumptions gen_has_get_by_class.

(* NumberCache.__init__: raises RuntimeError exactly for a taken identity and changes nothing; otherwise the new
   object's prefix / number properties are the arguments, i.e. the identifier add() computes from them is (p, n). *)
Theorem gen_numbercache_identity : forall cfg s p n,
  let r := gcall cfg no_cb 1 g_numbercache_init s [VNone; VStr p; VInt n] [] in
  x_st (fst r) = s /\
  match tbl_get (table s) (p, n) with
  | Some _ => snd r = ORaise RuntimeError
  | None => snd r = ONormal /\
            eval cfg (ghas_val cfg) s (x_env (fst r)) g_prop_prefix = Ok (VStr p) /\
            eval cfg (ghas_val cfg) s (x_env (fst r)) g_prop_number = Ok (VInt n) /\
            eval cfg (ghas_val cfg) s (x_env (fst r))
                 (XIdent g_prop_number g_prop_prefix) = Ok (VKey (p, n))
  end.
Proof. exact gen_numbercache_identity_l. Qed.
Print Assumptions gen_numbercache_identity.

(* The main property, transferred: over the translated functions every history satisfies `holds`. *)
Theorem gen_resolved_at_most_once : forall cfg ops,
  cfg_ok cfg = true -> forallb op_ok ops = true ->
  holds cfg [] false (events (snd (grun cfg (init cfg) ops))) = true.
Proof. exact gen_resolved_at_most_once_l. Qed.
Print Assumptions gen_resolved_at_most_once.

(* ---- non-vacuity: a history through every translated function, run from the generated programs ---- *)
Definition exx_cfg : list cache :=
  [ mkCache 0 1 2 [0] [SNone; SVal 7; SExc 3] [BPop 0 2; BAdd 1%nat];
    mkCache 0 2 2 [1] [SVal 5] [];
    mkCache 0 1 5 [2;1] [] [BAdd 2%nat] ].
Definition exx_ops : list op :=
  [OpB (BAdd 0%nat); OpB (BAdd 1%nat); OpB (BAdd 2%nat); OpB (BNew 0 1); OpB (BNew 3 1); OpB (BFind 0 [1;2;5]);
   IterBegin; IterEnd; Advance 2; IterBegin; IterEnd; IterBegin; Fire 0%nat; Fire 1%nat; IterEnd;
   OpB (BPop 0 1); OpB (BHas 0 2); OpB (BGet 0 2); OpB (BRetr 0 2); Snap;
   OpB (BPassEnter 0 (Some [1;5])); OpB (BAdd 2%nat); OpB (BAdd 0%nat); OpB BPassExit; IterBegin; Fire 2%nat; IterEnd;
   Snap; Shutdown; OpB (BAdd 1%nat); OpB BClear; Snap].

Example c10x_nonvacuous_hypotheses : cfg_ok exx_cfg = true /\ forallb op_ok exx_ops = true.
Proof. vm_compute. split; reflexivity. Qed.

Example c10x_nonvacuous_run :
  snd (grun exx_cfg (init exx_cfg) exx_ops)
  = [OAdd 0 AAdded; OAdd 1 AAdded; OAdd 2 ADup; ONew 0 1 true; ONew 3 1 false; OFind 0 (Ok 5); ONop; OIterEnd [];
     ONop; ONop; OIterEnd []; ONop; OTimeout 0; OPop 0 2 (Ok 1%nat); OAdd 1 AAdded;
     OTimeoutEnd 0 [FNone; FVal 7; FExc 3]; ORefused 1; OIterEnd []; OPop 0 1 (Raise KeyError); OHas 0 2 true;
     OGet 0 2 (Some 1%nat); ORetr 0 2 (Some 1%nat);
     OSnap [] [] [[FNone; FVal 7; FExc 3]; [FPending]; []] false; ONop; OAdd 2 AAdded; OAdd 0 ADup; ONop; ONop;
     OTimeout 2; OAdd 2 AAdded; OTimeoutEnd 2 []; OIterEnd [];
     OSnap [((0, 1), 2%nat)] [2%nat] [[FNone; FVal 7; FExc 3]; [FPending]; []] false;
     OShutdown [2%nat]; OAdd 1 ADropped; OClear [];
     OSnap [] [] [[FNone; FVal 7; FExc 3]; [FCancelled]; []] true].
Proof. vm_compute. reflexivity. Qed.
