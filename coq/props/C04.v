(* C04 - onion circuits deliver data intact and never expose it in transit.  Property theorems only.
   Every theorem is about model/M04_onion.v (PythonCryptoEndpoint + TunnelCommunity data plane) for an
   arbitrary AEAD (key, nonce, enc, dec) under the named assumptions of spec/S04_onion_spec.v, for a path
   with ANY number of relays (p_relays p is an arbitrary list), any payload, any other table entries. *)
From Coq Require Import ZArith List Bool Lia.
From IPV8V Require Import lib.PyErr lib.Bytes lib.BE model.M02_wire model.M03_recv model.M04_onion model.M04_harness
  spec.S04_onion_spec proofs.P04_node proofs.P04_endpoint proofs.P04_chain proofs.P04_props proofs.P04_e2e proofs.P04_toy proofs.P04_ping.
Import ListNotations.
Open Scope Z_scope.

(* The assumptions placed on the AEAD are jointly satisfiable (toy instance used to run the model). *)
Theorem aead_assumptions_satisfiable :
  aead_correct tenc tdec /\ aead_authentic tenc tdec /\ aead_key_sep tenc tdec /\ aead_grows tenc 24.
Proof. exact (conj toy_correct (conj toy_authentic (conj toy_key_sep toy_grows))). Qed.
Print Assumptions aead_assumptions_satisfiable.

(* forward_transport + layers_on_link (forward): a cell message handed to the originator's crypto endpoint
   goes out as one datagram, every relay answers with exactly one datagram to the next node, the exit
   processes the message itself - and on link i the body is the message under exactly the layers of hops
   i+1..n (first remaining hop outermost). *)
Theorem forward_transport :
  forall (key nonce : Type) (enc : key -> dir -> nonce -> bytes -> bytes) (dec : key -> dir -> bytes -> option bytes)
         (p : path key) (m0 : Z) (rest : list Z) (e0 : bool) (ns : nat -> nonce) (rnd : Z -> bytes)
         (nss : nat -> nat -> nonce) (nsx : nat -> nonce),
  aead_correct enc dec -> forward_ready (origin_early p m0) p -> c_hs (p_circ p) = None ->
  let msg := m0 :: rest in
  let a1 := first_addr (p_relays p) (p_xaddr p) in
  let prev := last_sender (p_relays p) (p_oaddr p) in
  exists (o' : node key) (links : list bytes) (nl : list nonce),
    ep_send_cell enc (p_origin p) a1 (mkCell (p_cid p) msg false e0) ns = Ok (o', [Send a1 (hd [] links)])
    /\ through enc dec (p_relays p) (p_oaddr p) a1 (hd [] links) rnd nss
       = Some (prev, p_xaddr p, nth (length (p_relays p)) links [], tl links)
    /\ length links = path_len p /\ length nl = path_len p
    /\ (forall i, (i < path_len p)%nat ->
          cell_body (nth i links []) = enc_layers enc FORWARD (skipn i (path_keys p)) (skipn i nl) msg)
    /\ on_packet enc dec (p_exit p) prev (nth (length (p_relays p)) links []) rnd nsx
       = community_on_cell_packet enc (p_exit p) prev
           (cell_to_bin (p_pfx p) (mkCell (p_xcid p) msg false (origin_early p m0))) rnd nsx.
Proof. exact forward_transport_l. Qed.
Print Assumptions forward_transport.

(* forward_intact: send_data at the originator of a ready circuit of any length makes the exit hand exactly
   the same bytes, with the destination given, to the exit socket of that circuit (and nothing else). *)
Theorem forward_intact :
  forall (key nonce : Type) (enc : key -> dir -> nonce -> bytes -> bytes) (dec : key -> dir -> bytes -> option bytes)
         (p : path key) (dest org : addr) (data : bytes) (ns : nat -> nonce) (rnd : Z -> bytes)
         (nss : nat -> nat -> nonce) (nsx : nat -> nonce),
  aead_correct enc dec -> forward_ready (origin_early p 1) p -> c_hs (p_circ p) = None ->
  addr_ok false dest = true -> addr_ok false org = true -> bytes_okb data = true -> is_null dest = false ->
  existsb (Z.eqb 1) (n_handlers (p_exit p)) = true ->
  let a1 := first_addr (p_relays p) (p_xaddr p) in
  let prev := last_sender (p_relays p) (p_oaddr p) in
  exists (o' : node key) (links : list bytes),
    send_data enc (p_origin p) a1 (p_cid p) dest org data ns = Ok (o', [Send a1 (hd [] links)])
    /\ through enc dec (p_relays p) (p_oaddr p) a1 (hd [] links) rnd nss
       = Some (prev, p_xaddr p, nth (length (p_relays p)) links [], tl links)
    /\ length links = path_len p
    /\ on_packet enc dec (p_exit p) prev (nth (length (p_relays p)) links []) rnd nsx
       = Ok (enabled_node (p_exit p) (p_xcid p) (p_xsock p), [ExitSendto (p_xcid p) data dest]).
Proof. exact forward_intact_l. Qed.
Print Assumptions forward_intact.

(* backward_transport + layers_on_link (backward): what an exit socket sends back travels through the relays
   in reverse, each adding its layer; link i (counted from the originator) again carries n - i layers; the
   originator opens all of them and processes the message itself. *)
Theorem backward_transport :
  forall (key nonce : Type) (enc : key -> dir -> nonce -> bytes -> bytes) (dec : key -> dir -> bytes -> option bytes)
         (p : path key) (m0 : Z) (rest : list Z) (nsx : nat -> nonce) (rnd : Z -> bytes)
         (nss : nat -> nat -> nonce) (nso : nat -> nonce),
  aead_correct enc dec -> backward_ready p -> c_hs (p_circ p) = None -> m0 <> 4 ->
  let msg := m0 :: rest in
  let a1 := first_addr (p_relays p) (p_xaddr p) in
  let prev := last_sender (p_relays p) (p_oaddr p) in
  exists (links : list bytes) (nl : list nonce),
    ep_send_cell enc (p_exit p) prev (mkCell (p_xcid p) msg false false) nsx = Ok (p_exit p, [Send prev (hd [] links)])
    /\ through enc dec (rev (p_relays p)) (p_xaddr p) prev (hd [] links) rnd nss
       = Some (a1, p_oaddr p, nth (length (p_relays p)) links [], tl links)
    /\ length links = path_len p /\ length nl = path_len p
    /\ (forall i, (i < path_len p)%nat ->
          cell_body (nth i (rev links) []) = enc_layers enc BACKWARD (skipn i (path_keys p)) (skipn i nl) msg)
    /\ on_packet enc dec (p_origin p) a1 (nth (length (p_relays p)) links []) rnd nso
       = community_on_cell_packet enc (p_origin p) a1
           (cell_to_bin (p_pfx p) (mkCell (p_cid p) msg false false)) rnd nso.
Proof. exact backward_transport_l. Qed.
Print Assumptions backward_transport.

(* backward_intact: data entering the exit socket from outside (tunnel_data) reaches the originator's
   consumer byte for byte, attributed to the outside source the exit observed, under this circuit's id:
   raw data -> on_raw_data; IPv8-shaped with our prefix -> handed to the dispatcher with the circuit id ONLY for
   message ids registered as acceptable from a data message (hidden-services lookups), dropped otherwise - a
   circuit control message (create, data, ping, ...) sent by the outside world is never executed; the state of
   the exit and of the originator is unchanged. *)
Theorem backward_intact :
  forall (key nonce : Type) (enc : key -> dir -> nonce -> bytes -> bytes) (dec : key -> dir -> bytes -> option bytes)
         (p : path key) (source : addr) (data : bytes) (nsx : nat -> nonce) (rnd : Z -> bytes)
         (nss : nat -> nat -> nonce) (nso : nat -> nonce),
  aead_correct enc dec -> backward_ready p -> c_hs (p_circ p) = None ->
  addr_ok false source = true -> bytes_okb data = true ->
  existsb (Z.eqb 1) (n_handlers (p_origin p)) = true ->
  let a1 := first_addr (p_relays p) (p_xaddr p) in
  let prev := last_sender (p_relays p) (p_oaddr p) in
  exists links : list bytes,
    tunnel_data enc (p_exit p) (p_xsock p) source data nsx = Ok (p_exit p, [Send prev (hd [] links)])
    /\ through enc dec (rev (p_relays p)) (p_xaddr p) prev (hd [] links) rnd nss
       = Some (a1, p_oaddr p, nth (length (p_relays p)) links [], tl links)
    /\ length links = path_len p
    /\ on_packet enc dec (p_origin p) a1 (nth (length (p_relays p)) links []) rnd nso
       = Ok (p_origin p,
             if could_be_ipv8 data && negb (is_e2e (c_ctype (p_circ p))) then
               if bytes_eqb (p_pfx p) (slice data None (Some 22)) then
                 match idx data 22 with
                 | Ok m => if existsb (Z.eqb m) (n_data_ids (p_origin p)) then [Reinject source data (p_cid p)] else []
                 | Raise _ => []
                 end
               else if n_tunnel_ep (p_origin p) then [NotifyOther source data] else []
             else [RawData (p_cid p) source data]).
Proof. exact backward_intact_l. Qed.
Print Assumptions backward_intact.

(* an outside datagram is never executed as a circuit message: on a node that registered no message as acceptable
   from a data message (the plain TunnelCommunity), data returned through the exit that is shaped like a message of
   the tunnel overlay itself (create, created, extend, data, ping, ... with the overlay prefix) is dropped by the
   originator - no handler runs, nothing is sent, no state changes - whoever sent it from outside. *)
Theorem outside_control_message_dropped :
  forall (key nonce : Type) (enc : key -> dir -> nonce -> bytes -> bytes) (dec : key -> dir -> bytes -> option bytes)
         (p : path key) (source : addr) (data : bytes) (nsx : nat -> nonce) (rnd : Z -> bytes)
         (nss : nat -> nat -> nonce) (nso : nat -> nonce),
  aead_correct enc dec -> backward_ready p -> c_hs (p_circ p) = None ->
  addr_ok false source = true -> bytes_okb data = true ->
  existsb (Z.eqb 1) (n_handlers (p_origin p)) = true ->
  could_be_ipv8 data = true -> is_e2e (c_ctype (p_circ p)) = false ->
  bytes_eqb (p_pfx p) (slice data None (Some 22)) = true -> n_data_ids (p_origin p) = [] ->
  let a1 := first_addr (p_relays p) (p_xaddr p) in
  let prev := last_sender (p_relays p) (p_oaddr p) in
  exists (links : list bytes),
    tunnel_data enc (p_exit p) (p_xsock p) source data nsx = Ok (p_exit p, [Send prev (hd [] links)])
    /\ through enc dec (rev (p_relays p)) (p_xaddr p) prev (hd [] links) rnd nss
       = Some (a1, p_oaddr p, nth (length (p_relays p)) links [], tl links)
    /\ on_packet enc dec (p_origin p) a1 (nth (length (p_relays p)) links []) rnd nso = Ok (p_origin p, []).
Proof. exact outside_control_message_dropped_l. Qed.
Print Assumptions outside_control_message_dropped.

(* no_two_links_equal: the bodies on two different links differ, and (j = number of hops) none of them is
   the plaintext message - in either direction. *)
Theorem no_two_links_equal :
  forall (key nonce : Type) (enc : key -> dir -> nonce -> bytes -> bytes) (ovh : nat) (d : dir)
         (ks : list key) (nl : list nonce) (m : bytes) (i j : nat),
  aead_grows enc ovh -> length nl = length ks -> (i < j <= length ks)%nat ->
  enc_layers enc d (skipn i ks) (skipn i nl) m <> enc_layers enc d (skipn j ks) (skipn j nl) m.
Proof. exact layers_distinct_l. Qed.
Print Assumptions no_two_links_equal.

Theorem link_body_never_plaintext :
  forall (key nonce : Type) (enc : key -> dir -> nonce -> bytes -> bytes) (ovh : nat) (d : dir)
         (ks : list key) (nl : list nonce) (m : bytes) (i : nat),
  aead_grows enc ovh -> length nl = length ks -> (i < length ks)%nat ->
  enc_layers enc d (skipn i ks) (skipn i nl) m <> m.
Proof. exact layers_not_plain_l. Qed.
Print Assumptions link_body_never_plaintext.

(* tamper_dropped: a node that has to peel a layer neither forwards, delivers nor changes state when the body
   was not produced with the key of that layer (any altered byte of the body, by ideal authenticity). *)
Theorem tamper_dropped_at_relay :
  forall (key nonce : Type) (enc : key -> dir -> nonce -> bytes -> bytes) (dec : key -> dir -> bytes -> option bytes)
         (nd : node key) (src : addr) (cid : Z) (r : relay_route key) (k : key) (body : bytes) (early : bool)
         (rnd : Z -> bytes) (ns : nat -> nonce),
  aead_authentic enc dec -> length (n_prefix nd) = 22%nat -> cid_ok cid ->
  assoc cid (n_relays nd) = Some r -> rr_rdv r = false -> rr_dir r = FORWARD -> h_keys (rr_hop r) = Some k ->
  (forall n m, body <> enc k FORWARD n m) ->
  on_packet enc dec nd src (cell_to_bin (n_prefix nd) (mkCell cid body false early)) rnd ns = Ok (nd, []).
Proof. exact tamper_relay_dropped_l. Qed.
Print Assumptions tamper_dropped_at_relay.

Theorem tamper_dropped_at_exit :
  forall (key nonce : Type) (enc : key -> dir -> nonce -> bytes -> bytes) (dec : key -> dir -> bytes -> option bytes)
         (nd : node key) (src : addr) (cid : Z) (es : exit_sock key) (k : key) (body : bytes) (early : bool)
         (rnd : Z -> bytes) (ns : nat -> nonce),
  aead_authentic enc dec -> length (n_prefix nd) = 22%nat -> cid_ok cid ->
  assoc cid (n_relays nd) = None -> assoc cid (n_exits nd) = Some es -> h_keys (es_hop es) = Some k ->
  (forall n m, body <> enc k FORWARD n m) ->
  on_packet enc dec nd src (cell_to_bin (n_prefix nd) (mkCell cid body false early)) rnd ns = Ok (nd, []).
Proof. exact tamper_exit_dropped_l. Qed.
Print Assumptions tamper_dropped_at_exit.

(* returning cells: relays can only add layers, so an alteration below hop i+1 (body' not made with that hop's
   key) shows when the originator peels the layers of hops 1..i and then fails - nothing is delivered. *)
Theorem tamper_dropped_at_originator :
  forall (key nonce : Type) (enc : key -> dir -> nonce -> bytes -> bytes) (dec : key -> dir -> bytes -> option bytes)
         (nd : node key) (src : addr) (cid : Z) (ci : circuit key) (ks1 : list key) (k : key) (ks2 : list key)
         (nl1 : list nonce) (body' : bytes) (early : bool) (rnd : Z -> bytes) (ns : nat -> nonce),
  aead_correct enc dec -> aead_authentic enc dec -> length (n_prefix nd) = 22%nat -> cid_ok cid ->
  assoc cid (n_relays nd) = None -> assoc cid (n_exits nd) = None -> assoc cid (n_circuits nd) = Some ci ->
  map h_keys (c_hops ci) = map Some (ks1 ++ k :: ks2) -> length nl1 = length ks1 ->
  (forall n m, body' <> enc k BACKWARD n m) ->
  on_packet enc dec nd src (cell_to_bin (n_prefix nd) (mkCell cid (enc_layers enc BACKWARD ks1 nl1 body') false early)) rnd ns
  = Ok (nd, []).
Proof. exact tamper_origin_dropped_l. Qed.
Print Assumptions tamper_dropped_at_originator.

(* foreign_dropped: cells for unknown ids, and cells made under another key or for the other direction
   (splice from another circuit, reflection, outsider's keys), have no effect. *)
Theorem foreign_unknown_circuit_dropped :
  forall (key nonce : Type) (enc : key -> dir -> nonce -> bytes -> bytes) (dec : key -> dir -> bytes -> option bytes)
         (nd : node key) (src : addr) (cid : Z) (body : bytes) (early : bool) (rnd : Z -> bytes) (ns : nat -> nonce),
  length (n_prefix nd) = 22%nat -> cid_ok cid ->
  assoc cid (n_relays nd) = None -> assoc cid (n_exits nd) = None -> assoc cid (n_circuits nd) = None ->
  on_packet enc dec nd src (cell_to_bin (n_prefix nd) (mkCell cid body false early)) rnd ns = Ok (nd, []).
Proof. exact unknown_circuit_dropped. Qed.
Print Assumptions foreign_unknown_circuit_dropped.

Theorem foreign_key_dropped_at_relay :
  forall (key nonce : Type) (enc : key -> dir -> nonce -> bytes -> bytes) (dec : key -> dir -> bytes -> option bytes)
         (nd : node key) (src : addr) (cid : Z) (r : relay_route key) (k k' : key) (d' : dir) (n : nonce) (m : bytes)
         (early : bool) (rnd : Z -> bytes) (ns : nat -> nonce),
  aead_key_sep enc dec -> length (n_prefix nd) = 22%nat -> cid_ok cid ->
  assoc cid (n_relays nd) = Some r -> rr_rdv r = false -> rr_dir r = FORWARD -> h_keys (rr_hop r) = Some k ->
  (k', d') <> (k, FORWARD) ->
  on_packet enc dec nd src (cell_to_bin (n_prefix nd) (mkCell cid (enc k' d' n m) false early)) rnd ns = Ok (nd, []).
Proof. exact foreign_key_relay_dropped_l. Qed.
Print Assumptions foreign_key_dropped_at_relay.

Theorem foreign_key_dropped_at_exit :
  forall (key nonce : Type) (enc : key -> dir -> nonce -> bytes -> bytes) (dec : key -> dir -> bytes -> option bytes)
         (nd : node key) (src : addr) (cid : Z) (es : exit_sock key) (k k' : key) (d' : dir) (n : nonce) (m : bytes)
         (early : bool) (rnd : Z -> bytes) (ns : nat -> nonce),
  aead_key_sep enc dec -> length (n_prefix nd) = 22%nat -> cid_ok cid ->
  assoc cid (n_relays nd) = None -> assoc cid (n_exits nd) = Some es -> h_keys (es_hop es) = Some k ->
  (k', d') <> (k, FORWARD) ->
  on_packet enc dec nd src (cell_to_bin (n_prefix nd) (mkCell cid (enc k' d' n m) false early)) rnd ns = Ok (nd, []).
Proof. exact foreign_key_exit_dropped_l. Qed.
Print Assumptions foreign_key_dropped_at_exit.

Theorem foreign_key_dropped_at_originator :
  forall (key nonce : Type) (enc : key -> dir -> nonce -> bytes -> bytes) (dec : key -> dir -> bytes -> option bytes)
         (nd : node key) (src : addr) (cid : Z) (ci : circuit key) (h0 : hop key) (htl : list (hop key))
         (k k' : key) (d' : dir) (n : nonce) (m : bytes) (early : bool) (rnd : Z -> bytes) (ns : nat -> nonce),
  aead_key_sep enc dec -> length (n_prefix nd) = 22%nat -> cid_ok cid ->
  assoc cid (n_relays nd) = None -> assoc cid (n_exits nd) = None ->
  assoc cid (n_circuits nd) = Some ci -> c_hops ci = h0 :: htl -> h_keys h0 = Some k ->
  (k', d') <> (k, BACKWARD) ->
  on_packet enc dec nd src (cell_to_bin (n_prefix nd) (mkCell cid (enc k' d' n m) false early)) rnd ns = Ok (nd, []).
Proof. exact foreign_key_origin_dropped_l. Qed.
Print Assumptions foreign_key_dropped_at_originator.

(* plaintext_refused: a cell with the plaintext flag is never relayed ... *)
Theorem plaintext_never_relayed :
  forall (key nonce : Type) (enc : key -> dir -> nonce -> bytes -> bytes) (dec : key -> dir -> bytes -> option bytes)
         (nd : node key) (src : addr) (cid : Z) (msg : bytes) (early : bool) (rnd : Z -> bytes) (ns : nat -> nonce),
  length (n_prefix nd) = 22%nat -> cid_ok cid -> has cid (n_relays nd) = true ->
  on_packet enc dec nd src (cell_to_bin (n_prefix nd) (mkCell cid msg true early)) rnd ns = Ok (nd, []).
Proof. exact relay_plain_refused. Qed.
Print Assumptions plaintext_never_relayed.

(* ... and at an end point it changes no state and is handed to a handler only as create (2) / created (3). *)
Theorem plaintext_only_create_created :
  forall (key nonce : Type) (enc : key -> dir -> nonce -> bytes -> bytes) (dec : key -> dir -> bytes -> option bytes)
         (nd : node key) (src : addr) (cid : Z) (msg : bytes) (early : bool) (rnd : Z -> bytes) (ns : nat -> nonce)
         (nd' : node key) (acts : list action),
  length (n_prefix nd) = 22%nat -> cid_ok cid -> has cid (n_relays nd) = false ->
  on_packet enc dec nd src (cell_to_bin (n_prefix nd) (mkCell cid msg true early)) rnd ns = Ok (nd', acts) ->
  nd' = nd /\ (acts = [] \/ exists m0 data, (m0 = 2 \/ m0 = 3) /\ acts = [Control m0 src cid data]).
Proof. exact plaintext_endpoint_l. Qed.
Print Assumptions plaintext_only_create_created.

(* The relay_early flag byte is outside the layers; altering it cannot alter what is delivered: an end point
   does exactly the same for either value (for every message but extend). *)
Theorem relay_early_flag_irrelevant_at_exit :
  forall (key nonce : Type) (enc : key -> dir -> nonce -> bytes -> bytes) (dec : key -> dir -> bytes -> option bytes)
         (nd : node key) (src : addr) (cid : Z) (es : exit_sock key) (k : key) (m0 : Z) (rest : list Z)
         (e1 e2 : bool) (n : nonce) (rnd : Z -> bytes) (ns : nat -> nonce),
  aead_correct enc dec -> length (n_prefix nd) = 22%nat -> cid_ok cid ->
  assoc cid (n_relays nd) = None -> assoc cid (n_exits nd) = Some es -> h_keys (es_hop es) = Some k ->
  0 < n_max_early nd -> m0 <> 4 ->
  on_packet enc dec nd src (cell_to_bin (n_prefix nd) (mkCell cid (enc k FORWARD n (m0 :: rest)) false e1)) rnd ns
  = on_packet enc dec nd src (cell_to_bin (n_prefix nd) (mkCell cid (enc k FORWARD n (m0 :: rest)) false e2)) rnd ns.
Proof. exact early_flag_irrelevant_exit_l. Qed.
Print Assumptions relay_early_flag_irrelevant_at_exit.

Theorem relay_early_flag_irrelevant_at_originator :
  forall (key nonce : Type) (enc : key -> dir -> nonce -> bytes -> bytes) (dec : key -> dir -> bytes -> option bytes)
         (nd : node key) (src : addr) (cid : Z) (ci : circuit key) (ks : list key) (nl : list nonce) (m0 : Z)
         (rest : list Z) (e1 e2 : bool) (rnd : Z -> bytes) (ns : nat -> nonce),
  aead_correct enc dec -> length (n_prefix nd) = 22%nat -> cid_ok cid ->
  assoc cid (n_relays nd) = None -> assoc cid (n_exits nd) = None ->
  assoc cid (n_circuits nd) = Some ci -> c_hs ci = None ->
  map h_keys (c_hops ci) = map Some ks -> length nl = length ks -> 0 < n_max_early nd -> m0 <> 4 ->
  on_packet enc dec nd src (cell_to_bin (n_prefix nd) (mkCell cid (enc_layers enc BACKWARD ks nl (m0 :: rest)) false e1)) rnd ns
  = on_packet enc dec nd src (cell_to_bin (n_prefix nd) (mkCell cid (enc_layers enc BACKWARD ks nl (m0 :: rest)) false e2)) rnd ns.
Proof. exact early_flag_irrelevant_origin_l. Qed.
Print Assumptions relay_early_flag_irrelevant_at_originator.

(* e2e_layer: two circuits of any lengths linked at a rendezvous point.  The sender wraps the message in the
   end-to-end layer first; every link of its circuit carries that (never the message) under the remaining hop
   layers; the rendezvous point peels its layer of the sender's circuit and adds its layer of the receiver's
   circuit around the same end-to-end ciphertext; the receiver's relays add theirs; the receiver opens all of
   them, then the end-to-end layer, and processes the message itself. *)
Theorem e2e_layer :
  forall (key nonce : Type) (enc : key -> dir -> nonce -> bytes -> bytes) (dec : key -> dir -> bytes -> option bytes)
         (e : e2e_path key) (m0 : Z) (rest : list Z) (e0 : bool) (ns : nat -> nonce) (rnd : Z -> bytes)
         (nssa : nat -> nat -> nonce) (nsr : nat -> nonce) (nssb : nat -> nat -> nonce) (nsb : nat -> nonce),
  aead_correct enc dec ->
  let early := (m0 =? 4) || (c_early (e_acirc e) <? n_max_early (e_a e)) in
  e2e_ready early e -> m0 <> 4 ->
  let msg := m0 :: rest in
  let a1 := first_addr (e_arelays e) (e_rpaddr e) in
  let ka_all := map rs_key (e_arelays e) ++ [e_ka e] in
  let kb_all := map rs_key (e_brelays e) ++ [e_kb e] in
  let inner := enc (e_hs e) (hs_out_dir (c_ctype (e_acirc e))) (ns O) msg in
  exists (a' : node key) (la : list bytes) (rp' : node key) (lb : list bytes) (nla nlb : list nonce),
    ep_send_cell enc (e_a e) a1 (mkCell (e_acid e) msg false e0) ns = Ok (a', [Send a1 (hd [] la)])
    /\ through enc dec (e_arelays e) (e_aaddr e) a1 (hd [] la) rnd nssa
       = Some (last_sender (e_arelays e) (e_aaddr e), e_rpaddr e, nth (length (e_arelays e)) la [], tl la)
    /\ on_packet enc dec (e_rp e) (last_sender (e_arelays e) (e_aaddr e)) (nth (length (e_arelays e)) la []) rnd nsr
       = Ok (rp', [Send (last_sender (e_brelays e) (e_baddr e)) (hd [] lb)])
    /\ through enc dec (rev (e_brelays e)) (e_rpaddr e) (last_sender (e_brelays e) (e_baddr e)) (hd [] lb) rnd nssb
       = Some (first_addr (e_brelays e) (e_rpaddr e), e_baddr e, nth (length (e_brelays e)) lb [], tl lb)
    /\ on_packet enc dec (e_b e) (first_addr (e_brelays e) (e_rpaddr e)) (nth (length (e_brelays e)) lb []) rnd nsb
       = community_on_cell_packet enc (e_b e) (first_addr (e_brelays e) (e_rpaddr e))
           (cell_to_bin (e_pfx e) (mkCell (e_bcid e) msg false false)) rnd nsb
    /\ length nla = length ka_all /\ length nlb = length kb_all
    /\ (forall i, (i < length ka_all)%nat ->
          cell_body (nth i la []) = enc_layers enc FORWARD (skipn i ka_all) (skipn i nla) inner)
    /\ (forall i, (i < length kb_all)%nat ->
          cell_body (nth i (rev lb) []) = enc_layers enc BACKWARD (skipn i kb_all) (skipn i nlb) inner).
Proof. exact e2e_layer_l. Qed.
Print Assumptions e2e_layer.

(* ping cells: what forward_transport hands to the exit is answered with a pong under the same id and
   identifier, one BACKWARD layer, to the node it came from; what backward_transport hands to the originator
   enters the pong handler with the header's circuit id and the identifier sent. *)
Theorem ping_answered :
  forall (key nonce : Type) (enc : key -> dir -> nonce -> bytes -> bytes)
         (nd : node key) (src : addr) (cid : Z) (es : exit_sock key) (k : key) (ident : Z) (early : bool)
         (rnd : Z -> bytes) (ns : nat -> nonce),
  length (n_prefix nd) = 22%nat -> cid_ok cid -> 0 <= ident < 65536 ->
  existsb (Z.eqb 6) (n_handlers nd) = true ->
  assoc cid (n_circuits nd) = None -> assoc cid (n_exits nd) = Some es -> h_keys (es_hop es) = Some k ->
  community_on_cell_packet enc nd src (cell_to_bin (n_prefix nd) (mkCell cid (6 :: be_encode 2 ident) false early)) rnd ns
  = Ok (nd, [Send src (cell_to_bin (n_prefix nd) (mkCell cid (enc k BACKWARD (ns O) (7 :: be_encode 2 ident)) false false))]).
Proof. exact ping_answered_l. Qed.
Print Assumptions ping_answered.

(* ... and so does the far end of a linked end-to-end circuit, which is the ORIGINATOR of its own circuit and has
   no exit socket for it: the pong goes out under the same id and identifier, inside the end-to-end layer and all
   hop layers of that circuit (ping is one instance of the cell message m0 :: rest of forward_transport /
   backward_transport / e2e_layer). *)
Theorem ping_answered_on_e2e_circuit :
  forall (key nonce : Type) (enc : key -> dir -> nonce -> bytes -> bytes)
         (nd : node key) (src : addr) (cid : Z) (ci : circuit key) (ks : list key) (hk : key) (h0 : hop key)
         (htl : list (hop key)) (ident : Z) (early : bool) (rnd : Z -> bytes) (ns : nat -> nonce),
  length (n_prefix nd) = 22%nat -> cid_ok cid -> 0 <= ident < 65536 ->
  existsb (Z.eqb 6) (n_handlers nd) = true ->
  assoc cid (n_circuits nd) = Some ci -> c_hs ci = Some hk -> c_hops ci = h0 :: htl ->
  map h_keys (c_hops ci) = map Some ks ->
  exists nd',
  community_on_cell_packet enc nd src (cell_to_bin (n_prefix nd) (mkCell cid (6 :: be_encode 2 ident) false early)) rnd ns
  = Ok (nd', [Send src (cell_to_bin (n_prefix nd)
                     (mkCell cid (enc_layers enc FORWARD ks (drawn (shift ns) (length ks))
                                    (enc hk (hs_out_dir (c_ctype ci)) (ns O) (7 :: be_encode 2 ident))) false
                             (c_early ci <? n_max_early nd)))]).
Proof. exact ping_answered_e2e_ex_l. Qed.
Print Assumptions ping_answered_on_e2e_circuit.

Theorem pong_received :
  forall (key nonce : Type) (enc : key -> dir -> nonce -> bytes -> bytes)
         (nd : node key) (src : addr) (cid ident : Z) (early : bool) (rnd : Z -> bytes) (ns : nat -> nonce),
  length (n_prefix nd) = 22%nat -> cid_ok cid -> 0 <= ident < 65536 ->
  existsb (Z.eqb 7) (n_handlers nd) = true ->
  community_on_cell_packet enc nd src (cell_to_bin (n_prefix nd) (mkCell cid (7 :: be_encode 2 ident) false early)) rnd ns
  = Ok (nd, [GotPong src cid ident]).
Proof. exact pong_received_l. Qed.
Print Assumptions pong_received.

(* ---------------------------------------------------------------------------------------------------
   Non-vacuity: a concrete 3-hop circuit (two relays and an exit) and a concrete rendezvous pair under the
   toy AEAD meet the hypotheses of the theorems above, and the model actually moves data over them. *)
Definition xpfx : bytes := [0; 2] ++ repeat 7 20%nat.
Definition xaO := A4 [10; 0; 0; 1] 1000.
Definition xaR1 := A4 [10; 0; 1; 1] 1000.
Definition xaR2 := A4 [10; 0; 1; 2] 1000.
Definition xaX := A4 [10; 0; 2; 1] 1000.
Definition xhandlers : list Z := [1; 2; 3; 4; 5; 6; 7; 19; 20].
Definition xcirc : circuit Z :=
  mkCircuit 3 CT_DATA [mkHop 1 xaR1 (Some 11); mkHop 2 null_addr (Some 12); mkHop 3 null_addr (Some 13)] None None false 3.
Definition xO : node Z := mkNode xpfx 8 [1] xhandlers [] false [(100, xcirc)] [] [].
Definition xR1 : node Z :=
  mkNode xpfx 8 [1] xhandlers [] false []
         [(100, mkRR 200 (mkHop 2 xaR2 (Some 11)) FORWARD false 1); (200, mkRR 100 (mkHop 0 xaO (Some 11)) BACKWARD false 1)] [].
Definition xR2 : node Z :=
  mkNode xpfx 8 [1] xhandlers [] false []
         [(200, mkRR 300 (mkHop 3 xaX (Some 12)) FORWARD false 1); (300, mkRR 200 (mkHop 1 xaR1 (Some 12)) BACKWARD false 1)] [].
Definition xsock : exit_sock Z := mkES 300 (mkHop 2 xaR2 (Some 13)) false.
Definition xX : node Z := mkNode xpfx 8 [1; 2] xhandlers [] false [] [] [(300, xsock)].
Definition xpath : path Z :=
  mkPath xpfx xO xaO 100 xcirc [mkRS xaR1 xR1 100 200 11; mkRS xaR2 xR2 200 300 12] xX xaX 300 xsock 13.

Example c04_path_meets_hypotheses :
  forward_ready (origin_early xpath 1) xpath /\ backward_ready xpath /\ c_hs (p_circ xpath) = None
  /\ existsb (Z.eqb 1) (n_handlers (p_exit xpath)) = true /\ existsb (Z.eqb 1) (n_handlers (p_origin xpath)) = true.
Proof.
  assert (Hc : forall c, 0 <= c < 4294967296 -> cid_ok c) by (intros c H; exact H).
  assert (Ho : origin_ready xpath).
  { unfold origin_ready; cbn.
    split; [reflexivity|]. split; [reflexivity|]. split; [apply Hc; lia|]. split; [reflexivity|].
    split; [reflexivity|]. split; [eexists; split; reflexivity|]. split; [reflexivity|]. split; [reflexivity|]. lia. }
  assert (Hx : exit_ready xpath).
  { unfold exit_ready; cbn.
    split; [reflexivity|]. split; [apply Hc; lia|]. split; [reflexivity|]. split; [reflexivity|].
    split; [reflexivity|]. split; [reflexivity|]. split; [reflexivity|]. split; [reflexivity|]. lia. }
  split; [|split; [|split; [|split]]]; try reflexivity.
  - split; [exact Ho|]. split; [exact Hx|]. cbn.
    split; [reflexivity|]. split.
    { unfold fwd_route; cbn. split; [reflexivity|]. split; [apply Hc; lia|]. split; [apply Hc; lia|].
      eexists; eexists; split; [reflexivity | intros _; reflexivity]. }
    split; [reflexivity|]. split.
    { unfold fwd_route; cbn. split; [reflexivity|]. split; [apply Hc; lia|]. split; [apply Hc; lia|].
      eexists; eexists; split; [reflexivity | intros _; reflexivity]. }
    reflexivity.
  - split; [exact Ho|]. split; [exact Hx|]. cbn.
    split; [reflexivity|]. split.
    { unfold fwd_route, bwd_route; cbn. split; [reflexivity|]. split; [apply Hc; lia|]. split; [apply Hc; lia|].
      eexists; eexists; split; [reflexivity | intros H; discriminate H]. }
    split; [reflexivity|]. split.
    { unfold fwd_route, bwd_route; cbn. split; [reflexivity|]. split; [apply Hc; lia|]. split; [apply Hc; lia|].
      eexists; eexists; split; [reflexivity | intros H; discriminate H]. }
    reflexivity.
Qed.

Definition xdest := A4 [1; 2; 3; 4] 5.
Definition xdata : bytes := [100; 9; 8; 7; 101].

(* forward: three datagrams on the links, the exit hands the five bytes to its socket *)
Example c04_forward_runs :
  match send_data tenc xO xaR1 100 xdest null_addr xdata (stream [5; 6; 7]) with
  | Ok (_, [Send a pkt0]) =>
      match through tenc tdec (p_relays xpath) xaO a pkt0 (fun _ => []) (fun _ => stream []) with
      | Some (s, d, pktN, log) =>
          match on_packet tenc tdec xX s pktN (fun _ => []) (stream []) with
          | Ok (_, acts) => acts = [ExitSendto 300 xdata xdest] /\ length log = 2%nat
                            /\ map (@length Z) (map cell_body (pkt0 :: log)) = [92; 68; 44]%nat
          | _ => False
          end
      | None => False
      end
  | _ => False
  end.
Proof. vm_compute. repeat split; reflexivity. Qed.

(* backward: the originator's consumer gets the bytes with the outside source as origin *)
Example c04_backward_runs :
  match tunnel_data tenc xX (mkES 300 (mkHop 2 xaR2 (Some 13)) true) xdest xdata (stream [9]) with
  | Ok (_, [Send a pkt0]) =>
      match through tenc tdec (rev (p_relays xpath)) xaX a pkt0 (fun _ => []) (fun i => stream [20 + Z.of_nat i]) with
      | Some (s, d, pktN, log) =>
          on_packet tenc tdec xO s pktN (fun _ => []) (stream []) = Ok (xO, [RawData 100 xdest xdata])
      | None => False
      end
  | _ => False
  end.
Proof. vm_compute. reflexivity. Qed.

(* one altered element of the body: the first relay drops the cell and stays as it was; an altered
   relay_early flag: same delivery *)
Example c04_tamper_is_dropped :
  match send_data tenc xO xaR1 100 xdest null_addr xdata (stream [5; 6; 7]) with
  | Ok (_, [Send a pkt0]) =>
      on_packet tenc tdec xR1 xaO (xor_at 40 1 pkt0) (fun _ => []) (stream []) = Ok (xR1, [])
      /\ on_packet tenc tdec xR1 xaO (xor_at 95 4 pkt0) (fun _ => []) (stream []) = Ok (xR1, [])
      /\ (exists nd' pkt', on_packet tenc tdec xR1 xaO pkt0 (fun _ => []) (stream []) = Ok (nd', [Send xaR2 pkt'])
                            /\ (length pkt' + 24 = length pkt0)%nat)
  | _ => False
  end.
Proof. vm_compute. split; [reflexivity|]. split; [reflexivity|]. eexists; eexists. split; reflexivity. Qed.

(* a rendezvous pair: A (downloader) -- RA -- RP -- RB -- B (seeder) *)
Definition yaA := A4 [10; 1; 0; 1] 1000.
Definition yaRA := A4 [10; 1; 1; 1] 1000.
Definition yaRP := A4 [10; 1; 2; 1] 1000.
Definition yaRB := A4 [10; 1; 1; 2] 1000.
Definition yaB := A4 [10; 1; 0; 2] 1000.
Definition yacirc : circuit Z :=
  mkCircuit 2 CT_RP_DOWNLOADER [mkHop 1 yaRA (Some 21); mkHop 2 yaRP (Some 22)] None (Some 99) false 8.
Definition ybcirc : circuit Z :=
  mkCircuit 2 CT_RP_SEEDER [mkHop 3 yaRB (Some 31); mkHop 2 null_addr (Some 32)] None (Some 99) false 8.
Definition yA : node Z := mkNode xpfx 8 [1] xhandlers [] false [(500, yacirc)] [] [].
Definition yB : node Z := mkNode xpfx 8 [1] xhandlers [] false [(700, ybcirc)] [] [].
Definition yRA : node Z :=
  mkNode xpfx 8 [1] xhandlers [] false []
         [(500, mkRR 510 (mkHop 2 yaRP (Some 21)) FORWARD false 5); (510, mkRR 500 (mkHop 0 yaA (Some 21)) BACKWARD false 5)] [].
Definition yRB : node Z :=
  mkNode xpfx 8 [1] xhandlers [] false []
         [(700, mkRR 710 (mkHop 2 yaRP (Some 31)) FORWARD false 5); (710, mkRR 700 (mkHop 4 yaB (Some 31)) BACKWARD false 5)] [].
Definition yRP : node Z :=
  mkNode xpfx 8 [1; 2] xhandlers [] false []
         [(510, mkRR 710 (mkHop 3 yaRB (Some 22)) FORWARD true 2); (710, mkRR 510 (mkHop 1 yaRA (Some 32)) FORWARD true 2)] [].
Definition ye2e : e2e_path Z :=
  mkE2E xpfx yA yaA 500 yacirc [mkRS yaRA yRA 500 510 21] yRP yaRP 510 710 22 32
        yB yaB 700 ybcirc [mkRS yaRB yRB 700 710 31] 99.

Example c04_e2e_meets_hypotheses : e2e_ready false ye2e.
Proof.
  assert (Hc : forall c, 0 <= c < 4294967296 -> cid_ok c) by (intros c H; exact H).
  unfold e2e_ready; cbn.
  split; [reflexivity|]. split; [reflexivity|]. split; [apply Hc; lia|]. split; [reflexivity|]. split; [reflexivity|].
  split; [discriminate|]. split; [reflexivity|].
  split.
  { split; [reflexivity|]. split.
    { unfold fwd_route, bwd_route; cbn. split; [reflexivity|]. split; [apply Hc; lia|]. split; [apply Hc; lia|].
      eexists; eexists; split; [reflexivity | intros H; discriminate H]. }
    reflexivity. }
  split; [reflexivity|]. split; [apply Hc; lia|]. split; [apply Hc; lia|].
  split.
  { eexists; eexists; eexists. split; [reflexivity|]. split; [intros H; discriminate H|]. split; reflexivity. }
  split.
  { split; [reflexivity|]. split.
    { unfold fwd_route, bwd_route; cbn. split; [reflexivity|]. split; [apply Hc; lia|]. split; [apply Hc; lia|].
      eexists; eexists; split; [reflexivity | intros H; discriminate H]. }
    reflexivity. }
  split; [reflexivity|]. split; [apply Hc; lia|]. split; [reflexivity|]. split; [reflexivity|]. split; [reflexivity|].
  split; [reflexivity|]. split; [discriminate|]. split; [reflexivity|]. split; [lia|]. reflexivity.
Qed.

Example c04_e2e_runs :
  match send_data tenc yA yaRA 500 null_addr xdest xdata (stream [1; 2; 3]) with
  | Ok (_, [Send a pkt0]) =>
      match through tenc tdec [mkRS yaRA yRA 500 510 21; mkRS yaRP yRP 510 710 22; mkRS yaRB yRB 700 710 31]
                    yaA a pkt0 (fun _ => []) (fun i => stream [40 + Z.of_nat i]) with
      | Some (s, d, pktN, log) => on_packet tenc tdec yB s pktN (fun _ => []) (stream []) = Ok (yB, [RawData 700 xdest xdata])
      | None => False
      end
  | _ => False
  end.
Proof. vm_compute. reflexivity. Qed.
