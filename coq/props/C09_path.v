(* C09, path level - when a circuit is torn down or abandoned, EVERY node on its path drops its entries
   within a bound computed from the settings.  Property theorems only.

   Model: model/M09_network.v - a network of M09 nodes (model/M09_reclaim.v, unchanged) plus the messages
   in flight; one step = one node processing one event; which message is delivered, dropped, duplicated,
   delayed or overtaken is an unconstrained choice of the trace.

   Hypotheses, all of them executable checks (they are evaluated on observed implementation histories by
   tools/checks/c09_path.py):
   * `nrun_timely` / the timely part of `nrun_ok`: every node's event loop is served on time (the C09
     assumption, per node);
   * `quiet_shape_b st D p tq j w`: the situation from which the bound is counted.  p is the path (originator,
     hops with the id of the link leading to each, all distinct).  Whatever entries still name ids of the path
     sit at the right positions with the right routing fields (ANY subset may already be missing: lost
     destroys, partial sweeps, nodes that are gone); no create / extend is under way for these ids; the cells
     in flight for these ids travel on links of the path.  And the circuit is dead at its head or cut off
     from its far end:
       j = 0: the originator has torn the circuit down (its entry is closing) or the originator is gone;
       j > 0: node j of the path - a relay or the exit - has dropped its entries for it (or is gone), or the link
              that leads to it is dead (`dead` lists ids on which nothing is delivered any more: a cut link, an
              isolated node); no node above it answers in its place; the destroy towards the originator may
              be lost or not; the
              originator's entry may still be alive and it goes on pinging: tq is then L + B_entry where L
              bounds the originator's last activity stamp and the arrival of what still travels upwards above
              the break (L = time of the break + j * D does).
   * `nrun_ok st D ids`: after that no NEW traffic is injected for these ids (no application data, no datagram
     from outside at the exit, nothing from outside the modelled nodes, the ids are not handed out again);
     a datagram - and every duplicate of it - is delivered within D of being sent, or never; the node that
     peels the last layer of a cell finds a message of the kind that was sent, or fails.
   Pings need no hypothesis: do_ping is part of the model; the theorem shows that it stops (the originator's
   entry is not refreshed through a broken path, C09's node bound then closes it by tq).

   Conclusion: at any time T > tq + B_path, B_path = 2 * hops * D + (max_time_inactive + sweep interval +
   remove_tunnel_delay), at which the nodes have been served, no node holds a circuit, relay or exit entry
   for any id of the path.  Counted from a teardown at node j > 0 at time t0 whose entries are gone at
   t0 + remove_tunnel_delay: everything is reclaimed by
   t0 + remove_tunnel_delay + (j + 2 * hops) * D + 2 * (max_time_inactive + sweep + remove_tunnel_delay). *)
From Coq Require Import ZArith List Bool.
From IPV8V Require Import gen.G09_rules model.M09_reclaim model.M09_harness model.M09_network spec.S09_reclaim
  proofs.P09_inv proofs.P09_network_frame proofs.P09_network_node proofs.P09_network_step
  proofs.P09_network_inv proofs.P09_network_main proofs.P09_network_binv proofs.P09_network_bstep
  proofs.P09_network_bmain.
Import ListNotations.
Open Scope Z_scope.

(* the explicit bound *)
Theorem B_path_formula : forall st D hops,
  B_path st D hops = 2 * Z.of_nat hops * D + B_entry st.
Proof. exact (fun st D hops => eq_refl). Qed.
Print Assumptions B_path_formula.

(* The path-level theorem, from the initial network.  `_partial`: what is missing with respect to the full
   property text is listed at the end of this file. *)
Theorem path_bounded_reclaim_partial : forall st, settings_ok st -> forall D p tq j dead names t0 tr1 tr2 T,
  0 <= D -> nodup_b names = true ->
  nrun_timely st (init_net names t0) tr1 = true ->
  let wq := nrun st (init_net names t0) tr1 in
  quiet_shape_b st D p tq j dead wq = true ->
  nrun_ok st D (p_ids p) dead wq tr2 = true ->
  let wT := nrun st wq tr2 in
  all_on_time st wT T = true ->
  tq + B_path st D (p_len p) < T ->
  net_holds wT (p_ids p) = false.
Proof. exact path_reclaim_l. Qed.
Print Assumptions path_bounded_reclaim_partial.

(* the same from any network state whose nodes satisfy the node invariant of C09, node by node *)
Theorem path_bounded_reclaim_from_partial : forall st, settings_ok st -> forall D p tq j dead wq tr T,
  0 <= D ->
  (forall n s, aget n (nodes wq) = Some s -> inv st s) ->
  quiet_shape_b st D p tq j dead wq = true ->
  nrun_ok st D (p_ids p) dead wq tr = true ->
  tq + B_path st D (p_len p) < T ->
  forall n s x, aget n (nodes (nrun st wq tr)) = Some s -> on_time st s T = true ->
    In x (p_ids p) -> holds_id s x = false.
Proof. exact path_reclaim_from_l. Qed.
Print Assumptions path_bounded_reclaim_from_partial.

(* the cross-node invariant behind it (who can refresh whose activity stamp, and the measure): every step
   that meets the assumptions preserves "entries at their positions with stamps <= tq + 2 * hops * D; a live
   originator entry last active by tq - B_entry; cells for the path on its links, downward ones sent by
   tq + (k-1) * D, upward ones by tq + (2 * hops - k) * D, and those above the break early enough to reach the
   originator by tq - B_entry" *)
Theorem quiet_invariant_preserved : forall st D p tq j dead,
  settings_ok st -> 0 <= D -> path_ok_b p = true -> (j <= p_len p)%nat -> forall w tl,
  wgood st D p tq j dead w -> winv st w -> step_ok st D (p_ids p) dead w tl = true ->
  wgood st D p tq j dead (nstep st w tl).
Proof. exact (fun st D p tq j dead Hst HD Hp Hj => nstep_good st D p tq j dead Hst HD Hp Hj). Qed.
Print Assumptions quiet_invariant_preserved.

Theorem quiet_shape_gives_invariant : forall st D p tq j dead,
  0 <= D -> path_ok_b p = true -> (j <= p_len p)%nat -> forall w,
  quiet_shape_b st D p tq j dead w = true -> wgood st D p tq j dead w.
Proof. exact quiet_shape_sound. Qed.
Print Assumptions quiet_shape_gives_invariant.

(* node level, for an arbitrary id set I: an event that is not a cell for I, at a node whose bookkeeping is
   closed with respect to I, creates no entry for I, advances no activity stamp of I except by a deferred
   create_transports, and sends no cell for I; a cell for I stamps only its own key and the partner route of
   the relay entry it travels along, and makes the node send at most the relayed cell or the pong *)
Theorem event_frame : forall st I s e,
  closedI I s -> ev_ok I s e ->
  frame st I (ev_touch s e) s (fst (step_at st s e)) /\ ev_outs I s e (snd (step_at st s e)).
Proof. exact step_at_frame. Qed.
Print Assumptions event_frame.

(* ------------------------------------------------------------------ non-vacuity *)
(* A 2-hop circuit (originator 0, relay 1, exit 2; link ids 11 and 12) is built by the real handshake,
   pinged, and torn down silently by the originator at t = 3 while a ping and a duplicate of it are still
   travelling; the duplicate is delivered later, both pings are answered by the exit, the pongs travel
   back and keep the relay's routes alive until t = 8; sweeps every 5 s.  The hypotheses of the theorem
   hold with D = 2, the relay still holds its routes at t = 25, and everything is gone at T = 42 >
   3 + B_path = 41. *)
Definition ex_st := default_settings 1.
Definition ex_path := mkPath 0 [(1, 11); (2, 12)].
Definition ex_dl (t : Z) (i : nat) (keep plain : bool) (len : Z) (m : cellmsg) (ls : list Z) :=
  (t, NDeliver i keep plain len (COk m) ls).
Definition ex_run0 := ERun 0 false 0 0 0 np.
Definition ex_sweeps (t : Z) := [(t, NLocal 0 ESweep); (t, NLocal 1 ESweep); (t, NLocal 2 ESweep)].

Definition ex_tr1 : list (Z * nlabel) :=
  [ (1, NLocal 0 (ECreateCircuit 11 2 (sp 1 true 101) [100]));
    ex_dl 1 0 false true 100 (MCreate 101) [];
    (1, NLocal 1 (ex_run0 [100]));
    ex_dl 1 0 false true 100 (MCreated 101 VOk (sp 2 false 102)) [120];
    ex_dl 1 0 false false 120 (MExtend 102) [];
    (1, NLocal 1 (ERun 0 true 2 12 55 np [100]));
    ex_dl 1 0 false true 100 (MCreate 55) [];
    (1, NLocal 2 (ex_run0 [100]));
    ex_dl 1 0 false true 100 (MCreated 55 VOk np) [110];
    (1, NLocal 1 (ex_run0 []));
    ex_dl 1 0 false false 110 (MExtended 102 VOk np) [];
    (2, NLocal 0 (EPing [50]));
    ex_dl 2 0 true false 50 (MOther 0) [50];
    (3, NLocal 0 (ECallRemove KCirc 11 0 false));
    (3, NLocal 0 (ex_run0 [])) ].

Definition ex_tr2 : list (Z * nlabel) :=
  [ ex_dl 4 0 false false 50 (MOther 0) [50];
    ex_dl 4 0 false false 50 MPing [40];
    (5, NLocal 0 ESweep); (5, NLocal 1 ESweep); (5, NLocal 2 ESweep);
    ex_dl 5 1 false false 40 (MOther 0) [40];
    ex_dl 6 0 false false 50 MPing [40];
    (6, NLocal 1 (EWake 0));
    ex_dl 6 0 false false 40 MPong [];
    (8, NLocal 0 (EWake 0));
    ex_dl 8 0 false false 40 (MOther 0) [40];
    (10, NLocal 0 ESweep); (10, NLocal 1 ESweep); (10, NLocal 2 ESweep);
    ex_dl 10 0 false false 40 MPong [] ]
  ++ ex_sweeps 15 ++ ex_sweeps 20 ++ ex_sweeps 25
  ++ [ (25, NLocal 1 (ex_run0 [])) ]
  ++ [ (30, NLocal 1 (EWake 0)) ] ++ ex_sweeps 30
  ++ [ (30, NLocal 1 (ex_run0 [])); (30, NLocal 2 (ex_run0 [])) ]
  ++ [ (35, NLocal 1 (EWake 0)); (35, NLocal 2 (EWake 0)) ] ++ ex_sweeps 35
  ++ ex_sweeps 40.

Notation ex_wq := (nrun ex_st (init_net [0; 1; 2] 0) ex_tr1).

Example c09_path_hypotheses_hold :
  nodup_b [0; 1; 2] = true
  /\ nrun_timely ex_st (init_net [0; 1; 2] 0) ex_tr1 = true
  /\ quiet_shape_b ex_st 2 ex_path 3 0 [] ex_wq = true
  /\ nrun_ok ex_st 2 (p_ids ex_path) [] ex_wq ex_tr2 = true
  /\ all_on_time ex_st (nrun ex_st ex_wq ex_tr2) 42 = true
  /\ 3 + B_path ex_st 2 (p_len ex_path) = 41.
Proof. vm_compute. repeat split; reflexivity. Qed.

(* at the quiet point all three nodes hold entries and two cells are in flight; at t = 25 the relay and the
   exit still hold theirs, the last stamp being 8 > tq: the traffic that was under way did matter *)
Example c09_path_entries_were_there :
  net_holds ex_wq (p_ids ex_path) = true
  /\ length (flight ex_wq) = 2%nat
  /\ net_holds (nrun ex_st ex_wq (firstn 24 ex_tr2)) (p_ids ex_path) = true
  /\ (exists s r, aget 1 (nodes (nrun ex_st ex_wq (firstn 24 ex_tr2))) = Some s
                  /\ aget 11 (relays s) = Some r /\ la (r_ro r) = 8).
Proof.
  split; [vm_compute; reflexivity|]. split; [vm_compute; reflexivity|]. split; [vm_compute; reflexivity|].
  eexists. eexists. vm_compute. repeat split; reflexivity.
Qed.

(* the theorem applied to it *)
Example c09_path_reclaimed :
  net_holds (nrun ex_st ex_wq ex_tr2) (p_ids ex_path) = false.
Proof.
  destruct c09_path_hypotheses_hold as (H1 & H2 & H3 & H4 & H5 & H6).
  assert (Hst : settings_ok ex_st) by (vm_compute; repeat split; discriminate).
  assert (HD : 0 <= 2) by discriminate.
  assert (HT : 3 + B_path ex_st 2 (p_len ex_path) < 42) by (rewrite H6; reflexivity).
  exact (path_bounded_reclaim_partial ex_st Hst 2 ex_path 3 0%nat [] [0; 1; 2] 0 ex_tr1 ex_tr2 42 HD H1 H2 H3 H4 H5 HT).
Qed.

(* The same circuit, but now the EXIT drops its socket silently at t = 2 (gone at t = 7) while the originator
   stays alive and goes on pinging (t = 9, 16, 23): the pings are relayed and die at the exit; the originator's
   stamp stays at 4 (the last pong), its sweep closes the circuit at t = 25; the relay's downward route, kept
   alive by the pings until 23, goes at t = 50.  Break position j = 2, L = 4, tq = L + B_entry = 34. *)
Definition ex_ping (t : Z) :=
  [(t, NLocal 0 (EPing [50])); ex_dl t 0 false false 50 (MOther 0) [50]; ex_dl (t + 1) 0 false false 50 MPing []].
Definition ex_tr1b : list (Z * nlabel) :=
  firstn 11 ex_tr1 ++
  [ (2, NLocal 0 (EPing [50]));
    (2, NLocal 2 (ECallRemove KExit 12 0 false)); (2, NLocal 2 (ex_run0 []));
    ex_dl 2 0 false false 50 (MOther 0) [50];
    ex_dl 3 0 false false 50 MPing [40];
    ex_dl 3 0 false false 40 (MOther 0) [40];
    ex_dl 4 0 false false 40 MPong [] ]
  ++ ex_sweeps 5 ++ [ (6, NLocal 1 (EWake 0)); (7, NLocal 2 (EWake 0)) ].
Definition ex_tr2b : list (Z * nlabel) :=
  ex_ping 9 ++ ex_sweeps 10 ++ ex_sweeps 15 ++ ex_ping 16 ++ ex_sweeps 20 ++ ex_ping 23 ++ ex_sweeps 25
  ++ [ (25, NLocal 0 (ex_run0 [])); (25, NLocal 1 (ex_run0 [])) ]
  ++ [ (30, NLocal 0 (EWake 0)); (30, NLocal 1 (EWake 0)) ] ++ ex_sweeps 30 ++ ex_sweeps 35 ++ ex_sweeps 40
  ++ ex_sweeps 45 ++ [ (45, NLocal 1 (ex_run0 [])) ] ++ [ (50, NLocal 1 (EWake 0)) ] ++ ex_sweeps 50
  ++ ex_sweeps 55 ++ ex_sweeps 60 ++ ex_sweeps 65 ++ ex_sweeps 70.
Notation ex_wqb := (nrun ex_st (init_net [0; 1; 2] 0) ex_tr1b).

Example c09_path_broken_hypotheses_hold :
  nrun_timely ex_st (init_net [0; 1; 2] 0) ex_tr1b = true
  /\ quiet_shape_b ex_st 2 ex_path 34 2 [] ex_wqb = true
  /\ nrun_ok ex_st 2 (p_ids ex_path) [] ex_wqb ex_tr2b = true
  /\ all_on_time ex_st (nrun ex_st ex_wqb ex_tr2b) 73 = true
  /\ 34 + B_path ex_st 2 (p_len ex_path) = 72
  (* the originator is alive at the quiet point, and the relay still holds a route at t = 45 *)
  /\ (exists s c, aget 0 (nodes ex_wqb) = Some s /\ aget 11 (circuits s) = Some c /\ c_closing c = false)
  /\ net_holds (nrun ex_st ex_wqb (firstn 37 ex_tr2b)) (p_ids ex_path) = true.
Proof.
  split; [vm_compute; reflexivity|]. split; [vm_compute; reflexivity|]. split; [vm_compute; reflexivity|].
  split; [vm_compute; reflexivity|]. split; [vm_compute; reflexivity|]. split; [|vm_compute; reflexivity].
  eexists. eexists. vm_compute. repeat split; reflexivity.
Qed.

Example c09_path_broken_reclaimed :
  net_holds (nrun ex_st ex_wqb ex_tr2b) (p_ids ex_path) = false.
Proof.
  destruct c09_path_broken_hypotheses_hold as (H2 & H3 & H4 & H5 & H6 & _).
  assert (Hst : settings_ok ex_st) by (vm_compute; repeat split; discriminate).
  assert (HD : 0 <= 2) by discriminate.
  assert (H1 : nodup_b [0; 1; 2] = true) by reflexivity.
  assert (HT : 34 + B_path ex_st 2 (p_len ex_path) < 73) by (rewrite H6; reflexivity).
  exact (path_bounded_reclaim_partial ex_st Hst 2 ex_path 34 2%nat [] [0; 1; 2] 0 ex_tr1b ex_tr2b 73 HD H1 H2 H3 H4 H5 HT).
Qed.

(* The same circuit again; nobody tears anything down, but from t = 2 on the link between the relay and the
   exit (id 12) is dead: every cell on it is lost.  All three nodes keep their entries; the originator pings
   at 2, 9, 16, 23, the relay forwards the pings onto the dead link; no pong comes back, the originator's stamp
   stays at 1, its sweep closes the circuit at 25; the exit, which hears nothing, goes at 30, the relay's
   downward route at 50.  Break position j = 2 with dead = [12]; without the dead link the shape does not hold
   (the exit still holds its socket). *)
Definition ex_pingc (t : Z) :=
  [(t, NLocal 0 (EPing [50])); ex_dl t 0 false false 50 (MOther 0) [50]; (t, NDrop 0)].
Definition ex_tr1c : list (Z * nlabel) :=
  firstn 11 ex_tr1 ++ ex_pingc 2 ++ ex_sweeps 5 ++ [ (6, NLocal 1 (EWake 0)) ].
Definition ex_tr2c : list (Z * nlabel) :=
  ex_pingc 9 ++ ex_sweeps 10 ++ ex_sweeps 15 ++ ex_pingc 16 ++ ex_sweeps 20 ++ ex_pingc 23 ++ ex_sweeps 25
  ++ [ (25, NLocal 0 (ex_run0 [])); (25, NLocal 1 (ex_run0 [])); (25, NLocal 2 (ex_run0 [])) ]
  ++ [ (30, NLocal 0 (EWake 0)); (30, NLocal 1 (EWake 0)); (30, NLocal 2 (EWake 0)) ]
  ++ ex_sweeps 30 ++ ex_sweeps 35 ++ ex_sweeps 40
  ++ ex_sweeps 45 ++ [ (45, NLocal 1 (ex_run0 [])) ] ++ [ (50, NLocal 1 (EWake 0)) ] ++ ex_sweeps 50
  ++ ex_sweeps 55 ++ ex_sweeps 60 ++ ex_sweeps 65 ++ ex_sweeps 70.
Notation ex_wqc := (nrun ex_st (init_net [0; 1; 2] 0) ex_tr1c).

Example c09_path_cut_hypotheses_hold :
  nrun_timely ex_st (init_net [0; 1; 2] 0) ex_tr1c = true
  /\ quiet_shape_b ex_st 2 ex_path 34 2 [12] ex_wqc = true
  /\ nrun_ok ex_st 2 (p_ids ex_path) [12] ex_wqc ex_tr2c = true
  /\ all_on_time ex_st (nrun ex_st ex_wqc ex_tr2c) 73 = true
  /\ quiet_shape_b ex_st 2 ex_path 34 2 [] ex_wqc = false
  /\ net_holds (nrun ex_st ex_wqc (firstn 38 ex_tr2c)) (p_ids ex_path) = true.
Proof. vm_compute. repeat split; reflexivity. Qed.

Example c09_path_cut_reclaimed :
  net_holds (nrun ex_st ex_wqc ex_tr2c) (p_ids ex_path) = false.
Proof.
  destruct c09_path_cut_hypotheses_hold as (H2 & H3 & H4 & H5 & _).
  assert (Hst : settings_ok ex_st) by (vm_compute; repeat split; discriminate).
  assert (HD : 0 <= 2) by discriminate.
  assert (H1 : nodup_b [0; 1; 2] = true) by reflexivity.
  assert (HT : 34 + B_path ex_st 2 (p_len ex_path) < 73) by (vm_compute; reflexivity).
  exact (path_bounded_reclaim_partial ex_st Hst 2 ex_path 34 2%nat [12] [0; 1; 2] 0 ex_tr1c ex_tr2c 73 HD H1 H2 H3 H4 H5 HT).
Qed.

(* the shipped settings with one second of message life-time: 3 hops are reclaimed within 36 s *)
Example c09_path_bound_defaults :
  B_path (default_settings 1) 1 1 = 32 /\ B_path (default_settings 1) 1 2 = 34 /\ B_path (default_settings 1) 1 3 = 36.
Proof. vm_compute. repeat split; reflexivity. Qed.

(* ================================================================== circuits under construction *)
(* A circuit whose construction is under way or has been abandoned at any stage.  While it is built the ids
   that belong to it are not a path but a tree that grows: the originator retries its first create under the
   same id with other candidates, a node asked to extend allocates a fresh id for every attempt, every node
   that accepts a create holds an exit socket.  `F : family` records that tree as a ghost - per id its level,
   the node at its upper end, the id it was extended from, the candidates at its lower end; it is computed
   from the history (ids that are never allocated simply stay unused) and the theorem holds for every F that
   passes the checks.  O is the originator, x0 its circuit id, h the number of hops it is to have.

   Hypotheses (executable, evaluated on observed histories by tools/checks/c09_path.py):
   * `build_shape_b st F O x0 h tq w`: at the start whatever is held or in flight under an id of F is what the
     tree allows (in particular: nothing at all, before the circuit exists; or the leftovers of the handshake
     at the moment the originator gives up); the originator's entry, if there is one, is closing, or not yet
     ready and created early enough that the retry budget of the code (next_hop_timeout *
     (circuit_timeout / next_hop_timeout + hops - 1)) plus remove_tunnel_delay runs out by tq.
   * `brun_ok st D F O x0 tq w tr`: every step is timely, datagrams live at most D, decryption is typed; a created
     answers the create it was sent for; the circuit is created by O only, by tq - build_bound - delay, with its
     first hops among the candidates of x0 in F; an id of F is allocated only where F says, by the body of
     on_extend while the exit socket it extends is still there; no application data, outside datagram or cell
     from outside the modelled nodes for ids of F; and the circuit does not become ready (`unready_b`: a circuit
     that does is the business of the theorem above).
   Everything else is free: which handshake message is lost, duplicated, delayed or overtaken, how often the
   originator's RetryRequestCache times out and which candidates it then picks (within F), whether and when
   the originator tears the circuit down, with or without a destroy, or is cut off from the network.

   Conclusion: at any T > tq + 2 * h * D + (max_time_inactive + sweep + remove_tunnel_delay) at which the nodes
   have been served, no node holds a circuit, relay or exit entry under ANY id of F.  Counted from the creation of
   the circuit at tc (tq = tc + build_bound + remove_tunnel_delay): T > tc + B_build st D goal h. *)
Theorem B_build_formula : forall st D goal hops,
  B_build st D goal hops
  = s_next_hop_timeout st * (s_circuit_timeout st / s_next_hop_timeout st + goal - 1) + s_remove_delay st
    + (2 * Z.of_nat hops * D + (s_max_inactive st + s_sweep st + s_remove_delay st)).
Proof. exact (fun st D goal hops => eq_refl). Qed.
Print Assumptions B_build_formula.

Theorem path_bounded_reclaim_building_partial : forall st, settings_ok st ->
  forall D F O x0 h tq names t0 tr1 tr2 T,
  0 <= D -> nodup_b names = true ->
  nrun_timely st (init_net names t0) tr1 = true ->
  let wq := nrun st (init_net names t0) tr1 in
  build_shape_b st F O x0 h tq wq = true ->
  brun_ok st D F O x0 tq wq tr2 = true ->
  let wT := nrun st wq tr2 in
  all_on_time st wT T = true ->
  tq + B_path st D h < T ->
  net_holds wT (map fst F) = false.
Proof. exact build_reclaim_l. Qed.
Print Assumptions path_bounded_reclaim_building_partial.

Theorem path_bounded_reclaim_building_from_partial : forall st, settings_ok st ->
  forall D F O x0 h tq wq tr T,
  0 <= D ->
  (forall n s, aget n (nodes wq) = Some s -> inv st s) ->
  build_shape_b st F O x0 h tq wq = true ->
  brun_ok st D F O x0 tq wq tr = true ->
  tq + B_path st D h < T ->
  forall n s x, aget n (nodes (nrun st wq tr)) = Some s -> on_time st s T = true ->
    In x (map fst F) -> holds_id s x = false.
Proof. exact build_reclaim_from_l. Qed.
Print Assumptions path_bounded_reclaim_building_from_partial.

(* the bound counted from the creation of the circuit *)
Theorem building_bound_from_creation : forall st D goal h tc T,
  tc + B_build st D goal h < T <-> (tc + build_bound st goal + s_remove_delay st) + B_path st D h < T.
Proof. intros. unfold B_build. split; intro H; rewrite <- !Z.add_assoc in *; exact H. Qed.
Print Assumptions building_bound_from_creation.

(* the retry budget: while an own circuit is neither closing nor ready, every properly timed event of its node
   happens within build_bound + remove_tunnel_delay of its creation - so that is when the originator stops *)
Theorem building_stops_in_time : forall st, settings_ok st -> forall s t x c,
  inv st s -> on_time st s t = true -> aget x (circuits s) = Some c -> c_closing c = false ->
  c_hops c < c_goal c -> t <= creation (c_ro c) + build_bound st (c_goal c) + s_remove_delay st.
Proof. exact building_time. Qed.
Print Assumptions building_stops_in_time.

(* the cross-node invariant over the growing tree is preserved by every step that meets the assumptions *)
Theorem building_invariant_preserved : forall st D F O x0 h tq,
  settings_ok st -> 0 <= D -> fam_ok_b F O x0 h = true -> forall w tl,
  wgoodF st D F O x0 h tq w -> winv st w -> bstep_ok st D F O x0 tq w tl = true ->
  wgoodF st D F O x0 h tq (nstep st w tl).
Proof. exact bnstep_good. Qed.
Print Assumptions building_invariant_preserved.

(* ------------------------------------------------------------------ non-vacuity *)
(* circuit_timeout 30 s, next_hop_timeout 10 s: three tries.  The originator 0 creates circuit 11 (2 hops) at
   t = 1 through candidate 1, which joins; the extend reaches 1, which allocates id 12 and asks node 2, which joins -
   but the created is lost.  At t = 11 the RetryRequestCache times out: the originator extends again, 1 allocates
   id 13 and asks node 3, which joins; that created is lost too, and a duplicate of the extend that arrives at
   t = 13 is refused.  At t = 21 the budget is spent: the originator removes its circuit (gone at 26); the three
   exit sockets - at 1 for id 11, at 2 for id 12, at 3 for id 13 - go by inactivity at 30, 30 and 40.  The family
   has three ids; before the run none of them is in use (the shape check passes on the initial network).
   tq = 1 + build_bound + remove_tunnel_delay = 46; with D = 2: T = 86 > 1 + B_build = 84. *)
Definition bex_st := mkSettings 100 3600 20 1000000 30 60 10 5 8 5 10 true true.
Definition bex_fam : family :=
  [(11, mkF 1 0 None [1]); (12, mkF 2 1 (Some 11) [2]); (13, mkF 2 1 (Some 11) [3])].
Definition bex_sweeps (t : Z) :=
  [(t, NLocal 0 ESweep); (t, NLocal 1 ESweep); (t, NLocal 2 ESweep); (t, NLocal 3 ESweep)].
Definition bex_tr : list (Z * nlabel) :=
  [ (1, NLocal 0 (ECreateCircuit 11 2 (sp 1 true 101) [100]));
    ex_dl 1 0 false true 100 (MCreate 101) [];
    (1, NLocal 1 (ex_run0 [100]));
    ex_dl 1 0 false true 100 (MCreated 101 VOk (sp 2 true 102)) [120];
    ex_dl 1 0 false false 120 (MExtend 102) [];
    (1, NLocal 1 (ERun 0 true 2 12 55 np [100]));
    ex_dl 1 0 false true 100 (MCreate 55) [];
    (1, NLocal 2 (ex_run0 [100]));
    (1, NDrop 0) ]
  ++ bex_sweeps 5 ++ bex_sweeps 10 ++
  [ (11, NLocal 0 (ERetryTimeout 11));
    (11, NLocal 0 (ERun 0 false 0 0 0 (sp 3 false 103) [120]));
    (11, NLocal 1 (ECreateTimeout 55));
    ex_dl 11 0 true false 120 (MExtend 103) [];
    (11, NLocal 1 (ERun 0 true 3 13 56 np [100]));
    ex_dl 12 1 false true 100 (MCreate 56) [];
    (12, NLocal 3 (ex_run0 [100]));
    (12, NDrop 1);
    ex_dl 13 0 false false 120 (MExtend 103) [];
    (13, NLocal 1 (ERun 0 false 0 0 0 np [])) ]
  ++ bex_sweeps 15 ++ bex_sweeps 20 ++
  [ (21, NLocal 0 (ERetryTimeout 11)); (21, NLocal 0 (ex_run0 [])); (21, NLocal 1 (ECreateTimeout 56)) ]
  ++ bex_sweeps 25 ++ [ (25, NLocal 1 (ex_run0 [])); (25, NLocal 2 (ex_run0 [])); (26, NLocal 0 (EWake 0)) ]
  ++ [ (30, NLocal 1 (EWake 0)); (30, NLocal 2 (EWake 0)) ] ++ bex_sweeps 30
  ++ bex_sweeps 35 ++ [ (35, NLocal 3 (ex_run0 [])) ] ++ [ (40, NLocal 3 (EWake 0)) ] ++ bex_sweeps 40
  ++ bex_sweeps 45 ++ bex_sweeps 50 ++ bex_sweeps 55 ++ bex_sweeps 60 ++ bex_sweeps 65 ++ bex_sweeps 70
  ++ bex_sweeps 75 ++ bex_sweeps 80 ++ bex_sweeps 85.
Notation bex_w0 := (nrun bex_st (init_net [0; 1; 2; 3] 0) []).

Example c09_building_hypotheses_hold :
  build_shape_b bex_st bex_fam 0 11 2 46 bex_w0 = true
  /\ brun_ok bex_st 2 bex_fam 0 11 46 bex_w0 bex_tr = true
  /\ all_on_time bex_st (nrun bex_st bex_w0 bex_tr) 86 = true
  /\ 46 + B_path bex_st 2 2 = 84 /\ 1 + B_build bex_st 2 2 2 = 84
  (* at t = 20 four nodes hold entries under the three ids of the family, two of which did not exist at t = 10 *)
  /\ net_holds (nrun bex_st bex_w0 (firstn 35 bex_tr)) [11] = true
  /\ net_holds (nrun bex_st bex_w0 (firstn 35 bex_tr)) [12] = true
  /\ net_holds (nrun bex_st bex_w0 (firstn 35 bex_tr)) [13] = true
  /\ net_holds (nrun bex_st bex_w0 (firstn 17 bex_tr)) [13] = false.
Proof. vm_compute. repeat split; reflexivity. Qed.

Example c09_building_reclaimed :
  net_holds (nrun bex_st bex_w0 bex_tr) (map fst bex_fam) = false.
Proof.
  destruct c09_building_hypotheses_hold as (H3 & H4 & H5 & H6 & _).
  assert (Hst : settings_ok bex_st) by (vm_compute; repeat split; discriminate).
  assert (HD : 0 <= 2) by discriminate.
  assert (H1 : nodup_b [0; 1; 2; 3] = true) by reflexivity.
  assert (H2 : nrun_timely bex_st (init_net [0; 1; 2; 3] 0) [] = true) by reflexivity.
  assert (HT : 46 + B_path bex_st 2 2 < 86) by (rewrite H6; reflexivity).
  exact (path_bounded_reclaim_building_partial bex_st Hst 2 bex_fam 0 11 2%nat 46 [0; 1; 2; 3] 0 [] bex_tr 86
           HD H1 H2 H3 H4 H5 HT).
Qed.

(* the shipped settings: a 3-hop circuit that never completes is reclaimed everywhere within 80 + 5 + 36 s of its
   creation when datagrams live at most a second *)
Example c09_building_bound_defaults :
  build_bound (default_settings 1) 3 = 80 /\ B_build (default_settings 1) 1 3 3 = 121
  /\ B_build (default_settings 1) 1 1 1 = 97.
Proof. vm_compute. repeat split; reflexivity. Qed.

(* What is missing with respect to the property text (hence `_partial`), for the two theorems together:
   1. The junction of the two situations in full generality.  Circuits that never become ready are covered from
      their creation (`path_bounded_reclaim_building_partial`, whatever is lost, duplicated or retried).  Circuits
      that did become ready are covered once torn down at the originator - also with handshake leftovers, since
      `build_shape_b` accepts a closing ready circuit - and, by the first theorem, when the path breaks at a node
      or link while the originator stays alive, but the latter only without handshake leftovers for the ids of the
      path (`quiet_shape_b` with j > 0 asks for none).
   2. A node that crashes in the sense of no longer being served while it stays in the node map (its own
      entries then stay: the conclusion is about nodes whose event loop runs).  Cut links and isolated nodes
      are covered (`dead`, and for circuits under construction simply as lost messages).
   3. Paths that visit the same node twice (first theorem; the building theorem only asks that no node extends a
      circuit to itself) and id collisions (2^-32 per pair in the code: here the family F is given, an id of F is
      allocated only where F says).
   4. D: the bounds are in terms of the settings and of the largest life-time D of a datagram in the network,
      which no setting of py-ipv8 bounds.
   5. First theorem, j > 0: right after the handshake a relay still holds the exit socket it had before it became
      a relay (until remove_tunnel_delay has passed); the shape asks that no node above the break holds one.
   6. Building theorem: that the body of on_extend runs while the exit socket it extends is still there, and that a
      created carries the identifier of the create it answers, are assumptions on the trace (checked on every
      observed history), not derived from the model, in which identifiers are oracle values. *)
