(* C18 (extension) - the protocol code TRANSLATED from the source on every run (gen/G18_proofs.v, by
   tools/tr/tr_proofs.py): boudot.py EL / SQR, attestation.py create_attest_pair, structs.py
   PengBaoPublicData.check / generate_response, community.py on_challenge_response.  First:
   gen_refines_hand_model - the generated functions compute exactly what the hand models M18_range / M18_driver
   compute; then the property theorems as statements about the generated code.  Property theorems only. *)
From Coq Require Import ZArith List Bool Permutation QArith.
From IPV8V Require Import lib.PyErr lib.Bytes model.M18_hom model.M18_range model.M18_bitpairs model.M18_gen_rt model.M18_driver gen.G18_proofs
  spec.S18_bgn proofs.P18_driver proofs.P18_proofs_gen.
Import ListNotations.
Open Scope Z_scope.

(* ================================================================== gen_refines_hand_model, function by function *)
Theorem gen_refines_hand_model_el_create : forall G gmul gone ginv Hsh gmodulus x r1 r2 g1 h1 g2 h2 b bitspace t l w n1 n2 rest,
  g_el_create G gmul gone ginv Hsh gmodulus x r1 r2 g1 h1 g2 h2 b bitspace t l (w :: n1 :: n2 :: rest) =
  Ok (el_create G gmul gone ginv Hsh x r1 r2 g1 h1 g2 h2 (w, n1, n2), rest).
Proof. exact el_create_refines. Qed.
Print Assumptions gen_refines_hand_model_el_create.

Theorem gen_refines_hand_model_el_check : forall G gmul gone ginv Hsh e g1 h1 g2 h2 y1 y2,
  g_el_check G gmul gone ginv Hsh e g1 h1 g2 h2 y1 y2 = Ok (el_check G gmul gone ginv Hsh e g1 h1 g2 h2 y1 y2).
Proof. exact el_check_refines. Qed.
Print Assumptions gen_refines_hand_model_el_check.

Theorem gen_refines_hand_model_sqr_create : forall G gmul gone ginv Hsh gmodulus x r1 gg hh b bitspace r2 w n1 n2 rest,
  g_sqr_create G gmul gone ginv Hsh gmodulus x r1 gg hh b bitspace (r2 :: w :: n1 :: n2 :: rest) =
  Ok (sqr_create G gmul gone ginv Hsh x r1 gg hh (r2, w, n1, n2), rest).
Proof. exact sqr_create_refines. Qed.
Print Assumptions gen_refines_hand_model_sqr_create.

Theorem gen_refines_hand_model_sqr_check : forall G gmul gone ginv Hsh s gg hh y,
  g_sqr_check G gmul gone ginv Hsh s gg hh y = Ok (sqr_check G gmul gone ginv Hsh s gg hh y).
Proof. exact sqr_check_refines. Qed.
Print Assumptions gen_refines_hand_model_sqr_check.

Theorem gen_refines_hand_model_generate_response : forall p s t,
  g_generate_response p s t = Ok (generate_response p s t).
Proof. exact generate_response_refines. Qed.
Print Assumptions gen_refines_hand_model_generate_response.

(* PengBaoPublicData.check *)
Theorem gen_refines_hand_model_range_check : forall G gmul gone ginv geqb PKg PKh Hsh pd a b s t x y u v,
  g_range_check G gmul gone ginv geqb PKg PKh Hsh pd a b s t x y u v =
  Ok (range_check G gmul gone ginv geqb PKg PKh Hsh pd a b s t (x, y, u, v)).
Proof. exact range_check_refines. Qed.
Print Assumptions gen_refines_hand_model_range_check.

(* create_attest_pair: on the queues / stream that hold exactly the draws of the hand model's record ... *)
Theorem gen_refines_hand_model_create_attest_pair : forall G gmul gone ginv PKg PKh Hsh gmodulus v a b bitspace rd rest,
  g_create_attest_pair G gmul gone ginv PKg PKh Hsh gmodulus v a b bitspace (queues_of rd) (sec_of rd ++ rest) =
  bind (create_attest_pair G gmul gone ginv PKg PKh Hsh v a b rd) (fun r => Ok (r, rest)).
Proof. exact create_attest_pair_refines. Qed.
Print Assumptions gen_refines_hand_model_create_attest_pair.

(* ... and on ANY queues and stream (rejected draws included): what the translated builder returns is what the
   hand model returns on the draws that were accepted *)
Theorem gen_create_attest_pair_sound : forall G gmul gone ginv PKg PKh Hsh gmodulus v a b bitspace rq sec r rest,
  g_create_attest_pair G gmul gone ginv PKg PKh Hsh gmodulus v a b bitspace rq sec = Ok (r, rest) ->
  exists rd, create_attest_pair G gmul gone ginv PKg PKh Hsh v a b rd = Ok r.
Proof. exact create_attest_pair_sound. Qed.
Print Assumptions gen_create_attest_pair_sound.

(* AttestationCommunity.on_challenge_response *)
Theorem gen_refines_hand_model_on_challenge_response : forall A R sha proc hon empty_agg alg_honesty
    (st : vstate A) hh (resp : R) d b q,
  g_on_challenge_response A R sha proc hon empty_agg alg_honesty st hh resp d b q =
  on_challenge_response sha proc hon empty_agg alg_honesty st hh resp d b q.
Proof. exact on_challenge_response_refines. Qed.
Print Assumptions gen_refines_hand_model_on_challenge_response.

(* ================================================================== the range proof, over the translated code *)

(* completeness: whatever the draws, if the translated builder returns a proof then the translated verifier
   accepts the translated responder's answer to every challenge s, t > 0 (m2 >= 0 as in C18.range_complete) *)
Theorem gen_range_complete : forall G gmul gone ginv geqb PKg PKh Hsh gmodulus,
  abelian_group G gmul gone ginv -> (forall x, geqb x x = true) ->
  forall v a b bitspace rq sec pub priv rest s t resp,
  g_create_attest_pair G gmul gone ginv PKg PKh Hsh gmodulus v a b bitspace rq sec = Ok ((pub, priv), rest) ->
  0 <= p_m2 priv -> 0 < s -> 0 < t ->
  g_generate_response priv s t = Ok resp ->
  let '(x, y, u, w) := resp in
  g_range_check G gmul gone ginv geqb PKg PKh Hsh pub a b s t x y u w = Ok true.
Proof. exact gen_range_complete_w. Qed.
Print Assumptions gen_range_complete.

(* the range is inclusive at both ends: the translated builder never refuses a value a <= v <= b *)
Theorem gen_range_inside_not_refused : forall G gmul gone ginv PKg PKh Hsh gmodulus v a b bitspace rq sec,
  a <= v <= b ->
  g_create_attest_pair G gmul gone ginv PKg PKh Hsh gmodulus v a b bitspace rq sec <> Raise ValueError.
Proof. exact gen_range_inside_not_refused_l. Qed.
Print Assumptions gen_range_inside_not_refused.

(* partial (as C18.range_outside_unbuildable_partial): outside the range it builds nothing, whatever is drawn *)
Theorem gen_range_outside_unbuildable_partial : forall G gmul gone ginv PKg PKh Hsh gmodulus v a b bitspace rq sec,
  a <= b -> v < a \/ b < v ->
  g_create_attest_pair G gmul gone ginv PKg PKh Hsh gmodulus v a b bitspace rq sec = Raise ValueError \/
  g_create_attest_pair G gmul gone ginv PKg PKh Hsh gmodulus v a b bitspace rq sec = Raise OutOfFuel.
Proof. exact gen_range_outside_unbuildable_l. Qed.
Print Assumptions gen_range_outside_unbuildable_partial.

(* pengbaorange/algorithm.py: every challenge (s, t) that create_challenges can draw - _safe_rndint keeps drawing
   while the value is below LARGE_INTEGER, so LARGE_INTEGER itself can come out - is answered honestly by
   create_challenge_response, never with the random garbage it keeps for challenges that are too small *)
Theorem challenge_domain_is_answered : forall G PKg gmodulus rq s t priv rq',
  g_pb_create_challenges G PKg gmodulus rq = Ok (s, t) ->
  g_pb_create_challenge_response G PKg gmodulus priv s t rq' = Ok (generate_response priv s t).
Proof. exact challenge_domain_is_answered_w. Qed.
Print Assumptions challenge_domain_is_answered.

(* the whole honest exchange over the translated code: what the builder returns, any challenge the verifier can
   draw, the prover's answer to it: the verifier's check accepts *)
Theorem gen_honest_range_exchange_accepted : forall G gmul gone ginv geqb PKg PKh Hsh gmodulus,
  abelian_group G gmul gone ginv -> (forall x, geqb x x = true) ->
  forall v a b bitspace rq sec pub priv rest crq s t rq',
  g_create_attest_pair G gmul gone ginv PKg PKh Hsh gmodulus v a b bitspace rq sec = Ok ((pub, priv), rest) ->
  0 <= p_m2 priv -> g_pb_create_challenges G PKg gmodulus crq = Ok (s, t) ->
  exists x y u w, g_pb_create_challenge_response G PKg gmodulus priv s t rq' = Ok (x, y, u, w) /\
                  g_range_check G gmul gone ginv geqb PKg PKh Hsh pub a b s t x y u w = Ok true.
Proof. exact gen_honest_range_exchange_accepted_w. Qed.
Print Assumptions gen_honest_range_exchange_accepted.

(* ================================================================== the verifier's bookkeeping, over the translated handler *)

(* an answer to a challenge that is not outstanding (never sent, already answered, a duplicate) changes nothing *)
Theorem gen_not_outstanding_is_ignored : forall A R sha proc hon empty_agg alg_honesty (st : vstate A) hh (resp : R) d b q,
  pend_get (vs_pending st) hh = None ->
  g_on_challenge_response A R sha proc hon empty_agg alg_honesty st hh resp d b q = Ok (st, []).
Proof. exact gen_not_outstanding_ignored. Qed.
Print Assumptions gen_not_outstanding_is_ignored.

(* the answer is matched to the outstanding challenge with ITS hash - wherever that challenge stands in the list:
   the aggregate is updated with that challenge, it and its hash leave the lists (which stay consistent), and when
   it was the last one the aggregate is reported and the verification ends *)
Theorem gen_answer_matched_by_hash : forall A R sha proc hon empty_agg alg_honesty (st : vstate A) hh (resp : R) d b q hc st' out,
  vs_ok sha st -> vs_active st = true ->
  pend_get (vs_pending st) hh = Some hc -> hc < 0 -> In hh (vs_hashed st) ->
  g_on_challenge_response A R sha proc hon empty_agg alg_honesty st hh resp d b q = Ok (st', out) ->
  exists c, In c (vs_chals st) /\ sha c = hh /\ proc (vs_agg st) (Some c) resp = Ok (vs_agg st') /\
    vs_hashed st' = remove_first hh (vs_hashed st) /\ vs_ok sha st' /\
    (vs_hashed st' = [] -> out = [VCallback (vs_agg st')] /\ vs_active st' = false).
Proof. exact gen_answer_matched_by_hash. Qed.
Print Assumptions gen_answer_matched_by_hash.

(* a failed honesty check reports the empty aggregate and ends the verification ... *)
Theorem gen_failed_honesty_check_ends : forall A R sha proc hon empty_agg alg_honesty (st : vstate A) hh (resp : R) d b q hc,
  vs_active st = true -> pend_get (vs_pending st) hh = Some hc -> 0 <= hc -> hon hc resp = Ok false ->
  exists st' : vstate A,
    g_on_challenge_response A R sha proc hon empty_agg alg_honesty st hh resp d b q = Ok (st', [VCallback empty_agg]) /\
    vs_active st' = false.
Proof. exact gen_failed_honesty_check_ends. Qed.
Print Assumptions gen_failed_honesty_check_ends.

(* ... for good: afterwards (and after completion) nothing is counted, reported or sent any more *)
Theorem gen_ended_is_silent : forall A R sha proc hon empty_agg alg_honesty (st : vstate A) hh (resp : R) d b q,
  vs_active st = false ->
  exists st' : vstate A,
    g_on_challenge_response A R sha proc hon empty_agg alg_honesty st hh resp d b q = Ok (st', []) /\
    vs_active st' = false /\ vs_agg st' = vs_agg st /\ vs_hashed st' = vs_hashed st /\ vs_chals st' = vs_chals st.
Proof. exact gen_ended_is_silent. Qed.
Print Assumptions gen_ended_is_silent.

(* a whole verification with every challenge outstanding: the answers may arrive in ANY order; each is counted
   once, with the challenge of its hash; exactly one result is reported - the aggregate of all the answers *)
Theorem gen_run_aggregates_every_answer_once : forall A R sha proc hon empty_agg alg_honesty chals0,
  NoDup (map sha chals0) -> alg_honesty = false ->
  forall (answers : list (Z * R)) (st : vstate A), vs_ok sha st -> vs_active st = true -> all_outstanding st ->
  incl (vs_chals st) chals0 -> NoDup (map fst (vs_pending st)) ->
  Permutation (map fst answers) (vs_hashed st) -> vs_hashed st <> [] ->
  forall afin, fold_answers sha proc chals0 (vs_agg st) answers = Ok afin ->
  exists st' : vstate A,
    run_with (g_on_challenge_response A R sha proc hon empty_agg alg_honesty) st
             (map (fun a => (fst a, snd a, (false, 0, @nil bytes))) answers) = Ok (st', [VCallback afin]) /\
    vs_agg st' = afin /\ vs_active st' = false /\ vs_hashed st' = [] /\ vs_chals st' = [].
Proof. exact gen_run_all_answers. Qed.
Print Assumptions gen_run_aggregates_every_answer_once.

(* ================================================================== boneh.py decode and bonehexact/attestation.py, translated *)
Theorem gen_refines_hand_model_decode : forall G gmul gone ginv geqb PKg SKt1 ms c,
  g_decode G gmul gone ginv geqb PKg SKt1 ms c = Ok (decode G gmul gone ginv geqb PKg SKt1 ms c).
Proof. exact decode_refines. Qed.
Print Assumptions gen_refines_hand_model_decode.

Theorem gen_refines_hand_model_create_challenge_response : forall G gmul gone ginv geqb PKg SKt1 c,
  g_create_challenge_response G gmul gone ginv geqb PKg SKt1 c = Ok (challenge_response G gmul gone ginv geqb PKg SKt1 c).
Proof. exact challenge_response_refines. Qed.
Print Assumptions gen_refines_hand_model_create_challenge_response.

Theorem gen_refines_hand_model_process_challenge_response : forall m r, g_process_challenge_response m r = rm_incr m r.
Proof. exact process_challenge_response_refines. Qed.
Print Assumptions gen_refines_hand_model_process_challenge_response.

Theorem gen_refines_hand_model_relativity_match : forall e o, g_binary_relativity_match e o = Ok (relativity_match e o).
Proof. exact match_refines. Qed.
Print Assumptions gen_refines_hand_model_relativity_match.

Theorem gen_refines_hand_model_relativity_certainty : forall e o, g_binary_relativity_certainty e o = Ok (certainty e o).
Proof. exact certainty_refines. Qed.
Print Assumptions gen_refines_hand_model_relativity_certainty.

(* the translated decode inverts encode; the translated responder answers the class of the message modulo t2 *)
Theorem gen_decode_encode : forall G gmul gone ginv geqb g h t1 t2 P, bgn_keypair G gmul gone ginv geqb g h t1 t2 P ->
  forall ms m r, Forall (fun x => 0 <= x < t2) ms -> In m ms ->
  g_decode G gmul gone ginv geqb g t1 ms (encode G gmul gone ginv g h m r) = Ok (Some m).
Proof. exact gen_decode_encode_w. Qed.
Print Assumptions gen_decode_encode.

Theorem gen_challenge_response_classes : forall G gmul gone ginv geqb g h t1 t2 P, bgn_keypair G gmul gone ginv geqb g h t1 t2 P ->
  forall m r, g_create_challenge_response G gmul gone ginv geqb g t1 (encode G gmul gone ginv g h m r) =
    Ok (if m mod t2 =? 0 then 0 else if m mod t2 =? 1 then 1 else if m mod t2 =? 2 then 2 else 3).
Proof. exact gen_challenge_response_w. Qed.
Print Assumptions gen_challenge_response_classes.

(* acceptance / rejection by the translated scoring: the true profile scores 1 - 2^-n, any other profile of the
   same number of pairs scores 0 *)
Theorem gen_true_value_score : forall e,
  exists q, g_binary_relativity_certainty e e = Ok q /\ (q == 1 - Qpower (1 # 2) (rm_total e))%Q.
Proof. exact gen_true_value_score_w. Qed.
Print Assumptions gen_true_value_score.

Theorem gen_other_profile_zero : forall e o, r3 e = 0 -> r3 o = 0 -> rm_total e = rm_total o -> e <> o ->
  exists q, g_binary_relativity_certainty e o = Ok q /\ (q == 0)%Q.
Proof. exact gen_other_profile_zero_w. Qed.
Print Assumptions gen_other_profile_zero.

(* ================================================================== non-vacuity *)
(* the translated builder / verifier run on the executable instance; boundaries of [18, 200] included; rejected
   draws in the queues (the 0 before 5000, the multiple of k before 123456789 are skipped) *)
Example c18x_range_runs :
  let rq := [[1234]; [77]; [9]; [100003]; [0; 5000]; [123456789]; [4242]; [777]] in
  let sec := [5; 6; 7; 8; 9; 10; 11; 12; 13; 14; 15] in
  let run v a' b' :=
    bind (g_create_attest_pair ev ev_mul ev_one ev_inv ev_g ev_h (ev_hash []) (fun _ => 11) v 18 200 32 rq sec) (fun r =>
    let '((pub, priv), _) := r in
    bind (g_generate_response priv 40000 50000) (fun resp => let '(x, y, u, w) := resp in
    g_range_check ev ev_mul ev_one ev_inv ev_eqb ev_g ev_h (ev_hash []) pub a' b' 40000 50000 x y u w)) in
  run 30 18 200 = Ok true /\ run 18 18 200 = Ok true /\ run 200 18 200 = Ok true /\ run 30 31 200 = Ok false /\
  run 17 18 200 = Raise OutOfFuel /\ run 201 18 200 = Raise OutOfFuel /\ run 5 18 200 = Raise ValueError.
Proof. vm_compute. repeat split. Qed.

(* three challenges [7], [8], [9] (hash = first byte), answers arriving as 8, 9, 8 again, 7: counted once each, with
   the right challenge; the aggregate (here: the list of (challenge, answer) counted) is reported exactly once *)
Example c18x_bookkeeping_runs :
  let sha := fun c : bytes => match c with x :: _ => x | [] => 0 end in
  let proc := fun (a : list (Z * Z)) (c : option bytes) (r : Z) => Ok (a ++ [(match c with Some (x :: _) => x | _ => -1 end, r)]) in
  let hon := fun (v r : Z) => Ok (v =? r) in
  let st := MkVS [(7, -1); (8, -1); (9, -1)] true [7; 8; 9] [[7]; [8]; [9]] [] in
  run_with (g_on_challenge_response (list (Z * Z)) Z sha proc hon [] false) st
    [(8, 1, (false, 0, [])); (9, 2, (false, 0, [])); (8, 0, (false, 0, [])); (7, 0, (false, 0, []))]
  = Ok (MkVS [] false [] [] [(8, 1); (9, 2); (7, 0)], [VCallback [(8, 1); (9, 2); (7, 0)]]).
Proof. vm_compute. reflexivity. Qed.

(* a failed honesty check (value 2 expected, 0 answered) ends the verification; the later answer is ignored *)
Example c18x_liar_is_final :
  let sha := fun c : bytes => match c with x :: _ => x | [] => 0 end in
  let proc := fun (a : list Z) (c : option bytes) (r : Z) => Ok (a ++ [r]) in
  let hon := fun (v r : Z) => Ok (v =? r) in
  let st := MkVS [(7, -1); (50, 2)] true [7] [[7]] [] in
  run_with (g_on_challenge_response (list Z) Z sha proc hon [99] true) st
    [(50, 0, (false, 0, [])); (7, 1, (false, 0, []))]
  = Ok (MkVS [] false [7] [[7]] [], [VCallback [99]]).
Proof. vm_compute. reflexivity. Qed.

(* the boundary is real: the verifier can draw exactly LARGE_INTEGER (after rejecting 7), and the prover answers it *)
Example c18x_boundary_challenge :
  g_pb_create_challenges ev ev_g (fun _ => 1000000) [[7; 32765]; [32766]] = Ok (32765, 32766)
  /\ g_pb_create_challenge_response ev ev_g (fun _ => 1000000) (MkPriv 1 2 3 4 5 6) 32765 32766 [] = Ok (generate_response (MkPriv 1 2 3 4 5 6) 32765 32766)
  /\ g_pb_create_challenge_response ev ev_g (fun _ => 1000000) (MkPriv 1 2 3 4 5 6) 32764 32766 [[40000]; [40001]; [40002]; [40003]] = Ok (40000, 40001, 40002, 40003).
Proof. vm_compute. repeat split. Qed.
