(* C02y - the byte-level core of C02 / C03 as TRANSLATED code: the `pack` / `unpack` methods of every registered Packer
   class and the Serializer methods, regenerated from the source (gen/G02_packers.v), refine the wire model M02_wire
   (coq/model/M02_wire.v) - so the theorems of props/C02.v and props/C03.v are statements about the translated code.
   Definitions of the relation: coq/model/M02_packers_rt.v (second half).  Property theorems only. *)
From Coq Require Import String Ascii.
From Coq Require Import ZArith List Bool.
From IPV8V Require Import lib.PyErr lib.Bytes lib.BE model.M02_wire model.M02_oldstyle model.M02_packers_rt
  gen.G02_registry gen.G02_packers proofs.P02_packers proofs.P02_packers_live.
From IPV8V Require proofs.P02_roundtrip.
Import ListNotations.
Open Scope Z_scope.

(* --- the live objects are the tables C02 / C03 speak about --- *)
(* every live packer object stands for exactly the registry entry tr_wire reads for its name, in the same order *)
Theorem live_packers_are_registry :
  map (fun e => (bytes_of_string (fst e), Some (snd e))) (registry_default ++ registry_overlay)
  = map (fun e => (fst e, rfmt_of_packer (snd e))) ser_live.
Proof. exact live_packers_are_registry_l. Qed.
Print Assumptions live_packers_are_registry.

(* the serializer holds the entries the translated Serializer / NodePacker code looks up by name *)
Theorem live_serializer_wf : ser_wf ser_live = true.
Proof. exact live_serializer_wf_l. Qed.
Print Assumptions live_serializer_wf.

(* every shipped class's format_list resolves, through the live packer objects, to exactly its msgdefs entry *)
Theorem live_classes_are_msgdefs :
  map (fun c => (cls_name c, msgfmt_fuel 32 ser_live (cls_formats c))) classes_live
  = map (fun d => (fst d, Some (msg_of_list (snd d)))) msgdefs.
Proof. exact live_classes_are_msgdefs_l. Qed.
Print Assumptions live_classes_are_msgdefs.

Theorem class_formats_sound : forall S n fs m, msgfmt_fuel n S fs = Some m -> fents_msg S fs m.
Proof. exact msgfmt_fuel_sound. Qed.
Print Assumptions class_formats_sound.

(* --- refinement: unpack --- *)
(* For every packer object p that stands for a wire format f (possibly applied to a class: payload, payload-list),
   every buffer, every offset, whatever is already in the unpack list: the translated p.unpack(data, offset, unpack_list,
   *args) appends exactly the model's value (bits: its eight bits; nested: the flat raw list) and returns the model's
   end offset, or both refuse; the translated code never leaves the modelled fragment nor runs out of the stated fuel. *)
Theorem gen_unpack_refines_wire : forall key_ok S f n p cargs data off ul,
  ser_wf S = true -> packer_fmt S p cargs f -> bytes_ok data -> (need f <= n)%nat ->
  unpack_sim f ul (r_unpack (run key_ok S n) p (VBytes data) (VInt (Z.of_nat off)) (VList ul) cargs)
             (unpack key_ok f data off).
Proof. intros key_ok S f n p cargs data off ul Hwf. exact (proj1 (refines_all key_ok S Hwf) f n p cargs data off ul). Qed.
Print Assumptions gen_unpack_refines_wire.

(* Serializer.unpack_serializable(cls, data, offset) against unpack_msg *)
Theorem gen_unpack_serializable_refines_wire : forall key_ok S m n c data off,
  ser_wf S = true -> fents_msg S (cls_formats c) m -> bytes_ok data -> (need_msg m + 1 <= n)%nat ->
  unpack_msg_sim m (r_unpack_serializable (run key_ok S n) c (VBytes data) (VInt (Z.of_nat off)))
                 (unpack_msg key_ok m data off).
Proof.
  intros key_ok S m n c data off Hwf Hm Hd Hn.
  apply (proj2 (proj2 (refines_all key_ok S Hwf) m) n c data off Hm Hd). rewrite Nat.add_1_r in Hn. exact Hn.
Qed.
Print Assumptions gen_unpack_serializable_refines_wire.

(* Serializer.unpack_serializable_list(classes, data, offset, consume_all) against the model's sequence of messages;
   for one class with consume_all it is M02's unpack_all *)
Theorem gen_unpack_list_refines_wire : forall key_ok S n cs ms data off consume,
  ser_wf S = true -> Forall2 (fun c m => fents_msg S (cls_formats c) m) cs ms -> bytes_ok data ->
  Forall (fun m => (need_msg m + 2 <= n)%nat) ms ->
  val_sim (Serializer_unpack_serializable_list (run key_ok S n) S cs (VBytes data) (VInt (Z.of_nat off)) (VBool consume))
          (unpack_list_spec key_ok ms data off consume).
Proof. intros key_ok S n cs ms data off consume Hwf. exact (unpack_list_refines key_ok S Hwf n cs ms data off consume). Qed.
Print Assumptions gen_unpack_list_refines_wire.

Theorem gen_unpack_all_refines_wire : forall key_ok S n c m data off,
  ser_wf S = true -> fents_msg S (cls_formats c) m -> bytes_ok data -> (need_msg m + 2 <= n)%nat ->
  val_sim (Serializer_unpack_serializable_list (run key_ok S n) S [c] (VBytes data) (VInt (Z.of_nat off)) (VBool true))
          (do vs <- unpack_all key_ok m data off; Ok (VList [VMsg (flat_msg m vs)])).
Proof. intros key_ok S n c m data off Hwf. exact (unpack_all_refines key_ok S Hwf n c m data off). Qed.
Print Assumptions gen_unpack_all_refines_wire.

(* --- refinement: pack (legal values) --- *)
(* For every packer object and arguments that stand for a legal model value v of format f (multi-field struct and bits
   spread their tuple; a nested payload is an instance whose to_pack_list() names its format_list; payload-list a list of
   those): the translated p.pack( *args ) returns exactly the model's bytes.  (Outside the legal values the model is
   stricter than struct - it refuses a byte string of the wrong length where struct pads - which no property uses.) *)
Theorem gen_pack_refines_wire : forall key_ok S f n p v args,
  ser_wf S = true -> pack_rel S p f v args -> val_ok key_ok f v = true -> (need f <= n)%nat ->
  pack_sim (r_pack (run key_ok S n) p args) (pack key_ok f v).
Proof. intros key_ok S f n p v args Hwf. exact (proj1 (pack_refines_all key_ok S Hwf) f n p v args). Qed.
Print Assumptions gen_pack_refines_wire.

(* Serializer.pack_serializable(instance) against pack_msg *)
Theorem gen_pack_serializable_refines_wire : forall key_ok S m n fs vs ents,
  ser_wf S = true -> inst_rel S fs m vs ents -> msg_ok key_ok m vs = true -> (need_msg m + 1 <= n)%nat ->
  pack_sim (r_pack_serializable (run key_ok S n) (VMsg ents)) (pack_msg key_ok m vs).
Proof.
  intros key_ok S m n fs vs ents Hwf Hi Hok Hn.
  apply (proj2 (proj2 (pack_refines_all key_ok S Hwf) m) n fs vs ents Hi Hok). rewrite Nat.add_1_r in Hn. exact Hn.
Qed.
Print Assumptions gen_pack_serializable_refines_wire.

(* --- the theorems of C02 / C03, now about the translated code --- *)
(* C02 pack_unpack_fmt: what the translated pack produced, the translated unpack reads back - same value, exact end
   offset, at any offset, between any bytes *)
Theorem gen_roundtrip : forall key_ok S f n p cargs v args bs (pre suf : bytes) ul,
  ser_wf S = true -> pack_rel S p f v args -> packer_fmt S p cargs f -> wf_fmt f = true -> val_ok key_ok f v = true ->
  (need f <= n)%nat -> (greedy f = false \/ suf = []) -> bytes_ok (pre ++ bs ++ suf) ->
  r_pack (run key_ok S n) p args = Ok (VBytes bs) ->
  r_unpack (run key_ok S n) p (VBytes (pre ++ bs ++ suf)) (VInt (Z.of_nat (length pre))) (VList ul) cargs
  = Ok (VList (ul ++ entries f v), VInt (Z.of_nat (length pre + length bs))).
Proof. intros key_ok S f n p cargs v args bs pre suf ul Hwf. exact (gen_roundtrip_l key_ok S Hwf f n p cargs v args bs pre suf ul). Qed.
Print Assumptions gen_roundtrip.

(* C03 unpack_bounds *)
Theorem gen_unpack_bounds : forall key_ok S f n p cargs data off ul l o,
  ser_wf S = true -> packer_fmt S p cargs f -> bytes_ok data -> (need f <= n)%nat -> (off <= length data)%nat ->
  r_unpack (run key_ok S n) p (VBytes data) (VInt (Z.of_nat off)) (VList ul) cargs = Ok (l, o) ->
  exists o', o = VInt (Z.of_nat o') /\ (off <= o' <= length data)%nat.
Proof. intros key_ok S f n p cargs data off ul l o Hwf. exact (gen_unpack_bounds_l key_ok S Hwf f n p cargs data off ul l o). Qed.
Print Assumptions gen_unpack_bounds.

(* C03 unpack_all_exact *)
Theorem gen_unpack_all_exact : forall key_ok S n c m data off r,
  ser_wf S = true -> fents_msg S (cls_formats c) m -> bytes_ok data -> (need_msg m + 2 <= n)%nat -> (off <= length data)%nat ->
  Serializer_unpack_serializable_list (run key_ok S n) S [c] (VBytes data) (VInt (Z.of_nat off)) (VBool true) = Ok r ->
  exists vs, unpack_msg key_ok m data off = Ok (vs, length data) /\ r = VList [VMsg (flat_msg m vs)].
Proof. intros key_ok S n c m data off r Hwf. exact (gen_unpack_all_exact_l key_ok S Hwf n c m data off r). Qed.
Print Assumptions gen_unpack_all_exact.

(* C03 varlen_declared *)
Theorem gen_varlen_declared : forall key_ok S lw base n p cargs data off ul l o,
  ser_wf S = true -> packer_fmt S p cargs (FVarLen lw base false) -> bytes_ok data -> (1 <= n)%nat ->
  r_unpack (run key_ok S n) p (VBytes data) (VInt (Z.of_nat off)) (VList ul) cargs = Ok (l, o) ->
  exists b len, l = VList (ul ++ [VBytes b]) /\ take lw off data = Ok len /\
                length b = (Z.to_nat (be_decode len) * base)%nat /\ o = VInt (Z.of_nat (off + lw + length b)) /\
                (off + lw + length b <= length data)%nat.
Proof. intros key_ok S lw base n p cargs data off ul l o Hwf. exact (gen_varlen_declared_l key_ok S Hwf lw base n p cargs data off ul l o). Qed.
Print Assumptions gen_varlen_declared.

(* non-vacuity, on the live objects (the four places where seeded changes once lived behave as the model says):
   a domain address at the very end of a buffer round-trips; the byte 0xFF decodes to eight set bits; a nested payload
   whose declared length exceeds the buffer by one is refused; a truncated 20s field is refused; a listed nested class
   decodes through payload-list *)
Definition live (n : bytes) : packer := match ser_find ser_live n with Ok p => p | Raise _ => Pk "" [] [] end.
Definition R0 := run (fun _ => true) ser_live 12.
Example c02y_nonvacuous :
  r_pack R0 (live [97; 100; 100; 114; 101; 115; 115]) [VAddr (ADom [104; 105] 80)] = Ok (VBytes [2; 0; 2; 104; 105; 0; 80]) /\
  r_unpack R0 (live [97; 100; 100; 114; 101; 115; 115]) (VBytes [9; 2; 0; 2; 104; 105; 0; 80]) (VInt 1) (VList []) []
    = Ok (VList [VAddr (ADom [104; 105] 80)], VInt 8) /\
  r_unpack R0 (live [98; 105; 116; 115]) (VBytes [255]) (VInt 0) (VList [VInt 7]) []
    = Ok (VList [VInt 7; VInt 1; VInt 1; VInt 1; VInt 1; VInt 1; VInt 1; VInt 1; VInt 1], VInt 1) /\
  r_unpack R0 (live n_payload) (VBytes [0; 3; 0; 5]) (VInt 0) (VList []) [cls_ipv8_dht_payload_PingRequestPayload]
    = Raise PackError /\
  r_unpack R0 (live n_payload) (VBytes [0; 4; 0; 0; 0; 5]) (VInt 0) (VList []) [cls_ipv8_dht_payload_PingRequestPayload]
    = Ok (VList [VMsg [VInt 5]], VInt 6) /\
  r_unpack R0 (live [50; 48; 115]) (VBytes [1; 2; 3]) (VInt 0) (VList []) [] = Raise StructError /\
  r_unpack R0 (live n_payload_list) (VBytes [2; 0; 4; 0; 0; 0; 5; 0; 4; 0; 0; 0; 6]) (VInt 0) (VList []) [cls_ipv8_dht_payload_PingRequestPayload]
    = Ok (VList [VList [VMsg [VInt 5]; VMsg [VInt 6]]], VInt 13) /\
  Serializer_unpack_serializable_list R0 ser_live [cls_ipv8_dht_payload_PingRequestPayload] (VBytes [0; 0; 0; 5; 9]) (VInt 0) (VBool true)
    = Raise PackError /\
  r_pack_serializable R0 (VMsg [VTuple [VStr [73]; VInt 5]]) = Ok (VBytes [0; 0; 0; 5]).
Proof. vm_compute. repeat split; reflexivity. Qed.
