(* C12x - snapshots of the peer graph over the `address` packer of the C02 wire model (IPv4, IPv6 and
   host-name records).  Property theorems only; same `./check C12`.
   The codec is not a private one: pack_address / unpack_address are model/M02_wire's pack / unpack of
   the format `FAddr false`, and the round trip below is derived from C02's theorem pack_unpack_fmt
   (proofs/P02_roundtrip.pack_unpack_fmt_l).  Host-name (DomainAddress) addresses are part of the
   modelled state: peers can have one (least preferred interface, fix 7095a0f), load_snapshot keeps
   whatever record unpacks, of any family. *)
From Coq Require Import ZArith List Bool.
From IPV8V Require Import lib.PyErr lib.Bytes model.M02_wire model.M12_network spec.S12_graph
  proofs.P12_base proofs.P12_inv proofs.P12_queries proofs.P12_snapshot proofs.P12_codec.
Import ListNotations.
Open Scope Z_scope.

(* A packed address record unpacks to exactly that address and ends exactly where it ends, at every
   record boundary of a buffer: whatever precedes it, whatever follows it - and with nothing after it
   (suf = []) the record that ends exactly at the end of the buffer is read, not skipped or over-read. *)
Theorem record_boundary_exact : forall a bs (pre suf : bytes),
  packable a -> pack_address a = Ok bs ->
  unpack_address (pre ++ bs ++ suf) (length pre) = Ok (a, (length pre + length bs)%nat).
Proof. exact record_boundary_exact_l. Qed.
Print Assumptions record_boundary_exact.

(* snapshot() of a reachable graph never raises: every address a verified peer can have is packable. *)
Theorem snapshot_never_raises : forall ipc intc svcc bla blm ops,
  Forall op_ok ops -> exists bs, snapshot (run (init_net ipc intc svcc bla blm) ops) = Ok bs.
Proof. exact snapshot_never_raises_l. Qed.
Print Assumptions snapshot_never_raises.

(* load_snapshot(snapshot(g)) into a fresh Network (any caps, any blacklists) recovers exactly the
   preferred non-null addresses of g's verified peers - of every family, in the order of the snapshot
   (first occurrences: _all_addresses is a dict) -, records nobody as their introducer, and makes exactly
   them walkable. *)
Theorem snapshot_roundtrip : forall ipc intc svcc bla blm ops ipc' intc' svcc' bla' blm' bs,
  Forall op_ok ops ->
  let n := run (init_net ipc intc svcc bla blm) ops in
  snapshot n = Ok bs ->
  let m := load_snapshot (init_net ipc' intc' svcc' bla' blm') bs in
  map fst (all_addrs m) = uniq (spec_snapshot_addrs (abs n)) /\
  (forall a w, In (a, w) (all_addrs m) -> w = blank) /\
  (forall x, In x (snd (get_walkable_addresses m None false)) <-> In x (spec_snapshot_addrs (abs n))).
Proof. exact snapshot_roundtrip_l. Qed.
Print Assumptions snapshot_roundtrip.

(* The same for the records in ANY order and multiplicity (the implementation iterates a set), loaded
   into ANY graph: the known addresses afterwards are the ones known before followed by the new ones in
   order of first occurrence, and every entry is either blank or was there before. *)
Theorem packed_loads_in_order : forall l n0 bs,
  Forall packable l -> packed l = Ok bs ->
  map fst (all_addrs (load_snapshot n0 bs)) = fold_left add_key l (map fst (all_addrs n0)) /\
  forall a w, In (a, w) (all_addrs (load_snapshot n0 bs)) -> w = blank \/ In (a, w) (all_addrs n0).
Proof. exact packed_loads_in_order_l. Qed.
Print Assumptions packed_loads_in_order.

(* A snapshot cut anywhere inside a record (IPv4, IPv6 or host name; also inside the length prefix or
   the host name itself) loads exactly the complete records before the cut: nothing of the cut record,
   no exception. *)
Theorem truncated_snapshot_loads_complete_records : forall l a bs ba j n,
  Forall packable l -> packed l = Ok bs -> packable a -> pack_address a = Ok ba -> (j < length ba)%nat ->
  all_addrs (load_snapshot n (bs ++ firstn j ba)) = all_addrs (load_snapshot n bs) /\
  intro_cache (load_snapshot n (bs ++ firstn j ba)) = intro_cache (load_snapshot n bs).
Proof. exact truncated_snapshot_l. Qed.
Print Assumptions truncated_snapshot_loads_complete_records.

(* ---- non-vacuity: a graph with a host-name-only peer (whose host name was replaced by an address
   update), a peer with IPv4 + host name and a peer with IPv4 + IPv6 *)
Definition x_a0 := A4 [1; 1; 1; 1] 1.
Definition x_a1 := A4 [2; 2; 2; 2] 2.
Definition x_a6 := A6 (repeat 0 15 ++ [3]) 3.
Definition x_g := run (init_net 500 500 500 [] [])
  [AddVerified 1 (mkAm None None (Some (ADom [104; 46; 120] 80)));
   AddVerified 2 (mkAm (Some x_a0) None (Some (ADom [105] 81)));
   AddVerified 3 (mkAm (Some x_a1) (Some x_a6) None);
   AddVerified 1 (mkAm None None (Some (ADom [106] 82)))].

Example c12x_snapshot_all_families :
  snapshot_addrs x_g = [ADom [106] 82; x_a0; x_a6] /\
  snapshot x_g = Ok ([2; 0; 1; 106; 0; 82] ++ [1; 1; 1; 1; 1; 0; 1] ++ 3 :: repeat 0 15 ++ [3; 0; 3]).
Proof. vm_compute. split; reflexivity. Qed.

Example c12x_reload_cut_and_garbage :
  match snapshot x_g with
  | Ok d =>
      let fresh := init_net 1 1 1 [] [] in
      map fst (all_addrs (load_snapshot fresh d)) = [ADom [106] 82; x_a0; x_a6] /\
      map fst (all_addrs (load_snapshot fresh (firstn 20 d))) = [ADom [106] 82; x_a0] /\
      map fst (all_addrs (load_snapshot fresh (d ++ [2; 0; 9; 104]))) = [ADom [106] 82; x_a0; x_a6] /\
      map fst (all_addrs (load_snapshot fresh ([2; 0; 2; 195; 40; 0; 1] ++ d))) = []
  | Raise _ => False
  end.
Proof. vm_compute. repeat split; reflexivity. Qed.
