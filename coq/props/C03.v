(* C03 - no datagram can make the receive path fail or over-read.  Property theorems only. *)
From Coq Require Import ZArith List Bool.
From IPV8V Require Import lib.PyErr lib.Bytes lib.BE model.M02_wire model.M03_recv
  proofs.P03_decode proofs.P03_recv.
Import ListNotations.
Open Scope Z_scope.

(* --- decoding --- *)
(* An accepted decode of any format, from any bytes: the reported end lies inside the buffer and
   not before the start. *)
Theorem unpack_bounds : forall key_ok f data off v off',
  (off <= length data)%nat -> unpack key_ok f data off = Ok (v, off') -> (off <= off' <= length data)%nat.
Proof. exact unpack_bounds_l. Qed.
Print Assumptions unpack_bounds.

Theorem unpack_msg_bounds : forall key_ok m data off vs off',
  (off <= length data)%nat -> unpack_msg key_ok m data off = Ok (vs, off') -> (off <= off' <= length data)%nat.
Proof. exact unpack_msg_bounds_l. Qed.
Print Assumptions unpack_msg_bounds.

(* consume_all: acceptance means the message ended exactly at the end of the datagram *)
Theorem unpack_all_exact : forall key_ok m data off vs,
  (off <= length data)%nat -> unpack_all key_ok m data off = Ok vs ->
  unpack_msg key_ok m data off = Ok (vs, length data).
Proof. exact unpack_all_exact_l. Qed.
Print Assumptions unpack_all_exact.

(* length-prefixed parts have exactly their declared length: a truncated body is never accepted *)
Theorem varlen_declared : forall key_ok lw base data off b o,
  unpack key_ok (FVarLen lw base false) data off = Ok (VBytes b, o) ->
  exists l, take lw off data = Ok l /\ length b = (Z.to_nat (be_decode l) * base)%nat
            /\ o = (off + lw + length b)%nat /\ (o <= length data)%nat.
Proof. exact varlen_declared_l. Qed.
Print Assumptions varlen_declared.

Theorem nested_declared : forall key_ok m data off vs o,
  unpack key_ok (FNested m) data off = Ok (VMsg vs, o) ->
  exists l, take 2 off data = Ok l /\ o = (off + 2 + Z.to_nat (be_decode l))%nat /\ (o <= length data)%nat.
Proof. exact nested_declared_l. Qed.
Print Assumptions nested_declared.

(* --- receive path --- *)
(* For every byte string, every listener table, whatever the handlers and the cell cryptography do:
   notify_listeners returns normally, and every handler entry happened in an overlay selected for the
   datagram whose 22-byte prefix matches, on at least 23 bytes, with the message id at byte 22. *)
Theorem notify_total : forall handler incoming relay_crypto,
  (forall cid p m m', incoming cid p m = Some m' -> bytes_ok m') ->
  forall ep data, bytes_ok data -> ep_wf ep ->
  exists evs, notify handler incoming relay_crypto ep data = Ok evs /\ Forall (gate_ok (selected ep data)) evs.
Proof. exact notify_total_l. Qed.
Print Assumptions notify_total.

(* every listener selected for the datagram gets it, whatever the earlier listeners did *)
Theorem notify_reaches_all : forall handler incoming relay_crypto ep data evs,
  ep_open ep = true -> notify handler incoming relay_crypto ep data = Ok evs ->
  forall il, In il (selected ep data) -> In (Delivered (fst il)) evs.
Proof. exact notify_reaches_l. Qed.
Print Assumptions notify_reaches_all.

Theorem short_is_ignored : forall handler incoming relay_crypto i l data,
  blen data < 23 -> on_packet handler incoming relay_crypto i l data = Ok [].
Proof. exact short_ignored_l. Qed.
Print Assumptions short_is_ignored.

Theorem prefix_gate : forall handler incoming relay_crypto i l data,
  slice data None (Some 22) <> c_prefix (listener_comm l) -> length (c_prefix (listener_comm l)) = 22%nat ->
  on_packet handler incoming relay_crypto i l data = Ok [].
Proof. exact foreign_prefix_l. Qed.
Print Assumptions prefix_gate.

(* non-vacuity: a real delivery with two overlays and a raising handler *)
Example c03_nonvacuous :
  let p1 := repeat 1 22 in let p2 := repeat 2 22 in
  let c1 := mkComm p1 [5; 7] in let c2 := mkComm p2 [0; 5] in
  let ep := mkEp true [] [(p1, [(0%nat, LComm c1)]); (p2, [(1%nat, LCrypto c2 true 8 [])])] in
  notify (fun _ _ _ => Raise ValueError) (fun _ _ m => Some m) (fun _ m => Some m) ep (p1 ++ [7; 9])
  = Ok [Delivered 0; Entered 0 7 (p1 ++ [7; 9])]
  /\ notify (fun _ _ _ => Ok tt) (fun _ _ m => Some m) (fun _ m => Some m) ep p1 = Ok [Delivered 0]
  /\ notify (fun _ _ _ => Ok tt) (fun _ _ m => Some m) (fun _ m => Some m) ep (p2 ++ [0; 0; 0; 0; 9; 1; 1; 2; 3])
     = Ok [Delivered 1; Entered 1 0 (p2 ++ [0; 0; 0; 0; 9; 1; 1; 2; 3])].
Proof. vm_compute. repeat split. Qed.
