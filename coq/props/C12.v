(* C12 - the peer graph's lookups always agree with its membership.  Property theorems only.
   Model: coq/model/M12_network.v (Network of ipv8/peerdiscovery/network.py, fixed tree);
   what the graph is and what each query must answer: coq/spec/S12_graph.v. *)
From Coq Require Import ZArith List Bool.
From IPV8V Require Import lib.PyErr lib.Bytes model.M02_wire model.M12_network spec.S12_graph
  proofs.P12_base proofs.P12_inv proofs.P12_queries proofs.P12_snapshot.
Import ListNotations.
Open Scope Z_scope.

(* After ANY sequence of operations (mutators, cache-mutating queries, cache overflows with any caps,
   snapshots) on a graph with any blacklists, every way of asking - by public key, by address (for
   every iteration order of the verified set), peers per service, services of a peer, walkable
   addresses (with and without service / old-style filter), introductions of a peer, snapshot
   contents - gives exactly what the verified peers, their addresses, the advertised services and the
   known addresses imply. *)
Theorem queries_agree : forall ipc intc svcc bla blm ops,
  answers_agree (run (init_net ipc intc svcc bla blm) ops).
Proof. exact queries_agree_l. Qed.
Print Assumptions queries_agree.

(* A query changes caches at most: the graph (verified peers with their addresses, services, known
   addresses) is the same before and after - in every state, reachable or not. *)
Theorem queries_pure : forall n o, is_query o = true -> abs (fst (step n o)) = abs n.
Proof. exact queries_pure_l. Qed.
Print Assumptions queries_pure.

(* Asking never changes the answer: after any run, any further sequence of questions leaves the graph
   unchanged, and every question asked afterwards is still answered from that same graph. *)
Theorem asking_changes_nothing : forall ipc intc svcc bla blm ops qs,
  all_queries qs ->
  let n := run (init_net ipc intc svcc bla blm) ops in
  abs (run n qs) = abs n /\ answers_agree (run n qs).
Proof. exact asking_changes_nothing_l. Qed.
Print Assumptions asking_changes_nothing.

(* remove_peer: whatever happened before and whatever is asked afterwards, no verified peer has the
   key any more and no lookup (by key, by any address, by any service) returns a peer with it. *)
Theorem removed_peer_is_gone : forall ipc intc svcc bla blm ops k am qs,
  all_queries qs ->
  let n := run (init_net ipc intc svcc bla blm) (ops ++ RemovePeer k am :: qs) in
  absent_key (abs n) k /\ never_returned n k.
Proof. exact removed_peer_is_gone_l. Qed.
Print Assumptions removed_peer_is_gone.

(* remove_by_address: nobody verified uses the address any more, lookup by that address answers None,
   and every peer that was verified at that address is gone from every lookup. *)
Theorem removed_by_address_is_gone : forall ipc intc svcc bla blm ops a qs,
  all_queries qs ->
  let n0 := run (init_net ipc intc svcc bla blm) ops in
  let n := run n0 (RemoveByAddress a :: qs) in
  unused_addr (abs n) a /\
  (forall hint, snd (get_verified_by_address n a hint) = None) /\
  (forall i, In i (verified n0) -> owns n0 a i = true ->
             absent_key (abs n) (hkey (heap n0) i) /\ never_returned n (hkey (heap n0) i)).
Proof. exact removed_by_address_is_gone_l. Qed.
Print Assumptions removed_by_address_is_gone.

(* A removed peer can be added again: add_verified_peer of a fresh Peer with that key (not
   blacklisted) verifies it, with exactly the new addresses, and lookup by key returns it. *)
Theorem removed_can_be_added_again : forall ipc intc svcc bla blm ops k am0 qs am,
  all_queries qs ->
  let n := run (init_net ipc intc svcc bla blm) (ops ++ RemovePeer k am0 :: qs) in
  blacklisted n k am = false ->
  let n' := fst (step n (AddVerified k am)) in
  exists i, get_verified_by_public_key_bin n' k = Some i /\ hget (heap n') i = (k, am) /\ In i (verified n').
Proof. exact removed_can_be_added_again_l. Qed.
Print Assumptions removed_can_be_added_again.

Theorem removed_by_address_can_be_added_again : forall ipc intc svcc bla blm ops a qs i am,
  all_queries qs ->
  let n0 := run (init_net ipc intc svcc bla blm) ops in
  let n := run n0 (RemoveByAddress a :: qs) in
  In i (verified n0) -> owns n0 a i = true ->
  let k := hkey (heap n0) i in
  blacklisted n k am = false ->
  let n' := fst (step n (AddVerified k am)) in
  exists j, get_verified_by_public_key_bin n' k = Some j /\ hget (heap n') j = (k, am) /\ In j (verified n').
Proof. exact removed_by_address_can_be_added_again_l. Qed.
Print Assumptions removed_by_address_can_be_added_again.

(* Blacklisted identities never become verified: in every reachable state no verified peer has a
   blacklisted mid, and none of its addresses is blacklisted. *)
Theorem blacklist_respected : forall ipc intc svcc bla blm ops,
  let n := run (init_net ipc intc svcc bla blm) ops in
  forall p, In p (g_peers (abs n)) ->
    ~ In (p_key p) blm /\ forall a, In a (p_addrs p) -> ~ In a bla.
Proof. exact blacklist_respected_l. Qed.
Print Assumptions blacklist_respected.

(* The snapshot round trip (over the `address` packer of the C02 wire model, all address families) is in
   props/C12x.v. *)

(* load_snapshot terminates on every byte string: the loop fuel of the model never runs out. *)
Theorem load_snapshot_total : forall n d,
  snd (load_loop (length d) d 0 (all_addrs n) (intro_cache n)) = false.
Proof. exact load_snapshot_total_l. Qed.
Print Assumptions load_snapshot_total.

(* The representation invariant behind all of the above holds in every reachable state: index =
   membership, cached service lists complete and duplicate free, cached introduction lists exact. *)
Theorem representation_invariant : forall ipc intc svcc bla blm ops,
  Inv (run (init_net ipc intc svcc bla blm) ops).
Proof. exact Inv_reachable. Qed.
Print Assumptions representation_invariant.

(* ---- non-vacuity: concrete histories *)
Definition ex_a0 := A4 [1; 1; 1; 1] 1.
Definition ex_a1 := A4 [2; 2; 2; 2] 2.
Definition ex_a6 := A6 (repeat 0 15 ++ [3]) 3.
Definition ex_m4 (a : addr) := mkAm (Some a) None None.
Definition ex_m0 := mkAm None None None.
Definition ex_h1 :=
  [AddVerified 1 (ex_m4 ex_a0); DiscoverServices 1 ex_m0 [7];
   GetByAddress ex_a0 None; GetPeersForService 7;
   DiscoverAddress 1 ex_m0 ex_a1 (Some 7) false; GetIntroductionsFrom 1].

(* warm caches, every lookup finds peer object 0 *)
Example c12_lookups_nonvacuous :
  let n := run (init_net 2 2 2 [] []) ex_h1 in
  (snd (get_verified_by_address n ex_a0 None), get_verified_by_public_key_bin n 1,
   snd (get_peers_for_service n 7), snd (get_walkable_addresses n (Some 7) false),
   snd (get_introductions_from n 1), ip_cache n, svc_cache n, intro_cache n)
  = (Some 0%nat, Some 0%nat, [0%nat], [ex_a1], [ex_a1], [(ex_a0, 0%nat)], [(7, [0%nat])], [(1, [ex_a1])]).
Proof. vm_compute. reflexivity. Qed.

(* after remove_by_address the address and service caches still hold the removed object, and yet
   nothing returns it *)
Example c12_removed_with_stale_caches :
  let n := run (init_net 2 2 2 [] []) (ex_h1 ++ [RemoveByAddress ex_a0]) in
  (ip_cache n, svc_cache n, snd (get_verified_by_address n ex_a0 None), get_verified_by_public_key_bin n 1,
   snd (get_peers_for_service n 7), snd (get_walkable_addresses n None false))
  = ([(ex_a0, 0%nat)], [(7, [0%nat])], None, None, [], [ex_a1]).
Proof. vm_compute. reflexivity. Qed.

(* ... and the peer can be added again (new object 3, new addresses); its snapshot reloads to the
   preferred (IPv6) address *)
Example c12_readd_and_snapshot :
  let n := run (init_net 2 2 2 [] [])
               (ex_h1 ++ [RemoveByAddress ex_a0; AddVerified 1 (mkAm (Some ex_a1) (Some ex_a6) None)]) in
  (get_verified_by_public_key_bin n 1, snd (get_verified_by_address n ex_a1 None), verified n,
   snapshot n, snapshot_reload n)
  = (Some 3%nat, Some 3%nat, [3%nat], Ok (3 :: repeat 0 15 ++ [3; 0; 3]), Ok [ex_a6]).
Proof. vm_compute. reflexivity. Qed.

(* blacklists: an address update onto a blacklisted address, a blacklisted mid and a peer at a
   blacklisted address that is already walkable (from a snapshot) are all refused *)
Example c12_blacklist_nonvacuous :
  let n := run (init_net 500 500 500 [ex_a1] [3])
               [AddVerified 1 (ex_m4 ex_a0); AddVerified 1 (ex_m4 ex_a1);
                AddVerified 3 (ex_m4 ex_a0); LoadSnapshot [1; 2; 2; 2; 2; 0; 2];
                AddVerified 2 (ex_m4 ex_a1)] in
  (verified n, map (hget (heap n)) (verified n), map fst (all_addrs n))
  = ([0%nat], [(1, ex_m4 ex_a0)], [ex_a0; ex_a1]).
Proof. vm_compute. reflexivity. Qed.
