(* C01, extension: the same property over the decorators as TRANSLATED from ipv8/lazy_community.py on every run
   (gen/G01_auth.v, by tools/tr/tr_auth.py) instead of the hand model M01_auth, and the clause that was an oracle only:
   over every sequence of incoming datagrams the verified-peer table changes only for keys that signed one of them.
   Property theorems only; lemmas are in proofs/P01_auth_gen.v, the runtime and the receiver model in
   model/M01_auth_gen.v.  `signed_by data pk`: pk is the key field of data, and data = signed part ++ signature of the
   length pk prescribes, valid under pk over the whole signed part.  `accepts payloads data pk objs`: signed_by, and the
   bytes between key field and signature decode completely (consume-all) as the payload classes, giving objs.
   `accepted d pk`: delivery d goes through a signed decorator and its datagram is accepted for pk (hence authentic). *)
From Coq Require Import ZArith List Bool.
From Coq Require String.
Import String.StringSyntax.
Delimit Scope string_scope with string.
From IPV8V Require Import lib.PyErr lib.Bytes lib.BE model.M02_wire model.M01_auth gen.G01_auth model.M01_auth_gen
  proofs.P01_auth_gen.
Import ListNotations.
Open Scope Z_scope.

(* lazy_wrapper, as translated: for ANY decorated function func and any receiver state, the wrapper either raises with
   the state untouched, or the signature oracle accepts (key field, data without signature, signature) and the whole
   effect and result of the wrapper is ONE call of func - with the Peer for exactly that key (the verified peer after
   add_address(source), else a new Peer of that key at the source address) and exactly the decoded payloads. *)
Theorem gen_lazy_wrapper_only_if_valid :
  forall key_ok verify siglen sign prefix sk pk0 payloads
         (func : callee (RT key_ok verify siglen sign prefix sk pk0)) src data (s s' : state) (r : res unit),
  lazy_wrapper__wrapper (RT key_ok verify siglen sign prefix sk pk0) payloads func src data s = (s', r) ->
  (s' = s /\ exists e, r = Raise e) \/
  exists pk objs, accepts key_ok verify siglen payloads data pk objs /\
     (s', r) = func (@HPeer (RT key_ok verify siglen sign prefix sk pk0) (snd (peer_handed s pk src))) (map APayload objs) (fst (peer_handed s pk src)).
Proof. exact lazy_wrapper_shape. Qed.
Print Assumptions gen_lazy_wrapper_only_if_valid.

(* lazy_wrapper_wd: the same, with the raw datagram as a further argument. *)
Theorem gen_lazy_wrapper_wd_only_if_valid :
  forall key_ok verify siglen sign prefix sk pk0 payloads
         (func : callee (RT key_ok verify siglen sign prefix sk pk0)) src data (s s' : state) (r : res unit),
  lazy_wrapper_wd__wrapper (RT key_ok verify siglen sign prefix sk pk0) payloads func src data s = (s', r) ->
  (s' = s /\ exists e, r = Raise e) \/
  exists pk objs, accepts key_ok verify siglen payloads data pk objs /\
     (s', r) = func (@HPeer (RT key_ok verify siglen sign prefix sk pk0) (snd (peer_handed s pk src))) (map APayload objs ++ [AData data]) (fst (peer_handed s pk src)).
Proof. exact lazy_wrapper_wd_shape. Qed.
Print Assumptions gen_lazy_wrapper_wd_only_if_valid.

(* The Peer handed to the handler carries exactly the key field of the datagram (the Network files peers under their
   own key: net_wf, an invariant of every history by gen_histories_keep_wf). *)
Theorem gen_peer_is_key : forall s pk src,
  net_wf (net s) -> pref_key (fst (peer_handed s pk src)) (snd (peer_handed s pk src)) = pk.
Proof. exact peer_handed_key. Qed.
Print Assumptions gen_peer_is_key.

(* The unsigned decorators hand over the source address only and never touch the Network. *)
Theorem gen_unsigned_wrappers_pass_address_only :
  forall key_ok verify siglen sign prefix sk pk0 payloads
         (func : callee (RT key_ok verify siglen sign prefix sk pk0)) src data (s s' : state) (r : res unit),
  (lazy_wrapper_unsigned__wrapper (RT key_ok verify siglen sign prefix sk pk0) payloads func src data s = (s', r) ->
   (s' = s /\ exists e, r = Raise e) \/
   exists objs, rtm_unpack_list key_ok payloads data 23 = Ok objs /\ (s', r) = func (@HAddr (RT key_ok verify siglen sign prefix sk pk0) src) (map APayload objs) s)
  /\
  (lazy_wrapper_unsigned_wd__wrapper (RT key_ok verify siglen sign prefix sk pk0) payloads func src data s = (s', r) ->
   (s' = s /\ exists e, r = Raise e) \/
   exists objs, rtm_unpack_list key_ok payloads data 23 = Ok objs
     /\ (s', r) = func (@HAddr (RT key_ok verify siglen sign prefix sk pk0) src) (map APayload objs ++ [AKw "data"%string data]) s).
Proof. intros. split; [apply lazy_wrapper_unsigned_shape|apply lazy_wrapper_unsigned_wd_shape]. Qed.
Print Assumptions gen_unsigned_wrappers_pass_address_only.

(* _ez_unpack_auth (handlers that authenticate by hand, DiscoveryCommunity 246): returns only for an accepted datagram,
   with the key field, and never touches the receiver's state. *)
Theorem gen_ez_unpack_auth_only_if_valid :
  forall key_ok verify siglen sign prefix sk pk0 pc data (s s' : state) r,
  EZ_ez_unpack_auth (RT key_ok verify siglen sign prefix sk pk0) pc data s = (s', r) ->
  s' = s /\
  forall a g p, r = Ok (a, g, p) ->
    accepts key_ok verify siglen [GlobalTimeDistributionPayload_cls; pc] data (public_key_bin a) [g; p].
Proof. exact ez_unpack_auth_sound. Qed.
Print Assumptions gen_ez_unpack_auth_only_if_valid.

(* One delivery through any of the four decorators, whatever the bytes, the source address and whatever the handler
   does with the Peer it is handed: either the Network is untouched and no Peer-taking handler was entered, or the
   datagram is authentic for the key pk it carries, the handler was entered once with the Peer of pk, and no entry
   of the Network other than pk's differs afterwards. *)
Theorem gen_delivery_step :
  forall key_ok verify siglen sign prefix sk pk0 s d,
  (net (deliver key_ok verify siglen sign prefix sk pk0 s d) = net s /\
   (calls (deliver key_ok verify siglen sign prefix sk pk0 s d) = calls s \/
    exists args, signed_kind (d_kind d) = false /\
      calls (deliver key_ok verify siglen sign prefix sk pk0 s d) = calls s ++ [(CAddr (d_src d), args)]))
  \/
  (exists pk args, accepted key_ok verify siglen d pk
     /\ calls (deliver key_ok verify siglen sign prefix sk pk0 s d)
        = calls s ++ [(snap_of key_ok verify siglen sign prefix sk pk0 s pk (d_src d), args)]
     /\ (forall k, k <> pk -> net_find (net (deliver key_ok verify siglen sign prefix sk pk0 s d)) k = net_find (net s) k)
     /\ (net_wf (net s) -> net_wf (net (deliver key_ok verify siglen sign prefix sk pk0 s d)))).
Proof. exact deliver_step. Qed.
Print Assumptions gen_delivery_step.

(* an accepted delivery is an authentic datagram: signed by the key it carries, over every byte before the signature *)
Theorem accepted_is_authentic :
  forall key_ok verify siglen d pk, accepted key_ok verify siglen d pk -> authentic key_ok verify siglen d pk.
Proof. exact accepted_authentic. Qed.
Print Assumptions accepted_is_authentic.

(* auth_no_verified_entry_without_key.  For EVERY sequence of incoming datagrams (authentic or not, any source address,
   any decorator kind, any handler behaviour), from any Network, and for every key k:
   the verified-peer set grows by k only if the sequence contains a datagram validly signed by k and accepted, and the
   address list recorded for k changes (including k's appearance) only if the sequence contains such a datagram.
   By induction over fold_left of deliveries. *)
Theorem auth_no_verified_entry_without_key :
  forall key_ok verify siglen sign prefix sk pk0 ds s k,
  let s' := run_deliveries key_ok verify siglen sign prefix sk pk0 ds s in
  (In k (net_keys (net s')) -> In k (net_keys (net s)) \/ exists d, In d ds /\ accepted key_ok verify siglen d k)
  /\ (net_addrs (net s') k <> net_addrs (net s) k -> exists d, In d ds /\ accepted key_ok verify siglen d k).
Proof. exact no_verified_entry_without_key_l. Qed.
Print Assumptions auth_no_verified_entry_without_key.

(* the underlying invariant: the Network's entry for k (object and addresses) is unchanged by a history without a
   datagram authentic for k *)
Theorem gen_histories_touch_only_signed_keys :
  forall key_ok verify siglen sign prefix sk pk0 ds s k,
  net_find (net (run_deliveries key_ok verify siglen sign prefix sk pk0 ds s)) k = net_find (net s) k
  \/ exists d, In d ds /\ accepted key_ok verify siglen d k.
Proof. intros. apply run_find. Qed.
Print Assumptions gen_histories_touch_only_signed_keys.

Theorem gen_histories_keep_wf :
  forall key_ok verify siglen sign prefix sk pk0 ds s,
  net_wf (net s) -> net_wf (net (run_deliveries key_ok verify siglen sign prefix sk pk0 ds s)).
Proof. intros. apply run_wf. assumption. Qed.
Print Assumptions gen_histories_keep_wf.

(* Every handler entry recorded over a history: an entry with a Peer carries the key of a datagram of the history that
   is authentic for exactly that key; an entry with an Address came through an unsigned decorator. *)
Theorem gen_handler_entries_authentic :
  forall key_ok verify siglen sign prefix sk pk0 ds s c,
  net_wf (net s) ->
  In c (calls (run_deliveries key_ok verify siglen sign prefix sk pk0 ds s)) ->
  In c (calls s)
  \/ (exists a args d, c = (CAddr a, args) /\ In d ds /\ signed_kind (d_kind d) = false /\ a = d_src d)
  \/ (exists pk addrs b args d, c = (CPeer pk addrs b, args) /\ In d ds /\ accepted key_ok verify siglen d pk).
Proof. intros until c. apply run_calls. Qed.
Print Assumptions gen_handler_entries_authentic.

(* Completeness (the acceptance path is not vacuous, and nothing else decides): an accepted datagram DOES reach the
   decorated function, with that Peer and those payloads - so the translated lazy_wrapper calls func if and only if
   `accepts` holds. *)
Theorem gen_lazy_wrapper_accepts_valid :
  forall key_ok verify siglen sign prefix sk pk0 payloads
         (func : callee (RT key_ok verify siglen sign prefix sk pk0)) src data (s : state) pk objs,
  accepts key_ok verify siglen payloads data pk objs ->
  lazy_wrapper__wrapper (RT key_ok verify siglen sign prefix sk pk0) payloads func src data s =
  func (@HPeer (RT key_ok verify siglen sign prefix sk pk0) (snd (peer_handed s pk src))) (map APayload objs)
       (fst (peer_handed s pk src))
  /\
  lazy_wrapper_wd__wrapper (RT key_ok verify siglen sign prefix sk pk0) payloads func src data s =
  func (@HPeer (RT key_ok verify siglen sign prefix sk pk0) (snd (peer_handed s pk src))) (map APayload objs ++ [AData data])
       (fst (peer_handed s pk src)).
Proof. intros. split; [apply lazy_wrapper_complete|apply lazy_wrapper_wd_complete]; assumption. Qed.
Print Assumptions gen_lazy_wrapper_accepts_valid.

(* The translated decorators accept exactly what the hand model M01_auth.wrapper_signed (theorems of props/C01.v)
   accepts, with the same key and the same values (payload classes one after the other = the concatenated format
   list): the hand model is now a proved consequence of the translated code, not only a tested one. *)
Theorem gen_refines_hand_model :
  forall key_ok verify siglen payloads data pk,
  (forall objs, accepts key_ok verify siglen payloads data pk objs ->
     wrapper_signed key_ok verify siglen (msg_of_list (concat payloads)) data = Ok (Invoke pk (concat objs)))
  /\
  (forall vs, wrapper_signed key_ok verify siglen (msg_of_list (concat payloads)) data = Ok (Invoke pk vs) ->
     exists objs, vs = concat objs /\ accepts key_ok verify siglen payloads data pk objs).
Proof. intros. split; intros; [apply accepts_hand|apply hand_accepts]; assumption. Qed.
Print Assumptions gen_refines_hand_model.

(* The sender as translated (ezr_pack / _ez_pack) produces what the hand model's ez_pack produces. *)
Theorem gen_ezr_pack_is_ez_pack :
  forall key_ok verify siglen sign prefix sk pk0 msg_num insts (s s' : state) data,
  EZ_ezr_pack (RT key_ok verify siglen sign prefix sk pk0) msg_num insts true s = (s', Ok data) ->
  s' = s /\
  ez_pack key_ok sign sk pk0 prefix msg_num (msg_of_list (concat (map fst insts))) (concat (map snd insts)) = Ok data.
Proof. exact ezr_pack_hand. Qed.
Print Assumptions gen_ezr_pack_is_ez_pack.

(* Sender and receiver agree on the translated code of both sides, for every message definition and every correct
   signature scheme: what the translated ezr_pack(sig=True) hands to the endpoint is accepted by the translated
   lazy_wrapper, attributed to the sender's key, with exactly the packed values. *)
Theorem gen_sound_send :
  forall key_ok verify siglen sign prefix sk pk0 msg_num insts (s0 s0' : state) data n,
  length prefix = 22%nat ->
  wf_msg (msg_of_list (concat (map fst insts))) = true ->
  msg_ok key_ok (msg_of_list (concat (map fst insts))) (concat (map snd insts)) = true ->
  (Z.of_nat (length pk0) <? 65536) = true -> bytes_okb pk0 = true ->
  siglen pk0 = Ok n -> (0 < n)%nat ->
  (forall msg, length (sign sk msg) = n /\ verify pk0 msg (sign sk msg) = true) ->
  EZ_ezr_pack (RT key_ok verify siglen sign prefix sk pk0) msg_num insts true s0 = (s0', Ok data) ->
  exists objs, concat objs = concat (map snd insts) /\
    forall (func : callee (RT key_ok verify siglen sign prefix sk pk0)) src (s : state),
      lazy_wrapper__wrapper (RT key_ok verify siglen sign prefix sk pk0) (map fst insts) func src data s =
      func (@HPeer (RT key_ok verify siglen sign prefix sk pk0) (snd (peer_handed s pk0 src))) (map APayload objs)
           (fst (peer_handed s pk0 src)).
Proof. exact gen_sound_send_l. Qed.
Print Assumptions gen_sound_send.

(* ---- non-vacuity, with a toy signature scheme: signature = [sum of the message bytes mod 256; 7] ---- *)
Definition toy_verify (pk msg sg : bytes) : bool := bytes_eqb sg [fold_left Z.add msg 0 mod 256; 7].
Definition toy_sign (sk msg : bytes) : bytes := [fold_left Z.add msg 0 mod 256; 7].
Definition toy_siglen (pk : bytes) : res nat := if bytes_eqb pk [] then Raise ValueError else Ok 2%nat.
Definition toy_insts : list pinst := [([FStruct [PU 8]], [VInt 77]); ([FVarLen 2 1 false], [VBytes [1; 2]])].
Definition toy_deliver := deliver (fun _ => true) toy_verify toy_siglen toy_sign (repeat 5 22) [1] [9; 9; 9].
Definition toy_run := run_deliveries (fun _ => true) toy_verify toy_siglen toy_sign (repeat 5 22) [1] [9; 9; 9].
Definition toy_src : paddr := (1, [49; 48], 1000).
Definition toy_src2 : paddr := (1, [54; 54], 666).

(* the translated sender's datagram reaches the handler of the translated receiver (which files the Peer): key [9;9;9]
   becomes verified at the source address; the same datagram with one payload byte changed does nothing at all *)
Example c01x_nonvacuous_accept_reject :
  match ezr_pack_gen (fun _ => true) toy_verify toy_siglen toy_sign (repeat 5 22) [1] [9; 9; 9] 42 toy_insts true (mkState [] []) with
  | Ok data =>
      let d := mkD KSigned (map fst toy_insts) [HAddVerified] toy_src data in
      let bad := mkD KSigned (map fst toy_insts) [HAddVerified] toy_src (firstn 30 data ++ [1] ++ skipn 31 data) in
      toy_deliver (mkState [] []) d
        = mkState [([9; 9; 9], mkPeer [9; 9; 9] [toy_src] false)]
                  [(CPeer [9; 9; 9] [toy_src] false, [APayload [VInt 77]; APayload [VBytes [1; 2]]])]
      /\ toy_deliver (mkState [] []) bad = mkState [] []
  | Raise _ => False
  end.
Proof. vm_compute. split; reflexivity. Qed.

(* a history: forged datagram naming the key, the authentic one, a forged one from another address, the authentic one
   replayed from that other address through lazy_wrapper_wd: only the authentic deliveries enter the handler, the forged
   ones neither create the entry nor move the verified peer's address *)
Example c01x_nonvacuous_history :
  match ezr_pack_gen (fun _ => true) toy_verify toy_siglen toy_sign (repeat 5 22) [1] [9; 9; 9] 42 toy_insts true (mkState [] []) with
  | Ok data =>
      let forged := firstn 40 data ++ [200] ++ skipn 41 data in
      let cs := map fst toy_insts in
      let h1 := [mkD KSigned cs [HAddVerified] toy_src2 forged] in
      let h2 := h1 ++ [mkD KSigned cs [HAddVerified] toy_src data] in
      let h3 := h2 ++ [mkD KSignedWd cs [HSetAddress (2, [7], 7)] toy_src2 forged] in
      let h4 := h3 ++ [mkD KSignedWd cs [] toy_src2 data] in
      net (toy_run h1 (mkState [] [])) = []
      /\ net (toy_run h2 (mkState [] [])) = [([9; 9; 9], mkPeer [9; 9; 9] [toy_src] false)]
      /\ toy_run h3 (mkState [] []) = toy_run h2 (mkState [] [])
      /\ net (toy_run h4 (mkState [] [])) = [([9; 9; 9], mkPeer [9; 9; 9] [toy_src2] false)]
      /\ length (calls (toy_run h4 (mkState [] []))) = 2%nat
  | Raise _ => False
  end.
Proof. vm_compute. repeat split; reflexivity. Qed.

(* the unsigned decorators hand over the address, never a Peer, and leave the Network alone *)
Example c01x_nonvacuous_unsigned :
  let data := repeat 5 22 ++ [42] ++ [0; 0; 0; 0; 0; 0; 0; 77] in
  toy_deliver (mkState [([9; 9; 9], mkPeer [9; 9; 9] [toy_src] false)] [])
              (mkD KUnsignedWd [[FStruct [PU 8]]] [HAddVerified; HSetAddress toy_src2] toy_src2 data)
  = mkState [([9; 9; 9], mkPeer [9; 9; 9] [toy_src] false)] [(CAddr toy_src2, [APayload [VInt 77]; AKw "data"%string data])].
Proof. vm_compute. reflexivity. Qed.
