(* C05: the routing-table invariant is preserved by every operation, hence over every history. *)
From Coq Require Import ZArith List Bool Lia ZifyBool Arith.
From IPV8V Require Import lib.PyErr lib.Bytes lib.BE model.M02_wire model.M03_recv model.M04_onion model.M05_isolation
  spec.S04_onion_spec spec.S05_isolation_spec proofs.P04_base proofs.P05_tables proofs.P05_control.
Import ListNotations.
Open Scope Z_scope.

Lemma cores_assoc {A B} (f : A -> B) : forall (l l' : list (Z * A)),
  cores f l = cores f l' ->
  forall x, match assoc x l, assoc x l' with
            | Some v, Some v' => f v = f v'
            | None, None => True
            | _, _ => False
            end.
Proof.
  unfold cores. induction l as [|[k v] tl IH]; intros [|[k' v'] tl'] H x; try discriminate; cbn [assoc]; [exact I|].
  cbn [map fst snd] in H. injection H as Hk Hv Ht. subst k'. destruct (x =? k); [exact Hv | apply IH; exact Ht].
Qed.

Lemma cores_has {A B} (f : A -> B) (l l' : list (Z * A)) x : cores f l = cores f l' -> has x l = has x l'.
Proof.
  intros H. pose proof (cores_assoc f l l' H x) as C. unfold has.
  destruct (assoc x l), (assoc x l'); try reflexivity; contradiction.
Qed.

Lemma cores_back {A B} (f : A -> B) (l l' : list (Z * A)) x v' :
  cores f l = cores f l' -> assoc x l' = Some v' -> exists v, assoc x l = Some v /\ f v = f v'.
Proof.
  intros H Ha. pose proof (cores_assoc f l l' H x) as C. rewrite Ha in C.
  destruct (assoc x l) as [v|]; [eauto | contradiction].
Qed.

Lemma has_upd_existing {A} k (v : A) l x : has k l = true -> has x (upd k v l) = has x l.
Proof.
  intros H. destruct (Z.eq_dec x k) as [->|Hn]; [rewrite has_upd_same; auto | apply has_upd_other; exact Hn].
Qed.

Lemma has_del_le {A} k (l : list (Z * A)) x : has x (del k l) = true -> has x l = true.
Proof.
  unfold has. destruct (assoc x (del k l)) as [v|] eqn:E; [|discriminate].
  apply assoc_del_some in E as [_ E]. rewrite E. reflexivity.
Qed.

Section Inv.
Variables key nonce : Type.
Variable enc : key -> dir -> nonce -> bytes -> bytes.
Variable dec : key -> dir -> bytes -> option bytes.
Notation cnode := (cnode key).
Notation cstep := (cstep enc dec).
Notation crun := (crun enc dec).
Notation tables_ok := (@tables_ok key).

Lemma in_use_same (a b : node key) x : same_tables a b -> in_use a x = in_use b x.
Proof.
  intros (_ & _ & _ & _ & _ & _ & Hc & Hr & He). unfold in_use.
  rewrite (cores_has circuit_core _ _ x Hc), (cores_has relay_core _ _ x Hr), (cores_has exit_core _ _ x He). reflexivity.
Qed.

(* a state whose tables are the same up to counters, with at least the same scheduled removals and the same
   pending extends *)
Lemma ok_same (c : cnode) t' created' pend' :
  tables_ok c -> same_tables (cn_tab c) t' -> (forall p, In p (cn_pending c) -> In p pend') ->
  tables_ok (mkCN t' created' (cn_create c) pend' (cn_max_joined c)).
Proof.
  intros [R H E C D] S P. pose proof S as (_ & _ & _ & _ & _ & _ & Hc & Hr & He).
  constructor; cbn [cn_tab cn_pending cn_create].
  - intros x Hx. unfold ids_in in *. rewrite <- (cores_has circuit_core _ _ x Hc) in Hx.
    rewrite <- (cores_has relay_core _ _ x Hr), <- (cores_has exit_core _ _ x He). apply R. exact Hx.
  - intros x r' es' Ar Ae.
    destruct (cores_back relay_core _ _ x r' Hr Ar) as (r & Ar0 & Cr).
    destruct (cores_back exit_core _ _ x es' He Ae) as (es & Ae0 & Ce).
    destruct (H x r es Ar0 Ae0) as [Hp Hk]. split; [apply P; exact Hp|].
    unfold relay_core in Cr. unfold exit_core in Ce. injection Cr as _ Hh _ _. injection Ce as _ Hh2. congruence.
  - intros x es' Ae. destruct (cores_back exit_core _ _ x es' He Ae) as (es & Ae0 & Ce).
    unfold exit_core in Ce. injection Ce as Hid _. rewrite <- Hid. apply (E x es Ae0).
  - intros n rq Hn. rewrite <- (in_use_same _ _ (cr_to rq) S). apply (C n rq Hn).
  - exact D.
Qed.

Lemma ok_more_pending (c : cnode) extra : tables_ok c -> tables_ok (add_pending c extra).
Proof.
  intros O. destruct c as [t cr ce pe mj]. unfold add_pending. cbn [cn_tab cn_created cn_create cn_pending cn_max_joined].
  apply (ok_same (mkCN t cr ce pe mj) t cr (pe ++ extra) O (same_refl key t)).
  intros p Hp. apply in_or_app. left. exact Hp.
Qed.

Lemma ok_created_only (c : cnode) created' : tables_ok c ->
  tables_ok (mkCN (cn_tab c) created' (cn_create c) (cn_pending c) (cn_max_joined c)).
Proof. intros O. apply (ok_same c (cn_tab c) created' (cn_pending c) O (same_refl key _)). auto. Qed.

(* closing a circuit / replacing one of our own circuits under an id we already hold *)
Lemma ok_upd_circuit (c : cnode) cid ci pend' :
  tables_ok c -> has cid (n_circuits (cn_tab c)) = true -> (forall p, In p (cn_pending c) -> In p pend') ->
  tables_ok (mkCN (set_circuits (cn_tab c) (upd cid ci (n_circuits (cn_tab c)))) (cn_created c) (cn_create c) pend' (cn_max_joined c)).
Proof.
  intros [R H E C D] Hh P. constructor; cbn.
  - intros x Hx. unfold ids_in in *. rewrite has_upd_existing in Hx by exact Hh. apply R. exact Hx.
  - intros x r es Ar Ae. destruct (H x r es Ar Ae) as [Hp Hk]. split; [apply P; exact Hp | exact Hk].
  - exact E.
  - intros n rq Hn. pose proof (C n rq Hn) as U. unfold in_use in *. cbn. rewrite has_upd_existing by exact Hh. exact U.
  - exact D.
Qed.

Lemma remove_circuit_ok (c : cnode) cid reason c' acts :
  tables_ok c -> remove_circuit c cid reason = Ok (c', acts) -> tables_ok c'.
Proof.
  intros O. unfold remove_circuit. destruct (assoc cid (n_circuits (cn_tab c))) as [ci|] eqn:Ea.
  - match goal with |- (do a <- ?X; _) = _ -> _ => destruct X end; cbn [bind]; [|discriminate].
    intros H. injection H as <- <-. unfold add_pending, set_tab. cbn [cn_tab cn_created cn_create cn_pending cn_max_joined].
    apply (ok_upd_circuit c cid _ _ O (assoc_has _ _ _ Ea)). intros p Hp. apply in_or_app. left. exact Hp.
  - intros H. injection H as <- <-. exact O.
Qed.

Lemma on_destroy_ok (c : cnode) pk cid reason c' acts :
  tables_ok c -> on_destroy c pk cid reason = Ok (c', acts) -> tables_ok c'.
Proof.
  intros O. unfold on_destroy.
  assert (CIRC : forall ci : circuit key, (do h0 <- circuit_hop ci;
       if peer_eqb (mkPeer pk null_addr) (hop_peer h0) then remove_circuit c cid 0 else Ok (c, [])) = Ok (c', acts) -> tables_ok c').
  { intros ci. destruct (circuit_hop ci) as [h0|]; cbn [bind]; [|discriminate].
    destruct (peer_eqb (mkPeer pk null_addr) (hop_peer h0)); [apply remove_circuit_ok; exact O | intros H; injection H as <- <-; exact O]. }
  assert (NOP : Ok (c, []) = Ok (c', acts) -> tables_ok c') by (intros H; injection H as <- <-; exact O).
  assert (EXIT : forall es : exit_sock key, (if peer_eqb (mkPeer pk null_addr) (hop_peer (es_hop es)) then Ok (remove_exit c cid 0)
       else match assoc cid (n_circuits (cn_tab c)) with Some ci => do h0 <- circuit_hop ci;
              if peer_eqb (mkPeer pk null_addr) (hop_peer h0) then remove_circuit c cid 0 else Ok (c, []) | None => Ok (c, []) end) = Ok (c', acts) -> tables_ok c').
  { intros es. destruct (peer_eqb (mkPeer pk null_addr) (hop_peer (es_hop es))).
    - intros H. injection H as <- <-. apply ok_more_pending. exact O.
    - destruct (assoc cid (n_circuits (cn_tab c))); [apply CIRC | apply NOP]. }
  destruct (assoc cid (n_relays (cn_tab c))) as [r|].
  - destruct (assoc (rr_cid r) (n_relays (cn_tab c))) as [pr|].
    + destruct (peer_eqb (mkPeer pk null_addr) (hop_peer (rr_hop pr))).
      * intros H. cbn in H. injection H as <- <-. apply ok_more_pending. apply ok_more_pending. exact O.
      * destruct (assoc cid (n_exits (cn_tab c))); [apply EXIT|].
        destruct (assoc cid (n_circuits (cn_tab c))); [apply CIRC | apply NOP].
    + destruct (assoc cid (n_exits (cn_tab c))); [apply EXIT|].
      destruct (assoc cid (n_circuits (cn_tab c))); [apply CIRC | apply NOP].
  - destruct (assoc cid (n_exits (cn_tab c))); [apply EXIT|].
    destruct (assoc cid (n_circuits (cn_tab c))); [apply CIRC | apply NOP].
Qed.

Lemma in_use_false (t : node key) x : in_use t x = false ->
  has x (n_circuits t) = false /\ has x (n_relays t) = false /\ has x (n_exits t) = false.
Proof. unfold in_use. intros H. apply orb_false_iff in H as [H H3]. apply orb_false_iff in H as [H1 H2]. auto. Qed.

Lemma on_create_ok (c : cnode) src cid ident npk k cands :
  tables_ok c -> no_pending_target c cid -> tables_ok (fst (on_create c src cid ident npk k cands)).
Proof.
  intros O F. unfold on_create. destruct (n_flags (cn_tab c)); [exact O|].
  destruct (has cid (cn_created c)); [exact O|].
  destruct (in_use (cn_tab c) cid) eqn:Eu; [exact O|].
  match goal with |- tables_ok (fst (if ?b then _ else _)) => destruct b end; [exact O|].
  destruct k as [k0|]; [|exact O]. destruct npk as [pk|]; [|exact O].
  cbn [fst]. destruct (in_use_false _ _ Eu) as (U1 & U2 & U3). destruct O as [R H E C D].
  constructor; cbn.
  - intros x Hx. unfold ids_in in *. destruct (R x Hx) as [R1 R2]. split; [exact R1|].
    destruct (Z.eq_dec x cid) as [->|Hn]; [congruence|]. rewrite has_upd_other by exact Hn. exact R2.
  - intros x r es Ar Ae. destruct (Z.eq_dec x cid) as [->|Hn].
    + apply assoc_has in Ar. congruence.
    + rewrite assoc_upd_other in Ae by exact Hn. apply (H x r es Ar Ae).
  - intros x es Ae. destruct (Z.eq_dec x cid) as [->|Hn].
    + rewrite assoc_upd_same in Ae. injection Ae as <-. reflexivity.
    + rewrite assoc_upd_other in Ae by exact Hn. apply (E x es Ae).
  - intros n rq Hn. pose proof (C n rq Hn) as U. pose proof (F n rq Hn) as Hne. unfold in_use in *. cbn.
    rewrite has_upd_other by exact Hne. exact U.
  - exact D.
Qed.

Lemma on_created_ok (c : cnode) src cid ident : tables_ok c -> tables_ok (fst (on_created c src cid ident)).
Proof.
  intros O. unfold on_created. destruct (assoc ident (cn_create c)) as [rq|] eqn:Ea; [|exact O].
  destruct O as [R H E C D].
  assert (SUB : forall n r, assoc n (del ident (cn_create c)) = Some r -> n <> ident /\ assoc n (cn_create c) = Some r)
    by (intros n r Hn; apply assoc_del_some; exact Hn).
  destruct (assoc (cr_from rq) (n_exits (cn_tab c))) as [es|] eqn:Ee; cbn [fst].
  2:{ constructor; cbn; auto.
      - intros n r Hn. apply (C n r). apply SUB. exact Hn.
      - intros n1 n2 r1 r2 H1 H2. apply (D n1 n2 r1 r2); apply SUB; assumption. }
  destruct (has (cr_from rq) (n_relays (cn_tab c))) eqn:Efr; cbn [fst].
  { constructor; cbn; auto.
    - intros n r Hn. apply (C n r). apply SUB. exact Hn.
    - intros n1 n2 r1 r2 H1 H2. apply (D n1 n2 r1 r2); apply SUB; assumption. }
  destruct (in_use_false _ _ (C ident rq Ea)) as (T1 & T2 & T3).
  assert (Hft : cr_to rq <> cr_from rq). { intros Heq. rewrite Heq in T3. apply assoc_has in Ee. congruence. }
  constructor; cbn.
  - intros x Hx. unfold ids_in in *. destruct (R x Hx) as [R1 R2]. split; [|exact R2].
    assert (x <> cr_from rq) by (intros ->; apply assoc_has in Ee; congruence).
    assert (x <> cr_to rq) by (intros ->; congruence).
    rewrite !has_upd_other by assumption. exact R1.
  - intros x r es0 Ar Ae. destruct (Z.eq_dec x (cr_from rq)) as [->|Hn1].
    + rewrite assoc_upd_same in Ar. injection Ar as <-. rewrite Ee in Ae. injection Ae as <-. cbn.
      split; [apply in_or_app; right; left; reflexivity | reflexivity].
    + rewrite assoc_upd_other in Ar by exact Hn1. destruct (Z.eq_dec x (cr_to rq)) as [->|Hn2].
      * apply assoc_has in Ae. congruence.
      * rewrite assoc_upd_other in Ar by exact Hn2. destruct (H x r es0 Ar Ae) as [Hp Hk].
        split; [apply in_or_app; left; exact Hp | exact Hk].
  - exact E.
  - intros n r Hn. destruct (SUB n r Hn) as [Hne Hn0]. pose proof (C n r Hn0) as U.
    destruct (in_use_false _ _ U) as (U1 & U2 & U3). unfold in_use. cbn.
    assert (cr_to r <> cr_to rq) by (apply (D n ident r rq Hn0 Ea Hne)).
    assert (cr_to r <> cr_from rq) by (intros Heq; rewrite Heq in U3; apply assoc_has in Ee; congruence).
    rewrite !has_upd_other by assumption. rewrite U1, U2, U3. reflexivity.
  - intros n1 n2 r1 r2 H1 H2. apply (D n1 n2 r1 r2); apply SUB; assumption.
Qed.

Lemma on_extend_ok (c : cnode) src cid ident npk naddr known number tocid :
  tables_ok c -> in_use (cn_tab c) tocid = false -> no_pending_target c tocid -> assoc number (cn_create c) = None ->
  tables_ok (fst (on_extend c src cid ident npk naddr known number tocid)).
Proof.
  intros O F1 F2 F3. unfold on_extend.
  destruct (negb (existsb (Z.eqb 1) (n_flags (cn_tab c)))); [exact O|].
  destruct (assoc cid (cn_created c)) as [rq|]; [|exact O].
  destruct (assoc_peer npk (cc_candidates rq)) as [p|]; [|destruct (is_null naddr); [exact O|]];
  match goal with |- tables_ok (fst (match ?cand with Some cd => _ | None => _ end)) => destruct cand as [cd|]; [|exact O] end;
  cbn [fst]; destruct O as [R H E C D]; (constructor; cbn; auto;
   [ intros n r Hn; destruct (Z.eq_dec n number) as [->|Hne];
     [rewrite assoc_upd_same in Hn; injection Hn as <-; exact F1 | rewrite assoc_upd_other in Hn by exact Hne; apply (C n r Hn)]
   | intros n1 n2 r1 r2 H1 H2 Hne;
     destruct (Z.eq_dec n1 number) as [->|N1]; destruct (Z.eq_dec n2 number) as [->|N2]; try congruence;
     [ rewrite assoc_upd_same in H1; injection H1 as <-; rewrite assoc_upd_other in H2 by exact N2; cbn; intros Heq; apply (F2 n2 r2 H2); auto
     | rewrite assoc_upd_same in H2; injection H2 as <-; rewrite assoc_upd_other in H1 by exact N1; cbn; apply (F2 n1 r1 H1)
     | rewrite assoc_upd_other in H1 by exact N1; rewrite assoc_upd_other in H2 by exact N2; apply (D n1 n2 r1 r2 H1 H2 Hne) ] ]).
Qed.

Lemma timer_ok (c : cnode) :
  tables_ok c -> tables_ok (mkCN (fold_left pop_pending (cn_pending c) (cn_tab c)) (cn_created c) (cn_create c) [] (cn_max_joined c)).
Proof.
  intros [R H E C D]. destruct (fold_pop_sub key (cn_pending c) (cn_tab c)) as (F1 & F2 & F3).
  assert (HAS : forall {A} (l l' : list (Z * A)) x, (forall v, assoc x l' = Some v -> assoc x l = Some v) -> has x l = false -> has x l' = false).
  { intros A l l' x Hs Hf. unfold has in *. destruct (assoc x l') as [v|] eqn:Ev; [|reflexivity]. rewrite (Hs v eq_refl) in Hf. discriminate. }
  constructor; cbn.
  - intros x Hx. unfold ids_in in *. apply has_true in Hx as [v Hv]. apply F3 in Hv. apply assoc_has in Hv.
    destruct (R x Hv) as [R1 R2]. split; [apply (HAS _ _ _ x (F1 x) R1) | apply (HAS _ _ _ x (F2 x) R2)].
  - intros x r es Ar Ae. exfalso. destruct (H x r es (F1 _ _ Ar) (F2 _ _ Ae)) as [Hp _].
    rewrite (fold_pop_exit_gone key (cn_pending c) (cn_tab c) x Hp) in Ae. discriminate.
  - intros x es Ae. apply (E x es (F2 _ _ Ae)).
  - intros n rq Hn. destruct (in_use_false _ _ (C n rq Hn)) as (U1 & U2 & U3). unfold in_use.
    rewrite (HAS _ _ _ _ (F3 _) U1), (HAS _ _ _ _ (F1 _) U2), (HAS _ _ _ _ (F2 _) U3). reflexivity.
  - exact D.
Qed.

Lemma new_circuit_ok (c : cnode) cid ci :
  tables_ok c -> in_use (cn_tab c) cid = false -> no_pending_target c cid ->
  tables_ok (set_tab c (set_circuits (cn_tab c) (upd cid ci (n_circuits (cn_tab c))))).
Proof.
  intros [R H E C D] Fu Fp. destruct (in_use_false _ _ Fu) as (U1 & U2 & U3). constructor; cbn.
  - intros x Hx. unfold ids_in in *. destruct (Z.eq_dec x cid) as [->|Hn]; [auto|].
    rewrite has_upd_other in Hx by exact Hn. apply R. exact Hx.
  - exact H.
  - exact E.
  - intros n rq Hn. pose proof (C n rq Hn) as U. unfold in_use in *. cbn. rewrite has_upd_other by (apply (Fp n rq Hn)). exact U.
  - exact D.
Qed.

(* tables_inv, one step *)
Lemma cstep_ok (c : cnode) o c' acts :
  tables_ok c -> op_fresh c o -> cstep c o = Ok (c', acts) -> tables_ok c'.
Proof.
  intros O F. destruct o; cbn [M05_isolation.cstep].
  - destruct (on_packet enc dec (cn_tab c) src pkt (fun _ => rnd) ns) as [[t' a]|] eqn:Ep; cbn [bind]; [|discriminate].
    intros H. injection H as <- <-. unfold set_tab.
    apply (ok_same c t' (cn_created c) (cn_pending c) O (on_packet_same key nonce enc dec _ _ _ _ _ _ _ Ep)). auto.
  - intros H. injection H as H. apply (f_equal fst) in H. cbn [fst] in H. rewrite <- H. apply on_create_ok; assumption.
  - intros H. injection H as H. apply (f_equal fst) in H. cbn [fst] in H. rewrite <- H. apply on_created_ok; assumption.
  - intros H. injection H as H. apply (f_equal fst) in H. cbn [fst] in H. rewrite <- H. destruct F as (F1 & F2 & F3).
    apply on_extend_ok; assumption.
  - destruct sig_ok; [|intros H; injection H as <- <-; exact O].
    destruct (on_destroy c pk cid reason) as [[c1 a1]|] eqn:Ed; cbn [try_catch].
    + intros H. injection H as <- <-. apply (on_destroy_ok c pk cid reason c1 a1 O Ed).
    + intros H. injection H as <- <-. exact O.
  - unfold remove_relay. intros H. injection H as <- <-. apply ok_more_pending. exact O.
  - unfold remove_exit. intros H. injection H as <- <-. apply ok_more_pending. exact O.
  - apply remove_circuit_ok. exact O.
  - intros H. injection H as <- <-. apply timer_ok. exact O.
  - intros H. injection H as <- <-. apply ok_created_only. exact O.
  - destruct (has cid (n_circuits (cn_tab c))); intros H; injection H as <- <-; [exact O|].
    destruct F as [F1 F2]. apply new_circuit_ok; assumption.
  - destruct (has cid (n_circuits (cn_tab c))) eqn:Eh; intros H; injection H as <- <-; [|exact O].
    unfold set_tab. apply (ok_upd_circuit c cid c0 (cn_pending c) O Eh). auto.
Qed.

(* a created never changes an existing relay entry: it only adds the two routes of the new pair, under ids
   that had no relay route before *)
Lemma created_never_overwrites_relay_l (c : cnode) src cid ident :
  tables_ok c ->
  forall x r, assoc x (n_relays (cn_tab c)) = Some r ->
              assoc x (n_relays (cn_tab (fst (on_created c src cid ident)))) = Some r.
Proof.
  intros O x r Hx. unfold on_created. destruct (assoc ident (cn_create c)) as [rq|] eqn:Ea; [|exact Hx].
  destruct (assoc (cr_from rq) (n_exits (cn_tab c))) as [es|] eqn:Ee; [|exact Hx].
  destruct (has (cr_from rq) (n_relays (cn_tab c))) eqn:Efr; [exact Hx|].
  cbn. destruct O as [R H E C D]. destruct (in_use_false _ _ (C ident rq Ea)) as (_ & T2 & _).
  assert (x <> cr_from rq) by (intros ->; apply assoc_has in Hx; congruence).
  assert (x <> cr_to rq) by (intros ->; apply assoc_has in Hx; congruence).
  rewrite !assoc_upd_other by assumption. exact Hx.
Qed.

(* ---- entries are never re-keyed ---- *)
Lemma keys_kept_eq (a b : node key) : n_relays a = n_relays b -> n_exits a = n_exits b -> keys_kept a b.
Proof.
  intros Hr He. split.
  - intros x r r' H1 H2. rewrite Hr in H1. congruence.
  - intros x e e' H1 H2. rewrite He in H1. congruence.
Qed.

Lemma keys_kept_same (a b : node key) : same_tables a b -> keys_kept a b.
Proof.
  intros (_ & _ & _ & _ & _ & _ & _ & Hr & He). split.
  - intros x r r' H1 H2. pose proof (cores_assoc relay_core _ _ Hr x) as C. rewrite H1, H2 in C.
    unfold relay_core in C. injection C as _ Hh _ _. rewrite Hh. reflexivity.
  - intros x e e' H1 H2. pose proof (cores_assoc exit_core _ _ He x) as C. rewrite H1, H2 in C. symmetry. exact C.
Qed.

Lemma cstep_keys_kept (c : cnode) o c' acts :
  tables_ok c -> op_fresh c o -> cstep c o = Ok (c', acts) -> keys_kept (cn_tab c) (cn_tab c').
Proof.
  intros O F. destruct o; cbn [M05_isolation.cstep].
  - destruct (on_packet enc dec (cn_tab c) src pkt (fun _ => rnd) ns) as [[t' a]|] eqn:Ep; cbn [bind]; [|discriminate].
    intros H. injection H as <- <-. cbn. apply keys_kept_same. apply (on_packet_same key nonce enc dec _ _ _ _ _ _ _ Ep).
  - (* create *)
    intros H. injection H as H. apply (f_equal fst) in H. cbn [fst] in H. rewrite <- H. clear H.
    unfold on_create. destruct (n_flags (cn_tab c)); [apply keys_kept_eq; reflexivity|].
    destruct (has cid (cn_created c)); [apply keys_kept_eq; reflexivity|].
    destruct (in_use (cn_tab c) cid) eqn:Eu; [apply keys_kept_eq; reflexivity|].
    match goal with |- keys_kept _ (cn_tab (fst (if ?b then _ else _))) => destruct b end; [apply keys_kept_eq; reflexivity|].
    destruct k as [k0|]; [|apply keys_kept_eq; reflexivity]. destruct npk as [pk|]; [|apply keys_kept_eq; reflexivity].
    cbn. destruct (in_use_false _ _ Eu) as (_ & _ & U3). split; cbn.
    + intros x r r' H1 H2. congruence.
    + intros x e e' H1 H2. destruct (Z.eq_dec x cid) as [->|Hn].
      * apply assoc_has in H1. congruence.
      * rewrite assoc_upd_other in H2 by exact Hn. congruence.
  - (* created *)
    intros H. injection H as H. apply (f_equal fst) in H. cbn [fst] in H. rewrite <- H. clear H.
    unfold on_created. destruct (assoc ident (cn_create c)) as [rq|] eqn:Ea; [|apply keys_kept_eq; reflexivity].
    destruct (assoc (cr_from rq) (n_exits (cn_tab c))) as [es|] eqn:Ee; [|apply keys_kept_eq; reflexivity].
    destruct (has (cr_from rq) (n_relays (cn_tab c))) eqn:Efr; [apply keys_kept_eq; reflexivity|].
    cbn. destruct O as [R Hh E C D]. destruct (in_use_false _ _ (C ident rq Ea)) as (_ & T2 & _). split; cbn.
    + intros x r r' H1 H2. destruct (Z.eq_dec x (cr_from rq)) as [->|Hn1].
      * rewrite assoc_upd_same in H2. injection H2 as <-. cbn. destruct (Hh _ _ _ H1 Ee) as [_ Hk]. symmetry. exact Hk.
      * rewrite assoc_upd_other in H2 by exact Hn1. destruct (Z.eq_dec x (cr_to rq)) as [->|Hn2].
        -- apply assoc_has in H1. congruence.
        -- rewrite assoc_upd_other in H2 by exact Hn2. congruence.
    + intros x e e' H1 H2. congruence.
  - intros H. injection H as H. apply (f_equal fst) in H. cbn [fst] in H. rewrite <- H. clear H.
    unfold on_extend. destruct (negb (existsb (Z.eqb 1) (n_flags (cn_tab c)))); [apply keys_kept_eq; reflexivity|].
    destruct (assoc cid (cn_created c)) as [rq|]; [|apply keys_kept_eq; reflexivity].
    destruct (assoc_peer npk (cc_candidates rq)) as [p|]; [|destruct (is_null naddr); [apply keys_kept_eq; reflexivity|]];
    match goal with |- keys_kept _ (cn_tab (fst (match ?cand with Some cd => _ | None => _ end))) => destruct cand as [cd|] end;
    apply keys_kept_eq; reflexivity.
  - destruct sig_ok; [|intros H; injection H as <- <-; apply keys_kept_eq; reflexivity].
    destruct (on_destroy c pk cid reason) as [[c1 a1]|] eqn:Ed; cbn [try_catch].
    + intros H. injection H as <- <-. destruct (destroy_only_adjacent_l key c pk cid reason c1 a1 Ed) as (D1 & D2 & _).
      apply keys_kept_eq; symmetry; assumption.
    + intros H. injection H as <- <-. apply keys_kept_eq; reflexivity.
  - unfold remove_relay. intros H. injection H as <- <-. apply keys_kept_eq; reflexivity.
  - unfold remove_exit. intros H. injection H as <- <-. apply keys_kept_eq; reflexivity.
  - intros H. destruct (remove_circuit_inv key c cid reason c' acts H) as (R1 & R2 & _). apply keys_kept_eq; symmetry; assumption.
  - intros H. injection H as <- <-. cbn. destruct (fold_pop_sub key (cn_pending c) (cn_tab c)) as (F1 & F2 & _). split.
    + intros x r r' H1 H2. apply F1 in H2. congruence.
    + intros x e e' H1 H2. apply F2 in H2. congruence.
  - intros H. injection H as <- <-. apply keys_kept_eq; reflexivity.
  - destruct (has cid (n_circuits (cn_tab c))); intros H; injection H as <- <-; apply keys_kept_eq; reflexivity.
  - destruct (has cid (n_circuits (cn_tab c))); intros H; injection H as <- <-; apply keys_kept_eq; reflexivity.
Qed.

(* tables_inv: over every history of cells, control messages, local removals and timer ticks *)
Lemma crun_ok : forall ops (c : cnode) c' acts,
  tables_ok c -> run_fresh enc dec c ops -> crun c ops = Ok (c', acts) -> tables_ok c'.
Proof.
  induction ops as [|o tl IH]; intros c c' acts O F; cbn [M05_isolation.crun].
  - intros H. injection H as <- <-. exact O.
  - cbn [run_fresh] in F. destruct F as [F1 F2].
    destruct (cstep c o) as [[c1 a1]|] eqn:Es; cbn [bind]; [|discriminate].
    destruct (crun c1 tl) as [[c2 a2]|] eqn:Er; cbn [bind]; [|discriminate].
    intros H. injection H as <- <-. apply (IH c1 c2 a2 (cstep_ok c o c1 a1 O F1 Es) F2 Er).
Qed.

End Inv.
