(* Lemmas about the listener table: a removed listener is never called again. *)
From Coq Require Import ZArith List Bool Lia.
From IPV8V Require Import lib.PyErr lib.Bytes model.M11_listeners.
Import ListNotations.
Open Scope Z_scope.

Lemma memz_In x l : memz x l = true <-> In x l.
Proof.
  induction l as [|y r IH]; simpl; [split; [discriminate|tauto]|].
  rewrite orb_true_iff, IH, Z.eqb_eq. tauto.
Qed.

Lemma without_In l x ls : In x (without l ls) <-> In x ls /\ x <> l.
Proof.
  unfold without. rewrite filter_In, negb_true_iff, Z.eqb_neq. tauto.
Qed.

Lemma without_not_in l ls : ~ In l (without l ls).
Proof. rewrite without_In. tauto. Qed.

(* l occurs neither in the global list nor in any prefix entry *)
Definition absent (l : lid) (t : table) : Prop :=
  ~ In l (glob t) /\ forall p ls, In (p, ls) (pmap t) -> ~ In l ls.

Lemma plookup_In p m ls : plookup p m = Some ls -> exists q, In (q, ls) m.
Proof.
  induction m as [|[q v] r IH]; simpl; [discriminate|].
  destruct (bytes_eqb q p).
  - intros H; inversion H; subst. exists q. now left.
  - intros H. destruct (IH H) as [q' Hq]. exists q'. now right.
Qed.

Lemma pset_In p v m q ls : In (q, ls) (pset p v m) -> ls = v \/ In (q, ls) m.
Proof.
  induction m as [|[q' v'] r IH]; simpl.
  - intros [H|[]]. inversion H. now left.
  - destruct (bytes_eqb q' p); simpl.
    + intros [H|H]; [inversion H; now left|right; now right].
    + intros [H|H]; [right; now left|]. destruct (IH H) as [?|?]; [now left|right; now right].
Qed.

Lemma prune_In l g m q ls : In (q, ls) (prune l g m) -> exists ls0, In (q, ls0) m /\ ls = without l ls0.
Proof.
  induction m as [|[q' v'] r IH]; simpl; [tauto|].
  destruct (set_eqb (without l v') g); simpl.
  - intros H. destruct (IH H) as [x [Hx ?]]. exists x. split; [now right|assumption].
  - intros [H|H].
    + inversion H; subst. exists v'. split; [now left|reflexivity].
    + destruct (IH H) as [x [Hx ?]]. exists x. split; [now right|assumption].
Qed.

Lemma rem_absent t l : absent l (t_rem t l).
Proof.
  unfold absent, t_rem; simpl. split; [apply without_not_in|].
  intros p ls H. apply prune_In in H. destruct H as [ls0 [_ ->]]. apply without_not_in.
Qed.

Lemma rem_keeps_absent t l y : absent l t -> absent l (t_rem t y).
Proof.
  intros [Hg Hp]. unfold absent, t_rem; simpl. split.
  - rewrite without_In. tauto.
  - intros p ls H. apply prune_In in H. destruct H as [ls0 [Hin ->]].
    rewrite without_In. intros [Hx _]. exact (Hp _ _ Hin Hx).
Qed.

Lemma add_keeps_absent t l x : x <> l -> absent l t -> absent l (t_add t x).
Proof.
  intros Hne [Hg Hp]. unfold absent, t_add; simpl. split.
  - rewrite in_app_iff. simpl. intros [H|[H|[]]]; [tauto|congruence].
  - intros p ls H. apply in_map_iff in H. destruct H as [[q v] [Heq Hin]]. simpl in Heq.
    inversion Heq; subst. rewrite in_app_iff. simpl. intros [H|[H|[]]]; [exact (Hp _ _ Hin H)|congruence].
Qed.

Lemma addp_keeps_absent t l x p t' : x <> l -> absent l t -> t_addp t x p = Ok t' -> absent l t'.
Proof.
  intros Hne [Hg Hp]. unfold t_addp. destruct (Nat.eqb (length p) PREFIXLEN); [|discriminate].
  intros H; inversion H; subst; clear H. unfold absent; simpl. split; [assumption|].
  intros q ls H. apply pset_In in H. destruct H as [->|H]; [|exact (Hp _ _ H)].
  rewrite in_app_iff. simpl. intros [H|[H|H]]; [|congruence|tauto].
  destruct (plookup p (pmap t)) eqn:E; [|destruct H].
  apply plookup_In in E. destruct E as [q' Hq']. exact (Hp _ _ Hq' H).
Qed.

Lemma targets_absent t l d : absent l t -> ~ In l (t_targets t d).
Proof.
  intros [Hg Hp]. unfold t_targets. destruct (plookup (prefix_of d) (pmap t)) eqn:E; [|assumption].
  apply plookup_In in E. destruct E as [q Hq]. exact (Hp _ _ Hq).
Qed.

Lemma notify_absent t l d : absent l t -> ~ In l (t_notify t d).
Proof.
  intros Ha. unfold t_notify. rewrite filter_In. intros [H _]. exact (targets_absent _ _ _ Ha H).
Qed.

(* ------------------------------------------------------------------ endpoints with a wrapper *)
Definition mentions (l : lid) (o : lop) : bool :=
  match o with AddL x => x =? l | AddP x _ => x =? l | _ => false end.

Lemma step_wrap e o : wrap (fst (step e o)) = wrap e.
Proof.
  destruct o; simpl; try reflexivity.
  - destruct (f_add (wapi (wrap e))); reflexivity.
  - destruct (f_addp (wapi (wrap e))).
    + destruct (t_addp (inner e) l p); reflexivity.
    + destruct (t_addp (own e) l p); reflexivity.
  - destruct (f_rem (wapi (wrap e))); reflexivity.
  - destruct (wrap e) eqn:E; simpl; congruence.
Qed.

Lemma forwards_split a : forwards_all a = true ->
  f_add a = true /\ f_addp a = true /\ f_rem a = true /\ f_notify_prefix a = true.
Proof. unfold forwards_all. rewrite !andb_true_iff. tauto. Qed.

Lemma step_keeps_absent e o l :
  forwards_all (wapi (wrap e)) = true -> mentions l o = false ->
  absent l (inner e) -> absent l (inner (fst (step e o))).
Proof.
  intros Hf Hm Ha. apply forwards_split in Hf. destruct Hf as [H1 [H2 [H3 H4]]].
  destruct o; simpl in *.
  - rewrite H1. simpl. apply add_keeps_absent; [apply Z.eqb_neq; assumption|assumption].
  - rewrite H2. destruct (t_addp (inner e) l0 p) eqn:E; simpl; [|assumption].
    eapply addp_keeps_absent; [apply Z.eqb_neq; eassumption|eassumption|eassumption].
  - rewrite H3. simpl. apply rem_keeps_absent. assumption.
  - destruct Ha as [Hg Hp]. split; assumption.
  - assumption.
  - assumption.
  - destruct (wrap e); assumption.
Qed.

Lemma run_keeps_absent ops : forall e l,
  forwards_all (wapi (wrap e)) = true -> Forall (fun o => mentions l o = false) ops ->
  absent l (inner e) -> absent l (inner (run e ops)).
Proof.
  induction ops as [|o r IH]; intros e l Hf Hall Ha; simpl; [assumption|].
  inversion Hall; subst. apply IH.
  - rewrite step_wrap. assumption.
  - assumption.
  - apply step_keeps_absent; assumption.
Qed.

Lemma called_absent e l o : absent l (inner e) -> ~ In l (called e o).
Proof.
  intros Ha. unfold called. destruct o; simpl; try (intros []).
  - destruct (f_add (wapi (wrap e))); simpl; tauto.
  - destruct (f_addp (wapi (wrap e))).
    + destruct (t_addp (inner e) l0 p); simpl; tauto.
    + destruct (t_addp (own e) l0 p); simpl; tauto.
  - destruct (f_rem (wapi (wrap e))); simpl; tauto.
  - apply notify_absent. assumption.
  - destruct (wrap e); simpl; try (apply notify_absent; assumption).
    unfold tunnel_notify. rewrite filter_In. intros [H _].
    destruct (f_notify_prefix (wapi (wrap e))).
    + exact (targets_absent _ _ _ Ha H).
    + destruct Ha as [Hg _]. exact (Hg H).
Qed.

(* after remove_listener(l) through an endpoint whose wrapper forwards the listener API, no operation
   of any later history that does not register l again calls l - for every earlier history
   (e is arbitrary) *)
Lemma removed_listener_silent_l : forall e l ops o,
  forwards_all (wapi (wrap e)) = true ->
  Forall (fun x => mentions l x = false) ops ->
  ~ In l (called (run (fst (step e (RemL l))) ops) o).
Proof.
  intros e l ops o Hf Hall. apply called_absent. apply run_keeps_absent.
  - rewrite step_wrap. assumption.
  - assumption.
  - simpl. apply forwards_split in Hf. destruct Hf as [_ [_ [H3 _]]]. rewrite H3. simpl. apply rem_absent.
Qed.

(* the listener is also gone from the tables themselves (nothing keeps a reference to it) *)
Lemma removed_listener_unreferenced_l : forall e l ops,
  forwards_all (wapi (wrap e)) = true ->
  Forall (fun x => mentions l x = false) ops ->
  absent l (inner (run (fst (step e (RemL l))) ops)).
Proof.
  intros e l ops Hf Hall. apply run_keeps_absent.
  - rewrite step_wrap. assumption.
  - assumption.
  - simpl. apply forwards_split in Hf. destruct Hf as [_ [_ [H3 _]]]. rewrite H3. simpl. apply rem_absent.
Qed.

(* conversely, while registered under its prefix on an open endpoint, the listener IS called
   (the theorem above is not vacuous because nothing is ever delivered) *)
Local Arguments firstn : simpl never.
Lemma registered_listener_called_l : forall e l p body t',
  forwards_all (wapi (wrap e)) = true -> opened (inner e) = true ->
  length p = PREFIXLEN -> t_addp (inner e) l p = Ok t' ->
  In l (called (fst (step e (AddP l p))) (Socket (p ++ body))).
Proof.
  intros e l p body t' Hf Ho Hlen Hadd. apply forwards_split in Hf. destruct Hf as [_ [H2 _]].
  unfold called. simpl. rewrite H2, Hadd. simpl.
  unfold t_addp in Hadd. rewrite Hlen in Hadd. simpl in Hadd. inversion Hadd; subst; clear Hadd.
  unfold t_notify, t_targets, prefix_of, deliver_ok. simpl.
  assert (Hp : firstn PREFIXLEN (p ++ body) = p).
  { rewrite <- Hlen. rewrite firstn_app, Nat.sub_diag, firstn_all. simpl. apply app_nil_r. }
  rewrite Hp.
  assert (Hl : forall v m, plookup p (pset p v m) = Some v).
  { intros v m. induction m as [|[q w] r IH]; simpl.
    - rewrite bytes_eqb_refl. reflexivity.
    - destruct (bytes_eqb q p) eqn:E; simpl; rewrite E; [reflexivity|exact IH]. }
  rewrite Hl. rewrite filter_In. split.
  - rewrite in_app_iff. right. now left.
  - rewrite Ho. reflexivity.
Qed.
