(* C08: the retry cache of a first-hop create never outlives the acceptance of that hop (the state machine
   behind fix 233b9c9): in every reachable state a retry cache belongs to a circuit that is not closing, and
   one whose retry function is send_initial_create belongs to a circuit without hops.  Hence the create of a
   retry is always the handshake of position 1. *)
From Coq Require Import ZArith List Bool Lia.
From IPV8V Require Import lib.PyErr model.M08_handshake proofs.P08_base proofs.P08_origin.
Import ListNotations.
Open Scope Z_scope.

Section Inv.
Variable C : crypto.
Implicit Types (n : @node C) (c : @circuit C).

Definition retry_inv n : Prop :=
  forall cid r c, aget cid (n_retry n) = Some r -> aget cid (n_circ n) = Some c ->
    c_closing c = false /\ (r_initial r = true -> c_hops c = []).

(* a state with the retry entry of cid dropped *)
Lemma inv_pop n n' cid :
  retry_inv n -> n_circ n' = n_circ n -> n_retry n' = adel cid (n_retry n) -> retry_inv n'.
Proof.
  intros I EC ER k r c R G. rewrite ER, aget_adel in R. destruct (k =? cid); [discriminate|].
  rewrite EC in G. eapply I; eauto.
Qed.

Lemma inv_same n n' : retry_inv n -> n_circ n' = n_circ n -> n_retry n' = n_retry n -> retry_inv n'.
Proof. intros I EC ER k r c R G. rewrite ER in R. rewrite EC in G. eapply I; eauto. Qed.

(* a state where circuit cid got record c1 and (optionally) a new retry entry *)
Lemma inv_set n n' cid c1 r1 :
  retry_inv n ->
  n_circ n' = aset cid c1 (n_circ n) -> n_retry n' = aset cid r1 (adel cid (n_retry n)) ->
  c_closing c1 = false -> (r_initial r1 = true -> c_hops c1 = []) ->
  retry_inv n'.
Proof.
  intros I EC ER CL HO k r c R G. rewrite ER, aget_aset in R. rewrite EC, aget_aset in G.
  destruct (k =? cid).
  - inversion R; subst. inversion G; subst. auto.
  - rewrite aget_adel in R. destruct (k =? cid) eqn:E; [discriminate|]. eapply I; eauto.
Qed.

Lemma sic_inv n cid cands tries o :
  retry_inv n ->
  (forall c, aget cid (n_circ n) = Some c -> c_closing c = false /\ c_hops c = []) ->
  retry_inv (st (send_initial_create n cid cands tries o)).
Proof.
  intros I H. unfold send_initial_create. destruct (aget cid (n_circ n)) as [c|] eqn:G; [|exact I].
  destruct (H c eq_refl) as [CL HO].
  destruct cands as [|f tl].
  - eapply inv_pop; eauto; reflexivity.
  - match goal with |- retry_inv (st (done (set_retry (set_circ _ (aset _ ?c1 _)) (aset _ ?r1 _)) _)) =>
      apply (inv_set n _ cid c1 r1 I) end; try reflexivity; cbn; auto.
Qed.

Lemma sext_inv n cid cands tries o :
  retry_inv n ->
  (forall c, aget cid (n_circ n) = Some c -> c_closing c = false) ->
  retry_inv (st (send_extend n cid cands tries o)).
Proof.
  intros I H. unfold send_extend. destruct (aget cid (n_circ n)) as [c|] eqn:G; [|exact I].
  match goal with |- context [match ?s with Raise e => _ | Ok p => _ end] => destruct s as [[[[t a]|] f]|e] end.
  - match goal with |- retry_inv (st (done (set_retry (set_circ _ (aset _ ?c1 _)) (aset _ ?r1 _)) _)) =>
      apply (inv_set n _ cid c1 r1 I) end; try reflexivity; cbn; auto. intros K; discriminate.
  - eapply inv_same; eauto; reflexivity.
  - exact I.
Qed.

Lemma cstate_closing c : cstate c = Closing -> c_closing c = true.
Proof. unfold cstate. destruct (c_closing c); auto. destruct (zlen (c_hops c) <? c_goal c); discriminate. Qed.
Lemma cstate_open c : cstate c <> Closing -> c_closing c = false.
Proof. unfold cstate. destruct (c_closing c); auto. intros K; exfalso; apply K; reflexivity. Qed.

Lemma ours_inv n cid Y au ce o : retry_inv n -> retry_inv (st (ours n cid Y au ce o)).
Proof.
  intros I. unfold ours.
  destruct (aget cid (n_circ n)) as [c|] eqn:G; [|exact I].
  destruct (c_unv c) as [u|] eqn:U; [|exact I].
  destruct (h_dh u) as [x|] eqn:X; [|exact I].
  destruct (dh C x Y) as [s1|] eqn:D1; [|eapply inv_same; eauto; reflexivity].
  destruct (dh C x (cpk C (p_key (h_peer u)))) as [s2|] eqn:D2; [|eapply inv_same; eauto; reflexivity].
  destruct (tag_eqb C au (mac C s1 Y)) eqn:T; cbn [negb]; [|exact I].
  set (c1 := with_hops_unv c (c_hops c ++ [mkHop (h_peer u) (Some (kdf C s1 s2)) (Some x)]) None).
  set (n1 := set_circ n (aset cid c1 (n_circ n))).
  (* popping the entry of cid in n1 restores the invariant whatever c1 is *)
  assert (POP : forall n2, n_circ n2 = n_circ n1 -> n_retry n2 = adel cid (n_retry n1) -> retry_inv n2).
  { intros n2 EC ER k r c' R G'. rewrite ER, aget_adel in R. destruct (k =? cid) eqn:E; [discriminate|].
    rewrite EC in G'. unfold n1 in G'. cbn [n_circ set_circ] in G'. rewrite aget_aset, E in G'.
    unfold n1 in R. cbn [n_retry set_circ] in R. eapply I; eauto. }
  (* n1 itself is fine as long as cid has no retry entry *)
  assert (NONE : aget cid (n_retry n1) = None -> retry_inv n1).
  { intros N k r c' R G'. unfold n1 in G'. cbn [n_circ set_circ] in G'. rewrite aget_aset in G'.
    destruct (k =? cid) eqn:E.
    - apply Z.eqb_eq in E. subst k. rewrite N in R. discriminate.
    - unfold n1 in R. cbn [n_retry set_circ] in R. eapply I; eauto. }
  destruct (cstate c1) eqn:CS.
  - (* closing: then no retry entry can exist for cid *)
    apply NONE. destruct (aget cid (n_retry n1)) as [r|] eqn:R; auto. exfalso.
    apply cstate_closing in CS. unfold n1 in R. cbn [n_retry set_circ] in R.
    destruct (I cid r c R G) as [CL _]. unfold c1 in CS. cbn in CS. congruence.
  - destruct (aget cid (n_retry n1)) as [r|] eqn:R; [|apply NONE; reflexivity].
    set (n2 := set_retry n1 (adel cid (n_retry n1))).
    assert (I2 : retry_inv n2) by (apply POP; reflexivity).
    destruct (cdec C (kdf C s1 s2) ce) as [l|e0].
    + destruct (split_cands l) as [rel ex]. apply sext_inv; auto.
      intros c' G'. unfold n2, n1 in G'. cbn [n_circ set_circ set_retry] in G'. rewrite aget_aset_same in G'.
      inversion G'; subst c'. apply cstate_open. rewrite CS. discriminate.
    + eapply inv_same; [exact I2| |]; reflexivity.
  - destruct (aget cid (n_retry n1)) as [r|] eqn:R; [|apply NONE; reflexivity].
    apply POP; reflexivity.
Qed.

Lemma handle_inv n src m o : retry_inv n -> retry_inv (st (handle n src m o)).
Proof.
  intros I. destruct m as [k0 i npk X|k0 i Y au ce|k0 i npk X ad|k0 i Y au ce]; cbn [handle].
  - unfold on_create.
    repeat match goal with |- context [if ?b then _ else _] => destruct b end;
      repeat match goal with |- context [match dh C ?a ?b with _ => _ end] => destruct (dh C a b) end;
      try exact I; eapply inv_same; eauto; reflexivity.
  - destruct (aget i (n_creq n)) as [q|] eqn:Q.
    + destruct (relay_branch_circ C n src k0 i Y au ce o q Q) as [E1 E2]. eapply inv_same; eauto.
    + unfold on_created. rewrite Q. destruct (aget k0 (n_retry n)) as [r|]; [|exact I].
      destruct (r_pid r =? i); [|exact I]. apply ours_inv. exact I.
  - unfold on_extend.
    destruct (negb (n_relay_flag n)); [exact I|].
    destruct (aget k0 (n_dreq n)); [|exact I].
    match goal with |- context [if ?b then _ else _] => destruct b end; [exact I|].
    match goal with |- context [match ?s with Raise e => _ | Ok p => _ end] => destruct s end; [|exact I].
    match goal with |- context [match ?s with Raise e => _ | Ok p => _ end] => destruct s as [[pv|]|] end;
      exact I.
  - unfold on_extended. destruct (aget k0 (n_retry n)) as [r|]; [|exact I].
    destruct (r_pid r =? i); [|exact I]. apply ours_inv. exact I.
Qed.

Lemma retry_timeout_inv n cid o : retry_inv n -> retry_inv (st (retry_timeout n cid o)).
Proof.
  intros I. unfold retry_timeout. destruct (aget cid (n_retry n)) as [r|] eqn:R; [|exact I].
  set (n1 := set_retry n (adel cid (n_retry n))).
  assert (I1 : retry_inv n1) by (eapply inv_pop; eauto; reflexivity).
  destruct (aget cid (n_circ n1)) as [c|] eqn:G; [|exact I1].
  destruct (c_closing c) eqn:CL; [exact I1|].
  assert (G0 : aget cid (n_circ n) = Some c) by exact G.
  destruct (r_initial r) eqn:RI.
  - destruct (r_peers r); [eapply inv_same; eauto; reflexivity|].
    destruct (r_tries r <? 1); [eapply inv_same; eauto; reflexivity|].
    apply sic_inv; auto. intros c' G'. rewrite G in G'. inversion G'; subst c'. split; auto.
    destruct (I cid r c R G0) as [_ H]. auto.
  - destruct (r_keys r); [eapply inv_same; eauto; reflexivity|].
    destruct (r_tries r <? 1); [eapply inv_same; eauto; reflexivity|].
    apply sext_inv; auto. intros c' G'. rewrite G in G'. inversion G'; subst c'. auto.
Qed.

Lemma step_inv n e : retry_inv n -> retry_inv (st (step n e)).
Proof.
  intros I. destruct e as [cid goal re firsts tries o|src m o|cid o|cid|cid|cid]; cbn [step].
  - destruct (ahas cid (n_circ n)) eqn:HAS; [exact I|]. apply ahas_false in HAS.
    apply sic_inv.
    + intros k r c R G. cbn [n_circ n_retry set_circ] in *. rewrite aget_aset in G. destruct (k =? cid) eqn:E.
      * inversion G; subst c. cbn. auto.
      * eapply I; eauto.
    + intros c G. cbn [n_circ set_circ] in G. rewrite aget_aset_same in G. inversion G; subst. cbn. auto.
  - apply handle_inv. exact I.
  - apply retry_timeout_inv. exact I.
  - cbn. unfold run_remove.
    match goal with |- context [aget cid (n_circ ?n1)] => destruct (aget cid (n_circ n1)) as [c|] eqn:G end.
    + intros k r c' R G'. cbn [n_retry n_circ set_circ set_retry set_rm] in *. rewrite aget_adel in R.
      destruct (k =? cid) eqn:E; [discriminate|]. rewrite aget_aset, E in G'. eapply I; eauto.
    + eapply inv_pop; eauto; reflexivity.
  - intros k r c R G. cbn [st done fst n_retry n_circ set_circ] in *. rewrite aget_adel in G.
    destruct (k =? cid); [discriminate|]. eapply I; eauto.
  - eapply inv_same; eauto; reflexivity.
Qed.

Lemma run_inv_l evs : forall n, retry_inv n -> retry_inv (run n evs).
Proof. induction evs as [|e tl IH]; intros n I; cbn [run]; auto. apply IH. apply step_inv. exact I. Qed.

Lemma inv_init n : n_retry n = [] -> retry_inv n.
Proof. intros E k r c R. rewrite E in R. discriminate. Qed.

(* the create sent when a retry cache times out is always the handshake of the first position *)
Lemma retried_create_first_hop_l n cid o a k i pkb X :
  retry_inv n -> In (Send a (MCreate k i pkb X)) (acts (step n (EvTimeout cid o))) ->
  k = cid /\ hops_of n cid = Some [].
Proof.
  intros I. cbn [step]. unfold retry_timeout. destruct (aget cid (n_retry n)) as [r|] eqn:R; [|intros []].
  match goal with |- context [aget cid (n_circ ?n1)] => destruct (aget cid (n_circ n1)) as [c|] eqn:G end; [|intros []].
  assert (G0 : aget cid (n_circ n) = Some c) by exact G.
  destruct (c_closing c); [intros []|].
  destruct (r_initial r) eqn:RI.
  - destruct (r_peers r) as [|p tl]; [intros []|]. destruct (r_tries r <? 1); [intros []|].
    destruct (I cid r c R G0) as [_ H].
    assert (HO : hops_of n cid = Some []). { unfold hops_of. rewrite G0. rewrite H; auto. }
    unfold send_initial_create. rewrite G. intros [K|[]]. inversion K as [[E1 E2 E3 E4 E5]]. split; [auto|]. rewrite <- E2. exact HO.
  - destruct (r_keys r); [intros []|]. destruct (r_tries r <? 1); [intros []|].
    intros K. apply sext_sends in K. destruct K as (t & x & ad & fa & K & _). discriminate.
Qed.

End Inv.
