(* C13 (extension) - the scenario with an introducer that is not a public host: re-decided over the enlarged
   enumerated space (one VM sweep, P13x_sweep13); the exact boundary of the property inside that space. *)
From Coq Require Import ZArith List Bool Lia ZifyBool Arith.
From IPV8V Require Import lib.PyErr gen.G13_lan model.M13_nat model.M13_scenario
  proofs.P13_proto proofs.P13_nat proofs.P13_sweeplib proofs.P13x_defs proofs.P13x_sweep13.
Import ListNotations.
Open Scope Z_scope.


(* the placements of the introducer in the enlarged space *)
Definition placed (bp : bplace) (pos : nat) : Prop :=
  (exists t, bp = BOwn t) \/ bp = BWithA \/ bp = BWithC pos.
Lemma placed_in bp pos : placed bp pos -> In bp (bplaces pos).
Proof. intros [[t Ht] | [Ht | Ht]]; subst bp; [destruct t | | ]; cbn; tauto. Qed.

Lemma check_cfgx_true : forall bp tA tC same resp newC styleA k pos,
  placed bp pos -> (k = 1 \/ k = 3)%nat -> (pos < k)%nat ->
  check_cfgx bp tA tC same resp newC styleA k pos = true.
Proof.
  intros bp tA tC same resp newC styleA k pos Hb Hk Hp.
  apply (check_overx_spec all_types bools [1; 3]%nat check_allx_13);
    try apply all_types_complete; try apply bools_complete; try (apply placed_in; assumption).
  - cbn. lia.
  - apply in_seq. lia.
Qed.

Lemma nat_introducer_reachability_l : forall bp tA tC same resp newC styleA k pos,
  placed bp pos -> (k = 1 \/ k = 3)%nat -> (pos < k)%nat ->
  blind_simple bp tA tC same = false ->
  let g := cfg_forx bp tA (mkCand tC same resp newC false false) styleA k pos in
  let o := run_scn g in
  introduced_peer o = Some (cand_id pos) /\
  verdict_of g o = all_true /\
  In (cand_id pos) (peers_of o ID_A) /\ In ID_A (peers_of o (cand_id pos)) /\
  (same = true -> contacts o = [(host_lan g (cand_id pos), Deliver (cand_id pos) (host_lan g ID_A))]).
Proof.
  intros bp tA tC same resp newC styleA k pos Hb Hk Hp Hbl g o.
  pose proof (check_cfgx_true bp tA tC same resp newC styleA k pos Hb Hk Hp) as H.
  unfold check_cfgx in H. fold g in H. fold o in H. rewrite Hbl in H. rewrite !andb_true_iff in H.
  destruct H as [[[[_ H1] _] [[[H2 H3] H4] H5]] _].
  split.
  { unfold opt_eqb in H1. destruct (introduced_peer o) as [x|]; [|discriminate].
    apply Z.eqb_eq in H1. subst. reflexivity. }
  split; [apply verdict_eqb_eq; exact H2|]. split; [apply existsb_eqb_in; exact H3|].
  split; [apply existsb_eqb_in; exact H4|].
  intros ->. apply list_eqb_eq in H5; [exact H5|].
  intros [a1 o1] [a2 o2] E. cbn [fst snd] in E. apply andb_true_iff in E. destruct E as [E1 E2].
  apply addr_eqb_eq in E1. apply outcome_eqb_eq in E2. subst. reflexivity.
Qed.

(* the boundary: with a blind introducer the response still introduces the candidate and the puncture-request
   is still sent in the same step and delivered, but the chain breaks *)
Lemma blind_introducer_refuted_l : forall bp tA tC same resp newC styleA k pos,
  placed bp pos -> (k = 1 \/ k = 3)%nat -> (pos < k)%nat ->
  blind_simple bp tA tC same = true ->
  let g := cfg_forx bp tA (mkCand tC same resp newC false false) styleA k pos in
  let o := run_scn g in
  introduced_peer o = Some (cand_id pos) /\
  holds g o = false /\
  v_puncture_req (verdict_of g o) = true /\
  (v_puncture (verdict_of g o) = false \/ v_request (verdict_of g o) = false \/ v_mutual (verdict_of g o) = false).
Proof.
  intros bp tA tC same resp newC styleA k pos Hb Hk Hp Hbl g o.
  pose proof (check_cfgx_true bp tA tC same resp newC styleA k pos Hb Hk Hp) as H.
  unfold check_cfgx in H. fold g in H. fold o in H. rewrite Hbl in H. rewrite !andb_true_iff in H.
  destruct H as [[[[_ H1] H2] [[[_ _] H3] H4]] _].
  split.
  { unfold opt_eqb in H1. destruct (introduced_peer o) as [x|]; [|discriminate].
    apply Z.eqb_eq in H1. subst. reflexivity. }
  split; [apply eqb_prop in H2; exact H2|]. split; [exact H3|].
  apply negb_true_iff in H4.
  destruct (v_puncture (verdict_of g o)); [|auto]. destruct (v_request (verdict_of g o)); [|auto].
  destruct (v_mutual (verdict_of g o)); [discriminate H4 | auto].
Qed.

Lemma b_blind_closed_form_l : forall bp tA tC same resp newC styleA k pos,
  placed bp pos -> (k = 1 \/ k = 3)%nat -> (pos < k)%nat ->
  b_blind (cfg_forx bp tA (mkCand tC same resp newC false false) styleA k pos) (cand_id pos)
  = blind_simple bp tA tC same.
Proof.
  intros bp tA tC same resp newC styleA k pos Hb Hk Hp.
  pose proof (check_cfgx_true bp tA tC same resp newC styleA k pos Hb Hk Hp) as H.
  unfold check_cfgx in H. rewrite !andb_true_iff in H. destruct H as [[[[H _] _] _] _].
  apply eqb_prop in H. exact H.
Qed.

Lemma scenario_nets_wfx_l : forall bp tA tC same resp newC styleA k pos ops,
  placed bp pos -> (k = 1 \/ k = 3)%nat -> (pos < k)%nat ->
  net_wf (w_net (run_ops (mk_world (cfg_forx bp tA (mkCand tC same resp newC false false) styleA k pos)) ops)).
Proof.
  intros bp tA tC same resp newC styleA k pos ops Hb Hk Hp. apply run_ops_wf. cbn [mk_world w_net].
  apply net_wfb_sound.
  pose proof (check_cfgx_true bp tA tC same resp newC styleA k pos Hb Hk Hp) as H.
  unfold check_cfgx in H. rewrite !andb_true_iff in H. destruct H as [_ H]. exact H.
Qed.
