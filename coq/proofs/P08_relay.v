(* C08, relay side: a created becomes an extended only through the pending CreateRequestCache entry it names,
   the entry is consumed, and the key material travels unmodified in both directions. *)
From Coq Require Import ZArith List Bool Lia.
From IPV8V Require Import lib.PyErr model.M08_handshake proofs.P08_base.
Import ListNotations.
Open Scope Z_scope.

Section Relay.
Variable C : crypto.
Implicit Types (n : @node C) (m : @msg C).

Lemma sic_creq n cid cands tries o : n_creq (st (send_initial_create n cid cands tries o)) = n_creq n.
Proof.
  unfold send_initial_create. destruct (aget cid (n_circ n)); [|reflexivity]. destruct cands; reflexivity.
Qed.

Lemma sext_creq n cid cands tries o : n_creq (st (send_extend n cid cands tries o)) = n_creq n.
Proof.
  unfold send_extend. destruct (aget cid (n_circ n)); [|reflexivity].
  match goal with |- context [match ?s with Raise e => _ | Ok p => _ end] => destruct s as [[[[t a]|] f]|e] end;
    reflexivity.
Qed.

Lemma ours_creq n cid Y au ce o : n_creq (st (ours n cid Y au ce o)) = n_creq n.
Proof.
  unfold ours.
  destruct (aget cid (n_circ n)) as [c|]; [|reflexivity].
  destruct (c_unv c) as [u|]; [|reflexivity].
  destruct (h_dh u) as [x|]; [|reflexivity].
  destruct (dh C x Y) as [s1|]; [|reflexivity].
  destruct (dh C x (cpk C (p_key (h_peer u)))) as [s2|]; [|reflexivity].
  destruct (tag_eqb C au (mac C s1 Y)); cbn [negb]; [|reflexivity].
  match goal with |- context [cstate ?c1] => destruct (cstate c1) end.
  - reflexivity.
  - match goal with |- context [aget cid (n_retry ?n1)] => destruct (aget cid (n_retry n1)) end; [|reflexivity].
    match goal with |- context [cdec C ?k ?e] => destruct (cdec C k e) as [l|e0] end; [|reflexivity].
    destruct (split_cands l) as [rel ex].
    rewrite sext_creq. reflexivity.
  - match goal with |- context [aget cid (n_retry ?n1)] => destruct (aget cid (n_retry n1)) end; reflexivity.
Qed.

Lemma retry_timeout_creq n cid o : n_creq (st (retry_timeout n cid o)) = n_creq n.
Proof.
  unfold retry_timeout. destruct (aget cid (n_retry n)) as [r|]; [|reflexivity].
  match goal with |- context [aget cid (n_circ ?n1)] => destruct (aget cid (n_circ n1)) as [c|] end; [|reflexivity].
  destruct (c_closing c); [reflexivity|].
  destruct (r_initial r).
  - destruct (r_peers r); [reflexivity|]. destruct (r_tries r <? 1); [reflexivity|]. rewrite st_swallow, sic_creq. reflexivity.
  - destruct (r_keys r); [reflexivity|]. destruct (r_tries r <? 1); [reflexivity|]. rewrite st_swallow, sext_creq. reflexivity.
Qed.

Definition is_extended (a : @action C) : bool :=
  match a with Send _ (MExtended _ _ _ _ _) => true | _ => false end.

Lemma sic_no_extended n cid cands tries o :
  forall a, In a (acts (send_initial_create n cid cands tries o)) -> is_extended a = false.
Proof.
  unfold send_initial_create. destruct (aget cid (n_circ n)); [|intros a []].
  destruct cands; [intros a []|]. intros a [<-|[]]. reflexivity.
Qed.

Lemma sext_no_extended n cid cands tries o :
  forall a, In a (acts (send_extend n cid cands tries o)) -> is_extended a = false.
Proof.
  intros a I. destruct (sext_sends n cid cands tries o a I) as (t & x & ad & fa & -> & _). reflexivity.
Qed.

Lemma ours_no_extended n cid Y au ce o :
  forall a, In a (acts (ours n cid Y au ce o)) -> is_extended a = false.
Proof.
  unfold ours.
  destruct (aget cid (n_circ n)) as [c|]; [|intros a []].
  destruct (c_unv c) as [u|]; [|intros a []].
  destruct (h_dh u) as [x|]; [|intros a []].
  destruct (dh C x Y) as [s1|]; [|intros a []].
  destruct (dh C x (cpk C (p_key (h_peer u)))) as [s2|]; [|intros a []].
  destruct (tag_eqb C au (mac C s1 Y)); cbn [negb]; [|intros a []].
  match goal with |- context [cstate ?c1] => destruct (cstate c1) end.
  - intros a [].
  - match goal with |- context [aget cid (n_retry ?n1)] => destruct (aget cid (n_retry n1)) end; [|intros a []].
    match goal with |- context [cdec C ?k ?e] => destruct (cdec C k e) as [l|e0] end; [|intros a []].
    destruct (split_cands l) as [rel ex].
    apply sext_no_extended.
  - match goal with |- context [aget cid (n_retry ?n1)] => destruct (aget cid (n_retry n1)) end; intros a [].
Qed.

(* what on_extend does when it sends anything *)
Lemma on_extend_out_l n src rc pid npk X addr o a :
  In a (acts (handle n src (MExtend rc pid npk X addr) o)) ->
  exists pv cd,
    a = Send (p_addr cd) (MCreate (o_cid o) (o_num o) (n_pkbin n) X)
    /\ handle n src (MExtend rc pid npk X addr) o
       = (set_creq n (aset (o_num o) (mkCreq pid (o_cid o) rc pv cd) (n_creq n)), [a], None)
    /\ (o_known o = None -> p_key cd = npk).
Proof.
  cbn [handle]. unfold on_extend.
  destruct (negb (n_relay_flag n)); [intros []|].
  destruct (aget rc (n_dreq n)) as [rq|]; [|intros []].
  match goal with |- context [if ?b then _ else _] => destruct b end; [intros []|].
  match goal with |- context [match ?s with Raise e => _ | Ok p => _ end] => destruct s as [cd|e] eqn:CD end;
    [|intros []].
  match goal with |- context [match ?s with Raise e => _ | Ok p => _ end] => destruct s as [[pv|]|e] end;
    try (intros K; cbn in K; contradiction).
  intros [<-|[]]. exists pv, cd. split; [reflexivity|]. split; [reflexivity|].
  intros KN. unfold find_peer in CD. destruct (find (fun p => p_key p =? npk) (d_cands rq)) as [p|] eqn:F.
  - inversion CD; subst. apply find_some in F. destruct F as [_ F]. apply Z.eqb_eq in F. auto.
  - rewrite KN in CD. destruct (valid_key C npk); inversion CD. reflexivity.
Qed.

(* what on_created does when a CreateRequestCache entry carries the answer's identifier *)
Lemma on_created_relay_l n src cid i Y au ce o q :
  aget i (n_creq n) = Some q ->
  let n1 := set_creq n (adel i (n_creq n)) in
  handle n src (MCreated cid i Y au ce) o =
    match aget (q_from q) (n_exit n) with
    | None => (n1, [], None)
    | Some eh =>
        if ahas (q_from q) (n_relay n) then (n1, [], None) else
        (set_relay n1 (aset (q_from q) (mkRoute (q_to q) (mkHop (q_to_peer q) (h_keys eh) None) true)
                        (aset (q_to q) (mkRoute (q_from q) (mkHop (q_peer q) (h_keys eh) None) false) (n_relay n))),
         [RmExit (q_from q); Send (p_addr (q_peer q)) (MExtended (q_from q) (q_ident q) Y au ce)], None)
    end.
Proof. intros Q. cbn [handle]. unfold on_created. rewrite Q. reflexivity. Qed.

(* an extended leaves a node only as the translation of a created that names a pending entry; the entry
   fixes circuit id, identifier and addressee; key, auth and candidate list are copied; the entry is gone *)
Lemma extended_only_for_pending_l n e a f j Y au ce :
  In (Send a (MExtended f j Y au ce)) (acts (step n e)) ->
  exists src cid i o q,
    e = EvMsg src (MCreated cid i Y au ce) o
    /\ aget i (n_creq n) = Some q /\ f = q_from q /\ j = q_ident q /\ a = p_addr (q_peer q)
    /\ aget i (n_creq (st (step n e))) = None.
Proof.
  intros I.
  assert (NE : forall l, (forall b, In b l -> is_extended b = false) -> In (Send a (MExtended f j Y au ce)) l -> False).
  { intros l H K. apply H in K. discriminate. }
  destruct e as [cid goal re firsts tries o|src m o|cid o|cid|cid|cid]; cbn [step] in I.
  - exfalso. destruct (ahas cid (n_circ n)); [destruct I|]. eapply NE; [|exact I]. apply sic_no_extended.
  - destruct m as [k0 i npk X|k0 i Y0 au0 ce0|k0 i npk X ad|k0 i Y0 au0 ce0].
    + exfalso. revert I. cbn [handle]. unfold on_create.
      repeat match goal with |- context [if ?b then _ else _] => destruct b end;
        repeat match goal with |- context [match dh C ?a ?b with _ => _ end] => destruct (dh C a b) end;
        cbn; intros K; repeat destruct K as [K|K]; try discriminate; auto.
    + destruct (aget i (n_creq n)) as [q|] eqn:Q.
      * rewrite (on_created_relay_l n src k0 i Y0 au0 ce0 o q Q) in I.
        cbn [step]. rewrite (on_created_relay_l n src k0 i Y0 au0 ce0 o q Q).
        destruct (aget (q_from q) (n_exit n)) as [eh|]; [|destruct I].
        destruct (ahas (q_from q) (n_relay n)); [destruct I|].
        cbn in I. destruct I as [K|[K|[]]]; [discriminate|]. inversion K; subst.
        exists src, k0, i, o, q. split; [reflexivity|]. split; [exact Q|]. split; [reflexivity|].
        split; [reflexivity|]. split; [reflexivity|]. cbn. apply aget_adel_same.
      * exfalso. cbn [handle] in I. unfold on_created in I. rewrite Q in I.
        destruct (aget k0 (n_retry n)) as [r|]; [|destruct I]. destruct (r_pid r =? i); [|destruct I].
        eapply NE; [|exact I]. apply ours_no_extended.
    + exfalso. destruct (on_extend_out_l n src k0 i npk X ad o _ I) as (pv & cd & K & _). discriminate.
    + exfalso. cbn [handle] in I. unfold on_extended in I.
      destruct (aget k0 (n_retry n)) as [r|]; [|destruct I]. destruct (r_pid r =? i); [|destruct I].
      eapply NE; [|exact I]. apply ours_no_extended.
  - exfalso. revert I. unfold retry_timeout. destruct (aget cid (n_retry n)) as [r|]; [|intros []].
    match goal with |- context [aget cid (n_circ ?n1)] => destruct (aget cid (n_circ n1)) as [c|] end; [|intros []].
    destruct (c_closing c); [intros []|].
    destruct (r_initial r).
    + destruct (r_peers r); [intros []|]. destruct (r_tries r <? 1); [intros []|].
      intros I. eapply NE; [|exact I]. apply sic_no_extended.
    + destruct (r_keys r); [intros []|]. destruct (r_tries r <? 1); [intros []|].
      intros I. eapply NE; [|exact I]. apply sext_no_extended.
  - destruct I.
  - destruct I.
  - destruct I.
Qed.

(* entries of the CreateRequestCache table appear only through on_extend, and then describe that extend *)
Lemma creq_only_from_extend_l n e num q :
  aget num (n_creq (st (step n e))) = Some q -> aget num (n_creq n) <> Some q ->
  exists src rc pid npk X addr o,
    e = EvMsg src (MExtend rc pid npk X addr) o /\ num = o_num o
    /\ q_ident q = pid /\ q_from q = rc /\ q_to q = o_cid o.
Proof.
  intros H N.
  assert (SAME : forall n', n_creq n' = n_creq n -> aget num (n_creq n') = Some q -> False).
  { intros n' E K. rewrite E in K. auto. }
  destruct e as [cid goal re firsts tries o|src m o|cid o|cid|cid|cid]; cbn [step] in H.
  - exfalso. revert H. destruct (ahas cid (n_circ n)); [apply SAME; reflexivity|].
    unfold send_initial_create. match goal with |- context [aget cid ?l] => destruct (aget cid l) end;
      [|apply SAME; reflexivity]. destruct firsts; apply SAME; reflexivity.
  - destruct m as [k0 i npk X|k0 i Y0 au0 ce0|k0 i npk X ad|k0 i Y0 au0 ce0].
    + exfalso. revert H. cbn [handle]. unfold on_create.
      repeat match goal with |- context [if ?b then _ else _] => destruct b end;
        repeat match goal with |- context [match dh C ?a ?b with _ => _ end] => destruct (dh C a b) end;
        apply SAME; reflexivity.
    + exfalso. destruct (aget i (n_creq n)) as [q0|] eqn:Q.
      * rewrite (on_created_relay_l n src k0 i Y0 au0 ce0 o q0 Q) in H.
        assert (K : aget num (adel i (n_creq n)) = Some q).
        { destruct (aget (q_from q0) (n_exit n)); [destruct (ahas (q_from q0) (n_relay n))|]; exact H. }
        rewrite aget_adel in K. destruct (num =? i); [discriminate|]. auto.
      * revert H. cbn [handle]. unfold on_created. rewrite Q.
        destruct (aget k0 (n_retry n)) as [r|]; [|apply SAME; reflexivity].
        destruct (r_pid r =? i); [|apply SAME; reflexivity].
        apply SAME. apply ours_creq.
    + revert H. cbn [handle]. unfold on_extend.
      destruct (negb (n_relay_flag n)); [intros H; exfalso; revert H; apply SAME; reflexivity|].
      destruct (aget k0 (n_dreq n)) as [rq|]; [|intros H; exfalso; revert H; apply SAME; reflexivity].
      match goal with |- context [if ?b then _ else _] => destruct b end;
        [intros H; exfalso; revert H; apply SAME; reflexivity|].
      match goal with |- context [match ?s with Raise e => _ | Ok p => _ end] => destruct s as [cd|e] end;
        [|intros H; exfalso; revert H; apply SAME; reflexivity].
      match goal with |- context [match ?s with Raise e => _ | Ok p => _ end] => destruct s as [[pv|]|e] end;
        try (intros H; exfalso; revert H; apply SAME; reflexivity).
      cbn [st done fst n_creq set_creq]. rewrite aget_aset. destruct (num =? o_num o) eqn:E; [|intros H; exfalso; auto].
      intros H. inversion H; subst q. apply Z.eqb_eq in E.
      exists src, k0, i, npk, X, ad, o. cbn. auto 10.
    + exfalso. revert H. cbn [handle]. unfold on_extended.
      destruct (aget k0 (n_retry n)) as [r|]; [|apply SAME; reflexivity].
      destruct (r_pid r =? i); [|apply SAME; reflexivity].
      apply SAME. apply ours_creq.
  - exfalso. revert H. apply SAME. apply retry_timeout_creq.
  - exfalso. revert H. apply SAME. unfold run_remove.
    match goal with |- context [aget cid (n_circ ?n1)] => destruct (aget cid (n_circ n1)) end; reflexivity.
  - exfalso. revert H. apply SAME. reflexivity.
  - exfalso. revert H. apply SAME. reflexivity.
Qed.

End Relay.
