(* Proofs over model/M06_emit_gen.v, i.e. over the interpretation of the decisions generated from the source
   (gen/G06_exit.v).  Part 1: each interpreted function equals an explicit normal form (proved by case analysis on
   the condition atoms, so an equivalent rewrite of the source still proves and a changed decision does not).
   Part 2: invariants over all operation histories. *)
From Coq Require Import ZArith List Bool Lia ZifyBool.
From IPV8V Require Import lib.PyErr lib.Bytes lib.BE gen.G06_datachecker gen.G06_exit spec.S06_policy
  model.M06_emit model.M06_emit_gen proofs.P06_classifier proofs.P06_emit.
Import ListNotations.
Open Scope Z_scope.

Ltac split_ifs :=
  repeat match goal with
         | |- context [if ?b then _ else _] => destruct b eqn:?
         end.

Section RunEffs.
Variable h : sockx -> eff -> sockx * list xout.
Lemma run_effs_nil s : run_effs h s [] = (s, []).
Proof. reflexivity. Qed.
Lemma run_effs_single s e : run_effs h s [e] = h s e.
Proof. cbn [run_effs]. destruct (h s e) as [s1 o1]. rewrite app_nil_r. reflexivity. Qed.
Lemma run_effs_cons s e tl :
  run_effs h s (e :: tl) = let '(s1, o1) := h s e in let '(s2, o2) := run_effs h s1 tl in (s2, o1 ++ o2).
Proof. reflexivity. Qed.
End RunEffs.

Lemma bytes_eqb_sym a b : bytes_eqb a b = bytes_eqb b a.
Proof.
  destruct (bytes_eqb a b) eqn:E1, (bytes_eqb b a) eqn:E2; try reflexivity.
  - apply bytes_eqb_eq in E1. subst. rewrite bytes_eqb_refl in E2. discriminate.
  - apply bytes_eqb_eq in E2. subst. rewrite bytes_eqb_refl in E1. discriminate.
Qed.

Section Gen.
Variable flags : list Z.
Variable prefix : bytes.
Variable hop_ip : bytes.

Notation allowed := (M06_emit.allowed flags prefix).
Notation do_sendto := (do_sendto flags prefix).
Notation do_exit_data := (do_exit_data flags prefix hop_ip).
Notation do_on_address := (do_on_address flags prefix).
Notation do_create := (do_create flags prefix).
Notation do_datagram_received := (do_datagram_received flags prefix).
Notation drain_loop := (drain_loop flags prefix).
Notation lvl1 := (lvl1 flags prefix).
Notation lvl2 := (lvl2 flags prefix hop_ip).
Notation stepx := (stepx flags prefix hop_ip).
Notation runx := (runx flags prefix hop_ip).

(* ------------------------------------------------------------------ part 1: normal forms *)

(* TunnelExitSocket.sendto: policy first; a domain name is resolved; otherwise the transport of the destination's
   family, or the bounded queue while that transport does not exist yet *)
Definition nf_sendto (c : ctx) (s : sockx) : sockx * list xout :=
  if allowed (c_data c) then
    match c_dest c with
    | DDomain _ _ =>
        (mkX (x_enabled s) (x_task s) (x_t4 s) (x_t6 s) (x_queue s) (x_pending s ++ [c_data c]) (x_up s) (x_down s)
             (x_stuck s), [])
    | d =>
        let t := if is_v6 d then T6 else T4 in
        if have s t then
          (mkX (x_enabled s) (x_task s) (x_t4 s) (x_t6 s) (x_queue s) (x_pending s) (x_up s + blen (c_data c))
               (x_down s) (x_stuck s), [(Sendto (c_data c) d, tag t)])
        else
          (mkX (x_enabled s) (x_task s) (x_t4 s) (x_t6 s) (qx_append (x_queue s) (c_data c, d)) (x_pending s)
               (x_up s) (x_down s) (x_stuck s), [])
    end
  else (s, []).

Lemma do_sendto_nf c s : do_sendto c s = nf_sendto c s.
Proof.
  destruct s as [en tk t4 t6 q p up dn st], c as [data d src].
  unfold M06_emit_gen.do_sendto, nf_sendto, gx_sendto.
  cbn [c_data c_dest x_enabled x_task x_t4 x_t6 x_queue x_pending x_up x_down x_stuck].
  destruct (allowed data); [|reflexivity].
  destruct d, t4, t6; reflexivity.
Qed.

(* TunnelExitSocket.enable *)
Definition nf_enable (s : sockx) : sockx * list xout :=
  if x_enabled s then (s, [])
  else match x_task s with
       | TaskNone => (mkX true TaskRegistered (x_t4 s) (x_t6 s) (x_queue s) (x_pending s) (x_up s) (x_down s)
                          (x_stuck s), [])
       | _ => (mkX true (x_task s) (x_t4 s) (x_t6 s) (x_queue s) (x_pending s) (x_up s) (x_down s) true, [])
       end.

Lemma do_enable_nf c s : do_enable c s = nf_enable s.
Proof.
  destruct s as [en tk t4 t6 q p up dn st]. unfold do_enable, nf_enable, gx_enable.
  cbn [x_enabled x_task]. destruct en, tk; reflexivity.
Qed.

Lemma do_tunnel_data_nf c s : do_tunnel_data c s = (s, [(SendData (c_src c) (c_data c), 0)]).
Proof. reflexivity. Qed.

(* TunnelCommunity.exit_data: unknown circuit -> drop; enabled -> sendto; disabled -> enable and sendto exactly
   when the TEXT of the source IP equals the text of the hop's IP, else drop *)
Definition nf_exit_data (known : bool) (src_ip : bytes) (c : ctx) (s : sockx) : sockx * list xout :=
  if known then
    if x_enabled s then do_sendto c s
    else if bytes_eqb src_ip hop_ip then
           let '(s1, o1) := nf_enable s in let '(s2, o2) := do_sendto c s1 in (s2, o1 ++ o2)
         else (s, [])
  else (s, []).

Lemma do_exit_data_nf known src_ip c s : do_exit_data known src_ip c s = nf_exit_data known src_ip c s.
Proof.
  unfold M06_emit_gen.do_exit_data, nf_exit_data, gx_exit_data.
  rewrite ?(bytes_eqb_sym hop_ip src_ip).       (* the operands of == may be written either way round *)
  destruct known, (x_enabled s) eqn:En, (bytes_eqb src_ip hop_ip); cbn [negb andb orb];
    rewrite ?run_effs_single; cbn [M06_emit_gen.lvl1]; try reflexivity.
  rewrite run_effs_cons. cbn [M06_emit_gen.lvl1]. rewrite do_enable_nf.
  destruct (nf_enable s) as [s1 o1]. rewrite run_effs_single. reflexivity.
Qed.

Lemma on_data_exit_nf known src_ip c s n :
  run_effs (lvl2 known src_ip c) s (gx_on_data_exit n) = if n then (s, []) else do_exit_data known src_ip c s.
Proof. unfold gx_on_data_exit. destruct n; cbn [negb]; [reflexivity|]. apply run_effs_single. Qed.

Lemma do_on_address_nf ok c s : do_on_address ok c s = if ok then do_sendto c s else (s, []).
Proof. unfold M06_emit_gen.do_on_address, gx_on_address. destruct ok; [apply run_effs_single|reflexivity]. Qed.

(* create_transports: both transports are opened, each with the receive callback of its own family, then the
   queue is drained from the LEFT (oldest first) through sendto *)
Lemma do_create_nf c s :
  do_create c s =
  drain_loop QLeft (length (x_queue s))
    (mkX (x_enabled s) (x_task s) (Some CB4) (Some CB6) (x_queue s) (x_pending s) (x_up s) (x_down s) (x_stuck s)).
Proof.
  destruct s as [en tk t4 t6 q p up dn st]. unfold M06_emit_gen.do_create, gx_create_transports.
  repeat (rewrite run_effs_cons; cbn [M06_emit_gen.lvl1 leaf]).
  cbn [x_enabled x_task x_t4 x_t6 x_queue x_pending x_up x_down x_stuck].
  cbn [run_effs].
  match goal with |- context [M06_emit_gen.drain_loop ?a ?b ?c ?d ?e] => destruct (M06_emit_gen.drain_loop a b c d e) as [s1 o1] end.
  cbn [app]. rewrite app_nil_r. reflexivity.
Qed.

(* datagram_received: count, then the SAME policy on what comes back; only permitted data enters the tunnel *)
Definition nf_datagram_received (c : ctx) (s : sockx) : sockx * list xout :=
  (mkX (x_enabled s) (x_task s) (x_t4 s) (x_t6 s) (x_queue s) (x_pending s) (x_up s) (x_down s + blen (c_data c))
       (x_stuck s),
   if allowed (c_data c) then [(SendData (c_src c) (c_data c), 0)] else []).

Lemma do_datagram_received_nf c s : do_datagram_received c s = nf_datagram_received c s.
Proof.
  destruct s as [en tk t4 t6 q p up dn st].
  unfold M06_emit_gen.do_datagram_received, nf_datagram_received, gx_datagram_received.
  destruct (allowed (c_data c)); reflexivity.
Qed.

Definition mapped_prefix : bytes := [58; 58; 102; 102; 102; 102; 58].     (* "::ffff:" *)

Lemma datagram_received_ipv4_nf known sip c s src_ip :
  run_effs (lvl2 known sip c) s (gx_datagram_received_ipv4 src_ip) = do_datagram_received c s.
Proof. unfold gx_datagram_received_ipv4. apply run_effs_single. Qed.

Lemma datagram_received_ipv6_nf known sip c s src_ip :
  run_effs (lvl2 known sip c) s (gx_datagram_received_ipv6 src_ip) =
  if bytes_eqb (firstn 7 src_ip) mapped_prefix then (s, []) else do_datagram_received c s.
Proof.
  unfold gx_datagram_received_ipv6, mapped_prefix, bytes_startswith.
  rewrite ?slice_prefix by lia. change (Z.to_nat 7) with 7%nat. cbn [length].
  rewrite ?(bytes_eqb_sym [58; 58; 102; 102; 102; 102; 58] (firstn 7 src_ip)).
  destruct (bytes_eqb (firstn 7 src_ip) _); cbn [negb andb orb]; rewrite ?run_effs_single; reflexivity.
Qed.

Lemma maxlen_is_10 : gx_queue_maxlen = 10.
Proof. reflexivity. Qed.


(* ------------------------------------------------------------------ part 2: invariants *)

Definition qitem_okx (x : bytes * dest) : Prop := bytes_ok (fst x) /\ ip_dest (snd x).

Definition tag_ok (o : xout) : Prop :=
  match fst o with
  | Sendto _ d => snd o = if is_v6 d then 6 else 4
  | SendData _ _ => snd o = 0
  end.
Definition xout_ok (o : xout) : Prop := out_ok flags prefix (fst o) /\ tag_ok o.

Definition opx_ok (o : opx) : Prop :=
  match o with
  | XExitData _ _ _ data => bytes_ok data
  | XTransportsCreated => True
  | XResolved _ _ d => ip_dest d          (* the resolver yields IP addresses (environment hypothesis) *)
  | XOutside _ _ _ data => bytes_ok data
  end.

Record sockx_ok (s : sockx) : Prop := {
  kq : Forall qitem_okx (x_queue s);
  kp : Forall bytes_ok (x_pending s);
  kl : Z.of_nat (length (x_queue s)) <= 10;
  kd : x_enabled s = false -> x_task s = TaskNone /\ x_pending s = [] /\ x_queue s = [];
  kt : match x_task s with
       | TaskDone => x_t4 s = Some CB4 /\ x_t6 s = Some CB6 /\ x_queue s = []
       | _ => x_t4 s = None /\ x_t6 s = None
       end;
  kn : x_task s = TaskNone -> x_enabled s = false;
  ks : x_stuck s = false
}.

Lemma allowed_perm data : bytes_ok data -> allowed data = true -> permitted flags prefix data = true.
Proof. intros H A. rewrite <- (allowed_permitted flags prefix data H). exact A. Qed.

Lemma ip_dest_not_null d : ip_dest d -> d <> DNull.
Proof. destruct d; simpl; intros H; try contradiction; discriminate. Qed.

Lemma ok_counters s up dn : sockx_ok s ->
  sockx_ok (mkX (x_enabled s) (x_task s) (x_t4 s) (x_t6 s) (x_queue s) (x_pending s) up dn (x_stuck s)).
Proof. intros [Hq Hp Hl Hd Ht Hkn Hs]. constructor; cbn [x_enabled x_task x_t4 x_t6 x_queue x_pending x_stuck]; assumption. Qed.

Lemma ok_pending s data : sockx_ok s -> x_enabled s = true -> bytes_ok data ->
  sockx_ok (mkX (x_enabled s) (x_task s) (x_t4 s) (x_t6 s) (x_queue s) (x_pending s ++ [data]) (x_up s) (x_down s)
                (x_stuck s)).
Proof.
  intros [Hq Hp Hl Hd Ht Hkn Hs] En Hb.
  constructor; cbn [x_enabled x_task x_t4 x_t6 x_queue x_pending x_stuck]; try assumption.
  - apply Forall_app; split; [assumption|constructor; [assumption|constructor]].
  - congruence.
Qed.

Lemma qx_append_ok q x : Forall qitem_okx q -> qitem_okx x -> Forall qitem_okx (qx_append q x).
Proof.
  intros Hq Hx. unfold qx_append. destruct (Z.of_nat (length q) <? gx_queue_maxlen).
  - apply Forall_app; split; [assumption|constructor; [assumption|constructor]].
  - apply Forall_app; split; [|constructor; [assumption|constructor]].
    destruct q; [constructor|]. inversion Hq; assumption.
Qed.

Lemma qx_append_len q x : Z.of_nat (length q) <= 10 -> Z.of_nat (length (qx_append q x)) <= 10.
Proof.
  intros H. unfold qx_append. rewrite maxlen_is_10. destruct (Z.of_nat (length q) <? 10) eqn:E.
  - rewrite app_length; simpl. lia.
  - rewrite app_length. destruct q; simpl in *; lia.
Qed.

Lemma ok_queue s x : sockx_ok s -> x_enabled s = true -> x_task s <> TaskDone -> qitem_okx x ->
  sockx_ok (mkX (x_enabled s) (x_task s) (x_t4 s) (x_t6 s) (qx_append (x_queue s) x) (x_pending s) (x_up s) (x_down s)
                (x_stuck s)).
Proof.
  intros [Hq Hp Hl Hd Ht Hkn Hs] En Hn Hx.
  constructor; cbn [x_enabled x_task x_t4 x_t6 x_queue x_pending x_stuck]; try assumption.
  - apply qx_append_ok; assumption.
  - apply qx_append_len; assumption.
  - congruence.
  - destruct (x_task s); try assumption. congruence.
Qed.

Lemma have_done s t : sockx_ok s -> x_task s = TaskDone -> have s t = true.
Proof. intros [_ _ _ _ Ht _ _] E. rewrite E in Ht. destruct Ht as (A & B & _). destruct t; unfold have; rewrite ?A, ?B; reflexivity. Qed.

Lemma have_not_done s t : sockx_ok s -> x_task s <> TaskDone -> have s t = false.
Proof.
  intros [_ _ _ _ Ht _ _] E. destruct (x_task s); try congruence; destruct Ht as (A & B);
    destruct t; unfold have; rewrite ?A, ?B; reflexivity.
Qed.

Lemma sendto_okx c s :
  sockx_ok s -> x_enabled s = true -> bytes_ok (c_data c) -> c_dest c <> DNull ->
  sockx_ok (fst (do_sendto c s)) /\ Forall xout_ok (snd (do_sendto c s))
  /\ x_enabled (fst (do_sendto c s)) = true.
Proof.
  intros Hs En Hb Hn. rewrite do_sendto_nf. unfold nf_sendto.
  destruct (allowed (c_data c)) eqn:A; [|cbn [fst snd]; auto].
  pose proof (allowed_perm _ Hb A) as Hperm.
  assert (Hip : forall d, c_dest c = d -> is_domain d = false ->
    let t := if is_v6 d then T6 else T4 in
    let r := if have s t then
          (mkX (x_enabled s) (x_task s) (x_t4 s) (x_t6 s) (x_queue s) (x_pending s) (x_up s + blen (c_data c))
               (x_down s) (x_stuck s), [(Sendto (c_data c) d, tag t)])
        else
          (mkX (x_enabled s) (x_task s) (x_t4 s) (x_t6 s) (qx_append (x_queue s) (c_data c, d)) (x_pending s)
               (x_up s) (x_down s) (x_stuck s), []) in
    sockx_ok (fst r) /\ Forall xout_ok (snd r) /\ x_enabled (fst r) = true).
  { intros d Ed Hdom t r. subst r.
    assert (Hcase : x_task s = TaskDone \/ x_task s <> TaskDone)
      by (destruct (x_task s); auto; right; discriminate).
    destruct Hcase as [Et|Et].
    2:{ rewrite (have_not_done s t Hs Et). cbn [fst snd x_enabled].
        split; [|split; [constructor|exact En]].
        apply ok_queue; try assumption.
        split; [exact Hb|]. cbn [snd]. destruct d; simpl in *; try discriminate; try exact I; congruence. }
    rewrite (have_done s t Hs Et). cbn [fst snd x_enabled].
    split; [apply ok_counters; exact Hs|]. split; [|exact En].
    constructor; [|constructor]. split.
    - cbn [fst]. simpl. split; [exact Hperm|congruence].
    - unfold tag_ok. cbn [fst snd]. subst t. destruct (is_v6 d); reflexivity. }
  destruct (c_dest c) as [|ip port|ip port|nm port] eqn:Ed; [congruence| | |].
  - apply (Hip _ eq_refl eq_refl).
  - apply (Hip _ eq_refl eq_refl).
  - cbn [fst snd x_enabled]. split; [apply ok_pending; assumption|]. split; [constructor|exact En].
Qed.

(* what leaves when the queue is drained: the queued packets in queue order, each re-checked by sendto *)
Definition drain_out (q : list (bytes * dest)) : list xout :=
  flat_map (fun x => if allowed (fst x) then [(Sendto (fst x) (snd x), if is_v6 (snd x) then 6 else 4)] else []) q.
Definition up_sum (q : list (bytes * dest)) : Z :=
  fold_right (fun x acc => (if allowed (fst x) then blen (fst x) else 0) + acc) 0 q.

Lemma drain_spec a b : forall q s fuel,
  x_queue s = q -> Forall qitem_okx q -> (length q <= fuel)%nat -> x_t4 s = Some a -> x_t6 s = Some b ->
  drain_loop QLeft fuel s =
  (mkX (x_enabled s) (x_task s) (x_t4 s) (x_t6 s) [] (x_pending s) (x_up s + up_sum q) (x_down s) (x_stuck s),
   drain_out q).
Proof.
  induction q as [|[data d] q IH]; intros [en tk t4 t6 q0 p up dn st] fuel;
    cbn [x_enabled x_task x_t4 x_t6 x_queue x_pending x_up x_down x_stuck]; intros -> Hq Hf -> ->.
  - destruct fuel; cbn [M06_emit_gen.drain_loop q_pop x_queue up_sum fold_right drain_out flat_map];
      rewrite Z.add_0_r; reflexivity.
  - destruct fuel as [|f]; [simpl in Hf; lia|].
    inversion Hq as [|? ? [Hb Hd] Hq']; subst. cbn [fst snd] in Hb, Hd.
    cbn [M06_emit_gen.drain_loop q_pop x_queue x_enabled x_task x_t4 x_t6 x_pending x_up x_down x_stuck].
    rewrite do_sendto_nf. unfold nf_sendto. cbn [c_data c_dest].
    cbn [drain_out flat_map up_sum fold_right fst snd].
    destruct (allowed data) eqn:A.
    + destruct d as [|ip port|ip port|nm port]; try (simpl in Hd; contradiction);
        cbn [is_v6 have is_some x_t4 x_t6 x_enabled x_task x_queue x_pending x_up x_down x_stuck];
        (match goal with |- context [M06_emit_gen.drain_loop _ _ QLeft f ?s1] =>
           rewrite (IH s1 f eq_refl Hq' ltac:(simpl in Hf; lia) eq_refl eq_refl) end;
         cbn [x_enabled x_task x_t4 x_t6 x_queue x_pending x_up x_down x_stuck tag app];
         apply f_equal2; [|reflexivity]; f_equal; try (unfold up_sum; lia)).
    + match goal with |- context [M06_emit_gen.drain_loop _ _ QLeft f ?s1] =>
        rewrite (IH s1 f eq_refl Hq' ltac:(simpl in Hf; lia) eq_refl eq_refl) end.
      cbn [x_enabled x_task x_t4 x_t6 x_queue x_pending x_up x_down x_stuck app].
      apply f_equal2; [|reflexivity]. f_equal; try (unfold up_sum; lia).
Qed.

Lemma drain_out_ok q : Forall qitem_okx q -> Forall xout_ok (drain_out q).
Proof.
  induction q as [|[data d] q IH]; intros H; [constructor|].
  inversion H as [|? ? [Hb Hd] H']; subst. cbn [fst snd] in *.
  cbn [drain_out flat_map fst snd]. apply Forall_app; split; [|apply IH; exact H'].
  destruct (allowed data) eqn:A; [|constructor].
  constructor; [|constructor]. split.
  - cbn [fst]. simpl. split; [apply allowed_perm; assumption|apply ip_dest_not_null; exact Hd].
  - unfold tag_ok. reflexivity.
Qed.

Lemma transports_cb s (v6 : bool) cb : sockx_ok s -> (if v6 then x_t6 s else x_t4 s) = Some cb ->
  x_task s = TaskDone /\ cb = if v6 then CB6 else CB4.
Proof.
  intros [_ _ _ _ Ht _ _] E. destruct (x_task s); [destruct Ht as (A & B)|destruct Ht as (A & B)|destruct Ht as (A & B & _)];
    destruct v6; rewrite ?A, ?B in E; try discriminate; inversion E; auto.
Qed.

Lemma step_okx s o :
  sockx_ok s -> opx_ok o -> sockx_ok (fst (stepx s o)) /\ Forall xout_ok (snd (stepx s o)).
Proof.
  intros Hs Ho. destruct o as [known src_ip d data| |i ok d|v6 src_ip src data]; cbn [M06_emit_gen.stepx].
  - simpl in Ho. rewrite on_data_exit_nf. destruct (is_null d) eqn:Hn; [split; [assumption|constructor]|].
    assert (Hd : d <> DNull) by (intros ->; discriminate).
    rewrite do_exit_data_nf. unfold nf_exit_data.
    destruct known; [|split; [assumption|constructor]].
    destruct (x_enabled s) eqn:En.
    + destruct (sendto_okx (mkCtx data d DNull) s Hs En Ho Hd) as (H1 & H2 & _). split; assumption.
    + destruct (bytes_eqb src_ip hop_ip); [|split; [assumption|constructor]].
      unfold nf_enable. rewrite En. pose proof Hs as [Hq Hp Hl Hdd Ht Hnn Hst].
      destruct (Hdd En) as (Et & Ep & Eq). rewrite Et.
      set (s1 := mkX true TaskRegistered _ _ _ _ _ _ _).
      assert (Hs1 : sockx_ok s1).
      { subst s1. rewrite Et in Ht. constructor; cbn [x_enabled x_task x_t4 x_t6 x_queue x_pending x_stuck];
          try assumption; discriminate. }
      destruct (sendto_okx (mkCtx data d DNull) s1 Hs1 eq_refl Ho Hd) as (H1 & H2 & _).
      destruct (do_sendto _ s1) as [s2 o2]. cbn [fst snd app] in *. split; assumption.
  - destruct (x_task s) eqn:Et; try (split; [assumption|constructor]).
    rewrite do_create_nf. cbn [x_enabled x_task x_t4 x_t6 x_queue x_pending x_up x_down x_stuck].
    pose proof Hs as [Hq Hp Hl Hdd Ht Hnn Hst].
    erewrite drain_spec; [|reflexivity|exact Hq|cbn; lia|reflexivity|reflexivity].
    cbn [fst snd x_enabled x_task x_t4 x_t6 x_queue x_pending x_up x_down x_stuck].
    split; [|apply drain_out_ok; exact Hq].
    constructor; cbn [x_enabled x_task x_t4 x_t6 x_queue x_pending x_stuck]; auto; try discriminate; try (simpl; lia).
    intros En. destruct (Hdd En) as (E & _). congruence.
  - simpl in Ho. destruct (nth_error (x_pending s) i) as [data|] eqn:En; [|split; [assumption|constructor]].
    set (s' := mkX _ _ _ _ _ _ _ _ _).
    pose proof Hs as [Hq Hp Hl Hdd Ht Hnn Hst].
    assert (Hen : x_enabled s = true).
    { destruct (Bool.bool_dec (x_enabled s) true) as [E|E]; [exact E|]. apply not_true_is_false in E.
      destruct (Hdd E) as (_ & Ep & _). rewrite Ep in En. destruct i; discriminate. }
    assert (Hs' : sockx_ok s').
    { subst s'. constructor; cbn [x_enabled x_task x_t4 x_t6 x_queue x_pending x_stuck]; auto.
      - apply remove_nth_forall; assumption.
      - congruence. }
    rewrite do_on_address_nf. destruct ok; [|split; [assumption|constructor]].
    assert (Hdata : bytes_ok data) by (eapply nth_error_forall; eassumption).
    destruct (sendto_okx (mkCtx data d DNull) s' Hs' Hen Hdata (ip_dest_not_null _ Ho)) as (H1 & H2 & _).
    split; assumption.
  - simpl in Ho. destruct (if v6 then x_t6 s else x_t4 s) as [cb|] eqn:Et; [|split; [assumption|constructor]].
    destruct (transports_cb s v6 cb Hs Et) as (_ & ->).
    assert (Hdr : sockx_ok (fst (do_datagram_received (mkCtx data DNull src) s))
                  /\ Forall xout_ok (snd (do_datagram_received (mkCtx data DNull src) s))).
    { rewrite do_datagram_received_nf. unfold nf_datagram_received. cbn [fst snd c_data c_src].
      split; [apply ok_counters; exact Hs|].
      destruct (allowed data) eqn:A; [|constructor]. constructor; [|constructor].
      split; [cbn [fst]; simpl; apply allowed_perm; assumption|reflexivity]. }
    destruct v6.
    + rewrite datagram_received_ipv6_nf. destruct (bytes_eqb _ _); [split; [assumption|constructor]|exact Hdr].
    + rewrite datagram_received_ipv4_nf. exact Hdr.
Qed.

Lemma run_okx ops : forall s,
  sockx_ok s -> Forall opx_ok ops -> sockx_ok (fst (runx s ops)) /\ Forall xout_ok (snd (runx s ops)).
Proof.
  induction ops as [|o tl IH]; intros s Hs Hops; cbn [M06_emit_gen.runx].
  - split; [assumption|constructor].
  - inversion Hops as [|? ? Ho Htl]; subst.
    destruct (step_okx s o Hs Ho) as [H1 H2].
    destruct (stepx s o) as [s1 o1]. cbn [fst snd] in *.
    specialize (IH s1 H1 Htl). destruct (runx s1 tl) as [s2 o2]. cbn [fst snd] in *.
    destruct IH as [IH1 IH2]. split; [assumption|]. apply Forall_app; split; assumption.
Qed.

Lemma init_okx : sockx_ok init_sockx.
Proof. constructor; cbn; auto; try lia. Qed.


(* ------------------------------------------------------------------ part 3: the statements of props/C06x.v *)

Lemma emit_only_permitted_xl ops :
  Forall opx_ok ops -> Forall (fun o => out_ok flags prefix (fst o)) (snd (runx init_sockx ops)).
Proof.
  intros H. destruct (run_okx ops init_sockx init_okx H) as [_ Ho].
  eapply Forall_impl; [|exact Ho]. intros o [A _]. exact A.
Qed.

Lemma transport_matches_family_xl ops :
  Forall opx_ok ops -> Forall tag_ok (snd (runx init_sockx ops)).
Proof.
  intros H. destruct (run_okx ops init_sockx init_okx H) as [_ Ho].
  eapply Forall_impl; [|exact Ho]. intros o [_ A]. exact A.
Qed.

Lemma queue_bounded_xl ops :
  Forall opx_ok ops -> Z.of_nat (length (x_queue (fst (runx init_sockx ops)))) <= 10.
Proof. intros H. destruct (run_okx ops init_sockx init_okx H) as [[_ _ Hl _ _ _ _] _]. exact Hl. Qed.

Lemma never_stuck_xl ops : Forall opx_ok ops -> x_stuck (fst (runx init_sockx ops)) = false.
Proof. intros H. destruct (run_okx ops init_sockx init_okx H) as [[_ _ _ _ _ _ Hs] _]. exact Hs. Qed.

Lemma sendto_enabled c s : x_enabled (fst (do_sendto c s)) = x_enabled s.
Proof.
  rewrite do_sendto_nf. unfold nf_sendto. destruct (allowed _); [|reflexivity].
  destruct (c_dest c); cbn [is_v6]; try reflexivity; destruct (have s _); reflexivity.
Qed.

Lemma disabled_facts s : sockx_ok s -> x_enabled s = false ->
  x_task s = TaskNone /\ x_pending s = [] /\ x_t4 s = None /\ x_t6 s = None.
Proof.
  intros [_ _ _ Hd Ht _ _] En. destruct (Hd En) as (Et & Ep & _). rewrite Et in Ht. destruct Ht. auto.
Qed.

(* the socket is opened only by exit data whose source-IP TEXT equals the hop's, with a non-null destination *)
Lemma enabled_only_by_prev_hop_xl s o :
  sockx_ok s -> x_enabled s = false -> x_enabled (fst (stepx s o)) = true ->
  exists d data, o = XExitData true hop_ip d data /\ d <> DNull.
Proof.
  intros Hs En H. destruct (disabled_facts s Hs En) as (Et & Ep & E4 & E6).
  destruct o as [known src_ip d data| |i ok d|v6 src_ip src data]; cbn [M06_emit_gen.stepx] in H.
  - rewrite on_data_exit_nf in H. destruct (is_null d) eqn:Hn; [cbn in H; congruence|].
    rewrite do_exit_data_nf in H. unfold nf_exit_data in H.
    destruct known; [|cbn in H; congruence]. rewrite En in H.
    destruct (bytes_eqb src_ip hop_ip) eqn:E; [|cbn in H; congruence].
    apply bytes_eqb_eq in E. subst src_ip. exists d, data. split; [reflexivity|]. intros ->; discriminate.
  - rewrite Et in H. cbn in H. congruence.
  - rewrite Ep in H. destruct i; cbn in H; congruence.
  - destruct v6; rewrite ?E4, ?E6 in H; cbn in H; congruence.
Qed.

Lemma disabled_is_silent_xl s o :
  sockx_ok s -> x_enabled s = false -> x_enabled (fst (stepx s o)) = false -> snd (stepx s o) = [].
Proof.
  intros Hs En H. destruct (disabled_facts s Hs En) as (Et & Ep & E4 & E6).
  destruct o as [known src_ip d data| |i ok d|v6 src_ip src data]; cbn [M06_emit_gen.stepx] in *.
  - rewrite on_data_exit_nf in *. destruct (is_null d); [reflexivity|].
    rewrite do_exit_data_nf in *. unfold nf_exit_data in *.
    destruct known; [|reflexivity]. rewrite En in *.
    destruct (bytes_eqb src_ip hop_ip); [|reflexivity].
    unfold nf_enable in *. rewrite En, Et in *.
    match type of H with context [do_sendto ?c ?s1] =>
      pose proof (sendto_enabled c s1) as Hx; destruct (do_sendto c s1) as [s2 o2] end.
    cbn [fst snd x_enabled] in *. congruence.
  - rewrite Et. reflexivity.
  - rewrite Ep. destruct i; reflexivity.
  - destruct v6; rewrite ?E4, ?E6; reflexivity.
Qed.

(* whole histories: nothing is emitted and the socket stays closed until such a packet has been seen *)
Definition opens (o : opx) : bool :=
  match o with
  | XExitData true src_ip d _ => bytes_eqb src_ip hop_ip && negb (is_null d)
  | _ => false
  end.

Lemma opens_spec o : opens o = true <-> exists d data, o = XExitData true hop_ip d data /\ d <> DNull.
Proof.
  split.
  - destruct o as [[|] src_ip d data| | |]; cbn [opens]; try discriminate. intros H.
    apply andb_true_iff in H as [A B]. apply bytes_eqb_eq in A. subst. exists d, data. split; [reflexivity|].
    intros ->; discriminate.
  - intros (d & data & -> & Hd). cbn [opens]. rewrite bytes_eqb_refl. destruct d; try reflexivity. congruence.
Qed.

Lemma silent_until_opened_gen ops : forall s,
  sockx_ok s -> x_enabled s = false -> Forall opx_ok ops -> existsb opens ops = false ->
  snd (runx s ops) = [] /\ x_enabled (fst (runx s ops)) = false.
Proof.
  induction ops as [|o tl IH]; intros s Hs En Hops Hno; cbn [M06_emit_gen.runx]; [auto|].
  inversion Hops as [|? ? Ho Htl]; subst. cbn [existsb] in Hno. apply orb_false_iff in Hno as [No Ntl].
  assert (En1 : x_enabled (fst (stepx s o)) = false).
  { destruct (x_enabled (fst (stepx s o))) eqn:E; [|reflexivity].
    destruct (enabled_only_by_prev_hop_xl s o Hs En E) as (d & data & Eo & Hd).
    assert (opens o = true) by (apply opens_spec; eauto). congruence. }
  pose proof (disabled_is_silent_xl s o Hs En En1) as Hsil.
  destruct (step_okx s o Hs Ho) as [Hs1 _].
  destruct (stepx s o) as [s1 o1]. cbn [fst snd] in *. subst o1.
  destruct (IH s1 Hs1 En1 Htl Ntl) as [A B]. destruct (runx s1 tl) as [s2 o2]. cbn [fst snd] in *.
  subst. auto.
Qed.

Lemma silent_until_opened_xl ops :
  Forall opx_ok ops -> existsb opens ops = false ->
  snd (runx init_sockx ops) = [] /\ x_enabled (fst (runx init_sockx ops)) = false.
Proof. intros H N. apply silent_until_opened_gen; auto using init_okx. Qed.

Lemma enabled_history_xl ops :
  Forall opx_ok ops -> x_enabled (fst (runx init_sockx ops)) = true ->
  exists d data, In (XExitData true hop_ip d data) ops /\ d <> DNull.
Proof.
  intros H E. destruct (existsb opens ops) eqn:X.
  - apply existsb_exists in X as (o & Hin & Ho). apply opens_spec in Ho as (d & data & -> & Hd). eauto.
  - destruct (silent_until_opened_xl ops H X) as [_ B]. congruence.
Qed.

(* a forbidden packet is dropped without a trace, also by an enabled socket *)
Lemma forbidden_exit_noop_xl s known src_ip d data :
  x_enabled s = true -> allowed data = false -> stepx s (XExitData known src_ip d data) = (s, []).
Proof.
  intros En A. cbn [M06_emit_gen.stepx]. rewrite on_data_exit_nf. destruct (is_null d); [reflexivity|].
  rewrite do_exit_data_nf. unfold nf_exit_data. destruct known; [|reflexivity]. rewrite En.
  rewrite do_sendto_nf. unfold nf_sendto. cbn [c_data]. rewrite A. reflexivity.
Qed.

Lemma forbidden_outside_xl s v6 src_ip src data :
  sockx_ok s -> allowed data = false -> snd (stepx s (XOutside v6 src_ip src data)) = [].
Proof.
  intros Hs A. cbn [M06_emit_gen.stepx].
  destruct (if v6 then x_t6 s else x_t4 s) as [cb|] eqn:Et; [|reflexivity].
  destruct (transports_cb s v6 cb Hs Et) as (_ & ->).
  assert (Hdr : snd (do_datagram_received (mkCtx data DNull src) s) = []).
  { rewrite do_datagram_received_nf. unfold nf_datagram_received. cbn [snd c_data]. rewrite A. reflexivity. }
  destruct v6.
  - rewrite datagram_received_ipv6_nf. destruct (bytes_eqb _ _); [reflexivity|exact Hdr].
  - rewrite datagram_received_ipv4_nf. exact Hdr.
Qed.

(* when the transports come into existence the queue is emptied oldest first, every packet through the policy *)
Lemma drain_fifo_xl s :
  sockx_ok s -> x_task s = TaskRegistered ->
  snd (stepx s XTransportsCreated) = drain_out (x_queue s)
  /\ x_queue (fst (stepx s XTransportsCreated)) = []
  /\ x_t4 (fst (stepx s XTransportsCreated)) = Some CB4 /\ x_t6 (fst (stepx s XTransportsCreated)) = Some CB6.
Proof.
  intros Hs Et. cbn [M06_emit_gen.stepx]. rewrite Et. rewrite do_create_nf.
  cbn [x_enabled x_task x_t4 x_t6 x_queue x_pending x_up x_down x_stuck].
  pose proof Hs as [Hq _ _ _ _ _ _].
  erewrite drain_spec; [|reflexivity|exact Hq|cbn; lia|reflexivity|reflexivity].
  cbn [fst snd x_queue x_t4 x_t6]. auto.
Qed.

(* IPv4-mapped sources on the IPv6 socket are ignored entirely *)
Lemma mapped_ignored_xl s src_ip src data :
  sockx_ok s -> firstn 7 src_ip = mapped_prefix -> stepx s (XOutside true src_ip src data) = (s, []).
Proof.
  intros Hs Hp. cbn [M06_emit_gen.stepx].
  destruct (x_t6 s) as [cb|] eqn:Et; [|reflexivity].
  destruct (transports_cb s true cb Hs Et) as (_ & ->).
  rewrite datagram_received_ipv6_nf. rewrite Hp. rewrite bytes_eqb_refl. reflexivity.
Qed.

End Gen.

(* ---- the op interface of M06_emit (numeric address identifiers rendered by `txt`) ---- *)
Lemma lift_ok txt o : op_ok o -> opx_ok (lift txt o).
Proof. destruct o; simpl; auto. Qed.

Lemma emit_only_permitted_ops_l flags prefix txt prev_ip ops :
  Forall op_ok ops ->
  Forall (out_ok flags prefix) (map fst (snd (run_gen flags prefix txt prev_ip init_sockx ops))).
Proof.
  intros H. unfold run_gen. apply Forall_map.
  apply emit_only_permitted_xl. apply Forall_map. eapply Forall_impl; [|exact H].
  intros o. apply lift_ok.
Qed.

Lemma enabled_ops_l flags prefix txt prev_ip ops :
  Forall op_ok ops -> x_enabled (fst (run_gen flags prefix txt prev_ip init_sockx ops)) = true ->
  exists src d data, In (ExitData true src d data) ops /\ txt src = txt prev_ip /\ d <> DNull.
Proof.
  intros H E. unfold run_gen in E.
  destruct (enabled_history_xl flags prefix (txt prev_ip) (map (lift txt) ops)) as (d & data & Hin & Hd).
  - apply Forall_map. eapply Forall_impl; [|exact H]. intros o. apply lift_ok.
  - exact E.
  - apply in_map_iff in Hin as (o & Eo & Hin). destruct o as [known src d' data'| | |v6 m s' dd]; try discriminate.
    inversion Eo; subst. exists src, d, data. auto.
Qed.

(* ------------------------------------------------------------------ part 4: the hand model is an abstraction
   M06_emit (hand-written, numeric address identifiers, one `opened` flag) computes, operation by operation,
   exactly what the interpretation of the generated decisions computes - provided the text rendering keeps the
   previous hop's address apart from the others and the `mapped` flag of an Outside op says whether the text the
   IPv6 callback sees starts with "::ffff:". *)
Section Refine.
Variable flags : list Z.
Variable prefix : bytes.
Variable txt : Z -> bytes.
Variable prev : Z.

Notation allowed := (M06_emit.allowed flags prefix).

Definition outside_text (mapped : bool) (src : dest) : bytes :=
  match src with
  | DV4 ip _ | DV6 ip _ => txt (if mapped then MAPPED_KEY else ip)
  | _ => []
  end.

Definition op_txt_ok (o : op) : Prop :=
  match o with
  | ExitData _ src _ _ => txt src = txt prev -> src = prev
  | Outside true mapped src _ => bytes_eqb (firstn 7 (outside_text mapped src)) mapped_prefix = mapped
  | _ => True
  end.

Lemma have_opened sx t : sockx_ok sx -> have sx t = is_some (x_t4 sx).
Proof.
  intros [_ _ _ _ Ht _ _]. destruct (x_task sx); [destruct Ht as (A & B)|destruct Ht as (A & B)|destruct Ht as (A & B & _)];
    destruct t; unfold have; rewrite ?A, ?B; reflexivity.
Qed.

Lemma t6_opened sx : sockx_ok sx -> is_some (x_t6 sx) = is_some (x_t4 sx).
Proof. intros H. apply (have_opened sx T6 H). Qed.

Lemma sendto_sim c sx : sockx_ok sx ->
  to_sock (fst (do_sendto flags prefix c sx)) = fst (M06_emit.sendto flags prefix (to_sock sx) (c_data c) (c_dest c))
  /\ map fst (snd (do_sendto flags prefix c sx)) = snd (M06_emit.sendto flags prefix (to_sock sx) (c_data c) (c_dest c)).
Proof.
  intros Hs. rewrite do_sendto_nf. unfold nf_sendto, M06_emit.sendto.
  destruct (allowed (c_data c)); cbn [negb]; [|split; reflexivity].
  destruct (c_dest c) eqn:Ed; cbn [is_v6]; rewrite ?(have_opened sx _ Hs); unfold to_sock;
    cbn [opened enabled queue pending bytes_up bytes_down];
    destruct (x_t4 sx); cbn [is_some negb fst snd map x_enabled x_t4 x_queue x_pending x_up x_down];
    split; reflexivity.
Qed.

Lemma hand_drain_spec : forall q s, opened s = true -> Forall qitem_okx q ->
  M06_emit.drain flags prefix s q =
  (mkSock (enabled s) (opened s) (queue s) (pending s) (bytes_up s + up_sum flags prefix q) (bytes_down s),
   map fst (drain_out flags prefix q)).
Proof.
  induction q as [|[data d] q IH]; intros [en op qu pe up dn]; cbn [opened enabled queue pending bytes_up bytes_down];
    intros -> Hq.
  - cbn [M06_emit.drain up_sum fold_right drain_out flat_map map]. rewrite Z.add_0_r. reflexivity.
  - inversion Hq as [|? ? [Hb Hd] Hq']; subst. cbn [fst snd] in Hb, Hd.
    cbn [M06_emit.drain]. unfold M06_emit.sendto. cbn [opened enabled queue pending bytes_up bytes_down negb].
    cbn [drain_out flat_map up_sum fold_right fst snd].
    destruct (allowed data); cbn [negb].
    + destruct d as [|ip port|ip port|nm port]; try (simpl in Hd; contradiction);
        (rewrite IH by (try reflexivity; assumption);
         cbn [opened enabled queue pending bytes_up bytes_down app map fst]; apply f_equal2; [|reflexivity]; f_equal; try (unfold up_sum; lia)).
    + rewrite IH by (try reflexivity; assumption).
      cbn [opened enabled queue pending bytes_up bytes_down app]. apply f_equal2; [|reflexivity]. f_equal.
Qed.

Lemma step_refines sx o :
  sockx_ok sx -> op_ok o -> op_txt_ok o ->
  to_sock (fst (step_gen flags prefix txt prev sx o)) = fst (M06_emit.step flags prefix prev (to_sock sx) o)
  /\ map fst (snd (step_gen flags prefix txt prev sx o)) = snd (M06_emit.step flags prefix prev (to_sock sx) o).
Proof.
  intros Hs Ho Ht. unfold step_gen.
  destruct o as [known src d data| |i ok d|v6 mapped src data]; cbn [lift M06_emit_gen.stepx M06_emit.step].
  - rewrite on_data_exit_nf. destruct (is_null d); [split; reflexivity|].
    rewrite do_exit_data_nf. unfold nf_exit_data.
    destruct known; cbn [negb]; [|split; reflexivity].
    change (enabled (to_sock sx)) with (x_enabled sx).
    destruct (x_enabled sx) eqn:En.
    + apply (sendto_sim (mkCtx data d DNull) sx Hs).
    + assert (E : bytes_eqb (txt src) (txt prev) = (src =? prev)).
      { destruct (src =? prev) eqn:E.
        - apply Z.eqb_eq in E. subst. apply bytes_eqb_refl.
        - destruct (bytes_eqb (txt src) (txt prev)) eqn:E2; [|reflexivity].
          apply bytes_eqb_eq in E2. apply Ht in E2. apply Z.eqb_neq in E. contradiction. }
      rewrite E. destruct (src =? prev); [|split; reflexivity].
      unfold nf_enable. rewrite En. pose proof Hs as [Hq Hp Hl Hdd Htt Hnn Hst].
      destruct (Hdd En) as (Et & Ep & Eq). rewrite Et.
      set (s1 := mkX true TaskRegistered _ _ _ _ _ _ _).
      assert (Hs1 : sockx_ok s1).
      { subst s1. rewrite Et in Htt. constructor; cbn [x_enabled x_task x_t4 x_t6 x_queue x_pending x_stuck];
          try assumption; discriminate. }
      destruct (sendto_sim (mkCtx data d DNull) s1 Hs1) as [A B]. cbn [c_data c_dest] in A, B.
      destruct (do_sendto flags prefix _ s1) as [s2 o2]. cbn [fst snd app] in *. split; assumption.
  - pose proof Hs as [Hq Hp Hl Hdd Htt Hnn Hst].
    change (enabled (to_sock sx)) with (x_enabled sx). change (opened (to_sock sx)) with (is_some (x_t4 sx)).
    destruct (x_task sx) eqn:Et.
    + rewrite (Hnn eq_refl). split; reflexivity.
    + destruct Htt as (A & B). rewrite A. cbn [is_some negb].
      assert (En : x_enabled sx = true).
      { destruct (Bool.bool_dec (x_enabled sx) true) as [E|E]; [exact E|]. apply not_true_is_false in E.
        destruct (Hdd E) as (E' & _). congruence. }
      rewrite En. cbn [andb].
      rewrite do_create_nf. cbn [x_enabled x_task x_t4 x_t6 x_queue x_pending x_up x_down x_stuck].
      erewrite drain_spec; [|reflexivity|exact Hq|cbn; lia|reflexivity|reflexivity].
      rewrite hand_drain_spec by (try reflexivity; assumption).
      cbn [fst snd x_enabled x_task x_t4 x_t6 x_queue x_pending x_up x_down x_stuck
           enabled opened queue pending bytes_up bytes_down]. unfold to_sock.
      cbn [x_enabled x_t4 x_queue x_pending x_up x_down is_some]. rewrite En. split; reflexivity.
    + destruct Htt as (A & B & C). rewrite A. cbn [is_some negb]. rewrite andb_false_r. split; reflexivity.
  - change (pending (to_sock sx)) with (x_pending sx).
    destruct (nth_error (x_pending sx) i) as [data|] eqn:En; [|split; reflexivity].
    rewrite do_on_address_nf. destruct ok; [|split; reflexivity].
    set (s' := mkX _ _ _ _ _ _ _ _ _).
    assert (Hs' : sockx_ok s').
    { pose proof Hs as [Hq Hp Hl Hdd Htt Hnn Hst]. subst s'.
      constructor; cbn [x_enabled x_task x_t4 x_t6 x_queue x_pending x_stuck]; auto.
      - apply remove_nth_forall; assumption.
      - intros E. destruct (Hdd E) as (_ & Ep & _). rewrite Ep in En. destruct i; discriminate. }
    apply (sendto_sim (mkCtx data d DNull) s' Hs').
  - change (opened (to_sock sx)) with (is_some (x_t4 sx)).
    assert (Hopen : (if v6 then x_t6 sx else x_t4 sx) = None <-> is_some (x_t4 sx) = false).
    { pose proof (t6_opened sx Hs) as E6. destruct v6, (x_t4 sx), (x_t6 sx); simpl in *; split; congruence. }
    destruct (if v6 then x_t6 sx else x_t4 sx) as [cb|] eqn:Et.
    2:{ destruct Hopen as [H1 _]. rewrite (H1 eq_refl). split; reflexivity. }
    assert (Eo : is_some (x_t4 sx) = true).
    { destruct (is_some (x_t4 sx)) eqn:E; [reflexivity|]. destruct Hopen as [_ H2]. discriminate (H2 eq_refl). }
    rewrite Eo. cbn [negb].
    destruct (transports_cb sx v6 cb Hs Et) as (_ & ->).
    assert (Hdr : to_sock (fst (do_datagram_received flags prefix (mkCtx data DNull src) sx))
                  = mkSock (enabled (to_sock sx)) (opened (to_sock sx)) (queue (to_sock sx)) (pending (to_sock sx))
                           (bytes_up (to_sock sx)) (bytes_down (to_sock sx) + blen data)
                  /\ map fst (snd (do_datagram_received flags prefix (mkCtx data DNull src) sx))
                     = if allowed data then [SendData src data] else []).
    { rewrite do_datagram_received_nf. unfold nf_datagram_received. cbn [fst snd c_data c_src].
      split; [reflexivity|]. destruct (allowed data); reflexivity. }
    destruct Hdr as [A B]. change (opened (to_sock sx)) with (is_some (x_t4 sx)) in A. rewrite Eo in A.
    destruct v6; cbn [andb].
    + rewrite datagram_received_ipv6_nf. unfold op_txt_ok, outside_text in Ht. rewrite Ht.
      destruct mapped; [split; reflexivity|].
      rewrite A, B. destruct (allowed data); split; reflexivity.
    + rewrite datagram_received_ipv4_nf.
      rewrite A, B. destruct (allowed data); split; reflexivity.
Qed.

Lemma run_refines ops : forall sx,
  sockx_ok sx -> Forall op_ok ops -> Forall op_txt_ok ops ->
  to_sock (fst (run_gen flags prefix txt prev sx ops)) = fst (M06_emit.run flags prefix prev (to_sock sx) ops)
  /\ map fst (snd (run_gen flags prefix txt prev sx ops)) = snd (M06_emit.run flags prefix prev (to_sock sx) ops).
Proof.
  unfold run_gen. induction ops as [|o tl IH]; intros sx Hs Hops Ht; cbn [map M06_emit_gen.runx M06_emit.run].
  - split; reflexivity.
  - inversion Hops as [|? ? Ho Htl]; subst. inversion Ht as [|? ? Hto Httl]; subst.
    destruct (step_refines sx o Hs Ho Hto) as [A B]. unfold step_gen in A, B.
    destruct (step_okx flags prefix (txt prev) sx (lift txt o) Hs (lift_ok txt o Ho)) as [Hs1 _].
    destruct (stepx flags prefix (txt prev) sx (lift txt o)) as [s1 o1].
    destruct (M06_emit.step flags prefix prev (to_sock sx) o) as [h1 p1]. cbn [fst snd] in *. subst.
    destruct (IH s1 Hs1 Htl Httl) as [C D].
    destruct (runx flags prefix (txt prev) s1 (map (lift txt) tl)) as [s2 o2].
    destruct (M06_emit.run flags prefix prev (to_sock s1) tl) as [h2 p2]. cbn [fst snd] in *. subst.
    split; [reflexivity|]. apply map_app.
Qed.

Lemma gen_refines_hand_l ops :
  Forall op_ok ops -> Forall op_txt_ok ops ->
  fst (fst (observex (run_gen flags prefix txt prev init_sockx ops))) =
  (observe (M06_emit.run flags prefix prev init_sock ops)).
Proof.
  intros H1 H2. destruct (run_refines ops init_sockx init_okx H1 H2) as [A B].
  unfold observex. cbn [fst]. unfold observe. cbn [fst snd].
  change (to_sock init_sockx) with init_sock in A, B. rewrite A, B. reflexivity.
Qed.

End Refine.
