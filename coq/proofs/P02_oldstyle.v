(* Class-level round trip of the old-style payload classes: the translated glue (gen/G02_oldstyle.v) composed
   with the format-level round trip of P02_roundtrip. *)
From Coq Require Import String Ascii.
From Coq Require Import ZArith List Bool Lia ZifyBool Arith.
From IPV8V Require Import lib.PyErr lib.Bytes lib.BE model.M02_wire model.M02_oldstyle gen.G02_registry
  gen.G02_oldstyle spec.S02_oldstyle proofs.P02_prims proofs.P02_roundtrip proofs.P02_shipped.
Import ListNotations.
Open Scope Z_scope.

(* ================================================================== part 1: generic composition *)

Lemma val_ok_key k1 k2 f v : simple_fmt f = true -> val_ok k1 f v = val_ok k2 f v.
Proof. destruct f; intros H; try discriminate H; reflexivity. Qed.

Lemma pack_key k1 k2 f v : simple_fmt f = true -> pack k1 f v = pack k2 f v.
Proof. destruct f; intros H; try discriminate H; reflexivity. Qed.

Lemma penc_defined p v : prim_ok p v = true -> exists b, penc p v = Ok b.
Proof.
  intros H. unfold penc. rewrite H. cbn [negb]. destruct p, v; try discriminate H; eauto.
Qed.

Lemma struct_enc_defined ps : forall vs, forallb2 prim_ok ps vs = true -> exists b, struct_enc ps vs = Ok b.
Proof.
  induction ps as [|p ps IH]; intros [|v vs] H; cbn [forallb2] in H; try discriminate H.
  - exists []. reflexivity.
  - apply andb_true_iff in H as [H1 H2]. destruct (penc_defined p v H1) as [a Ea]. destruct (IH vs H2) as [b Eb].
    exists (a ++ b). cbn [struct_enc]. rewrite Ea, Eb. reflexivity.
Qed.

Lemma bits_enc_defined vs : forall w, forallb is_bit vs = true -> exists z, bits_enc vs w = Ok z.
Proof.
  induction vs as [|v vs IH]; intros w H; cbn [forallb] in H.
  - exists 0. reflexivity.
  - apply andb_true_iff in H as [H1 H2]. destruct (IH (w / 2) H2) as [z Ez].
    destruct v; try discriminate H1. cbn [bits_enc truthy bind]. rewrite Ez. cbn [bind]. eauto.
Qed.

Lemma pack_defined_simple k f v :
  wf_fmt f = true -> simple_fmt f = true -> val_ok k f v = true -> exists bs, pack k f v = Ok bs.
Proof.
  intros Hwf Hs Hok. destruct f; try discriminate Hs.
  - (* struct *)
    cbn [wf_fmt] in Hwf. apply andb_true_iff in Hwf as [Hne _].
    destruct ps as [|p [|p2 ps]]; [discriminate Hne| |].
    + cbn [val_ok] in Hok. cbn [pack]. apply penc_defined. exact Hok.
    + cbn [val_ok] in Hok. destruct v; try discriminate Hok. cbn [pack]. apply struct_enc_defined. exact Hok.
  - (* bits *)
    cbn [val_ok] in Hok. destruct v; try discriminate Hok. apply andb_true_iff in Hok as [Hl Hb].
    cbn [pack]. rewrite Hl. destruct (bits_enc_defined l 128 Hb) as [z Ez]. rewrite Ez. cbn [bind]. eauto.
  - (* raw *)
    cbn [val_ok] in Hok. destruct v; try discriminate Hok. cbn [pack]. rewrite Hok. eauto.
  - (* varlen *)
    cbn [wf_fmt] in Hwf. apply andb_true_iff in Hwf as [_ Hbase]. apply Nat.ltb_lt in Hbase.
    cbn [val_ok] in Hok. cbn [pack].
    assert (G : forall b, (0 <? base)%nat && (length b mod base =? 0)%nat && bytes_okb b
                          && (Z.of_nat (length b / base) <? 256 ^ Z.of_nat lw) = true ->
                          exists bs, varlen_pack lw base b = Ok bs).
    { intros b H. repeat (apply andb_true_iff in H as [H ?]). unfold varlen_pack.
      destruct (base =? 0)%nat eqn:E; [apply Nat.eqb_eq in E; lia|].
      unfold in_range. replace (0 <=? Z.of_nat (length b / base)) with true by lia.
      rewrite H0, H1. cbn [andb]. eauto. }
    destruct v; try discriminate Hok; destruct utf8; try discriminate Hok.
    + apply G. exact Hok.
    + apply andb_true_iff in Hok as [Hok Hu]. rewrite Hu. apply G. exact Hok.
  - (* ipv4 *)
    cbn [val_ok] in Hok. destruct v as [| | | | |a| | | |]; try discriminate Hok.
    destruct a; try discriminate Hok. cbn [pack]. cbn [addr_ok] in Hok. rewrite Hok. eauto.
Qed.

Lemma wf_msg_cons f fs : wf_msg (msg_of_list (f :: fs)) = true -> wf_fmt f = true /\ wf_msg (msg_of_list fs) = true.
Proof.
  cbn [msg_of_list wf_msg]. destruct (msg_of_list fs) eqn:E.
  - intros H. split; [exact H|reflexivity].
  - intros H. apply andb_true_iff in H as [H1 H2]. apply andb_true_iff in H1 as [H1 _]. split; assumption.
Qed.

Lemma pack_msg_defined_simple k fs : forall vs,
  wf_msg (msg_of_list fs) = true -> forallb simple_fmt fs = true -> msg_ok k (msg_of_list fs) vs = true ->
  exists bs, pack_msg k (msg_of_list fs) vs = Ok bs.
Proof.
  induction fs as [|f fs IH]; intros vs Hwf Hs Hok.
  - destruct vs; [|discriminate Hok]. exists []. reflexivity.
  - destruct vs as [|v vs]; [discriminate Hok|]. cbn [msg_of_list] in Hok |- *. rewrite msg_ok_cons in Hok.
    apply andb_true_iff in Hok as [Hv Hvs]. cbn [forallb] in Hs. apply andb_true_iff in Hs as [Hsf Hss].
    destruct (wf_msg_cons f fs Hwf) as [Hwf1 Hwf2].
    destruct (pack_defined_simple k f v Hwf1 Hsf Hv) as [a Ea]. destruct (IH vs Hwf2 Hss Hvs) as [b Eb].
    exists (a ++ b). rewrite pack_msg_cons, Ea, Eb. reflexivity.
Qed.

(* `bits` only transports truth values *)
Lemma truthy_bitnorm v : truthy (bitnorm v) = truthy v.
Proof. unfold bitnorm. destruct (truthy v) as [b|e] eqn:E; [|exact E]. destruct b; reflexivity. Qed.

Lemma bits_enc_norm vs : forall w, bits_enc (map bitnorm vs) w = bits_enc vs w.
Proof.
  induction vs as [|v vs IH]; intros w; [reflexivity|]. cbn [map bits_enc]. rewrite truthy_bitnorm, IH. reflexivity.
Qed.

Lemma pack_msg_image k fs : forall vs,
  pack_msg k (msg_of_list fs) (wire_image fs vs) = pack_msg k (msg_of_list fs) vs.
Proof.
  induction fs as [|f fs IH]; intros vs; [destruct vs; reflexivity|].
  destruct vs as [|v vs]; [destruct f; reflexivity|].
  assert (G : pack_msg k (msg_of_list (f :: fs)) (v :: wire_image fs vs) = pack_msg k (msg_of_list (f :: fs)) (v :: vs)).
  { cbn [msg_of_list]. rewrite !pack_msg_cons, IH. reflexivity. }
  destruct f; try exact G. destruct v; try exact G.
  cbn [wire_image msg_of_list]. rewrite !pack_msg_cons, IH. cbn [pack]. rewrite map_length, bits_enc_norm. reflexivity.
Qed.

Lemma mapM_ok_length {A B} (f : A -> res B) : forall l r, mapM f l = Ok r -> length r = length l.
Proof.
  induction l as [|x l IH]; intros r H; cbn [mapM] in H.
  - inversion H. reflexivity.
  - destruct (f x); cbn [bind] in H; [|discriminate]. destruct (mapM f l) eqn:E; cbn [bind] in H; [|discriminate].
    inversion H. cbn [length]. f_equal. apply IH. reflexivity.
Qed.

Section Compose.
Variable key_ok : bytes -> bool.

(* glue facts + format-level round trip = class-level round trip on the wire *)
Lemma compose_roundtrip (c : oldcls) fs x pl vs bs y (pre suf : bytes) :
  mapM (find_fmt REG) (oc_formats c) = Ok fs ->
  wf_msg (msg_of_list fs) = true ->
  oc_to_pack c x = Ok pl -> map fst pl = oc_formats c -> entry_vals fs pl = Ok vs ->
  msg_ok key_ok (msg_of_list fs) (wire_image fs vs) = true ->
  oc_from_unpack c (unpack_args fs (wire_image fs vs)) = Ok y ->
  encode_obj REG key_ok (oc_to_pack c) x = Ok bs ->
  (msg_greedy (msg_of_list fs) = false \/ suf = []) ->
  decode_obj REG key_ok (oc_formats c) (oc_from_unpack c) (pre ++ bs ++ suf) (length pre)
    = Ok (y, (length pre + length bs)%nat).
Proof.
  intros Hfs Hwf Htp Hn Hev Hok Hfu Henc Hg.
  unfold encode_obj in Henc. rewrite Htp in Henc. cbn [bind] in Henc. rewrite Hn, Hfs in Henc. cbn [bind] in Henc.
  rewrite Hev in Henc. cbn [bind] in Henc. rewrite <- pack_msg_image in Henc.
  unfold decode_obj. rewrite Hfs. cbn [bind].
  rewrite (msg_roundtrip_l key_ok _ _ _ pre suf Hwf Hok Henc Hg). cbn [bind]. rewrite Hfu. reflexivity.
Qed.

Lemma compose_defined (c : oldcls) fs x pl vs :
  mapM (find_fmt REG) (oc_formats c) = Ok fs ->
  wf_msg (msg_of_list fs) = true -> forallb simple_fmt fs = true ->
  oc_to_pack c x = Ok pl -> map fst pl = oc_formats c -> entry_vals fs pl = Ok vs ->
  msg_ok key_ok (msg_of_list fs) (wire_image fs vs) = true ->
  exists bs, encode_obj REG key_ok (oc_to_pack c) x = Ok bs.
Proof.
  intros Hfs Hwf Hs Htp Hn Hev Hok.
  destruct (pack_msg_defined_simple key_ok fs _ Hwf Hs Hok) as [bs Hbs]. rewrite pack_msg_image in Hbs.
  exists bs. unfold encode_obj. rewrite Htp. cbn [bind]. rewrite Hn, Hfs. cbn [bind]. rewrite Hev. exact Hbs.
Qed.
End Compose.

(* what has to be shown per class *)
Definition glue_ok (c : oldcls) (spec : fspec) : Prop :=
  forall x, legal (oc_short c) spec x = true ->
  exists pl vs,
    oc_to_pack c x = Ok pl /\ map fst pl = oc_formats c /\ entry_vals (class_fmts c) pl = Ok vs /\
    (forall key_ok, msg_ok key_ok (msg_of_list (class_fmts c)) (wire_image (class_fmts c) vs) = true) /\
    oc_from_unpack c (unpack_args (class_fmts c) (wire_image (class_fmts c) vs)) = Ok (canon_obj spec x).

(* ================================================================== part 2: the classes *)

Lemma fields_ok_cons n k s a : fields_ok ((n, k) :: s) a = true ->
  exists v a', a = (n, v) :: a' /\ kind_ok k v = true /\ fields_ok s a' = true.
Proof.
  destruct a as [|[m v] a']; cbn [fields_ok]; [discriminate|]. intros H.
  apply andb_true_iff in H as [H H3]. apply andb_true_iff in H as [H1 H2]. apply String.eqb_eq in H1. subst m.
  exists v, a'. auto.
Qed.
Lemma fields_ok_nil a : fields_ok [] a = true -> a = [].
Proof. destruct a; [reflexivity|discriminate]. Qed.

Lemma uint_inv w v : kind_ok (KUInt w) v = true -> exists z, v = VInt z /\ 0 <= z < 256 ^ Z.of_nat w.
Proof.
  cbn [kind_ok]. destruct v; cbn [prim_ok]; try discriminate. unfold in_range. intros H. exists z. split; [reflexivity|lia].
Qed.
Lemma flag_inv v : flag_ok v = true -> v = VInt 0 \/ v = VInt 1 \/ v = VBool false \/ v = VBool true.
Proof.
  destruct v; cbn [flag_ok]; try discriminate.
  - intros H. apply orb_true_iff in H as [H|H]; apply Z.eqb_eq in H; subst; auto.
  - destruct b; auto.
Qed.
Lemma bitnorm_VInt z : bitnorm (VInt z) = VInt (if z =? 0 then 0 else 1).
Proof. unfold bitnorm. cbn [truthy]. destruct (z =? 0); reflexivity. Qed.
(* a flag only matters through what `bits` transports of it *)
Lemma flag_inv2 v : flag_ok v = true ->
  (bitnorm v = VInt 0 /\ flag_z v = 0) \/ (bitnorm v = VInt 1 /\ flag_z v = 1).
Proof. intros H. destruct (flag_inv v H) as [ -> | [ -> | [ -> | -> ] ] ]; vm_compute; auto. Qed.
Lemma conn_inv v : kind_ok KConn v = true -> v = VStr conn_unknown \/ v = VStr conn_public \/ v = VStr conn_symmetric.
Proof.
  cbn [kind_ok]. destruct v; try discriminate. intros H.
  apply orb_true_iff in H as [H|H]; [apply orb_true_iff in H as [H|H]|]; apply bytes_eqb_eq in H; subst; auto.
Qed.
Lemma true_inv v : kind_ok KTrue v = true -> v = VInt 1 \/ v = VBool true.
Proof.
  cbn [kind_ok]. destruct v; try discriminate.
  - destruct z as [|p|p]; try discriminate. destruct p; try discriminate. auto.
  - destruct b; try discriminate. auto.
Qed.

(* ---- lists of fixed-size items (SimilarityRequestPayload / SimilarityResponsePayload) ---- *)
Definition vbytes_list (bl : list bytes) : list val := map VBytes bl.
Definition flat (bl : list bytes) : bytes := concat bl.
Definition overlap_item (e : bytes * Z) : val := VTuple [VBytes (fst e); VInt (snd e)].
Definition overlap_list (ol : list (bytes * Z)) : list val := map overlap_item ol.
Definition overlap_enc (e : bytes * Z) : bytes := fst e ++ be_encode 4 (snd e).
Definition overlap_legal (e : bytes * Z) : Prop := length (fst e) = 20%nat /\ bytes_okb (fst e) = true /\ 0 <= snd e < 256 ^ 4.

Lemma chunks_inv n counted v : kind_ok (KChunks n counted) v = true ->
  exists bl, v = VList (vbytes_list bl) /\ Forall (fun b => length b = n /\ bytes_okb b = true) bl /\
             (counted = true -> Z.of_nat (length bl) < 65536).
Proof.
  cbn [kind_ok]. destruct v; try discriminate. intros H. apply andb_true_iff in H as [H Hc].
  assert (G : exists bl, l = vbytes_list bl /\ Forall (fun b => length b = n /\ bytes_okb b = true) bl).
  { clear Hc. induction l as [|v l IH]; [exists []; split; [reflexivity|constructor]|].
    cbn [forallb] in H. apply andb_true_iff in H as [H1 H2]. destruct (IH H2) as (bl & -> & F).
    destruct v; try discriminate H1. cbn [chunk_ok] in H1. apply andb_true_iff in H1 as [Hl Ho].
    apply Nat.eqb_eq in Hl. exists (b :: bl). split; [reflexivity|]. constructor; auto. }
  destruct G as (bl & -> & F). exists bl. split; [reflexivity|]. split; [exact F|].
  intros ->. cbn [negb orb] in Hc. unfold vbytes_list in Hc. rewrite map_length in Hc. lia.
Qed.

Lemma overlap_ok_inv v : overlap_ok v = true -> exists e, v = overlap_item e /\ overlap_legal e.
Proof.
  unfold overlap_ok.
  destruct v; cbn; try discriminate. destruct l as [|v1 l]; cbn; try discriminate.
  destruct v1; cbn; try discriminate. destruct l as [|v2 l]; cbn; try discriminate.
  destruct v2; cbn; try discriminate. destruct l; cbn; try discriminate.
  intros H. apply andb_true_iff in H as [H Hr]. apply andb_true_iff in H as [Hl Ho].
  apply Nat.eqb_eq in Hl. unfold in_range in Hr.
  exists (b, z). split; [reflexivity|]. unfold overlap_legal. cbn [fst snd]. repeat split; auto; lia.
Qed.

Lemma overlap_inv v : kind_ok KOverlap v = true -> exists ol, v = VList (overlap_list ol) /\ Forall overlap_legal ol.
Proof.
  cbn [kind_ok]. destruct v; try discriminate. intros H.
  induction l as [|v l IH]; [exists []; split; [reflexivity|constructor]|].
  cbn [forallb] in H. apply andb_true_iff in H as [H1 H2]. destruct (IH H2) as (ol & E & F).
  injection E as ->. destruct (overlap_ok_inv v H1) as (e & -> & L).
  exists (e :: ol). split; [reflexivity|]. constructor; assumption.
Qed.

Lemma intercalate_nil l : intercalate [] l = concat l.
Proof.
  induction l as [|x l IH]; [reflexivity|]. cbn [intercalate concat]. destruct l as [|y l].
  - cbn [concat]. rewrite app_nil_r. reflexivity.
  - rewrite IH. reflexivity.
Qed.

Lemma mapM_bytes_of bl : mapM bytes_of (vbytes_list bl) = Ok bl.
Proof. induction bl as [|b bl IH]; [reflexivity|]. cbn [vbytes_list map mapM bytes_of bind]. fold (vbytes_list bl). rewrite IH. reflexivity. Qed.

Lemma py_join_vbytes bl : py_join (VBytes []) (VList (vbytes_list bl)) = Ok (VBytes (flat bl)).
Proof. unfold py_join. cbn [py_iter bind]. rewrite mapM_bytes_of. cbn [bind]. rewrite intercalate_nil. reflexivity. Qed.

Lemma flat_length w bl : Forall (fun b => length b = w) bl -> length (flat bl) = (w * length bl)%nat.
Proof.
  induction 1 as [|b bl Hb _ IH]; [cbn; lia|]. unfold flat in *. cbn [concat length]. rewrite app_length, IH, Hb. lia.
Qed.

Lemma bytes_okb_app a b : bytes_okb (a ++ b) = bytes_okb a && bytes_okb b.
Proof. unfold bytes_okb. apply forallb_app. Qed.

Lemma flat_okb bl : Forall (fun b => bytes_okb b = true) bl -> bytes_okb (flat bl) = true.
Proof.
  induction 1 as [|b bl Hb _ IH]; [reflexivity|]. unfold flat in *. cbn [concat]. rewrite bytes_okb_app, Hb, IH. reflexivity.
Qed.

Lemma lslice_mid {A} (pre c post : list A) (k1 k2 : nat) i j :
  (k1 <= k2 <= length c)%nat -> i = Z.of_nat (length pre) + Z.of_nat k1 -> j = Z.of_nat (length pre) + Z.of_nat k2 ->
  lslice (pre ++ c ++ post) (Some i) (Some j) = firstn (k2 - k1) (skipn k1 c).
Proof.
  intros Hk -> ->. unfold lslice, clamp. rewrite !app_length.
  set (n := Z.of_nat (length pre + (length c + length post))).
  assert (Hn : n = Z.of_nat (length pre) + Z.of_nat (length c) + Z.of_nat (length post)) by (unfold n; lia).
  destruct (Z.of_nat (length pre) + Z.of_nat k1 <? 0) eqn:E1; [lia|]. rewrite E1.
  destruct (Z.of_nat (length pre) + Z.of_nat k2 <? 0) eqn:E2; [lia|]. rewrite E2.
  destruct (n <? Z.of_nat (length pre) + Z.of_nat k1) eqn:E3; [lia|].
  destruct (n <? Z.of_nat (length pre) + Z.of_nat k2) eqn:E4; [lia|].
  replace (Z.to_nat (Z.of_nat (length pre) + Z.of_nat k2 - (Z.of_nat (length pre) + Z.of_nat k1))) with (k2 - k1)%nat by lia.
  replace (Z.to_nat (Z.of_nat (length pre) + Z.of_nat k1)) with (length pre + k1)%nat by lia.
  rewrite skipn_app_plus. rewrite skipn_app. rewrite firstn_app.
  replace (k2 - k1 - length (skipn k1 c))%nat with 0%nat by (rewrite skipn_length; lia).
  cbn [firstn]. rewrite app_nil_r. reflexivity.
Qed.

(* a comprehension over range(0, len(B), w) that reads B in chunks of w *)
Lemma mapM_chunks (w : nat) (f : val -> res val) (g : bytes -> val) (B : bytes) :
  (forall pre c post, B = pre ++ c ++ post -> length c = w -> f (VInt (Z.of_nat (length pre))) = Ok (g c)) ->
  forall cs pre0, Forall (fun c => length c = w) cs -> B = pre0 ++ flat cs ->
  mapM f (map (fun k => VInt (Z.of_nat (length pre0) + Z.of_nat k * Z.of_nat w)) (seq 0 (length cs))) = Ok (map g cs).
Proof.
  intros Hf. induction cs as [|c cs IH]; intros pre0 F HB; [reflexivity|].
  inversion F as [|? ? Hc F']; subst. cbn [length seq map mapM].
  replace (Z.of_nat (length pre0) + Z.of_nat 0 * Z.of_nat (length c)) with (Z.of_nat (length pre0)) by lia.
  unfold flat in Hf. cbn [concat] in Hf. rewrite (Hf pre0 c (concat cs) eq_refl eq_refl). cbn [bind].
  rewrite <- seq_shift, map_map.
  specialize (IH (pre0 ++ c) F'). unfold flat in IH. rewrite <- app_assoc in IH. specialize (IH eq_refl).
  erewrite map_ext; [rewrite IH; reflexivity|].
  intros k. cbn beta. rewrite app_length. f_equal. lia.
Qed.

Lemma range_list_chunks (w n : nat) : (0 < w)%nat ->
  range_list 0 (Z.of_nat (w * n)) (Z.of_nat w) = map (fun k => VInt (Z.of_nat 0 + Z.of_nat k * Z.of_nat w)) (seq 0 n).
Proof.
  intros Hw. unfold range_list. replace (0 <? Z.of_nat w) with true by lia.
  replace ((Z.of_nat (w * n) - 0 + Z.of_nat w - 1) / Z.of_nat w) with (Z.of_nat n).
  2:{ apply Z.div_unique with (r := Z.of_nat w - 1); [left; lia|nia]. }
  rewrite Nat2Z.id. apply map_ext. intros k. f_equal.
Qed.

Lemma comp_chunks (w : nat) (f : val -> res val) (g : bytes -> val) cs : (0 < w)%nat ->
  Forall (fun c => length c = w) cs ->
  (forall pre c post, flat cs = pre ++ c ++ post -> length c = w -> f (VInt (Z.of_nat (length pre))) = Ok (g c)) ->
  bind (bind (py_len (VBytes (flat cs))) (fun t => py_range [VInt 0; t; VInt (Z.of_nat w)])) (fun t => py_listcomp f t)
  = Ok (VList (map g cs)).
Proof.
  intros Hw F Hf. cbn [py_len bind]. unfold blen. rewrite (flat_length w cs F).
  unfold py_range. cbn [all_ints as_int]. replace (Z.of_nat w =? 0) with false by lia.
  rewrite range_list_chunks by exact Hw. cbn [bind]. unfold py_listcomp. cbn [py_iter bind].
  pose proof (mapM_chunks w f g (flat cs) Hf cs [] F eq_refl) as E. cbn [length] in E. rewrite E. reflexivity.
Qed.

Lemma listcomp_map {A} (f : val -> res val) (h g : A -> val) l :
  Forall (fun a => f (h a) = Ok (g a)) l -> py_listcomp f (VList (map h l)) = Ok (VList (map g l)).
Proof.
  intros F. unfold py_listcomp. cbn [py_iter bind].
  assert (E : mapM f (map h l) = Ok (map g l)).
  { induction F as [|a l Ha _ IH]; [reflexivity|]. cbn [map mapM]. rewrite Ha, IH. reflexivity. }
  rewrite E. reflexivity.
Qed.

(* preference_list[i:i + 20] for i in range(0, len(preference_list), 20) *)
Lemma slice_comp_ok (comp : val -> res val) bl :
  (forall B, comp (VBytes B) =
     bind (bind (py_len (VBytes B)) (fun t => py_range [VInt 0; t; VInt 20]))
          (fun t => py_listcomp (fun i => bind (py_add i (VInt 20)) (fun j => py_slice (VBytes B) (Some i) (Some j))) t)) ->
  Forall (fun b => length b = 20%nat /\ bytes_okb b = true) bl ->
  comp (VBytes (flat bl)) = Ok (VList (vbytes_list bl)).
Proof.
  intros Hc F. rewrite Hc.
  apply (comp_chunks 20 _ VBytes bl); [lia| |].
  - eapply Forall_impl; [|exact F]. intros b [H _]. exact H.
  - intros pre c post HB Hl. cbn [py_add as_int bind]. rewrite HB. cbn [py_slice opt_int as_int bind].
    rewrite (lslice_mid pre c post 0 20) by lia. cbn [skipn Nat.sub]. rewrite <- Hl, firstn_all. reflexivity.
Qed.

Lemma SimReq_comp1 bl : Forall (fun b => length b = 20%nat /\ bytes_okb b = true) bl ->
  SimilarityRequestPayload__from_unpack_list__comp1 (VBytes (flat bl)) = Ok (VList (vbytes_list bl)).
Proof. apply slice_comp_ok. intros B. reflexivity. Qed.
Lemma SimResp_comp1 bl : Forall (fun b => length b = 20%nat /\ bytes_okb b = true) bl ->
  SimilarityResponsePayload__from_unpack_list__comp1 (VBytes (flat bl)) = Ok (VList (vbytes_list bl)).
Proof. apply slice_comp_ok. intros B. reflexivity. Qed.

Definition overlap_encs (ol : list (bytes * Z)) : list bytes := map overlap_enc ol.

Lemma spack_overlap e : overlap_legal e ->
  py_struct_pack [PBytes 20; PU 4] [VBytes (fst e); VInt (snd e)] = Ok (VBytes (overlap_enc e)).
Proof.
  intros (Hl & _ & Hr). unfold py_struct_pack. cbn [spack spack1 as_int bind]. unfold in_range.
  replace ((0 <=? snd e) && (snd e <? 256 ^ Z.of_nat 4)) with true by (change (Z.of_nat 4) with 4; lia).
  cbn [bind]. rewrite <- Hl at 1. rewrite firstn_all, Hl. cbn [Nat.sub repeat]. rewrite !app_nil_r. reflexivity.
Qed.

Lemma SimResp_pack_comp z pl ol : Forall overlap_legal ol ->
  SimilarityResponsePayload__to_pack_list__comp1
    ("SimilarityResponsePayload"%string,
     [("identifier"%string, z); ("preference_list"%string, pl); ("tb_overlap"%string, VList (overlap_list ol))])
  = Ok (VList (vbytes_list (overlap_encs ol))).
Proof.
  intros F. unfold SimilarityResponsePayload__to_pack_list__comp1.
  change (get_attr _ "tb_overlap"%string) with (Ok (VList (overlap_list ol))). cbn [bind].
  unfold overlap_list, vbytes_list, overlap_encs. rewrite map_map.
  apply (listcomp_map _ overlap_item (fun e => VBytes (overlap_enc e))).
  eapply Forall_impl; [|exact F]. intros e L. cbn [overlap_item py_iter bind]. apply spack_overlap. exact L.
Qed.

Definition overlap_dec (c : bytes) : val :=
  VTuple [VBytes (firstn 20 c); VInt (be_decode (firstn 4 (firstn (24 - 20) (skipn 20 c))))].

Lemma overlap_dec_enc e : overlap_legal e -> overlap_dec (overlap_enc e) = overlap_item e.
Proof.
  intros (Hl & _ & Hr). unfold overlap_dec, overlap_enc, overlap_item.
  rewrite firstn_len_app by (symmetry; exact Hl). rewrite skipn_len_app by (symmetry; exact Hl).
  change (24 - 20)%nat with 4%nat. rewrite !firstn_all2 by (rewrite ?firstn_length, be_encode_length; lia).
  rewrite be_decode_encode by (change (Z.of_nat 4) with 4; lia). reflexivity.
Qed.

Lemma overlap_enc_length e : overlap_legal e -> length (overlap_enc e) = 24%nat.
Proof. intros (Hl & _). unfold overlap_enc. rewrite app_length, be_encode_length, Hl. reflexivity. Qed.

Lemma SimResp_comp2 ol : Forall overlap_legal ol ->
  SimilarityResponsePayload__from_unpack_list__comp2 (VBytes (flat (overlap_encs ol))) = Ok (VList (overlap_list ol)).
Proof.
  intros F. unfold SimilarityResponsePayload__from_unpack_list__comp2, overlap_encs.
  replace (overlap_list ol) with (map overlap_dec (map overlap_enc ol)).
  2:{ unfold overlap_list. rewrite map_map. apply map_ext_Forall. eapply Forall_impl; [|exact F]. apply overlap_dec_enc. }
  apply (comp_chunks 24 _ overlap_dec); [lia| |].
  - apply Forall_map. eapply Forall_impl; [|exact F]. apply overlap_enc_length.
  - intros pre c post HB Hl. rewrite HB. cbn [py_add as_int bind py_slice opt_int].
    rewrite (lslice_mid pre c post 0 20 (Z.of_nat (length pre)) (Z.of_nat (length pre) + 20)) by lia.
    rewrite (lslice_mid pre c post 20 24 (Z.of_nat (length pre) + 20) (Z.of_nat (length pre) + 24)) by lia.
    change (20 - 0)%nat with 20%nat. change (24 - 20)%nat with 4%nat. change (skipn 0 c) with c.
    unfold py_struct_unpack.
    replace (length (firstn 4 (skipn 20 c)) =? struct_size [PU 4])%nat with true.
    2:{ symmetry. apply Nat.eqb_eq. rewrite firstn_length, skipn_length, Hl. reflexivity. }
    reflexivity.
Qed.


Lemma bytes_ok_okb l : bytes_ok l -> bytes_okb l = true.
Proof.
  induction 1 as [|b l Hb _ IH]; [reflexivity|]. cbn [bytes_okb forallb]. fold (bytes_okb l). rewrite IH.
  unfold is_byte. replace ((0 <=? b) && (b <? 256)) with true by lia. reflexivity.
Qed.

Lemma raw_ok_chunks n bl : Forall (fun b => length b = n /\ bytes_okb b = true) bl ->
  val_ok nokey FRaw (VBytes (flat bl)) = true.
Proof. intros F. cbn [val_ok]. apply flat_okb. eapply Forall_impl; [|exact F]. intros b [_ H]. exact H. Qed.

Lemma varlen_ok_chunks bl : Forall (fun b => length b = 20%nat /\ bytes_okb b = true) bl ->
  Z.of_nat (length bl) < 65536 -> val_ok nokey (FVarLen 2 20 false) (VBytes (flat bl)) = true.
Proof.
  intros F Hc. cbn [val_ok].
  assert (L : length (flat bl) = (20 * length bl)%nat).
  { apply flat_length. eapply Forall_impl; [|exact F]. intros b [H _]. exact H. }
  rewrite L. replace (20 * length bl)%nat with (length bl * 20)%nat by lia.
  rewrite Nat.mod_mul, Nat.div_mul by lia.
  rewrite (raw_ok_chunks 20 bl F : bytes_okb (flat bl) = true).
  change (256 ^ Z.of_nat 2) with 65536. cbn [Nat.ltb Nat.leb Nat.eqb andb]. lia.
Qed.

Lemma raw_ok_overlap ol : Forall overlap_legal ol -> val_ok nokey FRaw (VBytes (flat (overlap_encs ol))) = true.
Proof.
  intros F. cbn [val_ok]. apply flat_okb. unfold overlap_encs. apply Forall_map.
  eapply Forall_impl; [|exact F]. intros e (_ & Ho & _). unfold overlap_enc.
  rewrite bytes_okb_app, Ho. apply bytes_ok_okb. apply be_encode_bytes_ok.
Qed.

(* ---- symbolic evaluation of one class ---- *)
Ltac norm :=
  lazy -[Z.modulo Z.pow in_range bytes_okb addr_ok bitnorm flag_z py_join flat vbytes_list overlap_list overlap_encs
         SimilarityRequestPayload__from_unpack_list__comp1 SimilarityResponsePayload__from_unpack_list__comp1
         SimilarityResponsePayload__from_unpack_list__comp2 SimilarityResponsePayload__to_pack_list__comp1].
Ltac norm_in H :=
  lazy -[Z.modulo Z.pow in_range bytes_okb addr_ok bitnorm flag_z py_join flat vbytes_list overlap_list overlap_encs
         SimilarityRequestPayload__from_unpack_list__comp1 SimilarityResponsePayload__from_unpack_list__comp1
         SimilarityResponsePayload__from_unpack_list__comp2 SimilarityResponsePayload__to_pack_list__comp1] in H.

Ltac inv_fields H :=
  repeat (let v := fresh "v" in let a := fresh "a" in let Hk := fresh "Hk" in
          apply fields_ok_cons in H as (v & a & -> & Hk & H));
  apply fields_ok_nil in H; subst.
Ltac start_class :=
  let cn := fresh "cn" in let attrs := fresh "attrs" in let H := fresh "H" in let Hc := fresh "Hc" in
  intros [cn attrs] H; unfold legal in H; cbn [fst snd oc_short] in H;
  apply andb_true_iff in H as [Hc H]; apply String.eqb_eq in Hc; cbn in Hc; subst cn;
  inv_fields H.
Ltac inv_uints :=
  repeat match goal with
  | H : kind_ok (KUInt _) ?v = true |- _ =>
      let z := fresh "z" in let Hz := fresh "Hz" in let Hm := fresh "Hm" in
      destruct (uint_inv _ _ H) as (z & -> & Hz); unfold kind_ok in H;
      try (assert (Hm : z mod 65536 = z) by (apply Z.mod_small; exact Hz)); clear Hz
  end.
Ltac inv_lists :=
  repeat match goal with
  | H : kind_ok (KChunks _ false) ?v = true |- _ =>
      let bl := fresh "bl" in let F := fresh "F" in let Hr := fresh "Hraw" in
      destruct (chunks_inv _ _ _ H) as (bl & -> & F & _); clear H;
      pose proof (raw_ok_chunks _ _ F) as Hr
  | H : kind_ok (KChunks _ true) ?v = true |- _ =>
      let bl := fresh "bl" in let F := fresh "F" in let Hc := fresh "Hc" in let Hr := fresh "Hvar" in
      destruct (chunks_inv _ _ _ H) as (bl & -> & F & Hc); clear H;
      pose proof (varlen_ok_chunks _ F (Hc eq_refl)) as Hr; clear Hc
  | H : kind_ok KOverlap ?v = true |- _ =>
      let ol := fresh "ol" in let F := fresh "F" in let Hr := fresh "Hraw" in
      destruct (overlap_inv _ H) as (ol & -> & F); clear H;
      pose proof (raw_ok_overlap _ F) as Hr
  end.
Ltac norm_hyps :=
  repeat match goal with
         | H : kind_ok ?k _ = true |- _ =>
             lazymatch k with KFlag => fail | KBoolFlag => fail | KTrue => fail | KConn => fail | _ => norm_in H end
         | H : prim_ok _ _ = true |- _ => norm_in H
         | H : val_ok _ _ _ = true |- _ => norm_in H
         end.
Ltac inv_enums :=
  repeat match goal with
  | H : kind_ok KFlag ?v = true |- _ =>
      let B := fresh "Hbn" in let Z := fresh "Hfz" in destruct (flag_inv2 _ H) as [[B Z]|[B Z]]; clear H
  | H : kind_ok KBoolFlag ?v = true |- _ =>
      let B := fresh "Hbn" in let Z := fresh "Hfz" in destruct (flag_inv2 _ H) as [[B Z]|[B Z]]; clear H
  | H : kind_ok KTrue ?v = true |- _ => destruct (true_inv _ H) as [ -> | -> ]; clear H
  | H : kind_ok KConn ?v = true |- _ => destruct (conn_inv _ H) as [ -> | [ -> | -> ] ]; clear H
  end.
Ltac flag_rw :=
  rewrite ?bitnorm_VInt;
  repeat match goal with H : bitnorm ?v = _ |- context [bitnorm ?v] => rewrite H end;
  repeat match goal with H : flag_z ?v = _ |- context [flag_z ?v] => rewrite H end.
Ltac list_rw :=
  rewrite ?py_join_vbytes;
  repeat match goal with
         | H : Forall _ ?l |- context [SimilarityRequestPayload__from_unpack_list__comp1 (VBytes (flat ?l))] =>
             rewrite (SimReq_comp1 l H)
         | H : Forall _ ?l |- context [SimilarityResponsePayload__from_unpack_list__comp1 (VBytes (flat ?l))] =>
             rewrite (SimResp_comp1 l H)
         | H : Forall _ ?l |- context [SimilarityResponsePayload__from_unpack_list__comp2 (VBytes (flat (overlap_encs ?l)))] =>
             rewrite (SimResp_comp2 l H)
         | H : Forall _ ?l |- context [SimilarityResponsePayload__to_pack_list__comp1 (_, [(_, ?z); (_, ?p); (_, VList (overlap_list ?l))])] =>
             rewrite (SimResp_pack_comp z p l H)
         end.
Ltac steps := repeat (progress (norm; flag_rw; list_rw)).
Ltac use_hyps := repeat match goal with H : ?t = true |- context [?t] => rewrite H end.
Ltac use_mods := repeat match goal with H : ?z mod 65536 = ?z |- context [?z mod 65536] => rewrite H end.
Ltac glue_by_cases :=
  start_class; inv_uints; inv_lists; norm_hyps; inv_enums;
  do 2 eexists;
  (split; [steps; reflexivity|]); (split; [reflexivity|]); (split; [steps; reflexivity|]);
  (split; [intros key_ok; steps; use_hyps; reflexivity|]);
  steps; use_mods; reflexivity.

Ltac spec_is H := vm_compute in H; injection H as <-.


Lemma glue_IntroductionRequestPayload spec :
  spec_of (oc_name IntroductionRequestPayload_class) oldstyle_specs = Some spec -> glue_ok IntroductionRequestPayload_class spec.
Proof. intros H. spec_is H. glue_by_cases. Qed.
Lemma glue_IntroductionResponsePayload spec :
  spec_of (oc_name IntroductionResponsePayload_class) oldstyle_specs = Some spec -> glue_ok IntroductionResponsePayload_class spec.
Proof. intros H. spec_is H. glue_by_cases. Qed.
Lemma glue_PunctureRequestPayload spec :
  spec_of (oc_name PunctureRequestPayload_class) oldstyle_specs = Some spec -> glue_ok PunctureRequestPayload_class spec.
Proof. intros H. spec_is H. glue_by_cases. Qed.
Lemma glue_PuncturePayload spec :
  spec_of (oc_name PuncturePayload_class) oldstyle_specs = Some spec -> glue_ok PuncturePayload_class spec.
Proof. intros H. spec_is H. glue_by_cases. Qed.
Lemma glue_BinMemberAuthenticationPayload spec :
  spec_of (oc_name BinMemberAuthenticationPayload_class) oldstyle_specs = Some spec -> glue_ok BinMemberAuthenticationPayload_class spec.
Proof. intros H. spec_is H. glue_by_cases. Qed.
Lemma glue_GlobalTimeDistributionPayload spec :
  spec_of (oc_name GlobalTimeDistributionPayload_class) oldstyle_specs = Some spec -> glue_ok GlobalTimeDistributionPayload_class spec.
Proof. intros H. spec_is H. glue_by_cases. Qed.
Lemma glue_SimilarityRequestPayload spec :
  spec_of (oc_name SimilarityRequestPayload_class) oldstyle_specs = Some spec -> glue_ok SimilarityRequestPayload_class spec.
Proof. intros H. spec_is H. glue_by_cases. Qed.
Lemma glue_SimilarityResponsePayload spec :
  spec_of (oc_name SimilarityResponsePayload_class) oldstyle_specs = Some spec -> glue_ok SimilarityResponsePayload_class spec.
Proof. intros H. spec_is H. glue_by_cases. Qed.
Lemma glue_PingPayload spec :
  spec_of (oc_name PingPayload_class) oldstyle_specs = Some spec -> glue_ok PingPayload_class spec.
Proof. intros H. spec_is H. glue_by_cases. Qed.
Lemma glue_PongPayload spec :
  spec_of (oc_name PongPayload_class) oldstyle_specs = Some spec -> glue_ok PongPayload_class spec.
Proof. intros H. spec_is H. glue_by_cases. Qed.
Lemma glue_DiscoveryIntroductionRequestPayload spec :
  spec_of (oc_name DiscoveryIntroductionRequestPayload_class) oldstyle_specs = Some spec -> glue_ok DiscoveryIntroductionRequestPayload_class spec.
Proof. intros H. spec_is H. glue_by_cases. Qed.
Lemma glue_RequestAttestationPayload spec :
  spec_of (oc_name RequestAttestationPayload_class) oldstyle_specs = Some spec -> glue_ok RequestAttestationPayload_class spec.
Proof. intros H. spec_is H. glue_by_cases. Qed.
Lemma glue_VerifyAttestationRequestPayload spec :
  spec_of (oc_name VerifyAttestationRequestPayload_class) oldstyle_specs = Some spec -> glue_ok VerifyAttestationRequestPayload_class spec.
Proof. intros H. spec_is H. glue_by_cases. Qed.
Lemma glue_AttestationChunkPayload spec :
  spec_of (oc_name AttestationChunkPayload_class) oldstyle_specs = Some spec -> glue_ok AttestationChunkPayload_class spec.
Proof. intros H. spec_is H. glue_by_cases. Qed.
Lemma glue_ChallengePayload spec :
  spec_of (oc_name ChallengePayload_class) oldstyle_specs = Some spec -> glue_ok ChallengePayload_class spec.
Proof. intros H. spec_is H. glue_by_cases. Qed.
Lemma glue_ChallengeResponsePayload spec :
  spec_of (oc_name ChallengeResponsePayload_class) oldstyle_specs = Some spec -> glue_ok ChallengeResponsePayload_class spec.
Proof. intros H. spec_is H. glue_by_cases. Qed.

(* ================================================================== part 3: the table *)
Fixpoint assoc_fmts (n : string) (l : list (string * list fmt)) : option (list fmt) :=
  match l with
  | [] => None
  | (k, fs) :: tl => if String.eqb k n then Some fs else assoc_fmts n tl
  end.
Lemma assoc_fmts_In n l fs : assoc_fmts n l = Some fs -> In (n, fs) l.
Proof.
  induction l as [|[k f] l IH]; cbn [assoc_fmts]; [discriminate|]. destruct (String.eqb k n) eqn:E.
  - intros H. injection H as ->. apply String.eqb_eq in E. subst. left. reflexivity.
  - intros H. right. apply IH. exact H.
Qed.

Lemma table_facts c : In c oldstyle_table ->
  assoc_fmts (oc_name c) msgdefs = Some (class_fmts c) /\
  mapM (find_fmt REG) (oc_formats c) = Ok (class_fmts c) /\
  forallb simple_fmt (class_fmts c) = true /\
  exists spec, spec_of (oc_name c) oldstyle_specs = Some spec.
Proof.
  intros H. unfold oldstyle_table in H.
  repeat (destruct H as [<-|H]; [vm_compute; repeat split; eauto|]). destruct H.
Qed.

Lemma table_wf c : In c oldstyle_table -> wf_msg (msg_of_list (class_fmts c)) = true.
Proof.
  intros H. destruct (table_facts c H) as (Ha & _). eapply P02_shipped.shipped_wf_l. apply assoc_fmts_In. exact Ha.
Qed.

Lemma oldstyle_glue_l c spec :
  In c oldstyle_table -> spec_of (oc_name c) oldstyle_specs = Some spec -> glue_ok c spec.
Proof.
  intros H. unfold oldstyle_table in H.
  repeat (destruct H as [<-|H]; [first [exact (glue_IntroductionRequestPayload spec) | exact (glue_IntroductionResponsePayload spec) | exact (glue_PunctureRequestPayload spec) | exact (glue_PuncturePayload spec) | exact (glue_BinMemberAuthenticationPayload spec) | exact (glue_GlobalTimeDistributionPayload spec) | exact (glue_SimilarityRequestPayload spec) | exact (glue_SimilarityResponsePayload spec) | exact (glue_PingPayload spec) | exact (glue_PongPayload spec) | exact (glue_DiscoveryIntroductionRequestPayload spec) | exact (glue_RequestAttestationPayload spec) | exact (glue_VerifyAttestationRequestPayload spec) | exact (glue_AttestationChunkPayload spec) | exact (glue_ChallengePayload spec) | exact (glue_ChallengeResponsePayload spec)]|]). destruct H.
Qed.

Lemma oldstyle_class_roundtrip_l key_ok c spec x bs (pre suf : bytes) :
  In c oldstyle_table -> spec_of (oc_name c) oldstyle_specs = Some spec ->
  legal (oc_short c) spec x = true ->
  encode_obj REG key_ok (oc_to_pack c) x = Ok bs ->
  (msg_greedy (msg_of_list (class_fmts c)) = false \/ suf = []) ->
  decode_obj REG key_ok (oc_formats c) (oc_from_unpack c) (pre ++ bs ++ suf) (length pre)
    = Ok (canon_obj spec x, (length pre + length bs)%nat).
Proof.
  intros Hin Hs Hl Henc Hg. destruct (table_facts c Hin) as (_ & Hfs & _ & _).
  destruct (oldstyle_glue_l c spec Hin Hs x Hl) as (pl & vs & Htp & Hn & Hev & Hok & Hfu).
  exact (compose_roundtrip key_ok c (class_fmts c) x pl vs bs _ pre suf Hfs (table_wf c Hin) Htp Hn Hev (Hok key_ok) Hfu Henc Hg).
Qed.

Lemma oldstyle_encode_defined_l key_ok c spec x :
  In c oldstyle_table -> spec_of (oc_name c) oldstyle_specs = Some spec ->
  legal (oc_short c) spec x = true -> exists bs, encode_obj REG key_ok (oc_to_pack c) x = Ok bs.
Proof.
  intros Hin Hs Hl. destruct (table_facts c Hin) as (_ & Hfs & Hsim & _).
  destruct (oldstyle_glue_l c spec Hin Hs x Hl) as (pl & vs & Htp & Hn & Hev & Hok & _).
  exact (compose_defined key_ok c (class_fmts c) x pl vs Hfs (table_wf c Hin) Hsim Htp Hn Hev (Hok key_ok)).
Qed.

(* ================================================================== part 4: what comes back equals what went in *)
Lemma py_eq_list_refl l : Forall (fun v => py_eq v v = Ok true) l ->
  py_eq (VList l) (VList l) = Ok true /\ py_eq (VTuple l) (VTuple l) = Ok true.
Proof.
  induction 1 as [|v l Hv _ [IH1 IH2]]; [split; reflexivity|].
  split; cbn [py_eq] in *; rewrite Hv; cbn [bind]; assumption.
Qed.

Lemma addr_eqb_refl a : addr_eqb a a = true.
Proof. destruct a; cbn [addr_eqb]; rewrite bytes_eqb_refl, Z.eqb_refl; reflexivity. Qed.

Lemma kind_canon_pyeq k v : kind_ok k v = true -> py_eq (canon k v) v = Ok true.
Proof.
  intros H. destruct k; cbn [canon].
  - cbn [kind_ok val_ok] in H. destruct v as [| | | | |a| | | |]; try discriminate H. cbn [py_eq]. rewrite addr_eqb_refl. reflexivity.
  - destruct (flag_inv v H) as [ -> | [ -> | [ -> | -> ] ] ]; reflexivity.
  - destruct (flag_inv v H) as [ -> | [ -> | [ -> | -> ] ] ]; reflexivity.
  - destruct (true_inv v H) as [ -> | -> ]; reflexivity.
  - destruct (conn_inv v H) as [ -> | [ -> | -> ] ]; reflexivity.
  - destruct (uint_inv _ _ H) as (z & -> & _). cbn [py_eq]. rewrite Z.eqb_refl. reflexivity.
  - cbn [kind_ok] in H. destruct v; try discriminate H. cbn [py_eq]. rewrite bytes_eqb_refl. reflexivity.
  - cbn [kind_ok val_ok] in H. destruct v; try discriminate H. cbn [py_eq]. rewrite bytes_eqb_refl. reflexivity.
  - cbn [kind_ok val_ok] in H. destruct v; try discriminate H. cbn [py_eq]. rewrite bytes_eqb_refl. reflexivity.
  - destruct (chunks_inv _ _ _ H) as (bl & -> & _ & _). apply py_eq_list_refl. unfold vbytes_list.
    apply Forall_map. apply Forall_forall. intros b _. cbn [py_eq]. rewrite bytes_eqb_refl. reflexivity.
  - destruct (overlap_inv _ H) as (ol & -> & _). apply py_eq_list_refl. unfold overlap_list.
    apply Forall_map. apply Forall_forall. intros e _. unfold overlap_item. apply py_eq_list_refl.
    repeat constructor; cbn [py_eq]; rewrite ?bytes_eqb_refl, ?Z.eqb_refl; reflexivity.
Qed.

Lemma canon_pyeq_fields spec : forall attrs, fields_ok spec attrs = true ->
  attrs_pyeq (canon_fields spec attrs) attrs = Ok true.
Proof.
  induction spec as [|[n k] spec IH]; intros attrs H.
  - apply fields_ok_nil in H. subst. reflexivity.
  - apply fields_ok_cons in H as (v & a & -> & Hk & H). cbn [canon_fields attrs_pyeq].
    rewrite String.eqb_refl, (kind_canon_pyeq k v Hk). cbn [bind]. apply IH. exact H.
Qed.

Lemma canon_pyeq_l short spec x : legal short spec x = true -> obj_pyeq (canon_obj spec x) x = Ok true.
Proof.
  intros H. unfold legal in H. apply andb_true_iff in H as [_ H]. unfold obj_pyeq, canon_obj. cbn [fst snd].
  rewrite String.eqb_refl. apply canon_pyeq_fields. exact H.
Qed.

(* the canonical representatives: flags held as they are handed back *)
Lemma canon_legal_l short spec x : legal short spec x = true -> legal short spec (canon_obj spec x) = true.
Proof.
  destruct x as [cn attrs]. unfold legal, canon_obj. cbn [fst snd]. intros H. apply andb_true_iff in H as [Hc H].
  rewrite Hc. cbn [andb]. clear Hc. revert attrs H.
  induction spec as [|[n k] spec IH]; intros attrs H.
  - apply fields_ok_nil in H. subst. reflexivity.
  - apply fields_ok_cons in H as (v & a & -> & Hk & H). cbn [canon_fields fields_ok]. rewrite String.eqb_refl, (IH a H).
    rewrite andb_true_r. cbn [andb].
    destruct k; cbn [canon]; try exact Hk.
    + destruct (flag_inv v Hk) as [ -> | [ -> | [ -> | -> ] ] ]; reflexivity.
    + destruct (flag_inv v Hk) as [ -> | [ -> | [ -> | -> ] ] ]; reflexivity.
    + reflexivity.
Qed.
Lemma canon_idem_l short spec x : legal short spec x = true -> canon_obj spec (canon_obj spec x) = canon_obj spec x.
Proof.
  unfold legal, canon_obj. cbn [fst snd]. intros H. apply andb_true_iff in H as [_ H]. f_equal.
  destruct x as [cn attrs]. cbn [snd] in *. revert attrs H.
  induction spec as [|[n k] spec IH]; intros attrs H.
  - apply fields_ok_nil in H. subst. reflexivity.
  - apply fields_ok_cons in H as (v & a & -> & Hk & H). cbn [canon_fields]. rewrite (IH a H). do 2 f_equal.
    destruct k; cbn [canon]; try reflexivity.
    destruct (flag_inv v Hk) as [ -> | [ -> | [ -> | -> ] ] ]; reflexivity.
Qed.

Lemma spec_for_some c spec : spec_of (oc_name c) oldstyle_specs = Some spec -> spec_for c = spec.
Proof. intros H. unfold spec_for. rewrite H. reflexivity. Qed.

Lemma class_roundtrips_l c : In c oldstyle_table -> class_roundtrips c.
Proof.
  intros Hin key_ok x bs pre suf Hl Henc Hg. destruct (table_facts c Hin) as (_ & _ & _ & spec & Hs).
  rewrite (spec_for_some c spec Hs) in *. exact (oldstyle_class_roundtrip_l key_ok c spec x bs pre suf Hin Hs Hl Henc Hg).
Qed.

Lemma table_specified_l c : In c oldstyle_table ->
  (exists spec, spec_of (oc_name c) oldstyle_specs = Some spec) /\
  In (oc_name c, class_fmts c) msgdefs /\
  mapM (find_fmt REG) (oc_formats c) = Ok (class_fmts c).
Proof.
  intros H. destruct (table_facts c H) as (Ha & Hf & _ & Hs). split; [exact Hs|]. split; [|exact Hf].
  apply assoc_fmts_In. exact Ha.
Qed.
