(* C08, originator side: a hop is appended only by an answer that matches the outstanding retry cache and
   verifies; every other answer changes nothing (or schedules the removal of the circuit); established
   hops are never modified by any event; every hop is keyed with the peer selected for it. *)
From Coq Require Import ZArith List Bool Lia.
From IPV8V Require Import lib.PyErr model.M08_handshake proofs.P08_base.
Import ListNotations.
Open Scope Z_scope.

Section Origin.
Variable C : crypto.
Implicit Types (n : @node C) (c : @circuit C) (m : @msg C) (h : @hop C).

(* the answer fields of created / extended *)
Definition answer_of m : option (Z * Z * PK C * TAG C * CENC C) :=
  match m with
  | MCreated cid i y a e | MExtended cid i y a e => Some (cid, i, y, a, e)
  | _ => None
  end.

(* the relay branch of on_created is not taken (extended has no such branch) *)
Definition not_relay_case n m : Prop :=
  match m with MCreated _ i _ _ _ => aget i (n_creq n) = None | _ => True end.

(* the hop that an answer (Y, au) yields for circuit cid in state n *)
Definition accepts n (cid : Z) (Y : PK C) (au : TAG C) h : Prop :=
  exists c u x s1 s2,
    aget cid (n_circ n) = Some c /\ c_unv c = Some u /\ h_dh u = Some x
    /\ dh C x Y = Some s1 /\ dh C x (cpk C (p_key (h_peer u))) = Some s2
    /\ tag_eqb C au (mac C s1 Y) = true
    /\ h = mkHop (h_peer u) (Some (kdf C s1 s2)) (Some x).

Definition only_circ n n' (cid : Z) : Prop := forall k, k <> cid -> aget k (n_circ n') = aget k (n_circ n).

Lemma only_circ_refl n cid : only_circ n n cid.
Proof. intros k _. auto. Qed.

Lemma sic_only n cid cands tries o : only_circ n (st (send_initial_create n cid cands tries o)) cid.
Proof.
  unfold send_initial_create. destruct (aget cid (n_circ n)); [|apply only_circ_refl].
  destruct cands; [intros k _; reflexivity|]. intros k K. cbn. apply aget_aset_other. auto.
Qed.

Lemma sext_only n cid cands tries o : only_circ n (st (send_extend n cid cands tries o)) cid.
Proof.
  unfold send_extend. destruct (aget cid (n_circ n)); [|apply only_circ_refl].
  match goal with |- context [match ?s with Raise e => _ | Ok p => _ end] => destruct s as [[[[t a]|] f]|e] end;
    try (intros k _; reflexivity).
  intros k K. cbn. apply aget_aset_other. auto.
Qed.

Lemma ours_cases n cid Y au ce o :
  let r := ours n cid Y au ce o in
  (same_hops n (st r)) \/
  (exists c h, aget cid (n_circ n) = Some c /\ accepts n cid Y au h
     /\ same_hops (set_circ n (aset cid (with_hops_unv c (c_hops c ++ [h]) None) (n_circ n))) (st r)).
Proof.
  unfold ours.
  destruct (aget cid (n_circ n)) as [c|] eqn:G; [|left; apply same_hops_refl].
  destruct (c_unv c) as [u|] eqn:U; [|left; apply same_hops_refl].
  destruct (h_dh u) as [x|] eqn:X; [|left; apply same_hops_refl].
  destruct (dh C x Y) as [s1|] eqn:D1; [|left; apply same_hops_refl].
  destruct (dh C x (cpk C (p_key (h_peer u)))) as [s2|] eqn:D2; [|left; apply same_hops_refl].
  destruct (tag_eqb C au (mac C s1 Y)) eqn:T; cbn [negb]; [|left; apply same_hops_refl].
  right. exists c, (mkHop (h_peer u) (Some (kdf C s1 s2)) (Some x)).
  split; [reflexivity|]. split.
  { exists c, u, x, s1, s2. rewrite G. auto 10. }
  match goal with |- context [cstate ?c1] => destruct (cstate c1) end.
  - apply same_hops_refl.
  - match goal with |- context [aget cid (n_retry ?n1)] => destruct (aget cid (n_retry n1)) end;
      [|apply same_hops_refl].
    match goal with |- context [cdec C ?k ?e] => destruct (cdec C k e) as [l|e0] end; [|intro; reflexivity].
    destruct (split_cands l) as [rel ex].
    eapply same_hops_trans; [|apply sext_same]. intro; reflexivity.
  - match goal with |- context [aget cid (n_retry ?n1)] => destruct (aget cid (n_retry n1)) end;
      intro; reflexivity.
Qed.

Lemma ours_only n cid Y au ce o : only_circ n (st (ours n cid Y au ce o)) cid.
Proof.
  unfold ours.
  destruct (aget cid (n_circ n)) as [c|] eqn:G; [|intros k _; reflexivity].
  destruct (c_unv c) as [u|] eqn:U; [|intros k _; reflexivity].
  destruct (h_dh u) as [x|] eqn:X; [|intros k _; reflexivity].
  destruct (dh C x Y) as [s1|] eqn:D1; [|intros k _; reflexivity].
  destruct (dh C x (cpk C (p_key (h_peer u)))) as [s2|] eqn:D2; [|intros k _; reflexivity].
  destruct (tag_eqb C au (mac C s1 Y)) eqn:T; cbn [negb]; [|intros k _; reflexivity].
  assert (B : forall k, k <> cid ->
     aget k (n_circ (set_circ n (aset cid (with_hops_unv c (c_hops c ++ [mkHop (h_peer u) (Some (kdf C s1 s2)) (Some x)]) None) (n_circ n))))
     = aget k (n_circ n)).
  { intros k K. cbn. apply aget_aset_other. auto. }
  match goal with |- context [cstate ?c1] => destruct (cstate c1) end.
  - exact B.
  - match goal with |- context [aget cid (n_retry ?n1)] => destruct (aget cid (n_retry n1)) end; [|exact B].
    match goal with |- context [cdec C ?k ?e] => destruct (cdec C k e) as [l|e0] end; [|exact B].
    destruct (split_cands l) as [rel ex].
    intros k K. rewrite sext_only by auto. apply B. auto.
  - match goal with |- context [aget cid (n_retry ?n1)] => destruct (aget cid (n_retry n1)) end; exact B.
Qed.

(* ---- what an answer can do ------------------------------------------------------------------- *)

(* handle on an answer is: no-op, or [ours] under a matching retry cache *)
Lemma answer_dispatch n src m o cid i Y au ce :
  answer_of m = Some (cid, i, Y, au, ce) ->
  not_relay_case n m ->
  handle n src m o =
    match aget cid (n_retry n) with
    | Some r => if r_pid r =? i then ours n cid Y au ce o else done n []
    | None => done n []
    end.
Proof.
  destruct m; cbn; intros E NR; inversion E; subst; auto.
  unfold on_created. rewrite NR. auto.
Qed.

(* relay branch of on_created leaves the originator tables alone *)
Lemma relay_branch_circ n src cid i Y au ce o q :
  aget i (n_creq n) = Some q ->
  n_circ (st (on_created n src cid i Y au ce o)) = n_circ n
  /\ n_retry (st (on_created n src cid i Y au ce o)) = n_retry n.
Proof.
  intros Q. unfold on_created. rewrite Q.
  match goal with |- context [aget (q_from q) ?l] => destruct (aget (q_from q) l) end; auto.
  match goal with |- context [if ?b then _ else _] => destruct b end; auto.
Qed.

Definition hop_step n m (k : Z) n' : Prop :=
  hops_of n' k = hops_of n k \/
  exists hs i Y au ce r h,
    hops_of n k = Some hs /\ answer_of m = Some (k, i, Y, au, ce) /\ not_relay_case n m
    /\ aget k (n_retry n) = Some r /\ r_pid r = i
    /\ accepts n k Y au h /\ hops_of n' k = Some (hs ++ [h]).

Lemma ours_hop_step n m k k0 i Y au ce r o :
  aget k0 (n_retry n) = Some r -> r_pid r = i -> not_relay_case n m ->
  answer_of m = Some (k0, i, Y, au, ce) ->
  hop_step n m k (st (ours n k0 Y au ce o)).
Proof.
  intros R P NR A. unfold hop_step.
  destruct (Z.eq_dec k0 k) as [->|N].
  - destruct (ours_cases n k Y au ce o) as [S|(c & h & G & AC & S)]; [left; apply S|].
    right. exists (c_hops c), i, Y, au, ce, r, h.
    split; [unfold hops_of; rewrite G; reflexivity|]. split; [exact A|].
    split; [exact NR|]. split; [exact R|]. split; [exact P|]. split; [exact AC|].
    rewrite S. unfold hops_of. cbn [n_circ set_circ]. rewrite aget_aset_same. reflexivity.
  - left. unfold hops_of. rewrite ours_only by auto. reflexivity.
Qed.

Lemma handle_hops n src m o k : hop_step n m k (st (handle n src m o)).
Proof.
  destruct m as [k0 i npk X|k0 i Y au ce|k0 i npk X ad|k0 i Y au ce].
  - left. cbn. unfold on_create.
    repeat match goal with |- context [if ?b then _ else _] => destruct b end;
      repeat match goal with |- context [match dh C ?a ?b with _ => _ end] => destruct (dh C a b) end;
      reflexivity.
  - destruct (aget i (n_creq n)) as [q|] eqn:Q.
    + left. cbn. destruct (relay_branch_circ n src k0 i Y au ce o q Q) as [E _]. unfold hops_of. rewrite E. auto.
    + cbn [handle]. unfold on_created. rewrite Q.
      destruct (aget k0 (n_retry n)) as [r|] eqn:R; [|left; reflexivity].
      destruct (r_pid r =? i) eqn:P; [|left; reflexivity].
      apply Z.eqb_eq in P. eapply ours_hop_step; eauto.
  - left. cbn. unfold on_extend.
    destruct (negb (n_relay_flag n)); [reflexivity|].
    destruct (aget k0 (n_dreq n)); [|reflexivity].
    match goal with |- context [if ?b then _ else _] => destruct b end; [reflexivity|].
    match goal with |- context [match ?s with Raise e => _ | Ok p => _ end] => destruct s end;
      [|reflexivity].
    match goal with |- context [match ?s with Raise e => _ | Ok p => _ end] => destruct s as [[pv|]|] end;
      reflexivity.
  - cbn [handle]. unfold on_extended.
    destruct (aget k0 (n_retry n)) as [r|] eqn:R; [|left; reflexivity].
    destruct (r_pid r =? i) eqn:P; [|left; reflexivity].
    apply Z.eqb_eq in P. eapply ours_hop_step; eauto. exact I.
Qed.

Lemma accept_implies_l n src m o cid hs hs' :
  hops_of n cid = Some hs ->
  hops_of (st (handle n src m o)) cid = Some hs' ->
  hs' <> hs ->
  exists i Y au ce r h,
    answer_of m = Some (cid, i, Y, au, ce) /\ not_relay_case n m
    /\ aget cid (n_retry n) = Some r /\ r_pid r = i
    /\ accepts n cid Y au h /\ hs' = hs ++ [h].
Proof.
  intros H H' NE. destruct (handle_hops n src m o cid) as [E|(hs0 & i & Y & au & ce & r & h & A1 & A2 & A3 & A4 & A5 & A6 & A7)].
  - exfalso. congruence.
  - exists i, Y, au, ce, r, h. rewrite H in A1. inversion A1; subst hs0. rewrite H' in A7. inversion A7; subst.
    auto 10.
Qed.

(* ---- answers that do not fit ------------------------------------------------------------------- *)

(* wrong identifier, or nothing outstanding for that circuit id (other circuit, late answer): nothing at all
   happens - no table changes, nothing is sent, no exception *)
Lemma unmatched_noop_l n src m o cid i Y au ce :
  answer_of m = Some (cid, i, Y, au, ce) -> not_relay_case n m ->
  (forall r, aget cid (n_retry n) = Some r -> r_pid r <> i) ->
  handle n src m o = (n, [], None).
Proof.
  intros A NR H. rewrite (answer_dispatch n src m o cid i Y au ce A NR).
  destruct (aget cid (n_retry n)) as [r|] eqn:R; auto.
  destruct (r_pid r =? i) eqn:P; auto. apply Z.eqb_eq in P. exfalso. eapply H; eauto.
Qed.

(* matching identifier but the MAC does not verify: CryptoException, state unchanged *)
Lemma bad_auth_noop_l n src m o cid i Y au ce r c u x s1 s2 :
  answer_of m = Some (cid, i, Y, au, ce) -> not_relay_case n m ->
  aget cid (n_retry n) = Some r -> r_pid r = i ->
  aget cid (n_circ n) = Some c -> c_unv c = Some u -> h_dh u = Some x ->
  dh C x Y = Some s1 -> dh C x (cpk C (p_key (h_peer u))) = Some s2 ->
  tag_eqb C au (mac C s1 Y) = false ->
  handle n src m o = (n, [], Some CryptoError).
Proof.
  intros A NR R P G U X D1 D2 T. rewrite (answer_dispatch n src m o cid i Y au ce A NR), R.
  apply Z.eqb_eq in P. rewrite P. unfold ours. rewrite G, U, X, D1, D2, T. reflexivity.
Qed.

(* matching identifier but malformed key material (X25519 raises ValueError): ignored, nothing changes *)
Lemma bad_point_noop_l n src m o cid i Y au ce r c u x :
  answer_of m = Some (cid, i, Y, au, ce) -> not_relay_case n m ->
  aget cid (n_retry n) = Some r -> r_pid r = i ->
  aget cid (n_circ n) = Some c -> c_unv c = Some u -> h_dh u = Some x ->
  dh C x Y = None ->
  handle n src m o = (n, [], None).
Proof.
  intros A NR R P G U X D1. rewrite (answer_dispatch n src m o cid i Y au ce A NR), R.
  apply Z.eqb_eq in P. rewrite P. unfold ours. rewrite G, U, X, D1. reflexivity.
Qed.

(* every answer is either accepted - it matches the outstanding retry cache and verifies against the unverified
   hop - or it changes nothing at all: no table entry, no unverified hop, no retry cache, nothing sent (wrong
   identifier, no cache, failed authentication, malformed key material, no unverified hop) *)
Lemma unaccepted_answer_changes_nothing_l n src m o cid i Y au ce :
  answer_of m = Some (cid, i, Y, au, ce) -> not_relay_case n m ->
  (exists e, handle n src m o = (n, [], e))
  \/ (exists r h, aget cid (n_retry n) = Some r /\ r_pid r = i /\ accepts n cid Y au h).
Proof.
  intros A NR. rewrite (answer_dispatch n src m o cid i Y au ce A NR).
  destruct (aget cid (n_retry n)) as [r|] eqn:R; [|left; eexists; reflexivity].
  destruct (r_pid r =? i) eqn:P; [|left; eexists; reflexivity]. apply Z.eqb_eq in P.
  unfold ours.
  destruct (aget cid (n_circ n)) as [c|] eqn:G; [|left; eexists; reflexivity].
  destruct (c_unv c) as [u|] eqn:U; [|left; eexists; reflexivity].
  destruct (h_dh u) as [x|] eqn:X; [|left; eexists; reflexivity].
  destruct (dh C x Y) as [s1|] eqn:D1; [|left; eexists; reflexivity].
  destruct (dh C x (cpk C (p_key (h_peer u)))) as [s2|] eqn:D2; [|left; eexists; reflexivity].
  destruct (tag_eqb C au (mac C s1 Y)) eqn:T; cbn [negb]; [|left; eexists; reflexivity].
  right. exists r, (mkHop (h_peer u) (Some (kdf C s1 s2)) (Some x)). split; [reflexivity|]. split; [exact P|].
  exists c, u, x, s1, s2. auto 10.
Qed.

(* no unverified hop (the answer was already consumed): nothing happens *)
Lemma no_unverified_noop_l n src m o cid i Y au ce c :
  answer_of m = Some (cid, i, Y, au, ce) -> not_relay_case n m ->
  aget cid (n_circ n) = Some c -> c_unv c = None ->
  handle n src m o = (n, [], None).
Proof.
  intros A NR G U. rewrite (answer_dispatch n src m o cid i Y au ce A NR).
  destruct (aget cid (n_retry n)) as [r|]; auto. destruct (r_pid r =? i); auto.
  unfold ours. rewrite G, U. reflexivity.
Qed.

(* an answer for circuit cid never touches another circuit of the originator *)
Lemma answer_other_circuits_l n src m o cid i Y au ce :
  answer_of m = Some (cid, i, Y, au, ce) ->
  forall k, k <> cid -> aget k (n_circ (st (handle n src m o))) = aget k (n_circ n).
Proof.
  intros A k K. destruct m; cbn in A; inversion A; subst; cbn.
  - destruct (aget i (n_creq n)) as [q|] eqn:Q.
    + destruct (relay_branch_circ n src cid i Y au ce o q Q) as [E _]. rewrite E. auto.
    + unfold on_created. rewrite Q. destruct (aget cid (n_retry n)) as [r|]; auto.
      destruct (r_pid r =? i); auto. apply ours_only. auto.
  - unfold on_extended. destruct (aget cid (n_retry n)) as [r|]; auto.
    destruct (r_pid r =? i); auto. apply ours_only. auto.
Qed.

(* ---- every event, every history -------------------------------------------------------------- *)

Definition grows n n' : Prop :=
  forall k hs, hops_of n k = Some hs -> exists hs', hops_of n' k = Some hs' /\ prefix hs hs'.

Lemma grows_refl n : grows n n.
Proof. intros k hs H. exists hs. split; auto. apply prefix_refl. Qed.

Lemma same_grows n n' : same_hops n n' -> grows n n'.
Proof. intros S k hs H. exists hs. rewrite S. split; auto. apply prefix_refl. Qed.

Lemma handle_grows n src m o : grows n (st (handle n src m o)).
Proof.
  intros k hs H.
  destruct (handle_hops n src m o k) as [E|(hs0 & i & Y & au & ce & r & h & A1 & _ & _ & _ & _ & _ & A7)].
  - exists hs. rewrite E. split; auto. apply prefix_refl.
  - rewrite H in A1. inversion A1; subst hs0. exists (hs ++ [h]). split; auto. apply prefix_app.
Qed.


Definition purges (e : @event C) (k : Z) : Prop := match e with EvPurge k' => k' = k | _ => False end.

(* every way in which one event can change the hop list of circuit k *)
Definition step_cases n (e : @event C) (k : Z) n' : Prop :=
  hops_of n' k = hops_of n k
  \/ (exists src m o, e = EvMsg src m o /\ hop_step n m k n' /\ hops_of n' k <> hops_of n k)
  \/ (hops_of n k = None /\ hops_of n' k = Some [])
  \/ (purges e k /\ hops_of n' k = None).

Lemma run_remove_same n cid : same_hops n (run_remove n cid).
Proof.
  unfold run_remove.
  match goal with |- context [aget cid (n_circ ?n1)] => destruct (aget cid (n_circ n1)) as [c|] eqn:G end;
    [|intro; reflexivity].
  intro k. unfold hops_of. cbn [n_circ set_circ]. rewrite aget_aset.
  destruct (k =? cid) eqn:K; auto. apply Z.eqb_eq in K. subst. cbn in G. rewrite G. reflexivity.
Qed.

Lemma retry_timeout_same n cid o : same_hops n (st (retry_timeout n cid o)).
Proof.
  unfold retry_timeout. destruct (aget cid (n_retry n)) as [r|]; [|apply same_hops_refl].
  match goal with |- context [aget cid (n_circ ?n1)] => destruct (aget cid (n_circ n1)) as [c|] end;
    [|intro; reflexivity].
  destruct (c_closing c); [intro; reflexivity|].
  destruct (r_initial r).
  - destruct (r_peers r); [intro; reflexivity|]. destruct (r_tries r <? 1); [intro; reflexivity|].
    eapply same_hops_trans; [|apply sic_same]. intro; reflexivity.
  - destruct (r_keys r); [intro; reflexivity|]. destruct (r_tries r <? 1); [intro; reflexivity|].
    eapply same_hops_trans; [|apply sext_same]. intro; reflexivity.
Qed.

Lemma step_hops n e k : step_cases n e k (st (step n e)).
Proof.
  destruct e as [cid goal re firsts tries o|src m o|cid o|cid|cid|cid]; cbn [step].
  - destruct (ahas cid (n_circ n)) eqn:HAS; [left; reflexivity|].
    apply ahas_false in HAS.
    match goal with |- context [send_initial_create ?n0 cid firsts tries o] =>
      pose proof (sic_same n0 cid firsts tries o) as S end.
    destruct (Z.eq_dec k cid) as [->|N].
    + right. right. left. split; [unfold hops_of; rewrite HAS; reflexivity|].
      rewrite S. unfold hops_of. cbn [n_circ set_circ]. rewrite aget_aset_same. reflexivity.
    + left. rewrite S. unfold hops_of. cbn [n_circ set_circ]. rewrite aget_aset_other by auto. reflexivity.
  - pose proof (handle_hops n src m o k) as HS.
    destruct HS as [E|HS]; [left; exact E|].
    right. left. exists src, m, o. split; [reflexivity|]. split; [right; exact HS|].
    destruct HS as (hs & i & Y & au & ce & r & h & A1 & _ & _ & _ & _ & _ & A7).
    rewrite A1, A7. intro K. inversion K as [K']. apply (f_equal (@length _)) in K'.
    rewrite app_length in K'. cbn in K'. lia.
  - left. apply retry_timeout_same.
  - left. cbn. apply run_remove_same.
  - destruct (Z.eq_dec k cid) as [->|N].
    + right. right. right. split; [reflexivity|]. unfold hops_of. cbn. rewrite aget_adel_same. reflexivity.
    + left. unfold hops_of. cbn. rewrite aget_adel_other by auto. reflexivity.
  - left. reflexivity.
Qed.

Lemma step_grows n e k hs :
  ~ purges e k -> hops_of n k = Some hs ->
  exists hs', hops_of (st (step n e)) k = Some hs' /\ prefix hs hs'.
Proof.
  intros NP H. destruct (step_hops n e k) as [E|[(src & m & o & _ & [E|HS] & _)|[[E _]|[P _]]]].
  - exists hs. rewrite E. split; auto. apply prefix_refl.
  - exists hs. rewrite E. split; auto. apply prefix_refl.
  - destruct HS as (hs0 & i & Y & au & ce & r & h & A1 & _ & _ & _ & _ & _ & A7).
    rewrite H in A1. inversion A1; subst hs0. exists (hs ++ [h]). split; auto. apply prefix_app.
  - congruence.
  - contradiction.
Qed.

(* whatever happens (answers of any kind, in any order, any number of times, timeouts, retries, removals):
   as long as the circuit is not purged its established hops stay, in place and unmodified *)
Lemma run_grows_l evs : forall n k hs,
  (forall e, In e evs -> ~ purges e k) -> hops_of n k = Some hs ->
  exists hs', hops_of (run n evs) k = Some hs' /\ prefix hs hs'.
Proof.
  induction evs as [|e tl IH]; intros n k hs NP H; cbn [run].
  - exists hs. split; auto. apply prefix_refl.
  - destruct (step_grows n e k hs) as (h1 & H1 & P1); auto. { apply NP. left; auto. }
    destruct (IH (st (step n e)) k h1) as (h2 & H2 & P2); auto. { intros e' I. apply NP. right; auto. }
    exists h2. split; auto. eapply prefix_trans; eauto.
Qed.

Lemma run_hop_fixed_l evs n k hs i h :
  (forall e, In e evs -> ~ purges e k) -> hops_of n k = Some hs -> nth_error hs i = Some h ->
  exists hs', hops_of (run n evs) k = Some hs' /\ nth_error hs' i = Some h.
Proof.
  intros NP H N. destruct (run_grows_l evs n k hs NP H) as (hs' & H' & [t ->]).
  exists (hs ++ t). split; auto. rewrite nth_error_app1; auto. apply nth_error_Some. congruence.
Qed.

(* ---- every hop is keyed with the peer selected for it ---------------------------------------- *)
Definition hop_keyed h : Prop :=
  exists x Y s1 s2, h_dh h = Some x /\ dh C x Y = Some s1
    /\ dh C x (cpk C (p_key (h_peer h))) = Some s2 /\ h_keys h = Some (kdf C s1 s2).

Definition keyed n : Prop := forall k hs, hops_of n k = Some hs -> Forall hop_keyed hs.

Lemma accepts_keyed n cid Y au h : accepts n cid Y au h -> hop_keyed h.
Proof.
  intros (c & u & x & s1 & s2 & _ & _ & _ & D1 & D2 & _ & ->). exists x, Y, s1, s2. cbn. auto.
Qed.

Lemma step_keyed n e : keyed n -> keyed (st (step n e)).
Proof.
  intros K k hs H.
  destruct (step_hops n e k) as [E|[(src & m & o & _ & [E|HS] & _)|[[_ E]|[_ E]]]].
  - apply (K k). congruence.
  - apply (K k). congruence.
  - destruct HS as (hs0 & i & Y & au & ce & r & h & A1 & _ & _ & _ & _ & A6 & A7).
    rewrite H in A7. inversion A7; subst hs. apply Forall_app. split; [apply (K k); auto|].
    constructor; [|constructor]. eapply accepts_keyed; eauto.
  - rewrite H in E. inversion E. constructor.
  - congruence.
Qed.

Lemma run_keyed_l evs : forall n, keyed n -> keyed (run n evs).
Proof.
  induction evs as [|e tl IH]; intros n K; cbn [run]; auto. apply IH. apply step_keyed. auto.
Qed.

(* a node that owns no circuit yet is trivially keyed: the invariant covers every reachable state *)
Lemma keyed_init n : n_circ n = [] -> keyed n.
Proof. intros E k hs H. unfold hops_of in H. rewrite E in H. discriminate. Qed.

(* ---- replays ------------------------------------------------------------------------------------ *)
Section Ideal.
Hypothesis tag_eqb_true : forall a b, tag_eqb C a b = true -> a = b.
Hypothesis mac_inj : forall s p s' p', mac C s p = mac C s' p' -> s = s' /\ p = p'.
Hypothesis dh_inj : forall a a' P s, dh C a P = Some s -> dh C a' P = Some s -> a = a'.

(* an answer whose MAC was made for another ephemeral secret x_old (an earlier attempt, another circuit,
   an earlier hop of this circuit) is never accepted, whatever identifier it carries *)
Lemma stale_rejected_l n src m o cid i Y au ce c u x x_old s_old :
  answer_of m = Some (cid, i, Y, au, ce) ->
  aget cid (n_circ n) = Some c -> c_unv c = Some u -> h_dh u = Some x ->
  dh C x_old Y = Some s_old -> au = mac C s_old Y -> x_old <> x ->
  same_hops n (st (handle n src m o)).
Proof.
  intros A G U X DO AU NE k.
  destruct (handle_hops n src m o k) as [E|(hs0 & i' & Y' & au' & ce' & r & h & _ & A2 & _ & _ & _ & AC & _)]; auto.
  exfalso. rewrite A in A2. inversion A2; subst.
  destruct AC as (c' & u' & x' & s1 & s2 & G' & U' & X' & D1 & _ & T & _).
  rewrite G in G'. inversion G'; subst c'. rewrite U in U'. inversion U'; subst u'.
  rewrite X in X'. inversion X'; subst x'.
  apply tag_eqb_true in T. apply mac_inj in T. destruct T as [T _]. subst s1.
  apply NE. eapply dh_inj; eauto.
Qed.

(* the shape of the unverified hop after an accepting answer *)
Lemma ours_unv_after n cid Y au ce o c' :
  (exists h, accepts n cid Y au h) ->
  aget cid (n_circ (st (ours n cid Y au ce o))) = Some c' ->
  c_unv c' = None \/ exists t, c_unv c' = Some (mkHop (mkPeer t 0) None (Some (sk_of C (o_x o)))).
Proof.
  intros (h & c & u & x & s1 & s2 & G & U & X & D1 & D2 & T & _).
  unfold ours. rewrite G, U, X, D1, D2, T. cbn [negb].
  assert (B : forall c1 : @circuit C, c_unv c1 = None ->
            aget cid (aset cid c1 (n_circ n)) = Some c' -> c_unv c' = None).
  { intros c1 U1. rewrite aget_aset_same. intros K; inversion K; subst; auto. }
  match goal with |- context [cstate ?c1] => destruct (cstate c1) end.
  - intros K. left. refine (B _ _ K). reflexivity.
  - match goal with |- context [aget cid (n_retry ?n1)] => destruct (aget cid (n_retry n1)) as [r|] end;
      [|intros K; left; refine (B _ _ K); reflexivity].
    match goal with |- context [cdec C ?k ?e] => destruct (cdec C k e) as [l|e0] end;
      [|intros K; left; refine (B _ _ K); reflexivity].
    destruct (split_cands l) as [rel ex].
    match goal with |- context [send_extend ?n1 cid ?cs ?tr o] => set (N1 := n1); set (CS := cs) end.
    unfold send_extend.
    destruct (aget cid (n_circ N1)) as [c1|] eqn:G1.
    2:{ exfalso. subst N1. cbn [n_circ set_circ set_retry] in G1. rewrite aget_aset_same in G1. discriminate. }
    assert (U1 : c_unv c1 = None).
    { subst N1. cbn [n_circ set_circ set_retry] in G1. rewrite aget_aset_same in G1. inversion G1; subst. reflexivity. }
    match goal with |- context [match ?s with Raise e => _ | Ok p => _ end] => destruct s as [[[[t ad]|] f]|e] end.
    + cbn [st done fst n_circ set_circ set_retry]. rewrite aget_aset_same. intros K. inversion K; subst. right. exists t. reflexivity.
    + cbn [st done fst schedule_rm set_rm n_circ]. rewrite G1. intros K; inversion K; subst. left; auto.
    + cbn [st fail fst n_circ]. rewrite G1. intros K; inversion K; subst. left; auto.
  - match goal with |- context [aget cid (n_retry ?n1)] => destruct (aget cid (n_retry n1)) as [r|] end;
      intros K; left; refine (B _ _ K); reflexivity.
Qed.

(* a duplicate of an accepted answer is not accepted again (and changes no hop list) *)
Lemma duplicate_rejected_l n src src' m o o' cid hs hs' :
  hops_of n cid = Some hs ->
  hops_of (st (handle n src m o)) cid = Some hs' -> hs' <> hs ->
  (forall c u x, aget cid (n_circ n) = Some c -> c_unv c = Some u -> h_dh u = Some x -> sk_of C (o_x o) <> x) ->
  same_hops (st (handle n src m o)) (st (handle (st (handle n src m o)) src' m o')).
Proof.
  intros H H' NE FR.
  destruct (accept_implies_l n src m o cid hs hs' H H' NE) as (i & Y & au & ce & r & h & A & NR & R & P & AC & _).
  assert (E : handle n src m o = ours n cid Y au ce o).
  { rewrite (answer_dispatch n src m o cid i Y au ce A NR), R. apply Z.eqb_eq in P. rewrite P. reflexivity. }
  set (n1 := st (handle n src m o)) in *.
  destruct (aget cid (n_circ n1)) as [c1|] eqn:G1.
  2:{ unfold hops_of in H'. rewrite G1 in H'. discriminate. }
  pose proof AC as AC'. destruct AC' as (c & u & x & s1 & s2 & G & U & X & D1 & _ & T & _).
  assert (UA : c_unv c1 = None \/ exists t, c_unv c1 = Some (mkHop (mkPeer t 0) None (Some (sk_of C (o_x o))))).
  { eapply (ours_unv_after n cid Y au ce o c1); eauto. subst n1. rewrite E in G1. exact G1. }
  intro k.
  destruct (handle_hops n1 src' m o' k) as [E2|(hs0 & i' & Y' & au' & ce' & r' & h' & _ & A2 & _ & _ & _ & AC2 & _)]; auto.
  exfalso. rewrite A in A2. inversion A2; subst.
  destruct AC2 as (c2 & u2 & x2 & t1 & t2 & G2 & U2 & X2 & E1 & _ & T2 & _).
  rewrite G1 in G2. inversion G2; subst c2.
  destruct UA as [UA|[t UA]]; rewrite UA in U2; [discriminate|]. inversion U2; subst u2. cbn in X2.
  inversion X2; subst x2.
  apply tag_eqb_true in T. apply tag_eqb_true in T2. rewrite T in T2. apply mac_inj in T2. destruct T2 as [T2 _].
  subst t1. apply (FR c u x G U X). eapply dh_inj; eauto.
Qed.
End Ideal.

(* ---- who can hold an accepted key -------------------------------------------------------------- *)
Section Secrecy.
Variable agent : Type.
Variable holds : agent -> SK C -> Prop.        (* the agent possesses this private key *)
Variable can_sec : agent -> SEC C -> Prop.     (* the agent can compute this X25519 output *)
Variable can_key : agent -> KEYS C -> Prop.    (* the agent can compute these session keys *)
Hypothesis dh_hidden : forall A a P s, dh C a P = Some s -> can_sec A s ->
  holds A a \/ exists b, P = pub C b /\ holds A b.
Hypothesis kdf_hidden : forall A s1 s2, can_key A (kdf C s1 s2) -> can_sec A s1 /\ can_sec A s2.
Hypothesis pub_inj : forall a b, pub C a = pub C b -> a = b.

(* the keys of any hop in any reachable state: whoever can compute them holds the ephemeral secret the
   originator drew for that hop, or the private key belonging to the public key of the peer named in the
   hop list *)
Lemma hop_key_secret_l n k hs h ks b A :
  keyed n -> hops_of n k = Some hs -> In h hs -> h_keys h = Some ks ->
  cpk C (p_key (h_peer h)) = pub C b -> can_key A ks ->
  (exists x, h_dh h = Some x /\ holds A x) \/ holds A b.
Proof.
  intros K H I KS B CK.
  pose proof (K k hs H) as F. rewrite Forall_forall in F. destruct (F h I) as (x & Y & s1 & s2 & X & D1 & D2 & E).
  rewrite E in KS. inversion KS; subst ks.
  apply kdf_hidden in CK. destruct CK as [_ C2].
  destruct (dh_hidden A x _ s2 D2 C2) as [HX|(b' & PB & HB)].
  - left. exists x. auto.
  - right. rewrite B in PB. apply pub_inj in PB. subst. auto.
Qed.
End Secrecy.

End Origin.
