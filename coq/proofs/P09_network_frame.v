(* C09, path level - what one node event can do to the entries that name a given set of ids.

   `I` is the set of circuit ids of a path.  `frame touch s s'` says that s' holds no entry for an id of I
   that s did not hold, that such entries keep their routing fields, that their activity stamps are
   unchanged except for the keys in `touch` (which may be stamped with the current time), and that the
   bookkeeping which could later create such entries (request caches, deferred handler bodies) gained
   nothing that names I.  The lemmas go through the functions of M09_reclaim one by one. *)
From Coq Require Import ZArith List Bool Lia ZifyBool.
From IPV8V Require Import gen.G09_rules model.M09_reclaim spec.S09_reclaim proofs.P09_alist.
Import ListNotations.
Open Scope Z_scope.

Section Frame.
Variable st : settings.
Variable I : Z -> bool.

Definition harmless (d : deferred) : Prop :=
  match d with
  | DCreate _ x _ | DExtend _ x _ => I x = false
  | DRetry x _ _ => I x = false
  | _ => True
  end.

Record frame (touch : Z -> Prop) (s s' : node) : Prop := mkFrame {
  f_now : now s' = now s;
  f_circ : forall x c', I x = true -> aget x (circuits s') = Some c' ->
      exists c, aget x (circuits s) = Some c
        /\ c_first c' = c_first c /\ c_goal c' = c_goal c /\ c_hops c' = c_hops c
        /\ c_unver c' = c_unver c /\ creation (c_ro c') = creation (c_ro c)
        /\ (la (c_ro c') = la (c_ro c) \/ (touch x /\ la (c_ro c') = now s))
        /\ (c_closing c = true -> c_closing c' = true)
        /\ (c_closing c = false -> c_closing c' = true ->
              In (now s + s_remove_delay st, KCirc, x) (sleeping s'));
  f_rel : forall x r', I x = true -> aget x (relays s') = Some r' ->
      exists r, aget x (relays s) = Some r /\ r_next r' = r_next r /\ r_peer r' = r_peer r
                /\ (la (r_ro r') = la (r_ro r) \/ (touch x /\ la (r_ro r') = now s));
  f_rel_out : forall x r', I x = false -> aget x (relays s') = Some r' ->
      (exists r, aget x (relays s) = Some r /\ r_next r' = r_next r) \/ I (r_next r') = false;
  f_exit : forall x e', I x = true -> aget x (exits s') = Some e' ->
      exists e, aget x (exits s) = Some e /\ e_peer e' = e_peer e
                /\ (la (e_ro e') = la (e_ro e) \/ (touch x /\ la (e_ro e') = now s));
  f_createds : forall x due, I x = true -> aget x (createds s') = Some due -> aget x (createds s) = Some due;
  f_creates : forall k cc, aget k (creates s') = Some cc ->
      aget k (creates s) = Some cc \/ (I (cc_from cc) = false /\ I (cc_to cc) = false);
  f_retries : forall x rt, I x = true -> aget x (retries s') = Some rt -> exists rt0, aget x (retries s) = Some rt0;
  f_starts : forall d, In d (starts s') ->
      In d (starts s) \/ (harmless d /\ forall x, d = DOpen x -> I x = true -> touch x /\ aget x (exits s) <> None);
  f_sleep : forall due x, I x = true -> aget x (circuits s') <> None ->
      In (due, KCirc, x) (sleeping s) -> In (due, KCirc, x) (sleeping s')
}.

Lemma frame_refl (touch : Z -> Prop) s : frame touch s s.
Proof.
  constructor; auto; intros.
  - eexists; split; [eassumption|]. repeat split; auto. congruence.
  - eexists; split; [eassumption | auto].
  - left; eexists; split; [eassumption | auto].
  - eexists; split; [eassumption | auto].
  - eauto.
Qed.

Lemma frame_trans (touch : Z -> Prop) a b c : frame touch a b -> frame touch b c -> frame touch a c.
Proof.
  intros [n1 c1 r1 o1 e1 d1 k1 t1 s1 l1] [n2 c2 r2 o2 e2 d2 k2 t2 s2 l2]. constructor.
  - congruence.
  - intros x c' Hi H. destruct (c2 _ _ Hi H) as (cb & Hb & F2 & G2 & H2 & U2 & C2 & L2 & K2 & W2).
    destruct (c1 _ _ Hi Hb) as (ca & Ha & F1 & G1 & H1 & U1 & C1 & L1 & K1 & W1).
    exists ca. split; [exact Ha|]. split; [congruence|]. split; [congruence|]. split; [congruence|].
    split; [congruence|]. split; [congruence|]. split.
    { destruct L2 as [L2|[T2 L2]]; [|right; split; [exact T2 | congruence]].
      destruct L1 as [L1|[T1 L1]]; [left; congruence | right; split; [exact T1 | congruence]]. }
    split; [auto|]. intros Ka Kc. destruct (c_closing cb) eqn:Kb.
    + apply l2; [exact Hi | congruence | apply W1; auto].
    + rewrite <- n1. apply W2; auto.
  - intros x r' Hi H. destruct (r2 _ _ Hi H) as (rb & Hb & N2 & P2 & L2).
    destruct (r1 _ _ Hi Hb) as (ra & Ha & N1 & P1 & L1).
    exists ra. split; [exact Ha|]. split; [congruence|]. split; [congruence|].
    destruct L2 as [L2|[T2 L2]]; [|right; split; [exact T2 | congruence]].
    destruct L1 as [L1|[T1 L1]]; [left; congruence | right; split; [exact T1 | congruence]].
  - intros x r' Hi H. destruct (o2 _ _ Hi H) as [(rb & Hb & N2)|N2]; [|right; exact N2].
    destruct (o1 _ _ Hi Hb) as [(ra & Ha & N1)|N1]; [left; exists ra; split; [exact Ha | congruence] | right; congruence].
  - intros x e' Hi H. destruct (e2 _ _ Hi H) as (eb & Hb & P2 & L2). destruct (e1 _ _ Hi Hb) as (ea & Ha & P1 & L1).
    exists ea. split; [exact Ha|]. split; [congruence|].
    destruct L2 as [L2|[T2 L2]]; [|right; split; [exact T2 | congruence]].
    destruct L1 as [L1|[T1 L1]]; [left; congruence | right; split; [exact T1 | congruence]].
  - intros x due Hi H. apply d1; auto.
  - intros k cc H. destruct (k2 _ _ H) as [Hb|Hb]; [apply k1; exact Hb | right; exact Hb].
  - intros x rt Hi H. destruct (t2 _ _ Hi H) as (rb & Hb). eapply t1; eauto.
  - intros d H. destruct (s2 _ H) as [Hb|[Hb Hb2]]; [apply s1; exact Hb | right; split; [exact Hb|]].
    intros x Ed Hi. destruct (Hb2 x Ed Hi) as [T Ex]. split; [exact T|].
    destruct (aget x (exits b)) as [eb|] eqn:Eb; [|congruence].
    destruct (e1 _ _ Hi Eb) as (ea & Ha & _). congruence.
  - intros due x Hi Hc Hin. apply l2; auto. apply l1; auto.
    intro Hn. destruct (aget x (circuits c)) as [c'|] eqn:E; [|congruence].
    destruct (c2 _ _ Hi E) as (cb & Hb & _). congruence.
Qed.

Lemma frame_weaken (t1 t2 : Z -> Prop) s s' : (forall x, t1 x -> t2 x) -> frame t1 s s' -> frame t2 s s'.
Proof.
  intros W [n c r o e dd k t s0 l]. constructor; auto.
  - intros x c' Hi H. destruct (c _ _ Hi H) as (c0 & H0 & A & B & C & U & Cr & L & K). exists c0.
    split; [exact H0|]. split; [exact A|]. split; [exact B|]. split; [exact C|]. split; [exact U|].
    split; [exact Cr|]. split; [|exact K].
    destruct L as [L|[T L]]; [left; exact L | right; split; auto].
  - intros x r' Hi H. destruct (r _ _ Hi H) as (r0 & H0 & N & P & L). exists r0. repeat split; auto.
    destruct L as [L|[T L]]; [left; exact L | right; split; auto].
  - intros x e' Hi H. destruct (e _ _ Hi H) as (e0 & H0 & P & L). exists e0. split; auto. split; auto.
    destruct L as [L|[T L]]; [left; exact L | right; split; auto].
  - intros d H. destruct (s0 _ H) as [H0|[H0 H1]]; [left; exact H0 | right; split; auto].
    intros x Ed Hi. destruct (H1 x Ed Hi). split; auto.
Qed.

(* a step followed by a step whose touch set is stated relative to the intermediate state *)
Lemma frame_step (touch : Z -> Prop) s s1 s2 : frame touch s s1 -> frame touch s1 s2 -> frame touch s s2.
Proof. apply frame_trans. Qed.

(* ---------------------------------------------------------------- the setters, one field at a time *)
Ltac same_fields :=
  simpl; intros;
  first [ eexists; split; [eassumption | solve [repeat split; auto; congruence]]
        | eexists; split; [eassumption | solve [auto]]
        | left; eexists; split; [eassumption | solve [auto]]
        | solve [eauto] ].

Lemma frame_set_circuit (touch : Z -> Prop) s x c1 :
  (I x = true -> exists c, aget x (circuits s) = Some c
      /\ c_first c1 = c_first c /\ c_goal c1 = c_goal c /\ c_hops c1 = c_hops c
      /\ c_unver c1 = c_unver c /\ creation (c_ro c1) = creation (c_ro c)
      /\ (la (c_ro c1) = la (c_ro c) \/ (touch x /\ la (c_ro c1) = now s))
      /\ c_closing c1 = c_closing c) ->
  frame touch s (set_circuits (aset x c1 (circuits s)) s).
Proof.
  intro Hx. constructor; try same_fields.
  - simpl. intros y c' Hi H. rewrite aget_aset in H. destruct (y =? x) eqn:E.
    + apply Z.eqb_eq in E; subst y. inversion H; subst c'.
      destruct (Hx Hi) as (c & Hc & A & B & C & U & Cr & L & K). exists c. repeat split; auto; congruence.
    + eexists; split; [exact H|]. repeat split; auto. congruence.
Qed.

Lemma frame_del_circuit (touch : Z -> Prop) s x : frame touch s (set_circuits (adel x (circuits s)) s).
Proof.
  constructor; try same_fields.
  simpl. intros y c' Hi H. rewrite aget_adel in H. destruct (y =? x); [discriminate|].
  eexists; split; [exact H|]. repeat split; auto. congruence.
Qed.

Lemma frame_set_relay (touch : Z -> Prop) s x r1 :
  (I x = true -> exists r, aget x (relays s) = Some r /\ r_next r1 = r_next r /\ r_peer r1 = r_peer r
                           /\ (la (r_ro r1) = la (r_ro r) \/ (touch x /\ la (r_ro r1) = now s))) ->
  (I x = false -> (exists r, aget x (relays s) = Some r /\ r_next r1 = r_next r) \/ I (r_next r1) = false) ->
  frame touch s (set_relays (aset x r1 (relays s)) s).
Proof.
  intros Hin Hout. constructor; try same_fields.
  - simpl. intros y r' Hi H. rewrite aget_aset in H. destruct (y =? x) eqn:E.
    + apply Z.eqb_eq in E; subst y. inversion H; subst r'. auto.
    + eexists; split; [exact H | auto].
  - simpl. intros y r' Hi H. rewrite aget_aset in H. destruct (y =? x) eqn:E.
    + apply Z.eqb_eq in E; subst y. inversion H; subst r'. auto.
    + left; eexists; split; [exact H | auto].
Qed.

Lemma frame_del_relay (touch : Z -> Prop) s x : frame touch s (set_relays (adel x (relays s)) s).
Proof.
  constructor; try same_fields.
  - simpl. intros y r' Hi H. rewrite aget_adel in H. destruct (y =? x); [discriminate|].
    eexists; split; [exact H | auto].
  - simpl. intros y r' Hi H. rewrite aget_adel in H. destruct (y =? x); [discriminate|].
    left; eexists; split; [exact H | auto].
Qed.

Lemma frame_set_exit (touch : Z -> Prop) s x e1 :
  (I x = true -> exists e, aget x (exits s) = Some e /\ e_peer e1 = e_peer e
                           /\ (la (e_ro e1) = la (e_ro e) \/ (touch x /\ la (e_ro e1) = now s))) ->
  frame touch s (set_exits (aset x e1 (exits s)) s).
Proof.
  intro Hin. constructor; try same_fields.
  simpl. intros y e' Hi H. rewrite aget_aset in H. destruct (y =? x) eqn:E.
  - apply Z.eqb_eq in E; subst y. inversion H; subst e'. auto.
  - eexists; split; [exact H | auto].
Qed.

Lemma frame_del_exit (touch : Z -> Prop) s x : frame touch s (set_exits (adel x (exits s)) s).
Proof.
  constructor; try same_fields.
  simpl. intros y e' Hi H. rewrite aget_adel in H. destruct (y =? x); [discriminate|].
  eexists; split; [exact H | auto].
Qed.

Lemma frame_del_create (touch : Z -> Prop) s k : frame touch s (set_creates (adel k (creates s)) s).
Proof.
  constructor; try same_fields.
  simpl. intros k' cc H. rewrite aget_adel in H. destruct (k' =? k); [discriminate | left; exact H].
Qed.

Lemma frame_add_create (touch : Z -> Prop) s k cc :
  I (cc_from cc) = false -> I (cc_to cc) = false -> frame touch s (set_creates (aset k cc (creates s)) s).
Proof.
  intros H1 H2. constructor; try same_fields.
  simpl. intros k' cc' H. rewrite aget_aset in H. destruct (k' =? k); [inversion H; subst; right; auto | left; exact H].
Qed.

Lemma frame_set_createds (touch : Z -> Prop) s l :
  (forall x due, I x = true -> aget x l = Some due -> aget x (createds s) = Some due) ->
  frame touch s (set_createds l s).
Proof. intro H. constructor; try same_fields; try exact H. Qed.

Lemma frame_set_last_sweep (touch : Z -> Prop) s t : frame touch s (set_last_sweep t s).
Proof. constructor; same_fields. Qed.

Lemma frame_del_retry (touch : Z -> Prop) s x : frame touch s (set_retries (adel x (retries s)) s).
Proof.
  constructor; try same_fields.
  simpl. intros y rt Hi H. rewrite aget_adel in H. destruct (y =? x); [discriminate | eauto].
Qed.

Lemma frame_add_retry (touch : Z -> Prop) s x rt : I x = false -> frame touch s (set_retries (aset x rt (retries s)) s).
Proof.
  intro Hx. constructor; try same_fields.
  simpl. intros y rt' Hi H. rewrite aget_aset in H. destruct (y =? x) eqn:E; [|eauto].
  apply Z.eqb_eq in E; subst y. congruence.
Qed.

Lemma frame_defer (touch : Z -> Prop) s d :
  harmless d -> (forall x, d = DOpen x -> I x = true -> touch x /\ aget x (exits s) <> None) -> frame touch s (defer d s).
Proof.
  intros Hd Ho. constructor; try same_fields.
  simpl. intros d' H. apply in_app_or in H. destruct H as [H|[H|[]]]; [left; exact H | subst d'; right; auto].
Qed.

Lemma frame_sub_starts (touch : Z -> Prop) s ns :
  (forall d, In d ns -> In d (starts s)) -> frame touch s (set_starts ns s).
Proof. intro Hs. constructor; try same_fields; simpl; intros d H; left; auto. Qed.

Lemma frame_more_starts (touch : Z -> Prop) s ns :
  (forall d, In d ns -> harmless d /\ forall x, d = DOpen x -> I x = true -> touch x /\ aget x (exits s) <> None) ->
  frame touch s (set_starts (starts s ++ ns) s).
Proof.
  intro Hs. constructor; try same_fields. simpl. intros d H. apply in_app_or in H.
  destruct H as [H|H]; [left; exact H | right; auto].
Qed.

Lemma frame_add_sleep (touch : Z -> Prop) s w : frame touch s (set_sleeping (sleeping s ++ [w]) s).
Proof.
  constructor; try same_fields. simpl. intros due x Hi Hc Hin. apply in_or_app; left; exact Hin.
Qed.

End Frame.
