From Coq Require Import ZArith List Bool String.
From IPV8V Require Import model.M01_auth gen.G01_handlers spec.S01_expected.
Import ListNotations.
Local Open Scope Z_scope.

Definition entry := (string * Z * bool * bool)%type.
Definition e_overlay (e : entry) := fst (fst (fst e)).
Definition e_id (e : entry) := snd (fst (fst e)).
Definition e_signed (e : entry) := snd (fst e).
Definition e_peer (e : entry) := snd e.
Definition is_raw (e : entry) : bool :=
  existsb (fun r => String.eqb (fst r) (e_overlay e) && (snd r =? e_id e)) raw_handlers.

Fixpoint lookup (o : string) (t : list (string * list Z)) : list Z :=
  match t with [] => [] | (k, v) :: tl => if String.eqb k o then v else lookup o tl end.

(* a handler receives a Peer iff its decorator verified a signature *)
Definition consistent (e : entry) : bool := is_raw e || Bool.eqb (e_peer e) (e_signed e).
(* the decorated handlers are exactly the expected authenticated / unauthenticated sets *)
Definition as_expected (e : entry) : bool :=
  is_raw e ||
  (if e_signed e then existsb (Z.eqb (e_id e)) (lookup (e_overlay e) expected_signed)
   else existsb (Z.eqb (e_id e)) (lookup (e_overlay e) expected_unsigned)).
Definition expected_present : bool :=
  forallb (fun oe => forallb (fun i => existsb (fun e => String.eqb (e_overlay e) (fst oe) && (e_id e =? i) && e_signed e
                                                          && negb (is_raw e)) handlers) (snd oe)) expected_signed.

Lemma handlers_consistent_b : forallb consistent handlers = true.
Proof. vm_compute. reflexivity. Qed.
Lemma handlers_expected_b : forallb as_expected handlers = true /\ expected_present = true.
Proof. split; vm_compute; reflexivity. Qed.

Lemma handlers_consistent_l : forall e, In e handlers -> is_raw e = false -> e_peer e = e_signed e.
Proof.
  intros e Hin Hr. pose proof handlers_consistent_b as B. rewrite forallb_forall in B.
  specialize (B e Hin). unfold consistent in B. rewrite Hr in B. cbn in B. apply Bool.eqb_prop. exact B.
Qed.

Lemma handlers_expected_l : forall e, In e handlers -> is_raw e = false -> e_signed e = false ->
  In (e_id e) (lookup (e_overlay e) expected_unsigned).
Proof.
  intros e Hin Hr Hs. destruct handlers_expected_b as [B _]. rewrite forallb_forall in B.
  specialize (B e Hin). unfold as_expected in B. rewrite Hr, Hs in B. cbn in B.
  apply existsb_exists in B as (x & Hx & Ex). apply Z.eqb_eq in Ex. subst. exact Hx.
Qed.
