(* C14 - Bucket.add / Bucket.split keep a bucket valid: every node is owned by the bucket's prefix,
   identifiers are unique, the capacity is never exceeded. *)
From Coq Require Import ZArith List Bool Arith Lia.
From IPV8V Require Import lib.PyErr model.M14_routing proofs.P14_bits.
Import ListNotations.

(* ------------------------------------------------------------------ node lists *)
Lemma find_node_some i ns n : find_node i ns = Some n -> In n ns /\ nid n = i.
Proof.
  induction ns as [|m ns IH]; cbn; [discriminate|].
  destruct (bits_eqb (nid m) i) eqn:E.
  - intros H. injection H as <-. apply bits_eqb_eq in E. auto.
  - intros H. apply IH in H as [H1 H2]. auto.
Qed.

Lemma find_node_none i ns : find_node i ns = None -> ~ In i (map nid ns).
Proof.
  induction ns as [|m ns IH]; cbn; [tauto|].
  destruct (bits_eqb (nid m) i) eqn:E; [discriminate|].
  intros H [H1|H1]; [|exact (IH H H1)]. apply bits_eqb_neq in E. contradiction.
Qed.

Lemma has_id_true i ns : has_id i ns = true <-> In i (map nid ns).
Proof.
  unfold has_id. destruct (find_node i ns) as [n|] eqn:F.
  - apply find_node_some in F as [H1 H2]. split; [|reflexivity]. intros _. rewrite <- H2. apply in_map. exact H1.
  - apply find_node_none in F. split; [discriminate | contradiction].
Qed.

Lemma has_id_false i ns : has_id i ns = false <-> ~ In i (map nid ns).
Proof.
  rewrite <- has_id_true. destruct (has_id i ns).
  - split; [discriminate|]. intros H. exfalso. apply H. reflexivity.
  - split; [intros _ H; discriminate | reflexivity].
Qed.

Lemma remove_first_incl f ns n : In n (remove_first f ns) -> In n ns.
Proof.
  induction ns as [|m ns IH]; cbn; [tauto|]. destruct (f m); [auto|].
  intros [H|H]; [left; exact H | right; exact (IH H)].
Qed.

Lemma remove_first_length f ns : (length (remove_first f ns) <= length ns)%nat.
Proof. induction ns as [|m ns IH]; cbn; [lia|]. destruct (f m); cbn; lia. Qed.

Lemma remove_first_ids_incl f ns i : In i (map nid (remove_first f ns)) -> In i (map nid ns).
Proof.
  rewrite !in_map_iff. intros (n & E & H). exists n. split; [exact E|]. eapply remove_first_incl; eauto.
Qed.

Lemma remove_first_NoDup f ns : NoDup (map nid ns) -> NoDup (map nid (remove_first f ns)).
Proof.
  induction ns as [|m ns IH]; cbn; [auto|]. intros N. inversion N; subst.
  destruct (f m); [assumption|]. cbn. constructor; [|auto].
  intros H. apply remove_first_ids_incl in H. contradiction.
Qed.

Lemma remove_first_Forall (P : node -> Prop) f ns : Forall P ns -> Forall P (remove_first f ns).
Proof.
  intros F. apply Forall_forall. intros n H. apply remove_first_incl in H.
  rewrite Forall_forall in F. auto.
Qed.

Lemma set_addr_ids i a ns : map nid (set_addr i a ns) = map nid ns.
Proof.
  unfold set_addr. rewrite map_map. apply map_ext. intros m. destruct (bits_eqb (nid m) i); reflexivity.
Qed.

Lemma set_status_ids i r f ns : map nid (set_status i r f ns) = map nid ns.
Proof.
  unfold set_status. rewrite map_map. apply map_ext. intros m. destruct (bits_eqb (nid m) i); reflexivity.
Qed.

Lemma Forall_ids (P : bits -> Prop) ns : Forall (fun n => P (nid n)) ns <-> Forall P (map nid ns).
Proof. rewrite Forall_map. reflexivity. Qed.

Section BucketFacts.
Variable W : nat.
Variable cap : nat.

(* a valid bucket stored under key p *)
Definition bucket_ok (p : bits) (b : bucket) : Prop :=
  bprefix b = p /\ (length p <= W)%nat /\ (length (bnodes b) <= cap)%nat /\
  NoDup (map nid (bnodes b)) /\
  Forall (fun i => length i = W /\ starts_with p i = true) (map nid (bnodes b)).

Lemma bucket_ok_empty p : (length p <= W)%nat -> bucket_ok p (mkBucket p []).
Proof.
  intros L. unfold bucket_ok. cbn.
  split; [reflexivity|]. split; [exact L|]. split; [lia|]. split; constructor.
Qed.

Lemma bucket_ok_same_ids p b ns :
  bucket_ok p b -> map nid ns = map nid (bnodes b) -> bucket_ok p (mkBucket (bprefix b) ns).
Proof.
  intros (P & L & C & N & F) E. unfold bucket_ok. cbn [bprefix bnodes]. rewrite E.
  split; [exact P|]. split; [exact L|]. split; [|auto].
  rewrite <- (map_length nid), E, map_length. exact C.
Qed.

(* Bucket.add keeps the bucket valid, whatever it answers *)
Lemma badd_ok p b n :
  bucket_ok p b -> length (nid n) = W -> bucket_ok p (fst (badd cap b n)).
Proof.
  intros OK Ln. pose proof OK as (P & L & C & N & F). unfold badd.
  destruct (owns b (nid n)) eqn:O; cbn [negb]; [|exact OK].
  destruct (has_id (nid n) (bnodes b)) eqn:Hid; cbn [fst].
  - apply bucket_ok_same_ids; [exact OK | apply set_addr_ids].
  - set (ns := if (cap <=? length (bnodes b))%nat
               then remove_first (slow n) (remove_first is_bad (bnodes b)) else bnodes b).
    assert (Incl : forall i, In i (map nid ns) -> In i (map nid (bnodes b))).
    { intros i. unfold ns. destruct (cap <=? length (bnodes b))%nat; [|auto].
      intros H. apply remove_first_ids_incl in H. apply remove_first_ids_incl in H. exact H. }
    assert (Nns : NoDup (map nid ns)).
    { unfold ns. destruct (cap <=? length (bnodes b))%nat; [|auto]. apply remove_first_NoDup, remove_first_NoDup. exact N. }
    assert (Fns : Forall (fun i => length i = W /\ starts_with p i = true) (map nid ns)).
    { apply Forall_forall. intros i Hi. rewrite Forall_forall in F. apply F. apply Incl. exact Hi. }
    destruct (length ns <? cap)%nat eqn:Lt; cbn [fst]; unfold bucket_ok; cbn [bprefix bnodes].
    + apply Nat.ltb_lt in Lt.
      split; [exact P|]. split; [exact L|]. split; [rewrite app_length; cbn; lia|].
      rewrite map_app. cbn [map]. split.
      * apply NoDup_app_disj; [exact Nns | constructor; [cbn; tauto | constructor] |].
        intros i Hi [<-|[]]. apply has_id_false in Hid. apply Hid. apply Incl. exact Hi.
      * apply Forall_app. split; [exact Fns|]. constructor; [|constructor].
        split; [exact Ln|]. unfold owns in O. rewrite P in O. exact O.
    + apply Nat.ltb_ge in Lt.
      split; [exact P|]. split; [exact L|]. split; [|auto].
      unfold ns in *. destruct (cap <=? length (bnodes b))%nat eqn:Cb.
      * pose proof (remove_first_length (slow n) (remove_first is_bad (bnodes b))).
        pose proof (remove_first_length is_bad (bnodes b)). lia.
      * exact C.
Qed.

(* a refused node: it was owned, not yet present, and the bucket stays full *)
Lemma badd_refused p b n b' :
  bucket_ok p b -> badd cap b n = (b', false) -> owns b (nid n) = true ->
  (cap <= length (bnodes b'))%nat /\ bprefix b' = bprefix b.
Proof.
  intros OK. unfold badd. intros H O. rewrite O in H. cbn [negb] in H.
  destruct (has_id (nid n) (bnodes b)); [discriminate|].
  match type of H with (if ?c then _ else _) = _ => destruct c eqn:Lt end; [discriminate|].
  injection H as <-. cbn [bnodes bprefix]. apply Nat.ltb_ge in Lt. auto.
Qed.

(* at full depth a bucket can hold one identifier only, so Bucket.add cannot refuse *)
Lemma badd_full_depth p b n :
  bucket_ok p b -> length p = W -> length (nid n) = W -> owns b (nid n) = true -> (0 < cap)%nat ->
  snd (badd cap b n) = true.
Proof.
  intros (P & L & C & N & F) Lp Ln O Hc. unfold badd. rewrite O. cbn [negb].
  destruct (has_id (nid n) (bnodes b)) eqn:Hid; [reflexivity|].
  destruct (bnodes b) as [|m ns] eqn:Eb.
  - cbn [length]. replace (cap <=? 0)%nat with false by (symmetry; apply Nat.leb_gt; lia).
    cbn [length]. replace (0 <? cap)%nat with true by (symmetry; apply Nat.ltb_lt; lia). reflexivity.
  - exfalso. apply has_id_false in Hid. apply Hid. cbn [map]. left.
    cbn [map] in F. apply Forall_inv in F. destruct F as [Lm Sm].
    unfold owns in O. rewrite P in O.
    apply starts_with_same_length in Sm; [|lia]. apply starts_with_same_length in O; [|lia]. congruence.
Qed.

Lemma split_step_ok p bb n :
  bucket_ok (p ++ [false]) (fst bb) -> bucket_ok (p ++ [true]) (snd bb) -> length (nid n) = W ->
  bucket_ok (p ++ [false]) (fst (split_step cap bb n)) /\ bucket_ok (p ++ [true]) (snd (split_step cap bb n)).
Proof.
  destruct bb as [b0 b1]. cbn [fst snd]. intros O0 O1 Ln. unfold split_step.
  destruct (owns b0 (nid n)); cbn [fst snd].
  - split; [apply badd_ok; assumption | exact O1].
  - destruct (owns b1 (nid n)); cbn [fst snd]; split; auto. apply badd_ok; assumption.
Qed.

(* Bucket.split produces two valid buckets for the two one-bit-longer prefixes *)
Lemma bsplit_ok p b b0 b1 :
  bucket_ok p b -> (length p < W)%nat -> bsplit cap b = Some (b0, b1) ->
  bucket_ok (p ++ [false]) b0 /\ bucket_ok (p ++ [true]) b1.
Proof.
  intros (P & L & C & N & F) Lp. unfold bsplit.
  destruct (length (bnodes b) <? cap)%nat; [discriminate|]. intros H. injection H as H.
  rewrite P in H.
  assert (G : forall ns bb,
             Forall (fun n => length (nid n) = W) ns ->
             bucket_ok (p ++ [false]) (fst bb) -> bucket_ok (p ++ [true]) (snd bb) ->
             bucket_ok (p ++ [false]) (fst (fold_left (split_step cap) ns bb)) /\
             bucket_ok (p ++ [true]) (snd (fold_left (split_step cap) ns bb))).
  { induction ns as [|n ns IH]; intros bb Fn O0 O1; cbn [fold_left]; [auto|].
    pose proof (Forall_inv Fn) as Hn. pose proof (Forall_inv_tail Fn) as Fn'.
    destruct (split_step_ok p bb n O0 O1 Hn) as [Q0 Q1]. auto. }
  specialize (G (bnodes b) (mkBucket (p ++ [false]) [], mkBucket (p ++ [true]) [])).
  rewrite H in G. cbn [fst snd] in G. apply G.
  - rewrite Forall_map in F. eapply Forall_impl; [|exact F]. cbn. tauto.
  - apply bucket_ok_empty. rewrite app_length. cbn. lia.
  - apply bucket_ok_empty. rewrite app_length. cbn. lia.
Qed.

Lemma bsplit_some b : (cap <= length (bnodes b))%nat -> exists b0 b1, bsplit cap b = Some (b0, b1).
Proof.
  intros L. unfold bsplit. replace (length (bnodes b) <? cap)%nat with false by (symmetry; apply Nat.ltb_ge; lia).
  destruct (fold_left _ _ _) as [b0 b1]. eauto.
Qed.

(* Bucket.split loses no node and invents none: the two halves hold exactly the old identifiers *)
Lemma split_step_ids p bb n :
  bucket_ok (p ++ [false]) (fst bb) -> bucket_ok (p ++ [true]) (snd bb) ->
  forall i, In i (map nid (bnodes (fst (split_step cap bb n)) ++ bnodes (snd (split_step cap bb n)))) ->
            In i (map nid (bnodes (fst bb) ++ bnodes (snd bb))) \/ i = nid n.
Proof.
  destruct bb as [b0 b1]. cbn [fst snd]. intros O0 O1 i. unfold split_step.
  assert (A : forall b q, bucket_ok q b -> In i (map nid (bnodes (fst (badd cap b n)))) ->
                          In i (map nid (bnodes b)) \/ i = nid n).
  { intros b q (Pq & _) . unfold badd. destruct (owns b (nid n)); cbn [negb fst]; [|auto].
    destruct (has_id (nid n) (bnodes b)); cbn [fst bnodes].
    - rewrite set_addr_ids. auto.
    - match goal with |- context [if ?c then (mkBucket _ (?l ++ _), _) else _] => destruct c; set (ns := l) end;
        cbn [fst bnodes]; rewrite ?map_app, ?in_app_iff; cbn [map In]; intros H.
      + destruct H as [H|[H|[]]]; [left|right; auto]. unfold ns in H.
        destruct (cap <=? length (bnodes b))%nat; [|exact H].
        apply remove_first_ids_incl in H. apply remove_first_ids_incl in H. exact H.
      + left. unfold ns in H. destruct (cap <=? length (bnodes b))%nat; [|exact H].
        apply remove_first_ids_incl in H. apply remove_first_ids_incl in H. exact H. }
  rewrite !map_app, !in_app_iff.
  destruct (owns b0 (nid n)); cbn [fst snd].
  - intros [H|H]; [|auto]. apply (A _ _ O0) in H. tauto.
  - destruct (owns b1 (nid n)); cbn [fst snd]; [|auto].
    intros [H|H]; [auto|]. apply (A _ _ O1) in H. tauto.
Qed.

End BucketFacts.
