(* C18 (extension) - gen_refines_hand_model: the functions translated from the source on every run
   (gen/G18_proofs.v) compute exactly what the hand models M18_range / M18_bitpairs compute. *)
From Coq Require Import ZArith List Bool Lia ZifyBool QArith Btauto.
From IPV8V Require Import lib.PyErr lib.Bytes model.M18_hom model.M18_range model.M18_bitpairs model.M18_gen_rt model.M18_driver gen.G18_proofs
  proofs.P18_hom proofs.P18_range.
Import ListNotations.
Open Scope Z_scope.

Section Refine.
  Variable G : Type.
  Variable gmul : G -> G -> G.
  Variable gone : G.
  Variable ginv : G -> G.
  Variable geqb : G -> G -> bool.
  Variable PKg PKh : G.
  Variable Hsh : G -> G -> Z.
  Variable gmodulus : G -> Z.

  (* ---- boudot.py ---- *)
  Lemma el_create_refines x r1 r2 g1 h1 g2 h2 b bitspace t l w n1 n2 rest :
    g_el_create G gmul gone ginv Hsh gmodulus x r1 r2 g1 h1 g2 h2 b bitspace t l (w :: n1 :: n2 :: rest) =
    Ok (el_create G gmul gone ginv Hsh x r1 r2 g1 h1 g2 h2 (w, n1, n2), rest).
  Proof. reflexivity. Qed.

  Lemma el_create_short x r1 r2 g1 h1 g2 h2 b bitspace t l sec : (length sec < 3)%nat ->
    g_el_create G gmul gone ginv Hsh gmodulus x r1 r2 g1 h1 g2 h2 b bitspace t l sec = Raise OutOfFuel.
  Proof. destruct sec as [|a [|b' [|c ?]]]; cbn [length]; intros; try lia; reflexivity. Qed.

  Lemma el_check_refines e g1 h1 g2 h2 y1 y2 :
    g_el_check G gmul gone ginv Hsh e g1 h1 g2 h2 y1 y2 = Ok (el_check G gmul gone ginv Hsh e g1 h1 g2 h2 y1 y2).
  Proof. reflexivity. Qed.

  Lemma sqr_create_refines x r1 gg hh b bitspace r2 w n1 n2 rest :
    g_sqr_create G gmul gone ginv Hsh gmodulus x r1 gg hh b bitspace (r2 :: w :: n1 :: n2 :: rest) =
    Ok (sqr_create G gmul gone ginv Hsh x r1 gg hh (r2, w, n1, n2), rest).
  Proof. reflexivity. Qed.

  Lemma sqr_check_refines s gg hh y :
    g_sqr_check G gmul gone ginv Hsh s gg hh y = Ok (sqr_check G gmul gone ginv Hsh s gg hh y).
  Proof. reflexivity. Qed.

  (* ---- structs.py ---- *)
  Lemma generate_response_refines p s t : g_generate_response p s t = Ok (generate_response p s t).
  Proof. reflexivity. Qed.

  Lemma range_check_refines pd a b s t x y u v :
    g_range_check G gmul gone ginv geqb PKg PKh Hsh pd a b s t x y u v =
    Ok (range_check G gmul gone ginv geqb PKg PKh Hsh pd a b s t (x, y, u, v)).
  Proof.
    unfold g_range_check, range_check. rewrite ?el_check_refines, ?sqr_check_refines. cbn [bind]. cbv zeta.
    rewrite ?sqr_check_refines. cbn [bind]. f_equal.
    (* the verdict is the conjunction of the same tests, in whatever order the source states them *)
    all: repeat match goal with |- context [geqb ?x ?y] => generalize (geqb x y); intro end.
    all: repeat match goal with |- context [el_check ?a1 ?a2 ?a3 ?a4 ?a5 ?a6 ?a7 ?a8 ?a9 ?a10 ?a11 ?a12] =>
                             generalize (el_check a1 a2 a3 a4 a5 a6 a7 a8 a9 a10 a11 a12); intro end.
    all: repeat match goal with |- context [sqr_check ?a1 ?a2 ?a3 ?a4 ?a5 ?a6 ?a7 ?a8 ?a9] =>
                             generalize (sqr_check a1 a2 a3 a4 a5 a6 a7 a8 a9); intro end.
    all: generalize (x >? 0), (y >? 0); intros; btauto.
  Qed.

  (* ---- attestation.py ---- *)
  Lemma create_attest_pair_refines v a b bitspace rd rest :
    g_create_attest_pair G gmul gone ginv PKg PKh Hsh gmodulus v a b bitspace (queues_of rd) (sec_of rd ++ rest) =
    bind (create_attest_pair G gmul gone ginv PKg PKh Hsh v a b rd) (fun r => Ok (r, rest)).
  Proof.
    unfold g_create_attest_pair, create_attest_pair, queues_of, sec_of.
    destruct rd as [r ra raa w dm4 dm1 dr1 dr2 [[e1 e2] e3] [[[s1 s2] s3] s4] [[[q1 q2] q3] q4]].
    cbn [nth draw1 bind d_r d_ra d_raa d_w d_m4 d_m1 d_r1 d_r2 d_el d_sq1 d_sq2 sec3 sec4 app]. cbv zeta.
    unfold py_isqrt.
    repeat (match goal with
            | |- context [if ?c then Raise ?e else _] => destruct c eqn:?; cbn [bind draw_until]; [reflexivity|]
            end).
    rewrite el_create_refines. cbn [bind]. rewrite sqr_create_refines. cbn [bind]. rewrite sqr_create_refines. cbn [bind].
    reflexivity.
  Qed.

  (* whatever the queues and the stream contain (rejected draws included): a run of the translated builder is a
     run of the hand model on the draws it accepted *)
  Lemma draw1_inv q x : draw1 q = Ok x -> exists tl, q = x :: tl.
  Proof. destruct q; cbn; intros H; inversion H. eexists; reflexivity. Qed.

  Lemma draw_until_inv q k x : draw_until q k = Ok x ->
    exists d, x = d mod k /\ (k =? 0) = false /\ (d mod k =? 0) = false.
  Proof.
    induction q as [|d q IH]; cbn [draw_until]; [discriminate|].
    destruct (k =? 0) eqn:Ek; [discriminate|]. destruct (d mod k =? 0) eqn:Ed; [exact IH|].
    intros H. inversion H. exists d. auto.
  Qed.

  Lemma draw_until_exn q k e : draw_until q k = Raise e -> e = OutOfFuel \/ e = ZeroDivisionError.
  Proof.
    induction q as [|d q IH]; cbn [draw_until]; [intros H; inversion H; auto|].
    destruct (k =? 0); [intros H; inversion H; auto|]. destruct (d mod k =? 0); [exact IH|discriminate].
  Qed.

  Lemma sec_draw_inv sec x rest : sec_draw sec = Ok (x, rest) -> sec = x :: rest.
  Proof. destruct sec; cbn; intros H; inversion H. reflexivity. Qed.

  Lemma el_create_inv x r1 r2 g1 h1 g2 h2 b bitspace t l sec e rest :
    g_el_create G gmul gone ginv Hsh gmodulus x r1 r2 g1 h1 g2 h2 b bitspace t l sec = Ok (e, rest) ->
    exists w n1 n2, sec = w :: n1 :: n2 :: rest.
  Proof.
    destruct sec as [|w [|n1 [|n2 tl]]]; try (rewrite el_create_short by (cbn; lia); discriminate).
    rewrite el_create_refines. intros H; inversion H. eexists _, _, _; reflexivity.
  Qed.

  Lemma sqr_create_inv x r1 gg hh b bitspace sec e rest :
    g_sqr_create G gmul gone ginv Hsh gmodulus x r1 gg hh b bitspace sec = Ok (e, rest) ->
    exists r2 w n1 n2, sec = r2 :: w :: n1 :: n2 :: rest.
  Proof.
    destruct sec as [|r2 [|w [|n1 [|n2 tl]]]]; try (cbn; discriminate).
    rewrite sqr_create_refines. intros H; inversion H. eexists _, _, _, _; reflexivity.
  Qed.

  Lemma create_attest_pair_sound v a b bitspace rq sec r rest :
    g_create_attest_pair G gmul gone ginv PKg PKh Hsh gmodulus v a b bitspace rq sec = Ok (r, rest) ->
    exists rd, create_attest_pair G gmul gone ginv PKg PKh Hsh v a b rd = Ok r.
  Proof.
    unfold g_create_attest_pair. cbv zeta.
    destruct (draw1 (nth 0 rq [])) as [r0|] eqn:D0; [|discriminate]. cbn [bind].
    destruct (draw1 (nth 1 rq [])) as [ra|] eqn:D1; [|discriminate]. cbn [bind].
    destruct (draw1 (nth 2 rq [])) as [raa|] eqn:D2; [|discriminate]. cbn [bind].
    destruct (draw1 (nth 3 rq [])) as [w|] eqn:D3; [|discriminate]. cbn [bind].
    unfold py_isqrt. set (mst := w * w * (v - a + 1) * (b - v + 1)).
    destruct (mst <? 0) eqn:E0; [discriminate|]. cbn [bind].
    destruct (draw_until (nth 4 rq []) (Z.sqrt mst - 1)) as [m4|] eqn:U4; [|discriminate]. cbn [bind].
    apply draw_until_inv in U4 as (d4 & -> & K4 & N4).
    destruct (draw_until (nth 5 rq []) _) as [m1|] eqn:U5; [|discriminate]. cbn [bind].
    apply draw_until_inv in U5 as (d1 & -> & K5 & N5).
    destruct (draw_until (nth 6 rq []) _) as [r1|] eqn:U6; [|discriminate]. cbn [bind].
    apply draw_until_inv in U6 as (d6 & -> & K6 & N6).
    destruct (draw_until (nth 7 rq []) _) as [r2|] eqn:U7; [|discriminate]. cbn [bind].
    apply draw_until_inv in U7 as (d7 & -> & K7 & N7).
    destruct (g_el_create _ _ _ _ _ _ _ _ _ _ _ _ _ _ _ _ _ sec) as [[e sA]|] eqn:EL; [|discriminate]. cbn [bind].
    destruct (g_sqr_create _ _ _ _ _ _ _ _ _ _ _ _ sA) as [[q1 sB]|] eqn:S1; [|discriminate]. cbn [bind].
    destruct (g_sqr_create _ _ _ _ _ _ _ _ _ _ _ _ sB) as [[q2 sC]|] eqn:S2; [|discriminate]. cbn [bind].
    intros H. inversion H; subst r rest; clear H.
    destruct (el_create_inv _ _ _ _ _ _ _ _ _ _ _ _ _ _ EL) as (ew & en1 & en2 & ->).
    destruct (sqr_create_inv _ _ _ _ _ _ _ _ _ S1) as (a1 & a2 & a3 & a4 & ->).
    destruct (sqr_create_inv _ _ _ _ _ _ _ _ _ S2) as (b1 & b2 & b3 & b4 & ->).
    rewrite el_create_refines in EL. rewrite sqr_create_refines in S1, S2.
    inversion EL; subst e. inversion S1; subst q1. inversion S2; subst q2.
    exists (MkRR r0 ra raa w d4 d1 d6 d7 (ew, en1, en2) (a1, a2, a3, a4) (b1, b2, b3, b4)).
    unfold create_attest_pair. cbn [d_r d_ra d_raa d_w d_m4 d_m1 d_r1 d_r2 d_el d_sq1 d_sq2]. cbv zeta.
    fold mst. rewrite E0, K4, N4, K5, N5, K6, N6, N7. reflexivity.
  Qed.

  Lemma draw1_exn q e : draw1 q = Raise e -> e = OutOfFuel.
  Proof. destruct q; cbn; intros H; inversion H; reflexivity. Qed.

  Lemma draw_until_m1 q : draw_until q (-1) = Raise OutOfFuel.
  Proof.
    induction q as [|d q IH]; [reflexivity|]. cbn [draw_until]. replace (-1 =? 0) with false by reflexivity.
    pose proof (Z.mod_neg_bound d (-1) ltac:(lia)). destruct (d mod -1 =? 0) eqn:E; [exact IH|lia].
  Qed.

  Lemma el_create_exn x r1 r2 g1 h1 g2 h2 b bitspace t l sec e :
    g_el_create G gmul gone ginv Hsh gmodulus x r1 r2 g1 h1 g2 h2 b bitspace t l sec = Raise e -> e = OutOfFuel.
  Proof.
    destruct sec as [|w [|n1 [|n2 tl]]]; try (rewrite el_create_short by (cbn; lia); intros H; inversion H; reflexivity).
    rewrite el_create_refines. discriminate.
  Qed.

  Lemma sqr_create_exn x r1 gg hh b bitspace sec e :
    g_sqr_create G gmul gone ginv Hsh gmodulus x r1 gg hh b bitspace sec = Raise e -> e = OutOfFuel.
  Proof.
    destruct sec as [|r2 [|w [|n1 [|n2 tl]]]]; cbn; intros H; inversion H; reflexivity.
  Qed.

  (* for every content of the queues and of the stream *)
  Lemma gen_range_inside_not_refused_l v a b bitspace rq sec : a <= v <= b ->
    g_create_attest_pair G gmul gone ginv PKg PKh Hsh gmodulus v a b bitspace rq sec <> Raise ValueError.
  Proof.
    intros Hv. unfold g_create_attest_pair. cbv zeta.
    destruct (draw1 (nth 0 rq [])) as [r0|e0] eqn:D0; [|apply draw1_exn in D0; subst; discriminate]. cbn [bind].
    destruct (draw1 (nth 1 rq [])) as [ra|e1] eqn:D1; [|apply draw1_exn in D1; subst; discriminate]. cbn [bind].
    destruct (draw1 (nth 2 rq [])) as [raa|e2] eqn:D2; [|apply draw1_exn in D2; subst; discriminate]. cbn [bind].
    destruct (draw1 (nth 3 rq [])) as [w|e3] eqn:D3; [|apply draw1_exn in D3; subst; discriminate]. cbn [bind].
    unfold py_isqrt. set (mst := w * w * (v - a + 1) * (b - v + 1)).
    assert (Hmst : 0 <= mst).
    { unfold mst. assert (0 <= w * w) by nia. assert (0 <= (v - a + 1) * (b - v + 1)) by nia.
      rewrite <- Z.mul_assoc. apply Z.mul_nonneg_nonneg; assumption. }
    destruct (mst <? 0) eqn:E0; [lia|]. cbn [bind].
    destruct (draw_until (nth 4 rq []) _) as [m4|e4] eqn:U4;
      [|destruct (draw_until_exn _ _ _ U4); subst; discriminate]. cbn [bind].
    destruct (draw_until (nth 5 rq []) _) as [m1|e5] eqn:U5;
      [|destruct (draw_until_exn _ _ _ U5); subst; discriminate]. cbn [bind].
    destruct (draw_until (nth 6 rq []) _) as [r1|e6] eqn:U6;
      [|destruct (draw_until_exn _ _ _ U6); subst; discriminate]. cbn [bind].
    destruct (draw_until (nth 7 rq []) _) as [r2|e7] eqn:U7;
      [|destruct (draw_until_exn _ _ _ U7); subst; discriminate]. cbn [bind].
    destruct (g_el_create _ _ _ _ _ _ _ _ _ _ _ _ _ _ _ _ _ sec) as [[e sA]|ee] eqn:EL;
      [|apply el_create_exn in EL; subst; discriminate]. cbn [bind].
    destruct (g_sqr_create _ _ _ _ _ _ _ _ _ _ _ _ sA) as [[q1 sB]|ee] eqn:S1;
      [|apply sqr_create_exn in S1; subst; discriminate]. cbn [bind].
    destruct (g_sqr_create _ _ _ _ _ _ _ _ _ _ _ _ sB) as [[q2 sC]|ee] eqn:S2;
      [|apply sqr_create_exn in S2; subst; discriminate]. cbn [bind].
    discriminate.
  Qed.

  Lemma gen_range_outside_unbuildable_l v a b bitspace rq sec : a <= b -> v < a \/ b < v ->
    g_create_attest_pair G gmul gone ginv PKg PKh Hsh gmodulus v a b bitspace rq sec = Raise ValueError \/
    g_create_attest_pair G gmul gone ginv PKg PKh Hsh gmodulus v a b bitspace rq sec = Raise OutOfFuel.
  Proof.
    intros Hab Hout. unfold g_create_attest_pair. cbv zeta.
    destruct (draw1 (nth 0 rq [])) as [r0|e0] eqn:D0; [|apply draw1_exn in D0; subst; right; reflexivity]. cbn [bind].
    destruct (draw1 (nth 1 rq [])) as [ra|e1] eqn:D1; [|apply draw1_exn in D1; subst; right; reflexivity]. cbn [bind].
    destruct (draw1 (nth 2 rq [])) as [raa|e2] eqn:D2; [|apply draw1_exn in D2; subst; right; reflexivity]. cbn [bind].
    destruct (draw1 (nth 3 rq [])) as [w|e3] eqn:D3; [|apply draw1_exn in D3; subst; right; reflexivity]. cbn [bind].
    unfold py_isqrt. set (mst := w * w * (v - a + 1) * (b - v + 1)).
    assert (Hmst : mst <= 0).
    { unfold mst. assert (HW : 0 <= w * w) by nia. remember (w * w) as W eqn:HeqW. clear HeqW.
      destruct Hout.
      - assert (W * (v - a + 1) <= 0) by nia. nia.
      - assert (0 <= W * (v - a + 1)) by nia. nia. }
    destruct (mst <? 0) eqn:E0; [left; reflexivity|]. right. cbn [bind].
    assert (mst = 0) by lia. rewrite H. change (Z.sqrt 0 - 1) with (-1). rewrite draw_until_m1. reflexivity.
  Qed.

  (* completeness, over the translated builder, verifier and responder, for every content of the queues *)
  Lemma gen_range_complete_l : (forall x, geqb x x = true) ->
    (forall x y z, gmul x (gmul y z) = gmul (gmul x y) z) -> (forall x y, gmul x y = gmul y x) ->
    (forall x, gmul gone x = x) -> (forall x, gmul (ginv x) x = gone) ->
    forall v a b bitspace rq sec pub priv rest s t resp,
    g_create_attest_pair G gmul gone ginv PKg PKh Hsh gmodulus v a b bitspace rq sec = Ok ((pub, priv), rest) ->
    0 <= p_m2 priv -> 0 < s -> 0 < t ->
    g_generate_response priv s t = Ok resp ->
    let '(x, y, u, w) := resp in
    g_range_check G gmul gone ginv geqb PKg PKh Hsh pub a b s t x y u w = Ok true.
  Proof.
    intros R A C O I v a b bitspace rq sec pub priv rest s t resp Hc Hm2 Hs Ht Hr.
    destruct (create_attest_pair_sound _ _ _ _ _ _ _ _ Hc) as (rd & Hrd).
    rewrite generate_response_refines in Hr. inversion Hr; subst resp; clear Hr.
    pose proof (P18_range.range_complete_l G gmul gone ginv geqb R A C O I PKg PKh Hsh v a b rd pub priv s t Hrd Hm2 Hs Ht) as Hok.
    unfold generate_response in *. rewrite range_check_refines. f_equal. exact Hok.
  Qed.
End Refine.

(* ================================================================== community.py: on_challenge_response *)
Section RefineDriver.
  Variable A R : Type.
  Variable sha : bytes -> Z.
  Variable proc : A -> option bytes -> R -> res A.
  Variable hon : Z -> R -> res bool.
  Variable empty_agg : A.
  Variable alg_honesty : bool.

  (* destruct the scrutinee of some match that is not itself a match *)
  Ltac step :=
    match goal with
    | |- context [match ?x with _ => _ end] =>
        first [is_var x; destruct x | lazymatch x with | match _ with _ => _ end => fail | _ => destruct x eqn:? end]
    end.

  Lemma on_challenge_response_refines st hh resp d b q :
    g_on_challenge_response A R sha proc hon empty_agg alg_honesty st hh resp d b q =
    on_challenge_response sha proc hon empty_agg alg_honesty st hh resp d b q.
  Proof.
    unfold g_on_challenge_response, on_challenge_response, match_challenge, next_challenge, pend_pop, pend_has, list_remove,
      for_find_assign, por, pand, pnot, sha_of, the_bytes, bind, set_pending, set_active, set_hashed, set_chals, set_agg.
    destruct st as [pending active hashed chals agg]. cbn.
    repeat (step; cbn; try reflexivity; try discriminate; try congruence).
    all: repeat match goal with
                | H : Ok _ = Ok _ |- _ => inversion H; clear H; subst
                | H : Some _ = Some _ |- _ => inversion H; clear H; subst
                | H : (_, _) = (_, _) |- _ => inversion H; clear H; subst
                end.
    all: cbn in *.
    all: repeat match goal with
                | H : ?x = _, H2 : context [?x] |- _ => rewrite H in H2; cbn in H2
                end.
    all: try congruence; try discriminate; try reflexivity.
  Qed.
End RefineDriver.

(* ================================================================== boneh.py decode, bonehexact/attestation.py *)
Section RefineBoneh.
  Variable G : Type.
  Variable gmul : G -> G -> G.
  Variable gone : G.
  Variable ginv : G -> G.
  Variable geqb : G -> G -> bool.
  Variable PKg : G.
  Variable SKt1 : Z.
  Lemma decode_refines ms c : g_decode G gmul gone ginv geqb PKg SKt1 ms c = Ok (decode G gmul gone ginv geqb PKg SKt1 ms c).
  Proof. reflexivity. Qed.
  Lemma challenge_response_refines c :
    g_create_challenge_response G gmul gone ginv geqb PKg SKt1 c = Ok (challenge_response G gmul gone ginv geqb PKg SKt1 c).
  Proof. unfold g_create_challenge_response, challenge_response. rewrite decode_refines. cbn [bind]. destruct (decode _ _ _ _ _ _ _ _ _); reflexivity. Qed.
  Lemma process_challenge_response_refines m r : g_process_challenge_response m r = rm_incr m r.
  Proof. unfold g_process_challenge_response. destruct (rm_incr m r); reflexivity. Qed.
  Lemma create_empty_refines : g_create_empty_relativity_map = Ok rm_empty.
  Proof. reflexivity. Qed.
  Lemma qdiv_inject w v : (v =? 0) = false -> qdiv (inject_Z w) (inject_Z v) = Ok (inject_Z w / inject_Z v)%Q.
  Proof.
    intros Hv. unfold qdiv. destruct (Qeq_bool (inject_Z v) 0) eqn:E; [|reflexivity].
    apply Qeq_bool_eq in E. unfold Qeq, inject_Z in E; cbn in E. lia.
  Qed.
  Lemma match_refines e o : g_binary_relativity_match e o = Ok (relativity_match e o).
  Proof.
    unfold g_binary_relativity_match, relativity_match, for_items. cbv zeta.
    cbn [for_items_keys match_loop].
    change (rm_lookup o 0) with (Ok (rget o 0)). change (rm_lookup o 1) with (Ok (rget o 1)).
    change (rm_lookup o 2) with (Ok (rget o 2)). change (rm_lookup o 3) with (Ok (rget o 3)).
    cbn [bind por].
    repeat (match goal with
            | |- context [if (?a <? ?b) then _ else _] => destruct (a <? b) eqn:?; cbn [bind]; try reflexivity
            | |- context [if (?a =? 0) then _ else _] => destruct (a =? 0) eqn:?; cbn [bind orb]; try reflexivity
            | |- context [qdiv (inject_Z ?w) (inject_Z ?v)] => rewrite (qdiv_inject w v) by assumption; cbn [bind]
            end).
    all: try reflexivity.
  Qed.
  Lemma certainty_refines e o : g_binary_relativity_certainty e o = Ok (certainty e o).
  Proof. unfold g_binary_relativity_certainty, certainty. rewrite match_refines. reflexivity. Qed.
End RefineBoneh.

(* ================================================================== statements quoted by props/C18x.v *)
From IPV8V Require Import spec.S18_bgn proofs.P18_driver.

Section WrapGen.
  Variable G : Type.
  Variable gmul : G -> G -> G.
  Variable gone : G.
  Variable ginv : G -> G.
  Variable geqb : G -> G -> bool.
  Variable PKg PKh : G.
  Variable Hsh : G -> G -> Z.
  Variable gmodulus : G -> Z.

  Lemma gen_range_complete_w : abelian_group G gmul gone ginv -> (forall x, geqb x x = true) ->
    forall v a b bitspace rq sec pub priv rest s t resp,
    g_create_attest_pair G gmul gone ginv PKg PKh Hsh gmodulus v a b bitspace rq sec = Ok ((pub, priv), rest) ->
    0 <= p_m2 priv -> 0 < s -> 0 < t ->
    g_generate_response priv s t = Ok resp ->
    let '(x, y, u, w) := resp in
    g_range_check G gmul gone ginv geqb PKg PKh Hsh pub a b s t x y u w = Ok true.
  Proof. intros (A & C & O & I) Rf. apply (gen_range_complete_l G gmul gone ginv geqb PKg PKh Hsh gmodulus Rf A C O I). Qed.
End WrapGen.

Section WrapDriver.
  Variable A R : Type.
  Variable sha : bytes -> Z.
  Variable proc : A -> option bytes -> R -> res A.
  Variable hon : Z -> R -> res bool.
  Variable empty_agg : A.
  Variable alg_honesty : bool.

  Local Notation gstep := (g_on_challenge_response A R sha proc hon empty_agg alg_honesty).
  Local Notation rf := (on_challenge_response_refines A R sha proc hon empty_agg alg_honesty).

  Lemma gen_not_outstanding_ignored st hh resp d b q : pend_get (vs_pending st) hh = None ->
    gstep st hh resp d b q = Ok (st, []).
  Proof. rewrite rf. apply not_outstanding_ignored_l. Qed.

  Lemma gen_ended_is_silent st hh resp d b q : vs_active st = false ->
    exists st' : vstate A, gstep st hh resp d b q = Ok (st', []) /\ vs_active st' = false /\ vs_agg st' = vs_agg st /\
                vs_hashed st' = vs_hashed st /\ vs_chals st' = vs_chals st.
  Proof. rewrite rf. apply ended_is_silent_l. Qed.

  Lemma gen_answer_matched_by_hash st hh resp d b q hc st' out : vs_ok sha st -> vs_active st = true ->
    pend_get (vs_pending st) hh = Some hc -> hc < 0 -> In hh (vs_hashed st) ->
    gstep st hh resp d b q = Ok (st', out) ->
    exists c, In c (vs_chals st) /\ sha c = hh /\ proc (vs_agg st) (Some c) resp = Ok (vs_agg st') /\
      vs_hashed st' = remove_first hh (vs_hashed st) /\ vs_ok sha st' /\
      (vs_hashed st' = [] -> out = [VCallback (vs_agg st')] /\ vs_active st' = false).
  Proof. rewrite rf. apply answer_matched_by_hash_l. Qed.

  Lemma gen_failed_honesty_check_ends st hh resp d b q hc : vs_active st = true ->
    pend_get (vs_pending st) hh = Some hc -> 0 <= hc -> hon hc resp = Ok false ->
    exists st' : vstate A, gstep st hh resp d b q = Ok (st', [VCallback empty_agg]) /\ vs_active st' = false.
  Proof. rewrite rf. apply failed_honesty_check_ends_l. Qed.

  Lemma run_with_ext f g : (forall st hh resp d b q, f st hh resp d b q = g st hh resp d b q) ->
    forall answers st, @run_with A R f st answers = run_with g st answers.
  Proof.
    intros H. induction answers as [|[[hh resp] [[d b] q]] tl IH]; intros st; [reflexivity|].
    cbn [run_with]. rewrite H. destruct (g st hh resp d b q) as [r|e]; [|reflexivity]. cbn [bind]. rewrite IH. reflexivity.
  Qed.

  Lemma gen_run_all_answers chals0 : NoDup (map sha chals0) -> alg_honesty = false ->
    forall answers st, vs_ok sha st -> vs_active st = true -> all_outstanding st -> incl (vs_chals st) chals0 ->
    NoDup (map fst (vs_pending st)) ->
    Permutation.Permutation (map fst answers) (vs_hashed st) -> vs_hashed st <> [] ->
    forall afin, fold_answers sha proc chals0 (vs_agg st) answers = Ok afin ->
    exists st' : vstate A, run_with gstep st (map (fun a => (fst a, snd a, (false, 0, @nil bytes))) answers) = Ok (st', [VCallback afin]) /\
                vs_agg st' = afin /\ vs_active st' = false /\ vs_hashed st' = [] /\ vs_chals st' = [].
  Proof.
    intros Hnd Hh answers st. rewrite (run_with_ext _ _ rf). apply (run_all_answers A R sha proc hon empty_agg alg_honesty chals0 Hnd Hh).
  Qed.
End WrapDriver.

From IPV8V Require Import proofs.P18_bitpairs proofs.P18_props.
Section WrapBoneh.
  Variable G : Type.
  Variable gmul : G -> G -> G.
  Variable gone : G.
  Variable ginv : G -> G.
  Variable geqb : G -> G -> bool.
  Variable g h : G.
  Variable t1 t2 P : Z.

  Lemma gen_decode_encode_w : bgn_keypair G gmul gone ginv geqb g h t1 t2 P ->
    forall ms m r, Forall (fun x => 0 <= x < t2) ms -> In m ms ->
    g_decode G gmul gone ginv geqb g t1 ms (encode G gmul gone ginv g h m r) = Ok (Some m).
  Proof. intros K ms m r H1 H2. rewrite decode_refines. f_equal. exact (decode_encode_w G gmul gone ginv geqb g h t1 t2 P K ms m r H1 H2). Qed.

  Lemma gen_challenge_response_w : bgn_keypair G gmul gone ginv geqb g h t1 t2 P ->
    forall m r, g_create_challenge_response G gmul gone ginv geqb g t1 (encode G gmul gone ginv g h m r) =
      Ok (if m mod t2 =? 0 then 0 else if m mod t2 =? 1 then 1 else if m mod t2 =? 2 then 2 else 3).
  Proof. intros K m r. rewrite challenge_response_refines. f_equal. exact (challenge_response_w G gmul gone ginv geqb g h t1 t2 P K m r). Qed.
End WrapBoneh.

Lemma gen_true_value_score_w e : exists q, g_binary_relativity_certainty e e = Ok q /\ (q == 1 - Qpower (1 # 2) (rm_total e))%Q.
Proof. exists (certainty e e). split; [apply certainty_refines|apply true_value_score_l]. Qed.

Lemma gen_other_profile_zero_w e o : r3 e = 0 -> r3 o = 0 -> rm_total e = rm_total o -> e <> o ->
  exists q, g_binary_relativity_certainty e o = Ok q /\ (q == 0)%Q.
Proof. intros. exists (certainty e o). split; [apply certainty_refines|apply other_profile_zero_l; assumption]. Qed.

(* ================================================================== pengbaorange/algorithm.py: challenge domain vs. guard *)
Lemma draw_while_exit c q m x : draw_while c q m = Ok x -> c x = false.
Proof.
  induction q as [|d q IH]; cbn [draw_while]; [discriminate|].
  destruct (m =? 0); [discriminate|]. destruct (c (d mod m)) eqn:E; [exact IH|]. intros H; inversion H; subst. exact E.
Qed.

Section Challenge.
  Variable G : Type.
  Variable gmul : G -> G -> G.
  Variable gone : G.
  Variable ginv : G -> G.
  Variable geqb : G -> G -> bool.
  Variable PKg PKh : G.
  Variable Hsh : G -> G -> Z.
  Variable gmodulus : G -> Z.

  (* what the verifier can draw (create_challenges over _safe_rndint), for every content of the queues *)
  Definition drawable (s t : Z) : Prop := exists rq, g_pb_create_challenges G PKg gmodulus rq = Ok (s, t).

  (* every challenge the verifier can draw is answered honestly by the prover - never with the random garbage
     meant for challenges that are "too small" *)
  Lemma challenge_domain_is_answered_l s t priv rq' : drawable s t ->
    g_pb_create_challenge_response G PKg gmodulus priv s t rq' = Ok (generate_response priv s t).
  Proof.
    intros (rq & H). unfold g_pb_create_challenges in H. cbv zeta in H.
    destruct (g_safe_rndint _ (nth 0 rq [])) as [s0|] eqn:E0; [|discriminate]. cbn [bind] in H.
    destruct (g_safe_rndint _ (nth 1 rq [])) as [t0|] eqn:E1; [|discriminate]. cbn [bind] in H.
    inversion H; subst s0 t0; clear H.
    apply draw_while_exit in E0, E1.
    unfold g_pb_create_challenge_response.
    (* whatever way the guard is written: it cannot hold for values the loop of _safe_rndint lets through *)
    match goal with |- (if ?c then _ else _) = _ => destruct c eqn:Eg end; [exfalso; unfold LARGE_INTEGER in *; lia|].
    rewrite generate_response_refines. cbn [bind]. unfold generate_response. reflexivity.
  Qed.

  Lemma drawable_positive s t : drawable s t -> 0 < s /\ 0 < t.
  Proof.
    intros (rq & H). unfold g_pb_create_challenges in H. cbv zeta in H.
    destruct (g_safe_rndint _ (nth 0 rq [])) as [s0|] eqn:E0; [|discriminate]. cbn [bind] in H.
    destruct (g_safe_rndint _ (nth 1 rq [])) as [t0|] eqn:E1; [|discriminate]. cbn [bind] in H.
    inversion H; subst s0 t0; clear H.
    apply draw_while_exit in E0, E1. unfold LARGE_INTEGER in *. lia.
  Qed.

  (* the whole honest exchange over the translated code: builder, verifier's draw, prover's answer, verifier's check *)
  Lemma gen_honest_range_exchange_accepted_l : abelian_group G gmul gone ginv -> (forall x, geqb x x = true) ->
    forall v a b bitspace rq sec pub priv rest s t rq',
    g_create_attest_pair G gmul gone ginv PKg PKh Hsh gmodulus v a b bitspace rq sec = Ok ((pub, priv), rest) ->
    0 <= p_m2 priv -> drawable s t ->
    exists x y u w, g_pb_create_challenge_response G PKg gmodulus priv s t rq' = Ok (x, y, u, w) /\
                    g_range_check G gmul gone ginv geqb PKg PKh Hsh pub a b s t x y u w = Ok true.
  Proof.
    intros Hg Hr v a b bitspace rq sec pub priv rest s t rq' Hc Hm2 Hd.
    destruct (drawable_positive s t Hd) as [Hs Ht].
    rewrite (challenge_domain_is_answered_l s t priv rq' Hd).
    pose proof (gen_range_complete_w G gmul gone ginv geqb PKg PKh Hsh gmodulus Hg Hr v a b bitspace rq sec pub priv rest s t
                  (generate_response priv s t) Hc Hm2 Hs Ht (generate_response_refines priv s t)) as Hok.
    unfold generate_response in *. eexists _, _, _, _. split; [reflexivity|exact Hok].
  Qed.
End Challenge.

Lemma challenge_domain_is_answered_w G PKg gmodulus rq s t priv rq' :
  g_pb_create_challenges G PKg gmodulus rq = Ok (s, t) ->
  g_pb_create_challenge_response G PKg gmodulus priv s t rq' = Ok (generate_response priv s t).
Proof. intros H. apply challenge_domain_is_answered_l. exists rq. exact H. Qed.

Lemma gen_honest_range_exchange_accepted_w G gmul gone ginv geqb PKg PKh Hsh gmodulus :
  abelian_group G gmul gone ginv -> (forall x, geqb x x = true) ->
  forall v a b bitspace rq sec pub priv rest crq s t rq',
  g_create_attest_pair G gmul gone ginv PKg PKh Hsh gmodulus v a b bitspace rq sec = Ok ((pub, priv), rest) ->
  0 <= p_m2 priv -> g_pb_create_challenges G PKg gmodulus crq = Ok (s, t) ->
  exists x y u w, g_pb_create_challenge_response G PKg gmodulus priv s t rq' = Ok (x, y, u, w) /\
                  g_range_check G gmul gone ginv geqb PKg PKh Hsh pub a b s t x y u w = Ok true.
Proof.
  intros Hg Hr v a b bitspace rq sec pub priv rest crq s t rq' Hc Hm2 Hd.
  apply (gen_honest_range_exchange_accepted_l G gmul gone ginv geqb PKg PKh Hsh gmodulus Hg Hr v a b bitspace rq sec pub priv rest s t rq' Hc Hm2).
  exists crq. exact Hd.
Qed.
