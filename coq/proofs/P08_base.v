(* C08: dictionary lemmas and how each building block of the handshake touches the originator's circuits. *)
From Coq Require Import ZArith List Bool Lia.
From IPV8V Require Import lib.PyErr model.M08_handshake.
Import ListNotations.
Open Scope Z_scope.

Section AL.
Context {V : Type}.
Implicit Types (l : list (Z * V)).

Lemma aget_adel_same k l : aget k (adel k l) = None.
Proof.
  induction l as [|[k' v] l IH]; simpl; auto.
  destruct (k =? k') eqn:E; simpl; auto. rewrite E. auto.
Qed.

Lemma aget_adel_other k k' l : k <> k' -> aget k (adel k' l) = aget k l.
Proof.
  intros N. induction l as [|[k2 v] l IH]; simpl; auto.
  destruct (k' =? k2) eqn:E.
  - apply Z.eqb_eq in E. subst. destruct (k =? k2) eqn:E2; auto. apply Z.eqb_eq in E2. congruence.
  - simpl. rewrite IH. auto.
Qed.

Lemma aget_aset_same k v l : aget k (aset k v l) = Some v.
Proof. unfold aset. simpl. rewrite Z.eqb_refl. auto. Qed.

Lemma aget_aset_other k k' v l : k <> k' -> aget k (aset k' v l) = aget k l.
Proof.
  intros N. unfold aset. simpl. destruct (k =? k') eqn:E.
  - apply Z.eqb_eq in E. congruence.
  - apply aget_adel_other. auto.
Qed.

Lemma aget_aset k k' v l : aget k (aset k' v l) = if k =? k' then Some v else aget k l.
Proof.
  destruct (k =? k') eqn:E.
  - apply Z.eqb_eq in E. subst. apply aget_aset_same.
  - apply Z.eqb_neq in E. apply aget_aset_other. auto.
Qed.

Lemma aget_adel k k' l : aget k (adel k' l) = if k =? k' then None else aget k l.
Proof.
  destruct (k =? k') eqn:E.
  - apply Z.eqb_eq in E. subst. apply aget_adel_same.
  - apply Z.eqb_neq in E. apply aget_adel_other. auto.
Qed.

Lemma ahas_true k l : ahas k l = true <-> exists v, aget k l = Some v.
Proof. unfold ahas. destruct (aget k l); split; intros H; eauto; try discriminate. destruct H; discriminate. Qed.

Lemma ahas_false k l : ahas k l = false <-> aget k l = None.
Proof. unfold ahas. destruct (aget k l); split; intros H; auto; discriminate. Qed.
End AL.

Definition prefix {A} (a b : list A) : Prop := exists t, b = a ++ t.
Lemma prefix_refl {A} (a : list A) : prefix a a.
Proof. exists []. rewrite app_nil_r. auto. Qed.
Lemma prefix_trans {A} (a b c : list A) : prefix a b -> prefix b c -> prefix a c.
Proof. intros [t ->] [u ->]. exists (t ++ u). rewrite app_assoc. auto. Qed.
Lemma prefix_app {A} (a t : list A) : prefix a (a ++ t).
Proof. exists t; auto. Qed.

Section Base.
Variable C : crypto.
Implicit Types (n : @node C) (c : @circuit C).

(* the hop list of circuit k, if the originator has such a circuit *)
Definition hops_of n (k : Z) : option (list (@hop C)) :=
  match aget k (n_circ n) with Some c => Some (c_hops c) | None => None end.

(* everything about circuits except the unverified hop of one circuit is unchanged *)
Definition same_hops n n' : Prop := forall k, hops_of n' k = hops_of n k.

Lemma same_hops_refl n : same_hops n n.
Proof. intro; auto. Qed.
Lemma same_hops_trans n1 n2 n3 : same_hops n1 n2 -> same_hops n2 n3 -> same_hops n1 n3.
Proof. intros A B k. rewrite B. apply A. Qed.

Lemma hops_of_set_unv n cid c u rest :
  aget cid (n_circ n) = Some c ->
  n_circ rest = aset cid (with_hops_unv c (c_hops c) u) (n_circ n) ->
  same_hops n rest.
Proof.
  intros G E k. unfold hops_of. rewrite E, aget_aset.
  destruct (k =? cid) eqn:K; auto. apply Z.eqb_eq in K. subst. rewrite G. auto.
Qed.

Lemma schedule_rm_same n cid : same_hops n (schedule_rm n cid).
Proof. intro; auto. Qed.

Lemma sic_same n cid cands tries o :
  same_hops n (st (send_initial_create n cid cands tries o)).
Proof.
  unfold send_initial_create. destruct (aget cid (n_circ n)) as [c|] eqn:G; [|apply same_hops_refl].
  destruct cands as [|f tl]; [intro; auto|].
  eapply hops_of_set_unv with (cid := cid) (c := c); [exact G|]. reflexivity.
Qed.

Lemma sext_same n cid cands tries o :
  same_hops n (st (send_extend n cid cands tries o)).
Proof.
  unfold send_extend. destruct (aget cid (n_circ n)) as [c|] eqn:G; [|apply same_hops_refl].
  match goal with |- context [match ?s with Raise e => _ | Ok p => _ end] => destruct s as [[[[t a]|] f]|e] end;
    try (intro; reflexivity).
  eapply hops_of_set_unv with (cid := cid) (c := c); [exact G|]. reflexivity.
Qed.

(* the retry cache after sending: present for the circuit whenever a cell went out *)
Lemma sext_sends n cid cands tries o :
  forall a0, In a0 (acts (send_extend n cid cands tries o)) ->
  exists t x addr fa, a0 = Send fa (MExtend cid (o_pid o) t (pub C x) addr) /\ x = sk_of C (o_x o)
    /\ exists c', aget cid (n_circ (st (send_extend n cid cands tries o))) = Some c'
       /\ c_unv c' = Some (mkHop (mkPeer t 0) None (Some x)).
Proof.
  unfold send_extend. destruct (aget cid (n_circ n)) as [c|] eqn:G; [|intros a0 H; cbn in H; contradiction].
  match goal with |- context [match ?s with Raise e => _ | Ok p => _ end] => destruct s as [[[[t ad]|] f]|e] end;
    try (intros a0 H; cbn in H; contradiction).
  intros a0 [<-|[]]. do 4 eexists. split; [reflexivity|]. split; [reflexivity|].
  eexists. split; [cbn; apply aget_aset_same|]. reflexivity.
Qed.

Lemma st_swallow (r : out C) : st (swallow r) = st r.
Proof. reflexivity. Qed.
Lemma acts_swallow (r : out C) : acts (swallow r) = acts r.
Proof. reflexivity. Qed.

Lemma sic_sends n cid cands tries o :
  forall a0, In a0 (acts (send_initial_create n cid cands tries o)) ->
  exists first x, a0 = Send (p_addr first) (MCreate cid (o_pid o) (n_pkbin n) (pub C x)) /\ x = sk_of C (o_x o)
    /\ hd_error cands = Some first
    /\ exists c', aget cid (n_circ (st (send_initial_create n cid cands tries o))) = Some c'
       /\ c_unv c' = Some (mkHop first None (Some x)).
Proof.
  unfold send_initial_create. destruct (aget cid (n_circ n)) as [c|] eqn:G; [|intros a0 H; cbn in H; contradiction].
  destruct cands as [|f tl]; [intros a0 H; cbn in H; contradiction|].
  intros a0 [<-|[]]. exists f, (sk_of C (o_x o)). split; [reflexivity|]. split; [reflexivity|]. split; [reflexivity|].
  eexists. split; [cbn; apply aget_aset_same|]. reflexivity.
Qed.

(* the peer an extend selects is one peer: the key it names and the address it carries (when it carries one)
   are the key and the address of the same peer - the required exit or the exit chosen by random.choice *)
Lemma sext_one_peer n cid cands tries o fa k i t X addr :
  In (Send fa (MExtend k i t X addr)) (acts (send_extend n cid cands tries o)) ->
  addr = 0 \/
  exists p, t = p_key p /\ addr = p_addr p
    /\ (o_fallback o = Some p \/ exists c, aget cid (n_circ n) = Some c /\ c_reqexit c = Some p).
Proof.
  unfold send_extend. destruct (aget cid (n_circ n)) as [c|] eqn:G; [|intros H; cbn in H; contradiction].
  destruct (if c_goal c - 1 =? zlen (c_hops c) then c_reqexit c else None) as [re|] eqn:RE.
  - intros [K|[]]. inversion K; subst. right. exists re. split; [reflexivity|]. split; [reflexivity|].
    right. exists c. split; [reflexivity|]. destruct (c_goal c - 1 =? zlen (c_hops c)); [exact RE|discriminate].
  - match goal with |- context [filter_cands ?ex cands] => destruct (filter_cands ex cands) as [f|e] end;
      [|intros H; cbn in H; contradiction].
    cbn [bind]. destruct f as [|t0 tl].
    + destruct (o_fallback o) as [p|] eqn:F; [|intros H; cbn in H; contradiction].
      intros [K|[]]. inversion K; subst. right. exists p. auto.
    + intros [K|[]]. inversion K; subst. left. reflexivity.
Qed.

End Base.

Arguments hops_of {C}.
Arguments same_hops {C}.
Arguments same_hops_refl {C}.
Arguments same_hops_trans {C}.
Arguments hops_of_set_unv {C}.
Arguments schedule_rm_same {C}.
Arguments sic_same {C}.
Arguments sext_same {C}.
Arguments sext_sends {C}.
Arguments sic_sends {C}.
Arguments st_swallow {C}.
Arguments acts_swallow {C}.
Arguments sext_one_peer {C}.
