(* C04: ping / pong cells at the two ends (the transport between them is forward_transport / backward_transport). *)
From Coq Require Import ZArith List Bool Lia ZifyBool Arith.
From IPV8V Require Import lib.PyErr lib.Bytes lib.BE model.M02_wire model.M03_recv model.M04_onion
  spec.S04_onion_spec proofs.P02_prims proofs.P02_roundtrip proofs.P04_base proofs.P04_node proofs.P04_endpoint.
Import ListNotations.
Open Scope Z_scope.

Lemma ident_pack ident : 0 <= ident < 65536 -> pack_msg no_keys tail_ping [VInt ident] = Ok (be_encode 2 ident).
Proof.
  intros H. unfold tail_ping. cbn [msg_of_list]. rewrite pack_msg_cons. cbn [pack]. unfold penc, prim_ok, in_range.
  change (256 ^ Z.of_nat 2) with 65536.
  destruct ((0 <=? ident) && (ident <? 65536)) eqn:E; [|lia]. cbn [negb bind pack_msg]. rewrite app_nil_r. reflexivity.
Qed.

Lemma ident_msg_ok ident : 0 <= ident < 65536 -> msg_ok no_keys tail_ping [VInt ident] = true.
Proof.
  intros H. unfold tail_ping. cbn [msg_of_list]. rewrite msg_ok_cons. cbn [val_ok msg_ok prim_ok]. unfold in_range.
  change (256 ^ Z.of_nat 2) with 65536. destruct ((0 <=? ident) && (ident <? 65536)) eqn:E; [reflexivity | lia].
Qed.

Lemma ping_decode (pfx : bytes) mid cid ident :
  length pfx = 22%nat -> cid_ok cid -> 0 <= ident < 65536 ->
  unpack_msg no_keys fmt_ping (pfx ++ [mid] ++ be_encode 4 cid ++ be_encode 2 ident) 23
  = Ok ([VInt cid; VInt ident], (23 + length (be_encode 4 cid ++ be_encode 2 ident))%nat).
Proof.
  intros Hp Hc Hi. rewrite fmt_ping_eq.
  replace (pfx ++ [mid] ++ be_encode 4 cid ++ be_encode 2 ident) with ((pfx ++ [mid]) ++ be_encode 4 cid ++ be_encode 2 ident)
    by (rewrite <- app_assoc; reflexivity).
  apply cell_payload_unpack; auto.
  - apply ident_msg_ok; exact Hi.
  - apply ident_pack; exact Hi.
  - rewrite app_length, Hp. reflexivity.
Qed.

Section Ping.
Variables key nonce : Type.
Variable enc : key -> dir -> nonce -> bytes -> bytes.
Variable dec : key -> dir -> bytes -> option bytes.
Notation node := (node key).

(* an exit socket answers a ping with a pong under the same circuit id and identifier, one BACKWARD layer of
   its key, to the node the ping came from; its state is unchanged *)
Lemma ping_answered_l (nd : node) src cid es k ident early rnd ns :
  length (n_prefix nd) = 22%nat -> cid_ok cid -> 0 <= ident < 65536 ->
  existsb (Z.eqb 6) (n_handlers nd) = true ->
  assoc cid (n_circuits nd) = None -> assoc cid (n_exits nd) = Some es -> h_keys (es_hop es) = Some k ->
  community_on_cell_packet enc nd src (cell_to_bin (n_prefix nd) (mkCell cid (6 :: be_encode 2 ident) false early)) rnd ns
  = Ok (nd, [Send src (cell_to_bin (n_prefix nd) (mkCell cid (enc k BACKWARD (ns O) (7 :: be_encode 2 ident)) false false))]).
Proof.
  intros Hp Hc Hi Hh Hci Hes Hk.
  rewrite (community_cell key nonce enc nd src cid 6 (be_encode 2 ident) early rnd ns Hp Hc).
  rewrite (pfc_dispatch key nonce enc nd src cid 6 (be_encode 4 cid ++ be_encode 2 ident) rnd ns Hp Hh).
  cbn [Z.eqb Pos.eqb]. unfold on_ping.
  rewrite (ping_decode (n_prefix nd) 6 cid ident Hp Hc Hi). cbn [bind].
  unfold known_cid, has. rewrite Hci, Hes. cbn [orb negb].
  rewrite fmt_ping_eq.
  rewrite (send_cell_eq key nonce enc nd src cid 7 tail_ping [VInt ident] (be_encode 2 ident) ns Hc (ident_pack ident Hi)) by lia.
  change (NO_CRYPTO 7) with false.
  rewrite (exit_send key nonce enc nd src cid es k (7 :: be_encode 2 ident) false ns Hci Hes Hk). reflexivity.
Qed.

(* the originator's pong handler is entered with the circuit id of the header and the identifier sent *)
Lemma pong_received_l (nd : node) src cid ident early rnd ns :
  length (n_prefix nd) = 22%nat -> cid_ok cid -> 0 <= ident < 65536 ->
  existsb (Z.eqb 7) (n_handlers nd) = true ->
  community_on_cell_packet enc nd src (cell_to_bin (n_prefix nd) (mkCell cid (7 :: be_encode 2 ident) false early)) rnd ns
  = Ok (nd, [GotPong src cid ident]).
Proof.
  intros Hp Hc Hi Hh.
  rewrite (community_cell key nonce enc nd src cid 7 (be_encode 2 ident) early rnd ns Hp Hc).
  rewrite (pfc_dispatch key nonce enc nd src cid 7 (be_encode 4 cid ++ be_encode 2 ident) rnd ns Hp Hh).
  cbn [Z.eqb Pos.eqb]. unfold on_pong.
  rewrite (ping_decode (n_prefix nd) 7 cid ident Hp Hc Hi). reflexivity.
Qed.

(* the far end of a linked end-to-end circuit is the ORIGINATOR of its own circuit (no exit socket there): it answers
   a ping as well - pong under the same id and identifier, end-to-end layer first, then all its hop layers *)
Lemma ping_answered_e2e_l (nd : node) src cid ci ks hk h0 htl ident early rnd ns :
  length (n_prefix nd) = 22%nat -> cid_ok cid -> 0 <= ident < 65536 ->
  existsb (Z.eqb 6) (n_handlers nd) = true ->
  assoc cid (n_circuits nd) = Some ci -> c_hs ci = Some hk -> c_hops ci = h0 :: htl ->
  map h_keys (c_hops ci) = map Some ks ->
  let e := c_early ci <? n_max_early nd in
  community_on_cell_packet enc nd src (cell_to_bin (n_prefix nd) (mkCell cid (6 :: be_encode 2 ident) false early)) rnd ns
  = Ok (set_circuits nd (upd cid (if e then bump key ci else ci) (n_circuits nd)),
        [Send src (cell_to_bin (n_prefix nd)
                     (mkCell cid (enc_layers enc FORWARD ks (drawn (shift ns) (length ks))
                                    (enc hk (hs_out_dir (c_ctype ci)) (ns O) (7 :: be_encode 2 ident))) false e))]).
Proof.
  intros Hp Hc Hi Hh Hci Hhs Hne Hk e.
  rewrite (community_cell key nonce enc nd src cid 6 (be_encode 2 ident) early rnd ns Hp Hc).
  rewrite (pfc_dispatch key nonce enc nd src cid 6 (be_encode 4 cid ++ be_encode 2 ident) rnd ns Hp Hh).
  cbn [Z.eqb Pos.eqb]. unfold on_ping.
  rewrite (ping_decode (n_prefix nd) 6 cid ident Hp Hc Hi). cbn [bind].
  unfold known_cid, has. rewrite Hci. cbn [orb negb].
  rewrite fmt_ping_eq.
  rewrite (send_cell_eq key nonce enc nd src cid 7 tail_ping [VInt ident] (be_encode 2 ident) ns Hc (ident_pack ident Hi)) by lia.
  change (NO_CRYPTO 7) with false.
  pose proof (origin_send_hs key nonce enc nd src cid ci ks hk h0 htl 7 (be_encode 2 ident) false ns Hci Hhs Hne Hk) as S.
  cbv zeta in S. change ((7 =? 4) || (c_early ci <? n_max_early nd)) with e in S. rewrite S. reflexivity.
Qed.

Lemma ping_answered_e2e_ex_l (nd : node) src cid ci ks hk h0 htl ident early rnd ns :
  length (n_prefix nd) = 22%nat -> cid_ok cid -> 0 <= ident < 65536 ->
  existsb (Z.eqb 6) (n_handlers nd) = true ->
  assoc cid (n_circuits nd) = Some ci -> c_hs ci = Some hk -> c_hops ci = h0 :: htl ->
  map h_keys (c_hops ci) = map Some ks ->
  exists nd',
  community_on_cell_packet enc nd src (cell_to_bin (n_prefix nd) (mkCell cid (6 :: be_encode 2 ident) false early)) rnd ns
  = Ok (nd', [Send src (cell_to_bin (n_prefix nd)
                     (mkCell cid (enc_layers enc FORWARD ks (drawn (shift ns) (length ks))
                                    (enc hk (hs_out_dir (c_ctype ci)) (ns O) (7 :: be_encode 2 ident))) false
                             (c_early ci <? n_max_early nd)))]).
Proof.
  intros Hp Hc Hi Hh Hci Hhs Hne Hk. eexists.
  apply (ping_answered_e2e_l nd src cid ci ks hk h0 htl ident early rnd ns Hp Hc Hi Hh Hci Hhs Hne Hk).
Qed.

End Ping.
