(* Invariants of the task manager model and the lemmas behind task_name_exclusive, replace_order,
   shutdown_refuses, shutdown_cancels_all. *)
From Coq Require Import ZArith List Bool Arith Lia.
From IPV8V Require Import lib.PyErr model.M11_tasks.
Import ListNotations.
Open Scope Z_scope.

(* ------------------------------------------------------------------ names, dictionaries *)
Lemma name_eqb_eq a b : name_eqb a b = true <-> a = b.
Proof.
  destruct a, b; simpl; split; intro H; try discriminate; try congruence.
  - apply Z.eqb_eq in H. congruence.
  - inversion H. apply Z.eqb_refl.
  - apply andb_true_iff in H. destruct H as [H1 H2]. apply Z.eqb_eq in H1, H2. congruence.
  - inversion H. rewrite !Z.eqb_refl. reflexivity.
Qed.
Lemma name_eqb_refl a : name_eqb a a = true.
Proof. apply name_eqb_eq. reflexivity. Qed.
Lemma name_eqb_neq a b : name_eqb a b = false <-> a <> b.
Proof.
  split.
  - intros H E. apply name_eqb_eq in E. congruence.
  - intros H. destruct (name_eqb a b) eqn:E; [apply name_eqb_eq in E; contradiction|reflexivity].
Qed.

Lemma nlookup_nset_same n v m : nlookup n (nset n v m) = Some v.
Proof.
  induction m as [|[k w] r IH]; simpl.
  - rewrite name_eqb_refl. reflexivity.
  - destruct (name_eqb k n) eqn:E; simpl; rewrite E; [reflexivity|exact IH].
Qed.
Lemma nlookup_nset_other n n' v m : n <> n' -> nlookup n' (nset n v m) = nlookup n' m.
Proof.
  intros Hne. induction m as [|[k w] r IH]; simpl.
  - apply name_eqb_neq in Hne. rewrite Hne. reflexivity.
  - destruct (name_eqb k n) eqn:E; simpl.
    + apply name_eqb_eq in E. subst k. apply name_eqb_neq in Hne. rewrite Hne. reflexivity.
    + destruct (name_eqb k n'); [reflexivity|exact IH].
Qed.
Lemma nlookup_ndel_same n m : nlookup n (ndel n m) = None.
Proof.
  induction m as [|[k w] r IH]; simpl; [reflexivity|].
  destruct (name_eqb k n) eqn:E; simpl; [exact IH|]. rewrite E. exact IH.
Qed.
Lemma nlookup_ndel_other n n' m : n <> n' -> nlookup n' (ndel n m) = nlookup n' m.
Proof.
  intros Hne. induction m as [|[k w] r IH]; simpl; [reflexivity|].
  destruct (name_eqb k n) eqn:E; simpl.
  - apply name_eqb_eq in E. subst k. apply name_eqb_neq in Hne. rewrite Hne. exact IH.
  - destruct (name_eqb k n'); [reflexivity|exact IH].
Qed.
Lemma nlookup_In n m v : nlookup n m = Some v -> In n (map fst m).
Proof.
  induction m as [|[k w] r IH]; simpl; [discriminate|].
  destruct (name_eqb k n) eqn:E.
  - apply name_eqb_eq in E. intros _. now left.
  - intros H. right. exact (IH H).
Qed.

(* ------------------------------------------------------------------ list update *)
Lemma nth_error_upd {A} (l : list A) i f j :
  nth_error (upd l i f) j = if Nat.eqb j i then option_map f (nth_error l j) else nth_error l j.
Proof.
  revert i j. induction l as [|x r IH]; intros i j.
  - destruct i, j; simpl; try reflexivity; destruct (Nat.eqb j i); reflexivity.
  - destruct i, j; simpl; try reflexivity. apply IH.
Qed.
Lemma length_upd {A} (l : list A) i f : length (upd l i f) = length l.
Proof. revert i. induction l as [|x r IH]; intros [|i]; simpl; auto. Qed.

Lemma get_upd_task s tid f j :
  get (upd_task s tid f) j = if Nat.eqb j tid then option_map f (get s j) else get s j.
Proof. unfold get, upd_task; simpl. apply nth_error_upd. Qed.

Lemma get_add_ready s hs j : get (add_ready s hs) j = get s j.
Proof. reflexivity. Qed.

(* ------------------------------------------------------------------ the invariant *)
Record inv (s : tm) : Prop := mkInv {
  inv_pend : forall n tid, nlookup n (pending s) = Some tid -> exists t, get s tid = Some t /\ t_name t = n;
  inv_track : forall tid t, get s tid = Some t -> live t = true -> nlookup (t_name t) (pending s) = Some tid;
  inv_ready : forall tid c, In (HCb (Some tid) c) (ready s) -> st_done s tid = true }.

(* done is permanent, tasks are never dropped *)
Definition done_mono (s s' : tm) : Prop := forall tid, st_done s tid = true -> st_done s' tid = true.
(* no task is created and no task becomes live *)
Definition shrink (s s' : tm) : Prop :=
  forall tid t', get s' tid = Some t' -> live t' = true ->
  exists t, get s tid = Some t /\ live t = true /\ t_name t = t_name t'.

Lemma done_mono_refl s : done_mono s s. Proof. intros tid H; exact H. Qed.
Lemma done_mono_trans a b c : done_mono a b -> done_mono b c -> done_mono a c.
Proof. intros H1 H2 tid H. apply H2, H1, H. Qed.
Lemma shrink_refl s : shrink s s.
Proof. intros tid t H L. exists t. auto. Qed.
Lemma shrink_trans a b c : shrink a b -> shrink b c -> shrink a c.
Proof.
  intros H1 H2 tid t H L. destruct (H2 _ _ H L) as [t1 [G1 [L1 N1]]].
  destruct (H1 _ _ G1 L1) as [t0 [G0 [L0 N0]]]. exists t0. split; [assumption|split; [assumption|congruence]].
Qed.

(* an update of one task that keeps its name, does not revive it and does not undo `done` *)
Definition good_at (s : tm) (tid : nat) (f : task -> task) : Prop :=
  forall t, get s tid = Some t ->
    t_name (f t) = t_name t /\ (live (f t) = true -> live t = true) /\
    (is_done (t_st t) = true -> is_done (t_st (f t)) = true).

Lemma upd_done_mono s tid f : good_at s tid f -> done_mono s (upd_task s tid f).
Proof.
  intros G j H. unfold st_done in *. rewrite get_upd_task.
  destruct (Nat.eqb j tid) eqn:E; [|exact H].
  apply Nat.eqb_eq in E. subst j. destruct (get s tid) as [t|] eqn:Eg; [|discriminate]. simpl.
  destruct (G t Eg) as [_ [_ Hd]]. apply Hd, H.
Qed.
Lemma upd_shrink s tid f : good_at s tid f -> shrink s (upd_task s tid f).
Proof.
  intros G j t' H L. rewrite get_upd_task in H.
  destruct (Nat.eqb j tid) eqn:E.
  - apply Nat.eqb_eq in E. subst j. destruct (get s tid) as [t|] eqn:Eg; [|discriminate]. simpl in H.
    inversion H; subst t'. destruct (G t Eg) as [Hn [Hl _]]. exists t. auto.
  - exists t'. auto.
Qed.
Lemma upd_inv s tid f : inv s -> good_at s tid f -> inv (upd_task s tid f).
Proof.
  intros [P T R] G. constructor.
  - intros n j H. simpl in H. destruct (P _ _ H) as [t [Hg Hn]]. rewrite get_upd_task.
    destruct (Nat.eqb j tid) eqn:E.
    + apply Nat.eqb_eq in E. subst j. rewrite Hg. simpl. exists (f t). split; [reflexivity|].
      destruct (G t Hg) as [Hn' _]. congruence.
    + exists t. auto.
  - intros j t' H L. simpl. rewrite get_upd_task in H. destruct (Nat.eqb j tid) eqn:E.
    + apply Nat.eqb_eq in E. subst j. destruct (get s tid) as [t|] eqn:Eg; [|discriminate]. simpl in H.
      inversion H; subst t'. destruct (G t Eg) as [Hn [Hl _]]. rewrite Hn. apply T; auto.
    + apply T; auto.
  - intros j c H. simpl in H. apply (upd_done_mono s tid f G). apply R with c. exact H.
Qed.

Lemma add_ready_done_mono s hs : done_mono s (add_ready s hs).
Proof. intros j H. exact H. Qed.
Lemma add_ready_shrink s hs : shrink s (add_ready s hs).
Proof. intros j t H L. exists t. auto. Qed.
Lemma add_ready_inv s hs :
  inv s -> (forall tid c, In (HCb (Some tid) c) hs -> st_done s tid = true) -> inv (add_ready s hs).
Proof.
  intros [P T R] Hh. constructor; simpl; auto.
  intros j c H. apply in_app_iff in H. destruct H as [H|H]; [exact (R _ _ H)|exact (Hh _ _ H)].
Qed.

Lemma ndel_inv s n :
  inv s -> (forall tid t, get s tid = Some t -> live t = true -> t_name t <> n) ->
  inv (set_pending s (ndel n (pending s))).
Proof.
  intros [P T R] Hn. constructor; simpl.
  - intros n' j H. destruct (name_eqb n n') eqn:E.
    + apply name_eqb_eq in E. subst n'. rewrite nlookup_ndel_same in H. discriminate.
    + apply name_eqb_neq in E. rewrite nlookup_ndel_other in H by assumption. exact (P _ _ H).
  - intros j t H L. unfold get in *. simpl in *. rewrite nlookup_ndel_other; [apply T; auto|].
    intros E. exact (Hn _ _ H L (eq_sym E)).
  - exact R.
Qed.

(* ------------------------------------------------------------------ finish, cancel *)
Lemma good_finish s tid : good_at s tid (fun t => with_cbs [] (with_st SDone t)).
Proof. intros t _. simpl. split; [reflexivity|split; [discriminate|reflexivity]]. Qed.

Lemma finish_props s tid :
  inv s -> inv (finish s tid) /\ done_mono s (finish s tid) /\ shrink s (finish s tid)
           /\ pending (finish s tid) = pending s /\ shut (finish s tid) = shut s
           /\ (forall t, get s tid = Some t -> st_done (finish s tid) tid = true).
Proof.
  intros I. unfold finish. destruct (get s tid) as [t|] eqn:Eg.
  - pose proof (good_finish s tid) as G. split; [|split; [|split; [|split; [|split]]]].
    + apply add_ready_inv; [apply upd_inv; assumption|].
      intros j c H. apply in_map_iff in H. destruct H as [x [Hx _]]. inversion Hx; subst j.
      unfold st_done. rewrite get_upd_task, Nat.eqb_refl, Eg. reflexivity.
    + eapply done_mono_trans; [apply upd_done_mono; exact G|apply add_ready_done_mono].
    + eapply shrink_trans; [apply upd_shrink; exact G|apply add_ready_shrink].
    + reflexivity.
    + reflexivity.
    + intros t0 _. unfold st_done. rewrite get_add_ready, get_upd_task, Nat.eqb_refl, Eg. reflexivity.
  - split; [assumption|split; [apply done_mono_refl|split; [apply shrink_refl|split; [reflexivity|split; [reflexivity|]]]]].
    intros t0 H. discriminate.
Qed.

Lemma good_creq s tid : good_at s tid with_creq.
Proof.
  intros t _. simpl. split; [reflexivity|split; [|auto]].
  unfold live; simpl; try rewrite andb_false_r; discriminate.
Qed.
Lemma good_wake_creq s tid : (forall t, get s tid = Some t -> t_st t = SRun) ->
  good_at s tid (fun t => with_st SWake (with_creq t)).
Proof.
  intros Hs t Hg. simpl. split; [reflexivity|split].
  - unfold live; simpl; try rewrite andb_false_r; discriminate.
  - rewrite (Hs t Hg). discriminate.
Qed.

(* after cancel() a task that was not done is not live; everything else about the manager is kept *)
Lemma do_cancel_props s tid :
  inv s -> let s' := do_cancel s tid in
  inv s' /\ done_mono s s' /\ shrink s s' /\ pending s' = pending s /\ shut s' = shut s
  /\ (forall t', get s' tid = Some t' -> live t' = false).
Proof.
  intros I. cbv zeta. unfold do_cancel. destruct (get s tid) as [t|] eqn:Eg.
  2:{ simpl. split; [assumption|split; [apply done_mono_refl|split; [apply shrink_refl|split; [reflexivity|split; [reflexivity|]]]]].
      intros t' H. congruence. }
  assert (Hc : forall s0, s0 = upd_task s tid with_creq ->
               inv s0 /\ done_mono s s0 /\ shrink s s0 /\ pending s0 = pending s /\ shut s0 = shut s
               /\ (forall t', get s0 tid = Some t' -> live t' = false)).
  { intros s0 ->. pose proof (good_creq s tid) as G.
    split; [apply upd_inv; assumption|split; [apply upd_done_mono; assumption|split; [apply upd_shrink; assumption|]]].
    split; [reflexivity|split; [reflexivity|]].
    intros t' H. rewrite get_upd_task, Nat.eqb_refl, Eg in H. simpl in H. inversion H.
    unfold live. simpl. apply andb_false_r. }
  destruct (t_st t) eqn:Es; simpl.
  - apply (Hc _ eq_refl).
  - destruct (t_kind t).
    + assert (G : good_at s tid (fun t0 => with_st SWake (with_creq t0))).
      { apply good_wake_creq. intros t0 H. congruence. }
      split; [|split; [|split; [|split; [reflexivity|split; [reflexivity|]]]]].
      * apply add_ready_inv; [apply upd_inv; assumption|]. intros j c [H|[]]. discriminate.
      * eapply done_mono_trans; [apply upd_done_mono; exact G|apply add_ready_done_mono].
      * eapply shrink_trans; [apply upd_shrink; exact G|apply add_ready_shrink].
      * intros t' H. rewrite get_add_ready, get_upd_task, Nat.eqb_refl, Eg in H. simpl in H. inversion H.
        unfold live. simpl. reflexivity.
    + destruct (Hc _ eq_refl) as [I1 [D1 [S1 [P1 [Sh1 L1]]]]].
      destruct (finish_props (upd_task s tid with_creq) tid I1) as [I2 [D2 [S2 [P2 [Sh2 F2]]]]].
      split; [assumption|split; [eapply done_mono_trans; eassumption|split; [eapply shrink_trans; eassumption|]]].
      split; [congruence|split; [congruence|]].
      intros t' H. destruct (live t') eqn:L; [|reflexivity].
      destruct (S2 _ _ H L) as [t1 [G1 [Lt1 _]]]. rewrite (L1 _ G1) in Lt1. discriminate.
  - apply (Hc _ eq_refl).
  - split; [assumption|split; [apply done_mono_refl|split; [apply shrink_refl|split; [reflexivity|split; [reflexivity|]]]]].
    intros t' H. rewrite Eg in H. inversion H; subst t'. unfold live. rewrite Es. reflexivity.
Qed.

Lemma live_not_done t : live t = true -> is_done (t_st t) = false.
Proof. unfold live. intros H. apply andb_true_iff in H. destruct H as [H _]. apply negb_true_iff in H. exact H. Qed.

(* cancel_pending_task: afterwards no live task carries that name *)
Lemma cancel_pending_props s n :
  inv s -> let s' := fst (cancel_pending s n) in
  inv s' /\ done_mono s s' /\ shrink s s' /\ shut s' = shut s
  /\ (forall tid t, get s' tid = Some t -> live t = true -> t_name t <> n).
Proof.
  intros I. cbv zeta. unfold cancel_pending. destruct (nlookup n (pending s)) as [tid|] eqn:El.
  - destruct (st_done s tid) eqn:Ed; simpl.
    + split; [assumption|split; [apply done_mono_refl|split; [apply shrink_refl|split; [reflexivity|]]]].
      intros j t H L E. subst n. pose proof (inv_track s I _ _ H L) as Ht. rewrite El in Ht. inversion Ht; subst j.
      unfold st_done in Ed. rewrite H in Ed. rewrite (live_not_done _ L) in Ed. discriminate.
    + destruct (do_cancel_props s tid I) as [I1 [D1 [S1 [P1 [Sh1 L1]]]]].
      assert (Hno : forall j t, get (do_cancel s tid) j = Some t -> live t = true -> t_name t <> n).
      { intros j t H L E. destruct (S1 _ _ H L) as [t0 [G0 [L0 N0]]].
        pose proof (inv_track s I _ _ G0 L0) as Ht. rewrite N0, E, El in Ht. inversion Ht; subst j.
        rewrite (L1 _ H) in L. discriminate. }
      split; [apply ndel_inv; assumption|split; [exact D1|split; [exact S1|split; [exact Sh1|]]]].
      exact Hno.
  - simpl. split; [assumption|split; [apply done_mono_refl|split; [apply shrink_refl|split; [reflexivity|]]]].
    intros j t H L E. subst n. pose proof (inv_track s I _ _ H L) as Ht. congruence.
Qed.

Lemma cancel_pending_result s n tid :
  snd (cancel_pending s n) = Some tid -> nlookup n (pending s) = Some tid.
Proof.
  unfold cancel_pending. destruct (nlookup n (pending s)) as [j|]; [|discriminate].
  destruct (st_done s j); simpl; congruence.
Qed.

(* ------------------------------------------------------------------ register *)
Lemma get_app_old s t j : (j < length (tasks s))%nat -> nth_error (tasks s ++ [t]) j = nth_error (tasks s) j.
Proof. intros H. apply nth_error_app1. exact H. Qed.

Lemma get_lt s j t : get s j = Some t -> (j < length (tasks s))%nat.
Proof. unfold get. intros H. apply nth_error_Some. congruence. Qed.

Lemma register_props s n k :
  inv s -> let s' := fst (register s n k) in
  inv s' /\ done_mono s s' /\ shut s' = shut s /\ (shut s = true -> s' = s /\ snd (register s n k) = RRefused).
Proof.
  intros I. cbv zeta. unfold register. destruct (shut s) eqn:Esh; simpl.
  { split; [assumption|split; [apply done_mono_refl|split; [first [reflexivity|assumption]|auto]]]. }
  destruct (is_active s n) eqn:Ea; simpl.
  { split; [assumption|split; [apply done_mono_refl|split; [first [reflexivity|assumption]|discriminate]]]. }
  set (t := mkTask n k (match k with KCoro => SNew | KFut => SRun end) false [DoneCb n]).
  split; [|split; [|split; [first [reflexivity|assumption]|discriminate]]].
  - destruct I as [P T R]. constructor; simpl.
    + intros n' j H. destruct (name_eqb n n') eqn:E.
      * apply name_eqb_eq in E. subst n'. rewrite nlookup_nset_same in H. inversion H; subst j.
        exists t. unfold get. simpl. split; [|reflexivity].
        rewrite nth_error_app2 by lia. rewrite Nat.sub_diag. reflexivity.
      * apply name_eqb_neq in E. rewrite nlookup_nset_other in H by assumption.
        destruct (P _ _ H) as [t0 [G0 N0]]. exists t0. split; [|assumption].
        unfold get. simpl. rewrite get_app_old; [exact G0|eapply get_lt; exact G0].
    + intros j t' H L. unfold get in H. simpl in H.
      destruct (Nat.lt_ge_cases j (length (tasks s))) as [Hlt|Hge].
      * rewrite get_app_old in H by assumption. pose proof (T _ _ H L) as Ht.
        destruct (name_eqb n (t_name t')) eqn:E.
        -- apply name_eqb_eq in E. unfold is_active in Ea. rewrite E, Ht in Ea.
           unfold st_done, get in Ea. rewrite H in Ea. rewrite (live_not_done _ L) in Ea. discriminate.
        -- apply name_eqb_neq in E. rewrite nlookup_nset_other by assumption. exact Ht.
      * rewrite nth_error_app2 in H by assumption.
        destruct (j - length (tasks s))%nat eqn:Ej; simpl in H; [|destruct n0; discriminate].
        inversion H; subst t'. simpl. rewrite nlookup_nset_same. f_equal. lia.
    + intros j c H. assert (Hin : In (HCb (Some j) c) (ready s)).
      { apply in_app_iff in H. destruct H as [H|H]; [assumption|]. destruct k; simpl in H; [destruct H as [H|[]]; discriminate|destruct H]. }
      pose proof (R _ _ Hin) as Hd. unfold st_done, get in *. simpl.
      destruct (nth_error (tasks s) j) as [t0|] eqn:E0; [|discriminate].
      rewrite get_app_old; [rewrite E0; exact Hd|]. apply nth_error_Some. congruence.
  - intros j Hd. unfold st_done, get in *. simpl.
    destruct (nth_error (tasks s) j) as [t0|] eqn:E0; [|discriminate].
    rewrite get_app_old; [rewrite E0; exact Hd|]. apply nth_error_Some. congruence.
Qed.

(* ------------------------------------------------------------------ outputs *)
(* replace_task's callback only ever runs once the task it replaced is done *)
Definition out_ok (o : out) : Prop :=
  match o with ORepl (Some _) b _ => b = true | _ => True end.

Lemma run_cb_props s owner c :
  inv s -> (forall tid, owner = Some tid -> st_done s tid = true) ->
  inv (fst (run_cb s owner c)) /\ done_mono s (fst (run_cb s owner c)) /\ Forall out_ok (snd (run_cb s owner c))
  /\ shut (fst (run_cb s owner c)) = shut s.
Proof.
  intros I Ho. destruct c as [n|n]; simpl.
  - destruct owner as [tid|]; simpl; [|split; [assumption|split; [apply done_mono_refl|split; [constructor|reflexivity]]]].
    destruct (nlookup n (pending s)) as [cur|] eqn:El; simpl;
      [|split; [assumption|split; [apply done_mono_refl|split; [constructor|reflexivity]]]].
    destruct (Nat.eqb cur tid) eqn:E; simpl;
      [|split; [assumption|split; [apply done_mono_refl|split; [constructor|reflexivity]]]].
    apply Nat.eqb_eq in E. subst cur.
    split; [|split; [intros j H; exact H|split; [constructor|reflexivity]]].
    apply ndel_inv; [assumption|]. intros j t H L En. subst n.
    pose proof (inv_track s I _ _ H L) as Ht. rewrite El in Ht. inversion Ht; subst j.
    pose proof (Ho tid eq_refl) as Hd. unfold st_done in Hd. rewrite H in Hd. rewrite (live_not_done _ L) in Hd. discriminate.
  - destruct (register s n KCoro) as [s' r] eqn:Er. simpl.
    pose proof (register_props s n KCoro I) as Hr. rewrite Er in Hr. simpl in Hr. destruct Hr as [I' [D' [Sh' _]]].
    split; [assumption|split; [assumption|split; [|assumption]]].
    constructor; [|constructor]. destruct owner as [tid|]; simpl; [apply Ho; reflexivity|exact Logic.I].
Qed.

Lemma good_run s tid : (forall t, get s tid = Some t -> t_st t = SNew) -> good_at s tid (with_st SRun).
Proof.
  intros Hs t Hg. simpl. split; [reflexivity|split].
  - unfold live. simpl. rewrite (Hs t Hg). simpl. auto.
  - rewrite (Hs t Hg). discriminate.
Qed.

Lemma process_props s h :
  inv s -> (forall tid c, h = HCb (Some tid) c -> st_done s tid = true) ->
  inv (fst (process s h)) /\ done_mono s (fst (process s h)) /\ Forall out_ok (snd (process s h))
  /\ shut (fst (process s h)) = shut s.
Proof.
  intros I Hh. destruct h as [tid|tid|owner c]; simpl.
  - destruct (get s tid) as [t|] eqn:Eg; simpl;
      [|split; [assumption|split; [apply done_mono_refl|split; [constructor|reflexivity]]]].
    destruct (t_st t) eqn:Es; simpl;
      try (split; [assumption|split; [apply done_mono_refl|split; [constructor|reflexivity]]]).
    destruct (t_creq t); simpl.
    + destruct (finish_props s tid I) as [I1 [D1 [_ [_ [Sh1 _]]]]].
      split; [assumption|split; [assumption|split; [constructor|assumption]]].
    + assert (G : good_at s tid (with_st SRun)) by (apply good_run; intros t0 H; congruence).
      split; [apply upd_inv; assumption|split; [apply upd_done_mono; assumption|split; [|reflexivity]]].
      constructor; [exact Logic.I|constructor].
  - destruct (get s tid) as [t|] eqn:Eg; simpl;
      [|split; [assumption|split; [apply done_mono_refl|split; [constructor|reflexivity]]]].
    destruct (t_st t) eqn:Es; simpl;
      try (split; [assumption|split; [apply done_mono_refl|split; [constructor|reflexivity]]]).
    destruct (finish_props s tid I) as [I1 [D1 [_ [_ [Sh1 _]]]]].
    split; [assumption|split; [assumption|split; [constructor|assumption]]].
  - apply run_cb_props; [assumption|]. intros tid E. subst owner. apply (Hh tid c). reflexivity.
Qed.

Lemma process_all_props hs : forall s,
  inv s -> (forall tid c, In (HCb (Some tid) c) hs -> st_done s tid = true) ->
  inv (fst (process_all s hs)) /\ done_mono s (fst (process_all s hs)) /\ Forall out_ok (snd (process_all s hs))
  /\ shut (fst (process_all s hs)) = shut s.
Proof.
  induction hs as [|h r IH]; intros s I Hh; simpl.
  - split; [assumption|split; [apply done_mono_refl|split; [constructor|reflexivity]]].
  - destruct (process s h) as [s1 o1] eqn:E1.
    pose proof (process_props s h I) as Hp. rewrite E1 in Hp. simpl in Hp.
    destruct Hp as [I1 [D1 [O1 Sh1]]]; [intros tid c E; apply (Hh tid c); left; exact E|].
    destruct (process_all s1 r) as [s2 o2] eqn:E2.
    pose proof (IH s1 I1) as Hr. rewrite E2 in Hr. simpl in Hr.
    destruct Hr as [I2 [D2 [O2 Sh2]]]; [intros tid c Hin; apply D1; apply (Hh tid c); right; exact Hin|].
    simpl. split; [assumption|split; [eapply done_mono_trans; eassumption|split; [apply Forall_app; auto|congruence]]].
Qed.

Lemma cancel_names_props ns : forall s,
  inv s -> let s' := cancel_names s ns in
  inv s' /\ done_mono s s' /\ shrink s s' /\ shut s' = shut s
  /\ (forall tid t, get s' tid = Some t -> live t = true -> ~ In (t_name t) ns).
Proof.
  induction ns as [|n r IH]; intros s I; cbv zeta; simpl.
  - split; [assumption|split; [apply done_mono_refl|split; [apply shrink_refl|split; [reflexivity|]]]]. intros; tauto.
  - destruct (cancel_pending_props s n I) as [I1 [D1 [S1 [Sh1 N1]]]].
    destruct (IH _ I1) as [I2 [D2 [S2 [Sh2 N2]]]].
    split; [assumption|split; [eapply done_mono_trans; eassumption|split; [eapply shrink_trans; eassumption|split; [congruence|]]]].
    intros j t H L [E|Hin].
    + destruct (S2 _ _ H L) as [t1 [G1 [L1 Nm]]]. apply (N1 _ _ G1 L1). congruence.
    + exact (N2 _ _ H L Hin).
Qed.

Lemma good_app_cb s tid c : good_at s tid (fun t => with_cbs (t_cbs t ++ [c]) t).
Proof. intros t _. simpl. split; [reflexivity|split; [unfold live; simpl; auto|auto]]. Qed.
Lemma good_wake s tid : (forall t, get s tid = Some t -> t_st t = SRun) -> good_at s tid (with_st SWake).
Proof.
  intros Hs t Hg. simpl. split; [reflexivity|split].
  - unfold live. simpl. rewrite (Hs t Hg). simpl. auto.
  - rewrite (Hs t Hg). discriminate.
Qed.

Lemma set_shut_inv s b : inv s -> inv (mkTM (tasks s) (pending s) b (counter s) (ready s)).
Proof. intros [P T R]. constructor; assumption. Qed.
Lemma set_counter_inv s c : inv s -> inv (mkTM (tasks s) (pending s) (shut s) c (ready s)).
Proof. intros [P T R]. constructor; assumption. Qed.

(* every operation keeps the invariant; replace callbacks are in order *)
Lemma tstep_props s o :
  inv s -> inv (fst (tstep s o)) /\ Forall out_ok (snd (tstep s o)).
Proof.
  intros I. destruct o as [n k|b k|n|n| |tid|tid|]; simpl.
  - destruct (register s n k) as [s' r] eqn:E. pose proof (register_props s n k I) as H. rewrite E in H. simpl in *.
    split; [tauto|constructor; [exact Logic.I|constructor]].
  - set (s0 := mkTM (tasks s) (pending s) (shut s) (counter s + 1) (ready s)).
    destruct (register s0 (Anon b (counter s + 1)) k) as [s' r] eqn:E.
    pose proof (register_props s0 (Anon b (counter s + 1)) k (set_counter_inv s _ I)) as H. rewrite E in H. simpl in *.
    split; [tauto|constructor; [exact Logic.I|constructor]].
  - destruct (cancel_pending_props s n I) as [I1 _]. split; [assumption|constructor].
  - destruct (cancel_pending s n) as [s1 old] eqn:E.
    pose proof (cancel_pending_props s n I) as H. rewrite E in H. simpl in H. destruct H as [I1 _].
    destruct old as [tid|]; simpl.
    + destruct (st_done s1 tid) eqn:Ed; simpl.
      * split; [|constructor]. apply add_ready_inv; [assumption|]. intros j c [H|[]]. inversion H; subst. exact Ed.
      * split; [|constructor]. apply upd_inv; [assumption|apply good_app_cb].
    + split; [|constructor]. apply add_ready_inv; [assumption|]. intros j c [H|[]]. discriminate.
  - destruct (shut s); simpl; [split; [assumption|constructor]|].
    split; [|constructor].
    destruct (cancel_names_props (map fst (pending s)) _ (set_shut_inv s true I)) as [I1 _]. exact I1.
  - destruct (get s tid) as [t|] eqn:Eg; simpl; [|split; [assumption|constructor]].
    destruct (t_st t) eqn:Es; simpl; try (split; [assumption|constructor]).
    destruct (t_kind t); simpl.
    + split; [|constructor]. apply add_ready_inv.
      * apply upd_inv; [assumption|]. apply good_wake. intros t0 H. congruence.
      * intros j c [H|[]]. discriminate.
    + destruct (finish_props s tid I) as [I1 _]. split; [assumption|constructor].
  - destruct (do_cancel_props s tid I) as [I1 _]. split; [assumption|constructor].
  - assert (I0 : inv (set_ready s [])).
    { destruct I as [P T R]. constructor; simpl; auto; try (intros j c []). }
    destruct (process_all_props (ready s) (set_ready s []) I0) as [I1 [_ [O1 _]]].
    + intros j c H. exact (inv_ready s I _ _ H).
    + split; assumption.
Qed.

Lemma inv_init : inv init_tm.
Proof.
  constructor; simpl.
  - intros n tid H. discriminate.
  - intros tid t H. unfold get in H. simpl in H. destruct tid; discriminate.
  - intros tid c [].
Qed.

Lemma trun_props ops : forall s, inv s -> inv (fst (trun s ops)) /\ Forall out_ok (snd (trun s ops)).
Proof.
  induction ops as [|o r IH]; intros s I; simpl; [split; [assumption|constructor]|].
  destruct (tstep s o) as [s1 o1] eqn:E1. pose proof (tstep_props s o I) as H. rewrite E1 in H. simpl in H.
  destruct H as [I1 O1]. destruct (trun s1 r) as [s2 o2] eqn:E2. pose proof (IH s1 I1) as H. rewrite E2 in H. simpl in H.
  destruct H as [I2 O2]. simpl. split; [assumption|apply Forall_app; auto].
Qed.

(* ================================================================== the lemmas used by props/C11.v *)
Definition reachable (s : tm) : Prop := exists ops, s = fst (trun init_tm ops).

Lemma reachable_inv s : reachable s -> inv s.
Proof. intros [ops ->]. apply trun_props, inv_init. Qed.

(* register_task under a name whose task is still active (registered, unfinished, nobody cancelled
   it) raises and changes nothing *)
Lemma task_name_exclusive_l : forall s tid t k,
  reachable s -> shut s = false -> get s tid = Some t -> live t = true ->
  register s (t_name t) k = (s, RRaise).
Proof.
  intros s tid t k R Hs Hg L. pose proof (reachable_inv s R) as I.
  unfold register. rewrite Hs. unfold is_active. rewrite (inv_track s I _ _ Hg L).
  unfold st_done. rewrite Hg. rewrite (live_not_done _ L). reflexivity.
Qed.

(* two active tasks never share a name *)
Lemma active_names_unique_l : forall s i j ti tj,
  reachable s -> get s i = Some ti -> get s j = Some tj -> live ti = true -> live tj = true ->
  t_name ti = t_name tj -> i = j.
Proof.
  intros s i j ti tj R Gi Gj Li Lj E. pose proof (reachable_inv s R) as I.
  pose proof (inv_track s I _ _ Gi Li) as Hi. pose proof (inv_track s I _ _ Gj Lj) as Hj. congruence.
Qed.

(* in every history, whenever replace_task's callback registers the new task, the task it
   replaced is done *)
Lemma replace_order_l : forall ops old b r,
  In (ORepl (Some old) b r) (snd (trun init_tm ops)) -> b = true.
Proof.
  intros ops old b r H. destruct (trun_props ops init_tm inv_init) as [_ O].
  rewrite Forall_forall in O. exact (O _ H).
Qed.

(* replace_task itself never starts or registers anything synchronously *)
Lemma replace_is_deferred_l : forall s n, snd (tstep s (Replace n)) = [] /\
  length (tasks (fst (tstep s (Replace n)))) = length (tasks s).
Proof.
  intros s n. simpl. unfold cancel_pending.
  destruct (nlookup n (pending s)) as [tid|]; simpl.
  - destruct (st_done s tid) eqn:Ed; simpl.
    + rewrite Ed. simpl. auto.
    + unfold do_cancel. destruct (get s tid) as [t|] eqn:Eg; simpl.
      * assert (Hlen : forall s0 f, length (tasks (upd_task s0 tid f)) = length (tasks s0)).
        { intros. unfold upd_task. simpl. apply length_upd. }
        destruct (t_st t) eqn:Es; simpl.
        -- match goal with |- context [st_done ?x tid] => destruct (st_done x tid) end; simpl; rewrite ?length_upd; auto.
        -- destruct (t_kind t); simpl.
           ++ match goal with |- context [st_done ?x tid] => destruct (st_done x tid) end; simpl; rewrite ?length_upd; auto.
           ++ unfold finish. rewrite get_upd_task, Nat.eqb_refl, Eg. simpl.
              match goal with |- context [st_done ?x tid] => destruct (st_done x tid) end; simpl; rewrite ?length_upd; auto.
        -- match goal with |- context [st_done ?x tid] => destruct (st_done x tid) end; simpl; rewrite ?length_upd; auto.
        -- match goal with |- context [st_done ?x tid] => destruct (st_done x tid) end; simpl; rewrite ?length_upd; auto.
      * match goal with |- context [st_done ?x tid] => destruct (st_done x tid) end; simpl; rewrite ?length_upd; auto.
  - auto.
Qed.

(* ------------------------------------------------------------------ shutdown *)
Definition no_livep (s : tm) : Prop := forall tid t, get s tid = Some t -> live t = false.

Lemma no_live_iff s : no_live s = true <-> no_livep s.
Proof.
  unfold no_live, no_livep. rewrite forallb_forall. split.
  - intros H tid t Hg. unfold get in Hg. apply nth_error_In in Hg. apply H in Hg. apply negb_true_iff in Hg. exact Hg.
  - intros H t Hin. apply In_nth_error in Hin. destruct Hin as [tid Hg]. rewrite (H tid t Hg). reflexivity.
Qed.

Lemma shrink_no_live s s' : shrink s s' -> no_livep s -> no_livep s'.
Proof.
  intros S N tid t H. destruct (live t) eqn:L; [|reflexivity].
  destruct (S _ _ H L) as [t0 [G0 [L0 _]]]. rewrite (N _ _ G0) in L0. discriminate.
Qed.

(* shutdown_task_manager asks every task that could still act to stop *)
Lemma shutdown_cancels_all_l : forall s,
  inv s -> shut s = false ->
  let s' := fst (tstep s Shutdown) in shut s' = true /\ no_live s' = true.
Proof.
  intros s I Hs. simpl. rewrite Hs. simpl.
  destruct (cancel_names_props (map fst (pending s)) _ (set_shut_inv s true I)) as [I1 [_ [S1 [Sh1 N1]]]].
  split; [exact Sh1|]. apply no_live_iff. intros tid t H. destruct (live t) eqn:L; [|reflexivity]. exfalso.
  apply (N1 _ _ H L). destruct (S1 _ _ H L) as [t0 [G0 [L0 Nm]]].
  pose proof (inv_track s I _ _ G0 L0) as Ht. rewrite <- Nm. eapply nlookup_In. simpl in Ht. exact Ht.
Qed.

(* once shut down: nothing is created, nothing becomes live, whatever is attempted *)
Lemma register_shut s n k : shut s = true -> register s n k = (s, RRefused).
Proof. intros H. unfold register. rewrite H. reflexivity. Qed.

Lemma run_cb_shut s owner c : shut s = true ->
  shrink s (fst (run_cb s owner c)) /\ shut (fst (run_cb s owner c)) = true
  /\ (forall o, In o (snd (run_cb s owner c)) -> exists old b, o = ORepl old b RRefused).
Proof.
  intros Hs. destruct c as [n|n]; simpl.
  - destruct owner as [tid|]; simpl; [|split; [apply shrink_refl|split; [assumption|intros o []]]].
    destruct (nlookup n (pending s)) as [cur|]; simpl; [|split; [apply shrink_refl|split; [assumption|intros o []]]].
    destruct (Nat.eqb cur tid); simpl; [|split; [apply shrink_refl|split; [assumption|intros o []]]].
    split; [intros j t H L; exists t; auto|split; [assumption|intros o []]].
  - rewrite (register_shut s n KCoro Hs). simpl. split; [apply shrink_refl|split; [assumption|]].
    intros o [H|[]]. subst o. eauto.
Qed.

Definition quiet_out (o : out) : Prop :=
  match o with
  | OStarted _ => False
  | OReg r => r = RRefused
  | ORepl _ _ r => r = RRefused
  end.

Lemma process_shut s h : shut s = true -> no_livep s ->
  shrink s (fst (process s h)) /\ shut (fst (process s h)) = true /\ Forall quiet_out (snd (process s h)).
Proof.
  intros Hs N. destruct h as [tid|tid|owner c]; simpl.
  - destruct (get s tid) as [t|] eqn:Eg; simpl; [|split; [apply shrink_refl|split; [assumption|constructor]]].
    destruct (t_st t) eqn:Es; simpl; try (split; [apply shrink_refl|split; [assumption|constructor]]).
    destruct (t_creq t) eqn:Ec; simpl.
    + unfold finish. rewrite Eg. split; [|split; [assumption|constructor]].
      eapply shrink_trans; [apply upd_shrink, good_finish|apply add_ready_shrink].
    + exfalso. pose proof (N _ _ Eg) as L. unfold live in L. rewrite Es, Ec in L. discriminate.
  - destruct (get s tid) as [t|] eqn:Eg; simpl; [|split; [apply shrink_refl|split; [assumption|constructor]]].
    destruct (t_st t) eqn:Es; simpl; try (split; [apply shrink_refl|split; [assumption|constructor]]).
    unfold finish. rewrite Eg. split; [|split; [assumption|constructor]].
    eapply shrink_trans; [apply upd_shrink, good_finish|apply add_ready_shrink].
  - destruct (run_cb_shut s owner c Hs) as [S1 [Sh1 O1]]. split; [assumption|split; [assumption|]].
    apply Forall_forall. intros o Hin. destruct (O1 o Hin) as [old [b ->]]. reflexivity.
Qed.

Lemma process_all_shut hs : forall s, shut s = true -> no_livep s ->
  shrink s (fst (process_all s hs)) /\ shut (fst (process_all s hs)) = true /\ Forall quiet_out (snd (process_all s hs)).
Proof.
  induction hs as [|h r IH]; intros s Hs N; simpl.
  - split; [apply shrink_refl|split; [assumption|constructor]].
  - destruct (process s h) as [s1 o1] eqn:E1. pose proof (process_shut s h Hs N) as H. rewrite E1 in H. simpl in H.
    destruct H as [S1 [Sh1 O1]]. destruct (process_all s1 r) as [s2 o2] eqn:E2.
    pose proof (IH s1 Sh1 (shrink_no_live _ _ S1 N)) as H. rewrite E2 in H. simpl in H. destruct H as [S2 [Sh2 O2]].
    simpl. split; [eapply shrink_trans; eassumption|split; [assumption|apply Forall_app; auto]].
Qed.

Lemma do_cancel_shrink s tid : shrink s (do_cancel s tid) /\ shut (do_cancel s tid) = shut s.
Proof.
  unfold do_cancel. destruct (get s tid) as [t|] eqn:Eg; [|split; [apply shrink_refl|reflexivity]].
  destruct (t_st t) eqn:Es; simpl.
  - split; [apply upd_shrink, good_creq|reflexivity].
  - destruct (t_kind t); simpl.
    + split; [|reflexivity]. eapply shrink_trans; [apply upd_shrink|apply add_ready_shrink].
      apply good_wake_creq. intros t0 H. congruence.
    + unfold finish. rewrite get_upd_task, Nat.eqb_refl, Eg. simpl. split; [|reflexivity].
      eapply shrink_trans; [apply upd_shrink, good_creq|].
      eapply shrink_trans; [apply upd_shrink, good_finish|apply add_ready_shrink].
  - split; [apply upd_shrink, good_creq|reflexivity].
  - split; [apply shrink_refl|reflexivity].
Qed.

Lemma cancel_pending_shrink s n : shrink s (fst (cancel_pending s n)) /\ shut (fst (cancel_pending s n)) = shut s.
Proof.
  unfold cancel_pending. destruct (nlookup n (pending s)) as [tid|]; [|split; [apply shrink_refl|reflexivity]].
  destruct (st_done s tid); simpl; [split; [apply shrink_refl|reflexivity]|].
  destruct (do_cancel_shrink s tid) as [S1 Sh1]. split; [|exact Sh1].
  intros j t H L. apply S1; assumption.
Qed.

(* no operation other than a successful register_task creates a task *)
Lemma len_upd_task s tid f : length (tasks (upd_task s tid f)) = length (tasks s).
Proof. unfold upd_task. simpl. apply length_upd. Qed.
Lemma len_finish s tid : length (tasks (finish s tid)) = length (tasks s).
Proof. unfold finish. destruct (get s tid); [|reflexivity]. simpl. apply length_upd. Qed.
Lemma len_do_cancel s tid : length (tasks (do_cancel s tid)) = length (tasks s).
Proof.
  unfold do_cancel. destruct (get s tid) as [t|]; [|reflexivity].
  destruct (t_st t); simpl; try apply length_upd; try reflexivity.
  destruct (t_kind t); simpl; [apply length_upd|]. rewrite len_finish. apply len_upd_task.
Qed.
Lemma len_cancel_pending s n : length (tasks (fst (cancel_pending s n))) = length (tasks s).
Proof.
  unfold cancel_pending. destruct (nlookup n (pending s)) as [tid|]; [|reflexivity].
  destruct (st_done s tid); simpl; [reflexivity|apply len_do_cancel].
Qed.

Lemma len_process_shut s h : shut s = true -> length (tasks (fst (process s h))) = length (tasks s).
Proof.
  intros Hs. destruct h as [tid|tid|owner c]; simpl.
  - destruct (get s tid) as [t|]; [|reflexivity]. destruct (t_st t); try reflexivity.
    destruct (t_creq t); simpl; [apply len_finish|apply length_upd].
  - destruct (get s tid) as [t|]; [|reflexivity]. destruct (t_st t); try reflexivity. simpl. apply len_finish.
  - destruct c as [n|n]; simpl.
    + destruct owner as [tid|]; [|reflexivity]. destruct (nlookup n (pending s)) as [cur|]; [|reflexivity].
      destruct (Nat.eqb cur tid); reflexivity.
    + rewrite (register_shut s n KCoro Hs). reflexivity.
Qed.

Lemma len_process_all_shut hs : forall s, shut s = true -> no_livep s ->
  length (tasks (fst (process_all s hs))) = length (tasks s).
Proof.
  induction hs as [|h r IH]; intros s Hs N; simpl; [reflexivity|].
  destruct (process s h) as [s1 o1] eqn:E1.
  pose proof (process_shut s h Hs N) as H. rewrite E1 in H. simpl in H. destruct H as [S1 [Sh1 _]].
  pose proof (len_process_shut s h Hs) as L1. rewrite E1 in L1. simpl in L1.
  destruct (process_all s1 r) as [s2 o2] eqn:E2.
  pose proof (IH s1 Sh1 (shrink_no_live _ _ S1 N)) as L2. rewrite E2 in L2. simpl in *. congruence.
Qed.

(* a manager that has been shut down and has no live task stays so under every operation, creates
   no task, starts no task body, and answers every registration with a completed future *)
Lemma tstep_quiet s o : shut s = true -> no_livep s ->
  shut (fst (tstep s o)) = true /\ no_livep (fst (tstep s o))
  /\ length (tasks (fst (tstep s o))) = length (tasks s) /\ Forall quiet_out (snd (tstep s o)).
Proof.
  intros Hs N. destruct o as [n k|b k|n|n| |tid|tid|]; simpl.
  - rewrite (register_shut s n k Hs). simpl. split; [assumption|split; [assumption|split; [reflexivity|]]].
    constructor; [reflexivity|constructor].
  - rewrite register_shut by exact Hs. simpl. split; [assumption|split; [exact N|split; [reflexivity|]]].
    constructor; [reflexivity|constructor].
  - destruct (cancel_pending_shrink s n) as [S1 Sh1].
    split; [congruence|split; [exact (shrink_no_live _ _ S1 N)|split; [apply len_cancel_pending|constructor]]].
  - destruct (cancel_pending s n) as [s1 old] eqn:E.
    destruct (cancel_pending_shrink s n) as [S1 Sh1]. pose proof (len_cancel_pending s n) as L1.
    rewrite E in S1, Sh1, L1. simpl in S1, Sh1, L1.
    destruct old as [tid|]; simpl.
    + destruct (st_done s1 tid); simpl.
      * split; [congruence|split; [exact (shrink_no_live _ _ S1 N)|split; [assumption|constructor]]].
      * split; [congruence|split; [|split; [rewrite length_upd; assumption|constructor]]].
        eapply shrink_no_live; [|exact (shrink_no_live _ _ S1 N)]. apply upd_shrink, good_app_cb.
    + split; [congruence|split; [exact (shrink_no_live _ _ S1 N)|split; [assumption|constructor]]].
  - rewrite Hs. simpl. split; [assumption|split; [assumption|split; [reflexivity|constructor]]].
  - destruct (get s tid) as [t|] eqn:Eg; simpl; [|split; [assumption|split; [assumption|split; [reflexivity|constructor]]]].
    destruct (t_st t) eqn:Es; simpl; try (split; [assumption|split; [assumption|split; [reflexivity|constructor]]]).
    destruct (t_kind t); simpl.
    + split; [assumption|split; [|split; [apply length_upd|constructor]]].
      eapply shrink_no_live; [|exact N]. eapply shrink_trans; [apply upd_shrink|apply add_ready_shrink].
      apply good_wake. intros t0 H. congruence.
    + split; [|split; [|split; [apply len_finish|constructor]]].
      * unfold finish. rewrite Eg. exact Hs.
      * eapply shrink_no_live; [|exact N]. unfold finish. rewrite Eg.
        eapply shrink_trans; [apply upd_shrink, good_finish|apply add_ready_shrink].
  - destruct (do_cancel_shrink s tid) as [S1 Sh1].
    split; [congruence|split; [exact (shrink_no_live _ _ S1 N)|split; [apply len_do_cancel|constructor]]].
  - assert (N0 : no_livep (set_ready s [])) by exact N.
    destruct (process_all_shut (ready s) (set_ready s []) Hs N0) as [S1 [Sh1 O1]].
    split; [assumption|split; [exact (shrink_no_live _ _ S1 N0)|split; [|assumption]]].
    exact (len_process_all_shut (ready s) (set_ready s []) Hs N0).
Qed.

Lemma trun_quiet ops : forall s, shut s = true -> no_livep s ->
  shut (fst (trun s ops)) = true /\ no_livep (fst (trun s ops))
  /\ length (tasks (fst (trun s ops))) = length (tasks s) /\ Forall quiet_out (snd (trun s ops)).
Proof.
  induction ops as [|o r IH]; intros s Hs N; simpl.
  - split; [assumption|split; [assumption|split; [reflexivity|constructor]]].
  - destruct (tstep s o) as [s1 o1] eqn:E1. pose proof (tstep_quiet s o Hs N) as H. rewrite E1 in H. simpl in H.
    destruct H as [Sh1 [N1 [L1 O1]]]. destruct (trun s1 r) as [s2 o2] eqn:E2.
    pose proof (IH s1 Sh1 N1) as H. rewrite E2 in H. simpl in H. destruct H as [Sh2 [N2 [L2 O2]]].
    simpl. split; [assumption|split; [assumption|split; [congruence|apply Forall_app; auto]]].
Qed.

(* the shutdown flag is only ever set by shutdown_task_manager, and never cleared *)
Lemma shut_finish s tid : shut (finish s tid) = shut s.
Proof. unfold finish. destruct (get s tid); reflexivity. Qed.
Lemma shut_register s n k : shut (fst (register s n k)) = shut s.
Proof. unfold register. destruct (shut s) eqn:E; simpl; [exact E|]. destruct (is_active s n); simpl; [exact E|reflexivity]. Qed.
Lemma shut_process s h : shut (fst (process s h)) = shut s.
Proof.
  destruct h as [tid|tid|owner c]; simpl.
  - destruct (get s tid) as [t|]; [|reflexivity]. destruct (t_st t); try reflexivity.
    destruct (t_creq t); simpl; [apply shut_finish|reflexivity].
  - destruct (get s tid) as [t|]; [|reflexivity]. destruct (t_st t); try reflexivity. simpl. apply shut_finish.
  - destruct c as [n|n]; simpl.
    + destruct owner as [tid|]; [|reflexivity]. destruct (nlookup n (pending s)) as [cur|]; [|reflexivity].
      destruct (Nat.eqb cur tid); reflexivity.
    + pose proof (shut_register s n KCoro) as H. destruct (register s n KCoro). exact H.
Qed.
Lemma shut_process_all hs : forall s, shut (fst (process_all s hs)) = shut s.
Proof.
  induction hs as [|h r IH]; intros s; simpl; [reflexivity|].
  pose proof (shut_process s h) as H1. destruct (process s h) as [s1 o1].
  pose proof (IH s1) as H2. destruct (process_all s1 r) as [s2 o2]. simpl in *. congruence.
Qed.
Lemma shut_tstep s o : o <> Shutdown -> shut (fst (tstep s o)) = shut s.
Proof.
  intros Hne. destruct o as [n k|b k|n|n| |tid|tid|]; simpl.
  - pose proof (shut_register s n k) as H. destruct (register s n k). exact H.
  - match goal with |- context [register ?x ?y ?z] =>
      pose proof (shut_register x y z) as H; destruct (register x y z) end. exact H.
  - apply cancel_pending_shrink.
  - pose proof (cancel_pending_shrink s n) as [_ H]. destruct (cancel_pending s n) as [s1 old]. simpl in H.
    destruct old as [tid|]; simpl; [destruct (st_done s1 tid); simpl; exact H|exact H].
  - congruence.
  - destruct (get s tid) as [t|]; [|reflexivity]. destruct (t_st t); try reflexivity.
    destruct (t_kind t); simpl; [reflexivity|apply shut_finish].
  - apply do_cancel_shrink.
  - apply (shut_process_all (ready s) (set_ready s [])).
Qed.

(* in every reachable state: a manager that is shut down has no live task *)
Lemma top_eq_dec_shutdown o : {o = Shutdown} + {o <> Shutdown}.
Proof. destruct o; try (right; discriminate). left. reflexivity. Qed.

Lemma tstep_shut_quiet s o :
  inv s -> (shut s = true -> no_livep s) ->
  shut (fst (tstep s o)) = true -> no_livep (fst (tstep s o)).
Proof.
  intros I Hq Hs'. destruct (shut s) eqn:Hs.
  - apply tstep_quiet; auto.
  - destruct (top_eq_dec_shutdown o) as [->|Hne].
    + apply no_live_iff. apply shutdown_cancels_all_l; assumption.
    + rewrite (shut_tstep s o Hne) in Hs'. congruence.
Qed.

Lemma trun_shut_quiet ops : forall s,
  inv s -> (shut s = true -> no_livep s) ->
  shut (fst (trun s ops)) = true -> no_livep (fst (trun s ops)).
Proof.
  induction ops as [|o r IH]; intros s I Hq; simpl; [exact Hq|].
  destruct (tstep s o) as [s1 o1] eqn:E1. pose proof (tstep_props s o I) as [I1 _]. rewrite E1 in I1. simpl in I1.
  pose proof (tstep_shut_quiet s o I Hq) as Hq1. rewrite E1 in Hq1. simpl in Hq1.
  pose proof (IH s1 I1 Hq1) as H. destruct (trun s1 r) as [s2 o2]. exact H.
Qed.

Lemma reachable_shut_quiet s : reachable s -> shut s = true -> no_livep s.
Proof.
  intros [ops ->]. apply trun_shut_quiet; [apply inv_init|]. simpl. discriminate.
Qed.

(* after shutdown_task_manager, whatever happens next: every register_* returns a completed future,
   no task is created, no task body starts, and no task is live *)
Lemma shutdown_refuses_l : forall s ops,
  reachable s ->
  let s1 := fst (tstep s Shutdown) in
  shut s1 = true /\ no_live s1 = true
  /\ Forall quiet_out (snd (trun s1 ops))
  /\ length (tasks (fst (trun s1 ops))) = length (tasks s1)
  /\ shut (fst (trun s1 ops)) = true
  /\ no_live (fst (trun s1 ops)) = true.
Proof.
  intros s ops R. cbv zeta. pose proof (reachable_inv s R) as I.
  assert (H1 : shut (fst (tstep s Shutdown)) = true /\ no_livep (fst (tstep s Shutdown))).
  { destruct (shut s) eqn:Hs.
    - simpl. rewrite Hs. simpl. split; [assumption|]. apply reachable_shut_quiet; assumption.
    - destruct (shutdown_cancels_all_l s I Hs) as [A B]. split; [exact A|]. apply no_live_iff. exact B. }
  destruct H1 as [Sh1 N1]. destruct (trun_quiet ops _ Sh1 N1) as [Sh2 [N2 [L2 O2]]].
  split; [assumption|split; [apply no_live_iff; assumption|split; [assumption|split; [assumption|split; [assumption|]]]]].
  apply no_live_iff. assumption.
Qed.
