(* Refinement: the request-cache operations interpreted from the translated source (model/M10_reqcache_gen.v over
   gen/G10_reqcache.v) compute exactly what the hand model model/M10_reqcache.v computes. *)
From Coq Require Import ZArith List Bool Arith Lia.
From IPV8V Require Import lib.PyErr model.M10_reqcache spec.S10_reqcache proofs.P10_reqcache
  model.M10_lang gen.G10_reqcache model.M10_reqcache_gen.
Import ListNotations.
Open Scope Z_scope.

Lemma st_ext (a b : st) :
  table a = table b -> tasks a = tasks b -> futs a = futs b -> now a = now b -> shut a = shut b ->
  ovr a = ovr b -> filt a = filt b -> a = b.
Proof. destruct a, b; simpl; intros; subst; reflexivity. Qed.

Lemma st_eta (s : st) : mkSt (table s) (tasks s) (futs s) (now s) (shut s) (ovr s) (filt s) = s.
Proof. destruct s; reflexivity. Qed.

(* ------------------------------------------------------------------ lists of futures updated one position at a time *)
Fixpoint upd_range (g : nat -> fstate -> fstate) (lo n : nat) (fl : list fstate) : list fstate :=
  match n with O => fl | S m => upd_range g (S lo) m (upd fl lo (g lo)) end.
Fixpoint mapi_from (g : nat -> fstate -> fstate) (lo : nat) (fl : list fstate) : list fstate :=
  match fl with [] => [] | f :: r => g lo f :: mapi_from g (S lo) r end.

Lemma upd_app_at {A} (pre : list A) x r h : upd (pre ++ x :: r) (length pre) h = pre ++ h x :: r.
Proof. induction pre as [|y pre IH]; simpl; [reflexivity | rewrite IH; reflexivity]. Qed.

Lemma upd_range_mapi g : forall fl pre,
  upd_range g (length pre) (length fl) (pre ++ fl) = pre ++ mapi_from g (length pre) fl.
Proof.
  induction fl as [|f r IH]; intros pre; simpl; [reflexivity|].
  rewrite upd_app_at.
  replace (pre ++ g (length pre) f :: r) with ((pre ++ [g (length pre) f]) ++ r) by (rewrite <- app_assoc; reflexivity).
  replace (S (length pre)) with (length (pre ++ [g (length pre) f])) by (rewrite app_length; simpl; lia).
  rewrite IH. rewrite <- app_assoc. reflexivity.
Qed.

Lemma upd_range_all g fl : upd_range g 0 (length fl) fl = mapi_from g 0 fl.
Proof. exact (upd_range_mapi g fl []). Qed.

Lemma mapi_const h : forall fl lo, mapi_from (fun _ => h) lo fl = map h fl.
Proof. induction fl as [|f r IH]; intros lo; simpl; [reflexivity | rewrite IH; reflexivity]. Qed.

Lemma mapi_timeout : forall sps fl pre,
  length fl = length sps ->
  mapi_from (fun k => timeout_fut (nth k (pre ++ sps) SNone)) (length pre) fl = timeout_futl sps fl.
Proof.
  induction sps as [|sp sps IH]; intros [|f fl] pre H; simpl in *; try discriminate; try reflexivity.
  rewrite app_nth2 by lia. rewrite Nat.sub_diag. simpl. f_equal.
  replace (pre ++ sp :: sps) with ((pre ++ [sp]) ++ sps) by (rewrite <- app_assoc; reflexivity).
  replace (S (length pre)) with (length (pre ++ [sp])) by (rewrite app_length; simpl; lia).
  apply IH. lia.
Qed.

Lemma upd_upd {A} (l : list A) i F G : upd (upd l i F) i G = upd l i (fun x => G (F x)).
Proof. revert i; induction l as [|x l IH]; intros [|i]; simpl; try reflexivity. rewrite IH. reflexivity. Qed.

Lemma upd_ext_at {A} (l : list A) i F G d : F (nth i l d) = G (nth i l d) -> upd l i F = upd l i G.
Proof.
  revert i; induction l as [|x l IH]; intros [|i] H; simpl in *; try reflexivity.
  - rewrite H. reflexivity.
  - rewrite (IH i H). reflexivity.
Qed.

Lemma upd_same {A} (l : list A) i F d : F (nth i l d) = nth i l d -> upd l i F = l.
Proof.
  revert i; induction l as [|x l IH]; intros [|i] H; simpl in *; try reflexivity.
  - rewrite H. reflexivity.
  - rewrite (IH i H). reflexivity.
Qed.

Lemma nth_upd_same {A} (l : list A) i F d : (i < length l)%nat -> nth i (upd l i F) d = F (nth i l d).
Proof. intros H. rewrite nth_upd, Nat.eqb_refl. apply Nat.ltb_lt in H. rewrite H. reflexivity. Qed.

Lemma futs_len_upd (fs : list (list fstate)) c k h :
  length (nth c (upd fs c (fun fl => upd fl k h)) []) = length (nth c fs []).
Proof.
  rewrite nth_upd, Nat.eqb_refl. destruct (c <? length fs)%nat; [apply length_upd | reflexivity].
Qed.

Section Refine.
Variable cfg : list cache.

Lemma gpop_refines s p n : gstep_b cfg s (BPop p n) = step_b cfg s (BPop p n).
Proof.
  unfold gstep_b, gcall, call. cbn.
  destruct (tbl_get (table s) (p, n)) eqn:E; cbn; reflexivity.
Qed.

Lemma gretr_refines s p n : gstep_b cfg s (BRetr p n) = step_b cfg s (BRetr p n).
Proof.
  unfold gstep_b, gcall, call. cbn.
  destruct (tbl_get (table s) (p, n)) eqn:E; cbn; reflexivity.
Qed.

Lemma ghas_refines s p n : gstep_b cfg s (BHas p n) = step_b cfg s (BHas p n).
Proof.
  unfold gstep_b, gcall, call. cbn.
  destruct (tbl_get (table s) (p, n)) eqn:E; cbn; reflexivity.
Qed.

Lemma gget_refines s p n : gstep_b cfg s (BGet p n) = step_b cfg s (BGet p n).
Proof.
  unfold gstep_b, gcall, call. cbn.
  destruct (tbl_get (table s) (p, n)) eqn:E; cbn; reflexivity.
Qed.

(* the delegation branch: a cache class as prefix is replaced by its `name` and the function runs again *)
Lemma gpop_by_class s tag p n :
  gcall cfg no_cb 2 g_pop s [VClass tag p; VInt n] [] = 
  (let '(x, o) := gcall cfg no_cb 2 g_pop s [VStr p; VInt n] [] in
   (mkXs (x_st x) (x_env x) (x_obs x) (x_draws x), o)).
Proof.
  unfold gcall, call. cbn.
  destruct (tbl_get (table s) (p, n)) eqn:E; cbn; reflexivity.
Qed.

Lemma ghas_by_class s tag p n :
  snd (gcall cfg no_cb 2 g_has s [VClass tag p; VInt n] []) = snd (gcall cfg no_cb 2 g_has s [VStr p; VInt n] []).
Proof. unfold gcall, call. cbn. reflexivity. Qed.

Lemma gget_by_class s tag p n :
  snd (gcall cfg no_cb 2 g_get s [VClass tag p; VInt n] []) = snd (gcall cfg no_cb 2 g_get s [VStr p; VInt n] []).
Proof. unfold gcall, call. cbn. reflexivity. Qed.

Lemma ghas_val_spec s p n :
  ghas_val cfg s (VStr p) (VInt n) = Ok (match tbl_get (table s) (p, n) with Some _ => true | None => false end).
Proof. unfold ghas_val, call. cbn. reflexivity. Qed.

Lemma gnew_refines s p n : gstep_b cfg s (BNew p n) = step_b cfg s (BNew p n).
Proof.
  unfold gstep_b, gcall, call. cbn.
  destruct (tbl_get (table s) (p, n)) eqn:E; cbn; reflexivity.
Qed.

Lemma gclear_refines s : gstep_b cfg s BClear = step_b cfg s BClear.
Proof. unfold gstep_b, gcall, call. cbn. reflexivity. Qed.

Lemma gpexit_refines s : gstep_b cfg s BPassExit = step_b cfg s BPassExit.
Proof. unfold gstep_b, gcall, call. cbn. reflexivity. Qed.

Lemma tags_of_classes r : tags_of (map (fun t => VClass t 0) r) = r.
Proof. induction r as [|t r IH]; simpl; [reflexivity | rewrite IH; reflexivity]. Qed.

Lemma gpenter_refines s t f : bop_ok (BPassEnter t f) = true -> gstep_b cfg s (BPassEnter t f) = step_b cfg s (BPassEnter t f).
Proof.
  intros Hok. unfold gstep_b, gcall, call. destruct f as [[|h r]|]; [discriminate| |]; cbn.
  - rewrite tags_of_classes. reflexivity.
  - reflexivity.
Qed.

(* ------------------------------------------------------------------ loops *)
Definition same_but_futs (x1 x : xs) (fs : list (list fstate)) : Prop :=
  x_obs x1 = x_obs x /\ x_draws x1 = x_draws x /\ x_st x1 = set_futs (x_st x) fs.

Lemma loop_futures_pointwise (run : xs -> xs * outcome) c fi oi (g : nat -> fstate -> fstate) (spf : nat -> fspec) :
  (forall k x, (k < length (nth c (futs (x_st x)) []))%nat ->
     let r := run (set_local_opt (set_local_opt x fi (VFut c k)) oi (VSpec (spf k))) in
     snd r = ONormal /\ same_but_futs (fst r) x (upd (futs (x_st x)) c (fun fl => upd fl k (g k)))) ->
  forall n lo x, (lo + n <= length (nth c (futs (x_st x)) []))%nat ->
     let r := loop_items (fun it x => set_local_opt (set_local_opt x fi (VFut c (fst it))) oi (VSpec (snd it)))
                         run (map (fun k => (k, spf k)) (seq lo n)) x in
     snd r = ONormal /\ same_but_futs (fst r) x (upd (futs (x_st x)) c (upd_range g lo n)).
Proof.
  intros H. induction n as [|n IH]; intros lo x Hlen; simpl.
  - split; [reflexivity|]. repeat split. unfold set_futs. simpl.
    rewrite (upd_same (futs (x_st x)) c (fun fl => fl) []) by reflexivity. destruct (x_st x); reflexivity.
  - specialize (H lo x). simpl in H.
    destruct (run (set_local_opt (set_local_opt x fi (VFut c lo)) oi (VSpec (spf lo)))) as [x1 o1] eqn:E1.
    destruct H as [Ho [Hobs [Hdr Hst]]]; [lia|]. simpl in Ho, Hobs, Hdr, Hst. subst o1.
    assert (Hlen1 : (S lo + n <= length (nth c (futs (x_st x1)) []))%nat).
    { rewrite Hst. simpl. rewrite futs_len_upd. lia. }
    specialize (IH (S lo) x1 Hlen1). simpl in IH.
    destruct (loop_items _ run (map (fun k => (k, spf k)) (seq (S lo) n)) x1) as [x2 o2] eqn:E2.
    destruct IH as [Ho2 [Hobs2 [Hdr2 Hst2]]]. simpl in *.
    split; [exact Ho2|]. repeat split; try congruence.
    rewrite Hst2, Hst. simpl. rewrite upd_upd. reflexivity.
Qed.

Lemma loop_caches_pointwise (run : xs -> xs * outcome) ci :
  (forall c x,
     let r := run (set_local x ci (VCache c)) in
     snd r = ONormal /\ same_but_futs (fst r) x (cancel_futs (futs (x_st x)) c)) ->
  forall cs x,
     let r := loop_items (fun c x => set_local x ci (VCache c)) run cs x in
     snd r = ONormal /\ same_but_futs (fst r) x (fold_left cancel_futs cs (futs (x_st x))).
Proof.
  intros H. induction cs as [|c cs IH]; intros x; simpl.
  - split; [reflexivity|]. repeat split. unfold set_futs. destruct (x_st x); reflexivity.
  - specialize (H c x). simpl in H.
    destruct (run (set_local x ci (VCache c))) as [x1 o1] eqn:E1.
    destruct H as [Ho [Hobs [Hdr Hst]]]. simpl in *. subst o1.
    specialize (IH x1). simpl in IH.
    destruct (loop_items _ run cs x1) as [x2 o2] eqn:E2.
    destruct IH as [Ho2 [Hobs2 [Hdr2 Hst2]]]. simpl in *.
    split; [exact Ho2|]. repeat split; try congruence.
    rewrite Hst2, Hst. reflexivity.
Qed.

Lemma fut_get_some s c k : (k < length (nth c (futs s) []))%nat -> exists f, fut_get s c k = Some f /\ nth k (nth c (futs s) []) FPending = f.
Proof.
  intros H. unfold fut_get. destruct (nth_error (nth c (futs s) []) k) eqn:E.
  - exists f. split; [reflexivity|]. apply nth_error_nth. exact E.
  - apply nth_error_None in E. lia.
Qed.

(* `for f, _ in cache.managed_futures: f.cancel()` cancels every pending future of the cache *)
Lemma cancel_loop_body cb hc c fi oi spf k x :
  fi <> oi ->
  (k < length (nth c (futs (x_st x)) []))%nat ->
  let r := exec cfg cb hc (SFutCancel (XLocal fi)) (set_local_opt (set_local_opt x (Some fi) (VFut c k)) (Some oi) (VSpec (spf k))) in
  snd r = ONormal /\ same_but_futs (fst r) x (upd (futs (x_st x)) c (fun fl => upd fl k cancel_fut)).
Proof.
  intros Hne Hk. cbn. unfold env_set, env_get. 
  destruct (Nat.eqb fi oi) eqn:E; [apply Nat.eqb_eq in E; contradiction|].
  rewrite Nat.eqb_refl. cbn.
  destruct (fut_get_some (x_st x) c k Hk) as [f [Hf _]]. rewrite Hf. cbn.
  split; [reflexivity|]. repeat split.
Qed.

Lemma cancel_loop cb hc c ci fi oi x :
  fi <> oi ->
  let r := exec cfg cb hc (SForFutures (XLocal ci) (Some fi) (Some oi) (SFutCancel (XLocal fi))) x in
  x_env x ci = VCache c ->
  snd r = ONormal /\ same_but_futs (fst r) x (cancel_futs (futs (x_st x)) c).
Proof.
  intros Hne r Henv. unfold r.
  assert (E : exec cfg cb hc (SForFutures (XLocal ci) (Some fi) (Some oi) (SFutCancel (XLocal fi))) x
              = loop_items (fun it x => set_local_opt (set_local_opt x (Some fi) (VFut c (fst it))) (Some oi) (VSpec (snd it)))
                           (exec cfg cb hc (SFutCancel (XLocal fi))) (managed cfg (x_st x) c) x).
  { cbn [exec]. unfold ev. cbn [eval]. unfold env_get. rewrite Henv. reflexivity. }
  rewrite E. unfold managed.
  pose proof (loop_futures_pointwise (exec cfg cb hc (SFutCancel (XLocal fi))) c (Some fi) (Some oi)
                (fun _ => cancel_fut) (fun k => nth k (c_futs (getc cfg c)) SNone)) as L.
  specialize (L (fun k x Hk => cancel_loop_body cb hc c fi oi _ k x Hne Hk)).
  specialize (L (length (nth c (futs (x_st x)) [])) 0%nat x (Nat.le_refl _)). cbv zeta in L.
  destruct L as [Ho [Hobs [Hdr Hst]]]. split; [exact Ho|]. repeat split; try assumption.
  rewrite Hst. f_equal. unfold cancel_futs.
  apply (upd_ext_at _ _ _ _ []). rewrite upd_range_all, mapi_const. reflexivity.
Qed.

Lemma ltb_leb d : (0 <? d) = negb (d <=? 0).
Proof. destruct (d <=? 0) eqn:E; simpl; [apply Z.ltb_ge; apply Z.leb_le in E; lia | apply Z.ltb_lt; apply Z.leb_gt in E; lia]. Qed.

(* symbolic execution: split on a stuck scrutinee that contains no other match *)
Ltac split_stuck :=
  match goal with
  | |- context [match ?e with _ => _ end] =>
      lazymatch e with
      | context [match _ with _ => _ end] => fail
      | _ => destruct e eqn:?
      end
  end.

Lemma gadd_refines s c : gstep_b cfg s (BAdd c) = step_b cfg s (BAdd c).
Proof.
  unfold gstep_b, gcall, call, g_add.
  match goal with |- context [SForFutures ?a ?b ?c ?d] => remember (SForFutures a b c d) as LOOP eqn:HL end.
  cbn -[Z.ltb Z.leb]. rewrite ltb_leb.
  destruct (c_delay (getc cfg c) <=? 0) eqn:Ed; cbn -[Z.ltb Z.leb]; [reflexivity|].
  destruct (shut s) eqn:Hs; cbn -[Z.ltb Z.leb].
  - subst LOOP.
    match goal with |- context [exec cfg ?cb ?hc (SForFutures (XLocal ?ci) (Some ?fi) (Some ?oi) (SFutCancel (XLocal ?fi))) ?x] =>
      pose proof (cancel_loop cb hc c ci fi oi x ltac:(discriminate) eq_refl) as [Ho [_ [_ Hst]]] end.
    destruct (exec cfg no_cb (ghas_val cfg) _ _) as [x0 o0]. simpl in Ho, Hst. subst o0. cbn.
    rewrite Hst. reflexivity.
  - unfold env_get, env_set, env_of_list. cbn -[Z.ltb Z.leb]. unfold ckey.
    destruct (tbl_get (table s) (c_prefix (getc cfg c), c_number (getc cfg c))) eqn:Hg; cbn -[Z.ltb Z.leb].
    + rewrite ?Hs. reflexivity.
    + rewrite ?Hg. unfold eff_delay.
      destruct (ovr s) as [t|] eqn:Ho; [destruct (filt s) as [f|] eqn:Hf; [destruct (filter_match f (c_classes (getc cfg c))) eqn:Hm|]|];
        cbn -[Z.ltb Z.leb]; rewrite ?Hf, ?Hm; cbn -[Z.ltb Z.leb]; rewrite ?Nat.eqb_refl, ?Hs; cbn -[Z.ltb Z.leb];
        destruct (tk_get (tasks s) c) eqn:Hk; cbn -[Z.ltb Z.leb]; rewrite ?Nat.eqb_refl; reflexivity.
Qed.

(* ------------------------------------------------------------------ find_unclaimed_identifier *)
Definition find_body : stmt :=
  SSeq (SDrawNumber 3%nat) (SIf (XNot (XHas (XLocal 1%nat) (XLocal 3%nat))) SBreak SSkip).
Definition find_else : stmt := SSeq (SAssign 4%nat XOpaque) (SRaise RuntimeError).

Definition claimed (s : st) (p d : Z) : bool := match tbl_get (table s) (p, d) with Some _ => true | None => false end.

Lemma find_body_step s p e o d r :
  e 1%nat = VStr p ->
  exec cfg no_cb (ghas_val cfg) find_body (mkXs s e o (d :: r)) =
  (mkXs s (env_set e 3%nat (VInt d)) o (match r with [] => [d] | _ => r end),
   if claimed s p d then ONormal else OBreak).
Proof.
  intros He. unfold find_body, claimed. cbn. destruct r as [|d2 r]; cbn; unfold env_get, env_set; cbn; rewrite He; cbn;
    destruct (tbl_get (table s) (p, d)); reflexivity.
Qed.

Lemma find_all_claimed s p : forall fuel ds e o,
  e 1%nat = VStr p -> ds <> [] -> forallb (claimed s p) ds = true ->
  exists x', loop_fuel (exec cfg no_cb (ghas_val cfg) find_body) (exec cfg no_cb (ghas_val cfg) find_else) fuel (mkXs s e o ds)
             = (x', ORaise RuntimeError) /\ x_st x' = s.
Proof.
  induction fuel as [|fuel IH]; intros ds e o He Hne Hall.
  - cbn. eexists; split; reflexivity.
  - destruct ds as [|d r]; [congruence|]. simpl in Hall. apply andb_true_iff in Hall as [Hd Hr].
    cbn [loop_fuel]. rewrite (find_body_step s p e o d r He). rewrite Hd.
    apply IH.
    + unfold env_set. cbn. exact He.
    + destruct r; discriminate.
    + destruct r; [simpl; rewrite Hd; reflexivity | exact Hr].
Qed.

Lemma find_loop s p : forall fuel ds e o,
  e 1%nat = VStr p -> ds <> [] -> (length ds <= fuel)%nat ->
  exists x', x_st x' = s /\
    match first_unclaimed (table s) p ds with
    | Ok n => loop_fuel (exec cfg no_cb (ghas_val cfg) find_body) (exec cfg no_cb (ghas_val cfg) find_else) fuel (mkXs s e o ds)
              = (x', ONormal) /\ x_env x' 3%nat = VInt n
    | Raise z => loop_fuel (exec cfg no_cb (ghas_val cfg) find_body) (exec cfg no_cb (ghas_val cfg) find_else) fuel (mkXs s e o ds)
              = (x', ORaise RuntimeError) /\ z = RuntimeError
    end.
Proof.
  induction fuel as [|fuel IH]; intros ds e o He Hne Hlen.
  - destruct ds; [congruence | simpl in Hlen; lia].
  - destruct ds as [|d r]; [congruence|]. cbn [loop_fuel]. rewrite (find_body_step s p e o d r He).
    simpl first_unclaimed. unfold claimed. destruct (tbl_get (table s) (p, d)) eqn:Hd.
    + destruct r as [|d2 r].
      * simpl first_unclaimed.
        destruct (find_all_claimed s p fuel [d] (env_set e 3%nat (VInt d)) o) as [x' [E Hs']].
        { unfold env_set. cbn. exact He. } { discriminate. } { simpl. unfold claimed. rewrite Hd. reflexivity. }
        exists x'. split; [exact Hs'|]. split; [exact E | reflexivity].
      * apply IH; [unfold env_set; cbn; exact He | discriminate | simpl in *; lia].
    + eexists. split; [|split; [reflexivity|]]; reflexivity.
Qed.

Lemma exec_SSeq cb hc a b x :
  exec cfg cb hc (SSeq a b) x = match exec cfg cb hc a x with (x1, ONormal) => exec cfg cb hc b x1 | r => r end.
Proof. reflexivity. Qed.
Lemma exec_ForRange cb hc n body els x :
  exec cfg cb hc (SForRangeElse n body els) x = loop_fuel (exec cfg cb hc body) (exec cfg cb hc els) (Z.to_nat n) x.
Proof. reflexivity. Qed.

Lemma gfind_refines s p draws : bop_ok (BFind p draws) = true -> gstep_b cfg s (BFind p draws) = step_b cfg s (BFind p draws).
Proof.
  intros Hok. simpl in Hok. destruct draws as [|d0 r0] eqn:Ed; [discriminate|]. rewrite <- Ed in *.
  assert (Hne : draws <> []) by (subst; discriminate).
  apply Nat.leb_le in Hok.
  unfold gstep_b, gcall, call, g_find_unclaimed.
  change (SSeq (SDrawNumber 3%nat) (SIf (XNot (XHas (XLocal 1%nat) (XLocal 3%nat))) SBreak SSkip)) with find_body.
  change (SSeq (SAssign 4%nat XOpaque) (SRaise RuntimeError)) with find_else.
  rewrite exec_SSeq, exec_ForRange.
  destruct (find_loop s p (Z.to_nat 1000) draws (env_of_list [VNone; VStr p]) [] eq_refl Hne) as [x' [Hs' H]].
  { change (Z.to_nat 1000) with 1000%nat. exact Hok. }
  simpl step_b.
  destruct (first_unclaimed (table s) p draws) as [n|z]; destruct H as [E H2]; rewrite E.
  - cbn. unfold env_get. rewrite H2, Hs'. reflexivity.
  - subst z. rewrite Hs'. reflexivity.
Qed.

(* ------------------------------------------------------------------ all synchronous operations *)
Lemma gstep_b_refines s b : bop_ok b = true -> gstep_b cfg s b = step_b cfg s b.
Proof.
  intros Hok. destruct b.
  - apply gadd_refines.
  - apply gpop_refines.
  - apply gretr_refines.
  - apply ghas_refines.
  - apply gget_refines.
  - apply gnew_refines.
  - apply gfind_refines; exact Hok.
  - apply gclear_refines.
  - reflexivity.
  - apply gpenter_refines; exact Hok.
  - apply gpexit_refines.
Qed.

Lemma grun_b_refines : forall bs s, forallb bop_ok bs = true -> grun_b cfg s bs = run_b cfg s bs.
Proof.
  induction bs as [|b bs IH]; intros s Hok; simpl; [reflexivity|].
  simpl in Hok. apply andb_true_iff in Hok as [H1 H2].
  rewrite (gstep_b_refines s b H1). destruct (step_b cfg s b) as [s1 o1]. rewrite (IH s1 H2). reflexivity.
Qed.

Lemma cfg_ok_script c : cfg_ok cfg = true -> forallb bop_ok (c_script (getc cfg c)) = true.
Proof.
  unfold cfg_ok, getc. intros H. rewrite forallb_forall in H.
  destruct (Nat.ltb c (length cfg)) eqn:E.
  - apply Nat.ltb_lt in E. apply H. apply nth_In. exact E.
  - apply Nat.ltb_ge in E. rewrite nth_overflow by exact E. reflexivity.
Qed.

(* ------------------------------------------------------------------ _on_timeout *)
Definition futs_shape (s : st) : Prop := forall c, length (nth c (futs s) []) = length (c_futs (getc cfg c)).

Lemma shape_upd s c f : futs_shape s -> (forall l, length (f l) = length l) -> futs_shape (set_futs s (upd (futs s) c f)).
Proof.
  intros H Hf x. simpl. rewrite nth_upd. destruct (Nat.eqb c x) eqn:E; [|apply H].
  apply Nat.eqb_eq in E; subst x. destruct (c <? length (futs s))%nat; [rewrite Hf|]; apply H.
Qed.

Lemma step_b_shape s b : futs_shape s -> futs_shape (fst (step_b cfg s b)).
Proof.
  intros H. destruct b; simpl; try exact H.
  - destruct (c_delay (getc cfg c) <=? 0); [exact H|]. destruct (shut s); simpl.
    + apply shape_upd; [exact H | intros l; apply map_length].
    + destruct (tbl_get (table s) (ckey cfg c)); [exact H|]. destruct (tk_get (tasks s) c); exact H.
  - destruct (tbl_get (table s) (p, n)); exact H.
  - destruct (tbl_get (table s) (p, n)); exact H.
  - apply shape_upd; [exact H | intros l; apply length_upd].
Qed.

Lemma run_b_shape : forall bs s, futs_shape s -> futs_shape (fst (run_b cfg s bs)).
Proof.
  induction bs as [|b bs IH]; intros s H; simpl; [exact H|].
  pose proof (step_b_shape s b H) as H1. destruct (step_b cfg s b) as [s1 o1]. simpl in H1.
  specialize (IH s1 H1). destruct (run_b cfg s1 bs) as [s2 o2]. exact IH.
Qed.

Definition timeout_body (fi oi : nat) : stmt :=
  SIf (XNot (XFutDone (XLocal fi)))
      (SIf (XIsInst (XLocal oi) TyException)
           (SFutSetException (XLocal fi) (XLocal oi))
           (SFutSetResult (XLocal fi) (XLocal oi)))
      SSkip.

Lemma set_futs_id s : set_futs s (futs s) = s.
Proof. destruct s; reflexivity. Qed.

Lemma timeout_loop_body cb hc c fi oi spf k x :
  fi <> oi ->
  (k < length (nth c (futs (x_st x)) []))%nat ->
  let r := exec cfg cb hc (timeout_body fi oi) (set_local_opt (set_local_opt x (Some fi) (VFut c k)) (Some oi) (VSpec (spf k))) in
  snd r = ONormal /\ same_but_futs (fst r) x (upd (futs (x_st x)) c (fun fl => upd fl k (timeout_fut (spf k)))).
Proof.
  intros Hne Hk. destruct (fut_get_some (x_st x) c k Hk) as [f [Hf Hn]].
  assert (E1 : Nat.eqb fi oi = false) by (apply Nat.eqb_neq; exact Hne).
  unfold timeout_body. cbn. unfold env_get, env_set. cbn. rewrite ?E1, ?Nat.eqb_refl. cbn. rewrite Hf.
  assert (Hid : forall F, F f = f -> upd (futs (x_st x)) c (fun fl => upd fl k F) = futs (x_st x)).
  { intros F HF. apply (upd_same _ _ _ []). apply (upd_same _ _ _ FPending). rewrite Hn. exact HF. }
  assert (Hext : forall F G, F f = G f ->
            upd (futs (x_st x)) c (fun fl => upd fl k F) = upd (futs (x_st x)) c (fun fl => upd fl k G)).
  { intros F G HFG. apply (upd_ext_at _ _ _ _ []). apply (upd_ext_at _ _ _ _ FPending). rewrite Hn. exact HFG. }
  destruct f; cbn.
  - destruct (spf k) eqn:Esp; cbn; rewrite ?E1, ?Nat.eqb_refl; cbn; rewrite ?Hf; cbn; (split; [reflexivity|]); repeat split; unfold fut_upd; cbn; f_equal;
      apply Hext; reflexivity.
  - split; [reflexivity|]. repeat split. rewrite Hid by reflexivity. symmetry. apply set_futs_id.
  - split; [reflexivity|]. repeat split. rewrite Hid by reflexivity. symmetry. apply set_futs_id.
  - split; [reflexivity|]. repeat split. rewrite Hid by reflexivity. symmetry. apply set_futs_id.
  - split; [reflexivity|]. repeat split. rewrite Hid by reflexivity. symmetry. apply set_futs_id.
  - split; [reflexivity|]. repeat split. rewrite Hid by reflexivity. symmetry. apply set_futs_id.
Qed.

Lemma timeout_loop cb hc c ci fi oi x :
  fi <> oi ->
  x_env x ci = VCache c -> futs_shape (x_st x) ->
  let r := exec cfg cb hc (SForFutures (XLocal ci) (Some fi) (Some oi) (timeout_body fi oi)) x in
  snd r = ONormal /\ same_but_futs (fst r) x (upd (futs (x_st x)) c (timeout_futl (c_futs (getc cfg c)))).
Proof.
  intros Hne Henv Hsh r. unfold r.
  assert (E : exec cfg cb hc (SForFutures (XLocal ci) (Some fi) (Some oi) (timeout_body fi oi)) x
              = loop_items (fun it x => set_local_opt (set_local_opt x (Some fi) (VFut c (fst it))) (Some oi) (VSpec (snd it)))
                           (exec cfg cb hc (timeout_body fi oi)) (managed cfg (x_st x) c) x).
  { cbn [exec]. unfold ev. cbn [eval]. unfold env_get. rewrite Henv. reflexivity. }
  rewrite E. unfold managed.
  pose proof (loop_futures_pointwise (exec cfg cb hc (timeout_body fi oi)) c (Some fi) (Some oi)
                (fun k => timeout_fut (nth k (c_futs (getc cfg c)) SNone)) (fun k => nth k (c_futs (getc cfg c)) SNone)) as L.
  specialize (L (fun k x Hk => timeout_loop_body cb hc c fi oi _ k x Hne Hk)).
  specialize (L (length (nth c (futs (x_st x)) [])) 0%nat x (Nat.le_refl _)). cbv zeta in L.
  destruct L as [Ho [Hobs [Hdr Hst]]]. split; [exact Ho|]. repeat split; try assumption.
  rewrite Hst. f_equal.
  apply (upd_ext_at _ _ _ _ []). rewrite upd_range_all.
  apply (mapi_timeout (c_futs (getc cfg c)) (nth c (futs (x_st x)) []) []). apply Hsh.
Qed.

Lemma tbl_del_absent t k : tbl_get t k = None -> tbl_del t k = t.
Proof.
  unfold tbl_del. induction t as [|[k0 c0] t IH]; simpl; [reflexivity|].
  destruct (key_eqb k0 k); [discriminate|]. intros H. simpl. rewrite (IH H). reflexivity.
Qed.

Lemma gfire_refines s c : cfg_ok cfg = true -> futs_shape s -> gfire cfg s c = fire cfg s c.
Proof.
  intros Hok Hsh. unfold gfire, fire. destruct (tk_get (tasks s) c) as [[| | |]|] eqn:Hk; try reflexivity.
  unfold gcall, call, g_on_timeout.
  match goal with |- context [SForFutures ?a ?b ?c ?d] => remember (SForFutures a b c d) as LOOP eqn:HL end.
  set (s1 := set_tasks (set_table s (tbl_del (table s) (ckey cfg c))) (tk_del (tasks s) c)).
  assert (Es : tbl_get (table s) (ckey cfg c) = None -> set_tasks s (tk_del (tasks s) c) = s1).
  { intros Hg. unfold s1. rewrite (tbl_del_absent _ _ Hg). destruct s; reflexivity. }
  cbn -[tk_del tbl_del]. unfold env_get, env_set, env_of_list. cbn -[tk_del tbl_del]. fold (ckey cfg c).
  destruct (tbl_get (table s) (ckey cfg c)) eqn:Hg; cbn -[tk_del tbl_del]; unfold env_get, env_set; cbn -[tk_del tbl_del];
    rewrite ?Hg; cbn -[tk_del tbl_del]; fold (ckey cfg c);
    (match goal with |- context [grun_b cfg ?S (c_script (getc cfg c))] =>
       replace S with s1 by (unfold s1, set_tasks, set_table; cbn -[tk_del tbl_del];
                             rewrite ?(tbl_del_absent _ _ Hg); destruct s; reflexivity) end);
    rewrite (grun_b_refines _ s1 (cfg_ok_script c Hok));
    destruct (run_b cfg s1 (c_script (getc cfg c))) as [s2 o2] eqn:E2; cbn -[tk_del tbl_del]; subst LOOP;
    (match goal with |- context [exec cfg ?cb ?hc (SForFutures (XLocal ?ci) (Some ?fi) (Some ?oi) ?body) ?x] =>
       change body with (timeout_body fi oi);
       pose proof (timeout_loop cb hc c ci fi oi x ltac:(discriminate) eq_refl) as L end);
    cbv zeta in L; destruct L as [Ho [Hobs [_ Hst]]];
    try (pose proof (run_b_shape (c_script (getc cfg c)) s1) as H2; rewrite E2 in H2; apply H2; exact Hsh);
    destruct (exec cfg _ (ghas_val cfg) _ _) as [x3 o3]; simpl in Ho, Hobs, Hst; subst o3;
    rewrite Hst, Hobs; reflexivity.
Qed.

(* ------------------------------------------------------------------ shutdown, steps, runs *)
Lemma exec_ForCaches cb hc ci body x :
  exec cfg cb hc (SForCaches ci body) x
  = loop_items (fun c x => set_local x ci (VCache c)) (exec cfg cb hc body) (map snd (table (x_st x))) x.
Proof. reflexivity. Qed.

Lemma shutdown_loop cb hc ci fi oi x :
  fi <> oi -> fi <> ci -> oi <> ci ->
  let r := exec cfg cb hc (SForCaches ci (SForFutures (XLocal ci) (Some fi) (Some oi) (SFutCancel (XLocal fi)))) x in
  snd r = ONormal /\ same_but_futs (fst r) x (fold_left cancel_futs (map snd (table (x_st x))) (futs (x_st x))).
Proof.
  intros H1 H2 H3 r. unfold r. rewrite exec_ForCaches.
  apply (loop_caches_pointwise
           (exec cfg cb hc (SForFutures (XLocal ci) (Some fi) (Some oi) (SFutCancel (XLocal fi)))) ci).
  intros c x0.
  assert (Hc : x_env (set_local x0 ci (VCache c)) ci = VCache c) by (simpl; unfold env_set; rewrite Nat.eqb_refl; reflexivity).
  pose proof (cancel_loop cb hc c ci fi oi (set_local x0 ci (VCache c)) H1 Hc) as L.
  cbv zeta in *. destruct L as [Ho [Hobs [Hdr Hst]]]. split; [exact Ho|]. repeat split; assumption.
Qed.

Lemma gshutdown_refines s : gstep cfg s Shutdown = step cfg s Shutdown.
Proof.
  unfold gstep, gcall, call, g_shutdown.
  match goal with |- context [SForCaches ?a ?b] => remember (SForCaches a b) as LOOP eqn:HL end.
  cbn. subst LOOP.
  match goal with |- context [exec cfg ?cb ?hc (SForCaches ?ci (SForFutures (XLocal ?ci) (Some ?fi) (Some ?oi) (SFutCancel (XLocal ?fi)))) ?x] =>
    pose proof (shutdown_loop cb hc ci fi oi x ltac:(discriminate) ltac:(discriminate) ltac:(discriminate)) as L end.
  cbv zeta in L. destruct L as [Ho [_ [_ Hst]]].
  destruct (exec cfg no_cb (ghas_val cfg) _ _) as [x1 o1]. simpl in Ho, Hst. subst o1. cbn.
  unfold env_get. match goal with |- context [truthy ?v] => destruct (truthy v) end; cbn; rewrite Hst; reflexivity.
Qed.

Lemma step_shape s o : futs_shape s -> futs_shape (fst (step cfg s o)).
Proof.
  intros H. destruct o; simpl; try exact H.
  - apply step_b_shape; exact H.
  - unfold fire. destruct (tk_get (tasks s) c) as [[| | |]|]; try exact H.
    pose proof (run_b_shape (c_script (getc cfg c))
                  (set_tasks (set_table s (tbl_del (table s) (ckey cfg c))) (tk_del (tasks s) c)) H) as H2.
    destruct (run_b cfg _ (c_script (getc cfg c))) as [s2 o2]. simpl in *.
    apply shape_upd; [exact H2 | intros l; apply timeout_futl_length].
  - intros c. simpl. revert c. 
    assert (G : forall cs fs, (forall c, length (nth c fs []) = length (c_futs (getc cfg c))) ->
                forall c, length (nth c (fold_left cancel_futs cs fs) []) = length (c_futs (getc cfg c))).
    { induction cs as [|c0 cs IH]; intros fs Hfs; simpl; [exact Hfs|]. apply IH. intros c.
      unfold cancel_futs. rewrite nth_upd. destruct (Nat.eqb c0 c) eqn:E; [|apply Hfs].
      apply Nat.eqb_eq in E; subst. destruct (c <? length fs)%nat; [rewrite map_length|]; apply Hfs. }
    apply G. exact H.
Qed.

Lemma gstep_refines s o : cfg_ok cfg = true -> op_ok o = true -> futs_shape s -> gstep cfg s o = step cfg s o.
Proof.
  intros Hc Ho Hs. destruct o; try reflexivity.
  - apply gstep_b_refines. exact Ho.
  - apply gfire_refines; assumption.
  - apply gshutdown_refines.
Qed.

Lemma grun_refines : forall ops s, cfg_ok cfg = true -> forallb op_ok ops = true -> futs_shape s ->
  grun cfg s ops = run cfg s ops.
Proof.
  induction ops as [|o ops IH]; intros s Hc Ho Hs; simpl; [reflexivity|].
  simpl in Ho. apply andb_true_iff in Ho as [H1 H2].
  rewrite (gstep_refines s o Hc H1 Hs).
  pose proof (step_shape s o Hs) as Hs1. destruct (step cfg s o) as [s1 o1]. simpl in Hs1.
  rewrite (IH s1 Hc H2 Hs1). reflexivity.
Qed.

Lemma shape_init : futs_shape (init cfg).
Proof. intros c. apply (inv_futlen cfg (init cfg) (inv_init cfg)). Qed.

End Refine.

(* ------------------------------------------------------------------ statements of props/C10x.v *)
Lemma gen_refines_hand_model_l cfg ops :
  cfg_ok cfg = true -> forallb op_ok ops = true -> grun cfg (init cfg) ops = run cfg (init cfg) ops.
Proof. intros Hc Ho. apply grun_refines; [exact Hc | exact Ho | apply shape_init]. Qed.

Lemma gen_refines_step_l cfg ops o :
  cfg_ok cfg = true -> op_ok o = true ->
  let s := fst (run cfg (init cfg) ops) in gstep cfg s o = step cfg s o.
Proof.
  intros Hc Ho s. apply gstep_refines; [exact Hc | exact Ho|].
  intros c. apply (inv_futlen cfg s). apply run_inv, inv_init.
Qed.

Lemma gen_refines_sync_ops_l cfg s b : bop_ok b = true -> gstep_b cfg s b = step_b cfg s b.
Proof. apply gstep_b_refines. Qed.

Lemma gen_resolved_at_most_once_l cfg ops :
  cfg_ok cfg = true -> forallb op_ok ops = true ->
  holds cfg [] false (events (snd (grun cfg (init cfg) ops))) = true.
Proof. intros Hc Ho. rewrite gen_refines_hand_model_l by assumption. apply holds_all_runs. Qed.

Lemma gen_fire_refines_l cfg ops c :
  cfg_ok cfg = true ->
  let s := fst (run cfg (init cfg) ops) in gfire cfg s c = fire cfg s c.
Proof.
  intros Hc s. apply gfire_refines; [exact Hc|]. intros x. apply (inv_futlen cfg s). apply run_inv, inv_init.
Qed.

(* NumberCache.__init__(request_cache, prefix, number): raises exactly for a taken identity, otherwise the object's
   `prefix` / `number` properties return the constructor's arguments - the identity add() will register *)
Lemma gen_numbercache_identity_l cfg s p n :
  let r := gcall cfg no_cb 1 g_numbercache_init s [VNone; VStr p; VInt n] [] in
  x_st (fst r) = s /\
  match tbl_get (table s) (p, n) with
  | Some _ => snd r = ORaise RuntimeError
  | None => snd r = ONormal /\
            eval cfg (ghas_val cfg) s (x_env (fst r)) g_prop_prefix = Ok (VStr p) /\
            eval cfg (ghas_val cfg) s (x_env (fst r)) g_prop_number = Ok (VInt n) /\
            eval cfg (ghas_val cfg) s (x_env (fst r))
                 (XIdent g_prop_number g_prop_prefix) = Ok (VKey (p, n))
  end.
Proof.
  unfold gcall, call. cbn. destruct (tbl_get (table s) (p, n)); cbn; repeat split; reflexivity.
Qed.

Lemma gen_pop_by_class_l cfg s tag p n :
  let a := gcall cfg no_cb 2 g_pop s [VClass tag p; VInt n] [] in
  let b := gcall cfg no_cb 2 g_pop s [VStr p; VInt n] [] in
  x_st (fst a) = x_st (fst b) /\ snd a = snd b.
Proof.
  intros a b. unfold a, b. rewrite gpop_by_class.
  destruct (gcall cfg no_cb 2 g_pop s [VStr p; VInt n] []) as [x o]. split; reflexivity.
Qed.

Lemma gen_has_get_by_class_l cfg s tag p n :
  snd (gcall cfg no_cb 2 g_has s [VClass tag p; VInt n] []) = snd (gcall cfg no_cb 2 g_has s [VStr p; VInt n] []) /\
  snd (gcall cfg no_cb 2 g_get s [VClass tag p; VInt n] []) = snd (gcall cfg no_cb 2 g_get s [VStr p; VInt n] []).
Proof. split; [apply ghas_by_class | apply gget_by_class]. Qed.
