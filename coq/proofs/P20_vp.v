From Coq Require Import ZArith List Bool Lia Arith.
From IPV8V Require Import lib.PyErr model.M20_vp.
Import ListNotations.

Section P.
Variable V : Type.
Variable is_none : V -> bool.
Variable hook_pack : nat -> V -> V.
Variable hook_unpack : nat -> V -> V.

Notation interp_to_pack := (interp_to_pack V hook_pack).
Notation eval_to_pack := (eval_to_pack V hook_pack).
Notation fix_pack := (fix_pack V hook_pack).
Notation eval_pack_item := (eval_pack_item V hook_pack).

Lemma take_names_firstn k : forall names, k <= length names -> take_names k names = Ok (firstn k names).
Proof.
  induction k as [|k IH]; intros names H; [reflexivity|].
  destruct names as [|n tl]; [simpl in H; lia|]. cbn [take_names firstn].
  rewrite IH by (simpl in H; lia). reflexivity.
Qed.

Lemma pack_items_equal d fs ns :
  mapM (eval_pack_item fs) (map (fun n => (n, mem n (d_fixpack d))) ns) = mapM (fix_pack d fs) ns.
Proof.
  induction ns as [|n tl IH]; [reflexivity|]. cbn [map mapM]. rewrite IH.
  unfold M20_vp.eval_pack_item, M20_vp.fix_pack. cbn [fst snd]. reflexivity.
Qed.

Lemma pack_from_equal d fs : forall fmts names,
  total_arity fmts <= length names ->
  eval_to_pack (gen_pack_from (d_fixpack d) fmts names) fs = interp_pack_from V hook_pack d fs fmts names.
Proof.
  induction fmts as [|k tl IH]; intros names H; [reflexivity|].
  cbn [total_arity fold_right] in H. fold (total_arity tl) in H.
  cbn [gen_pack_from interp_pack_from]. unfold M20_vp.eval_to_pack. cbn [mapM fst snd].
  rewrite take_names_firstn by lia. cbn [bind]. rewrite pack_items_equal.
  destruct (mapM (fix_pack d fs) (firstn (arity k) names)) as [vs|e]; cbn [bind]; [|reflexivity].
  fold (eval_to_pack (gen_pack_from (d_fixpack d) tl (skipn (arity k) names)) fs).
  rewrite IH by (rewrite skipn_length; lia). reflexivity.
Qed.

(* T1: the compiled to_pack_list returns exactly the interpreted pack list *)
Lemma pack_equal_l d fs : wf_defn d = true -> eval_to_pack (gen_pack d) fs = interp_to_pack d fs.
Proof.
  intros Hwf. unfold wf_defn in Hwf. apply andb_true_iff in Hwf as [Hl _]. apply Nat.eqb_eq in Hl.
  unfold gen_pack, M20_vp.interp_to_pack. apply pack_from_equal. lia.
Qed.

(* T2: the compiled from_unpack_list applies the same per-field rules (on non-None values) *)
Lemma unpack_args_equal d : forall names args,
  length args = length names ->
  (forall n a, In (n, a) (combine names args) -> mem n (d_fixunpack d) = true -> is_none a = false) ->
  eval_unpack_args V is_none hook_unpack (map (fun n => (n, mem n (d_fixunpack d))) names) args
  = interp_fix_unpack V hook_unpack d names args.
Proof.
  induction names as [|n ntl IH]; intros [|a atl] Hl Hn; try discriminate Hl; [reflexivity|].
  cbn [map eval_unpack_args interp_fix_unpack].
  rewrite IH.
  - destruct (interp_fix_unpack V hook_unpack d ntl atl); cbn [bind]; [|reflexivity].
    destruct (mem n (d_fixunpack d)) eqn:E; [|reflexivity].
    rewrite (Hn n a (or_introl eq_refl) E). reflexivity.
  - simpl in Hl. lia.
  - intros n' a' Hin. apply Hn. right. exact Hin.
Qed.

Section D.
Variable L : Type.
Variable lit_val : L -> res V.
Notation eval_init := (eval_init V L lit_val).
Notation bind_params := (bind_params V L lit_val).

Lemma interp_assign_positional : forall names args,
  length args = length names ->
  interp_assign V (length names) names args [] = Ok (combine names args, [], []).
Proof.
  induction names as [|n ntl IH]; intros [|a atl] Hl; try discriminate Hl; [reflexivity|].
  cbn [length interp_assign combine]. rewrite IH by (simpl in Hl; lia). reflexivity.
Qed.

Lemma bind_params_positional (defaults : list (nat * L)) : forall names args,
  length args = length names ->
  bind_params (gen_init names defaults) args [] = Ok (combine names args, []).
Proof.
  induction names as [|n ntl IH]; intros [|a atl] Hl; try discriminate Hl; [reflexivity|].
  cbn [gen_init map bind_params assoc_nat combine]. fold (gen_init ntl defaults).
  rewrite IH by (simpl in Hl; lia). reflexivity.
Qed.

(* T3: same fields from the same positional constructor arguments *)
Lemma init_equal_positional_l d defaults args :
  wf_defn d = true -> length args = length (d_names d) ->
  eval_init (gen_init (d_names d) defaults) args [] = Ok (combine (d_names d) args)
  /\ interp_init V d args [] = Ok (combine (d_names d) args).
Proof.
  intros Hwf Hl. unfold wf_defn in Hwf. apply andb_true_iff in Hwf as [Hn _]. apply Nat.eqb_eq in Hn.
  split.
  - unfold M20_vp.eval_init. rewrite bind_params_positional by exact Hl. reflexivity.
  - unfold M20_vp.interp_init. rewrite <- Hn. rewrite interp_assign_positional by exact Hl. reflexivity.
Qed.

(* keyword arguments only (every field given by name, in any order): same fields *)
Definition no_defaults (names : list nat) : init_ast L := map (fun n => (n, @None L)) names.

Lemma gen_init_nil names : gen_init names (@nil (nat * L)) = no_defaults names.
Proof. unfold gen_init, no_defaults. apply map_ext. intros n. reflexivity. Qed.

Lemma assign_keywords : forall names kwargs,
  interp_assign V (length names) names [] kwargs =
  match bind_params (no_defaults names) [] kwargs with
  | Ok (fs, rk) => Ok (fs, [], rk)
  | Raise TypeError => Raise KeyError
  | Raise e => Raise e
  end.
Proof.
  induction names as [|n ntl IH]; intros kwargs; [reflexivity|].
  cbn [length interp_assign no_defaults map bind_params]. fold (no_defaults ntl).
  destruct (assoc_nat n kwargs) as [v|]; [|reflexivity].
  rewrite IH. destruct (bind_params (no_defaults ntl) [] (remove_key V n kwargs)) as [[fs rk]|e]; cbn; [reflexivity|].
  destruct e; reflexivity.
Qed.

Lemma init_equal_keywords_l d kwargs fs :
  wf_defn d = true ->
  interp_init V d [] kwargs = Ok fs -> eval_init (gen_init (d_names d) []) [] kwargs = Ok fs.
Proof.
  intros Hwf H. unfold wf_defn in Hwf. apply andb_true_iff in Hwf as [Hn _]. apply Nat.eqb_eq in Hn.
  unfold M20_vp.interp_init in H. rewrite <- Hn in H. rewrite assign_keywords in H.
  unfold M20_vp.eval_init. rewrite gen_init_nil.
  destruct (bind_params (no_defaults (d_names d)) [] kwargs) as [[fs' rk]|e]; cbn [bind] in *.
  - destruct rk; [exact H|discriminate H].
  - destruct e; discriminate H.
Qed.

(* T4: omitted trailing arguments take the definition's default, provided the rendered default
   evaluates to the default value *)
Lemma bind_params_defaults (defaults : list (nat * L)) (dv : nat -> V) : forall names,
  (forall n, In n names -> exists l, assoc_nat n defaults = Some l /\ lit_val l = Ok (dv n)) ->
  bind_params (gen_init names defaults) [] [] = Ok (map (fun n => (n, dv n)) names, []).
Proof.
  induction names as [|n ntl IH]; intros H; [reflexivity|].
  cbn [gen_init map bind_params assoc_nat]. fold (gen_init ntl defaults).
  destruct (H n (or_introl eq_refl)) as (l & El & Ev). rewrite El, Ev. cbn [bind].
  rewrite IH by (intros n' Hn'; apply H; right; exact Hn'). reflexivity.
Qed.

Lemma bind_params_prefix (defaults : list (nat * L)) (dv : nat -> V) : forall names args,
  length args <= length names ->
  (forall n, In n (skipn (length args) names) -> exists l, assoc_nat n defaults = Some l /\ lit_val l = Ok (dv n)) ->
  bind_params (gen_init names defaults) args [] =
  Ok (combine (firstn (length args) names) args ++ map (fun n => (n, dv n)) (skipn (length args) names), []).
Proof.
  induction names as [|n ntl IH]; intros args Hl H.
  - destruct args; [reflexivity|simpl in Hl; lia].
  - destruct args as [|a atl].
    + cbn [length firstn skipn combine app]. apply bind_params_defaults. exact H.
    + cbn [gen_init map bind_params assoc_nat length firstn skipn combine app]. fold (gen_init ntl defaults).
      rewrite IH; [reflexivity|simpl in Hl; lia|exact H].
Qed.

Lemma defaults_l d defaults dv args :
  length args <= length (d_names d) ->
  (forall n, In n (skipn (length args) (d_names d)) ->
     exists l, assoc_nat n defaults = Some l /\ lit_val l = Ok (dv n)) ->
  eval_init (gen_init (d_names d) defaults) args [] =
  Ok (combine (firstn (length args) (d_names d)) args
      ++ map (fun n => (n, dv n)) (skipn (length args) (d_names d))).
Proof.
  intros Hl H. unfold M20_vp.eval_init. rewrite (bind_params_prefix defaults dv) by assumption. reflexivity.
Qed.

(* from_unpack_list: compiled = interpreted on every decoded argument list *)
Lemma from_unpack_equal_l d defaults args :
  wf_defn d = true -> length args = length (d_names d) ->
  (forall n a, In (n, a) (combine (d_names d) args) -> mem n (d_fixunpack d) = true -> is_none a = false) ->
  eval_from_unpack V is_none hook_unpack L lit_val (gen_init (d_names d) defaults) (gen_unpack d) args
  = interp_from_unpack V hook_unpack d args.
Proof.
  intros Hwf Hl Hn. unfold M20_vp.eval_from_unpack, M20_vp.interp_from_unpack, gen_unpack.
  rewrite (unpack_args_equal d (d_names d) args Hl Hn).
  destruct (interp_fix_unpack V hook_unpack d (d_names d) args) as [a'|e] eqn:E; cbn [bind]; [|reflexivity].
  assert (Hl' : length a' = length (d_names d)).
  { clear - E Hl. revert args a' Hl E. generalize (d_names d). induction l as [|n ntl IH]; intros [|a atl] a' Hl E;
      try discriminate Hl; cbn [interp_fix_unpack] in E.
    - inversion E; reflexivity.
    - destruct (interp_fix_unpack V hook_unpack d ntl atl) eqn:E2; cbn [bind] in E; [|discriminate].
      inversion E; subst. simpl. f_equal. eapply IH; eauto. }
  destruct (init_equal_positional_l d defaults a' Hwf Hl') as [H1 H2]. rewrite H1, H2. reflexivity.
Qed.

End D.
End P.

(* type_map: supported annotations *)
Lemma type_map_supported_l t f : type_map t = Ok f ->
  match t with TOther => False | _ => True end.
Proof. destruct t; simpl; intros H; try exact I. discriminate H. Qed.
