(* C09, path level - the cross-node invariant after the quiet point and its preservation by every
   network step.

   Per node (`ngood`): the bookkeeping is closed with respect to the ids of the path; every entry that
   names such an id sits at the position of the path that the id belongs to, with the routing fields the
   path prescribes, and its activity stamp is at most Tmax = tq + 2 * hops * D; an own circuit under such
   an id sits at the originator and is either closing, its removal task waking by tq + remove_tunnel_delay,
   or (only when the path is broken at a position j > 0) still alive, ready, and last active by
   Lq = tq - B_entry - so that the node bound of C09 closes it by tq; no exit socket at or above the
   break, no upward route at the break.
   Per message in flight (`mgood`): a cell for an id of the path travels on the link of that id, downwards
   (towards the far end; sent by tq + (k-1) * D on link k) or upwards (sent by tq + (2 * hops - k) * D; on a
   link at or above the break early enough to reach the originator by Lq); upward cells are not pings.
   The send-time bounds are the well-founded measure: a cell delivered on link k produces at most one cell,
   on the next link in the same direction or - a ping answered by the node where the path now ends - the
   pong back on the same link, and each of these has a later bound; nothing produces a cell from an upward
   cell at the originator; the originator's own pings stop by tq because its stamp cannot advance. *)
From Coq Require Import ZArith List Bool Lia ZifyBool.
From IPV8V Require Import gen.G09_rules model.M09_reclaim model.M09_network spec.S09_reclaim proofs.P09_alist
  proofs.P09_network_frame proofs.P09_network_node proofs.P09_network_step proofs.P09_network_path.
Import ListNotations.
Open Scope Z_scope.

Section Inv.
Variable st : settings.
Variable D : Z.
Variable p : path.
Variable tq : Z.
Variable j : nat.
Variable dead : list Z.
Hypothesis HD : 0 <= D.
Hypothesis Hp : path_ok_b p = true.
Hypothesis Hst : settings_ok st.
Hypothesis Hjh : (j <= p_len p)%nat.

Let h := p_len p.
Let I := inI (p_ids p).
Definition Tmax : Z := tq + 2 * Z.of_nat (p_len p) * D.
Definition Lq : Z := tq - B_entry st.
Definition cut : Prop := cutj p j dead = true.

Lemma Tmax_ge : tq <= Tmax.
Proof. unfold Tmax. assert (0 <= 2 * Z.of_nat (p_len p) * D) by (apply Z.mul_nonneg_nonneg; lia). lia. Qed.

Lemma Lq_le : Lq <= tq.
Proof. unfold Lq, B_entry. destruct Hst as (? & ? & ? & _). lia. Qed.

Lemma Lq_is_L_of : L_of st tq = Lq.
Proof. reflexivity. Qed.

Definition route_ok (n x : Z) (r : relay) : Prop :=
  exists k, (1 <= k < h)%nat /\ n = nd p k /\
    ((x = idk p k /\ r_next r = idk p (S k) /\ r_peer r = nd p (S k))
     \/ (x = idk p (S k) /\ r_next r = idk p k /\ r_peer r = nd p (pred k) /\ (k <> j \/ cut))).

Record ngood (n : Z) (s : node) : Prop := mkNGood {
  g_closed : closedI I s;
  g_circ : forall x c, I x = true -> aget x (circuits s) = Some c ->
      n = nd p 0 /\ x = idk p 1
      /\ ((c_closing c = true /\ exists due, In (due, KCirc, x) (sleeping s) /\ due <= tq + s_remove_delay st)
          \/ (c_closing c = false /\ (1 <= j)%nat /\ c_goal c <= c_hops c /\ c_first c = nd p 1
              /\ la (c_ro c) <= Lq));
  g_rel : forall x r, I x = true -> aget x (relays s) = Some r -> route_ok n x r /\ la (r_ro r) <= Tmax;
  g_exit : forall x e, I x = true -> aget x (exits s) = Some e ->
      (exists k, ((j < k)%nat \/ (cut /\ k = j)) /\ (1 <= k <= h)%nat /\ n = nd p k /\ x = idk p k) /\ la (e_ro e) <= Tmax;
  g_open : forall x, I x = true -> In (DOpen x) (starts s) -> now s <= Tmax /\ n <> nd p 0
}.

(* an own circuit of the path that is still alive *)
Definition alive_at (s : node) (x : Z) : Prop :=
  exists c, aget x (circuits s) = Some c /\ c_closing c = false.

Lemma ngood_frame n s s' (touch : Z -> Prop) :
  ngood n s -> frame st I touch s s' ->
  (forall x, I x = true -> touch x -> now s <= Tmax) ->
  (forall x, I x = true -> alive_at s x -> now s <= tq) ->
  (forall x, I x = true -> touch x -> alive_at s x -> now s <= Lq) ->
  ngood n s'.
Proof.
  intros [K C R E O] F Ht Ha Hl. constructor.
  - eapply closed_frame; eauto.
  - intros x c' Hi H. destruct (f_circ _ _ _ _ _ F _ _ Hi H) as (c & Hc & A1 & A2 & A3 & _ & _ & L & K1 & W).
    destruct (C _ _ Hi Hc) as (A & B & [(Kc & due & Hin & Hle)|(Kc & Hj & Hg & Hf & Hla)]).
    + split; [exact A|]. split; [exact B|]. left. split; [auto|].
      exists due. split; [|exact Hle]. apply (f_sleep _ _ _ _ _ F); auto. congruence.
    + split; [exact A|]. split; [exact B|].
      assert (Al : alive_at s x) by (exists c; auto).
      destruct (c_closing c') eqn:Kc'.
      * left. split; [reflexivity|]. exists (now s + s_remove_delay st). split; [apply W; auto|].
        specialize (Ha _ Hi Al). lia.
      * right. split; [reflexivity|]. split; [exact Hj|]. split; [lia|]. split; [congruence|].
        destruct L as [L|[T L]]; [lia | rewrite L; eauto].
  - intros x r' Hi H. destruct (f_rel _ _ _ _ _ F _ _ Hi H) as (r & Hr & N & P & L).
    destruct (R _ _ Hi Hr) as [(k & Hk & Hn & Hc) Hla]. split.
    + exists k. split; [exact Hk|]. split; [exact Hn|]. rewrite N, P. exact Hc.
    + destruct L as [L|[T L]]; [lia | rewrite L; eauto].
  - intros x e' Hi H. destruct (f_exit _ _ _ _ _ F _ _ Hi H) as (e & He & _ & L).
    destruct (E _ _ Hi He) as [Hk Hla]. split; [exact Hk|].
    destruct L as [L|[T L]]; [lia | rewrite L; eauto].
  - intros x Hi H. rewrite (f_now _ _ _ _ _ F). destruct (f_starts _ _ _ _ _ F _ H) as [H0|[_ H0]]; [eauto|].
    destruct (H0 x eq_refl Hi) as [T Ex]. split; [eauto|].
    destruct (aget x (exits s)) as [e|] eqn:Ee; [|congruence].
    destruct (E _ _ Hi Ee) as [(k & _ & Hk & Hn & _) _]. subst n. intro Eq.
    assert (k = 0%nat) by (apply (nd_inj p Hp); fold h; try lia; exact Eq). lia.
Qed.

(* moving the clock of a node that is served on time *)
Lemma ngood_set_now n s t : on_time st s t = true -> ngood n s -> ngood n (set_now t s).
Proof.
  intros Ht [K C R E O]. constructor; auto.
  - destruct K as [a b c d]. constructor; auto.
  - simpl. intros x Hi H. unfold on_time in Ht. repeat (apply andb_true_iff in Ht; destruct Ht as [Ht ?]).
    destruct (starts s) as [|d0 tl] eqn:Es; [destruct H|].
    assert (now s = t) by lia. subst t. eapply O; eauto.
Qed.

(* ---------------------------------------------------------------- messages in flight *)
Definition mgood (m : msg) : Prop :=
  match m with
  | FCell src dst cid _ mid sent => I cid = true ->
      exists k, (1 <= k <= h)%nat /\ cid = idk p k /\
        ((src = nd p (pred k) /\ dst = nd p k /\ kind_down_b mid = true
          /\ sent <= tq + (Z.of_nat k - 1) * D)
         \/ (src = nd p k /\ dst = nd p (pred k) /\ kind_up_b mid = true
             /\ sent <= tq + (2 * Z.of_nat h - Z.of_nat k) * D
             /\ ((j < k)%nat \/ sent + Z.of_nat k * D <= Lq \/ (cut /\ k = j))))
  | FDestroy _ _ _ _ _ => True
  end.

Definition wgood (w : net) : Prop :=
  (forall n s, aget n (nodes w) = Some s -> ngood n s) /\ (forall m, In m (flight w) -> mgood m).

(* a cell for an id of the path is delivered by Tmax *)
Lemma mgood_deadline src dst cid early mid sent t :
  mgood (FCell src dst cid early mid sent) -> I cid = true -> t <= sent + D -> t <= Tmax.
Proof.
  intros M Hi Ht. destruct (M Hi) as (k & Hk & _ & [(_ & _ & _ & Hs)|(_ & _ & _ & Hs & _)]); unfold Tmax; fold h; nia.
Qed.

(* ---------------------------------------------------------------- the quiet-point check is sound *)
Lemma forallb_aget {A} (f : Z * A -> bool) l x v : forallb f l = true -> aget x l = Some v -> f (x, v) = true.
Proof. intros H Hg. apply aget_in in Hg. rewrite forallb_forall in H. apply H. exact Hg. Qed.

Lemma node_shape_sound n s : node_shape_b st p tq j dead (n, s) = true -> ngood n s.
Proof.
  unfold node_shape_b. intro H. repeat (apply andb_true_iff in H; destruct H as [H ?]).
  rename H into Hc, H0 into Hs, H1 into Hrt, H2 into Hcr, H3 into He, H4 into Hr.
  pose proof Tmax_ge as TG.
  assert (Ex : forall x e, I x = true -> aget x (exits s) = Some e ->
            (exists k, ((j < k)%nat \/ (cut /\ k = j)) /\ (1 <= k <= h)%nat /\ n = nd p k /\ x = idk p k)
            /\ la (e_ro e) <= Tmax).
  { intros x e Hi Hg. pose proof (forallb_aget _ _ _ _ He Hg) as X. try clear Hc Hs Hrt Hcr He Hr. unfold exit_shape_b in X.
    fold I in X. rewrite Hi in X. simpl in X. apply andb_true_iff in X. destruct X as [X Hla]. split; [|lia].
    apply orb_true_iff in X. destruct X as [X|X].
    - apply existsb_exists in X. destruct X as (k & Hk & X). apply in_seq in Hk. fold h in Hk.
      exists k. split; [left; lia|]. split; [lia|]. apply andb_true_iff in X. lia.
    - apply andb_true_iff in X. destruct X as [X X3]. apply andb_true_iff in X. destruct X as [X1 X2].
      assert (J1 : (1 <= j)%nat).
      { unfold cutj in X1. apply andb_true_iff in X1. destruct X1 as [X1 _]. apply Nat.leb_le. exact X1. }
      exists j. split; [right; split; [exact X1 | reflexivity]|]. split; [unfold h; pose proof Hjh; lia|]. lia. }
  constructor.
  - constructor.
    + intros x r Hi Hg. pose proof (forallb_aget _ _ _ _ Hr Hg) as X. try clear Hc Hs Hrt Hcr He Hr. unfold relay_shape_b in X.
      fold I in X. rewrite Hi in X. apply negb_true_iff in X. exact X.
    + intros k cc Hg. pose proof (forallb_aget _ _ _ _ Hcr Hg) as X. try clear Hc Hs Hrt Hcr He Hr. unfold create_shape_b in X. simpl in X.
      apply andb_true_iff in X. destruct X as [X1 X2]. apply negb_true_iff in X1, X2. auto.
    + intros x rt Hg. pose proof (forallb_aget _ _ _ _ Hrt Hg) as X. try clear Hc Hs Hrt Hcr He Hr. unfold retry_shape_b in X. simpl in X.
      apply negb_true_iff in X. exact X.
    + intros d Hin. rewrite forallb_forall in Hs. specialize (Hs _ Hin).
      destruct d; simpl in *; try exact Logic.I; apply negb_true_iff in Hs; exact Hs.
  - intros x c Hi Hg. pose proof (forallb_aget _ _ _ _ Hc Hg) as X. try clear Hc Hs Hrt Hcr He Hr. unfold circ_shape_b in X.
    fold I in X. rewrite Hi in X. cbn [negb orb] in X.
    apply andb_true_iff in X. destruct X as [X Y]. apply andb_true_iff in X. destruct X as [X1 X2].
    split; [lia|]. split; [lia|]. apply orb_true_iff in Y. destruct Y as [Y|Y].
    + left. apply andb_true_iff in Y. destruct Y as [Y1 Y2]. split; [exact Y1|].
      apply existsb_exists in Y2. destruct Y2 as ([[due k] y] & Hin & Hw).
      destruct k; try discriminate. apply andb_true_iff in Hw. destruct Hw as [Hy Hd].
      assert (y = x) by lia. subst y. exists due. split; [exact Hin | lia].
    + right. repeat (apply andb_true_iff in Y; destruct Y as [Y ?]). rewrite Lq_is_L_of in *.
      split; [apply negb_true_iff; exact Y|]. split; [apply Nat.leb_le; assumption|]. repeat split; lia.
  - intros x r Hi Hg. pose proof (forallb_aget _ _ _ _ Hr Hg) as X. try clear Hc Hs Hrt Hcr He Hr. unfold relay_shape_b in X.
    fold I in X. rewrite Hi in X. apply andb_true_iff in X. destruct X as [X Hla]. split; [|lia].
    apply existsb_exists in X. destruct X as (k & Hk & X). apply in_seq in Hk.
    unfold route_b in X. exists k. fold h in Hk. split; [lia|].
    apply andb_true_iff in X. destruct X as [Xn X]. split; [lia|]. apply orb_true_iff in X.
    destruct X as [X|X]; [left | right]; repeat (apply andb_true_iff in X; destruct X as [X ?]).
    + repeat split; lia.
    + split; [lia|]. split; [lia|]. split; [lia|]. apply orb_true_iff in H. destruct H as [H|H]; [|right; exact H].
      left. apply negb_true_iff in H. apply Nat.eqb_neq in H. exact H.
  - apply Ex.
  - intros x Hi Hin. rewrite forallb_forall in Hs. pose proof (Hs _ Hin) as Hs1. simpl in Hs1. fold I in Hs1.
    rewrite Hi in Hs1. simpl in Hs1. apply andb_true_iff in Hs1. destruct Hs1 as [Hn Hx]. split; [lia|].
    apply ahas_aget in Hx. destruct Hx as (e & Hg). destruct (Ex _ _ Hi Hg) as [(k & _ & Hk & Hn' & _) _].
    subst n. intro Eq. assert (k = 0%nat) by (apply (nd_inj p Hp); fold h; try lia; exact Eq). lia.
Qed.

Lemma msg_shape_sound m : msg_shape_b st D p tq j dead m = true -> mgood m.
Proof.
  destruct m as [src dst cid early mid sent|]; [|intros _; exact Logic.I]. unfold msg_shape_b, mgood. fold I. intros H Hi.
  rewrite Hi in H. simpl in H.
  apply andb_true_iff in H. destruct H as [Hs H]. apply existsb_exists in H. destruct H as (k & Hk & X).
  apply in_seq in Hk. fold h in Hk. exists k. split; [lia|]. unfold link_b in X.
  apply andb_true_iff in X. destruct X as [Hc X]. split; [lia|]. apply orb_true_iff in X.
  assert (N1 : 0 <= (Z.of_nat k - 1) * D) by (apply Z.mul_nonneg_nonneg; lia).
  assert (N2 : 0 <= (2 * Z.of_nat h - Z.of_nat k) * D) by (apply Z.mul_nonneg_nonneg; lia).
  destruct X as [X|X]; [left | right]; repeat (apply andb_true_iff in X; destruct X as [X ?]).
  - split; [lia|]. split; [lia|]. split; [assumption|]. lia.
  - split; [lia|]. split; [lia|]. split; [assumption|]. split; [lia|].
    rewrite Lq_is_L_of in *. apply orb_true_iff in H. destruct H as [H|H].
    + apply orb_true_iff in H. destruct H as [H|H]; [left; apply Nat.ltb_lt; exact H | right; left; lia].
    + right. right. apply andb_true_iff in H. destruct H as [Hc1 Hc2]. split; [exact Hc1 | apply Nat.eqb_eq; exact Hc2].
Qed.

Lemma quiet_shape_sound w : quiet_shape_b st D p tq j dead w = true -> wgood w.
Proof.
  unfold quiet_shape_b. intro H. repeat (apply andb_true_iff in H; destruct H as [H ?]). split.
  - intros n s Hg. apply node_shape_sound. apply (forallb_aget _ _ _ _ H1 Hg).
  - intros m Hin. apply msg_shape_sound. rewrite forallb_forall in H0. auto.
Qed.

End Inv.
