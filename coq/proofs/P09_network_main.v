(* C09, path level - every network step after the quiet point preserves the cross-node invariant;
   the path-level reclamation bound. *)
From Coq Require Import ZArith List Bool Lia ZifyBool.
From IPV8V Require Import gen.G09_rules model.M09_reclaim model.M09_network spec.S09_reclaim proofs.P09_alist
  proofs.P09_inv proofs.P09_special proofs.P09_main
  proofs.P09_network_frame proofs.P09_network_node proofs.P09_network_step proofs.P09_network_path
  proofs.P09_network_inv.
Import ListNotations.
Open Scope Z_scope.

Section Main.
Variable st : settings.
Variable D : Z.
Variable p : path.
Variable tq : Z.
Variable j : nat.
Variable dead : list Z.
Hypothesis Hst : settings_ok st.
Hypothesis HD : 0 <= D.
Hypothesis Hp : path_ok_b p = true.
Hypothesis Hj : (j <= p_len p)%nat.

Let h := p_len p.
Let I := inI (p_ids p).
Notation ngood := (ngood st D p tq j dead).
Notation mgood := (mgood st D p tq j dead).
Notation wgood := (wgood st D p tq j dead).
Notation cut := (cut p j dead).
Notation Tmax := (Tmax D p tq).
Notation Lq := (Lq st tq).

Definition winv (w : net) : Prop := forall n s, aget n (nodes w) = Some s -> inv st s.

(* ---------------------------------------------------------------- one event at one node *)
Lemma step_is_step_at s t e : step st s (t, e) = step_at st (set_now t s) e.
Proof. reflexivity. Qed.

(* while an own circuit is alive and ready, the node's events happen within B_entry of its last activity *)
Lemma alive_time s t x c :
  inv st s -> on_time st s t = true -> aget x (circuits s) = Some c -> c_closing c = false ->
  c_goal c <= c_hops c -> t <= la (c_ro c) + B_entry st.
Proof.
  intros (_ & _ & _ & _ & _ & Hc) Hon Hg Hcl Hgoal. specialize (Hc _ _ Hg). unfold circ_ok in Hc.
  rewrite Hcl in Hc. assert (E : (c_goal c <=? c_hops c) = true) by lia. rewrite E in Hc.
  destruct Hc as [[]|Hc]. eapply entry_bound; eauto.
Qed.

Lemma event_good w n t e inherit :
  wgood w -> winv w ->
  (forall s, aget n (nodes w) = Some s -> on_time st s t = true) ->
  (forall s, aget n (nodes w) = Some s -> ev_ok I (set_now t s) e) ->
  (forall s0, ngood n s0 -> now s0 = t -> forall x, I x = true -> ev_touch s0 e x -> t <= Tmax) ->
  (forall s0, ngood n s0 -> now s0 = t -> forall x, I x = true -> ev_touch s0 e x -> alive_at s0 x -> t <= Lq) ->
  (forall s o, aget n (nodes w) = Some s -> ngood n (set_now t s) ->
     (forall x, I x = true -> alive_at (set_now t s) x -> t <= tq) ->
     ev_outs I (set_now t s) e o ->
     forall d c early mm, In (OCell d c early mm) o -> I c = true ->
       mgood (FCell n d c early (if mm =? 0 then inherit else mm) t)) ->
  wgood (node_event st w n t e inherit).
Proof.
  intros [Wn Wf] Wi Hon Hok Htouch Halive Hout. unfold node_event.
  destruct (aget n (nodes w)) as [s|] eqn:En; [|split; assumption].
  rewrite step_is_step_at. set (s0 := set_now t s).
  assert (G0 : ngood n s0) by (apply (ngood_set_now st D p tq j dead Hp Hj); [apply Hon; reflexivity | apply Wn; exact En]).
  assert (A2 : forall x, I x = true -> alive_at s0 x -> t <= tq).
  { intros x Hi (c & Hc & Hcl).
    destruct (g_circ _ _ _ _ _ _ _ _ G0 _ _ Hi Hc) as (_ & _ & [(K & _)|(_ & _ & Hg & _ & Hla)]); [congruence|].
    pose proof (alive_time s t x c (Wi _ _ En) (Hon _ eq_refl) Hc Hcl Hg). unfold P09_network_inv.Lq in Hla. lia. }
  destruct (step_at_frame st I s0 e (g_closed _ _ _ _ _ _ _ _ G0) (Hok _ eq_refl)) as [F O].
  destruct (step_at st s0 e) as [s' o]. simpl in F, O. simpl fst. simpl snd. split.
  - intros n' s1 Hg. simpl in Hg. rewrite aget_aset in Hg. destruct (n' =? n) eqn:E.
    + apply Z.eqb_eq in E. subst n'. inversion Hg; subst s1.
      eapply (ngood_frame st D p tq j dead Hp Hj); [exact G0 | exact F | | |].
      * intros x Hi Hx. change (now s0) with t. eapply Htouch; eauto.
      * intros x Hi Hx. change (now s0) with t. eapply A2; eauto.
      * intros x Hi Hx Ha. change (now s0) with t. eapply Halive; eauto.
    + apply Wn; exact Hg.
  - intros m Hin. simpl in Hin. apply in_app_or in Hin. destruct Hin as [Hin|Hin]; [apply Wf; exact Hin|].
    unfold msgs_of_outs in Hin. apply in_flat_map in Hin. destruct Hin as (o1 & Ho1 & Hm).
    destruct o1 as [d c early mm|d c reason|c l|c|c]; simpl in Hm; try contradiction;
      destruct Hm as [Hm|[]]; subst m; [|exact Logic.I].
    intro Hi. exact (Hout s o eq_refl G0 A2 O d c early mm Ho1 Hi Hi).
Qed.

(* an event that is not a cell for an id of the path: nothing of the path is touched; the only cells for the
   path it can send are the pings of an originator whose circuit is still alive *)
Definition not_path_cell (e : ev) : Prop :=
  match e with ERecvCell _ cid _ _ _ _ _ => I cid = false | _ => True end.

Lemma event_good_other w n t e inherit :
  wgood w -> winv w -> (forall s, aget n (nodes w) = Some s -> on_time st s t = true) ->
  (forall s, ev_ok I s e) -> not_path_cell e -> wgood (node_event st w n t e inherit).
Proof.
  intros W Wi Hon Hok Hnp.
  assert (NoTouch : forall s0, ngood n s0 -> forall x, I x = true -> ev_touch s0 e x ->
            match e with ERun i _ _ _ _ _ _ => nth_error (starts s0) i = Some (DOpen x) | _ => False end).
  { intros s0 G0 x Hi Hx.
    destruct e as [src cid plain early len cr ls|src cid reason| |ls|i eo tg tc nb pk ls|i|cid|cid|number
                   |cid goal pk ls|k cid dd rn|dst cid ls|cid len allowed ls]; simpl in Hx; try contradiction.
    - simpl in Hnp. destruct Hx as [Hx|(nxt & Hr & Hx)]; [unfold I in *; congruence|].
      subst x. pose proof (k_rel _ _ (g_closed _ _ _ _ _ _ _ _ G0) _ _ Hnp Hr) as Hz. unfold I in *. congruence.
    - exact Hx. }
  apply event_good; auto.
  - intros s0 G0 Hnow x Hi Hx. pose proof (NoTouch s0 G0 x Hi Hx) as Hr.
    destruct e; try contradiction. rewrite <- Hnow.
    exact (proj1 (g_open _ _ _ _ _ _ _ _ G0 x Hi (nth_error_In _ _ Hr))).
  - intros s0 G0 Hnow x Hi Hx (c & Hc & _). exfalso. pose proof (NoTouch s0 G0 x Hi Hx) as Hr.
    destruct e; try contradiction.
    destruct (g_circ _ _ _ _ _ _ _ _ G0 _ _ Hi Hc) as (Hn0 & _).
    apply (proj2 (g_open _ _ _ _ _ _ _ _ G0 x Hi (nth_error_In _ _ Hr))). exact Hn0.
  - intros s1 o Hs1 G0 A2 O d c early mm Hin Hi.
    destruct e as [src cid plain early' len cr ls|src cid reason| |ls|i eo tg tc nb pk ls|i|cid|cid|number
                   |cid goal pk ls|k cid dd rn|dst cid ls|cid len allowed ls]; simpl in O;
      try (exfalso; pose proof (O _ _ _ _ Hin) as Hz; unfold I in *; congruence).
    + exfalso. simpl in Hnp. destruct (O _ _ _ _ Hin Hi) as [(nxt & Hr & _ & Hc & _)|(_ & _ & Hc & _)];
        [|unfold I in *; congruence].
      subst c. pose proof (k_rel _ _ (g_closed _ _ _ _ _ _ _ _ G0) _ _ Hnp Hr) as Hz. unfold I in *. congruence.
    + (* the pings of a live originator: downwards on the first link, sent by tq *)
      destruct (O _ _ _ _ Hin Hi) as (circ & Hc & Hcl & Hd & Hm). subst d mm.
      destruct (g_circ _ _ _ _ _ _ _ _ G0 _ _ Hi Hc) as (Hn0 & Hx1 & [(K & _)|(_ & Hj1 & _ & Hf & _)]); [congruence|].
      unfold P09_network_inv.mgood. change (MSG_PING =? 0) with false. cbv iota. intros _.
      exists 1%nat. fold h. split; [unfold h; lia|]. split; [exact Hx1|]. left. simpl pred.
      split; [exact Hn0|]. split; [exact Hf|]. split; [reflexivity|].
      assert (t <= tq) by (apply (A2 c Hi); exists circ; auto). lia.
Qed.

(* ---------------------------------------------------------------- kinds *)
Lemma kind_down_facts mid : kind_down_b mid = true -> mid <> 0 /\ mid <> MSG_CREATE /\ mid <> MSG_EXTEND.
Proof. unfold kind_down_b, MSG_CREATE, MSG_EXTEND. simpl. lia. Qed.

Lemma kind_up_facts mid :
  kind_up_b mid = true -> mid <> 0 /\ mid <> MSG_CREATE /\ mid <> MSG_EXTEND /\ mid <> MSG_PING.
Proof. unfold kind_up_b, MSG_CREATE, MSG_EXTEND, MSG_PING. simpl. lia. Qed.

Lemma kind_up_down mid : kind_up_b mid = true -> kind_down_b mid = true.
Proof. unfold kind_up_b, kind_down_b. simpl. lia. Qed.

(* ---------------------------------------------------------------- a cell of the path is delivered *)
Lemma deliver_good w dst t src cid plain early len cr ls mid sent :
  wgood w -> winv w -> (forall s, aget dst (nodes w) = Some s -> on_time st s t = true) ->
  I cid = true -> mgood (FCell src dst cid early mid sent) -> t <= sent + D ->
  (forall s m, aget dst (nodes w) = Some s -> aget cid (relays s) = None -> cr = COk m -> mid = 0 \/ msg_id m = mid) ->
  ~ (cut /\ cid = idk p j) ->
  wgood (node_event st w dst t (ERecvCell src cid plain early len cr ls) mid).
Proof.
  intros W Wi Hon Hi M Hlife Htyped Hlive.
  pose proof (mgood_deadline st D p tq j dead HD Hp Hj _ _ _ _ _ _ t M Hi Hlife) as Hdead.
  destruct (M Hi) as (k & Hk & Hcid & Hdir). fold h in Hk.
  assert (Hmid : kind_down_b mid = true).
  { destruct Hdir as [(_ & _ & Hm & _)|(_ & _ & Hm & _)]; [exact Hm | apply kind_up_down; exact Hm]. }
  destruct (kind_down_facts _ Hmid) as (M0 & M2 & M4).
  apply event_good; auto.
  - (* handshake-free *)
    intros s Hs. simpl. intros Hnr m Hm _. destruct (Htyped _ _ Hs Hnr Hm) as [E|E]; [congruence|]. rewrite E. auto.
  - (* the originator's live circuit is stamped only by what travelled upwards above the break *)
    intros s0 G0 Hnow x Hix Hx (c & Hc & Hcl).
    destruct (g_circ _ _ _ _ _ _ _ _ G0 _ _ Hix Hc) as (Hn0 & Hx1 & [(K & _)|(_ & Hj1 & _)]); [congruence|].
    destruct Hx as [Hx|(nxt & Hr & Hx)].
    + subst x. destruct Hdir as [(_ & Hdst & _)|(_ & Hdst & _ & _ & Hup)].
      * exfalso. assert (k = 0%nat) by (apply (nd_inj p Hp); fold h; try lia; congruence). lia.
      * assert (pred k = 0%nat) by (apply (nd_inj p Hp); fold h; try lia; congruence).
        destruct Hup as [Hup|[Hup|(Hcut & Hkj)]]; [lia| |exfalso; apply Hlive; split; [exact Hcut | congruence]].
        assert (k = 1%nat) by lia. subst k. lia.
    + exfalso. assert (Hic : I cid = true) by exact Hi.
      destruct (g_rel _ _ _ _ _ _ _ _ G0 _ _ Hic Hr) as [(k' & Hk' & Hn & _) _]. fold h in Hk'.
      assert (k' = 0%nat) by (apply (nd_inj p Hp); fold h; try lia; congruence). lia.
  - intros s1 o Hs1 G0 _ O d c early' mm Hin Hic. simpl in O.
    destruct (O _ _ _ _ Hin Hic) as [(nxt & Hr & Hd & Hc & Hmm)|(Hr & Hd & Hc & Hmm & Hcr & Hh)].
    + (* relayed along the route of the entry *)
      subst d c mm. unfold P09_network_inv.mgood. change (0 =? 0) with true. cbv iota. intros _.
      destruct (g_rel _ _ _ _ _ _ _ _ G0 _ _ Hi Hr) as [(k' & Hk' & Hn & Hroute) _]. fold h in Hk'.
      destruct Hdir as [(Hs & Hdst & _ & Hsent)|(Hs & Hdst & Hup & Hsent & Hbr)].
      * (* downwards on link k: forwarded on link k+1 *)
        assert (k' = k) by (apply (nd_inj p Hp); fold h; try lia; congruence). subst k'.
        destruct Hroute as [(_ & Hnx & Hpe)|(Hx & _ & _)].
        -- exists (S k). split; [lia|]. split; [exact Hnx|]. left. simpl pred.
           split; [congruence|]. split; [exact Hpe|]. split; [exact Hmid|]. nia.
        -- exfalso. assert (k = S k) by (apply (idk_inj p Hp); fold h; try lia; congruence). lia.
      * (* upwards on link k: forwarded on link k-1 *)
        assert (k' = pred k) by (apply (nd_inj p Hp); fold h; try lia; congruence). subst k'.
        destruct Hroute as [(Hx & _ & _)|(_ & Hnx & Hpe & Hnj)].
        -- exfalso. assert (k = pred k) by (apply (idk_inj p Hp); fold h; try lia; congruence). lia.
        -- exists (pred k). split; [lia|]. split; [exact Hnx|]. right.
           split; [congruence|]. split; [exact Hpe|]. split; [exact Hup|]. split; [nia|].
           destruct Hbr as [Hbr|[Hbr|(Hcut & Hkj)]]; [|right; left; nia|exfalso; apply Hlive; split; [exact Hcut | congruence]].
           destruct Hnj as [Hnj|Hnj]; [left; lia|].
           destruct (Nat.eq_dec (pred k) j) as [Ej|Ej]; [right; right; split; [exact Hnj | exact Ej] | left; lia].
    + (* a ping answered by the node where the path ends now: the pong goes back on the same link *)
      subst d c mm. unfold P09_network_inv.mgood. change (MSG_PONG =? 0) with false. cbv iota. intros _.
      destruct (Htyped _ _ Hs1 Hr Hcr) as [E|E]; [congruence|]. simpl in E.
      destruct Hdir as [(Hs & Hdst & _ & Hsent)|(_ & _ & Hup & _)].
      * exists k. split; [lia|]. split; [exact Hcid|]. right.
        split; [exact Hdst|]. split; [exact Hs|]. split; [reflexivity|]. split; [nia|].
        (* the node answers because it holds an exit socket for the id: that is below the break *)
        unfold holds_id, ahas in Hh. rewrite Hr in Hh.
        destruct (aget cid (circuits (set_now t s1))) as [c|] eqn:Ec.
        { exfalso. destruct (g_circ _ _ _ _ _ _ _ _ G0 _ _ Hi Ec) as (Hn0 & _).
          assert (k = 0%nat) by (apply (nd_inj p Hp); fold h; try lia; congruence). lia. }
        destruct (aget cid (exits (set_now t s1))) as [e|] eqn:Ee; [|discriminate].
        destruct (g_exit _ _ _ _ _ _ _ _ G0 _ _ Hi Ee) as [(k2 & Hbr2 & Hk2 & Hn2 & _) _]. fold h in Hk2.
        assert (k2 = k) by (apply (nd_inj p Hp); fold h; try lia; congruence). subst k2.
        destruct Hbr2 as [Hbr2|(Hcut & Hkj)]; [left; exact Hbr2 | right; right; split; assumption].
      * exfalso. destruct (kind_up_facts _ Hup) as (_ & _ & _ & H6). congruence.
Qed.

(* ---------------------------------------------------------------- one network step *)
Lemma wgood_take w i keep : wgood w -> wgood (take_msg w i keep).
Proof.
  intros [Wn Wf]. unfold take_msg. destruct keep; [split; assumption|]. split; [exact Wn|].
  simpl. intros m H. apply Wf. eapply in_remove_nth; eauto.
Qed.

Lemma quiet_ev_ok n e :
  quiet_label (p_ids p) (NLocal n e) = true -> (forall s, ev_ok I s e) /\ not_path_cell e.
Proof.
  destruct e; simpl; intro H; try (split; [intro s; exact Logic.I | exact Logic.I]); fold I in H;
    apply negb_true_iff in H; try (split; [intro s; exact H | exact Logic.I]).
  split; [|exact H]. intros s _ m _ Hi. congruence.
Qed.

Lemma nstep_good w tl : wgood w -> winv w -> step_ok st D (p_ids p) dead w tl = true -> wgood (nstep st w tl).
Proof.
  intros W Wi Hok. destruct tl as [t l]. unfold step_ok in Hok.
  repeat (apply andb_true_iff in Hok; destruct Hok as [Hok ?]).
  rename Hok into Htime, H into Hal, H0 into Hq, H1 into Hty, H2 into Hlife.
  unfold step_timely, step_within, step_typed, step_alive in *. simpl fst in *. simpl snd in *. unfold nstep. simpl fst. simpl snd.
  destruct l as [i keep plain len cr ls|i|n e].
  - (* a message is delivered *)
    simpl in Htime. destruct (nth_error (flight w) i) as [m|] eqn:En; [|exact W].
    assert (Hm : mgood m) by (apply (proj2 W); eapply nth_error_In; eauto).
    pose proof (wgood_take w i keep W) as W1.
    assert (Nodes1 : nodes (take_msg w i keep) = nodes w) by (unfold take_msg; destruct keep; reflexivity).
    assert (Wi1 : winv (take_msg w i keep)) by (intros n s; rewrite Nodes1; apply Wi).
    destruct m as [src dst cid early mid sent|src dst cid reason sent].
    + assert (Hon : forall s, aget dst (nodes (take_msg w i keep)) = Some s -> on_time st s t = true).
      { intros s Hs. rewrite Nodes1 in Hs. rewrite Hs in Htime. exact Htime. }
      destruct (I cid) eqn:Hi.
      * eapply deliver_good; eauto. simpl in Hlife. lia.
        intros s m Hs Hnr Hc. rewrite Nodes1 in Hs. subst cr. simpl in Hty. unfold relaying in Hty.
        rewrite Hs in Hty. unfold ahas in Hty. rewrite Hnr in Hty. lia.
        intros (Hcut & Hc). simpl in Hal. unfold P09_network_inv.cut, cutj in Hcut. apply andb_true_iff in Hcut.
        destruct Hcut as [_ Hcut]. subst cid. rewrite Hcut in Hal. discriminate.
      * apply event_good_other; auto. intro s. simpl. intros _ m _ Hc. congruence.
    + apply event_good_other; auto; try exact Logic.I; try (intro s; exact Logic.I).
      intros s Hs. rewrite Nodes1 in Hs. rewrite Hs in Htime. exact Htime.
  - destruct W as [Wn Wf]. split; [exact Wn|]. simpl. intros m H. apply Wf. eapply in_remove_nth; eauto.
  - destruct (quiet_ev_ok n e Hq) as [He Hn]. apply event_good_other; auto.
    intros s Hs. simpl in Htime. rewrite Hs in Htime. exact Htime.
Qed.

(* ---------------------------------------------------------------- the per-node invariant of C09 *)
Lemma node_event_inv w n t e inherit :
  winv w -> (forall s, aget n (nodes w) = Some s -> on_time st s t = true) -> winv (node_event st w n t e inherit).
Proof.
  intros Wi Hon. unfold node_event. destruct (aget n (nodes w)) as [s|] eqn:En; [|exact Wi].
  intros n' s1 Hg. simpl in Hg. rewrite aget_aset in Hg. destruct (n' =? n) eqn:E; [|apply (Wi _ _ Hg)].
  inversion Hg; subst s1. apply step_inv; [exact Hst | apply Hon; reflexivity | apply (Wi _ _ En)].
Qed.

Lemma nstep_inv w tl : winv w -> step_timely st w tl = true -> winv (nstep st w tl).
Proof.
  intros Wi Ht. destruct tl as [t l]. unfold step_timely in Ht. simpl fst in Ht. simpl snd in Ht.
  unfold nstep. simpl fst. simpl snd. destruct l as [i keep plain len cr ls|i|n e].
  - simpl in Ht. destruct (nth_error (flight w) i) as [m|]; [|exact Wi].
    assert (Nodes1 : nodes (take_msg w i keep) = nodes w) by (unfold take_msg; destruct keep; reflexivity).
    destruct m as [src dst cid early mid sent|src dst cid reason sent]; apply node_event_inv;
      try (intros n s; rewrite Nodes1; apply Wi); intros s Hs; rewrite Nodes1 in Hs; rewrite Hs in Ht; exact Ht.
  - exact Wi.
  - apply node_event_inv; [exact Wi|]. intros s Hs. simpl in Ht. rewrite Hs in Ht. exact Ht.
Qed.

Lemma nrun_inv tr : forall w, winv w -> nrun_timely st w tr = true -> winv (nrun st w tr).
Proof.
  induction tr as [|tl rest IH]; intros w W H; [exact W|].
  simpl in H. apply andb_true_iff in H. destruct H as [H1 H2]. simpl. apply IH; [|exact H2].
  apply nstep_inv; assumption.
Qed.

Lemma step_ok_timely ids dd w tl : step_ok st D ids dd w tl = true -> step_timely st w tl = true.
Proof. unfold step_ok. intro H. repeat (apply andb_true_iff in H; destruct H as [H ?]). exact H. Qed.

Lemma nrun_ok_timely ids dd tr : forall w, nrun_ok st D ids dd w tr = true -> nrun_timely st w tr = true.
Proof.
  induction tr as [|tl rest IH]; intros w H; [reflexivity|].
  simpl in H. apply andb_true_iff in H. destruct H as [H1 H2]. simpl. rewrite (IH _ H2), andb_true_r.
  eapply step_ok_timely; eauto.
Qed.

Lemma nrun_good tr : forall w,
  wgood w -> winv w -> nrun_ok st D (p_ids p) dead w tr = true -> wgood (nrun st w tr) /\ winv (nrun st w tr).
Proof.
  induction tr as [|tl rest IH]; intros w W Wi H; [split; assumption|].
  simpl in H. apply andb_true_iff in H. destruct H as [H1 H2]. simpl. apply IH; [| |exact H2].
  - apply nstep_good; assumption.
  - apply nstep_inv; [exact Wi | eapply step_ok_timely; eauto].
Qed.

Lemma init_winv names t0 : winv (init_net names t0).
Proof.
  intros n s Hg. apply aget_in in Hg. simpl in Hg. apply in_map_iff in Hg. destruct Hg as (x & E & _).
  inversion E; subst. apply inv_init.
Qed.

(* ---------------------------------------------------------------- the bound *)
Lemma B_path_eq : B_path st D h = 2 * Z.of_nat h * D + B_entry st.
Proof. reflexivity. Qed.

Lemma reclaimed_node w T n s x :
  wgood w -> winv w -> aget n (nodes w) = Some s -> on_time st s T = true ->
  tq + B_path st D h < T -> I x = true -> holds_id s x = false.
Proof.
  intros [Wn _] Wi Hg Hon HT Hi. pose proof (Wn _ _ Hg) as G. pose proof (Wi _ _ Hg) as Iv.
  rewrite B_path_eq in HT. pose proof Hst as (Hmi & Hsw & Hdl & _).
  assert (N : 0 <= 2 * Z.of_nat h * D) by (apply Z.mul_nonneg_nonneg; lia).
  unfold holds_id.
  destruct (aget x (circuits s)) as [c|] eqn:Ec.
  - exfalso. destruct (g_circ _ _ _ _ _ _ _ _ G _ _ Hi Ec) as (_ & _ & [(_ & due & Hin & Hle)|(Hcl & _ & Hgo & _ & Hla)]).
    + unfold on_time in Hon. repeat (apply andb_true_iff in Hon; destruct Hon as [Hon ?]).
      rewrite forallb_forall in H1. specialize (H1 _ Hin). simpl in H1. unfold B_entry in HT. lia.
    + pose proof (alive_time s T x c Iv Hon Ec Hcl Hgo). unfold P09_network_inv.Lq in Hla. unfold B_entry in *. lia.
  - destruct (aget x (relays s)) as [r|] eqn:Er.
    + exfalso. destruct (g_rel _ _ _ _ _ _ _ _ G _ _ Hi Er) as [_ Hla].
      pose proof (relay_bound_l st Hst s T x r Iv Hon Er). unfold P09_network_inv.Tmax in Hla. fold h in Hla. lia.
    + destruct (aget x (exits s)) as [e|] eqn:Ee.
      * exfalso. destruct (g_exit _ _ _ _ _ _ _ _ G _ _ Hi Ee) as [_ Hla].
        pose proof (exit_bound_l st Hst s T x e Iv Hon Ee). unfold P09_network_inv.Tmax in Hla. fold h in Hla. lia.
      * unfold ahas. rewrite Ec, Er, Ee. reflexivity.
Qed.

End Main.

(* ================================================================ the statements of props/C09_path.v *)
Section Final.
Variable st : settings.
Hypothesis Hst : settings_ok st.

(* from any network state whose nodes satisfy the C09 node invariant *)
Lemma path_reclaim_from_l D p tq j dead wq tr T :
  0 <= D ->
  (forall n s, aget n (nodes wq) = Some s -> inv st s) ->
  quiet_shape_b st D p tq j dead wq = true ->
  nrun_ok st D (p_ids p) dead wq tr = true ->
  tq + B_path st D (p_len p) < T ->
  forall n s x, aget n (nodes (nrun st wq tr)) = Some s -> on_time st s T = true ->
    In x (p_ids p) -> holds_id s x = false.
Proof.
  intros HD Wi Hq Hrun HT n s x Hg Hon Hx.
  assert (Hpj : path_ok_b p = true /\ (j <= p_len p)%nat).
  { pose proof Hq as Hq'. unfold quiet_shape_b in Hq'. apply andb_true_iff in Hq'. destruct Hq' as [Hq' _].
    apply andb_true_iff in Hq'. destruct Hq' as [Hq' _]. apply andb_true_iff in Hq'. destruct Hq' as [H1 H2].
    split; [exact H1 | apply Nat.leb_le; exact H2]. }
  destruct Hpj as [Hp Hj].
  destruct (nrun_good st D p tq j dead Hst HD Hp Hj tr wq) as [W' Wi']; auto.
  { apply (quiet_shape_sound st D p tq j dead HD Hp Hj); auto. }
  eapply (reclaimed_node st D p tq j dead); eauto.
  apply inI_in. exact Hx.
Qed.

(* the node names of a network never change *)
Lemma aset_keys {A} k (v : A) l : ahas k l = true -> map fst (aset k v l) = map fst l.
Proof.
  unfold ahas. induction l as [|[k0 v0] tl IH]; simpl; [discriminate|].
  destruct (k =? k0) eqn:E; simpl; [apply Z.eqb_eq in E; subst; reflexivity|].
  intro H. f_equal. apply IH. exact H.
Qed.

Lemma node_event_keys w n t e inh : map fst (nodes (node_event st w n t e inh)) = map fst (nodes w).
Proof.
  unfold node_event. destruct (aget n (nodes w)) eqn:E; [|reflexivity]. simpl.
  apply aset_keys. unfold ahas. rewrite E. reflexivity.
Qed.

Lemma nstep_keys w tl : map fst (nodes (nstep st w tl)) = map fst (nodes w).
Proof.
  destruct tl as [t l]. unfold nstep. simpl fst. simpl snd. destruct l as [i keep plain len cr ls|i|n e].
  - destruct (nth_error (flight w) i) as [m|]; [|reflexivity].
    assert (N : nodes (take_msg w i keep) = nodes w) by (unfold take_msg; destruct keep; reflexivity).
    destruct m; rewrite node_event_keys, N; reflexivity.
  - reflexivity.
  - apply node_event_keys.
Qed.

Lemma nrun_keys tr : forall w, map fst (nodes (nrun st w tr)) = map fst (nodes w).
Proof. induction tr as [|tl rest IH]; intro w; [reflexivity|]. simpl. rewrite IH. apply nstep_keys. Qed.

Lemma in_aget_nodup {A} k (v : A) l : NoDup (map fst l) -> In (k, v) l -> aget k l = Some v.
Proof.
  induction l as [|[k0 v0] tl IH]; simpl; [tauto|]. intros Hn [H|H].
  - inversion H; subst. rewrite Z.eqb_refl. reflexivity.
  - inversion Hn; subst. destruct (k =? k0) eqn:E; [|apply IH; assumption].
    apply Z.eqb_eq in E. subst k0. exfalso. apply H2. apply in_map_iff. exists (k, v). auto.
Qed.

Lemma init_keys names t0 : map fst (nodes (init_net names t0)) = names.
Proof. unfold init_net. simpl. rewrite map_map. simpl. apply map_id. Qed.

(* from the initial network: histories before the quiet point need only be served on time *)
Lemma path_reclaim_l D p tq j dead names t0 tr1 tr2 T :
  0 <= D -> nodup_b names = true ->
  nrun_timely st (init_net names t0) tr1 = true ->
  let wq := nrun st (init_net names t0) tr1 in
  quiet_shape_b st D p tq j dead wq = true ->
  nrun_ok st D (p_ids p) dead wq tr2 = true ->
  let wT := nrun st wq tr2 in
  all_on_time st wT T = true ->
  tq + B_path st D (p_len p) < T ->
  net_holds wT (p_ids p) = false.
Proof.
  intros HD Hnd Ht1 wq Hq Hrun wT Hall HT.
  assert (Wi : forall n s, aget n (nodes wq) = Some s -> inv st s).
  { apply (nrun_inv st Hst); [apply init_winv | exact Ht1]. }
  assert (Keys : NoDup (map fst (nodes wT))).
  { unfold wT, wq. rewrite !nrun_keys, init_keys. apply nodup_b_sound. exact Hnd. }
  unfold net_holds. destruct (existsb _ (nodes wT)) eqn:E; [|reflexivity]. exfalso.
  apply existsb_exists in E. destruct E as ([n s] & Hin & E). unfold holds_any in E. simpl in E.
  apply existsb_exists in E. destruct E as (x & Hx & E).
  pose proof (in_aget_nodup _ _ _ Keys Hin) as Hg.
  assert (Hon : on_time st s T = true).
  { unfold all_on_time in Hall. rewrite forallb_forall in Hall. apply (Hall (n, s) Hin). }
  pose proof (path_reclaim_from_l D p tq j dead wq tr2 T HD Wi Hq Hrun HT n s x Hg Hon Hx) as R.
  unfold holds_id in R. rewrite R in E. discriminate.
Qed.

End Final.
