(* C13 - small facts shared by the scenario sweeps (kept apart so that the extension C13x does not drag the
   base sweep into its closure): completeness of the enumerated domains, boolean equalities, and
   "a scripted history keeps the network well formed". *)
From Coq Require Import ZArith List Bool Lia ZifyBool Arith.
From IPV8V Require Import lib.PyErr gen.G13_lan model.M13_nat model.M13_scenario proofs.P13_proto proofs.P13_nat.
Import ListNotations.
Open Scope Z_scope.

Lemma all_types_complete t : In t all_types.
Proof. destruct t; cbn; auto. Qed.
Lemma bools_complete b : In b bools.
Proof. destruct b; cbn; auto. Qed.

Definition verdict_eqb (a b : verdict) : bool :=
  Bool.eqb (v_quiet a) (v_quiet b) && Bool.eqb (v_introduced a) (v_introduced b)
  && Bool.eqb (v_puncture_req a) (v_puncture_req b) && Bool.eqb (v_puncture a) (v_puncture b)
  && Bool.eqb (v_request a) (v_request b) && Bool.eqb (v_response a) (v_response b)
  && Bool.eqb (v_mutual a) (v_mutual b) && Bool.eqb (v_lan a) (v_lan b).
Lemma verdict_eqb_eq a b : verdict_eqb a b = true -> a = b.
Proof.
  destruct a, b. unfold verdict_eqb. cbn. rewrite !andb_true_iff.
  intros [[[[[[[H1 H2] H3] H4] H5] H6] H7] H8].
  apply eqb_prop in H1, H2, H3, H4, H5, H6, H7, H8. subst. reflexivity.
Qed.

Definition opt_eqb (a : option Z) (b : Z) : bool := match a with Some x => x =? b | None => false end.

Lemma existsb_eqb_in x l : existsb (Z.eqb x) l = true -> In x l.
Proof. rewrite existsb_exists. intros (y & Hin & E). apply Z.eqb_eq in E. subst. exact Hin. Qed.

Lemma list_eqb_eq {A} (eqb : A -> A -> bool) (l1 l2 : list A) :
  (forall x y, eqb x y = true -> x = y) -> list_eqb eqb l1 l2 = true -> l1 = l2.
Proof.
  intros H. revert l2. induction l1 as [|x tl IH]; intros [|y tl2]; cbn; try discriminate; [reflexivity|].
  intros E. apply andb_true_iff in E. destruct E as [E1 E2]. rewrite (H _ _ E1), (IH _ E2). reflexivity.
Qed.
Lemma outcome_eqb_eq a b : outcome_eqb a b = true -> a = b.
Proof.
  destruct a as [h s|d], b as [h' s'|d']; cbn; try discriminate.
  - intros E. apply andb_true_iff in E. destruct E as [E1 E2]. apply Z.eqb_eq in E1. apply addr_eqb_eq in E2.
    subst. reflexivity.
  - destruct d, d'; cbn; try discriminate; reflexivity.
Qed.

Lemma send1_wf w hid out : net_wf (w_net w) -> net_wf (w_net (send1 w hid out)).
Proof.
  intros W. unfold send1. destruct out as [dst m]. destruct (route (w_net w) hid dst) as [n' oc] eqn:R.
  cbn [w_net]. eapply route_wf; eassumption.
Qed.
Lemma send_all_wf outs : forall w hid, net_wf (w_net w) -> net_wf (w_net (send_all w hid outs)).
Proof.
  unfold send_all. induction outs as [|o tl IH]; intros w hid W; cbn [fold_left]; [exact W|].
  apply IH. apply send1_wf. exact W.
Qed.
Lemma set_node_net w n : w_net (set_node w n) = w_net w.
Proof. reflexivity. Qed.
Lemma deliver_one_wf w : net_wf (w_net w) -> net_wf (w_net (deliver_one w)).
Proof.
  intros W. unfold deliver_one. destruct (w_queue w) as [|[[hid src] m] tl]; [exact W|].
  match goal with |- context [find_node ?w1 hid] => destruct (find_node w1 hid) as [n|] end; [|exact W].
  destruct (handle n src m) as [n' outs]. apply send_all_wf. exact W.
Qed.
Lemma pump_wf fuel : forall w, net_wf (w_net w) -> net_wf (w_net (pump fuel w)).
Proof.
  induction fuel as [|f IH]; intros w W; cbn [pump]; [exact W|].
  destruct (w_queue w) eqn:Q; [exact W|]. apply IH. apply deliver_one_wf. exact W.
Qed.
Lemma walk1_wf w h dst st : net_wf (w_net w) -> net_wf (w_net (walk1 w h dst st)).
Proof.
  intros W. unfold walk1. destruct (find_node w h) as [n|]; [|exact W].
  destruct (make_request n dst _) as [n' m]. apply send1_wf. exact W.
Qed.
Lemma step_op_wf w o : net_wf (w_net w) -> net_wf (w_net (step_op w o)).
Proof.
  intros W. destruct o; cbn [step_op].
  - apply walk1_wf. exact W.
  - destruct (find_node w h) as [n|]; [|exact W]. destruct (find_peer key (n_peers n)); [|exact W].
    apply walk1_wf. exact W.
  - destruct (find_node w h) as [n|]; [|exact W].
    generalize (walkable n). intros l. revert w W. induction l as [|a tl IH]; intros w W; cbn [fold_left]; [exact W|].
    apply IH. apply walk1_wf. exact W.
  - cbn [w_net]. apply rebind_wf. exact W.
  - apply pump_wf. exact W.
Qed.
Lemma run_ops_wf ops : forall w, net_wf (w_net w) -> net_wf (w_net (run_ops w ops)).
Proof.
  unfold run_ops. induction ops as [|o tl IH]; intros w W; cbn [fold_left]; [exact W|].
  apply IH. apply step_op_wf. exact W.
Qed.

