(* C15 - the base64 encoder of the model is injective on byte strings (so the identity text a token is bound to
   determines the member id), and a toy instance of all primitives satisfies the hypotheses of the theorems. *)
From Coq Require Import ZArith List Bool Lia ZifyBool Arith.
From IPV8V Require Import lib.PyErr lib.Bytes lib.BE gen.G15_consts model.M15_dht_store.
Import ListNotations.
Open Scope Z_scope.

Definition idx64 : list nat := seq 0 64.

Lemma in_idx64 i : 0 <= i < 64 -> In (Z.to_nat i) idx64.
Proof. intros H. apply in_seq. lia. Qed.

Lemma b64c_not_pad i : 0 <= i < 64 -> b64c i <> 61.
Proof.
  intros H.
  assert (C : forallb (fun n => negb (b64c (Z.of_nat n) =? 61)) idx64 = true) by (vm_compute; reflexivity).
  rewrite forallb_forall in C. specialize (C _ (in_idx64 i H)). rewrite Z2Nat.id in C by lia.
  apply negb_true_iff in C. lia.
Qed.

Lemma b64c_inj i j : 0 <= i < 64 -> 0 <= j < 64 -> b64c i = b64c j -> i = j.
Proof.
  intros Hi Hj E.
  assert (C : forallb (fun n => forallb (fun m => implb (b64c (Z.of_nat n) =? b64c (Z.of_nat m)) (Nat.eqb n m)) idx64) idx64 = true)
    by (vm_compute; reflexivity).
  rewrite forallb_forall in C. specialize (C _ (in_idx64 i Hi)).
  rewrite forallb_forall in C. specialize (C _ (in_idx64 j Hj)).
  rewrite !Z2Nat.id in C by lia. rewrite E, Z.eqb_refl in C. cbn [implb] in C.
  apply Nat.eqb_eq in C. lia.
Qed.

Ltac b64_range := Z.div_mod_to_equations; lia.

Lemma b64_inj_len n : forall a b, (length a <= n)%nat -> bytes_ok a -> bytes_ok b -> b64 a = b64 b -> a = b.
Proof.
  induction n as [|n IH]; intros a b Hl Ha Hb E.
  - destruct a; [|cbn in Hl; lia]. destruct b as [|x [|y [|z tb]]]; [reflexivity| | |]; cbn [b64] in E; discriminate.
  - unfold bytes_ok in Ha, Hb.
    destruct a as [|x [|y [|z ta]]]; destruct b as [|x' [|y' [|z' tb]]]; cbn [b64] in E; try discriminate; try reflexivity;
      repeat match goal with
             | H : Forall _ (_ :: _) |- _ => apply Forall_cons_iff in H; destruct H
             end;
      injection E; intros;
      repeat match goal with
             | H : 61 = b64c ?i |- _ => exfalso; apply (b64c_not_pad i); [b64_range | symmetry; exact H]
             | H : b64c ?i = 61 |- _ => exfalso; apply (b64c_not_pad i); [b64_range | exact H]
             | H : b64c ?i = b64c ?j |- _ => apply b64c_inj in H; [|b64_range|b64_range]
             end.
    + f_equal. b64_range.
    + f_equal; [b64_range|]. f_equal. b64_range.
    + assert (ta = tb) by (apply IH; [cbn [length] in Hl; lia | assumption | assumption | assumption]).
      subst tb. f_equal; [b64_range|]. f_equal; [b64_range|]. f_equal. b64_range.
Qed.

Lemma b64_inj a b : bytes_ok a -> bytes_ok b -> b64 a = b64 b -> a = b.
Proof. apply (b64_inj_len (length a)). lia. Qed.

(* ---- the toy instance ---- *)
Lemma toy_hash_inj a b : toy_hash a = toy_hash b -> a = b.
Proof. exact (fun H => H). Qed.

Lemma toy_enc_inj a b : toy_enc a = toy_enc b -> a = b.
Proof.
  revert b; induction a as [|x a IH]; intros [|y b] H; cbn [toy_enc flat_map app] in H; try discriminate; [reflexivity|].
  injection H; intros H3 H2 H1. f_equal; [b64_range | apply IH; exact H3].
Qed.

Lemma toy_sign_ok sk msg : length (toy_sign sk msg) = 2%nat /\ toy_verify sk msg (toy_sign sk msg) = true.
Proof. split; [reflexivity | apply bytes_eqb_refl]. Qed.
