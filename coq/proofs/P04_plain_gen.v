(* C04x / C05x - the plaintext rule on the receive path GENERATED from the source (gen/G03_recv.v, tools/tr/tr_recv.py):
   a cell whose plaintext flag is set and whose first message byte is neither create nor created never reaches a
   handler, whatever the routing tables hold for its circuit id. *)
From Coq Require Import ZArith List Bool Lia Arith.
From IPV8V Require Import lib.PyErr lib.Bytes lib.BE gen.G03_recv model.M03_recv_gen proofs.P03_recv_gen.
Import ListNotations.
Open Scope Z_scope.

Section Plain.
Variable o_handler : nat -> Z -> addr -> bytes -> option Z -> world -> world * res hres.
Variable o_decrypt : Z -> bytes -> Z -> res bytes.
Variable o_encrypt : Z -> bytes -> Z -> res bytes.
Variable o_peer : nat -> addr -> world -> option Z.
Variable cfg : config.

Notation from_bin := (CellPayload_from_bin cfg).
Notation decrypt_cell := (PythonCryptoEndpoint_decrypt_cell o_decrypt cfg).
Notation incoming_crypto := (PythonCryptoEndpoint_incoming_crypto o_decrypt cfg).
Notation on_cell := (TunnelCommunity_on_cell o_handler cfg).
Notation process_cell := (PythonCryptoEndpoint_process_cell o_handler o_decrypt o_encrypt o_peer cfg).

(* nothing observable happened between s0 and s': same tables, at most failed reads were recorded *)
Definition quiet (s0 s' : st) : Prop :=
  s_w s' = s_w s0 /\ exists bad, s_evs s' = bad ++ s_evs s0 /\ Forall (fun e => e = EvBadRead) bad.
Lemma quiet_refl s : quiet s s.
Proof. split; [reflexivity|]. exists []. split; [reflexivity|constructor]. Qed.
Lemma quiet_bad s0 s s' : quiet s0 s -> s_w s' = s_w s -> s_evs s' = EvBadRead :: s_evs s -> quiet s0 s'.
Proof.
  intros [Hw (bad & He & Hb)] Ew Ee. split; [congruence|]. exists (EvBadRead :: bad). split; [rewrite Ee, He; reflexivity|].
  constructor; [reflexivity|exact Hb].
Qed.
Lemma quiet_same s0 s s' : quiet s0 s -> s_w s' = s_w s -> s_evs s' = s_evs s -> quiet s0 s'.
Proof. intros [Hw (bad & He & Hb)] Ew Ee. split; [congruence|]. exists bad. split; [congruence|exact Hb]. Qed.
Definition qpost {A} (s0 : st) : st -> res A -> Prop := fun s' _ => quiet s0 s'.

(* the cell that from_bin makes of a datagram whose plaintext byte is set *)
Definition plain_cell_at (d : bytes) (s : st) (r : nat) : Prop :=
  c_plaintext (s_cells s r) = true /\ c_message (s_cells s r) = slice d (Some 29) None.

Lemma from_bin_plain d pt (Q : st -> res nat -> Prop) s s0 :
  unpack_u 1 d 27 = Ok pt -> pt <> 0 -> quiet s0 s ->
  (forall s' r cid, quiet s0 s' -> s_w s' = s_w s -> plain_cell_at d s' r -> unpack_u 4 d 23 = Ok cid ->
                    c_circuit_id (s_cells s' r) = cid -> Q s' (Ok r)) ->
  (forall s' e, quiet s0 s' -> Q s' (Raise e)) ->
  wp (from_bin d) Q s.
Proof.
  intros Hpt Hnz Hq HOk HBad. unfold CellPayload_from_bin. wps.
  destruct (unpack_u 6 d 23) as [v|e] eqn:E6.
  2:{ intros s' E1 E2 E3 E4. apply HBad. eapply quiet_bad; eauto. }
  wps. change (23 + 0) with 23. destruct (unpack_u 4 d 23) as [cid|e] eqn:E4.
  2:{ intros s' F1 F2 F3 F4. apply HBad. eapply quiet_bad; eauto. }
  wps. change (23 + 4) with 27. rewrite Hpt. wps.
  destruct (unpack_u 1 d (23 + 5)) as [re|e] eqn:E1.
  2:{ intros s' F1 F2 F3 F4. apply HBad. eapply quiet_bad; eauto. }
  wps. apply wp_new_cell. intros s' F1 F2 F3 F4. eapply HOk.
  - eapply quiet_same; eauto.
  - exact F1.
  - unfold plain_cell_at. rewrite F4, Nat.eqb_refl. cbn. split; [|reflexivity].
    destruct (pt =? 0) eqn:E; [lia|reflexivity].
  - reflexivity.
  - rewrite F4, Nat.eqb_refl. reflexivity.
Qed.

Theorem on_cell_plaintext_dropped l a d pt s :
  unpack_u 1 d 27 = Ok pt -> pt <> 0 ->
  (forall m0, idx (slice d (Some 29) None) 0 = Ok m0 -> m0 <> 2 /\ m0 <> 3) ->
  wp (on_cell l a d) (qpost s) s.
Proof.
  intros Hpt Hnz Hm. unfold TunnelCommunity_on_cell. apply wp_bind.
  apply (from_bin_plain d pt _ s s Hpt Hnz (quiet_refl s)).
  2:{ intros s' e Hq. exact Hq. }
  intros s' r cid Hq Hw [Hp Hmsg] _ _. wps. rewrite Hp. wps. rewrite Hmsg.
  destruct (idx (slice d (Some 29) None) 0) as [m0|e] eqn:Ei.
  - wps. destruct (Hm m0 eq_refl) as [H2 H3]. cbn [existsb].
    replace (m0 =? 2) with false by lia. replace (m0 =? 3) with false by lia. cbn. wps. exact Hq.
  - intros s2 F1 F2 F3 F4. eapply quiet_bad; eauto.
Qed.

Lemma decrypt_cell_plain l c dir hops (Q : st -> res unit -> Prop) s :
  c_plaintext (s_cells s c) = true -> Q s (Ok tt) -> wp (decrypt_cell l c dir hops) Q s.
Proof. intros Hp HQ. unfold PythonCryptoEndpoint_decrypt_cell. wps. rewrite Hp. wps. exact HQ. Qed.

(* incoming_crypto on a plaintext cell: the cell is handed back untouched, or an exception escapes; nothing else *)
Lemma incoming_crypto_plain l c (Q : st -> res (option nat) -> Prop) s :
  c_plaintext (s_cells s c) = true ->
  Q s (Ok (Some c)) -> (forall e, Q s (Raise e)) -> wp (incoming_crypto l c) Q s.
Proof.
  intros Hp HOk HR. unfold PythonCryptoEndpoint_incoming_crypto. wps.
  destruct (dict_get Z.eqb (c_circuit_id (s_cells s c)) (w_circuits (s_w s) l)) as [ci|] eqn:Eci;
  destruct (dict_get Z.eqb (c_circuit_id (s_cells s c)) (w_exit_sockets (s_w s) l)) as [xs|] eqn:Exs;
  cbn [is_some negb deref andb].
  all: repeat first [ wp1 | rewrite Hp | apply decrypt_cell_plain; [exact Hp|]
                    | progress cbn [is_some negb deref exn_in existsb exn_eqb orb]
                    | match goal with |- wp (if ?c then _ else _) _ _ => destruct c eqn:? end
                    | match goal with |- wp (match ?c with _ => _ end) _ _ => destruct c eqn:? end
                    | match goal with |- context [deref ?y] => lazymatch y with Some _ => fail | None => fail | _ => destruct y eqn:? end end
                    | match goal with |- context [is_some ?y] => lazymatch y with Some _ => fail | None => fail | _ => destruct y eqn:? end end ].
  all: try exact HOk; try apply HR.
Qed.

Theorem process_cell_plaintext_dropped l a d pt cid s :
  unpack_u 1 d 27 = Ok pt -> pt <> 0 ->
  (forall m0, idx (slice d (Some 29) None) 0 = Ok m0 -> m0 <> 2 /\ m0 <> 3) ->
  unpack_u 4 d 23 = Ok cid -> dict_get Z.eqb cid (w_relays (s_w s) l) = None ->
  wp (process_cell l a d) (qpost s) s.
Proof.
  intros Hpt Hnz Hm Hcid Hrel. unfold PythonCryptoEndpoint_process_cell.
  destruct (blen d <? 29); [wps; apply quiet_refl|]. apply wp_bind.
  apply (from_bin_plain d pt _ s s Hpt Hnz (quiet_refl s)).
  2:{ intros s' e Hq. exact Hq. }
  intros s' r cid' Hq Hw [Hp Hmsg] Hc Hcr.
  assert (Ecid : cid' = cid) by (rewrite Hcid in Hc; inversion Hc; reflexivity). rewrite Ecid in Hcr. clear Ecid Hc. wps.
  rewrite Hcr, Hw, Hrel. cbn [is_some]. wps.
  apply incoming_crypto_plain; [exact Hp| |intros e; exact Hq].
  destruct (idx (slice d (Some 29) None) 0) as [m0|e] eqn:Ei.
  - destruct (Hm m0 eq_refl) as [H2 H3].
    assert (Hn : negb (existsb (Z.eqb m0) [2; 3]) = true).
    { cbn [existsb]. replace (m0 =? 2) with false by lia. replace (m0 =? 3) with false by lia. reflexivity. }
    repeat first [ wp1 | rewrite Hp | rewrite Hmsg | rewrite Ei | rewrite Hn | progress cbn [is_some negb andb orb]
                 | exact Hq
                 | match goal with |- wp (PythonCryptoEndpoint_max_relay_early _ _) _ _ => apply max_relay_early_spec; intros ? end
                 | match goal with |- wp (if ?c then _ else _) _ _ => destruct c eqn:? end ].
  - repeat first [ wp1 | rewrite Hp | rewrite Hmsg | rewrite Ei | progress cbn [is_some negb andb orb]
                 | exact Hq
                 | match goal with |- forall _, _ => intros s2 F1 F2 F3 F4; eapply quiet_bad; eauto end
                 | match goal with |- wp (if ?c then _ else _) _ _ => destruct c eqn:? end ].
Qed.
End Plain.
