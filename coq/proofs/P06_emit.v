From Coq Require Import ZArith List Bool Lia ZifyBool.
From IPV8V Require Import lib.PyErr lib.Bytes lib.BE gen.G06_datachecker spec.S06_policy
  model.M06_emit proofs.P06_classifier.
Import ListNotations.
Open Scope Z_scope.

Section Emit.
Variable flags : list Z.
Variable prefix : bytes.
Variable prev_ip : Z.

Notation sendto := (sendto flags prefix).
Notation step := (step flags prefix prev_ip).
Notation run := (run flags prefix prev_ip).
Notation drain := (drain flags prefix).
Notation allowed := (allowed flags prefix).

Definition out_ok (o : out) : Prop :=
  match o with
  | Sendto data d => permitted flags prefix data = true /\ d <> DNull
  | SendData _ data => permitted flags prefix data = true
  end.

Definition ip_dest (d : dest) : Prop := match d with DV4 _ _ | DV6 _ _ => True | _ => False end.

Definition op_ok (o : op) : Prop :=
  match o with
  | ExitData _ _ _ data => bytes_ok data
  | TransportsCreated => True
  | Resolved _ _ d => ip_dest d          (* the resolver yields IP addresses (environment hypothesis) *)
  | Outside _ _ _ data => bytes_ok data
  end.

Definition qitem_ok (x : bytes * dest) : Prop := bytes_ok (fst x) /\ snd x <> DNull.

Record sock_ok (s : sock) : Prop := {
  ok_queue : Forall qitem_ok (queue s);
  ok_pending : Forall bytes_ok (pending s);
  ok_qlen : Z.of_nat (length (queue s)) <= EXIT_QUEUE_MAXLEN;
  ok_open : opened s = true -> enabled s = true /\ queue s = [];
  ok_quiet : enabled s = false -> pending s = [] /\ queue s = []
}.

Lemma allowed_permitted data : bytes_ok data -> allowed data = permitted flags prefix data.
Proof. intros H. unfold M06_emit.allowed. rewrite is_allowed_correct by assumption. reflexivity. Qed.

Lemma q_append_ok q x : Forall qitem_ok q -> qitem_ok x -> Forall qitem_ok (q_append q x).
Proof.
  intros Hq Hx. unfold q_append. destruct (Z.of_nat (length q) <? EXIT_QUEUE_MAXLEN).
  - apply Forall_app; split; [assumption|constructor; [assumption|constructor]].
  - apply Forall_app; split; [|constructor; [assumption|constructor]].
    destruct q; [constructor|]. inversion Hq; assumption.
Qed.

Lemma q_append_len q x : Z.of_nat (length q) <= EXIT_QUEUE_MAXLEN ->
  Z.of_nat (length (q_append q x)) <= EXIT_QUEUE_MAXLEN.
Proof.
  intros H. unfold q_append. destruct (Z.of_nat (length q) <? EXIT_QUEUE_MAXLEN) eqn:E.
  - rewrite app_length; simpl. lia.
  - rewrite app_length. destruct q; simpl in *.
    + unfold EXIT_QUEUE_MAXLEN in *. lia.
    + lia.
Qed.

Lemma q_append_nonempty q x : q_append q x <> [].
Proof. unfold q_append. destruct (_ <? _); intros H; apply app_eq_nil in H as [_ H]; discriminate. Qed.

Lemma sendto_ok s data d :
  sock_ok s -> enabled s = true -> bytes_ok data -> d <> DNull ->
  sock_ok (fst (sendto s data d)) /\ Forall out_ok (snd (sendto s data d))
  /\ enabled (fst (sendto s data d)) = true /\ opened (fst (sendto s data d)) = opened s.
Proof.
  intros Hs Hen Hd Hn. pose proof Hs as [Hq Hp Hl Ho Hqu]. unfold M06_emit.sendto.
  destruct (allowed data) eqn:Ha; cbn [negb].
  2:{ cbn [fst snd]. split; [exact Hs|]. split; [constructor|]. split; [exact Hen|reflexivity]. }
  assert (Hperm : permitted flags prefix data = true) by (rewrite <- allowed_permitted; assumption).
  assert (Hip : forall ds,
    (ds = (if negb (opened s) then
             (mkSock (enabled s) (opened s) (q_append (queue s) (data, d)) (pending s)
                     (bytes_up s) (bytes_down s), [])
           else
             (mkSock (enabled s) (opened s) (queue s) (pending s) (bytes_up s + blen data) (bytes_down s),
              [Sendto data d]))) ->
    sock_ok (fst ds) /\ Forall out_ok (snd ds) /\ enabled (fst ds) = true /\ opened (fst ds) = opened s).
  { intros ds ->. destruct (opened s) eqn:Hop; cbn [negb fst snd enabled opened].
    - split; [|split; [|split; [exact Hen|reflexivity]]].
      + constructor; cbn [queue pending enabled opened]; auto.
      + constructor; [|constructor]. split; assumption.
    - split; [|split; [constructor|split; [exact Hen|reflexivity]]].
      constructor; cbn [queue pending enabled opened].
      + apply q_append_ok; [assumption|split; assumption].
      + assumption.
      + apply q_append_len; assumption.
      + discriminate.
      + congruence. }
  destruct d as [|ip port|ip port|nm port]; [congruence| | |].
  - apply Hip; reflexivity.
  - apply Hip; reflexivity.
  - cbn [fst snd enabled opened]. split; [|split; [constructor|split; [exact Hen|reflexivity]]].
    constructor; cbn [queue pending enabled opened]; auto.
    + apply Forall_app; split; [assumption|constructor; [assumption|constructor]].
    + congruence.
Qed.

Lemma drain_ok q : forall s,
  sock_ok s -> enabled s = true -> opened s = true -> Forall qitem_ok q ->
  sock_ok (fst (drain s q)) /\ Forall out_ok (snd (drain s q)).
Proof.
  induction q as [|[data d] tl IH]; intros s Hs Hen Hop Hq; cbn [M06_emit.drain].
  - split; [assumption|constructor].
  - inversion Hq as [|? ? [Hd Hn] Hq']; subst. simpl in Hd, Hn.
    destruct (sendto_ok s data d Hs Hen Hd Hn) as (Hs1 & Ho1 & Hen1 & Hop1).
    destruct (sendto s data d) as [s1 o1]. cbn [fst snd] in *.
    specialize (IH s1 Hs1 Hen1 ltac:(congruence) Hq').
    destruct (drain s1 tl) as [s2 o2]. cbn [fst snd] in *.
    destruct IH as [IH1 IH2]. split; [assumption|]. apply Forall_app; split; assumption.
Qed.

Lemma remove_nth_forall {A} (P : A -> Prop) i l : Forall P l -> Forall P (remove_nth i l).
Proof.
  revert i; induction l as [|x l IH]; intros i H; destruct i; simpl; try assumption.
  - inversion H; assumption.
  - inversion H; subst. constructor; [assumption|]. apply IH; assumption.
Qed.

Lemma nth_error_forall {A} (P : A -> Prop) l i x : Forall P l -> nth_error l i = Some x -> P x.
Proof. intros H E. rewrite Forall_forall in H. apply H. eapply nth_error_In; eassumption. Qed.

Lemma step_ok s o :
  sock_ok s -> op_ok o -> sock_ok (fst (step s o)) /\ Forall out_ok (snd (step s o)).
Proof.
  intros Hs Ho. destruct o as [known src d data| |i ok d|v6 mapped src data]; cbn [M06_emit.step].
  - simpl in Ho. destruct (is_null d) eqn:Hn; [split; [assumption|constructor]|].
    assert (Hd : d <> DNull) by (intros ->; discriminate).
    destruct known; cbn [negb]; [|split; [assumption|constructor]].
    destruct (enabled s) eqn:Hen.
    + destruct (sendto_ok s data d Hs Hen Ho Hd) as (H1 & H2 & _). split; assumption.
    + destruct (src =? prev_ip); [|split; [assumption|constructor]].
      set (s' := mkSock true (opened s) (queue s) (pending s) (bytes_up s) (bytes_down s)).
      assert (Hs' : sock_ok s').
      { destruct Hs as [Hq Hp Hl Hop Hqu]. destruct (Hqu Hen) as [Ep Eq].
        subst s'. constructor; cbn [queue pending enabled opened]; auto; try discriminate. }
      destruct (sendto_ok s' data d Hs' eq_refl Ho Hd) as (H1 & H2 & _). split; assumption.
  - destruct (enabled s && negb (opened s)) eqn:E; [|split; [assumption|constructor]].
    apply andb_true_iff in E as [Hen Hop].
    destruct Hs as [Hq Hp Hl Ho' Hqu].
    apply drain_ok; cbn; auto.
    constructor; cbn [queue pending enabled opened]; auto; try discriminate;
      try (unfold EXIT_QUEUE_MAXLEN; simpl; lia).
  - simpl in Ho. destruct (nth_error (pending s) i) as [data|] eqn:En; [|split; [assumption|constructor]].
    set (s' := mkSock _ _ _ _ _ _).
    assert (Hen : enabled s = true).
    { destruct (enabled s) eqn:E; [reflexivity|]. destruct Hs as [_ _ _ _ Hqu].
      destruct (Hqu E) as [Ep _]. rewrite Ep in En. destruct i; discriminate. }
    assert (Hs' : sock_ok s').
    { destruct Hs as [Hq Hp Hl Hop Hqu]. constructor; cbn; auto.
      - apply remove_nth_forall; assumption.
      - intros E; congruence. }
    destruct ok; [|split; [assumption|constructor]].
    assert (Hd : d <> DNull) by (destruct d; simpl in Ho; try contradiction; congruence).
    assert (Hdata : bytes_ok data).
    { destruct Hs as [_ Hp _ _ _]. eapply nth_error_forall; eassumption. }
    destruct (sendto_ok s' data d Hs' Hen Hdata Hd) as (H1 & H2 & _). split; assumption.
  - simpl in Ho. destruct (opened s) eqn:Hop; cbn [negb]; [|split; [assumption|constructor]].
    destruct (v6 && mapped); [split; [assumption|constructor]|].
    assert (Hs' : sock_ok (mkSock (enabled s) (opened s) (queue s) (pending s) (bytes_up s)
                                  (bytes_down s + blen data))).
    { destruct Hs as [Hq Hp Hl Ho' Hqu]. constructor; cbn; auto. }
    rewrite Hop in Hs'.
    destruct (allowed data) eqn:Ha; cbn [fst snd]; (split; [assumption|]); [|constructor].
    constructor; [|constructor]. simpl. rewrite <- allowed_permitted; assumption.
Qed.

Lemma run_ok ops : forall s,
  sock_ok s -> Forall op_ok ops -> sock_ok (fst (run s ops)) /\ Forall out_ok (snd (run s ops)).
Proof.
  induction ops as [|o tl IH]; intros s Hs Hops; cbn [M06_emit.run].
  - split; [assumption|constructor].
  - inversion Hops as [|? ? Ho Htl]; subst.
    destruct (step_ok s o Hs Ho) as [H1 H2].
    destruct (step s o) as [s1 o1]. cbn [fst snd] in *.
    specialize (IH s1 H1 Htl). destruct (run s1 tl) as [s2 o2]. cbn [fst snd] in *.
    destruct IH as [IH1 IH2]. split; [assumption|]. apply Forall_app; split; assumption.
Qed.

Lemma init_ok : sock_ok init_sock.
Proof.
  constructor; cbn; auto; try discriminate; try (unfold EXIT_QUEUE_MAXLEN; lia).
Qed.

(* every emission, in either direction, from the fresh socket, over any history *)
Lemma emit_only_permitted_l ops :
  Forall op_ok ops -> Forall out_ok (snd (run init_sock ops)).
Proof. intros H. apply (run_ok ops init_sock init_ok H). Qed.

Lemma queue_bounded_l ops :
  Forall op_ok ops -> Z.of_nat (length (queue (fst (run init_sock ops)))) <= EXIT_QUEUE_MAXLEN.
Proof. intros H. destruct (run_ok ops init_sock init_ok H) as [[_ _ Hl _ _] _]. exact Hl. Qed.

(* the socket is opened only by data from the previous hop's IP, with a non-null destination *)
Lemma enabled_only_by_prev_hop_l s o :
  enabled s = false -> enabled (fst (step s o)) = true ->
  exists d data, o = ExitData true prev_ip d data /\ d <> DNull.
Proof.
  intros Hen H. destruct o as [known src d data| |i ok d|v6 mapped src data]; cbn [M06_emit.step] in H.
  - destruct (is_null d) eqn:Hn; [cbn in H; congruence|].
    destruct known; cbn [negb] in H; [|cbn in H; congruence].
    rewrite Hen in H. destruct (src =? prev_ip) eqn:E; [|cbn in H; congruence].
    exists d, data. apply Z.eqb_eq in E; subst. split; [reflexivity|]. intros ->; discriminate.
  - rewrite Hen in H. cbn in H. congruence.
  - destruct (nth_error (pending s) i); [|cbn in H; congruence].
    destruct ok.
    + unfold M06_emit.sendto in H. cbn [enabled opened queue pending] in H.
      destruct (negb _); [cbn in H; congruence|]. destruct d; cbn in H; try congruence;
        destruct (negb (opened s)); cbn in H; congruence.
    + cbn in H. congruence.
  - destruct (negb (opened s)); [cbn in H; congruence|]. destruct (v6 && mapped); [cbn in H; congruence|].
    destruct (allowed data); cbn in H; congruence.
Qed.

Lemma disabled_is_silent_l s o :
  sock_ok s -> enabled s = false -> enabled (fst (step s o)) = false -> snd (step s o) = [].
Proof.
  intros Hs Hen H. destruct Hs as [_ _ _ Hop Hqu]. destruct (Hqu Hen) as [Ep Eq].
  assert (Ho : opened s = false).
  { destruct (opened s) eqn:E; [|reflexivity]. destruct (Hop eq_refl); congruence. }
  destruct o as [known src d data| |i ok d|v6 mapped src data]; cbn [M06_emit.step] in *.
  - destruct (is_null d); [reflexivity|]. destruct known; cbn [negb] in *; [|reflexivity].
    rewrite Hen in *. destruct (src =? prev_ip); [|reflexivity].
    unfold M06_emit.sendto in *. cbn [enabled opened queue pending] in *.
    destruct (negb (allowed data)); [cbn in H; congruence|].
    destruct d; cbn in H; try congruence; rewrite Ho in H; cbn in H; congruence.
  - rewrite Hen. reflexivity.
  - rewrite Ep. destruct i; reflexivity.
  - rewrite Ho. reflexivity.
Qed.

(* a forbidden packet changes nothing but the download counter *)
Lemma forbidden_exit_noop_l s known src d data :
  enabled s = true -> allowed data = false -> step s (ExitData known src d data) = (s, []).
Proof.
  intros Hen Ha. cbn [M06_emit.step]. destruct (is_null d); [reflexivity|].
  destruct known; cbn [negb]; [|reflexivity]. rewrite Hen. unfold M06_emit.sendto. rewrite Ha. reflexivity.
Qed.

Lemma forbidden_outside_l s v6 mapped src data :
  allowed data = false ->
  snd (step s (Outside v6 mapped src data)) = [] /\
  let s' := fst (step s (Outside v6 mapped src data)) in
  enabled s' = enabled s /\ opened s' = opened s /\ queue s' = queue s /\ pending s' = pending s
  /\ bytes_up s' = bytes_up s.
Proof.
  intros Ha. cbn [M06_emit.step]. destruct (negb (opened s)); [cbn; auto 6|].
  destruct (v6 && mapped); [cbn; auto 6|]. rewrite Ha. cbn. auto 6.
Qed.

End Emit.
