(* C03x - lemmas about the receive path GENERATED from the source (gen/G03_recv.v). *)
From Coq Require Import ZArith List Bool Lia ZifyBool Arith.
From IPV8V Require Import lib.PyErr lib.Bytes lib.BE gen.G03_recv model.M03_recv_gen.
Import ListNotations.
Open Scope Z_scope.

(* ---------------------------------------------------------------- weakest preconditions for M *)
Definition wp {A} (m : M A) (Q : st -> res A -> Prop) (s : st) : Prop := Q (fst (m s)) (snd (m s)).

Lemma wp_ret {A} (a : A) (Q : st -> res A -> Prop) s : Q s (Ok a) -> wp (retM a) Q s.
Proof. exact (fun H => H). Qed.
Lemma wp_raise {A} e (Q : st -> res A -> Prop) s : Q s (Raise e) -> wp (raiseM e) Q s.
Proof. exact (fun H => H). Qed.
Lemma wp_liftR {A} (r : res A) (Q : st -> res A -> Prop) s : Q s r -> wp (liftR r) Q s.
Proof. exact (fun H => H). Qed.
Lemma wp_bind {A B} (m : M A) (f : A -> M B) (Q : st -> res B -> Prop) s :
  wp m (fun s' r => match r with Ok a => wp (f a) Q s' | Raise e => Q s' (Raise e) end) s -> wp (bindM m f) Q s.
Proof. unfold wp, bindM. destruct (m s) as [s' [a|e]]; cbn; auto. Qed.
Lemma wp_try {A} (m : M A) h (Q : st -> res A -> Prop) s :
  wp m (fun s' r => match r with Ok a => Q s' (Ok a) | Raise e => wp (h e) Q s' end) s -> wp (tryM m h) Q s.
Proof. unfold wp, tryM. destruct (m s) as [s' [a|e]]; cbn; auto. Qed.
Lemma wp_conseq {A} (m : M A) (Q1 Q2 : st -> res A -> Prop) s :
  wp m Q1 s -> (forall s' r, Q1 s' r -> Q2 s' r) -> wp m Q2 s.
Proof. unfold wp. auto. Qed.
Lemma wp_readw {A} (f : world -> A) (Q : st -> res A -> Prop) s : Q s (Ok (f (s_w s))) -> wp (readw f) Q s.
Proof. exact (fun H => H). Qed.
Lemma wp_cell_get r (Q : st -> res cell_rec -> Prop) s : Q s (Ok (s_cells s r)) -> wp (cell_get r) Q s.
Proof. exact (fun H => H). Qed.

(* a state that differs from s only in the cell heap *)
Definition same_but_cells (s s' : st) : Prop := s_w s' = s_w s /\ s_evs s' = s_evs s /\ s_next s' = s_next s.
Lemma same_refl s : same_but_cells s s. Proof. repeat split. Qed.
Lemma same_trans a b c : same_but_cells a b -> same_but_cells b c -> same_but_cells a c.
Proof. unfold same_but_cells. intuition congruence. Qed.

Lemma wp_cell_upd r f (Q : st -> res unit -> Prop) s :
  (forall s', same_but_cells s s' -> (forall r', s_cells s' r' = if Nat.eqb r' r then f (s_cells s r') else s_cells s r') -> Q s' (Ok tt)) ->
  wp (cell_upd r f) Q s.
Proof. intros H. apply H; [repeat split|reflexivity]. Qed.
Lemma wp_new_cell c (Q : st -> res nat -> Prop) s :
  (forall s', s_w s' = s_w s -> s_evs s' = s_evs s -> s_next s' = S (s_next s) ->
     (forall r', s_cells s' r' = if Nat.eqb r' (s_next s) then c else s_cells s r') -> Q s' (Ok (s_next s))) ->
  wp (new_cell c) Q s.
Proof. intros H. apply H; reflexivity. Qed.
Lemma wp_emit e (Q : st -> res unit -> Prop) s :
  (forall s', s_w s' = s_w s -> s_evs s' = e :: s_evs s -> s_next s' = s_next s -> s_cells s' = s_cells s -> Q s' (Ok tt)) ->
  wp (emit e) Q s.
Proof. intros H. apply H; reflexivity. Qed.
Lemma wp_readM {A} (r : res A) (Q : st -> res A -> Prop) s :
  match r with
  | Ok a => Q s (Ok a)
  | Raise e => forall s', s_w s' = s_w s -> s_evs s' = EvBadRead :: s_evs s -> s_next s' = s_next s -> s_cells s' = s_cells s -> Q s' (Raise e)
  end -> wp (readM r) Q s.
Proof. destruct r; intros H; [exact H|]. apply H; reflexivity. Qed.

Lemma wp_bind_tt (m : M unit) (Q : st -> res unit -> Prop) s : wp m Q s -> wp (bindM m (fun _ => retM tt)) Q s.
Proof. unfold wp, bindM. destruct (m s) as [s' [[]|e]]; cbn; auto. Qed.

Ltac wp1 :=
  lazymatch goal with
  | |- wp (bindM _ _) _ _ => apply wp_bind
  | |- wp (retM _) _ _ => apply wp_ret; cbv beta iota
  | |- wp (raiseM _) _ _ => apply wp_raise; cbv beta iota
  | |- wp (tryM _ _) _ _ => apply wp_try
  | |- wp (readw _) _ _ => apply wp_readw; cbv beta iota
  | |- wp (cell_get _) _ _ => apply wp_cell_get; cbv beta iota
  | |- wp (liftR _) _ _ => apply wp_liftR; cbv beta iota
  | |- wp (andM _ _) _ _ => unfold andM at 1
  | |- wp (orM _ _) _ _ => unfold orM at 1
  | |- wp (idxM _ _) _ _ => unfold idxM; apply wp_readM
  | |- wp (unpackM _ _ _) _ _ => unfold unpackM; apply wp_readM
  | |- wp (readM _) _ _ => apply wp_readM
  | |- wp (let '(_, _) := ?p in _) _ _ => destruct p
  end.
Ltac wps := repeat wp1.

(* generic symbolic execution: case analysis on whatever is scrutinised at the head of the program *)
Ltac opt_case :=
  match goal with
  | |- context [is_some ?y] => lazymatch y with Some _ => fail | None => fail | _ => destruct y eqn:? end
  | |- context [deref ?y] => lazymatch y with Some _ => fail | None => fail | _ => destruct y eqn:? end
  end; cbn [is_some deref negb].
Ltac hd :=
  lazymatch goal with
  | |- wp (let _ := _ in _) _ _ => cbv zeta
  | |- wp (if ?c then _ else _) _ _ => destruct c eqn:?
  | |- wp (match ?x with _ => _ end) _ _ => destruct x eqn:?
  | |- match ?x with Ok _ => _ | Raise _ => _ end => destruct x eqn:?
  end.
Ltac explore := repeat first [wp1 | progress cbn [is_some deref negb] | opt_case | hd].
(* turn the boolean facts collected on the way into propositions *)
Ltac bytes_facts :=
  repeat match goal with
  | H : context [bytes_eqb ?a ?b] |- _ =>
      lazymatch goal with
      | _ : a = b |- _ => fail
      | _ : a <> b |- _ => fail
      | _ => first [ assert (a = b) by (apply bytes_eqb_eq; lia)
                   | assert (a <> b) by (let HH := fresh in intros HH; apply bytes_eqb_eq in HH; lia) ]
      end
  end.

(* ---------------------------------------------------------------- bytes facts *)
Lemma idx_ok (d : bytes) k : 0 <= k < blen d -> exists b, idx d k = Ok b /\ In b d.
Proof.
  intros H. unfold idx. replace (k <? 0) with false by lia.
  replace ((k <? 0) || (blen d <=? k)) with false by lia.
  destruct (nth_error d (Z.to_nat k)) as [b|] eqn:E.
  - exists b. split; [reflexivity|]. eapply nth_error_In; exact E.
  - apply nth_error_None in E. unfold blen in H. lia.
Qed.
Lemma idx_raise (d : bytes) k e : idx d k = Raise e -> ~ (0 <= k < blen d).
Proof. intros H C. destruct (idx_ok d k C) as (b & E & _). congruence. Qed.
Lemma bytes_ok_in d b : bytes_ok d -> In b d -> 0 <= b < 256.
Proof. unfold bytes_ok. rewrite Forall_forall. auto. Qed.

Lemma be_decode_acc_bound l : bytes_ok l -> forall acc, 0 <= acc ->
  0 <= be_decode_acc acc l < (acc + 1) * 256 ^ Z.of_nat (length l).
Proof.
  induction l as [|b l IH]; intros Hb acc Ha; cbn [be_decode_acc length].
  - cbn. lia.
  - inversion Hb; subst. specialize (IH H2 (acc * 256 + b) ltac:(lia)).
    rewrite Nat2Z.inj_succ, Z.pow_succ_r by lia. nia.
Qed.
Lemma be_decode_bound l : bytes_ok l -> 0 <= be_decode l < 256 ^ Z.of_nat (length l).
Proof. intros H. pose proof (be_decode_acc_bound l H 0 ltac:(lia)). unfold be_decode. lia. Qed.
Lemma bytes_ok_firstn n : forall (l : bytes), bytes_ok l -> bytes_ok (firstn n l).
Proof. induction n as [|n IH]; intros [|x l] H; cbn; try constructor; inversion H; subst; auto. apply IH; assumption. Qed.
Lemma bytes_ok_skipn n : forall (l : bytes), bytes_ok l -> bytes_ok (skipn n l).
Proof. induction n as [|n IH]; intros [|x l] H; cbn; auto. inversion H; subst. apply IH; assumption. Qed.
Lemma unpack_u_range w d off v : bytes_ok d -> unpack_u w d off = Ok v -> 0 <= v < 256 ^ Z.of_nat w.
Proof.
  intros Hd. unfold unpack_u. destruct ((off <? 0) || (blen d <? off + Z.of_nat w)) eqn:E; [discriminate|].
  intros H. inversion H; subst. clear H.
  pose proof (be_decode_bound (firstn w (skipn (Z.to_nat off) d)) (bytes_ok_firstn _ _ (bytes_ok_skipn _ _ Hd))) as Hb.
  rewrite firstn_length_le in Hb; [exact Hb|]. rewrite skipn_length. unfold blen in E. lia.
Qed.
Lemma unpack_u_total w d off : 0 <= off -> off + Z.of_nat w <= blen d -> exists v, unpack_u w d off = Ok v.
Proof. intros H1 H2. unfold unpack_u. replace ((off <? 0) || (blen d <? off + Z.of_nat w)) with false by lia. eauto. Qed.

Lemma pack_u_ok w v : 0 <= v < 256 ^ Z.of_nat w -> pack_u w v = Ok (be_encode w v).
Proof. intros H. unfold pack_u. replace ((v <? 0) || (256 ^ Z.of_nat w <=? v)) with false by lia. reflexivity. Qed.

Definition to_bin_bytes (p : bytes) (c : cell_rec) : bytes :=
  p ++ [0] ++ (be_encode 4 (c_circuit_id c) ++ pack_bool (c_plaintext c) ++ pack_bool (c_relay_early c)) ++ c_message c.
Definition unwrap_bytes (p : bytes) (c : cell_rec) : bytes :=
  p ++ slice (c_message c) (Some 0) (Some 1) ++ be_encode 4 (c_circuit_id c) ++ slice (c_message c) (Some 1) None.
Definition cid_ok (c : cell_rec) : Prop := 0 <= c_circuit_id c < 2 ^ 32.

Section P.
Variable o_handler : nat -> Z -> addr -> bytes -> option Z -> world -> world * res hres.
Variable o_decrypt : Z -> bytes -> Z -> res bytes.
Variable o_encrypt : Z -> bytes -> Z -> res bytes.
Variable o_peer : nat -> addr -> world -> option Z.
(* SessionKeys.decrypt_str signals failure with ValueError or RuntimeError, encrypt_str with ValueError *)
Hypothesis decrypt_raises : forall k m d e, o_decrypt k m d = Raise e -> e = ValueError \/ e = RuntimeError.
Hypothesis encrypt_raises : forall k m d e, o_encrypt k m d = Raise e -> e = ValueError.
(* an invariant of the tables that handler bodies keep, and that makes the routing tables well-formed *)
Variable Winv : world -> Prop.
Hypothesis Winv_wf : forall w, Winv w -> world_wf w.
Hypothesis handler_wf : forall l h a d c w, Winv w -> Winv (fst (o_handler l h a d c w)).
Variable cfg : config.
Variable bad : bool.
Hypothesis map_len : forall l, Z.of_nat (length (cm_decode_map (cfg_comm cfg l))) = DECODE_MAP_LEN.
(* add_prefix_listener only accepts prefixes of Endpoint.prefixlen (22) bytes; setup_tunnels registers ce_prefix *)
Hypothesis ce_len : forall l, length (ce_prefix (cfg_crypto cfg l)) = 22%nat.
Hypothesis strong : bad = false -> cfg_wf cfg.

Notation to_bin := (CellPayload_to_bin cfg).
Notation unwrap := (CellPayload_unwrap cfg).
Notation from_bin := (CellPayload_from_bin cfg).
Notation max_relay_early := (PythonCryptoEndpoint_max_relay_early cfg).
Notation decrypt_cell := (PythonCryptoEndpoint_decrypt_cell o_decrypt cfg).
Notation encrypt_cell := (PythonCryptoEndpoint_encrypt_cell o_encrypt cfg).
Notation incoming_crypto := (PythonCryptoEndpoint_incoming_crypto o_decrypt cfg).
Notation on_packet_from_circuit := (TunnelCommunity_on_packet_from_circuit o_handler cfg).
Notation on_cell := (TunnelCommunity_on_cell o_handler cfg).
Notation community_on_packet := (Community_on_packet o_handler o_peer cfg).
Notation relay_cell := (PythonCryptoEndpoint_relay_cell o_decrypt o_encrypt cfg).
Notation process_cell := (PythonCryptoEndpoint_process_cell o_handler o_decrypt o_encrypt o_peer cfg).
Notation crypto_on_packet := (PythonCryptoEndpoint_on_packet o_handler o_decrypt o_encrypt o_peer cfg).
Notation stats_on_packet := (StatisticsEndpoint_on_packet cfg).
Notation dispatch := (dispatch_on_packet o_handler o_decrypt o_encrypt o_peer cfg).
Notation deliver_later := (Endpoint__deliver_later o_handler o_decrypt o_encrypt o_peer cfg).
Notation notify_listeners := (Endpoint_notify_listeners o_handler o_decrypt o_encrypt o_peer cfg).
Notation tunnel_notify_listeners := (TunnelEndpoint_notify_listeners o_handler o_decrypt o_encrypt o_peer cfg).

(* s is reachable from s0 with acceptable events and well-formed tables *)
Definition good (s0 s : st) : Prop :=
  Winv (s_w s) /\ exists new, s_evs s = new ++ s_evs s0 /\ Forall (ev_ok cfg bad) new.
Lemma good_refl s : Winv (s_w s) -> good s s.
Proof. intros H. split; [exact H|]. exists []. split; [reflexivity|constructor]. Qed.
Lemma good_same s0 s s' : good s0 s -> same_but_cells s s' -> good s0 s'.
Proof. intros [H1 H2] (E1 & E2 & _). unfold good. rewrite E1, E2. auto. Qed.
Lemma good_ev s0 s s' e : good s0 s -> s_w s' = s_w s -> s_evs s' = e :: s_evs s -> ev_ok cfg bad e -> good s0 s'.
Proof.
  intros [H1 (new & E & F)] Ew Ee Hok. split; [rewrite Ew; exact H1|].
  exists (e :: new). split; [rewrite Ee, E; reflexivity|constructor; assumption].
Qed.

(* ---- CellPayload ---- *)
Lemma to_bin_spec r p (Q : st -> res bytes -> Prop) s :
  cid_ok (s_cells s r) -> Q s (Ok (to_bin_bytes p (s_cells s r))) -> wp (to_bin r p) Q s.
Proof.
  intros Hc HQ. unfold CellPayload_to_bin. wps. unfold byte_of. cbn [orb Z.ltb Z.compare].
  wps. rewrite pack_u_ok by exact Hc. wps. exact HQ.
Qed.

Lemma unwrap_spec r p (Q : st -> res bytes -> Prop) s :
  (cid_ok (s_cells s r) -> Q s (Ok (unwrap_bytes p (s_cells s r)))) ->
  (forall e, Q s (Raise e)) -> wp (unwrap r p) Q s.
Proof.
  intros HQ HR. unfold CellPayload_unwrap. wps. unfold pack_u.
  destruct ((c_circuit_id (s_cells s r) <? 0) || (256 ^ Z.of_nat 4 <=? c_circuit_id (s_cells s r))) eqn:E; wps; [apply HR|].
  apply HQ. unfold cid_ok. change (256 ^ Z.of_nat 4) with (2 ^ 32) in E. lia.
Qed.

Lemma from_bin_spec d (Q : st -> res nat -> Prop) s :
  (29 <= blen d -> forall s' c, s_w s' = s_w s -> s_evs s' = s_evs s -> s_next s' = S (s_next s) ->
     (forall r', s_cells s' r' = if Nat.eqb r' (s_next s) then c else s_cells s r') ->
     c_message c = slice d (Some 29) None -> (bytes_ok d -> cid_ok c) -> Q s' (Ok (s_next s))) ->
  (blen d < 29 -> forall s' e, s_w s' = s_w s -> s_evs s' = EvBadRead :: s_evs s -> s_next s' = s_next s ->
     s_cells s' = s_cells s -> Q s' (Raise e)) ->
  wp (from_bin d) Q s.
Proof.
  intros HOk HBad. unfold CellPayload_from_bin. wps.
  destruct (unpack_u 6 d 23) as [v|e] eqn:E6.
  - assert (Hl : 29 <= blen d).
    { unfold unpack_u in E6. destruct ((23 <? 0) || (blen d <? 23 + Z.of_nat 6)) eqn:E; [discriminate|]. lia. }
    wps. destruct (unpack_u_total 4 d (23 + 0) ltac:(lia) ltac:(simpl; lia)) as [cid Ec]. rewrite Ec. wps.
    destruct (unpack_u_total 1 d (23 + 4) ltac:(lia) ltac:(simpl; lia)) as [pt Ep]. rewrite Ep. wps.
    destruct (unpack_u_total 1 d (23 + 5) ltac:(lia) ltac:(simpl; lia)) as [re Er]. rewrite Er. wps.
    apply wp_new_cell. intros s' E1 E2 E3 E4. eapply HOk; eauto.
    intros Hd. unfold cid_ok. cbn [c_circuit_id]. apply (unpack_u_range 4 d (23 + 0) cid Hd Ec).
  - intros s' E1 E2 E3 E4. apply HBad; auto.
    unfold unpack_u in E6. destruct ((23 <? 0) || (blen d <? 23 + Z.of_nat 6)) eqn:E; [|discriminate]. lia.
Qed.

Lemma max_relay_early_spec l (Q : st -> res Z -> Prop) s : (forall z, Q s (Ok z)) -> wp (max_relay_early l) Q s.
Proof.
  intros H. unfold PythonCryptoEndpoint_max_relay_early.
  destruct (ce_settings (cfg_crypto cfg l)); cbn [is_some deref]; wps; apply H.
Qed.

(* ---- cell cryptography: only the message of a cell changes; failures surface as CryptoException ---- *)
Definition cells_frame (s s' : st) : Prop :=
  forall r, c_circuit_id (s_cells s' r) = c_circuit_id (s_cells s r) /\ c_plaintext (s_cells s' r) = c_plaintext (s_cells s r)
            /\ c_relay_early (s_cells s' r) = c_relay_early (s_cells s r).
Lemma frame_refl s : cells_frame s s. Proof. intros r. auto. Qed.
Lemma frame_trans a b c : cells_frame a b -> cells_frame b c -> cells_frame a c.
Proof. intros H1 H2 r. destruct (H1 r) as (?&?&?), (H2 r) as (?&?&?). repeat split; congruence. Qed.
Lemma frame_set_message s s' r v :
  (forall r', s_cells s' r' = if Nat.eqb r' r then set_message v (s_cells s r') else s_cells s r') -> cells_frame s s'.
Proof. intros H r'. rewrite H. destruct (Nat.eqb r' r); auto. Qed.

Definition crypto_post (s : st) : st -> res unit -> Prop :=
  fun s' r => same_but_cells s s' /\ cells_frame s s' /\ (r = Ok tt \/ r = Raise CryptoError).

Lemma forM_crypto {A} (body : A -> M unit) (l : list A) s :
  (forall x s1, same_but_cells s s1 -> cells_frame s s1 -> wp (body x) (crypto_post s1) s1) ->
  forall s1, same_but_cells s s1 -> cells_frame s s1 -> wp (forM l body) (crypto_post s) s1.
Proof.
  intros Hb. induction l as [|x tl IH]; intros s1 Hs Hf; cbn [forM].
  - wps. split; [exact Hs|split; [exact Hf|left; reflexivity]].
  - wps. eapply wp_conseq; [apply Hb; assumption|].
    intros s2 r (Hs2 & Hf2 & Hr). destruct Hr as [->| ->].
    + apply IH; [eapply same_trans; eauto|eapply frame_trans; eauto].
    + split; [eapply same_trans; eauto|]. split; [eapply frame_trans; eauto|]. right; reflexivity.
Qed.

Lemma decrypt_cell_spec l c dir hops s : wp (decrypt_cell l c dir hops) (crypto_post s) s.
Proof.
  unfold PythonCryptoEndpoint_decrypt_cell. wps.
  destruct (c_plaintext (s_cells s c)).
  { wps. split; [apply same_refl|]. split; [apply frame_refl|]. left; reflexivity. }
  try apply wp_bind_tt.
  apply forM_crypto with (s := s); [|apply same_refl|apply frame_refl].
    intros [layer hop] s1 Hs1 Hf1.
    destruct (hop_keys hop) as [k|] eqn:Ek; cbn [is_some negb deref].
    + wps. destruct (o_decrypt k (c_message (s_cells s1 c)) dir) as [m|e] eqn:Ed; wps.
      * apply wp_cell_upd. intros s2 Hs2 Hc2. wps.
        split; [exact Hs2|]. split; [eapply frame_set_message; eauto|]. left; reflexivity.
      * destruct (decrypt_raises _ _ _ _ Ed) as [->| ->]; cbn [exn_in existsb exn_eqb orb]; wps;
          (split; [apply same_refl|]; split; [apply frame_refl|]; right; reflexivity).
    + wps. split; [apply same_refl|]. split; [apply frame_refl|]. right; reflexivity.
Qed.

Lemma encrypt_cell_spec l c dir hops s : wp (encrypt_cell l c dir hops) (crypto_post s) s.
Proof.
  unfold PythonCryptoEndpoint_encrypt_cell. wps.
  destruct (c_plaintext (s_cells s c)).
  { wps. split; [apply same_refl|]. split; [apply frame_refl|]. left; reflexivity. }
  try apply wp_bind_tt.
  apply forM_crypto with (s := s); [|apply same_refl|apply frame_refl].
  intros [layer hop] s1 Hs1 Hf1.
  destruct (hop_keys hop) as [k|] eqn:Ek; cbn [is_some negb deref].
  + wps. destruct (o_encrypt k (c_message (s_cells s1 c)) dir) as [m|e] eqn:Ed; wps.
    * apply wp_cell_upd. intros s2 Hs2 Hc2. wps.
      split; [exact Hs2|]. split; [eapply frame_set_message; eauto|]. left; reflexivity.
    * rewrite (encrypt_raises _ _ _ _ Ed); cbn [exn_in existsb exn_eqb orb]; wps;
        (split; [apply same_refl|]; split; [apply frame_refl|]; right; reflexivity).
  + wps. split; [apply same_refl|]. split; [apply frame_refl|]. right; reflexivity.
Qed.

(* after a cryptographic step that succeeded or failed with CryptoException, continue *)
Lemma wp_crypto_step (m : M unit) {B} (f : unit -> M B) (Q : st -> res B -> Prop) s :
  wp m (crypto_post s) s ->
  (forall s', same_but_cells s s' -> cells_frame s s' -> wp (f tt) Q s') ->
  (forall s', same_but_cells s s' -> cells_frame s s' -> Q s' (Raise CryptoError)) ->
  wp (bindM m f) Q s.
Proof.
  intros Hm Hok Hraise. apply wp_bind. eapply wp_conseq; [exact Hm|].
  intros s' r (H1 & H2 & [->| ->]); auto.
Qed.

Definition frame_post {A} (s : st) : st -> res A -> Prop :=
  fun s' r => same_but_cells s s' /\ cells_frame s s' /\ exists o, r = Ok o.
Ltac framed := eauto 6 using same_trans, frame_trans, same_refl, frame_refl.
Ltac crypto1 :=
  lazymatch goal with
  | |- wp (bindM (PythonCryptoEndpoint_decrypt_cell _ _ _ _ _ _) _) _ _ =>
      eapply wp_crypto_step; [apply decrypt_cell_spec|intros ? ? ?|intros ? ? ?]
  | |- wp (bindM (PythonCryptoEndpoint_encrypt_cell _ _ _ _ _ _) _) _ _ =>
      eapply wp_crypto_step; [apply encrypt_cell_spec|intros ? ? ?|intros ? ? ?]
  | |- wp (PythonCryptoEndpoint_decrypt_cell _ _ _ _ _ _) _ _ =>
      eapply wp_conseq; [apply decrypt_cell_spec|intros ? ? (? & ? & [->| ->])]
  | |- wp (PythonCryptoEndpoint_encrypt_cell _ _ _ _ _ _) _ _ =>
      eapply wp_conseq; [apply encrypt_cell_spec|intros ? ? (? & ? & [->| ->])]
  end.

Lemma incoming_crypto_spec l c s : world_wf (s_w s) -> wp (incoming_crypto l c) (frame_post s) s.
Proof.
  intros [_ Hcirc]. unfold PythonCryptoEndpoint_incoming_crypto. wps.
  destruct (dict_get Z.eqb (c_circuit_id (s_cells s c)) (w_circuits (s_w s) l)) as [ci|] eqn:Eci;
  destruct (dict_get Z.eqb (c_circuit_id (s_cells s c)) (w_exit_sockets (s_w s) l)) as [xs|] eqn:Exs;
  cbn [is_some negb deref]; wps.
  all: repeat first [wp1 | crypto1 | progress cbn [exn_in existsb exn_eqb orb is_some deref]].
  all: try (lazymatch goal with |- frame_post _ _ _ => split; [framed|split; [framed|eauto]] end).
  - pose proof (Hcirc _ _ _ Eci) as Hok. unfold circuit_ok in Hok.
    destruct (ci_hs_session_keys ci) as [k|] eqn:Ek; cbn [is_some].
    + destruct (ci_hop ci) as [hp|] eqn:Eh; [|exfalso; apply Hok; congruence].
      repeat first [wp1 | crypto1 | rewrite Eh | progress cbn [exn_in existsb exn_eqb orb is_some deref]].
      all: lazymatch goal with |- frame_post _ _ _ => split; [framed|split; [framed|eauto]] end.
    + repeat first [wp1 | crypto1 | progress cbn [exn_in existsb exn_eqb orb is_some deref]].
      all: lazymatch goal with |- frame_post _ _ _ => split; [framed|split; [framed|eauto]] end.
  - destruct (c_plaintext (s_cells s c)); cbn [negb];
    repeat first [wp1 | crypto1 | progress cbn [exn_in existsb exn_eqb orb is_some deref]].
    all: lazymatch goal with |- frame_post _ _ _ => split; [framed|split; [framed|eauto]] end.
Qed.

(* ---- handlers ---- *)
Lemma idx_ok_range (d : bytes) k v : 0 <= k -> idx d k = Ok v -> k < blen d.
Proof. clear.
  intros Hk. unfold idx. replace (k <? 0) with false by lia.
  destruct ((k <? 0) || (blen d <=? k)) eqn:E; [discriminate|]. lia.
Qed.
Lemma all_exn e : exn_in e ALL_EXN = true.
Proof. clear. destruct e; reflexivity. Qed.

Definition hpost {A} (s0 : st) : st -> res A -> Prop := fun s' _ => good s0 s'.
Definition tpost {A} (s0 : st) : st -> res A -> Prop := fun s' r => good s0 s' /\ exists a, r = Ok a.

Lemma call_oracle_spec l h a d cid s0 s :
  good s0 s -> ev_ok cfg bad (EvEntered l h d cid) -> wp (call_oracle o_handler l h a d cid) (hpost s0) s.
Proof.
  intros Hg Hev. unfold call_oracle. apply wp_bind. apply wp_emit. intros s1 E1 E2 E3 E4.
  pose proof (good_ev _ _ _ _ Hg E1 E2 Hev) as Hg1.
  unfold wp, hpost. destruct Hg1 as [Hw Hn].
  pose proof (handler_wf l h a d cid (s_w s1) Hw) as Hw'.
  destruct (o_handler l h a d cid (s_w s1)) as [w' r]. cbn [fst snd] in *. split; assumption.
Qed.

Lemma spawn_task_spec l r s0 s : good s0 s -> wp (spawn_task l r ALL_EXN) (hpost s0) s.
Proof.
  intros Hg. unfold spawn_task. destruct r as [|[u|e]]; wps; try exact Hg.
  rewrite all_exn. wps. exact Hg.
Qed.

Lemma on_packet_from_circuit_spec l a d cid s0 s :
  good s0 s -> (bad = false -> 23 <= blen d) ->
  wp (on_packet_from_circuit l a d cid) (hpost s0) s.
Proof.
  intros Hg Hlen. unfold TunnelCommunity_on_packet_from_circuit.
  destruct (bytes_eqb (cm_prefix (cfg_comm cfg l)) (slice d None (Some 22))) eqn:Ep; cbn [negb]; wps; [|exact Hg].
  apply bytes_eqb_eq in Ep.
  destruct (idx d 22) as [mid|e] eqn:Ei.
  2:{ intros s1 E1 E2 E3 E4. eapply good_ev; eauto. cbn. destruct bad; [reflexivity|].
      exfalso. apply (idx_raise _ _ _ Ei). specialize (Hlen eq_refl). lia. }
  pose proof (idx_ok_range d 22 mid ltac:(lia) Ei) as Hl.
  wps. unfold dict_mem, dict_item.
  destruct (dict_get Z.eqb mid (cm_decode_map_private (cfg_comm cfg l))) as [h|] eqn:Eh; wps; [|exact Hg].
  destruct h as [|id]; cbn [call_handler3]; wps.
  - rewrite all_exn. wps. exact Hg.
  - eapply wp_conseq.
    + apply call_oracle_spec; [exact Hg|]. cbn. split; [symmetry; exact Ep|]. split; [lia|].
      unfold private_handler_at. rewrite Ei. exact Eh.
    + intros s1 r Hg1. unfold hpost in Hg1. destruct r as [hr|e].
      * destruct (is_coro hr); wps; [|exact Hg1]. cbv zeta.
        eapply wp_conseq; [apply spawn_task_spec; exact Hg1|].
        intros s2 r2 Hg2. unfold hpost in Hg2. destruct r2; wps; [exact Hg2|rewrite all_exn; wps; exact Hg2].
      * rewrite all_exn. wps. exact Hg1.
Qed.

Lemma slice_from_len (d : bytes) k : 0 <= k <= blen d -> blen (slice d (Some k) None) = blen d - k.
Proof. clear.
  intros H. unfold slice, clamp. destruct (k <? 0) eqn:E1; [lia|]. rewrite E1. destruct (blen d <? k) eqn:E2; [lia|].
  unfold blen in *. rewrite firstn_length, skipn_length. lia.
Qed.
Lemma slice_to_len (d : bytes) k : 0 <= k <= blen d -> blen (slice d None (Some k)) = k.
Proof. clear.
  intros H. rewrite slice_prefix by lia. unfold blen in *. rewrite firstn_length. lia.
Qed.
Lemma blen_be_encode w v : blen (be_encode w v) = Z.of_nat w.
Proof. clear. unfold blen. rewrite be_encode_length. reflexivity. Qed.

Lemma unwrap_len p c : blen (unwrap_bytes p c) >= blen p + 4.
Proof.
  clear. unfold unwrap_bytes. rewrite !blen_app, blen_be_encode.
  pose proof (blen_nonneg (slice (c_message c) (Some 0) (Some 1))).
  pose proof (blen_nonneg (slice (c_message c) (Some 1) None)). lia.
Qed.

Lemma on_cell_spec l a d s0 s :
  good s0 s -> (bad = false -> 30 <= blen d /\ blen (cm_prefix (cfg_comm cfg l)) = 22) ->
  wp (on_cell l a d) (hpost s0) s.
Proof.
  intros Hg Hpre. unfold TunnelCommunity_on_cell. apply wp_bind. apply from_bin_spec.
  2:{ intros Hl s1 e E1 E2 E3 E4. eapply good_ev; eauto. cbn. destruct bad; [reflexivity|].
      destruct (Hpre eq_refl). lia. }
  intros Hl s1 c E1 E2 E3 Hc Hm _.
  assert (Hg1 : good s0 s1) by (unfold good; rewrite E1, E2; exact Hg).
  (* the tail: unwrap, then on_packet_from_circuit *)
  assert (Htail : forall p cc, bad = false -> 23 <= blen (unwrap_bytes (cm_prefix (cfg_comm cfg l)) cc) + p - p).
  { intros p cc Hb. destruct (Hpre Hb) as [_ Hp]. pose proof (unwrap_len (cm_prefix (cfg_comm cfg l)) cc). lia. }
  wps. rewrite Hc, Nat.eqb_refl.
  destruct (c_plaintext c) eqn:Ept; wps.
  - rewrite Hc, Nat.eqb_refl.
    destruct (idx (c_message c) 0) as [m0|e] eqn:Em.
    + wps. destruct (negb (existsb (Z.eqb m0) [2; 3])); [wps; exact Hg1|].
      wps. apply unwrap_spec; [|intros e; exact Hg1]. intros _. wps.
      apply on_packet_from_circuit_spec; [exact Hg1|]. intros Hb. specialize (Htail 0 (s_cells s1 (s_next s)) Hb). lia.
    + intros s2 F1 F2 F3 F4. eapply good_ev; eauto. cbn. destruct bad; [reflexivity|].
      exfalso. apply (idx_raise _ _ _ Em). rewrite Hm, slice_from_len by lia. destruct (Hpre eq_refl). lia.
  - apply unwrap_spec; [|intros e; exact Hg1]. intros _. wps.
    apply on_packet_from_circuit_spec; [exact Hg1|]. intros Hb. specialize (Htail 0 (s_cells s1 (s_next s)) Hb). lia.
Qed.

Lemma list_idx_ok {A} (l : list A) i : 0 <= i < Z.of_nat (length l) -> exists a, list_idx l i = Ok a.
Proof.
  clear. intros H. unfold list_idx. replace (i <? 0) with false by lia.
  replace ((i <? 0) || (Z.of_nat (length l) <=? i)) with false by lia.
  destruct (nth_error l (Z.to_nat i)) as [a|] eqn:E; [eauto|]. apply nth_error_None in E. lia.
Qed.

Definition oncell_ok (l : nat) (d : bytes) : Prop :=
  handler_at cfg l d = Some HOnCell -> slice d None (Some 22) = cm_prefix (cfg_comm cfg l) -> 30 <= blen d.

Definition byte22_ok (d : bytes) : Prop := forall mid, idx d 22 = Ok mid -> 0 <= mid < 256.
Lemma bytes_byte22 d : bytes_ok d -> byte22_ok d.
Proof.
  clear. intros Hd mid E. pose proof (idx_ok_range d 22 mid ltac:(lia) E) as Hl.
  destruct (idx_ok d 22 ltac:(lia)) as (b & Eb & Hin). rewrite E in Eb. inversion Eb; subst. eapply bytes_ok_in; eauto.
Qed.

Ltac explore_c := repeat first [wp1 | rewrite all_exn | progress cbn [is_some deref negb] | opt_case | hd].
Ltac done_with H := lazymatch goal with |- tpost _ _ _ => split; [exact H|eauto] end.

Lemma community_on_packet_spec l a d wu s0 s :
  good s0 s -> byte22_ok d -> (bad = false -> oncell_ok l d) ->
  wp (community_on_packet l (a, d) wu) (tpost s0) s.
Proof.
  intros Hg Hd Hcell. unfold Community_on_packet.
  (* run up to the handler call; every earlier exit returns normally *)
  repeat first [ wp1 | progress cbn [is_some deref negb] | opt_case
               | lazymatch goal with
                 | |- wp (call_handler2 _ _ _ _ _ _) _ _ => fail
                 | |- wp (spawn_task _ _ _) _ _ => fail
                 | _ => hd
                 end ].
  all: try done_with Hg.
  (* reads of the datagram and of decode_map cannot fail *)
  all: bytes_facts.
  all: try match goal with
           | H : idx ?dd 22 = Raise _ |- _ => exfalso; apply (idx_raise _ _ _ H); lia
           | H0 : byte22_ok ?dd, H1 : idx ?dd 22 = Ok ?m, H2 : list_idx (cm_decode_map (cfg_comm cfg ?ll)) ?m = Raise _ |- _ =>
               exfalso; pose proof (H0 _ H1); destruct (list_idx_ok (cm_decode_map (cfg_comm cfg ll)) m) as [? Eh'];
               [rewrite map_len; unfold DECODE_MAP_LEN; lia|congruence]
           end.
  (* the handler call *)
  all: match goal with
       | Em : idx ?dd 22 = Ok ?mid, Eh : list_idx (cm_decode_map (cfg_comm cfg ?ll)) ?mid = Ok (Some ?h) |- wp (call_handler2 _ _ _ ?h' _ _) _ _ =>
           assert (Hha : handler_at cfg ll dd = Some h) by (unfold handler_at; rewrite Em, Eh; reflexivity);
           assert (Ep : slice dd None (Some 22) = cm_prefix (cfg_comm cfg ll)) by congruence;
           assert (El : 23 <= blen dd) by lia
       end.
  all: match goal with |- wp (call_handler2 _ _ _ ?h _ _) _ _ => destruct h as [|id]; cbn [call_handler2] end.
  all: lazymatch goal with
       | |- wp (call_oracle _ _ _ _ _ _) _ _ =>
           eapply wp_conseq; [apply call_oracle_spec; [exact Hg|]; cbn; split; [exact Ep|]; split; [lia|exact Hha]|]
       | _ =>
           wps; eapply wp_conseq;
           [apply on_cell_spec; [exact Hg|]; intros Hb; split; [exact (Hcell Hb Hha Ep)|]; rewrite <- Ep; apply slice_to_len; lia|]
       end.
  all: intros s1 r Hg1; unfold hpost in Hg1; destruct r as [hr|e].
  all: repeat first [ wp1 | rewrite all_exn | lazymatch goal with |- wp (spawn_task _ _ _) _ _ => fail | _ => hd end ].
  all: try done_with Hg1.
  all: eapply wp_conseq; [apply spawn_task_spec; exact Hg1|].
  all: intros s2 r2 Hg2; unfold hpost in Hg2; destruct r2; explore_c; done_with Hg2.
Qed.

(* ---- PythonCryptoEndpoint ---- *)
Ltac cstep := first [wp1 | crypto1 | progress cbn [exn_in existsb exn_eqb orb is_some negb deref]].

Lemma relay_cell_spec l c s0 s :
  good s0 s -> dict_get Z.eqb (c_circuit_id (s_cells s c)) (w_relays (s_w s) l) <> None ->
  wp (relay_cell l c) (tpost s0) s.
Proof.
  intros Hg Hrel. unfold PythonCryptoEndpoint_relay_cell, dict_item.
  assert (Hdone : forall s', same_but_cells s s' -> tpost s0 s' (Ok tt)).
  { intros s' Hs. split; [eapply good_same; eauto|eauto]. }
  destruct (dict_get Z.eqb (c_circuit_id (s_cells s c)) (w_relays (s_w s) l)) as [nr|] eqn:Enr; [|congruence].
  assert (Hnr : relay_ok nr) by (destruct Hg as [Hw _]; destruct (Winv_wf _ Hw) as [Hr _]; eapply Hr; eauto).
  repeat first [ wp1 | crypto1 | progress cbn [exn_in existsb exn_eqb orb is_some negb deref]
               | rewrite Enr
               | apply max_relay_early_spec; intros ?
               | lazymatch goal with
                 | |- wp (cell_upd _ (set_relay_early _)) _ _ => apply wp_cell_upd; intros ? ? ?
                 | |- wp (cell_upd _ (set_circuit_id _)) _ _ => fail
                 | _ => first [opt_case | hd]
                 end ].
  all: try (apply Hdone; framed).
  (* the cell leaves with the circuit id of the route, a 32-bit number *)
  all: apply wp_cell_upd; intros s2 Hs2 Hc2; wps; apply to_bin_spec;
    [unfold cid_ok; rewrite Hc2, Nat.eqb_refl; cbn [set_circuit_id c_circuit_id]; exact Hnr|].
  all: wps; apply wp_emit; intros s3 F1 F2 F3 F4; split; [|eauto].
  all: eapply (good_ev s0 s2); [eapply good_same; [exact Hg|framed]|exact F1|exact F2|exact I].
Qed.

Lemma idx_at_len (p : bytes) x rest : idx (p ++ x :: rest) (blen p) = Ok x.
Proof.
  clear. unfold idx. pose proof (blen_nonneg p). rewrite blen_app, blen_cons. pose proof (blen_nonneg rest).
  replace (blen p <? 0) with false by lia.
  replace ((blen p <? 0) || (blen p + (1 + blen rest) <=? blen p)) with false by lia.
  unfold blen. rewrite Nat2Z.id, nth_error_app2 by lia. rewrite Nat.sub_diag. reflexivity.
Qed.
Lemma to_bin_byte22 l c : byte22_ok (to_bin_bytes (ce_prefix (cfg_crypto cfg l)) c).
Proof.
  intros mid E. unfold to_bin_bytes in E. cbn [app] in E.
  replace 22 with (blen (ce_prefix (cfg_crypto cfg l))) in E by (unfold blen; rewrite ce_len; reflexivity).
  rewrite idx_at_len in E. inversion E; subst. lia.
Qed.
Lemma to_bin_len p c : blen (to_bin_bytes p c) = blen p + 7 + blen (c_message c).
Proof.
  clear. unfold to_bin_bytes. rewrite !blen_app, blen_be_encode. unfold pack_bool, blen. cbn [length]. lia.
Qed.

Lemma process_cell_spec l a d s0 s : good s0 s -> bytes_ok d -> wp (process_cell l a d) (tpost s0) s.
Proof.
  intros Hg Hd. unfold PythonCryptoEndpoint_process_cell.
  (* up to CellPayload.from_bin: the length test must have excluded every datagram the header does not fit in *)
  repeat first [ wp1 | lazymatch goal with |- wp (CellPayload_from_bin _ _) _ _ => fail | _ => hd end ].
  all: try done_with Hg.
  apply from_bin_spec; [|intros; lia].
  intros _ s1 c E1 E2 E3 Hc Hm Hcid. specialize (Hcid Hd).
  assert (Hg1 : good s0 s1) by (unfold good; rewrite E1, E2; exact Hg).
  (* relay lookup: either relay_cell or incoming_crypto *)
  repeat first [ wp1 | rewrite Hc, Nat.eqb_refl | progress cbn [is_some deref negb] | opt_case
               | lazymatch goal with
                 | |- wp (PythonCryptoEndpoint_relay_cell _ _ _ _ _) _ _ => fail
                 | |- wp (PythonCryptoEndpoint_incoming_crypto _ _ _ _) _ _ => fail
                 | _ => hd
                 end ].
  all: try (lazymatch goal with |- wp (PythonCryptoEndpoint_relay_cell _ _ _ _ _) _ _ =>
              apply relay_cell_spec; [exact Hg1|rewrite Hc, Nat.eqb_refl; congruence] end).
  (* not a relayed circuit *)
  all: eapply wp_conseq; [apply incoming_crypto_spec; apply Winv_wf, Hg1|].
  all: intros s2 r (Hs2 & Hf2 & o & ->).
  all: assert (Hg2 : good s0 s2) by (eapply good_same; eauto).
  all: remember (s_cells s2 (s_next s)) as c2 eqn:Ec2.
  all: assert (Hcid2 : cid_ok c2)
    by (unfold cid_ok; rewrite Ec2; destruct (Hf2 (s_next s)) as (-> & _); rewrite Hc, Nat.eqb_refl; exact Hcid).
  all: assert (Hp22 : blen (ce_prefix (cfg_crypto cfg l)) = 22) by (unfold blen; rewrite ce_len; reflexivity).
  all: repeat first [ wp1 | rewrite <- Ec2 | progress cbn [is_some deref negb]
               | match goal with H : idx ?m 0 = _ |- context [idx ?m 0] => rewrite H end
               | apply max_relay_early_spec; intros ?
               | lazymatch goal with
                 | |- wp (CellPayload_to_bin _ _ _) _ _ => apply to_bin_spec; [rewrite <- Ec2; exact Hcid2|]
                 | |- wp (Community_on_packet _ _ _ _ _ _) _ _ => fail
                 end
               | opt_case | hd ].
  all: try done_with Hg2.
  (* no read of the message can fail once it is known to be non-empty *)
  all: try (intros; exfalso; match goal with H : idx (c_message ?cc) 0 = Raise _ |- _ =>
                                  apply (idx_raise _ _ _ H); pose proof (blen_nonneg (c_message cc)); lia end).
  (* the re-serialised cell is handed to the tunnel community *)
  all: eapply wp_conseq;
    [apply community_on_packet_spec;
     [exact Hg2|apply to_bin_byte22|intros _ _ _; rewrite to_bin_len; pose proof (blen_nonneg (c_message c2)); lia]|].
  all: intros s3 r (Hg3 & v & ->); explore; done_with Hg3.
Qed.

Lemma list_idx_nth {A} (l : list A) i a : list_idx l i = Ok a -> 0 <= i -> nth_error l (Z.to_nat i) = Some a.
Proof.
  clear. unfold list_idx. intros H Hi. replace (i <? 0) with false in H by lia.
  destruct ((i <? 0) || (Z.of_nat (length l) <=? i)); [discriminate|].
  destruct (nth_error l (Z.to_nat i)); [congruence|discriminate].
Qed.
Lemma starts_with_slice (d p : bytes) : length p = 22%nat -> starts_with d p = bytes_eqb p (slice d None (Some 22)).
Proof. clear. intros H. unfold starts_with. rewrite H, slice_prefix by lia. reflexivity. Qed.

(* a datagram that the crypto endpoint does not treat as a cell never reaches on_cell *)
Lemma oncell_not_cell l t d :
  bad = false -> ce_tunnel_community (cfg_crypto cfg l) = Some t -> byte22_ok d ->
  (starts_with d (ce_prefix (cfg_crypto cfg l)) && (blen d >? 22) = true -> idx d 22 <> Ok 0) ->
  oncell_ok t d.
Proof.
  intros Hb Et Hd Hn Hh Hp. exfalso. destruct (strong Hb) as [_ H0 _ Hpre _].
  unfold handler_at in Hh. destruct (idx d 22) as [mid|] eqn:Em; [|discriminate].
  destruct (list_idx (cm_decode_map (cfg_comm cfg t)) mid) as [[h|]|] eqn:Eh; try discriminate.
  inversion Hh; subst h. pose proof (Hd _ Em) as Hr.
  apply list_idx_nth in Eh; [|lia]. apply H0 in Eh. assert (mid = 0) by lia. subst mid.
  apply Hn; [|reflexivity]. rewrite starts_with_slice by apply ce_len. rewrite (Hpre _ _ Et), <- Hp, bytes_eqb_refl.
  pose proof (idx_ok_range d 22 0 ltac:(lia) Em). cbn [andb]. lia.
Qed.

Lemma crypto_on_packet_spec l a d wu s0 s :
  good s0 s -> bytes_ok d -> wp (crypto_on_packet l (a, d) wu) (tpost s0) s.
Proof.
  intros Hg Hd. unfold PythonCryptoEndpoint_on_packet.
  repeat first [ wp1 | progress cbn [is_some deref negb] | opt_case
               | lazymatch goal with
                 | |- wp (PythonCryptoEndpoint_process_cell _ _ _ _ _ _ _ _) _ _ => apply process_cell_spec; assumption
                 | |- wp (Community_on_packet _ _ _ _ _ _) _ _ => fail
                 | _ => hd
                 end ].
  all: try done_with Hg.
  (* byte 22 is read only behind the length test *)
  all: try (intros; exfalso; match goal with H : idx _ 22 = Raise _ |- _ => apply (idx_raise _ _ _ H); lia end).
  (* whatever is not a cell goes to the tunnel community, which then cannot reach on_cell *)
  all: apply community_on_packet_spec; [exact Hg|apply bytes_byte22, Hd|].
  all: intros Hb; eapply oncell_not_cell; eauto; [apply bytes_byte22, Hd|].
  all: intros Hc Hi; apply andb_true_iff in Hc as [Hc1 Hc2].
  all: try congruence.
  all: match goal with E : idx _ 22 = Ok ?b |- _ => rewrite Hi in E; inversion E; subst; lia end.
Qed.

(* ---- StatisticsEndpoint, dispatch, Endpoint ---- *)
Lemma stats_on_packet_spec l a d s0 s : good s0 s -> wp (stats_on_packet l (a, d)) (tpost s0) s.
Proof.
  intros Hg. unfold StatisticsEndpoint_on_packet. explore.
  all: try done_with Hg.
  all: intros; exfalso; match goal with H : idx _ 22 = Raise _ |- _ => apply (idx_raise _ _ _ H); lia end.
Qed.

Lemma dispatch_spec_tail l a d s0 s1 :
  good s0 s1 -> bytes_ok d ->
  wp (match cfg_kind cfg l with
      | KCommunity => community_on_packet l (a, d) true
      | KCrypto => crypto_on_packet l (a, d) true
      | KStatistics => stats_on_packet l (a, d)
      end) (tpost s0) s1.
Proof.
  intros Hg1 Hd. destruct (cfg_kind cfg l) eqn:Ek.
  - apply community_on_packet_spec; [exact Hg1|apply bytes_byte22, Hd|].
    intros Hb Hh. exfalso. destruct (strong Hb) as [_ _ Hdir _ _]. specialize (Hdir l Ek).
    unfold handler_at in Hh. destruct (idx d 22) as [mid|] eqn:Em; [|discriminate].
    destruct (list_idx (cm_decode_map (cfg_comm cfg l)) mid) as [[h|]|] eqn:Eh; try discriminate.
    inversion Hh; subst h. pose proof (bytes_byte22 d Hd _ Em).
    apply list_idx_nth in Eh; [|lia]. exact (Hdir _ Eh).
  - apply crypto_on_packet_spec; assumption.
  - apply stats_on_packet_spec; assumption.
Qed.

Lemma dispatch_spec l a d s0 s :
  good s0 s -> bytes_ok d -> wp (dispatch l (a, d)) (tpost s0) s.
Proof.
  intros Hg Hd. unfold dispatch_on_packet. apply wp_bind. apply wp_emit. intros s1 E1 E2 E3 E4.
  assert (Hg1 : good s0 s1) by (eapply good_ev; eauto; exact I).
  apply dispatch_spec_tail; assumption.
Qed.

Lemma deliver_later_spec i l a d s0 s :
  good s0 s -> bytes_ok d -> wp (deliver_later i l (a, d)) (tpost s0) s.
Proof.
  intros Hg Hd. unfold Endpoint__deliver_later.
  repeat first [ wp1 | lazymatch goal with
                       | |- wp (dispatch_on_packet _ _ _ _ _ _ _) _ _ => apply dispatch_spec; assumption
                       | _ => hd
                       end ].
  all: done_with Hg.
Qed.

Lemma forM_total {A} (body : A -> M unit) (l : list A) s0 :
  (forall x s, good s0 s -> wp (body x) (tpost s0) s) ->
  forall s, good s0 s -> wp (forM l body) (tpost s0) s.
Proof.
  intros Hb. induction l as [|x tl IH]; intros s Hg; cbn [forM].
  - wps. split; [exact Hg|eauto].
  - apply wp_bind. eapply wp_conseq; [apply Hb, Hg|]. intros s1 r (Hg1 & v & ->). apply IH, Hg1.
Qed.

(* the body of the loop over listeners: _deliver_later, possibly guarded / wrapped *)
Ltac loop_body Hd :=
  repeat first [ wp1 | rewrite all_exn
               | lazymatch goal with
                 | |- wp (Endpoint__deliver_later _ _ _ _ _ _ _ _) _ _ =>
                     eapply wp_conseq; [apply deliver_later_spec; [eassumption|exact Hd]|intros ? ? (? & ? & ->)]
                 | _ => hd
                 end ];
  try (split; [assumption|eauto]).

Lemma notify_listeners_spec i a d s0 s :
  good s0 s -> bytes_ok d -> wp (notify_listeners i (a, d)) (tpost s0) s.
Proof.
  intros Hg Hd. unfold Endpoint_notify_listeners. cbv zeta. wps. try apply wp_bind_tt.
  apply forM_total; [|exact Hg]. intros l s1 Hg1. loop_body Hd.
Qed.

Lemma tunnel_notify_listeners_spec i a d ft s0 s :
  good s0 s -> bytes_ok d -> wp (tunnel_notify_listeners i (a, d) ft) (tpost s0) s.
Proof.
  intros Hg Hd. unfold TunnelEndpoint_notify_listeners. cbv zeta. wps. try apply wp_bind_tt.
  apply forM_total; [|exact Hg]. intros l s1 Hg1. loop_body Hd.
Qed.

(* every listener that passes the check of _deliver_later is really handed the datagram *)
Lemma dispatch_delivers l a d s :
  Winv (s_w s) -> bytes_ok d -> wp (dispatch l (a, d)) (fun s' _ => In (EvDelivered l) (s_evs s')) s.
Proof.
  intros Hw Hd.
  assert (Hs : forall s1, s_w s1 = s_w s -> s_evs s1 = EvDelivered l :: s_evs s ->
            forall s' (r : res unit), tpost s1 s' r -> In (EvDelivered l) (s_evs s')).
  { intros s1 _ E2 s' r [[_ (new & En & _)] _]. rewrite En, E2. apply in_or_app. right. left. reflexivity. }
  eapply wp_conseq with (Q1 := fun s' r => exists s1, s_w s1 = s_w s /\ s_evs s1 = EvDelivered l :: s_evs s /\ tpost s1 s' r).
  2:{ intros s' r (s1 & E1 & E2 & H). eapply Hs; eauto. }
  unfold dispatch_on_packet. apply wp_bind. apply wp_emit. intros s1 E1 E2 E3 E4.
  assert (Hg1 : good s1 s1) by (apply good_refl; rewrite E1; exact Hw).
  eapply wp_conseq; [apply (dispatch_spec_tail l a d s1 s1 Hg1 Hd)|]. intros s' r H. exists s1. auto.
Qed.

Lemma wp_and {A} (m : M A) (Q1 Q2 : st -> res A -> Prop) s : wp m Q1 s -> wp m Q2 s -> wp m (fun s' r => Q1 s' r /\ Q2 s' r) s.
Proof. unfold wp. auto. Qed.
Lemma good_trans a b c : good a b -> good b c -> good a c.
Proof.
  intros [_ (n1 & E1 & F1)] [Hw (n2 & E2 & F2)]. split; [exact Hw|]. exists (n2 ++ n1).
  split; [rewrite E2, E1, app_assoc; reflexivity|apply Forall_app; auto].
Qed.
Lemma good_mono a b e : good a b -> In e (s_evs a) -> In e (s_evs b).
Proof. intros [_ (n & E & _)] H. rewrite E. apply in_or_app. right. exact H. Qed.

Definition passes (l : nat) (d : bytes) (w : world) : bool :=
  w_open w && (dict_mem bytes_eqb (slice d None (Some (cfg_prefixlen cfg))) (w_prefix_map w) || existsb (Nat.eqb l) (w_listeners w)).

Lemma deliver_later_delivers i l a d s :
  Winv (s_w s) -> bytes_ok d -> passes l d (s_w s) = true ->
  wp (deliver_later i l (a, d)) (fun s' _ => In (EvDelivered l) (s_evs s')) s.
Proof.
  intros Hw Hd Hp. unfold passes in Hp. unfold Endpoint__deliver_later.
  repeat first [ wp1 | progress cbn [snd] in *
               | lazymatch goal with
                 | |- wp (dispatch_on_packet _ _ _ _ _ _ _) _ _ => apply dispatch_delivers; assumption
                 | _ => hd
                 end ].
  all: exfalso; lia.
Qed.

Lemma forM_reaches (body : nat -> M unit) d (ls : list nat) :
  (forall l s, Winv (s_w s) -> wp (body l) (tpost s) s) ->
  (forall l s, Winv (s_w s) -> passes l d (s_w s) = true -> wp (body l) (fun s' _ => In (EvDelivered l) (s_evs s')) s) ->
  (forall l w, Winv w -> In l ls -> passes l d w = true) ->
  forall s, Winv (s_w s) ->
  wp (forM ls body) (fun s' r => good s s' /\ r = Ok tt /\ forall l, In l ls -> In (EvDelivered l) (s_evs s')) s.
Proof.
  intros Hb Hdel. induction ls as [|x tl IH]; intros Hpass s Hw; cbn [forM].
  - wps. split; [apply good_refl, Hw|]. split; [reflexivity|]. intros l [].
  - apply wp_bind. eapply wp_conseq; [apply wp_and; [apply Hb, Hw|apply Hdel; [exact Hw|apply Hpass; [exact Hw|left; reflexivity]]]|].
    intros s1 r [(Hg1 & v & ->) Hin]. eapply wp_conseq; [apply IH; [|apply Hg1]|].
    + intros l w H1 H2. apply Hpass; [exact H1|right; exact H2].
    + intros s2 r2 (Hg2 & -> & Hall). split; [eapply good_trans; eauto|]. split; [reflexivity|].
      intros l [<-|Hl]; [eapply good_mono; eauto|apply Hall, Hl].
Qed.

Lemma notify_listeners_reaches i a d s :
  Winv (s_w s) -> bytes_ok d ->
  (forall l w, Winv w -> In l (selected cfg (s_w s) d) -> passes l d w = true) ->
  wp (notify_listeners i (a, d)) (fun s' r => good s s' /\ r = Ok tt /\ forall l, In l (selected cfg (s_w s) d) -> In (EvDelivered l) (s_evs s')) s.
Proof.
  intros Hw Hd Hp. unfold Endpoint_notify_listeners. cbv zeta. wps. try apply wp_bind_tt. cbn [snd].
  apply forM_reaches with (d := d).
  - intros l s1 Hw1. pose proof (good_refl _ Hw1) as Hg1. loop_body Hd.
  - intros l s1 Hw1 Hp1.
    repeat first [ wp1 | rewrite all_exn
                 | lazymatch goal with
                   | |- wp (Endpoint__deliver_later _ _ _ _ _ _ _ _) _ _ =>
                       eapply wp_conseq; [apply deliver_later_delivers; assumption|intros ? [?|?] ?]
                   | _ => hd
                   end ]; assumption.
  - exact Hp.
  - exact Hw.
Qed.

(* ---- totality, at the level of a whole delivery ---- *)
Lemma notify_listeners_total i a d s :
  Winv (s_w s) -> bytes_ok d -> wp (notify_listeners i (a, d)) (tpost s) s.
Proof. intros Hw Hd. apply notify_listeners_spec; [apply good_refl, Hw|exact Hd]. Qed.
Lemma tunnel_notify_listeners_total i a d ft s :
  Winv (s_w s) -> bytes_ok d -> wp (tunnel_notify_listeners i (a, d) ft) (tpost s) s.
Proof. intros Hw Hd. apply tunnel_notify_listeners_spec; [apply good_refl, Hw|exact Hd]. Qed.
Lemma dispatch_total l a d s :
  Winv (s_w s) -> bytes_ok d -> wp (dispatch l (a, d)) (tpost s) s.
Proof. intros Hw Hd. apply dispatch_spec; [apply good_refl, Hw|exact Hd]. Qed.

End P.

(* ================================================================ statements at the level of one delivery *)
Lemma wp_run {A} (m : M A) (Q : st -> res A -> Prop) s : wp m Q s -> exists s' r, m s = (s', r) /\ Q s' r.
Proof. unfold wp. destruct (m s) as [s' r]. cbn. eauto. Qed.
Lemma Forall_rev_iff {A} (P : A -> Prop) l : Forall P l -> Forall P (rev l).
Proof. rewrite !Forall_forall. intros H x Hx. apply H. apply in_rev. exact Hx. Qed.

Section Top.
Variable o_handler : nat -> Z -> addr -> bytes -> option Z -> world -> world * res hres.
Variable o_decrypt : Z -> bytes -> Z -> res bytes.
Variable o_encrypt : Z -> bytes -> Z -> res bytes.
Variable o_peer : nat -> addr -> world -> option Z.
Hypothesis Hcrypto : crypto_ok o_decrypt o_encrypt.
Hypothesis Hhandler : forall l h a d c w, world_wf w -> world_wf (fst (o_handler l h a d c w)).

Lemma good_trace cfg bad Winv w s' : good Winv cfg bad (init_st w) s' -> Forall (ev_ok cfg bad) (trace s').
Proof. intros [_ (new & E & F)]. unfold trace. rewrite E. cbn [init_st s_evs]. rewrite app_nil_r. apply Forall_rev_iff, F. Qed.

(* no exception reaches the transport; handlers are entered only through the gate; no task failure escapes *)
Lemma notify_total_l cfg w src data :
  cfg_basic cfg -> world_wf w -> bytes_ok data ->
  exists s', notify o_handler o_decrypt o_encrypt o_peer cfg w src data = (s', Ok tt) /\ Forall (ev_ok cfg true) (trace s').
Proof.
  intros [Hm Hc] Hw Hd. destruct Hcrypto as [Hdec Henc].
  destruct (wp_run _ _ _ (notify_listeners_total o_handler o_decrypt o_encrypt o_peer Hdec Henc world_wf (fun _ H => H) Hhandler
                            cfg true Hm Hc ltac:(discriminate) 0%nat src data (init_st w) Hw Hd)) as (s' & r & E & Hg & [] & ->).
  exists s'. split; [exact E|]. eapply good_trace; eauto.
Qed.
Lemma tunnel_notify_total_l cfg w src data ft :
  cfg_basic cfg -> world_wf w -> bytes_ok data ->
  exists s', tunnel_notify o_handler o_decrypt o_encrypt o_peer cfg w src data ft = (s', Ok tt) /\ Forall (ev_ok cfg true) (trace s').
Proof.
  intros [Hm Hc] Hw Hd. destruct Hcrypto as [Hdec Henc].
  destruct (wp_run _ _ _ (tunnel_notify_listeners_total o_handler o_decrypt o_encrypt o_peer Hdec Henc world_wf (fun _ H => H) Hhandler
                            cfg true Hm Hc ltac:(discriminate) 0%nat src data ft (init_st w) Hw Hd)) as (s' & r & E & Hg & [] & ->).
  exists s'. split; [exact E|]. eapply good_trace; eauto.
Qed.
(* with the node built as the constructors build it: additionally no read beyond the end of any buffer, contained or not *)
Lemma notify_strict_l cfg w src data :
  cfg_wf cfg -> world_wf w -> bytes_ok data ->
  exists s', notify o_handler o_decrypt o_encrypt o_peer cfg w src data = (s', Ok tt) /\ Forall (ev_ok cfg false) (trace s').
Proof.
  intros Hwf Hw Hd. destruct Hcrypto as [Hdec Henc].
  destruct (wp_run _ _ _ (notify_listeners_total o_handler o_decrypt o_encrypt o_peer Hdec Henc world_wf (fun _ H => H) Hhandler
                            cfg false (wf_map_len _ Hwf) (wf_ce_len _ Hwf) (fun _ => Hwf) 0%nat src data (init_st w) Hw Hd))
    as (s' & r & E & Hg & [] & ->).
  exists s'. split; [exact E|]. eapply good_trace; eauto.
Qed.
Lemma tunnel_notify_strict_l cfg w src data ft :
  cfg_wf cfg -> world_wf w -> bytes_ok data ->
  exists s', tunnel_notify o_handler o_decrypt o_encrypt o_peer cfg w src data ft = (s', Ok tt) /\ Forall (ev_ok cfg false) (trace s').
Proof.
  intros Hwf Hw Hd. destruct Hcrypto as [Hdec Henc].
  destruct (wp_run _ _ _ (tunnel_notify_listeners_total o_handler o_decrypt o_encrypt o_peer Hdec Henc world_wf (fun _ H => H) Hhandler
                            cfg false (wf_map_len _ Hwf) (wf_ce_len _ Hwf) (fun _ => Hwf) 0%nat src data ft (init_st w) Hw Hd))
    as (s' & r & E & Hg & [] & ->).
  exists s'. split; [exact E|]. eapply good_trace; eauto.
Qed.
Lemma on_packet_total_l cfg l w src data :
  cfg_basic cfg -> world_wf w -> bytes_ok data ->
  exists s', on_packet o_handler o_decrypt o_encrypt o_peer cfg l w src data = (s', Ok tt) /\ Forall (ev_ok cfg true) (trace s').
Proof.
  intros [Hm Hc] Hw Hd. destruct Hcrypto as [Hdec Henc].
  destruct (wp_run _ _ _ (dispatch_total o_handler o_decrypt o_encrypt o_peer Hdec Henc world_wf (fun _ H => H) Hhandler
                            cfg true Hm Hc ltac:(discriminate) l src data (init_st w) Hw Hd)) as (s' & r & E & Hg & [] & ->).
  exists s'. split; [exact E|]. eapply good_trace; eauto.
Qed.

(* every selected listener is handed the datagram, whatever the handlers of the others do (raise, fail as tasks,
   rewrite the routing tables) - as long as they leave the listener registration of the endpoint alone *)
Lemma notify_reaches_l cfg w src data :
  cfg_basic cfg -> world_wf w -> bytes_ok data -> w_open w = true ->
  (forall l h a d c w', world_wf w' -> ep_same w' (fst (o_handler l h a d c w'))) ->
  exists s', notify o_handler o_decrypt o_encrypt o_peer cfg w src data = (s', Ok tt) /\
             forall l, In l (selected cfg w data) -> In (EvDelivered l) (trace s').
Proof.
  intros [Hm Hc] Hw Hd Ho Hep. destruct Hcrypto as [Hdec Henc].
  set (Winv := fun w' => world_wf w' /\ ep_same w w').
  assert (HW1 : forall w', Winv w' -> world_wf w') by (intros w' H; apply H).
  assert (HW2 : forall l h a d c w', Winv w' -> Winv (fst (o_handler l h a d c w'))).
  { intros l h a d c w' [H1 (E1 & E2 & E3)]. split; [apply Hhandler, H1|].
    destruct (Hep l h a d c w' H1) as (F1 & F2 & F3). unfold ep_same. rewrite F1, F2, F3. auto. }
  assert (HW0 : Winv w) by (split; [exact Hw|repeat split]).
  assert (Hpass : forall l w', Winv w' -> In l (selected cfg (s_w (init_st w)) data) -> passes cfg l data w' = true).
  { intros l w' [_ (E1 & E2 & E3)] Hin. unfold passes. rewrite E1, E2, E3, Ho. cbn [andb].
    unfold selected in Hin. cbn [init_st s_w] in Hin. unfold dict_mem.
    destruct (dict_get bytes_eqb (slice data None (Some (cfg_prefixlen cfg))) (w_prefix_map w)); [reflexivity|].
    cbn [orb]. apply existsb_exists. exists l. split; [exact Hin|apply Nat.eqb_refl]. }
  destruct (wp_run _ _ _ (notify_listeners_reaches o_handler o_decrypt o_encrypt o_peer Hdec Henc Winv HW1 HW2
                            cfg true Hm Hc ltac:(discriminate) 0%nat src data (init_st w) HW0 Hd Hpass)) as (s' & r & E & Hg & -> & Hall).
  exists s'. split; [exact E|]. intros l Hl. unfold trace. rewrite <- in_rev. apply Hall, Hl.
Qed.
End Top.

(* ================================================================ the prefix / length gate, in terms of the datagram *)
Section Gate.
Variable o_handler : nat -> Z -> addr -> bytes -> option Z -> world -> world * res hres.
Variable o_decrypt : Z -> bytes -> Z -> res bytes.
Variable o_encrypt : Z -> bytes -> Z -> res bytes.
Variable o_peer : nat -> addr -> world -> option Z.
Variable cfg : config.

Definition quiet (s : st) : st -> res unit -> Prop := fun s' r => s_evs s' = s_evs s /\ s_w s' = s_w s /\ r = Ok tt.
Lemma quiet_refl s : quiet s s (Ok tt). Proof. repeat split. Qed.

Lemma community_foreign l a d wu s :
  mismatch (cm_prefix (cfg_comm cfg l)) d -> wp (Community_on_packet o_handler o_peer cfg l (a, d) wu) (quiet s) s.
Proof.
  intros Hm. unfold Community_on_packet.
  (* up to the first read of the datagram: with a foreign prefix or fewer than 23 bytes that point is not reached *)
  repeat first [ wp1 | progress cbn [is_some deref negb] | opt_case
               | lazymatch goal with |- wp (idxM _ _) _ _ => fail | |- wp (readM _) _ _ => fail | _ => hd end ].
  all: try apply quiet_refl.
  all: exfalso; bytes_facts; destruct Hm; [congruence|lia].
Qed.

Lemma crypto_foreign l a d wu s :
  length (ce_prefix (cfg_crypto cfg l)) = 22%nat ->
  mismatch (ce_prefix (cfg_crypto cfg l)) d ->
  (forall t, ce_tunnel_community (cfg_crypto cfg l) = Some t -> mismatch (cm_prefix (cfg_comm cfg t)) d) ->
  wp (PythonCryptoEndpoint_on_packet o_handler o_decrypt o_encrypt o_peer cfg l (a, d) wu) (quiet s) s.
Proof.
  intros Hl Hm Ht. unfold PythonCryptoEndpoint_on_packet.
  repeat first [ wp1 | progress cbn [is_some deref negb] | opt_case
               | lazymatch goal with
                 | |- wp (idxM _ _) _ _ => fail | |- wp (readM _) _ _ => fail
                 | |- wp (Community_on_packet _ _ _ _ _ _) _ _ =>
                     eapply wp_conseq; [apply community_foreign; apply Ht; first [assumption|reflexivity]|intros ? ? (? & ? & ->)]
                 | _ => hd
                 end ].
  all: try apply quiet_refl.
  all: try (split; [congruence|split; [congruence|reflexivity]]).
  all: exfalso; repeat match goal with H : context [starts_with _ _] |- _ => rewrite starts_with_slice in H by exact Hl end.
  all: bytes_facts; destruct Hm; [congruence|lia].
Qed.

Lemma stats_quiet l a d s : wp (StatisticsEndpoint_on_packet cfg l (a, d)) (quiet s) s.
Proof.
  unfold StatisticsEndpoint_on_packet. explore.
  all: try apply quiet_refl.
  all: intros; exfalso; match goal with H : idx _ 22 = Raise _ |- _ => apply (idx_raise _ _ _ H); lia end.
Qed.

Lemma foreign_silent_l l w src data :
  (forall l, length (ce_prefix (cfg_crypto cfg l)) = 22%nat) -> foreign cfg l data ->
  exists s', on_packet o_handler o_decrypt o_encrypt o_peer cfg l w src data = (s', Ok tt) /\ trace s' = [EvDelivered l].
Proof.
  intros Hlen Hf. unfold on_packet.
  assert (H : wp (dispatch_on_packet o_handler o_decrypt o_encrypt o_peer cfg l (src, data))
                 (fun s' r => s_evs s' = [EvDelivered l] /\ r = Ok tt) (init_st w)).
  { unfold dispatch_on_packet. apply wp_bind. apply wp_emit. intros s1 E1 E2 E3 E4.
    assert (Hq : forall s' r, quiet s1 s' r -> s_evs s' = [EvDelivered l] /\ r = Ok tt).
    { intros s' r (F1 & _ & ->). rewrite F1, E2. auto. }
    unfold foreign in Hf. destruct (cfg_kind cfg l).
    - eapply wp_conseq; [apply community_foreign, Hf|exact Hq].
    - destruct Hf as [H1 H2]. eapply wp_conseq; [apply crypto_foreign; auto|exact Hq].
    - eapply wp_conseq; [apply stats_quiet|exact Hq]. }
  destruct (wp_run _ _ _ H) as (s' & r & E & Es & ->). exists s'. split; [exact E|]. unfold trace. rewrite Es. reflexivity.
Qed.
End Gate.

(* ================================================================ reading the event predicate *)
Lemma ev_ok_no_escape cfg b t : Forall (ev_ok cfg b) t -> forall l e, ~ In (EvTaskEscape l e) t.
Proof. intros H l e Hin. rewrite Forall_forall in H. exact (H _ Hin). Qed.
Lemma ev_ok_no_bad_read cfg t : Forall (ev_ok cfg false) t -> ~ In EvBadRead t.
Proof. intros H Hin. rewrite Forall_forall in H. specialize (H _ Hin). cbn in H. discriminate. Qed.
Lemma ev_ok_entered cfg b t l h d cid : Forall (ev_ok cfg b) t -> In (EvEntered l h d cid) t ->
  slice d None (Some 22) = cm_prefix (cfg_comm cfg l) /\ 23 <= blen d /\
  match cid with None => handler_at cfg l d | Some _ => private_handler_at cfg l d end = Some (HOracle h).
Proof. intros H Hin. rewrite Forall_forall in H. specialize (H _ Hin). destruct cid; exact H. Qed.

(* ================================================================ deciding cfg_wf for a concrete node *)
Fixpoint oncell_positions (i : nat) (m : list (option href)) : list nat :=
  match m with
  | [] => []
  | Some HOnCell :: tl => i :: oncell_positions (S i) tl
  | _ :: tl => oncell_positions (S i) tl
  end.
Lemma oncell_positions_spec m : forall i k, nth_error m k = Some (Some HOnCell) -> In (i + k)%nat (oncell_positions i m).
Proof.
  induction m as [|x tl IH]; intros i k H; [destruct k; discriminate|].
  destruct k as [|k]; cbn in H.
  - inversion H; subst. cbn. left. lia.
  - specialize (IH (S i) k H). replace (i + S k)%nat with (S i + k)%nat by lia.
    destruct x as [[|id]|]; cbn; auto.
Qed.
Lemma no_oncell_dec m : oncell_positions 0 m = [] -> no_oncell m.
Proof. intros E i H. pose proof (oncell_positions_spec m 0 i H) as Hin. rewrite E in Hin. exact Hin. Qed.
Lemma oncell_at_0_dec m : (oncell_positions 0 m = [] \/ oncell_positions 0 m = [0%nat]) ->
  forall i, nth_error m i = Some (Some HOnCell) -> i = 0%nat.
Proof.
  intros E i H. pose proof (oncell_positions_spec m 0 i H) as Hin.
  destruct E as [E|E]; rewrite E in Hin; [destruct Hin|]. destruct Hin as [Hin|[]]. lia.
Qed.

(* ================================================================ the handler decorators *)
Section Wrappers.
Variable o_unpack : Z -> bytes -> Z -> res (Z * Z).
Variable o_unpack_list : bytes -> Z -> res Z.
Variable o_verify : Z -> bytes -> res (bool * bytes).
Variable o_peer_by_key : nat -> Z -> world -> option Z.
Variable o_user : nat -> Z -> world -> world * res hres.
Variable cfg : config.

(* the datagram decodes completely and carries a valid signature *)
Definition accepted_signed (d : bytes) (p : Z) : Prop :=
  exists auth n rem, o_unpack 0 d 23 = Ok (auth, n) /\ o_verify auth d = Ok (true, rem) /\ o_unpack_list rem 23 = Ok p.
Definition accepted_unsigned (d : bytes) (p : Z) : Prop := o_unpack_list d 23 = Ok p.
Definition accepted_cell (d : bytes) (p : Z) : Prop := exists n, o_unpack 1 d 23 = Ok (p, n).
(* either the wrapper raises and nothing at all has happened, or the datagram was accepted and the decorated function
   has been entered exactly once with the decoded payloads *)
Definition wrapper_post (acc : Z -> Prop) (l : nat) (s : st) : st -> res hres -> Prop :=
  fun s' r => (s' = s /\ exists e, r = Raise e) \/ (exists p, acc p /\ s_evs s' = EvUser l p :: s_evs s).

Lemma call_user_post (acc : Z -> Prop) l p s0 s : s = s0 -> acc p -> wp (call_user o_user l p) (wrapper_post acc l s0) s.
Proof.
  intros -> Hacc. unfold call_user. apply wp_bind. apply wp_emit. intros s1 E1 E2 E3 E4.
  unfold wp, wrapper_post. destruct (o_user l p (s_w s1)) as [w' r]. cbn [fst snd s_evs]. right. exists p. auto.
Qed.

Ltac wrapper_tac :=
  repeat first [ wp1 | progress cbn [is_some deref negb] | opt_case
               | lazymatch goal with |- wp (call_user _ _ _) _ _ => fail | |- wp (let '(_, _) := ?p in _) _ _ => destruct p | _ => hd end ];
  try (left; split; [reflexivity|eauto]).

Lemma lazy_wrapper_gate_l l a d s :
  wp (W_lazy_wrapper o_unpack o_unpack_list o_verify o_peer_by_key o_user cfg l a d) (wrapper_post (accepted_signed d) l s) s.
Proof.
  unfold W_lazy_wrapper. wrapper_tac.
  all: apply call_user_post; [reflexivity|]; unfold accepted_signed;
    repeat match goal with H : negb ?b = false |- _ => destruct b; [clear H|discriminate H] end; eauto 6.
Qed.
Lemma lazy_wrapper_wd_gate_l l a d s :
  wp (W_lazy_wrapper_wd o_unpack o_unpack_list o_verify o_peer_by_key o_user cfg l a d) (wrapper_post (accepted_signed d) l s) s.
Proof.
  unfold W_lazy_wrapper_wd. wrapper_tac.
  all: apply call_user_post; [reflexivity|]; unfold accepted_signed;
    repeat match goal with H : negb ?b = false |- _ => destruct b; [clear H|discriminate H] end; eauto 6.
Qed.
Lemma lazy_wrapper_unsigned_gate_l l a d s :
  wp (W_lazy_wrapper_unsigned o_unpack_list o_user cfg l a d) (wrapper_post (accepted_unsigned d) l s) s.
Proof.
  unfold W_lazy_wrapper_unsigned. wrapper_tac.
  all: apply call_user_post; [reflexivity|]; unfold accepted_unsigned; eauto.
Qed.
Lemma unpack_cell_gate_l l a d cid s :
  wp (W_unpack_cell o_unpack o_user cfg l a d cid) (wrapper_post (accepted_cell d) l s) s.
Proof.
  unfold W_unpack_cell. wrapper_tac.
  all: apply call_user_post; [reflexivity|]; unfold accepted_cell; eauto.
Qed.
End Wrappers.
