(* C04: byte-level facts about cells (to_bin / from_bin / unwrap), layered encryption, dictionaries. *)
From Coq Require Import ZArith List Bool Lia ZifyBool Arith.
From IPV8V Require Import lib.PyErr lib.Bytes lib.BE model.M02_wire model.M03_recv model.M04_onion
  spec.S04_onion_spec proofs.P02_prims.
Import ListNotations.
Open Scope Z_scope.

(* ---- bytes ---- *)
Lemma bytes_eqb_neq a b : a <> b -> bytes_eqb a b = false.
Proof. intros H. destruct (bytes_eqb a b) eqn:E; [|reflexivity]. apply bytes_eqb_eq in E. contradiction. Qed.

Lemma addr_eqb_refl a : addr_eqb a a = true.
Proof. destruct a; simpl; rewrite bytes_eqb_refl, Z.eqb_refl; reflexivity. Qed.

Lemma unpack_u_at w (pre a rest : bytes) :
  length a = w -> unpack_u w (pre ++ a ++ rest) (Z.of_nat (length pre)) = Ok (be_decode a).
Proof.
  intros H. unfold unpack_u, blen. rewrite !app_length, H.
  destruct ((Z.of_nat (length pre) <? 0) || (Z.of_nat (length pre + (w + length rest)) <? Z.of_nat (length pre) + Z.of_nat w)) eqn:E; [lia|].
  rewrite Nat2Z.id, skipn_app_exact, firstn_len_app by (symmetry; exact H). reflexivity.
Qed.

Lemma idx_at (pre : bytes) x rest : idx (pre ++ x :: rest) (Z.of_nat (length pre)) = Ok x.
Proof.
  unfold idx, blen. rewrite app_length. cbn [length].
  destruct (Z.of_nat (length pre) <? 0) eqn:E1; [lia|].
  destruct ((Z.of_nat (length pre) <? 0) || (Z.of_nat (length pre + S (length rest)) <=? Z.of_nat (length pre))) eqn:E2; [lia|].
  rewrite Nat2Z.id, nth_error_app2 by lia. rewrite Nat.sub_diag. reflexivity.
Qed.

Lemma idx_head x rest : idx (x :: rest) 0 = Ok x.
Proof. exact (idx_at [] x rest). Qed.

Lemma slice_from (pre rest : bytes) k :
  k = Z.of_nat (length pre) -> slice (pre ++ rest) (Some k) None = rest.
Proof.
  intros ->. unfold slice, clamp, blen. rewrite app_length.
  destruct (Z.of_nat (length pre) <? 0) eqn:E1; [lia|]. rewrite E1.
  destruct (Z.of_nat (length pre + length rest) <? Z.of_nat (length pre)) eqn:E2; [lia|].
  rewrite Nat2Z.id, skipn_app_exact.
  replace (Z.to_nat (Z.of_nat (length pre + length rest) - Z.of_nat (length pre))) with (length rest) by lia.
  apply firstn_all.
Qed.

Lemma slice_upto (pre rest : bytes) k :
  k = Z.of_nat (length pre) -> slice (pre ++ rest) None (Some k) = pre.
Proof.
  intros ->. rewrite slice_prefix by lia. rewrite Nat2Z.id. apply firstn_len_app. reflexivity.
Qed.

Lemma slice_head1 x (rest : bytes) : slice (x :: rest) (Some 0) (Some 1) = [x].
Proof.
  unfold slice, clamp. rewrite blen_cons. pose proof (blen_nonneg rest).
  cbn [Z.ltb Z.compare]. destruct (1 + blen rest <? 0) eqn:E1; [lia|].
  destruct (1 + blen rest <? 1) eqn:E2; [lia|]. reflexivity.
Qed.

Lemma slice_tail1 x (rest : bytes) : slice (x :: rest) (Some 1) None = rest.
Proof. exact (slice_from [x] rest 1 eq_refl). Qed.

(* ---- cells ---- *)
Definition b2z (b : bool) : Z := if b then 1 else 0.

Lemma to_bin_shape pfx cid pt re msg :
  to_bin pfx cid pt re msg = (pfx ++ [0]) ++ be_encode 4 cid ++ [b2z pt] ++ [b2z re] ++ msg.
Proof. unfold to_bin, b2z. rewrite <- !app_assoc. reflexivity. Qed.

Lemma b2z_flag b : negb (b2z b =? 0) = b.
Proof. destruct b; reflexivity. Qed.

Lemma cid_be cid : cid_ok cid -> be_decode (be_encode 4 cid) = cid.
Proof. intros H. apply be_decode_encode. unfold cid_ok in H. simpl. lia. Qed.

Lemma from_bin_to_bin pfx c :
  length pfx = 22%nat -> cid_ok (cl_cid c) -> from_bin (cell_to_bin pfx c) = Ok c.
Proof.
  intros Hp Hc. destruct c as [cid msg pt re]. unfold cell_to_bin, from_bin. cbn [cl_cid cl_msg cl_plain cl_early] in *.
  rewrite to_bin_shape.
  assert (L23 : length (pfx ++ [0]) = 23%nat) by (rewrite app_length, Hp; reflexivity).
  replace 23 with (Z.of_nat (length (pfx ++ [0]))) at 1 by (rewrite L23; reflexivity).
  rewrite unpack_u_at by apply be_encode_length. cbn [bind]. rewrite cid_be by exact Hc.
  replace ((pfx ++ [0]) ++ be_encode 4 cid ++ [b2z pt] ++ [b2z re] ++ msg)
    with (((pfx ++ [0]) ++ be_encode 4 cid) ++ [b2z pt] ++ [b2z re] ++ msg) by (rewrite <- !app_assoc; reflexivity).
  assert (L27 : length ((pfx ++ [0]) ++ be_encode 4 cid) = 27%nat) by (rewrite app_length, L23, be_encode_length; reflexivity).
  replace 27 with (Z.of_nat (length ((pfx ++ [0]) ++ be_encode 4 cid))) by (rewrite L27; reflexivity).
  rewrite unpack_u_at by reflexivity. cbn [bind].
  replace (((pfx ++ [0]) ++ be_encode 4 cid) ++ [b2z pt] ++ [b2z re] ++ msg)
    with ((((pfx ++ [0]) ++ be_encode 4 cid) ++ [b2z pt]) ++ [b2z re] ++ msg) by (rewrite <- !app_assoc; reflexivity).
  assert (L28 : length (((pfx ++ [0]) ++ be_encode 4 cid) ++ [b2z pt]) = 28%nat) by (rewrite app_length, L27; reflexivity).
  replace 28 with (Z.of_nat (length (((pfx ++ [0]) ++ be_encode 4 cid) ++ [b2z pt]))) by (rewrite L28; reflexivity).
  rewrite unpack_u_at by reflexivity. cbn [bind].
  replace ((((pfx ++ [0]) ++ be_encode 4 cid) ++ [b2z pt]) ++ [b2z re] ++ msg)
    with (((((pfx ++ [0]) ++ be_encode 4 cid) ++ [b2z pt]) ++ [b2z re]) ++ msg) by (rewrite <- !app_assoc; reflexivity).
  rewrite slice_from by (rewrite app_length, L28; reflexivity).
  unfold be_decode. cbn [be_decode_acc]. rewrite !Z.mul_0_l, !Z.add_0_l, !b2z_flag. reflexivity.
Qed.

Lemma to_bin_blen pfx c : length pfx = 22%nat -> blen (cell_to_bin pfx c) = 29 + blen (cl_msg c).
Proof.
  intros Hp. unfold cell_to_bin. rewrite to_bin_shape. unfold blen.
  rewrite !app_length, be_encode_length, Hp. cbn [length]. lia.
Qed.

Lemma to_bin_prefix pfx c : length pfx = 22%nat -> slice (cell_to_bin pfx c) None (Some 22) = pfx.
Proof.
  intros Hp. unfold cell_to_bin, to_bin. apply slice_upto. rewrite Hp. reflexivity.
Qed.

Lemma to_bin_idx22 pfx c : length pfx = 22%nat -> idx (cell_to_bin pfx c) 22 = Ok 0.
Proof.
  intros Hp. unfold cell_to_bin, to_bin. replace 22 with (Z.of_nat (length pfx)) by (rewrite Hp; reflexivity).
  cbn [app]. apply idx_at.
Qed.

(* ---- dictionaries ---- *)
Lemma assoc_upd_same {A} k (v : A) l : assoc k (upd k v l) = Some v.
Proof.
  induction l as [|[k' v'] tl IH]; cbn [upd assoc].
  - rewrite Z.eqb_refl. reflexivity.
  - destruct (k =? k') eqn:E; cbn [assoc]; [rewrite Z.eqb_refl; reflexivity | rewrite E; exact IH].
Qed.

Lemma assoc_upd_other {A} k k' (v : A) l : k' <> k -> assoc k' (upd k v l) = assoc k' l.
Proof.
  intros Hn. induction l as [|[k2 v2] tl IH]; cbn [upd assoc].
  - destruct (k' =? k) eqn:E; [lia | reflexivity].
  - destruct (k =? k2) eqn:E; cbn [assoc].
    + apply Z.eqb_eq in E. subst k2. destruct (k' =? k) eqn:E2; [lia | reflexivity].
    + destruct (k' =? k2); [reflexivity | exact IH].
Qed.

Lemma assoc_del_same {A} k (l : list (Z * A)) : assoc k (del k l) = None.
Proof.
  induction l as [|[k' v'] tl IH]; cbn [del assoc]; [reflexivity|].
  destruct (k =? k') eqn:E; [exact IH|]. cbn [assoc]. rewrite E. exact IH.
Qed.

Lemma assoc_del_other {A} k k' (l : list (Z * A)) : k' <> k -> assoc k' (del k l) = assoc k' l.
Proof.
  intros Hn. induction l as [|[k2 v2] tl IH]; cbn [del assoc]; [reflexivity|].
  destruct (k =? k2) eqn:E.
  - apply Z.eqb_eq in E. subst k2. destruct (k' =? k) eqn:E2; [lia | exact IH].
  - cbn [assoc]. destruct (k' =? k2); [reflexivity | exact IH].
Qed.

Lemma has_assoc {A} k (l : list (Z * A)) : has k l = match assoc k l with Some _ => true | None => false end.
Proof. reflexivity. Qed.

(* ---- layered encryption ---- *)
Section Layers.
Variables key nonce : Type.
Variable enc : key -> dir -> nonce -> bytes -> bytes.
Variable dec : key -> dir -> bytes -> option bytes.
Notation enc_layers := (enc_layers enc).

Lemma enc_layers_app d ks1 nl1 ks2 nl2 m :
  length ks1 = length nl1 ->
  enc_layers d (ks1 ++ ks2) (nl1 ++ nl2) m = enc_layers d ks1 nl1 (enc_layers d ks2 nl2 m).
Proof.
  revert nl1; induction ks1 as [|k ks IH]; intros [|n nl] H; try discriminate; cbn [app enc_layers].
  - reflexivity.
  - rewrite IH by (simpl in H; lia). reflexivity.
Qed.

Lemma enc_layers_length ovh d ks : forall nl m,
  aead_grows enc ovh -> length nl = length ks ->
  length (enc_layers d ks nl m) = (length m + ovh * length ks)%nat.
Proof.
  induction ks as [|k ks IH]; intros [|n nl] m G H; try discriminate; cbn [enc_layers length].
  - lia.
  - destruct G as [Gp Gl]. rewrite Gl, IH by (try split; auto; simpl in H; lia). lia.
Qed.

Lemma encrypt_hops_app d (l1 : list (hop key)) : forall l2 ns m,
  encrypt_hops enc d (l1 ++ l2) ns m =
  match encrypt_hops enc d l1 ns m with
  | Ok m1 => encrypt_hops enc d l2 (fun i => ns (length l1 + i)%nat) m1
  | Raise e => Raise e
  end.
Proof.
  induction l1 as [|h tl IH]; intros l2 ns m; cbn [app encrypt_hops length].
  - reflexivity.
  - destruct (h_keys h); [|reflexivity]. rewrite IH. unfold shift.
    destruct (encrypt_hops enc d tl (fun i => ns (S i)) (enc k d (ns 0%nat) m)); [|reflexivity].
    reflexivity.
Qed.

Lemma encrypt_hops_layers d : forall (hops : list (hop key)) ks ns m,
  map h_keys hops = map Some ks ->
  encrypt_hops enc d (rev hops) ns m = Ok (enc_layers d ks (drawn ns (length ks)) m).
Proof.
  induction hops as [|h tl IH]; intros [|k ks] ns m H; try discriminate.
  - reflexivity.
  - cbn [map] in H. injection H as Hk Ht. cbn [rev]. rewrite encrypt_hops_app, (IH ks ns m Ht).
    cbn [encrypt_hops]. rewrite Hk. rewrite rev_length.
    assert (L : length tl = length ks) by (rewrite <- (map_length h_keys), Ht, map_length; reflexivity).
    rewrite L, Nat.add_0_r. unfold drawn. cbn [length].
    rewrite seq_S, map_app, rev_app_distr. cbn [map rev app enc_layers]. reflexivity.
Qed.

Lemma decrypt_hops_layers d : forall (hops : list (hop key)) ks nl m,
  aead_correct enc dec -> map h_keys hops = map Some ks -> length nl = length ks ->
  decrypt_hops dec d hops (enc_layers d ks nl m) = Ok m.
Proof.
  induction hops as [|h tl IH]; intros [|k ks] [|n nl] m C H L; try discriminate.
  - reflexivity.
  - cbn [map] in H. injection H as Hk Ht. cbn [decrypt_hops enc_layers]. rewrite Hk, C.
    apply IH; auto.
Qed.

(* peeling the first i layers leaves the rest *)
Lemma decrypt_hops_prefix d : forall (hops : list (hop key)) ks nl m,
  aead_correct enc dec -> map h_keys hops = map Some ks -> length nl = length ks ->
  forall rest, decrypt_hops dec d (hops ++ rest) (enc_layers d ks nl m) = decrypt_hops dec d rest m.
Proof.
  induction hops as [|h tl IH]; intros [|k ks] [|n nl] m C H L rest; try discriminate.
  - reflexivity.
  - cbn [map] in H. injection H as Hk Ht. cbn [app decrypt_hops enc_layers]. rewrite Hk, C.
    apply IH; auto.
Qed.

Lemma drawn_length (ns : nat -> nonce) n : length (drawn ns n) = n.
Proof. unfold drawn. rewrite rev_length, map_length, seq_length. reflexivity. Qed.

End Layers.
