(* C04: what one node does with one cell - relay steps, end-point decryption, hand-over to the
   cell handlers, the data / ping / pong / test handlers on well-formed payloads. *)
From Coq Require Import ZArith List Bool Lia ZifyBool Arith.
From IPV8V Require Import lib.PyErr lib.Bytes lib.BE model.M02_wire model.M03_recv model.M04_onion
  spec.S04_onion_spec proofs.P02_prims proofs.P02_roundtrip proofs.P04_base.
Import ListNotations.
Open Scope Z_scope.

Section Node.
Variables key nonce : Type.
Variable enc : key -> dir -> nonce -> bytes -> bytes.
Variable dec : key -> dir -> bytes -> option bytes.
Notation node := (node key).
Notation on_packet := (on_packet enc dec).
Notation process_cell := (process_cell enc dec).
Notation relay_cell := (relay_cell enc dec).
Notation incoming_crypto := (incoming_crypto dec).
Notation outgoing_crypto := (outgoing_crypto enc).
Notation ep_send_cell := (ep_send_cell enc).
Notation community_on_cell_packet := (community_on_cell_packet enc).
Notation on_packet_from_circuit := (on_packet_from_circuit enc).

(* process_cell after from_bin *)
Definition process_cell_c (nd : node) (src : addr) (c : cell) (rnd : Z -> bytes) (ns : nat -> nonce)
  : res (node * list action) :=
  if has (cl_cid c) (n_relays nd) then relay_cell nd c ns
  else
    do oc <- incoming_crypto nd c;
    match oc with
    | None => Ok (nd, [])
    | Some c1 =>
        if (length (cl_msg c1) =? 0)%nat then Ok (nd, [])
        else
          do m0 <- idx (cl_msg c1) 0;
          if (negb (cl_early c1) && (m0 =? 4)) || (n_max_early nd <=? 0) then Ok (nd, [])
          else if cl_plain c1 && negb (NO_CRYPTO m0) then Ok (nd, [])
          else community_on_cell_packet nd src (cell_to_bin (n_prefix nd) c1) rnd ns
    end.

Lemma on_packet_cell (nd : node) src c rnd ns :
  length (n_prefix nd) = 22%nat -> cid_ok (cl_cid c) ->
  on_packet nd src (cell_to_bin (n_prefix nd) c) rnd ns = process_cell_c nd src c rnd ns.
Proof.
  intros Hp Hc. unfold M04_onion.on_packet.
  rewrite to_bin_prefix by exact Hp. rewrite bytes_eqb_refl. cbn [negb].
  pose proof (to_bin_blen (n_prefix nd) c Hp) as Hl. pose proof (blen_nonneg (cl_msg c)) as Hn.
  destruct (22 <? blen (cell_to_bin (n_prefix nd) c)) eqn:E; [|lia].
  rewrite to_bin_idx22 by exact Hp. cbn [bind]. rewrite Z.eqb_refl.
  unfold M04_onion.process_cell.
  destruct (blen (cell_to_bin (n_prefix nd) c) <? 29) eqn:E2; [lia|].
  rewrite from_bin_to_bin by assumption. cbn [bind]. reflexivity.
Qed.

(* ---- relays ---- *)
Lemma relay_forward_step (nd : node) src cid cid' pk nxt k cnt body early n rnd ns :
  aead_correct enc dec ->
  length (n_prefix nd) = 22%nat -> cid_ok cid ->
  assoc cid (n_relays nd) = Some (mkRR cid' (mkHop pk nxt (Some k)) FORWARD false cnt) ->
  (early = true -> cnt < n_max_early nd) ->
  on_packet nd src (cell_to_bin (n_prefix nd) (mkCell cid (enc k FORWARD n body) false early)) rnd ns
  = Ok (set_relays nd (upd cid (mkRR cid' (mkHop pk nxt (Some k)) FORWARD false (cnt + 1)) (n_relays nd)),
        [Send nxt (cell_to_bin (n_prefix nd) (mkCell cid' body false early))]).
Proof.
  intros C Hp Hc Ha He. rewrite on_packet_cell by assumption. unfold process_cell_c, has.
  cbn [cl_cid]. rewrite Ha. unfold M04_onion.relay_cell. cbn [cl_plain cl_cid cl_early]. rewrite Ha.
  cbn [rr_early rr_rdv rr_dir rr_hop rr_cid].
  destruct (early && (n_max_early nd <=? cnt)) eqn:E.
  { apply andb_true_iff in E as [E1 E2]. specialize (He E1). lia. }
  unfold decrypt_cell. cbn [cl_plain cl_msg decrypt_hops h_keys]. rewrite C.
  cbn [bind catch_crypto set_msg cl_cid cl_msg cl_plain cl_early h_addr]. reflexivity.
Qed.

Lemma relay_forward_drop (nd : node) src cid r k body early rnd ns :
  length (n_prefix nd) = 22%nat -> cid_ok cid ->
  assoc cid (n_relays nd) = Some r -> rr_rdv r = false -> rr_dir r = FORWARD -> h_keys (rr_hop r) = Some k ->
  dec k FORWARD body = None ->
  on_packet nd src (cell_to_bin (n_prefix nd) (mkCell cid body false early)) rnd ns = Ok (nd, []).
Proof.
  intros Hp Hc Ha Hr Hd Hk Hn. rewrite on_packet_cell by assumption. unfold process_cell_c, has.
  cbn [cl_cid]. rewrite Ha. unfold M04_onion.relay_cell. cbn [cl_plain cl_cid cl_early]. rewrite Ha.
  destruct (early && (n_max_early nd <=? rr_early r)); [reflexivity|].
  rewrite Hr, Hd. unfold decrypt_cell. cbn [cl_plain cl_msg decrypt_hops]. rewrite Hk, Hn.
  cbn [bind catch_crypto]. reflexivity.
Qed.

Lemma relay_backward_step (nd : node) src cid cid' pk prv k cnt body early rnd ns :
  length (n_prefix nd) = 22%nat -> cid_ok cid ->
  assoc cid (n_relays nd) = Some (mkRR cid' (mkHop pk prv (Some k)) BACKWARD false cnt) ->
  (early = true -> cnt < n_max_early nd) ->
  on_packet nd src (cell_to_bin (n_prefix nd) (mkCell cid body false early)) rnd ns
  = Ok (set_relays nd (upd cid (mkRR cid' (mkHop pk prv (Some k)) BACKWARD false (cnt + 1)) (n_relays nd)),
        [Send prv (cell_to_bin (n_prefix nd) (mkCell cid' (enc k BACKWARD (ns O) body) false early))]).
Proof.
  intros Hp Hc Ha He. rewrite on_packet_cell by assumption. unfold process_cell_c, has.
  cbn [cl_cid]. rewrite Ha. unfold M04_onion.relay_cell. cbn [cl_plain cl_cid cl_early]. rewrite Ha.
  cbn [rr_early rr_rdv rr_dir rr_hop rr_cid].
  destruct (early && (n_max_early nd <=? cnt)) eqn:E.
  { apply andb_true_iff in E as [E1 E2]. specialize (He E1). lia. }
  unfold encrypt_cell. cbn [cl_plain cl_msg rev app encrypt_hops h_keys].
  cbn [bind catch_crypto set_msg cl_cid cl_msg cl_plain cl_early h_addr]. reflexivity.
Qed.

(* a rendezvous relay: peel the layer of the side the cell came from, add the layer of the other side *)
Lemma rendezvous_step (nd : node) src cid cid' pk nxt k1 cnt r2 k2 body early n rnd ns :
  aead_correct enc dec ->
  length (n_prefix nd) = 22%nat -> cid_ok cid ->
  assoc cid (n_relays nd) = Some (mkRR cid' (mkHop pk nxt (Some k1)) FORWARD true cnt) ->
  assoc cid' (n_relays nd) = Some r2 -> h_keys (rr_hop r2) = Some k2 ->
  (early = true -> cnt < n_max_early nd) ->
  on_packet nd src (cell_to_bin (n_prefix nd) (mkCell cid (enc k1 FORWARD n body) false early)) rnd ns
  = Ok (set_relays nd (upd cid (mkRR cid' (mkHop pk nxt (Some k1)) FORWARD true (cnt + 1)) (n_relays nd)),
        [Send nxt (cell_to_bin (n_prefix nd) (mkCell cid' (enc k2 BACKWARD (ns O) body) false false))]).
Proof.
  intros C Hp Hc Ha Ha2 Hk2 He. rewrite on_packet_cell by assumption. unfold process_cell_c, has.
  cbn [cl_cid]. rewrite Ha. unfold M04_onion.relay_cell. cbn [cl_plain cl_cid cl_early]. rewrite Ha.
  cbn [rr_early rr_rdv rr_dir rr_hop rr_cid].
  destruct (early && (n_max_early nd <=? cnt)) eqn:E.
  { apply andb_true_iff in E as [E1 E2]. specialize (He E1). lia. }
  unfold decrypt_cell. cbn [cl_plain cl_msg decrypt_hops h_keys]. rewrite C.
  cbn [bind catch_crypto set_msg cl_cid cl_msg cl_plain cl_early]. rewrite Ha2.
  unfold encrypt_cell. cbn [cl_plain cl_msg rev app encrypt_hops]. rewrite Hk2.
  cbn [bind catch_crypto set_msg cl_cid cl_msg cl_plain cl_early h_addr]. reflexivity.
Qed.

(* a plaintext-flagged cell is never relayed *)
Lemma relay_plain_refused (nd : node) src cid msg early rnd ns :
  length (n_prefix nd) = 22%nat -> cid_ok cid -> has cid (n_relays nd) = true ->
  on_packet nd src (cell_to_bin (n_prefix nd) (mkCell cid msg true early)) rnd ns = Ok (nd, []).
Proof.
  intros Hp Hc Hh. rewrite on_packet_cell by assumption. unfold process_cell_c. cbn [cl_cid]. rewrite Hh.
  unfold M04_onion.relay_cell. cbn [cl_plain]. reflexivity.
Qed.

End Node.
