(* C09 - association lists with dict semantics, list plumbing. *)
From Coq Require Import ZArith List Bool Lia.
From IPV8V Require Import model.M09_reclaim.
Import ListNotations.
Open Scope Z_scope.

Lemma aget_aset {A} k k' (v : A) l :
  aget k' (aset k v l) = if k' =? k then Some v else aget k' l.
Proof.
  induction l as [|[k0 v0] tl IH]; simpl.
  - destruct (k' =? k) eqn:E; reflexivity.
  - destruct (k =? k0) eqn:E0; simpl.
    + apply Z.eqb_eq in E0; subst k0. destruct (k' =? k); reflexivity.
    + destruct (k' =? k0) eqn:E1.
      * apply Z.eqb_eq in E1; subst k0. destruct (k' =? k) eqn:E2; [|reflexivity].
        apply Z.eqb_eq in E2; subst. rewrite Z.eqb_refl in E0; discriminate.
      * exact IH.
Qed.

Lemma aget_adel {A} k k' (l : list (Z * A)) :
  aget k' (adel k l) = if k' =? k then None else aget k' l.
Proof.
  induction l as [|[k0 v0] tl IH]; simpl.
  - destruct (k' =? k); reflexivity.
  - destruct (k =? k0) eqn:E0; simpl.
    + apply Z.eqb_eq in E0; subst k0. rewrite IH. destruct (k' =? k); reflexivity.
    + destruct (k' =? k0) eqn:E1.
      * apply Z.eqb_eq in E1; subst k0. destruct (k' =? k) eqn:E2; [|reflexivity].
        apply Z.eqb_eq in E2; subst. rewrite Z.eqb_refl in E0; discriminate.
      * exact IH.
Qed.

Lemma ahas_aget {A} k (l : list (Z * A)) : ahas k l = true <-> exists v, aget k l = Some v.
Proof.
  unfold ahas. destruct (aget k l); split; intro H; try reflexivity; try discriminate; eauto.
  destruct H; discriminate.
Qed.

Lemma ahas_false {A} k (l : list (Z * A)) : ahas k l = false <-> aget k l = None.
Proof. unfold ahas. destruct (aget k l); split; intro H; try reflexivity; discriminate. Qed.

Lemma aget_in {A} k (v : A) l : aget k l = Some v -> In (k, v) l.
Proof.
  induction l as [|[k0 v0] tl IH]; simpl; [discriminate|].
  destruct (k =? k0) eqn:E; intro H.
  - apply Z.eqb_eq in E; subst. inversion H; subst. left; reflexivity.
  - right; auto.
Qed.

Lemma in_aget {A} k (v : A) l : In (k, v) l -> exists v', aget k l = Some v'.
Proof.
  induction l as [|[k0 v0] tl IH]; simpl; [tauto|].
  intros [H|H].
  - inversion H; subst. rewrite Z.eqb_refl. eauto.
  - destruct (k =? k0); eauto.
Qed.

Lemma in_remove_nth {A} (x : A) i l : In x (remove_nth i l) -> In x l.
Proof.
  revert i; induction l as [|y tl IH]; intros [|i]; simpl; auto.
  intros [H|H]; [left; exact H | right; eauto].
Qed.

Lemma in_remove_nth_other {A} (x y : A) i l :
  In x l -> nth_error l i = Some y -> x <> y -> In x (remove_nth i l).
Proof.
  revert i; induction l as [|z tl IH]; intros [|i]; simpl; try tauto.
  - intros [H|H] E N; [inversion E; subst; congruence | exact H].
  - intros [H|H] E N; [left; exact H | right; eauto].
Qed.

Lemma nth_error_in' {A} (l : list A) i x : nth_error l i = Some x -> In x l.
Proof. apply nth_error_In. Qed.
