(* pack/unpack round trip for every well-formed format, at any offset, with any surrounding bytes. *)
From Coq Require Import ZArith List Bool Lia ZifyBool Arith.
From IPV8V Require Import lib.PyErr lib.Bytes lib.BE model.M02_wire proofs.P02_prims.
Import ListNotations.
Open Scope Z_scope.

Scheme fmt_mut := Induction for fmt Sort Prop
  with msgfmt_mut := Induction for msgfmt Sort Prop.
Combined Scheme fmt_msg_ind from fmt_mut, msgfmt_mut.

Lemma Ok_inj {A} (a b : A) : Ok a = Ok b -> a = b.
Proof. intros H. injection H. auto. Qed.

Section RT.
Variable key_ok : bytes -> bool.
Notation pack := (pack key_ok).
Notation unpack := (unpack key_ok).
Notation pack_msg := (pack_msg key_ok).
Notation unpack_msg := (unpack_msg key_ok).
Notation val_ok := (val_ok key_ok).
Notation msg_ok := (msg_ok key_ok).

Definition RTf (f : fmt) : Prop :=
  wf_fmt f = true -> forall v bs pre suf,
  val_ok f v = true -> pack f v = Ok bs -> (greedy f = false \/ suf = []) ->
  unpack f (pre ++ bs ++ suf) (length pre) = Ok (v, (length pre + length bs)%nat).

Definition RTm (m : msgfmt) : Prop :=
  wf_msg m = true -> forall vs bs pre suf,
  msg_ok m vs = true -> pack_msg m vs = Ok bs -> (msg_greedy m = false \/ suf = []) ->
  unpack_msg m (pre ++ bs ++ suf) (length pre) = Ok (vs, (length pre + length bs)%nat).

Lemma lw_range lw : lw_ok lw = true -> (0 < lw)%nat.
Proof. unfold lw_ok. intros H. destruct lw as [|[|[|[|[|?]]]]]; simpl in H; try discriminate; lia. Qed.

Lemma rt_struct ps : RTf (FStruct ps).
Proof.
  intros Hwf v bs pre suf Hok Hp _. cbn [wf_fmt] in Hwf. apply andb_true_iff in Hwf as [Hne Hps].
  cbn [M02_wire.unpack].
  assert (Hgen : forall vs, struct_enc ps vs = Ok bs ->
     take (struct_size ps) (length pre) (pre ++ bs ++ suf) = Ok bs /\ struct_dec ps bs = vs /\ length bs = struct_size ps).
  { intros vs E. destruct (struct_roundtrip ps vs bs Hps E) as [L D]. split; [|split; assumption].
    apply take_here. exact L. }
  destruct ps as [|p [|p2 ps]]; [discriminate Hne| |].
  - (* single primitive *)
    cbn [M02_wire.pack] in Hp.
    assert (E : struct_enc [p] [v] = Ok bs).
    { cbn [struct_enc]. rewrite Hp. cbn [bind]. rewrite app_nil_r. reflexivity. }
    destruct (Hgen [v] E) as (T & D & L). rewrite T. cbn [bind]. rewrite D, L. reflexivity.
  - cbn [M02_wire.pack] in Hp. destruct v; try discriminate Hp.
    destruct (Hgen l Hp) as (T & D & L). rewrite T. cbn [bind]. rewrite D, L.
    pose proof (struct_enc_length _ _ _ Hp) as Hlen.
    destruct l as [|v1 [|v2 l]]; try discriminate Hlen. reflexivity.
Qed.

Lemma be_decode_single z : be_decode [z] = z.
Proof. unfold be_decode. simpl. lia. Qed.

Lemma rt_bits : RTf FBits.
Proof.
  intros _ v bs pre suf Hok Hp _. cbn [M02_wire.val_ok] in Hok. destruct v; try discriminate Hok.
  apply andb_true_iff in Hok as [Hl Hb]. apply Nat.eqb_eq in Hl.
  cbn [M02_wire.pack] in Hp. rewrite Hl in Hp. cbn [Nat.eqb] in Hp.
  destruct (bits_enc l 128) as [z|] eqn:E; cbn [bind] in Hp; [|discriminate]. apply Ok_inj in Hp; subst bs.
  destruct (bits_roundtrip l z Hl Hb E) as [Hz Hm].
  cbn [M02_wire.unpack]. rewrite (take_here 1 pre [z] suf eq_refl). cbn [bind].
  rewrite be_decode_single. rewrite Hm. reflexivity.
Qed.

Lemma rt_raw : RTf FRaw.
Proof.
  intros _ v bs pre suf Hok Hp Hg. destruct Hg as [Hg|Hg]; [discriminate Hg|]. subst suf.
  cbn [M02_wire.pack] in Hp. destruct v; try discriminate Hp. destruct (bytes_okb b); [|discriminate].
  apply Ok_inj in Hp; subst bs. cbn [M02_wire.unpack]. rewrite app_nil_r. rewrite skipn_app_exact.
  rewrite app_length. reflexivity.
Qed.

Lemma varlen_rt lw base b bs pre suf :
  lw_ok lw = true -> (0 < base)%nat -> (length b mod base = 0)%nat ->
  varlen_pack lw base b = Ok bs ->
  varlen_unpack lw base (pre ++ bs ++ suf) (length pre) = Ok (b, (length pre + length bs)%nat).
Proof.
  intros Hlw Hbase Hmod Hp. unfold varlen_pack in Hp.
  destruct (base =? 0)%nat eqn:Eb; [apply Nat.eqb_eq in Eb; lia|].
  destruct (in_range 0 (256 ^ Z.of_nat lw) (Z.of_nat (length b / base)) && bytes_okb b) eqn:Er; [|discriminate].
  apply Ok_inj in Hp; subst bs. apply andb_true_iff in Er as [Er _]. unfold in_range in Er.
  unfold varlen_unpack. rewrite <- app_assoc.
  rewrite (take_here lw pre _ (b ++ suf) (be_encode_length lw _)). cbn [bind].
  rewrite be_decode_encode by lia. rewrite Nat2Z.id.
  assert (Hlen : (length b / base * base = length b)%nat).
  { pose proof (Nat.div_mod (length b) base ltac:(lia)). lia. }
  rewrite Hlen. rewrite !app_length, be_encode_length.
  destruct (length pre + lw + length b <=? length pre + (lw + (length b + length suf)))%nat eqn:E.
  2:{ apply Nat.leb_gt in E. lia. }
  replace (pre ++ be_encode lw (Z.of_nat (length b / base)) ++ b ++ suf)
    with ((pre ++ be_encode lw (Z.of_nat (length b / base))) ++ b ++ suf) by (rewrite <- app_assoc; reflexivity).
  rewrite skipn_len_app by (rewrite app_length, be_encode_length; reflexivity).
  rewrite firstn_app_exact. f_equal. f_equal. lia.
Qed.

Lemma rt_varlen lw base utf8 : RTf (FVarLen lw base utf8).
Proof.
  intros Hwf v bs pre suf Hok Hp _. cbn [wf_fmt] in Hwf. apply andb_true_iff in Hwf as [Hlw Hbase].
  apply Nat.ltb_lt in Hbase.
  cbn [M02_wire.val_ok] in Hok. cbn [M02_wire.pack] in Hp. cbn [M02_wire.unpack].
  destruct v; try discriminate Hok; destruct utf8; try discriminate Hok.
  - repeat (apply andb_true_iff in Hok as [Hok ?]).
    rewrite (varlen_rt lw base b bs pre suf Hlw Hbase) by (try assumption; apply Nat.eqb_eq; assumption).
    reflexivity.
  - apply andb_true_iff in Hok as [Hok Hu]. repeat (apply andb_true_iff in Hok as [Hok ?]).
    rewrite Hu in Hp.
    rewrite (varlen_rt lw base b bs pre suf Hlw Hbase) by (try assumption; apply Nat.eqb_eq; assumption).
    cbn [bind]. rewrite Hu. reflexivity.
Qed.

Lemma be_decode_encode2 port : in_range 0 65536 port = true -> be_decode (be_encode 2 port) = port.
Proof. intros H. unfold in_range in H. apply be_decode_encode. change (256 ^ Z.of_nat 2) with 65536. lia. Qed.

Lemma rt_ipv4 : RTf FIPv4.
Proof.
  intros _ v bs pre suf Hok Hp _. cbn [M02_wire.val_ok] in Hok.
  destruct v as [| | | | |a| | | |]; try discriminate Hok. destruct a as [ip port| |]; try discriminate Hok.
  cbn [M02_wire.pack] in Hp. cbn [addr_ok] in Hok. rewrite Hok in Hp. apply Ok_inj in Hp; subst bs.
  apply andb_true_iff in Hok as [Hok Hport]. apply andb_true_iff in Hok as [Hl _]. apply Nat.eqb_eq in Hl.
  cbn [M02_wire.unpack].
  rewrite (take_here 6 pre (ip ++ be_encode 2 port) suf) by (rewrite app_length, be_encode_length; lia).
  cbn [bind]. rewrite firstn_len_app by (symmetry; exact Hl). rewrite skipn_len_app by (symmetry; exact Hl).
  rewrite be_decode_encode2 by exact Hport. rewrite app_length, be_encode_length. do 3 f_equal. lia.
Qed.

Lemma addr_rt ip_only a bs pre suf :
  addr_ok ip_only a = true -> addr_pack ip_only a = Ok bs ->
  addr_unpack ip_only (pre ++ bs ++ suf) (length pre) = Ok (a, (length pre + length bs)%nat).
Proof.
  intros Hok Hp. destruct a as [ip port|ip port|host port]; cbn [addr_ok] in Hok; cbn [addr_pack] in Hp.
  - rewrite Hok in Hp. apply Ok_inj in Hp; subst bs.
    apply andb_true_iff in Hok as [Hok Hport]. apply andb_true_iff in Hok as [Hl _]. apply Nat.eqb_eq in Hl.
    unfold addr_unpack.
    change (pre ++ (1 :: ip ++ be_encode 2 port) ++ suf) with (pre ++ [1] ++ (ip ++ be_encode 2 port) ++ suf).
    rewrite (take_here 1 pre [1] _ eq_refl). cbn [bind]. rewrite be_decode_single. cbn [Z.eqb Pos.eqb].
    rewrite (take_at 6 1 pre [1] (ip ++ be_encode 2 port) suf eq_refl) by (rewrite app_length, be_encode_length; lia).
    cbn [bind]. rewrite firstn_len_app by (symmetry; exact Hl). rewrite skipn_len_app by (symmetry; exact Hl).
    rewrite be_decode_encode2 by exact Hport. cbn [length]. rewrite app_length, be_encode_length. do 2 f_equal. lia.
  - rewrite Hok in Hp. apply Ok_inj in Hp; subst bs.
    apply andb_true_iff in Hok as [Hok Hport]. apply andb_true_iff in Hok as [Hl _]. apply Nat.eqb_eq in Hl.
    unfold addr_unpack.
    change (pre ++ (3 :: ip ++ be_encode 2 port) ++ suf) with (pre ++ [3] ++ (ip ++ be_encode 2 port) ++ suf).
    rewrite (take_here 1 pre [3] _ eq_refl). cbn [bind]. rewrite be_decode_single. cbn [Z.eqb Pos.eqb].
    rewrite (take_at 18 1 pre [3] (ip ++ be_encode 2 port) suf eq_refl) by (rewrite app_length, be_encode_length; lia).
    cbn [bind]. rewrite firstn_len_app by (symmetry; exact Hl). rewrite skipn_len_app by (symmetry; exact Hl).
    rewrite be_decode_encode2 by exact Hport. cbn [length]. rewrite app_length, be_encode_length. do 2 f_equal. lia.
  - destruct ip_only; [discriminate Hok|]. cbn [negb andb] in Hok. rewrite Hok in Hp. apply Ok_inj in Hp; subst bs.
    apply andb_true_iff in Hok as [Hok Hport]. apply andb_true_iff in Hok as [Hok Hu].
    apply andb_true_iff in Hok as [Hlen _].
    unfold addr_unpack.
    set (L := be_encode 2 (Z.of_nat (length host))).
    change (pre ++ (2 :: L ++ host ++ be_encode 2 port) ++ suf)
      with (pre ++ [2] ++ (L ++ host ++ be_encode 2 port) ++ suf).
    rewrite (take_here 1 pre [2] _ eq_refl). cbn [bind]. rewrite be_decode_single. cbn [Z.eqb Pos.eqb negb andb].
    assert (HL : length L = 2%nat) by apply be_encode_length.
    assert (HdL : Z.to_nat (be_decode L) = length host).
    { unfold L. rewrite be_decode_encode by (change (256 ^ Z.of_nat 2) with 65536; lia). apply Nat2Z.id. }
    replace (pre ++ [2] ++ (L ++ host ++ be_encode 2 port) ++ suf)
      with (pre ++ [2] ++ L ++ (host ++ be_encode 2 port ++ suf)) by (rewrite <- !app_assoc; reflexivity).
    rewrite (take_at 2 1 pre [2] L _ eq_refl HL). cbn [bind]. rewrite !HdL.
    replace (pre ++ [2] ++ L ++ host ++ be_encode 2 port ++ suf)
      with ((pre ++ [2] ++ L) ++ host ++ be_encode 2 port ++ suf) by (rewrite <- !app_assoc; reflexivity).
    replace (length pre + 3)%nat with (length (pre ++ [2] ++ L)) by (rewrite !app_length, HL; simpl; lia).
    rewrite skipn_app_exact. rewrite firstn_app_exact. rewrite Hu. cbn [negb].
    replace (length (pre ++ [2%Z] ++ L) + length host)%nat with (length ((pre ++ [2] ++ L) ++ host))
      by (rewrite app_length; reflexivity).
    replace ((pre ++ [2] ++ L) ++ host ++ be_encode 2 port ++ suf)
      with (((pre ++ [2] ++ L) ++ host) ++ be_encode 2 port ++ suf) by (rewrite <- !app_assoc; reflexivity).
    rewrite (take_here 2 _ (be_encode 2 port) suf (be_encode_length 2 port)). cbn [bind].
    rewrite be_decode_encode2 by exact Hport. do 2 f_equal.
    cbn [length]. rewrite !app_length, HL, be_encode_length. simpl. lia.
Qed.

Lemma rt_addr ip_only : RTf (FAddr ip_only).
Proof.
  intros _ v bs pre suf Hok Hp _. cbn [M02_wire.val_ok] in Hok. destruct v; try discriminate Hok.
  cbn [M02_wire.pack] in Hp. cbn [M02_wire.unpack]. rewrite (addr_rt ip_only a bs pre suf Hok Hp). reflexivity.
Qed.

(* a list of VInt values and its integers *)
Fixpoint ints_of (vs : list val) : option (list Z) :=
  match vs with
  | [] => Some []
  | VInt z :: tl => match ints_of tl with Some zs => Some (z :: zs) | None => None end
  | _ => None
  end.

Lemma val_eqb_vint_list a : forall b, (forall x, In x a -> exists z, x = VInt z) ->
  val_eqb (VList a) (VList b) = true -> a = b.
Proof.
  induction a as [|x a IH]; intros [|y b] Hin H; cbn in H; try discriminate; [reflexivity|].
  apply andb_true_iff in H as [H1 H2].
  destruct (Hin x (or_introl eq_refl)) as [z ->]. destruct y; try discriminate H1.
  cbn in H1. apply Z.eqb_eq in H1. subst. f_equal. apply IH.
  - intros x' Hx'. apply Hin. right. exact Hx'.
  - cbn. exact H2.
Qed.

Lemma flags_or_ints vs z : flags_or vs = Ok z -> forall x, In x vs -> exists y, x = VInt y.
Proof.
  revert z; induction vs as [|v vs IH]; intros z H x Hin; [destruct Hin|].
  cbn [flags_or] in H. destruct v; try discriminate H. destruct (z0 <? 0); [discriminate|].
  destruct (flags_or vs) eqn:E; cbn [bind] in H; [|discriminate].
  destruct Hin as [<-|Hin]; [eauto|]. eapply IH; eauto.
Qed.

Lemma rt_flags w : RTf (FFlags w).
Proof.
  intros Hwf v bs pre suf Hok Hp _. cbn [M02_wire.val_ok] in Hok. destruct v; try discriminate Hok.
  cbn [M02_wire.pack] in Hp. destruct (flags_or l) as [z|] eqn:E; cbn [bind] in Hp; [|discriminate].
  destruct (in_range 0 (256 ^ Z.of_nat w) z) eqn:Er; [|discriminate]. apply Ok_inj in Hp; subst bs.
  apply val_eqb_vint_list in Hok; [|eapply flags_or_ints; exact E].
  cbn [M02_wire.unpack]. rewrite (take_here w pre _ suf (be_encode_length w z)). cbn [bind].
  unfold in_range in Er. rewrite be_decode_encode by lia. rewrite <- Hok. rewrite be_encode_length. reflexivity.
Qed.

Lemma forallb_prim_concat e vs : forall body, concat_res (map (aenc e) vs) = Ok body -> True.
Proof. trivial. Qed.

Lemma rt_array e lw : RTf (FArray e lw).
Proof.
  intros Hwf v bs pre suf Hok Hp _. cbn [wf_fmt] in Hwf. apply andb_true_iff in Hwf as [Hlw He].
  cbn [M02_wire.val_ok] in Hok. destruct v; try discriminate Hok. apply andb_true_iff in Hok as [Hn _].
  cbn [M02_wire.pack] in Hp. destruct (in_range 0 (256 ^ Z.of_nat lw) (Z.of_nat (length l))) eqn:Er; [|discriminate].
  destruct (concat_res (map (aenc e) l)) as [body|] eqn:Eb; cbn [bind] in Hp; [|discriminate].
  apply Ok_inj in Hp; subst bs.
  destruct (array_roundtrip e He l body Eb) as [Lb Db].
  cbn [M02_wire.unpack]. rewrite <- app_assoc.
  rewrite (take_here lw pre _ (body ++ suf) (le_encode_length lw _)). cbn [bind].
  unfold in_range in Er. rewrite le_roundtrip by lia. cbv zeta. rewrite Nat2Z.id.
  rewrite !app_length, le_encode_length.
  destruct (length pre + lw + length l * psize e <=? length pre + (lw + (length body + length suf)))%nat eqn:E.
  2:{ apply Nat.leb_gt in E. lia. }
  replace (pre ++ le_encode lw (Z.of_nat (length l)) ++ body ++ suf)
    with ((pre ++ le_encode lw (Z.of_nat (length l))) ++ body ++ suf) by (rewrite <- app_assoc; reflexivity).
  rewrite skipn_len_app by (rewrite app_length, le_encode_length; reflexivity).
  rewrite <- Lb. rewrite firstn_app_exact. rewrite Db. do 2 f_equal. lia.
Qed.

Lemma rt_node : RTf FNode.
Proof.
  intros _ v bs pre suf Hok Hp _. cbn [M02_wire.val_ok] in Hok. destruct v; try discriminate Hok.
  apply andb_true_iff in Hok as [Hok Hlen]. apply andb_true_iff in Hok as [Hok Hkb].
  apply andb_true_iff in Hok as [Ha Hk].
  cbn [M02_wire.pack] in Hp. destruct (addr_pack true a) as [x|] eqn:Ex; cbn [bind] in Hp; [|discriminate].
  rewrite Hk in Hp. destruct (varlen_pack 2 1 key) as [y|] eqn:Ey; cbn [bind] in Hp; [|discriminate].
  apply Ok_inj in Hp; subst bs. cbn [M02_wire.unpack]. rewrite <- app_assoc.
  rewrite (addr_rt true a x pre (y ++ suf) Ha Ex). cbn [bind].
  replace (pre ++ x ++ y ++ suf) with ((pre ++ x) ++ y ++ suf) by (rewrite <- app_assoc; reflexivity).
  replace (length pre + length x)%nat with (length (pre ++ x)) by (rewrite app_length; reflexivity).
  rewrite (varlen_rt 2 1 key y (pre ++ x) suf eq_refl ltac:(lia) (Nat.mod_1_r _) Ey). cbn [bind].
  rewrite Hk. rewrite !app_length. do 2 f_equal. lia.
Qed.

Lemma rt_list_body f (IH : RTf f) : wf_fmt f = true -> greedy f = false ->
  forall vs body pre suf,
  forallb (val_ok f) vs = true -> concat_res (map (pack f) vs) = Ok body ->
  unpack_n (unpack f) (length vs) (pre ++ body ++ suf) (length pre) = Ok (vs, (length pre + length body)%nat).
Proof.
  intros Hwf Hg. induction vs as [|v vs IHvs]; intros body pre suf Hok Hb; cbn [map concat_res] in Hb.
  - inversion Hb; subst. cbn [unpack_n length]. rewrite Nat.add_0_r. reflexivity.
  - cbn [forallb] in Hok. apply andb_true_iff in Hok as [Hv Hvs].
    destruct (pack f v) as [a|] eqn:Ea; cbn [bind] in Hb; [|discriminate].
    destruct (concat_res (map (pack f) vs)) as [b|] eqn:Eb; cbn [bind] in Hb; [|discriminate].
    inversion Hb; subst. cbn [length unpack_n]. rewrite <- app_assoc.
    rewrite (IH Hwf v a pre (b ++ suf) Hv Ea (or_introl Hg)). cbn [bind].
    replace (pre ++ a ++ b ++ suf) with ((pre ++ a) ++ b ++ suf) by (rewrite <- app_assoc; reflexivity).
    replace (length pre + length a)%nat with (length (pre ++ a)) by (rewrite app_length; reflexivity).
    rewrite (IHvs b (pre ++ a) suf Hvs eq_refl). cbn [bind]. rewrite !app_length. do 2 f_equal. lia.
Qed.

Lemma rt_listof lw f : RTf f -> RTf (FListOf lw f).
Proof.
  intros IH Hwf v bs pre suf Hok Hp _. cbn [wf_fmt] in Hwf.
  apply andb_true_iff in Hwf as [Hwf Hng]. apply andb_true_iff in Hwf as [Hlw Hwff].
  assert (Hg : greedy f = false) by (destruct f; try reflexivity; discriminate Hng).
  cbn [M02_wire.val_ok] in Hok. destruct v; try discriminate Hok. apply andb_true_iff in Hok as [Hn Hvs].
  cbn [M02_wire.pack] in Hp. destruct (in_range 0 (256 ^ Z.of_nat lw) (Z.of_nat (length l))) eqn:Er; [|discriminate].
  destruct (concat_res (map (pack f) l)) as [body|] eqn:Eb; cbn [bind] in Hp; [|discriminate]. apply Ok_inj in Hp; subst bs.
  cbn [M02_wire.unpack]. rewrite <- app_assoc.
  rewrite (take_here lw pre _ (body ++ suf) (be_encode_length lw _)). cbn [bind].
  unfold in_range in Er. rewrite be_decode_encode by lia. rewrite Nat2Z.id.
  replace (pre ++ be_encode lw (Z.of_nat (length l)) ++ body ++ suf)
    with ((pre ++ be_encode lw (Z.of_nat (length l))) ++ body ++ suf) by (rewrite <- app_assoc; reflexivity).
  replace (length pre + lw)%nat with (length (pre ++ be_encode lw (Z.of_nat (length l))))
    by (rewrite app_length, be_encode_length; reflexivity).
  rewrite (rt_list_body f IH Hwff Hg l body _ suf Hvs Eb). cbn [bind].
  rewrite !app_length, be_encode_length. do 2 f_equal. lia.
Qed.

Lemma val_ok_nested m v :
  val_ok (FNested m) v =
  match v with
  | VMsg vs => msg_ok m vs && match pack_msg m vs with Ok b => Z.of_nat (length b) <? 65536 | _ => false end
  | _ => false
  end.
Proof. reflexivity. Qed.

Lemma pack_nested m v :
  pack (FNested m) v =
  match v with
  | VMsg vs => do body <- pack_msg m vs;
               if Z.of_nat (length body) <? 65536
               then Ok (be_encode 2 (Z.of_nat (length body)) ++ body) else Raise StructError
  | _ => Raise TypeError
  end.
Proof. reflexivity. Qed.

Lemma unpack_nested m data off :
  unpack (FNested m) data off =
  (do l <- take 2 off data;
   let size := Z.to_nat (be_decode l) in
   if (off + 2 + size <=? length data)%nat then
     do (vs, _) <- unpack_msg m (firstn size (skipn (off + 2) data)) 0;
     Ok (VMsg vs, (off + 2 + size)%nat)
   else Raise PackError).
Proof. reflexivity. Qed.

Lemma rt_nested m : RTm m -> RTf (FNested m).
Proof.
  intros IH Hwf v bs pre suf Hok Hp _. cbn [wf_fmt] in Hwf.
  rewrite val_ok_nested in Hok. destruct v; try discriminate Hok. apply andb_true_iff in Hok as [Hvs Hlen].
  rewrite pack_nested in Hp. destruct (pack_msg m l) as [body|] eqn:Eb; cbn [bind] in Hp; [|discriminate].
  rewrite Hlen in Hp. apply Ok_inj in Hp; subst bs.
  rewrite unpack_nested. rewrite <- app_assoc.
  rewrite (take_here 2 pre _ (body ++ suf) (be_encode_length 2 _)). cbn [bind].
  rewrite be_decode_encode by (change (256 ^ Z.of_nat 2) with 65536; lia). cbv zeta. rewrite Nat2Z.id.
  rewrite !app_length, be_encode_length.
  destruct (length pre + 2 + length body <=? length pre + (2 + (length body + length suf)))%nat eqn:E.
  2:{ apply Nat.leb_gt in E. lia. }
  replace (pre ++ be_encode 2 (Z.of_nat (length body)) ++ body ++ suf)
    with ((pre ++ be_encode 2 (Z.of_nat (length body))) ++ body ++ suf) by (rewrite <- app_assoc; reflexivity).
  rewrite skipn_len_app by (rewrite app_length, be_encode_length; reflexivity).
  rewrite firstn_app_exact.
  pose proof (IH Hwf l body [] [] Hvs Eb (or_intror eq_refl)) as H. cbn [app length] in H.
  rewrite app_nil_r in H. rewrite H. cbn [bind]. do 2 f_equal. lia.
Qed.

Lemma rt_mnil : RTm MNil.
Proof.
  intros _ vs bs pre suf Hok Hp _. destruct vs; [|discriminate Hok]. cbn in Hp. apply Ok_inj in Hp; subst bs.
  cbn [M02_wire.unpack_msg length]. rewrite Nat.add_0_r. reflexivity.
Qed.

Lemma msg_ok_cons f m v vs : msg_ok (MCons f m) (v :: vs) = val_ok f v && msg_ok m vs.
Proof. reflexivity. Qed.
Lemma pack_msg_cons f m v vs :
  pack_msg (MCons f m) (v :: vs) = (do a <- pack f v; do b <- pack_msg m vs; Ok (a ++ b)).
Proof. reflexivity. Qed.
Lemma unpack_msg_cons f m data off :
  unpack_msg (MCons f m) data off =
  (do (v, o1) <- unpack f data off; do (vs, o2) <- unpack_msg m data o1; Ok (v :: vs, o2)).
Proof. reflexivity. Qed.

Lemma rt_mcons f m : RTf f -> RTm m -> RTm (MCons f m).
Proof.
  intros IHf IHm Hwf vs bs pre suf Hok Hp Hg.
  destruct vs as [|v vs]; [discriminate Hok|]. rewrite msg_ok_cons in Hok. apply andb_true_iff in Hok as [Hv Hvs].
  rewrite pack_msg_cons in Hp. destruct (pack f v) as [a|] eqn:Ea; cbn [bind] in Hp; [|discriminate].
  destruct (pack_msg m vs) as [b|] eqn:Eb; cbn [bind] in Hp; [|discriminate]. apply Ok_inj in Hp; subst bs.
  rewrite unpack_msg_cons. rewrite <- app_assoc.
  assert (Hwf' : wf_fmt f = true /\ wf_msg m = true /\ (m = MNil \/ greedy f = false)).
  { cbn [wf_msg] in Hwf. destruct m as [|f2 m2].
    - split; [exact Hwf|]. split; [reflexivity|left; reflexivity].
    - apply andb_true_iff in Hwf as [Hwf Hm]. apply andb_true_iff in Hwf as [Hf Hng].
      split; [exact Hf|]. split; [exact Hm|]. right. destruct f; try reflexivity; discriminate Hng. }
  destruct Hwf' as (Hf & Hm & Hlast).
  assert (Hgf : greedy f = false \/ b ++ suf = []).
  { destruct Hlast as [->|Hgf]; [|left; exact Hgf].
    destruct vs; [|discriminate Hvs]. cbn in Eb. inversion Eb; subst. cbn [app].
    cbn [msg_greedy] in Hg. destruct Hg as [Hg|Hg]; [left; exact Hg|right; exact Hg]. }
  rewrite (IHf Hf v a pre (b ++ suf) Hv Ea Hgf). cbn [bind].
  replace (pre ++ a ++ b ++ suf) with ((pre ++ a) ++ b ++ suf) by (rewrite <- app_assoc; reflexivity).
  replace (length pre + length a)%nat with (length (pre ++ a)) by (rewrite app_length; reflexivity).
  assert (Hgm : msg_greedy m = false \/ suf = []).
  { destruct Hg as [Hg|Hg]; [|right; exact Hg]. left. cbn [msg_greedy] in Hg.
    destruct m; [reflexivity|exact Hg]. }
  rewrite (IHm Hm vs b (pre ++ a) suf Hvs Eb Hgm). cbn [bind]. rewrite !app_length. do 2 f_equal. lia.
Qed.

Lemma roundtrip_all : (forall f, RTf f) /\ (forall m, RTm m).
Proof.
  apply fmt_msg_ind.
  - exact rt_struct.
  - exact rt_bits.
  - exact rt_raw.
  - exact rt_varlen.
  - exact rt_ipv4.
  - exact rt_addr.
  - exact rt_flags.
  - exact rt_array.
  - exact rt_node.
  - exact rt_listof.
  - exact rt_nested.
  - exact rt_mnil.
  - intros f Hf m Hm. exact (rt_mcons f m Hf Hm).
Qed.

Lemma pack_unpack_fmt_l f v bs pre suf :
  wf_fmt f = true -> val_ok f v = true -> pack f v = Ok bs -> (greedy f = false \/ suf = []) ->
  unpack f (pre ++ bs ++ suf) (length pre) = Ok (v, (length pre + length bs)%nat).
Proof. intros Hwf. apply (proj1 roundtrip_all f Hwf). Qed.

Lemma msg_roundtrip_l m vs bs pre suf :
  wf_msg m = true -> msg_ok m vs = true -> pack_msg m vs = Ok bs -> (msg_greedy m = false \/ suf = []) ->
  unpack_msg m (pre ++ bs ++ suf) (length pre) = Ok (vs, (length pre + length bs)%nat).
Proof. intros Hwf. apply (proj2 roundtrip_all m Hwf). Qed.

End RT.
