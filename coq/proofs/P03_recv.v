From Coq Require Import ZArith List Bool Lia ZifyBool Arith.
From IPV8V Require Import lib.PyErr lib.Bytes lib.BE model.M03_recv.
Import ListNotations.
Open Scope Z_scope.

Lemma idx_in_range (d : bytes) k : 0 <= k < blen d -> exists b, idx d k = Ok b /\ In b d.
Proof.
  intros H. unfold idx. replace (k <? 0) with false by lia.
  replace ((k <? 0) || (blen d <=? k)) with false by lia.
  destruct (nth_error d (Z.to_nat k)) as [b|] eqn:E.
  - exists b. split; [reflexivity|]. eapply nth_error_In; exact E.
  - apply nth_error_None in E. unfold blen in H. lia.
Qed.

Lemma bytes_ok_in d b : bytes_ok d -> In b d -> 0 <= b < 256.
Proof. unfold bytes_ok. rewrite Forall_forall. auto. Qed.

Lemma unpack_u_ok w d off : 0 <= off -> off + Z.of_nat w <= blen d -> exists v, unpack_u w d off = Ok v.
Proof.
  intros H1 H2. unfold unpack_u. replace ((off <? 0) || (blen d <? off + Z.of_nat w)) with false by lia. eauto.
Qed.

Section P.
Variable handler : nat -> Z -> bytes -> res unit.
Variable incoming : Z -> bool -> bytes -> option bytes.
Variable relay_crypto : Z -> bytes -> option bytes.
Hypothesis incoming_bytes : forall cid p m m', incoming cid p m = Some m' -> bytes_ok m'.

Notation community_on_packet := (community_on_packet handler).
Notation process_cell := (process_cell handler incoming relay_crypto).
Notation crypto_on_packet := (crypto_on_packet handler incoming relay_crypto).
Notation on_packet := (on_packet handler incoming relay_crypto).
Notation deliver_later := (deliver_later handler incoming relay_crypto).
Notation deliver_all := (deliver_all handler incoming relay_crypto).
Notation notify := (notify handler incoming relay_crypto).

(* every Entered event of overlay c carries a datagram with c's prefix, at least 23 bytes, and the
   message id is the 23rd byte *)
Definition entered_ok (i : nat) (c : community) (e : ev) : Prop :=
  match e with
  | Entered j mid d => j = i /\ slice d None (Some 22) = c_prefix c /\ 23 <= blen d /\ idx d 22 = Ok mid
                       /\ existsb (Z.eqb mid) (c_ids c) = true
  | _ => True
  end.

Lemma community_total i c data :
  bytes_ok data ->
  exists evs, community_on_packet i c data = Ok evs /\ Forall (entered_ok i c) evs
              /\ (evs <> [] -> slice data None (Some 22) = c_prefix c /\ 23 <= blen data).
Proof.
  intros Hd. unfold M03_recv.community_on_packet.
  destruct (bytes_eqb (c_prefix c) (slice data None (Some 22))) eqn:Ep; cbn [negb orb].
  2:{ exists []. split; [reflexivity|split; [constructor|intros Hne; congruence]]. }
  destruct (blen data <? 23) eqn:El.
  { exists []. split; [reflexivity|split; [constructor|intros Hne; congruence]]. }
  apply bytes_eqb_eq in Ep.
  destruct (idx_in_range data 22 ltac:(lia)) as (mid & Hm & Hin). rewrite Hm. cbn [bind].
  pose proof (bytes_ok_in data mid Hd Hin) as Hr.
  replace ((mid <? 0) || (255 <? mid)) with false by lia.
  destruct (existsb (Z.eqb mid) (c_ids c)) eqn:Eh.
  - destruct (handler i mid data) as [[]|e]; cbn [try_catch bind].
    + exists [Entered i mid data]. split; [reflexivity|]. split.
      * constructor; [|constructor]. cbn. split; [reflexivity|]. split; [symmetry; exact Ep|]. split; [lia|]. split; [exact Hm|exact Eh].
      * intros _. split; [symmetry; exact Ep|lia].
    + exists [Entered i mid data]. split; [reflexivity|]. split.
      * constructor; [|constructor]. cbn. split; [reflexivity|]. split; [symmetry; exact Ep|]. split; [lia|]. split; [exact Hm|exact Eh].
      * intros _. split; [symmetry; exact Ep|lia].
  - exists []. split; [reflexivity|split; [constructor|intros Hne; congruence]].
Qed.

Definition relays_paired (relays : list (Z * relay)) : Prop :=
  forall cid r, assoc cid relays = Some r -> r_rendezvous r = true -> assoc (r_next r) relays <> None.

Lemma to_bin_ok prefix cid p e m :
  bytes_ok prefix -> bytes_ok m -> bytes_ok (to_bin prefix cid p e m).
Proof.
  intros Hp Hm. unfold to_bin.
  apply Forall_app; split; [exact Hp|].
  apply Forall_app; split; [constructor; [lia|constructor]|].
  apply Forall_app; split; [apply be_encode_bytes_ok|].
  apply Forall_app; split; [constructor; [destruct p; lia|constructor]|].
  apply Forall_app; split; [constructor; [destruct e; lia|constructor]|exact Hm].
Qed.

Lemma process_cell_total i c attached max_early relays data :
  bytes_ok data -> bytes_ok (c_prefix c) -> relays_paired relays ->
  exists evs, process_cell i c attached max_early relays data = Ok evs /\ Forall (entered_ok i c) evs.
Proof.
  intros Hd Hp Hpair. unfold M03_recv.process_cell.
  destruct (blen data <? 29) eqn:El; [exists []; split; [reflexivity|constructor]|].
  destruct (unpack_u_ok 4 data 23 ltac:(lia) ltac:(simpl; lia)) as [cid ->].
  destruct (unpack_u_ok 1 data 27 ltac:(lia) ltac:(simpl; lia)) as [pt ->].
  destruct (unpack_u_ok 1 data 28 ltac:(lia) ltac:(simpl; lia)) as [re ->]. cbn [bind].
  destruct (assoc cid relays) as [nxt|] eqn:Er.
  - unfold relay_cell. destruct (negb (pt =? 0)); [exists []; split; [reflexivity|constructor]|].
    rewrite Er. destruct (negb (re =? 0) && (max_early <=? r_early_count nxt));
      [exists []; split; [reflexivity|constructor]|].
    destruct (r_rendezvous nxt) eqn:Erv.
    + destruct (assoc (r_next nxt) relays) eqn:E2; [|exfalso; eapply Hpair; eauto]. cbn [bind].
      destruct (relay_crypto cid _); eexists; split; try reflexivity; repeat constructor.
    + cbn [bind]. destruct (relay_crypto cid _); eexists; split; try reflexivity; repeat constructor.
  - destruct (incoming cid (negb (pt =? 0)) (slice data (Some 29) None)) as [m|] eqn:Ei;
      [|exists []; split; [reflexivity|constructor]].
    destruct (length m =? 0)%nat eqn:Em; [exists []; split; [reflexivity|constructor]|].
    apply Nat.eqb_neq in Em.
    destruct (idx_in_range m 0 ltac:(unfold blen; lia)) as (m0 & Hm0 & _). rewrite Hm0. cbn [bind].
    destruct ((negb (negb (re =? 0)) && (m0 =? 4)) || (max_early <=? 0)); [exists []; split; [reflexivity|constructor]|].
    destruct (negb (pt =? 0) && negb ((m0 =? 2) || (m0 =? 3))); [exists []; split; [reflexivity|constructor]|].
    destruct (negb attached); [exists []; split; [reflexivity|constructor]|].
    destruct (community_total i c (to_bin (c_prefix c) cid (negb (pt =? 0)) (negb (re =? 0)) m)) as (evs & H1 & H2 & _).
    { apply to_bin_ok; [exact Hp|]. eapply incoming_bytes; exact Ei. }
    exists evs. split; assumption.
Qed.

Lemma crypto_total i c attached max_early relays data :
  bytes_ok data -> bytes_ok (c_prefix c) -> relays_paired relays ->
  exists evs, crypto_on_packet i c attached max_early relays data = Ok evs /\ Forall (entered_ok i c) evs.
Proof.
  intros Hd Hp Hpair. unfold M03_recv.crypto_on_packet.
  assert (Hc : exists evs, (if attached then community_on_packet i c data else Ok []) = Ok evs
                           /\ Forall (entered_ok i c) evs).
  { destruct attached; [|exists []; split; [reflexivity|constructor]].
    destruct (community_total i c data Hd) as (evs & H1 & H2 & _). exists evs; split; assumption. }
  destruct (starts_with (c_prefix c) data && (22 <? blen data)) eqn:E; [|exact Hc].
  apply andb_true_iff in E as [_ El].
  destruct (idx_in_range data 22 ltac:(lia)) as (b & Hb & _). rewrite Hb. cbn [bind].
  destruct (b =? 0); [|exact Hc]. apply process_cell_total; assumption.
Qed.

Definition listener_comm (l : listener) : community :=
  match l with LComm c => c | LCrypto c _ _ _ => c end.

Definition listener_wf (l : listener) : Prop :=
  bytes_ok (c_prefix (listener_comm l)) /\
  match l with LCrypto _ _ _ relays => relays_paired relays | _ => True end.

Lemma on_packet_total i l data :
  bytes_ok data -> listener_wf l ->
  exists evs, on_packet i l data = Ok evs /\ Forall (entered_ok i (listener_comm l)) evs.
Proof.
  intros Hd [Hp Hw]. destruct l as [c|c a m r]; cbn [M03_recv.on_packet listener_comm] in *.
  - destruct (community_total i c data Hd) as (evs & H1 & H2 & _). exists evs; split; assumption.
  - apply crypto_total; assumption.
Qed.

Definition ep_wf (ep : endpoint) : Prop :=
  Forall (fun il => listener_wf (snd il)) (ep_listeners ep) /\
  Forall (fun kv => Forall (fun il => listener_wf (snd il)) (snd kv)) (ep_pmap ep).

Lemma pmap_get_wf p m ls :
  Forall (fun kv => Forall (fun il => listener_wf (snd il)) (snd kv)) m ->
  pmap_get p m = Some ls -> Forall (fun il => listener_wf (snd il)) ls.
Proof.
  induction m as [|[k v] tl IH]; intros H E; cbn in E; [discriminate|].
  inversion H; subst. destruct (bytes_eqb p k); [inversion E; subst; assumption|]. apply IH; assumption.
Qed.

Lemma selected_wf ep data : ep_wf ep -> Forall (fun il => listener_wf (snd il)) (selected ep data).
Proof.
  intros [H1 H2]. unfold selected. destruct (pmap_get _ _) eqn:E; [|exact H1]. eapply pmap_get_wf; eauto.
Qed.

(* events of listener index i respect listener i's prefix gate *)
Definition gate_ok (ls : list (nat * listener)) (e : ev) : Prop :=
  match e with
  | Entered i _ _ => exists l, In (i, l) ls /\ entered_ok i (listener_comm l) e
  | _ => True
  end.

Lemma deliver_all_total ep data : bytes_ok data -> forall ls,
  Forall (fun il => listener_wf (snd il)) ls ->
  exists evs, deliver_all ep ls data = Ok evs /\ Forall (gate_ok ls) evs.
Proof.
  intros Hd. induction ls as [|[i l] tl IH]; intros Hw; cbn [M03_recv.deliver_all].
  - exists []. split; [reflexivity|constructor].
  - inversion Hw as [|? ? Hl Htl]; subst. cbn [snd] in Hl.
    destruct (IH Htl) as (evs2 & E2 & G2).
    assert (G2' : Forall (gate_ok ((i, l) :: tl)) evs2).
    { eapply Forall_impl; [|exact G2]. intros [j|j mid d|j cid m]; cbn; auto.
      intros (l' & Hin & Hok). exists l'. split; [right; exact Hin|exact Hok]. }
    unfold M03_recv.deliver_later. cbn [fst snd].
    destruct (ep_open ep && _) eqn:Eo.
    + destruct (on_packet_total i l data Hd Hl) as (evs1 & E1 & G1). rewrite E1. cbn [bind]. rewrite E2. cbn [bind].
      eexists; split; [reflexivity|]. constructor; [exact I|]. apply Forall_app; split; [|exact G2'].
      rewrite Forall_forall. intros e He. rewrite Forall_forall in G1. specialize (G1 e He).
      destruct e as [j|j mid d|j cid m']; cbn; auto.
      assert (j = i) by (cbn in G1; tauto). subst j. exists l. split; [left; reflexivity|exact G1].
    + cbn [bind]. rewrite E2. cbn [bind]. exists evs2. split; [reflexivity|exact G2'].
Qed.

Lemma notify_total_l ep data : bytes_ok data -> ep_wf ep ->
  exists evs, notify ep data = Ok evs /\ Forall (gate_ok (selected ep data)) evs.
Proof.
  intros Hd Hw. unfold M03_recv.notify. apply deliver_all_total; [exact Hd|]. apply selected_wf. exact Hw.
Qed.

End P.

Section Reach.
Variable handler : nat -> Z -> bytes -> res unit.
Variable incoming : Z -> bool -> bytes -> option bytes.
Variable relay_crypto : Z -> bytes -> option bytes.

Lemma deliver_all_reaches ep data ls evs :
  ep_open ep = true ->
  (forall il, In il ls ->
     (match pmap_get (slice data None (Some 22)) (ep_pmap ep) with Some _ => true | None => false end
      || existsb (fun jl => Nat.eqb (fst jl) (fst il)) (ep_listeners ep)) = true) ->
  deliver_all handler incoming relay_crypto ep ls data = Ok evs ->
  forall il, In il ls -> In (Delivered (fst il)) evs.
Proof.
  intros Ho. revert evs. induction ls as [|x tl IH]; intros evs Hg E il Hin; [destruct Hin|].
  cbn [M03_recv.deliver_all] in E. unfold M03_recv.deliver_later in E. rewrite Ho in E.
  rewrite (Hg x (or_introl eq_refl)) in E. cbn [andb] in E.
  destruct (on_packet handler incoming relay_crypto (fst x) (snd x) data) as [a|] eqn:Ea; cbn [bind] in E; [|discriminate].
  destruct (deliver_all handler incoming relay_crypto ep tl data) as [b|] eqn:Eb; cbn [bind] in E; [|discriminate].
  inversion E; subst. destruct Hin as [<-|Hin].
  - left. reflexivity.
  - right. apply in_or_app. right. eapply IH; eauto. intros il' Hil'. apply Hg. right. exact Hil'.
Qed.

Lemma notify_reaches_l ep data evs :
  ep_open ep = true -> notify handler incoming relay_crypto ep data = Ok evs ->
  forall il, In il (selected ep data) -> In (Delivered (fst il)) evs.
Proof.
  intros Ho E. unfold M03_recv.notify in E. eapply deliver_all_reaches; eauto.
  intros il Hin. unfold selected in Hin. destruct (pmap_get _ _) eqn:Ep; [reflexivity|]. cbn [orb].
  apply existsb_exists. exists il. split; [exact Hin|apply Nat.eqb_refl].
Qed.
End Reach.

Section Short.
Variable handler : nat -> Z -> bytes -> res unit.
Variable incoming : Z -> bool -> bytes -> option bytes.
Variable relay_crypto : Z -> bytes -> option bytes.

Lemma short_ignored_l i l data : blen data < 23 -> on_packet handler incoming relay_crypto i l data = Ok [].
Proof.
  intros Hs.
  assert (Hc : forall c, community_on_packet handler i c data = Ok []).
  { intros c. unfold community_on_packet. replace (blen data <? 23) with true by lia. rewrite orb_true_r. reflexivity. }
  destruct l as [c|c a m r]; cbn [on_packet]; [apply Hc|].
  unfold crypto_on_packet. destruct (starts_with (c_prefix c) data && (22 <? blen data)) eqn:E.
  - apply andb_true_iff in E as [_ E]. lia.
  - destruct a; [apply Hc|reflexivity].
Qed.

(* a datagram whose first 22 bytes are not the overlay's prefix enters none of its handlers *)
Lemma foreign_prefix_l i l data :
  slice data None (Some 22) <> c_prefix (listener_comm l) -> length (c_prefix (listener_comm l)) = 22%nat ->
  on_packet handler incoming relay_crypto i l data = Ok [].
Proof.
  intros Hne Hlen.
  assert (Hc : community_on_packet handler i (listener_comm l) data = Ok []).
  { unfold community_on_packet.
    destruct (bytes_eqb (c_prefix (listener_comm l)) (slice data None (Some 22))) eqn:E.
    - apply bytes_eqb_eq in E. congruence.
    - reflexivity. }
  destruct l as [c|c a m r]; cbn [on_packet listener_comm] in *; [exact Hc|].
  unfold crypto_on_packet. destruct (starts_with (c_prefix c) data && (22 <? blen data)) eqn:E.
  - apply andb_true_iff in E as [E _]. unfold starts_with in E. apply bytes_eqb_eq in E.
    exfalso. apply Hne. rewrite slice_prefix by lia. change (Z.to_nat 22) with 22%nat. rewrite <- Hlen. symmetry. exact E.
  - destruct a; [exact Hc|reflexivity].
Qed.
End Short.
