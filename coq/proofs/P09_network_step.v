(* C09, path level - the frame property of a received cell and of every event of the node model. *)
From Coq Require Import ZArith List Bool Lia ZifyBool.
From IPV8V Require Import gen.G09_rules model.M09_reclaim spec.S09_reclaim proofs.P09_alist proofs.P09_more
  proofs.P09_network_frame proofs.P09_network_node.
Import ListNotations.
Open Scope Z_scope.

Section StepFrames.
Variable st : settings.
Variable I : Z -> bool.

Notation frame := (frame st I).
Notation harmless := (harmless I).
Notation closedI := (closedI I).
Notation no_I_cells := (no_I_cells I).

(* ---------------------------------------------------------------- a cell *)
(* the keys whose activity stamp a cell with id `cid` may advance: its own (exit socket: ping, data) and
   the partner route of the relay entry it is forwarded along *)
Definition cell_touch (s : node) (cid x : Z) : Prop :=
  x = cid \/ exists nxt, aget cid (relays s) = Some nxt /\ x = r_next nxt.

Definition cell_ok (s : node) (cid : Z) (cr : crypt) : Prop :=
  aget cid (relays s) = None -> forall m, cr = COk m -> handshake_free I cid m.

Definition cell_outs (s : node) (src cid : Z) (cr : crypt) (o : list out) : Prop :=
  forall d c e mm, In (OCell d c e mm) o -> I c = true ->
    (exists nxt, aget cid (relays s) = Some nxt /\ d = r_peer nxt /\ c = r_next nxt /\ mm = 0)
    \/ (aget cid (relays s) = None /\ d = src /\ c = cid /\ mm = MSG_PONG /\ cr = COk MPing
        /\ holds_id s cid = true).

Lemma cell_outs_nil s src cid cr : cell_outs s src cid cr [].
Proof. intros d c e mm []. Qed.

(* the same with what the handler needs known locally (see handle_local) *)
Definition cell_ok_l (s : node) (cid : Z) (cr : crypt) : Prop :=
  aget cid (relays s) = None -> forall m, cr = COk m -> handshake_free I cid m /\ handle_local I s cid m.

Lemma recv_cell_frame_l s src cid plain early len cr ls :
  cell_ok_l s cid cr ->
  frame (cell_touch s cid) s (fst (recv_cell st s src cid plain early len cr ls))
  /\ cell_outs s src cid cr (snd (recv_cell st s src cid plain early len cr ls)).
Proof.
  intros Hok. split.
  - unfold recv_cell. destruct (aget cid (relays s)) as [nxt|] eqn:En.
    + set (s1 := match aget (r_next nxt) (relays s) with
                 | Some this => set_relays (aset (r_next nxt) (r_with_ro (fun r => ro_down len (ro_beat (now s) r)) this) (relays s)) s
                 | None => s end).
      assert (F1 : frame (cell_touch s cid) s s1).
      { unfold s1. destruct (aget (r_next nxt) (relays s)) as [this|] eqn:Et; [|apply frame_refl].
        apply frame_set_relay; intros _.
        - exists this. split; [exact Et|]. split; [reflexivity|]. split; [reflexivity|].
          right. split; [right; exists nxt; auto | reflexivity].
        - left. exists this. auto. }
      destruct plain; [exact F1|].
      destruct (aget cid (relays s1)) as [nxt1|] eqn:En1; [|exact F1].
      destruct (relay_drops_early early (r_early nxt1) (s_max_early st)); [exact F1|].
      destruct cr as [| |m]; try exact F1.
      destruct (take ls) as [n ls']. simpl fst.
      eapply frame_trans; [exact F1|].
      assert (Nw : now s1 = now s) by (apply (f_now _ _ _ _ _ F1)).
      apply frame_set_relay; intros _.
      * exists nxt1. split; [exact En1|]. simpl. auto.
      * left. exists nxt1. split; [exact En1 | reflexivity].
    + destruct (negb (ahas cid (circuits s)) && negb (ahas cid (exits s)) && negb plain); [apply frame_refl|].
      destruct cr as [| |m]; try apply frame_refl.
      destruct (recv_drops_early early (msg_id m) (s_max_early st)); [apply frame_refl|].
      destruct (plain && negb (existsb (Z.eqb (msg_id m)) NO_CRYPTO_PACKETS)); [apply frame_refl|].
      assert (G : forall s1 (o : list out), frame (cell_touch s cid) s s1 ->
                frame (cell_touch s cid) s
                  (fst match aget cid (circuits s1) with
                       | Some c => (set_circuits (aset cid (c_with_ro (fun r => ro_down len (ro_beat (now s) r)) c) (circuits s1)) s1, o)
                       | None => (s1, o)
                       end)).
      { intros s1 o F1. destruct (aget cid (circuits s1)) as [c|] eqn:Ec; [|exact F1].
        simpl. eapply frame_trans; [exact F1|]. apply frame_set_circuit. intros _. exists c. split; [exact Ec|].
        simpl. repeat split; auto. right. split; [left; reflexivity|]. symmetry. apply (f_now _ _ _ _ _ F1). }
      assert (Tc : I cid = true -> cell_touch s cid cid) by (intros _; left; reflexivity).
      destruct m as [ident|ident v p|ident|ident v p|a b c dl| | |mid];
        try (match goal with |- context [handle st s src cid ?M ls] =>
               destruct (handle_frame_l st I (cell_touch s cid) s src cid M ls (proj2 (Hok En _ eq_refl)) (proj1 (Hok En _ eq_refl)) Tc) as [F _];
               destruct (handle st s src cid M ls) as [[s' o'] l']; apply G; exact F end).
      destruct (handle_data_frame st I (cell_touch s cid) s src cid a b c dl Tc) as [F _].
      destruct (handle_data s src cid a b c dl) as [s1 o]. apply G. exact F.
  - (* what is sent *)
    destruct (aget cid (relays s)) as [nxt|] eqn:En.
    + pose proof (relay_forward_l st s src cid plain early len cr ls nxt En) as R.
      destruct (recv_cell st s src cid plain early len cr ls) as [s' o]. simpl.
      destruct R as [R|(R & _)]; subst o; [apply cell_outs_nil|].
      intros d c e mm [H|[]] Hi. inversion H; subst. left. exists nxt. auto.
    + unfold recv_cell. rewrite En.
      destruct (negb (ahas cid (circuits s)) && negb (ahas cid (exits s)) && negb plain); [apply cell_outs_nil|].
      destruct cr as [| |m]; try apply cell_outs_nil.
      destruct (recv_drops_early early (msg_id m) (s_max_early st)); [apply cell_outs_nil|].
      destruct (plain && negb (existsb (Z.eqb (msg_id m)) NO_CRYPTO_PACKETS)); [apply cell_outs_nil|].
      assert (G : forall s1 (o : list out), cell_outs s src cid (COk m) o ->
                cell_outs s src cid (COk m)
                  (snd match aget cid (circuits s1) with
                       | Some c => (set_circuits (aset cid (c_with_ro (fun r => ro_down len (ro_beat (now s) r)) c) (circuits s1)) s1, o)
                       | None => (s1, o)
                       end)).
      { intros s1 o H. destruct (aget cid (circuits s1)); exact H. }
      assert (Tc : I cid = true -> cell_touch s cid cid) by (intros _; left; reflexivity).
      assert (P : forall o, only_pong I s src cid m o -> cell_outs s src cid (COk m) o).
      { intros o H d c e mm Hin Hi. destruct (H _ _ _ _ Hin Hi) as (A & B & C & D & E).
        right. subst. repeat split; auto. }
      destruct m as [ident|ident v p|ident|ident v p|a b c dl| | |mid];
        try (match goal with |- context [handle st s src cid ?M ls] =>
               destruct (handle_frame_l st I (cell_touch s cid) s src cid M ls (proj2 (Hok En _ eq_refl)) (proj1 (Hok En _ eq_refl)) Tc) as [_ O];
               destruct (handle st s src cid M ls) as [[s' o'] l']; apply G; apply P; exact O end).
      destruct (handle_data_frame st I (cell_touch s cid) s src cid a b c dl Tc) as [_ N].
      destruct (handle_data s src cid a b c dl) as [s1 o]. apply G.
      intros d c0 e mm Hin _. exfalso. eapply N; eauto.
Qed.

Lemma recv_cell_frame s src cid plain early len cr ls :
  closedI s -> cell_ok s cid cr ->
  frame (cell_touch s cid) s (fst (recv_cell st s src cid plain early len cr ls))
  /\ cell_outs s src cid cr (snd (recv_cell st s src cid plain early len cr ls)).
Proof.
  intros K Hok. apply recv_cell_frame_l. intros En m Hm. split; [exact (Hok En m Hm)|].
  apply closed_handle_local. exact K.
Qed.

(* ---------------------------------------------------------------- timers, destroys, removal tasks *)
Lemma recv_destroy_frame (touch : Z -> Prop) s src cid reason : frame touch s (recv_destroy s src cid reason).
Proof.
  assert (D : forall k c dd rn s0, frame touch s0 (defer (DRemove k c dd rn) s0)).
  { intros. apply frame_defer; [exact Logic.I | intros x H; discriminate]. }
  unfold recv_destroy.
  match goal with |- context [match ?X with Some nxt => defer _ (defer _ s) | None => ?Y end] =>
    destruct X as [nxt|]; [eapply frame_trans; apply D|] end.
  destruct (aget cid (exits s)) as [e|].
  - destruct (src =? e_peer e); [apply D|].
    destruct (aget cid (circuits s)) as [c|]; [|apply frame_refl].
    destruct (src =? c_first c); [apply D | apply frame_refl].
  - destruct (aget cid (circuits s)) as [c|]; [|apply frame_refl].
    destruct (src =? c_first c); [apply D | apply frame_refl].
Qed.

Lemma sweep_starts_removes s d : In d (sweep_starts st s) -> exists k c dd rn, d = DRemove k c dd rn.
Proof.
  unfold sweep_starts, rule_to_start. intro H.
  repeat (apply in_app_or in H; destruct H as [H|H]);
    apply in_flat_map in H; destruct H as ([c x] & _ & H); simpl in H;
    match type of H with In _ (match ?r with _ => _ end) => destruct r end; simpl in H;
    try contradiction; destruct H as [H|[]]; subst d; eauto.
Qed.

Lemma sweep_frame (touch : Z -> Prop) s : frame touch s (sweep st s).
Proof.
  unfold sweep. eapply frame_trans; [|apply frame_set_last_sweep].
  apply frame_more_starts. intros d H. destruct (sweep_starts_removes _ _ H) as (k & c & dd & rn & E). subst d.
  split; [exact Logic.I | intros x Hx; discriminate].
Qed.

(* pings go out only for own circuits that are not closing, to their first hop *)
Definition ping_outs (s : node) (o : list out) : Prop :=
  forall d c e m, In (OCell d c e m) o -> I c = true ->
    exists circ, aget c (circuits s) = Some circ /\ c_closing circ = false /\ d = c_first circ /\ m = MSG_PING.

Lemma ping_all_frame (touch : Z -> Prop) cs : forall s ls,
  frame touch s (fst (ping_all st s cs ls)) /\ ping_outs s (snd (ping_all st s cs ls)).
Proof.
  induction cs as [|[cid c0] tl IH]; intros s ls; simpl; [split; [apply frame_refl | intros d c e m []]|].
  destruct (aget cid (circuits s)) as [c|] eqn:Ec; [|apply IH].
  destruct (negb (c_closing c) && (0 <? c_hops c)) eqn:Eb; [|apply IH].
  pose proof (send_cell_frame st I touch s (c_first c) cid MSG_PING ls) as F1.
  destruct (send_cell_out st s (c_first c) cid MSG_PING ls) as (early & O1).
  destruct (send_cell st s (c_first c) cid MSG_PING ls) as [[s1 o1] ls1]. simpl in F1, O1. subst o1.
  destruct (IH s1 ls1) as [F2 O2].
  destruct (ping_all st s1 tl ls1) as [s2 o2]. simpl in *.
  split; [eapply frame_trans; eauto|].
  intros d c1 e m [H|H] Hi.
  - inversion H; subst. exists c. split; [exact Ec|]. split; [|auto].
    destruct (c_closing c); [discriminate | reflexivity].
  - destruct (O2 _ _ _ _ H Hi) as (circ & Hc & K & Hd & Hm).
    destruct (f_circ _ _ _ _ _ F1 _ _ Hi Hc) as (circ0 & Hc0 & A & _ & _ & _ & _ & _ & K1 & _).
    exists circ0. split; [exact Hc0|]. split; [|split; [congruence | exact Hm]].
    destruct (c_closing circ0) eqn:E0; [|reflexivity]. rewrite (K1 eq_refl) in K. discriminate.
Qed.

Lemma finish_remove_frame (touch : Z -> Prop) s k cid :
  frame touch s (fst (finish_remove s k cid)) /\ no_cells (snd (finish_remove s k cid)).
Proof.
  assert (N0 : no_cells []) by (intros d c e m []).
  destruct k; simpl.
  - split; [apply frame_del_circuit | exact N0].
  - split; [apply frame_del_relay | exact N0].
  - destruct (aget cid (exits s)) as [e|]; simpl; [|split; [apply frame_refl | exact N0]]. split.
    + eapply frame_trans; [apply frame_del_exit|]. apply frame_sub_starts.
      intros d H. apply filter_In in H. destruct H as [H _]. exact H.
    + destruct (e_enabled e && e_open e); [|exact N0]. intros d c e0 m [H|[]]. discriminate.
Qed.

(* the wake-up of a removal task: the sleeping entry is consumed, the table entry goes *)
Lemma wake_frame (touch : Z -> Prop) s i due k cid :
  nth_error (sleeping s) i = Some (due, k, cid) ->
  frame touch s (fst (finish_remove (set_sleeping (remove_nth i (sleeping s)) s) k cid)).
Proof.
  intro Hn. set (s0 := set_sleeping (remove_nth i (sleeping s)) s).
  destruct (finish_remove_frame touch s0 k cid) as [F _].
  destruct F as [n c r o e cd kk t d l]. constructor; auto.
  intros due' x Hi Hc Hin. apply l; auto. simpl.
  eapply in_remove_nth_other; [exact Hin | exact Hn|].
  intro E. inversion E; subst due' k cid. apply Hc. simpl. rewrite aget_adel, Z.eqb_refl. reflexivity.
Qed.

Lemma start_remove_frame (touch : Z -> Prop) s k cid dd rn :
  frame touch s (fst (start_remove st s k cid dd rn)) /\ no_cells (snd (start_remove st s k cid dd rn)).
Proof.
  assert (N0 : no_cells []) by (intros d c e m []).
  assert (ND : forall a b c0, no_cells (if dd =? 0 then [] else [ODestroy a b c0])).
  { intros. destruct (dd =? 0); [exact N0|]. intros d c e m [H|[]]. discriminate. }
  assert (Tail : forall s1 (o : list out), frame touch s s1 -> no_cells o ->
            frame touch s (fst (if negb rn || (0 <? s_remove_delay st)
                                then (set_sleeping (sleeping s1 ++ [(now s1 + s_remove_delay st, k, cid)]) s1, o)
                                else let '(s2, o2) := finish_remove s1 k cid in (s2, o ++ o2)))
            /\ no_cells (snd (if negb rn || (0 <? s_remove_delay st)
                                then (set_sleeping (sleeping s1 ++ [(now s1 + s_remove_delay st, k, cid)]) s1, o)
                                else let '(s2, o2) := finish_remove s1 k cid in (s2, o ++ o2)))).
  { intros s1 o F N. destruct (negb rn || (0 <? s_remove_delay st)); simpl.
    - split; [eapply frame_trans; [exact F | apply frame_add_sleep] | exact N].
    - destruct (finish_remove_frame touch s1 k cid) as [F2 N2].
      destruct (finish_remove s1 k cid) as [s2 o2]. simpl in *. split; [eapply frame_trans; eauto|].
      intros d c e m H. apply in_app_or in H. destruct H; [eapply N | eapply N2]; eauto. }
  unfold start_remove. destruct k.
  - set (s0 := set_retries (adel cid (retries s)) s).
    assert (F0 : frame touch s s0) by apply frame_del_retry.
    destruct (aget cid (circuits s0)) as [c|] eqn:Ec; [|split; [exact F0 | exact N0]].
    set (c1 := mkCirc (c_ro c) (c_goal c) (c_hops c) true (c_unver c) (c_first c) (c_early c)).
    set (s1 := set_circuits (aset cid c1 (circuits s0)) s0).
    destruct (negb rn || (0 <? s_remove_delay st)).
    + split; [|apply ND]. simpl fst.
      (* the circuit is marked closing and its removal task goes to sleep *)
      constructor; simpl;
        try (intros; solve [eauto]);
        try (intros y r' Hi H; solve [exists r'; auto | left; exists r'; auto]);
        try (intros y rt Hi H; rewrite aget_adel in H; destruct (y =? cid); [discriminate | solve [eauto]]);
        try (intros due y Hi Hc Hin; apply in_or_app; left; exact Hin).
      intros y c' Hi H. rewrite aget_aset in H. destruct (y =? cid) eqn:E.
      * apply Z.eqb_eq in E. subst y. inversion H; subst c'. exists c. split; [exact Ec|].
        simpl. repeat split; auto. intros _ _. apply in_or_app. right. left. reflexivity.
      * exists c'. split; [exact H|]. repeat split; auto. congruence.
    + (* marked and deleted at once *)
      simpl. split.
      * eapply frame_trans; [exact F0|].
        constructor; simpl;
          try (intros; solve [eauto]);
          try (intros y r' Hi H; solve [exists r'; auto | left; exists r'; auto]).
        intros y c' Hi H. rewrite aget_adel in H. destruct (y =? cid) eqn:E; [discriminate|].
        rewrite aget_aset, E in H. exists c'. split; [exact H|]. repeat split; auto. congruence.
      * rewrite app_nil_r. apply ND.
  - apply Tail; [apply frame_refl|]. destruct (aget cid (relays s)); [apply ND | exact N0].
  - apply Tail; [apply frame_refl|]. destruct (aget cid (exits s)); [apply ND | exact N0].
Qed.

(* ---------------------------------------------------------------- deferred handler bodies *)
Lemma fst_let3' {A B C : Type} (x : A * B * C) : fst (let '(a, b, _) := x in (a, b)) = fst (fst x).
Proof. destruct x as [[a b] c]. reflexivity. Qed.
Lemma snd_let3' {A B C : Type} (x : A * B * C) : snd (let '(a, b, _) := x in (a, b)) = snd (fst x).
Proof. destruct x as [[a b] c]. reflexivity. Qed.

Lemma run_deferred_frame (touch : Z -> Prop) s d eo tg tc nb p ls :
  harmless d -> (forall src cid ident, d = DExtend src cid ident -> I tc = false) ->
  (forall x, d = DOpen x -> I x = true -> touch x) ->
  frame touch s (fst (run_deferred st s d eo tg tc nb p ls))
  /\ no_I_cells (snd (run_deferred st s d eo tg tc nb p ls)).
Proof.
  intros Hd Htc Ht.
  assert (R0 : frame touch s s /\ no_I_cells []) by (split; [apply frame_refl | apply no_I_nil]).
  destruct d as [k c dd rn|src cid ident|src cid ident|cid t ini|cid]; simpl in Hd.
  - simpl. destruct (start_remove_frame touch s k c dd rn) as [F N]. split; [exact F | apply no_cells_no_I; exact N].
  - (* on_create *)
    simpl. destruct (negb (s_any_flag st)); [exact R0|].
    destruct (ahas cid (createds s)); [exact R0|].
    destruct (ahas cid (circuits s) || ahas cid (relays s) || ahas cid (exits s)); [exact R0|].
    destruct (negb (should_join (s_max_joined st) (zlen (relays s)) (zlen (exits s)))); [exact R0|].
    rewrite fst_let3', snd_let3'. split; [|apply send_cell_no_I; exact Hd].
    eapply frame_trans; [|apply send_cell_frame].
    set (s1 := set_createds (aset cid (now s + s_unstable_timeout st) (createds s)) s).
    apply frame_trans with (b := s1).
    { apply frame_set_createds. intros x due Hi H. rewrite aget_aset in H. destruct (x =? cid) eqn:E; [|exact H].
      apply Z.eqb_eq in E. subst x. congruence. }
    apply (frame_set_exit st I touch s1 cid). intro H; congruence.
  - (* on_extend *)
    simpl. destruct (negb (s_relay_flag st)); [exact R0|].
    destruct (negb (ahas cid (createds s))); [exact R0|].
    destruct (negb eo); [exact R0|].
    match goal with |- context [match ?x with Some _ => _ | None => _ end] => destruct x as [prev|] end; [|exact R0].
    rewrite fst_let3', snd_let3'. pose proof (Htc _ _ _ eq_refl) as Htc'. split; [|apply send_cell_no_I; exact Htc'].
    eapply frame_trans; [|apply send_cell_frame]. apply frame_add_create; simpl; assumption.
  - (* retry *)
    simpl. destruct (aget cid (circuits s)) as [c|]; [|exact R0].
    rewrite fst_let3', snd_let3'. apply start_hop_frame. exact Hd.
  - (* create_transports *)
    simpl. destruct (aget cid (exits s)) as [e|] eqn:Ee; [|exact R0].
    destruct (e_enabled e && negb (e_open e)); [|exact R0].
    pose proof (drain_facts I cid (e_queue e) (mkExit (e_ro e) (e_peer e) true true []) (now s)) as H.
    destruct (drain cid (mkExit (e_ro e) (e_peer e) true true []) (e_queue e) (now s)) as [e2 o]. simpl in H.
    destruct H as [Pe [L N]]. simpl. split.
    + apply frame_set_exit. intro Hi. exists e. split; [exact Ee|]. split; [exact Pe|].
      destruct L as [L|L]; [left; exact L | right; split; [apply Ht; auto | exact L]].
    + intros d c e0 m [H|H]; [discriminate | exfalso; eapply N; eauto].
Qed.

(* ---------------------------------------------------------------- one event *)
Definition ev_ok (s : node) (e : ev) : Prop :=
  match e with
  | ERecvCell _ cid _ _ _ cr _ => cell_ok s cid cr
  | ESendData _ cid _ => I cid = false
  | EOutside cid _ _ _ => I cid = false
  | ECreateCircuit cid _ _ _ => I cid = false
  | ERun _ _ _ tc _ _ _ => I tc = false
  | _ => True
  end.

Definition ev_touch (s : node) (e : ev) : Z -> Prop :=
  match e with
  | ERecvCell _ cid _ _ _ _ _ => cell_touch s cid
  | ERun i _ _ _ _ _ _ => fun x => nth_error (starts s) i = Some (DOpen x)
  | _ => fun _ => False
  end.

Definition ev_outs (s : node) (e : ev) (o : list out) : Prop :=
  match e with
  | ERecvCell src cid _ _ _ cr _ => cell_outs s src cid cr o
  | EPing _ => ping_outs s o
  | _ => no_I_cells o
  end.

(* the local form: what each event needs to know about the node *)
Definition ev_ok_l (s : node) (e : ev) : Prop :=
  match e with
  | ERecvCell _ cid _ _ _ cr _ => cell_ok_l s cid cr
  | ESendData _ cid _ => I cid = false
  | EOutside cid _ _ _ => I cid = false
  | ECreateCircuit cid _ _ _ => I cid = false
  | ERun i _ _ tc _ _ _ => forall d, nth_error (starts s) i = Some d ->
      harmless d /\ (forall src cid ident, d = DExtend src cid ident -> I tc = false)
  | ERetryTimeout cid => forall rt, aget cid (retries s) = Some rt -> I cid = false
  | _ => True
  end.

Lemma step_at_frame_l s e :
  ev_ok_l s e ->
  frame (ev_touch s e) s (fst (step_at st s e)) /\ ev_outs s e (snd (step_at st s e)).
Proof.
  intros Hok.
  destruct e as [src cid plain early len cr ls|src cid reason| |ls|i eo tg tc nb p ls|i|cid|cid|number
                 |cid goal p ls|k cid dd rn|dst cid ls|cid len allowed ls]; simpl in Hok; cbn [step_at ev_touch ev_outs].
  - apply recv_cell_frame_l; assumption.
  - split; [apply recv_destroy_frame | apply no_I_nil].
  - split; [apply sweep_frame | apply no_I_nil].
  - apply ping_all_frame.
  - destruct (nth_error (starts s) i) as [d|] eqn:En; [|split; [apply frame_refl | apply no_I_nil]].
    set (s0 := set_starts (remove_nth i (starts s)) s).
    assert (F0 : frame (fun x => Some d = Some (DOpen x)) s s0).
    { apply frame_sub_starts. intros d0 H. eapply in_remove_nth; eauto. }
    destruct (Hok _ eq_refl) as [Hd Hok'].
    destruct (run_deferred_frame (fun x => Some d = Some (DOpen x)) s0 d eo tg tc nb p ls Hd Hok') as [F O].
    { intros x E _. rewrite E. reflexivity. }
    split; [eapply frame_trans; eauto | exact O].
  - destruct (nth_error (sleeping s) i) as [[[due k] cid]|] eqn:En; [|split; [apply frame_refl | apply no_I_nil]].
    split; [eapply wake_frame; eauto|].
    apply no_cells_no_I. apply (finish_remove_frame (fun _ => False)).
  - (* retry time-out *)
    destruct (aget cid (retries s)) as [rt|] eqn:Er; [|split; [apply frame_refl | apply no_I_nil]].
    pose proof (Hok _ eq_refl) as Hc.
    set (s1 := set_retries (adel cid (retries s)) s).
    assert (F1 : frame (fun _ : Z => False) s s1) by apply frame_del_retry.
    destruct (aget cid (circuits s1)) as [c|]; [|split; [exact F1 | apply no_I_nil]].
    destruct (c_closing c); [split; [exact F1 | apply no_I_nil]|].
    destruct (retry_gives_up (rt_cands rt) (rt_tries rt)); (split; [|apply no_I_nil]);
      (eapply frame_trans; [exact F1|]); apply frame_defer; simpl; auto; intros x H; discriminate.
  - split; [|apply no_I_nil]. apply frame_set_createds. intros x due Hi H. rewrite aget_adel in H.
    destruct (x =? cid); [discriminate | exact H].
  - split; [apply frame_del_create | apply no_I_nil].
  - (* create_circuit *)
    destruct (p_next p) as [nx|] eqn:Ep; [|split; [apply frame_refl | apply no_I_nil]].
    rewrite fst_let3', snd_let3'.
    match goal with |- context [start_hop st ?S1 cid ?C ?T true p ls] =>
      destruct (start_hop_frame st I (fun _ : Z => False) S1 cid C T true p ls Hok) as [F O]; set (s1 := S1) in * end.
    split; [|exact O]. apply frame_trans with (b := s1); [|exact F].
    apply frame_set_circuit. intro H; congruence.
  - split; [|apply no_I_nil]. apply frame_defer; [exact Logic.I | intros x H; discriminate].
  - rewrite fst_let3', snd_let3'. split; [apply send_cell_frame | apply send_cell_no_I; exact Hok].
  - (* datagram from outside at an exit socket *)
    destruct (aget cid (exits s)) as [e|] eqn:Ee; [|split; [apply frame_refl | apply no_I_nil]].
    set (s1 := set_exits (aset cid (e_with_ro (ro_down len) e) (exits s)) s).
    assert (F1 : frame (fun _ : Z => False) s s1) by (apply frame_set_exit; intro H; congruence).
    destruct allowed; [|split; [exact F1 | apply no_I_nil]].
    rewrite fst_let3', snd_let3'. split; [|apply send_cell_no_I; exact Hok].
    eapply frame_trans; [exact F1 | apply send_cell_frame].
Qed.

Lemma closed_ev_ok_l s e : closedI s -> ev_ok s e -> ev_ok_l s e.
Proof.
  intros K Hok. destruct e; simpl in *; auto.
  - intros En m Hm. split; [exact (Hok En m Hm) | apply closed_handle_local; exact K].
  - intros d H. split; [apply (k_starts _ _ K); eapply nth_error_In; eauto | intros; exact Hok].
  - intros rt H. exact (k_retries _ _ K _ _ H).
Qed.

Lemma step_at_frame s e :
  closedI s -> ev_ok s e ->
  frame (ev_touch s e) s (fst (step_at st s e)) /\ ev_outs s e (snd (step_at st s e)).
Proof. intros K Hok. apply step_at_frame_l. apply closed_ev_ok_l; assumption. Qed.

End StepFrames.
