(* C09 - join limit, destroy shortcut, relay_early budget, closing of the outside sockets. *)
From Coq Require Import ZArith List Bool Lia ZifyBool.
From IPV8V Require Import gen.G09_rules model.M09_reclaim spec.S09_reclaim proofs.P09_alist.
Import ListNotations.
Open Scope Z_scope.

Section More.
Variable st : settings.

Ltac crush :=
  repeat match goal with
         | |- context [match ?x with _ => _ end] => destruct x
         | |- context [let '(_, _) := ?x in _] => destruct x
         end; simpl; try reflexivity.

(* ---------------------------------------------------------------- join limit *)
Lemma join_refused_at_limit_l s src cid ident eo tg tc nb p ls :
  s_max_joined st <= zlen (relays s) + zlen (exits s) ->
  run_deferred st s (DCreate src cid ident) eo tg tc nb p ls = (s, []).
Proof.
  intro H. simpl. unfold should_join.
  destruct (negb (s_any_flag st)); [reflexivity|].
  destruct (ahas cid (createds s)); [reflexivity|].
  destruct (ahas cid (circuits s) || ahas cid (relays s) || ahas cid (exits s)); [reflexivity|].
  destruct (s_max_joined st <=? Z.add (zlen (relays s)) (zlen (exits s))) eqn:E; [reflexivity | lia].
Qed.

Lemma send_cell_exits s dst cid mid ls : exits (fst (fst (send_cell st s dst cid mid ls))) = exits s.
Proof. unfold send_cell. crush. Qed.

Lemma join_limit_l s src cid ident eo tg tc nb p ls :
  let s' := fst (run_deferred st s (DCreate src cid ident) eo tg tc nb p ls) in
  exits s' <> exits s ->
  zlen (relays s) + zlen (exits s) < s_max_joined st
  /\ ahas cid (circuits s) = false /\ ahas cid (relays s) = false /\ ahas cid (exits s) = false
  /\ ahas cid (createds s) = false
  /\ aget cid (exits s') = Some (mkExit (ro_new (now s)) src false false []).
Proof.
  simpl. unfold should_join.
  destruct (negb (s_any_flag st)); [simpl; congruence|].
  destruct (ahas cid (createds s)) eqn:E1; [simpl; congruence|].
  destruct (ahas cid (circuits s)) eqn:E2; [simpl; congruence|].
  destruct (ahas cid (relays s)) eqn:E3; [simpl; congruence|].
  destruct (ahas cid (exits s)) eqn:E4; [simpl; congruence|]. simpl orb. cbv iota.
  destruct (s_max_joined st <=? Z.add (zlen (relays s)) (zlen (exits s))) eqn:E; [simpl; congruence|].
  simpl negb. cbv iota. intros _.
  match goal with |- context [send_cell st ?S ?a ?b ?c ?d] =>
    pose proof (send_cell_exits S a b c d) as X; destruct (send_cell st S a b c d) as [[s3 o3] l3] end.
  simpl in X. simpl. rewrite X. simpl. rewrite aget_aset, Z.eqb_refl. repeat split; auto. lia.
Qed.

(* ---------------------------------------------------------------- destroy: adjacent entries are scheduled at once *)
Lemma destroy_relay_l s src cid reason nxt prev :
  aget cid (relays s) = Some nxt -> aget (r_next nxt) (relays s) = Some prev -> src = r_peer prev ->
  recv_destroy s src cid reason
  = defer (DRemove KRelay (r_next nxt) 0 false) (defer (DRemove KRelay cid reason false) s).
Proof. intros H1 H2 H3. unfold recv_destroy. rewrite H1, H2, H3, Z.eqb_refl. reflexivity. Qed.

Definition relay_adjacent (s : node) (src cid : Z) : bool :=
  match aget cid (relays s) with
  | Some nxt => match aget (r_next nxt) (relays s) with
                | Some prev => src =? r_peer prev
                | None => false
                end
  | None => false
  end.

Lemma destroy_exit_l s src cid reason e :
  relay_adjacent s src cid = false -> aget cid (exits s) = Some e -> src = e_peer e ->
  recv_destroy s src cid reason = defer (DRemove KExit cid 0 false) s.
Proof.
  unfold relay_adjacent, recv_destroy. intros H1 H2 H3.
  destruct (aget cid (relays s)) as [nxt|].
  - destruct (aget (r_next nxt) (relays s)) as [prev|].
    + rewrite H1. rewrite H2, H3, Z.eqb_refl. reflexivity.
    + rewrite H2, H3, Z.eqb_refl. reflexivity.
  - rewrite H2, H3, Z.eqb_refl. reflexivity.
Qed.

Definition exit_adjacent (s : node) (src cid : Z) : bool :=
  match aget cid (exits s) with Some e => src =? e_peer e | None => false end.

Lemma destroy_circuit_l s src cid reason c :
  relay_adjacent s src cid = false -> exit_adjacent s src cid = false ->
  aget cid (circuits s) = Some c -> src = c_first c ->
  recv_destroy s src cid reason = defer (DRemove KCirc cid 0 false) s.
Proof.
  unfold relay_adjacent, exit_adjacent, recv_destroy. intros H1 H2 H3 H4.
  assert (T : match aget cid (exits s) with
              | Some e => if src =? e_peer e then defer (DRemove KExit cid 0 false) s
                          else match aget cid (circuits s) with
                               | Some c0 => if src =? c_first c0 then defer (DRemove KCirc cid 0 false) s else s
                               | None => s end
              | None => match aget cid (circuits s) with
                        | Some c0 => if src =? c_first c0 then defer (DRemove KCirc cid 0 false) s else s
                        | None => s end
              end = defer (DRemove KCirc cid 0 false) s).
  { destruct (aget cid (exits s)) as [e|]; [rewrite H2|]; rewrite H3, H4, Z.eqb_refl; reflexivity. }
  destruct (aget cid (relays s)) as [nxt|]; [|exact T].
  destruct (aget (r_next nxt) (relays s)) as [prev|]; [rewrite H1|]; exact T.
Qed.

Definition circuit_adjacent (s : node) (src cid : Z) : bool :=
  match aget cid (circuits s) with Some c => src =? c_first c | None => false end.

Lemma destroy_foreign_l s src cid reason :
  relay_adjacent s src cid = false -> exit_adjacent s src cid = false -> circuit_adjacent s src cid = false ->
  recv_destroy s src cid reason = s.
Proof.
  unfold relay_adjacent, exit_adjacent, circuit_adjacent, recv_destroy. intros H1 H2 H3.
  assert (T : match aget cid (exits s) with
              | Some e => if src =? e_peer e then defer (DRemove KExit cid 0 false) s
                          else match aget cid (circuits s) with
                               | Some c0 => if src =? c_first c0 then defer (DRemove KCirc cid 0 false) s else s
                               | None => s end
              | None => match aget cid (circuits s) with
                        | Some c0 => if src =? c_first c0 then defer (DRemove KCirc cid 0 false) s else s
                        | None => s end
              end = s).
  { destruct (aget cid (exits s)) as [e|]; [rewrite H2|]; destruct (aget cid (circuits s)) as [c|];
      try rewrite H3; reflexivity. }
  destruct (aget cid (relays s)) as [nxt|]; [|exact T].
  destruct (aget (r_next nxt) (relays s)) as [prev|]; [rewrite H1|]; exact T.
Qed.

(* the task started by a destroy forwards it to the next hop and sleeps for the configured delay only *)
Lemma start_remove_relay_l s cid destroy rn r :
  aget cid (relays s) = Some r -> 0 < s_remove_delay st ->
  start_remove st s KRelay cid destroy rn
  = (set_sleeping (sleeping s ++ [(now s + s_remove_delay st, KRelay, cid)]) s,
     if destroy =? 0 then [] else [ODestroy (r_peer r) (r_next r) destroy]).
Proof.
  intros H Hd. unfold start_remove. rewrite H.
  assert (E : (0 <? s_remove_delay st) = true) by lia. rewrite E, orb_true_r. reflexivity.
Qed.

Lemma start_remove_exit_l s cid destroy rn e :
  aget cid (exits s) = Some e -> 0 < s_remove_delay st ->
  start_remove st s KExit cid destroy rn
  = (set_sleeping (sleeping s ++ [(now s + s_remove_delay st, KExit, cid)]) s,
     if destroy =? 0 then [] else [ODestroy (e_peer e) cid destroy]).
Proof.
  intros H Hd. unfold start_remove. rewrite H.
  assert (E : (0 <? s_remove_delay st) = true) by lia. rewrite E, orb_true_r. reflexivity.
Qed.

Lemma start_remove_circuit_l s cid destroy rn c :
  aget cid (circuits s) = Some c -> 0 < s_remove_delay st ->
  exists s1,
    start_remove st s KCirc cid destroy rn
    = (set_sleeping (sleeping s1 ++ [(now s + s_remove_delay st, KCirc, cid)]) s1,
       if destroy =? 0 then [] else [ODestroy (c_first c) cid destroy])
    /\ sleeping s1 = sleeping s /\ aget cid (retries s1) = None
    /\ exists c1, aget cid (circuits s1) = Some c1 /\ c_closing c1 = true.
Proof.
  intros H Hd. unfold start_remove. simpl aget. rewrite H.
  assert (E : (0 <? s_remove_delay st) = true) by lia. rewrite E, orb_true_r.
  eexists. split; [reflexivity|]. split; [reflexivity|]. split.
  - simpl. rewrite aget_adel, Z.eqb_refl. reflexivity.
  - eexists. split; [simpl; rewrite aget_aset, Z.eqb_refl; reflexivity | reflexivity].
Qed.

(* when the sleep is over the entry is gone, and an exit socket that was open is closed *)
Lemma finish_remove_absent_l s k cid :
  let s' := fst (finish_remove s k cid) in
  match k with
  | KCirc => aget cid (circuits s') = None
  | KRelay => aget cid (relays s') = None
  | KExit => aget cid (exits s') = None
  end.
Proof.
  destruct k; simpl.
  - rewrite aget_adel, Z.eqb_refl; reflexivity.
  - rewrite aget_adel, Z.eqb_refl; reflexivity.
  - destruct (aget cid (exits s)) eqn:E; simpl; [rewrite aget_adel, Z.eqb_refl; reflexivity | exact E].
Qed.

Lemma finish_remove_closes_l s cid e :
  aget cid (exits s) = Some e -> e_enabled e = true -> e_open e = true ->
  snd (finish_remove s KExit cid) = [OClose cid].
Proof. intros H1 H2 H3. simpl. rewrite H1. simpl. rewrite H2, H3. reflexivity. Qed.

(* ---------------------------------------------------------------- relay_early *)
(* a relay forwards a cell only through relay_cell; the budget test comes first and the counter of the
   route is incremented by every forwarded cell *)
Lemma relay_forward_l s src cid plain early len cr ls nxt :
  aget cid (relays s) = Some nxt ->
  let '(s', o) := recv_cell st s src cid plain early len cr ls in
  o = [] \/
  (o = [OCell (r_peer nxt) (r_next nxt) early 0] /\ plain = false
   /\ (early = true -> r_early nxt < s_max_early st)
   /\ exists nxt', aget cid (relays s') = Some nxt' /\ r_early nxt' = r_early nxt + 1).
Proof.
  intro H. unfold recv_cell. rewrite H.
  set (s1 := match aget (r_next nxt) (relays s) with
             | Some this => set_relays (aset (r_next nxt) (r_with_ro (fun r => ro_down len (ro_beat (now s) r)) this) (relays s)) s
             | None => s end).
  assert (H1 : exists nxt1, aget cid (relays s1) = Some nxt1 /\ r_early nxt1 = r_early nxt
                            /\ r_peer nxt1 = r_peer nxt /\ r_next nxt1 = r_next nxt).
  { unfold s1. destruct (aget (r_next nxt) (relays s)) as [this|] eqn:Et; [|exists nxt; auto].
    simpl. rewrite aget_aset. destruct (cid =? r_next nxt) eqn:E.
    - apply Z.eqb_eq in E. rewrite <- E in Et. rewrite H in Et. inversion Et; subst this.
      eexists; split; [reflexivity|]. simpl; auto.
    - exists nxt; auto. }
  destruct H1 as (nxt1 & E1 & E2 & E3 & E4).
  destruct plain; [left; reflexivity|]. rewrite E1.
  destruct (relay_drops_early early (r_early nxt1) (s_max_early st)) eqn:Ed; [left; reflexivity|].
  destruct cr as [| |m]; try (left; reflexivity).
  destruct (take ls) as [n ls']. right. rewrite E3, E4. split; [reflexivity|]. split; [reflexivity|]. split.
  - intro Ee. subst early. unfold relay_drops_early in Ed. simpl in Ed. lia.
  - eexists. split; [simpl; rewrite aget_aset, Z.eqb_refl; reflexivity|]. simpl. lia.
Qed.

(* the originator: a cell of one of its own circuits carries the flag iff it is an extend or the circuit's
   counter is below the maximum; every flagged cell increments the counter *)
Lemma origin_send_l s dst cid mid ls c :
  aget cid (circuits s) = Some c ->
  let '(s', o, _) := send_cell st s dst cid mid ls in
  let early := origin_marks_early mid (c_early c) (s_max_early st) in
  o = [OCell dst cid early mid]
  /\ (early = true -> mid <> MSG_EXTEND -> c_early c < s_max_early st)
  /\ exists c', aget cid (circuits s') = Some c' /\ c_early c' = (if early then c_early c + 1 else c_early c).
Proof.
  intro H. unfold send_cell. destruct (take ls) as [n ls']. rewrite H. simpl.
  split; [reflexivity|]. split.
  - unfold origin_marks_early, MSG_EXTEND. intros E Hm. lia.
  - eexists. split; [rewrite aget_aset, Z.eqb_refl; reflexivity | reflexivity].
Qed.

(* a node that holds nothing for an id neither forwards nor answers an (encrypted) cell that names it *)
Lemma unknown_id_dropped_l s src cid early len cr ls :
  aget cid (relays s) = None -> aget cid (circuits s) = None -> aget cid (exits s) = None ->
  recv_cell st s src cid false early len cr ls = (s, []).
Proof.
  intros H1 H2 H3. unfold recv_cell. rewrite H1. unfold ahas. rewrite H2, H3. reflexivity.
Qed.

End More.
