(* The functions regenerated from ipv8/taskmanager.py and the listener table of endpoint.py, as interpreted by
   model/M11_tasks_gen.v, compute exactly what the hand models M11_tasks.v / M11_listeners.v compute. *)
From Coq Require Import ZArith List Bool Arith Lia.
From IPV8V Require Import lib.PyErr lib.Bytes model.M11_listeners model.M11_tasks gen.G11_taskmanager model.M11_tasks_gen
  proofs.P11_listeners proofs.P11_tasks.
Import ListNotations.
Open Scope Z_scope.

Local Arguments gen_is_active : simpl never.
Local Arguments gen_cancel_pending : simpl never.
Local Arguments gen_register : simpl never.
Local Arguments gen_cancel_names : simpl never.
Local Arguments cancel_pending : simpl never.
Local Arguments register : simpl never.

Lemma gen_is_active_eq s n : gen_is_active s n = is_active s n.
Proof.
  unfold gen_is_active, is_active, atom_found, atom_done, run1.
  destruct (nlookup n (pending s)) as [tid|] eqn:E; cbn; rewrite ?E; reflexivity.
Qed.

Lemma gen_cancel_pending_eq s n : gen_cancel_pending s n = cancel_pending s n.
Proof.
  unfold gen_cancel_pending, cancel_pending, atom_found, atom_done, run1.
  destruct (nlookup n (pending s)) as [tid|] eqn:E; cbn; rewrite ?E; [|reflexivity].
  destruct (st_done s tid) eqn:D; cbn; rewrite ?E; reflexivity.
Qed.

Lemma upd_app_last {A} (l : list A) (x : A) f : upd (l ++ [x]) (length l) f = l ++ [f x].
Proof. induction l as [|y r IH]; simpl; [reflexivity|]. rewrite IH. reflexivity. Qed.

Lemma gen_register_eq s n k iv dl hsn :
  (k = KFut -> iv = false /\ dl = false) -> gen_register s n k iv dl hsn = register s n k.
Proof.
  intros Hk. unfold gen_register, register, run1. rewrite gen_is_active_eq.
  destruct (shut s) eqn:Hs.
  - destruct k; [destruct iv, dl, hsn; cbn; reflexivity|].
    destruct (Hk eq_refl) as [-> ->]. destruct hsn; cbn; reflexivity.
  - destruct (is_active s n) eqn:Ha.
    + destruct k; [destruct iv, dl, hsn; cbn; reflexivity|].
      destruct (Hk eq_refl) as [-> ->]. destruct hsn; cbn; reflexivity.
    + destruct k.
      * destruct iv, dl, hsn; cbn; unfold upd_task, set_pending; cbn; rewrite upd_app_last; cbn; rewrite Hs; reflexivity.
      * destruct (Hk eq_refl) as [-> ->]. destruct hsn; cbn; unfold upd_task; cbn; rewrite upd_app_last; cbn;
          rewrite Hs, app_nil_r; reflexivity.
Qed.

Lemma gen_done_cb_eq s owner n : (gen_done_cb s owner n, @nil out) = run_cb s (Some owner) (DoneCb n).
Proof.
  unfold gen_done_cb, run1. simpl. destruct (nlookup n (pending s)) as [cur|]; [|reflexivity].
  destruct (Nat.eqb cur owner); reflexivity.
Qed.

Lemma gen_cancel_names_eq ns : forall s, gen_cancel_names s ns = cancel_names s ns.
Proof.
  induction ns as [|n r IH]; intros s; [reflexivity|].
  change (gen_cancel_names s (n :: r)) with (gen_cancel_names (fst (gen_cancel_pending s n)) r).
  rewrite gen_cancel_pending_eq. apply IH.
Qed.

Lemma gen_replace_eq s n : (gen_replace s n, @nil out) = tstep s (Replace n).
Proof.
  unfold gen_replace, run2. cbn. rewrite gen_cancel_pending_eq.
  destruct (cancel_pending s n) as [s1 [tid|]]; cbn; [|reflexivity].
  destruct (st_done s1 tid); reflexivity.
Qed.

Lemma gen_cancel_cb_eq s owner n : gen_cancel_cb s owner n = run_cb s owner (ReplCb n).
Proof.
  unfold gen_cancel_cb, run2. cbn. rewrite gen_register_eq by discriminate.
  destruct (register s n KCoro) as [s' r]. reflexivity.
Qed.

Lemma gen_shutdown_eq s : (gen_shutdown s, @nil out) = tstep s Shutdown.
Proof.
  unfold gen_shutdown, run2. cbn. destruct (shut s) eqn:Hs; cbn; [reflexivity|].
  destruct (pending s) eqn:Hp; cbn; [reflexivity|]. rewrite gen_cancel_names_eq. reflexivity.
Qed.

Lemma gen_register_anon_eq s b k :
  (let '(s', r) := gen_register_anon s b k in (s', [OReg r])) = tstep s (RegisterAnon b k).
Proof.
  unfold gen_register_anon, run2. cbn. rewrite gen_register_eq by (intros _; split; reflexivity). reflexivity.
Qed.

Lemma gen_run_cb_eq s owner c : gen_run_cb s owner c = run_cb s owner c.
Proof.
  destruct c as [n|n]; simpl.
  - destruct owner as [tid|]; [apply gen_done_cb_eq|reflexivity].
  - apply gen_cancel_cb_eq.
Qed.

Lemma gen_process_eq s h : gen_process s h = process s h.
Proof. destruct h; simpl; try reflexivity. apply gen_run_cb_eq. Qed.

Lemma gen_process_all_eq hs : forall s, gen_process_all s hs = process_all s hs.
Proof.
  induction hs as [|h r IH]; intros s; simpl; [reflexivity|].
  rewrite gen_process_eq. destruct (process s h) as [s1 o1]. rewrite IH. reflexivity.
Qed.

(* THE refinement: every operation of the task manager, computed through the generated bodies *)
Lemma gen_tstep_eq s o : gen_tstep s o = tstep s o.
Proof.
  destruct o as [n k|b k|n|n| |tid|tid|]; try reflexivity.
  - cbv [gen_tstep tstep]. rewrite gen_register_eq by (intros _; split; reflexivity). reflexivity.
  - apply gen_register_anon_eq.
  - cbv [gen_tstep tstep]. rewrite gen_cancel_pending_eq. reflexivity.
  - apply gen_replace_eq.
  - apply gen_shutdown_eq.
  - cbv [gen_tstep tstep]. apply gen_process_all_eq.
Qed.

Lemma gen_trun_eq ops : forall s, gen_trun s ops = trun s ops.
Proof.
  induction ops as [|o r IH]; intros s; simpl; [reflexivity|].
  rewrite gen_tstep_eq. destruct (tstep s o) as [s1 o1]. rewrite IH. reflexivity.
Qed.

(* TaskManager.__init__: an empty manager that is not shut down, with "_check_tasks" registered as its first task *)
Lemma gen_init_eq : gen_init = fst (tstep init_tm (Register (Named 0) KCoro)).
Proof. vm_compute. reflexivity. Qed.

Lemma gen_shapes : gen_get_tasks_excludes_checker = true /\ gen_task_decorator_registers = true /\ gen_wait_for_tasks_shape = true.
Proof. vm_compute. repeat split; reflexivity. Qed.

(* ---- the theorems of props/C11.v, over the generated functions *)
Definition gen_reachable (s : tm) : Prop := exists ops, s = fst (gen_trun gen_init ops).

Lemma trun_cons_fst s o r : fst (trun s (o :: r)) = fst (trun (fst (tstep s o)) r).
Proof. simpl. destruct (tstep s o) as [s1 o1]. simpl. destruct (trun s1 r). reflexivity. Qed.
Lemma trun_cons_snd s o r : snd (trun s (o :: r)) = snd (tstep s o) ++ snd (trun (fst (tstep s o)) r).
Proof. simpl. destruct (tstep s o) as [s1 o1]. simpl. destruct (trun s1 r). reflexivity. Qed.

Lemma gen_reachable_reachable s : gen_reachable s -> reachable s.
Proof.
  intros [ops ->]. rewrite gen_trun_eq, gen_init_eq. exists (Register (Named 0) KCoro :: ops).
  rewrite trun_cons_fst. reflexivity.
Qed.

Lemma gen_task_name_exclusive_l : forall s tid t k iv dl hsn,
  gen_reachable s -> shut s = false -> get s tid = Some t -> live t = true ->
  (k = KFut -> iv = false /\ dl = false) ->
  gen_register s (t_name t) k iv dl hsn = (s, RRaise).
Proof.
  intros s tid t k iv dl hsn R Hs Hg L Hk. rewrite gen_register_eq by exact Hk.
  eapply task_name_exclusive_l; eauto. apply gen_reachable_reachable. exact R.
Qed.

Lemma gen_replace_order_l : forall ops old b r,
  In (ORepl (Some old) b r) (snd (gen_trun gen_init ops)) -> b = true.
Proof.
  intros ops old b r H. rewrite gen_trun_eq, gen_init_eq in H.
  apply (replace_order_l (Register (Named 0) KCoro :: ops) old b r). rewrite trun_cons_snd.
  apply in_or_app. right. exact H.
Qed.

Lemma gen_shutdown_refuses_l : forall s ops,
  gen_reachable s ->
  let s1 := gen_shutdown s in
  shut s1 = true /\ no_live s1 = true
  /\ Forall quiet_out (snd (gen_trun s1 ops))
  /\ length (tasks (fst (gen_trun s1 ops))) = length (tasks s1)
  /\ shut (fst (gen_trun s1 ops)) = true
  /\ no_live (fst (gen_trun s1 ops)) = true.
Proof.
  intros s ops R. cbv zeta. rewrite gen_trun_eq.
  assert (E : gen_shutdown s = fst (tstep s Shutdown)) by (rewrite <- gen_shutdown_eq; reflexivity).
  rewrite E. apply shutdown_refuses_l. apply gen_reachable_reachable. exact R.
Qed.

(* ------------------------------------------------------------------ listener table *)
Lemma gen_t_add_eq t l : gen_t_add t l = t_add t l.
Proof. reflexivity. Qed.

Lemma gen_t_addp_eq t l p : gen_t_addp t l p = t_addp t l p.
Proof.
  unfold gen_t_addp, t_addp, runL. destruct (Nat.eqb (length p) PREFIXLEN); cbn; [|reflexivity].
  rewrite app_nil_r. reflexivity.
Qed.

Lemma rem_fold l g m : forall acc,
  fold_left (fun acc en =>
               let differs := negb (set_eqb (without l (snd en)) g) in
               fst (fold_left (exec_entry l (fst en) (snd en)) ([LFilterEntry] ++ (if differs then [LKeepEntry] else [])) (acc, [])))
            m acc = acc ++ prune l g m.
Proof.
  induction m as [|[q ls] r IH]; intros acc; simpl; [rewrite app_nil_r; reflexivity|].
  destruct (set_eqb (without l ls) g); simpl.
  - apply IH.
  - rewrite IH. rewrite <- app_assoc. reflexivity.
Qed.

Lemma gen_t_rem_eq t l : gen_t_rem t l = t_rem t l.
Proof.
  unfold gen_t_rem, t_rem, runL. cbn. f_equal. apply (rem_fold l (without l (glob t)) (pmap t) []).
Qed.

Lemma gen_deliver_ok_eq t prefix l : gen_deliver_ok t prefix l = deliver_ok t prefix l.
Proof.
  unfold gen_deliver_ok, deliver_ok, runL.
  destruct (opened t), (plookup prefix (pmap t)), (memz l (glob t)); reflexivity.
Qed.

Lemma gen_t_notify_eq t d : gen_t_notify t d = t_notify t d.
Proof.
  unfold gen_t_notify, t_notify. cbn. apply filter_ext. intros a. apply gen_deliver_ok_eq.
Qed.

Lemma gen_lstep_eq e o : gen_lstep e o = step e o.
Proof.
  destruct o; simpl; try reflexivity.
  - rewrite !gen_t_addp_eq. reflexivity.
  - rewrite !gen_t_rem_eq. reflexivity.
  - rewrite gen_t_notify_eq. reflexivity.
Qed.

Lemma gen_lrun_eq ops : forall e, gen_lrun e ops = run e ops.
Proof. induction ops as [|o r IH]; intros e; simpl; [reflexivity|]. rewrite gen_lstep_eq. apply IH. Qed.

Lemma gen_removed_listener_silent_l : forall e l ops o,
  forwards_all (wapi (wrap e)) = true ->
  Forall (fun x => mentions l x = false) ops ->
  ~ In l (match snd (gen_lstep (gen_lrun (fst (gen_lstep e (RemL l))) ops) o) with Ok ls => ls | Raise _ => [] end).
Proof.
  intros e l ops o Hf Ha. rewrite !gen_lstep_eq, gen_lrun_eq. apply (removed_listener_silent_l e l ops o Hf Ha).
Qed.
