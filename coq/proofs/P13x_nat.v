(* C13 (extension) - further general facts about the NAT state: what a send can change. *)
From Coq Require Import ZArith List Bool Lia ZifyBool.
From IPV8V Require Import lib.PyErr gen.G13_lan model.M13_nat proofs.P13_proto proofs.P13_nat.
Import ListNotations.
Open Scope Z_scope.

(* a send either leaves the network as it is (LAN delivery, unroutable private destination, public sender,
   unknown sender) or updates exactly the sender's site record to `site_after` *)
Lemma route_cases n hid dst n' oc : route n hid dst = (n', oc) ->
  n' = n \/
  exists h s, find_host n hid = Some h /\ find_site n (h_site h) = Some s /\ is_open (s_type s) = false /\
              n' = set_site n (site_after s (h_lan h) dst).
Proof.
  intros H. unfold route in H.
  destruct (find_host n hid) as [h|] eqn:Fh; [|inversion H; auto].
  destruct (find_site n (h_site h)) as [s|] eqn:Fs; [|inversion H; auto].
  destruct (is_open (s_type s)) eqn:Ho; [inversion H; auto|].
  destruct (find _ (hosts n)); [inversion H; auto|].
  destruct (in_lan_subnets (fst dst)); [inversion H; auto|].
  right. exists h, s. repeat (split; [reflexivity || assumption|]).
  unfold site_after. destruct (map_lookup (h_lan h) (s_maps s)); inversion H; reflexivity.
Qed.

Lemma filt_add_inv e0 f e : In e (filt_add e0 f) -> e = e0 \/ In e f.
Proof.
  unfold filt_add. destruct (existsb _ f); [auto|]. intros H. apply in_app_or in H.
  destruct H as [H|[H|[]]]; auto.
Qed.

Lemma external_after_outbound n hid h s dst :
  net_wf n -> find_host n hid = Some h -> find_site n (h_site h) = Some s -> is_open (s_type s) = false ->
  external (set_site n (site_after s (h_lan h) dst)) hid = Some (s_pub s, ext_after s (h_lan h)).
Proof.
  intros W Hh Hs Ho. set (s' := site_after s (h_lan h) dst).
  pose proof (find_some _ _ Hs) as [Hsin _].
  pose proof (site_after_extends s (h_lan h) dst) as E. fold s' in E.
  assert (Ws' : site_wf s') by (apply site_after_wf; exact (wf_sites n W s Hsin)).
  assert (Hu : upd s' s = s') by (unfold upd; rewrite (ex_id _ _ E), Z.eqb_refl; reflexivity).
  unfold external. unfold find_host. rewrite set_site_hosts. fold (find_host n hid). rewrite Hh.
  rewrite (find_site_set n s s' _ W Hsin (extends_ident _ _ E)), Hs. cbn [option_map]. rewrite Hu.
  rewrite (ex_type _ _ E), Ho.
  rewrite (sw_lookup s' Ws' _ _ (site_after_maps s (h_lan h) dst)). rewrite (ex_pub _ _ E). reflexivity.
Qed.

(* what a site record of the network after a send is, in terms of the network before *)
Lemma site_after_send n hid dst n' oc t' : net_wf n -> route n hid dst = (n', oc) -> In t' (sites n') ->
  In t' (sites n) \/
  exists h s, find_host n hid = Some h /\ find_site n (h_site h) = Some s /\ is_open (s_type s) = false /\
              n' = set_site n (site_after s (h_lan h) dst) /\ t' = site_after s (h_lan h) dst.
Proof.
  intros W R Ht. destruct (route_cases n hid dst n' oc R) as [->|(h & s & Hh & Hs & Ho & ->)]; [left; exact Ht|].
  rewrite set_site_sites in Ht. apply in_map_iff in Ht. destruct Ht as (x & Hx & Hin).
  unfold upd in Hx. destruct (s_id x =? s_id (site_after s (h_lan h) dst)); [|left; subst; exact Hin].
  right. exists h, s. repeat (split; [assumption || reflexivity|]). symmetry. exact Hx.
Qed.

(* A filter entry is only ever added by outbound traffic of a host of that very site, and it names that
   host's external port and the destination of the packet: inbound packets, other sites' traffic and LAN
   traffic never open anything. *)
Lemma filter_only_by_outbound_l : forall n hid dst n' oc t' e,
  net_wf n -> route n hid dst = (n', oc) -> In t' (sites n') -> In e (s_filt t') ->
  (exists t, In t (sites n) /\ s_id t = s_id t' /\ In e (s_filt t))
  \/ (exists h, find_host n hid = Some h /\ h_site h = s_id t' /\ is_open (s_type t') = false /\
                snd e = dst /\ external n' hid = Some (s_pub t', fst e)).
Proof.
  intros n hid dst n' oc t' e W R Ht He.
  destruct (site_after_send n hid dst n' oc t' W R Ht) as [Hin|(h & s & Hh & Hs & Ho & -> & ->)].
  - left. exists t'. auto.
  - pose proof (find_some _ _ Hs) as [Hsin Hsid].
    assert (Hf : s_filt (site_after s (h_lan h) dst) = filt_add (ext_after s (h_lan h), dst) (s_filt s)).
    { unfold site_after, ext_after. destruct (map_lookup (h_lan h) (s_maps s)); reflexivity. }
    rewrite Hf in He. destruct (filt_add_inv _ _ _ He) as [->|Hold].
    + right. exists h. pose proof (site_after_extends s (h_lan h) dst) as E.
      rewrite (ex_id _ _ E), (ex_type _ _ E), (ex_pub _ _ E). cbn [fst snd].
      split; [exact Hh|]. split; [lia|]. split; [exact Ho|]. split; [reflexivity|].
      apply external_after_outbound; assumption.
    + left. exists s. split; [exact Hsin|]. split; [|exact Hold].
      symmetry. apply (ex_id _ _ (site_after_extends s (h_lan h) dst)).
Qed.

(* likewise a mapping is only ever created by the first outbound packet of the host it belongs to *)
Lemma mapping_only_by_own_outbound_l : forall n hid dst n' oc t' a p,
  net_wf n -> route n hid dst = (n', oc) -> In t' (sites n') -> In (a, p) (s_maps t') ->
  (exists t, In t (sites n) /\ s_id t = s_id t' /\ In (a, p) (s_maps t))
  \/ (exists h, find_host n hid = Some h /\ h_site h = s_id t' /\ a = h_lan h /\
                external n' hid = Some (s_pub t', p)).
Proof.
  intros n hid dst n' oc t' a p W R Ht Hm.
  destruct (site_after_send n hid dst n' oc t' W R Ht) as [Hin|(h & s & Hh & Hs & Ho & -> & ->)].
  - left. exists t'. auto.
  - pose proof (find_some _ _ Hs) as [Hsin Hsid].
    pose proof (site_after_extends s (h_lan h) dst) as E.
    unfold site_after in Hm. destruct (map_lookup (h_lan h) (s_maps s)) as [q|] eqn:L; cbn [s_maps] in Hm.
    + left. exists s. split; [exact Hsin|]. split; [symmetry; apply (ex_id _ _ E) | exact Hm].
    + apply in_app_or in Hm. destruct Hm as [Hm|[Hm|[]]].
      * left. exists s. split; [exact Hsin|]. split; [symmetry; apply (ex_id _ _ E) | exact Hm].
      * inversion Hm; subst a p. right. exists h. rewrite (ex_id _ _ E), (ex_pub _ _ E).
        split; [exact Hh|]. split; [lia|]. split; [reflexivity|].
        rewrite (external_after_outbound n hid h s dst W Hh Hs Ho). unfold ext_after. rewrite L. reflexivity.
Qed.

(* a send never touches the tables of another site *)
Lemma other_sites_untouched_l : forall n hid h dst n' oc t',
  net_wf n -> find_host n hid = Some h -> route n hid dst = (n', oc) -> In t' (sites n') ->
  s_id t' <> h_site h -> In t' (sites n).
Proof.
  intros n hid h dst n' oc t' W Hh R Ht Hne.
  destruct (site_after_send n hid dst n' oc t' W R Ht) as [Hin|(h2 & s & Hh2 & Hs & Ho & _ & ->)]; [exact Hin|].
  exfalso. rewrite Hh in Hh2. inversion Hh2; subst h2.
  pose proof (find_some _ _ Hs) as [_ Hsid].
  rewrite (ex_id _ _ (site_after_extends s (h_lan h) dst)) in Hne. lia.
Qed.

(* whatever a NAT box lets in was solicited: a delivered inbound datagram passed the filter of the box it was
   addressed to (converse of the pinhole lemma; no well-formedness needed) *)
Lemma delivered_was_solicited_l : forall n src dst hid src',
  internet n src dst = Deliver hid src' ->
  src' = src /\
  ((exists h, In h (hosts n) /\ h_id h = hid /\ h_lan h = dst /\ is_open (site_type n (h_site h)) = true)
   \/ (exists s lan, In s (sites n) /\ is_open (s_type s) = false /\ s_pub s = fst dst /\
                     map_rev (snd dst) (s_maps s) = Some lan /\
                     filter_ok (s_type s) (s_filt s) (snd dst) src = true)).
Proof.
  intros n src dst hid src' H. unfold internet in H.
  destruct (find (fun h => is_open (site_type n (h_site h)) && addr_eqb (h_lan h) dst) (hosts n)) as [h|] eqn:Fh.
  - inversion H; subst. split; [reflexivity|]. left. pose proof (find_some _ _ Fh) as [Hin Hp].
    apply andb_true_iff in Hp. destruct Hp as [Ho Ha]. apply addr_eqb_eq in Ha. exists h. auto.
  - destruct (find (fun s => negb (is_open (s_type s)) && (s_pub s =? fst dst)) (sites n)) as [s|] eqn:Fs; [|discriminate].
    destruct (fst src =? s_pub s); [discriminate|].
    destruct (map_rev (snd dst) (s_maps s)) as [lan|] eqn:Mr; [|discriminate].
    destruct (filter_ok (s_type s) (s_filt s) (snd dst) src) eqn:Fo; [|discriminate].
    match type of H with match ?X with _ => _ end = _ => destruct X; [|discriminate] end.
    inversion H; subst. split; [reflexivity|]. right.
    pose proof (find_some _ _ Fs) as [Hin Hp]. apply andb_true_iff in Hp. destruct Hp as [Ho Hpub].
    exists s, lan. apply negb_true_iff in Ho. repeat (split; [assumption || lia|]). exact Fo.
Qed.
