(* C05: the control handlers - create under an id in use, destroy from a non-adjacent sender, the relay pair
   made by created - and the table invariant over every history of operations. *)
From Coq Require Import ZArith List Bool Lia ZifyBool Arith.
From IPV8V Require Import lib.PyErr lib.Bytes lib.BE model.M02_wire model.M03_recv model.M04_onion model.M05_isolation
  spec.S04_onion_spec spec.S05_isolation_spec proofs.P04_base proofs.P05_tables.
Import ListNotations.
Open Scope Z_scope.

(* ---- dictionaries ---- *)
Lemma has_upd_same {A} k (v : A) l : has k (upd k v l) = true.
Proof. unfold has. rewrite assoc_upd_same. reflexivity. Qed.
Lemma has_upd_other {A} k k' (v : A) l : k' <> k -> has k' (upd k v l) = has k' l.
Proof. intros H. unfold has. rewrite assoc_upd_other by exact H. reflexivity. Qed.
Lemma has_del_other {A} k k' (l : list (Z * A)) : k' <> k -> has k' (del k l) = has k' l.
Proof. intros H. unfold has. rewrite assoc_del_other by exact H. reflexivity. Qed.
Lemma has_del_same {A} k (l : list (Z * A)) : has k (del k l) = false.
Proof. unfold has. rewrite assoc_del_same. reflexivity. Qed.
Lemma has_true {A} k (l : list (Z * A)) : has k l = true -> exists v, assoc k l = Some v.
Proof. unfold has. destruct (assoc k l); [eauto | discriminate]. Qed.
Lemma has_false {A} k (l : list (Z * A)) : has k l = false -> assoc k l = None.
Proof. unfold has. destruct (assoc k l); [discriminate | reflexivity]. Qed.
Lemma assoc_has {A} k (l : list (Z * A)) v : assoc k l = Some v -> has k l = true.
Proof. unfold has. intros ->. reflexivity. Qed.
Lemma assoc_del_some {A} k k' (l : list (Z * A)) v : assoc k' (del k l) = Some v -> k' <> k /\ assoc k' l = Some v.
Proof.
  intros H. destruct (Z.eq_dec k' k) as [->|Hn].
  - rewrite assoc_del_same in H. discriminate.
  - rewrite assoc_del_other in H by exact Hn. auto.
Qed.

Section Control.
Variables key nonce : Type.
Variable enc : key -> dir -> nonce -> bytes -> bytes.
Variable dec : key -> dir -> bytes -> option bytes.
Notation cnode := (cnode key).
Notation cstep := (cstep enc dec).
Notation crun := (crun enc dec).

(* ---- create under an id in use ---- *)
Lemma create_in_use_refused_l (c : cnode) src cid ident npk k cands :
  in_use (cn_tab c) cid = true \/ has cid (cn_created c) = true ->
  on_create c src cid ident npk k cands = (c, []).
Proof.
  intros H. unfold on_create. destruct (n_flags (cn_tab c)); [reflexivity|].
  destruct (has cid (cn_created c)); [reflexivity|]. destruct H as [H|H]; [|discriminate]. rewrite H. reflexivity.
Qed.

(* an accepted create only adds: one exit socket under a so far unused id *)
Lemma create_only_adds_l (c : cnode) src cid ident npk k cands c' acts :
  on_create c src cid ident npk k cands = (c', acts) -> c' <> c ->
  in_use (cn_tab c) cid = false /\ has cid (cn_created c) = false /\
  n_circuits (cn_tab c') = n_circuits (cn_tab c) /\ n_relays (cn_tab c') = n_relays (cn_tab c) /\
  exists pk k0, npk = Some pk /\ k = Some k0 /\
    n_exits (cn_tab c') = upd cid (mkES cid (mkHop pk src (Some k0)) false) (n_exits (cn_tab c)).
Proof.
  unfold on_create. destruct (n_flags (cn_tab c)). { intros H; injection H as <- <-. congruence. }
  destruct (has cid (cn_created c)). { intros H; injection H as <- <-. congruence. }
  destruct (in_use (cn_tab c) cid). { intros H; injection H as <- <-. congruence. }
  match goal with |- (if ?b then _ else _) = _ -> _ => destruct b end. { intros H; injection H as <- <-. congruence. }
  destruct k as [k0|]; [|intros H; injection H as <- <-; congruence].
  destruct npk as [pk|]; [|intros H; injection H as <- <-; congruence].
  intros H _. injection H as <- <-. cbn. repeat split; try reflexivity. eauto.
Qed.

(* ---- destroy ---- *)
Lemma destroy_bad_signature_l (c : cnode) pk pa cid reason : cstep c (ODestroy false pk pa cid reason) = Ok (c, []).
Proof. reflexivity. Qed.

Lemma remove_relay_tab (c : cnode) cid reason : cn_tab (fst (remove_relay c cid reason)) = cn_tab c.
Proof. reflexivity. Qed.
Lemma remove_exit_tab (c : cnode) cid reason : cn_tab (fst (remove_exit c cid reason)) = cn_tab c.
Proof. reflexivity. Qed.

Lemma remove_circuit_inv (c : cnode) cid reason c' acts :
  remove_circuit c cid reason = Ok (c', acts) ->
  n_relays (cn_tab c') = n_relays (cn_tab c) /\ n_exits (cn_tab c') = n_exits (cn_tab c) /\
  cn_created c' = cn_created c /\ cn_create c' = cn_create c /\
  ((c' = c) \/ exists ci, assoc cid (n_circuits (cn_tab c)) = Some ci /\ cn_pending c' = cn_pending c ++ [PCircuit cid]
      /\ n_circuits (cn_tab c') = upd cid (mkCircuit (c_goal ci) (c_ctype ci) (c_hops ci) (c_unverified ci) (c_hs ci) true (c_early ci)) (n_circuits (cn_tab c))).
Proof.
  unfold remove_circuit. destruct (assoc cid (n_circuits (cn_tab c))) as [ci|] eqn:Ea.
  - match goal with |- (do acts <- ?X; _) = _ -> _ => destruct X end; cbn [bind]; [|discriminate].
    intros H. injection H as <- <-. cbn. repeat split; try reflexivity. right. exists ci. auto.
  - intros H. injection H as <- <-. repeat split; try reflexivity. left; reflexivity.
Qed.

(* destroy_only_adjacent: a destroy touches no relay / exit entry; whatever removal it schedules is for an
   entry whose stored neighbour has the authenticated sender's key *)
Lemma destroy_nop (c : cnode) pk c' (acts : list cact) : Ok (c, []) = Ok (c', acts) -> destroy_post c pk c'.
Proof.
  intros H. injection H as <- <-. unfold destroy_post. repeat split; try reflexivity.
  exists []. rewrite app_nil_r. split; [reflexivity | intros p []].
Qed.

Lemma destroy_circ (c : cnode) pk cid ci c' acts :
  assoc cid (n_circuits (cn_tab c)) = Some ci ->
  (do h0 <- circuit_hop ci;
   if peer_eqb (mkPeer pk null_addr) (hop_peer h0) then remove_circuit c cid 0 else Ok (c, [])) = Ok (c', acts) ->
  destroy_post c pk c'.
Proof.
  intros Ha. destruct (circuit_hop ci) as [h0|] eqn:Eh; cbn [bind]; [|discriminate].
  destruct (peer_eqb (mkPeer pk null_addr) (hop_peer h0)) eqn:Ep; [|apply destroy_nop].
  intros H. destruct (remove_circuit_inv c cid 0 c' acts H) as (R1 & R2 & R3 & R4 & [->|(ci2 & Ha2 & Hp & _)]).
  - apply (destroy_nop c pk c []). reflexivity.
  - unfold destroy_post. repeat split; try assumption. exists [PCircuit cid]. split; [exact Hp|].
    intros p [<-|[]]. cbn. exists ci, h0. unfold peer_eqb in Ep. cbn in Ep. repeat split; auto. lia.
Qed.

Lemma destroy_exit (c : cnode) pk cid c' acts :
  match assoc cid (n_exits (cn_tab c)) with
  | Some es => if peer_eqb (mkPeer pk null_addr) (hop_peer (es_hop es)) then Ok (remove_exit c cid 0)
               else match assoc cid (n_circuits (cn_tab c)) with
                    | Some ci => do h0 <- circuit_hop ci;
                                 if peer_eqb (mkPeer pk null_addr) (hop_peer h0) then remove_circuit c cid 0 else Ok (c, [])
                    | None => Ok (c, []) end
  | None => match assoc cid (n_circuits (cn_tab c)) with
            | Some ci => do h0 <- circuit_hop ci;
                         if peer_eqb (mkPeer pk null_addr) (hop_peer h0) then remove_circuit c cid 0 else Ok (c, [])
            | None => Ok (c, []) end
  end = Ok (c', acts) -> destroy_post c pk c'.
Proof.
  destruct (assoc cid (n_circuits (cn_tab c))) as [ci|] eqn:Ec; destruct (assoc cid (n_exits (cn_tab c))) as [es|] eqn:Ee;
    try (destruct (peer_eqb (mkPeer pk null_addr) (hop_peer (es_hop es))) eqn:Ep);
    try apply destroy_nop; try apply (destroy_circ c pk cid ci c' acts Ec);
    (intros H; injection H as <- <-; unfold destroy_post; cbn; repeat split; try reflexivity;
     exists [PExit cid]; split; [reflexivity|]; intros p [<-|[]]; cbn; exists es;
     unfold peer_eqb in Ep; cbn in Ep; split; [exact Ee | lia]).
Qed.

Lemma destroy_only_adjacent_l (c : cnode) pk cid reason c' acts :
  on_destroy c pk cid reason = Ok (c', acts) -> destroy_post c pk c'.
Proof.
  unfold on_destroy.
  destruct (assoc cid (n_relays (cn_tab c))) as [r|] eqn:Er; [|apply destroy_exit].
  destruct (assoc (rr_cid r) (n_relays (cn_tab c))) as [pr|] eqn:Epr; [|apply destroy_exit].
  destruct (peer_eqb (mkPeer pk null_addr) (hop_peer (rr_hop pr))) eqn:Ep; [|apply destroy_exit].
  intros H. cbn in H. injection H as <- <-. unfold destroy_post. cbn. repeat split; try reflexivity.
  exists [PRelay cid; PRelay (rr_cid r)]. split; [rewrite <- app_assoc; reflexivity|].
  unfold peer_eqb in Ep. cbn in Ep.
  intros p [<-|[<-|[]]]; cbn.
  - exists r. split; [exact Er|]. right. exists pr. split; [exact Epr | lia].
  - exists pr. split; [exact Epr|]. left. lia.
Qed.

(* ---- the timer pops exactly the scheduled ids ---- *)
Lemma pop_sub (t : node key) p :
  n_prefix (pop_pending t p) = n_prefix t /\
  (forall x v, assoc x (n_relays (pop_pending t p)) = Some v -> assoc x (n_relays t) = Some v) /\
  (forall x v, assoc x (n_exits (pop_pending t p)) = Some v -> assoc x (n_exits t) = Some v) /\
  (forall x v, assoc x (n_circuits (pop_pending t p)) = Some v -> assoc x (n_circuits t) = Some v).
Proof.
  destruct p as [y|y|y]; cbn; repeat split; auto; intros x v H; apply assoc_del_some in H; tauto.
Qed.

Lemma fold_pop_sub ps : forall (t : node key),
  (forall x v, assoc x (n_relays (fold_left pop_pending ps t)) = Some v -> assoc x (n_relays t) = Some v) /\
  (forall x v, assoc x (n_exits (fold_left pop_pending ps t)) = Some v -> assoc x (n_exits t) = Some v) /\
  (forall x v, assoc x (n_circuits (fold_left pop_pending ps t)) = Some v -> assoc x (n_circuits t) = Some v).
Proof.
  induction ps as [|p tl IH]; intros t; cbn [fold_left]; [auto|].
  destruct (IH (pop_pending t p)) as (I1 & I2 & I3). destruct (pop_sub t p) as (_ & P1 & P2 & P3).
  repeat split; intros x v H; [apply P1, I1, H | apply P2, I2, H | apply P3, I3, H].
Qed.

Lemma fold_pop_exit_gone ps : forall (t : node key) x,
  In (PExit x) ps -> assoc x (n_exits (fold_left pop_pending ps t)) = None.
Proof.
  induction ps as [|p tl IH]; intros t x Hin; [destruct Hin|].
  cbn [fold_left]. destruct Hin as [->|Hin]; [|apply IH; exact Hin].
  destruct (assoc x (n_exits (fold_left pop_pending tl (pop_pending t (PExit x))))) as [v|] eqn:E; [|reflexivity].
  apply (proj1 (proj2 (fold_pop_sub tl _))) in E. cbn in E. rewrite assoc_del_same in E. discriminate.
Qed.

(* an entry that disappears at a timer tick was scheduled for removal *)
Lemma timer_pops_only_pending_l (c : cnode) c' acts :
  cstep c OTimer = Ok (c', acts) ->
  (forall x v, assoc x (n_relays (cn_tab c')) = Some v -> assoc x (n_relays (cn_tab c)) = Some v) /\
  (forall x v, assoc x (n_exits (cn_tab c')) = Some v -> assoc x (n_exits (cn_tab c)) = Some v) /\
  (forall x v, assoc x (n_relays (cn_tab c)) = Some v -> assoc x (n_relays (cn_tab c')) = Some v \/ In (PRelay x) (cn_pending c)) /\
  (forall x v, assoc x (n_exits (cn_tab c)) = Some v -> assoc x (n_exits (cn_tab c')) = Some v \/ In (PExit x) (cn_pending c)).
Proof.
  cbn [M05_isolation.cstep]. intros H. injection H as <- <-. cbn [cn_tab].
  destruct (fold_pop_sub (cn_pending c) (cn_tab c)) as (F1 & F2 & _).
  split; [exact F1|]. split; [exact F2|].
  generalize (cn_pending c) (cn_tab c). clear.
  induction l as [|p tl IH]; intros t; cbn [fold_left].
  - split; intros; left; assumption.
  - destruct (IH (pop_pending t p)) as [I1 I2]. split; intros x v H.
    + destruct p as [y|y|y]; cbn in *.
      * destruct (Z.eq_dec x y) as [->|Hn]; [right; left; reflexivity|].
        destruct (I1 x v) as [G|G]; [rewrite assoc_del_other by exact Hn; exact H | left; exact G | right; right; exact G].
      * destruct (I1 x v H) as [G|G]; [left; exact G | right; right; exact G].
      * destruct (I1 x v H) as [G|G]; [left; exact G | right; right; exact G].
    + destruct p as [y|y|y]; cbn in *.
      * destruct (I2 x v H) as [G|G]; [left; exact G | right; right; exact G].
      * destruct (Z.eq_dec x y) as [->|Hn]; [right; left; reflexivity|].
        destruct (I2 x v) as [G|G]; [rewrite assoc_del_other by exact Hn; exact H | left; exact G | right; right; exact G].
      * destruct (I2 x v H) as [G|G]; [left; exact G | right; right; exact G].
Qed.

(* ---- created at a relay: a mutually inverse pair under the exit socket's keys ---- *)
Lemma created_makes_inverse_pair_l (c : cnode) src cid ident rq es :
  assoc ident (cn_create c) = Some rq -> assoc (cr_from rq) (n_exits (cn_tab c)) = Some es ->
  has (cr_from rq) (n_relays (cn_tab c)) = false -> cr_to rq <> cr_from rq ->
  let c' := fst (on_created c src cid ident) in
  exists fw bw,
    assoc (cr_from rq) (n_relays (cn_tab c')) = Some fw /\ assoc (cr_to rq) (n_relays (cn_tab c')) = Some bw /\
    rr_cid fw = cr_to rq /\ rr_cid bw = cr_from rq /\ rr_dir fw = FORWARD /\ rr_dir bw = BACKWARD /\
    h_keys (rr_hop fw) = h_keys (es_hop es) /\ h_keys (rr_hop bw) = h_keys (es_hop es) /\
    h_pk (rr_hop bw) = pr_pk (cr_peer rq) /\ h_pk (rr_hop fw) = pr_pk (cr_to_peer rq) /\
    n_exits (cn_tab c') = n_exits (cn_tab c) /\ n_circuits (cn_tab c') = n_circuits (cn_tab c) /\
    In (PExit (cr_from rq)) (cn_pending c').
Proof.
  intros Ha He Hnr Hne c'. unfold c', on_created. rewrite Ha, He, Hnr. cbn.
  eexists; eexists. rewrite assoc_upd_same. rewrite assoc_upd_other by exact Hne. rewrite assoc_upd_same.
  repeat split; try reflexivity. apply in_or_app. right. left. reflexivity.
Qed.

End Control.
